package main

// Hash keys of collections: "a Hash is a map keyed by value equality" also when the keys are themselves hashes,
// arrays or entries - equal keys that are different trees (the same entries in another order, at any depth; an entry
// and its two element array) must be ONE key, and different keys that print alike (1 and '1', true and 'true',
// undef and 'undef' and '') must stay different keys.
//
// G: pairs (a, b) of key values: all pairs over the alphabet collh.AlikeKeys() and its wrappings; random trees v
// against a reshuffled copy (entries of every hash inside permuted, entries and two element arrays exchanged: equal)
// and against a copy with one scalar replaced by a look-alike of another kind (not equal).
// D: for every pair a history on the real Hash/Array through that key pair - IncludesKey, Get, Merge, Delete,
// DeleteAll, Add, HashFromArray (flat and pairs), Unique, Equals - compared with the reference keyed by Equals
// (collh.Ref.ByEquals) and with the invariant "no two equal keys".
// M: the same histories against Model/Coll.v, and the bytes of px.ToKey(a), px.ToKey(b) against the model's key
// (Model/CollKey.v) together with `keq a b = (same bytes)` (cases_key).

import (
	"fmt"

	"github.com/lyraproj/pcore/px"

	"verifharness/collh"
	"verifharness/lib"
)

func newKeyCases() *lib.CasesFile {
	return &lib.CasesFile{Imports: []string{"Model.Base", "Model.Coll", "Corr.CorrC09"}, Typ: "(pv * str) * (pv * str)",
		Obligations: map[string]string{"key_model": "keypair_mismatches cases"}}
}

func keyInput(a, b *collh.PV) map[string]interface{} {
	return map[string]interface{}{"kind": "key", "a": a, "b": b}
}

// keyBytes: px.ToKey of a fresh implementation value
func keyBytes(p *collh.PV) (k string, err string) {
	defer func() {
		if r := recover(); r != nil {
			err = fmt.Sprint(r)
		}
	}()
	return string(px.ToKey(collh.Lit(p))), ""
}

func keyCase(a, b *collh.PV) (string, bool) {
	ka, e1 := keyBytes(a)
	kb, e2 := keyBytes(b)
	if e1 != "" || e2 != "" {
		return "", false
	}
	return lib.GPair(lib.GPair(a.Gallina(), lib.GStr(ka)), lib.GPair(b.Gallina(), lib.GStr(kb))), true
}

// keyHistory: the operations of a Hash / an Array through the key pair (a, b), in three parts (lookups and Merge;
// Delete, DeleteAll, Add; construction from arrays, Unique, Equals)
func keyHistory(a, b *collh.PV, route, part int) []collh.Op {
	I, S, A, E, H := collh.In, collh.St, collh.Ar, collh.En, collh.Ha
	recv := H(E(S("x"), I(0)), E(a, I(1)), E(S("y"), I(2)))
	first := collh.Op{Kind: "Lit", P: recv}
	switch route {
	case 1:
		first = collh.Op{Kind: "Build", I: 5, P: recv}
	case 2:
		if recv.Parsable() {
			first = collh.Op{Kind: "Parse", P: recv}
		}
	}
	switch part {
	case 0:
		return []collh.Op{first, {Kind: "Lit", P: b}, {Kind: "Includes", R: 0, X: 1}, {Kind: "Get", R: 0, X: 1},
			{Kind: "Lit", P: H(E(S("z"), I(7)), E(b, I(9)))}, {Kind: "Merge", R: 0, X: 4},
			{Kind: "Len", R: 5}, {Kind: "Keys", R: 5}, {Kind: "Get", R: 5, X: 1}}
	case 1:
		return []collh.Op{first, {Kind: "Lit", P: b}, {Kind: "Delete", R: 0, X: 1}, {Kind: "Len", R: 2},
			{Kind: "Lit", P: A(b, S("y"), b)}, {Kind: "DeleteAll", R: 0, X: 4}, {Kind: "Keys", R: 5},
			{Kind: "Lit", P: E(b, I(5))}, {Kind: "Add", R: 0, X: 7}, {Kind: "Len", R: 8}}
	}
	return []collh.Op{{Kind: "Lit", P: a}, {Kind: "Lit", P: b},
		{Kind: "Lit", P: A(a, S("v"), b, S("w"))}, {Kind: "HashFromArray", R: 2},
		{Kind: "Lit", P: A(A(a, S("v")), E(b, S("w")))}, {Kind: "HashFromArray", R: 4},
		{Kind: "Lit", P: A(a, S("q"), b, a)}, {Kind: "Unique", R: 6}, {Kind: "Delete", R: 6, X: 1},
		{Kind: "Equals", R: 0, X: 1}, {Kind: "Equals", R: 1, X: 0}, {Kind: "Includes", R: 3, X: 1}, {Kind: "Get", R: 5, X: 0},
		first, {Kind: "AddAll", R: 13, X: 4}, {Kind: "Len", R: 14}}
}

// reshuffle: an equal value that is another tree
func reshuffle(g *lib.Rng, p *collh.PV) *collh.PV {
	switch p.K {
	case "a":
		if len(p.L) == 2 && g.Chance(1, 4) {
			return collh.En(reshuffle(g, p.L[0]), reshuffle(g, p.L[1]))
		}
		out := &collh.PV{K: "a", L: make([]*collh.PV, len(p.L))}
		for i, c := range p.L {
			out.L[i] = reshuffle(g, c)
		}
		return out
	case "e":
		if g.Chance(1, 4) {
			return collh.Ar(reshuffle(g, p.L[0]), reshuffle(g, p.L[1]))
		}
		return collh.En(reshuffle(g, p.L[0]), reshuffle(g, p.L[1]))
	case "h":
		out := &collh.PV{K: "h", L: make([]*collh.PV, len(p.L))}
		for i, j := range perm(g, len(p.L)) {
			out.L[i] = collh.En(reshuffle(g, p.L[j].L[0]), reshuffle(g, p.L[j].L[1]))
		}
		return out
	}
	return p
}

func perm(g *lib.Rng, n int) []int {
	p := make([]int, n)
	for i := range p {
		p[i] = i
	}
	for i := n - 1; i > 0; i-- {
		j := g.Intn(i + 1)
		p[i], p[j] = p[j], p[i]
	}
	return p
}

// lookAlike: a scalar of another kind that prints like p (nil when there is none)
func lookAlike(p *collh.PV) *collh.PV {
	switch p.K {
	case "i":
		return collh.St(fmt.Sprint(p.I))
	case "b":
		return collh.St(fmt.Sprint(p.B))
	case "u":
		return collh.St("undef")
	case "s":
		switch p.S {
		case "1":
			return collh.In(1)
		case "2":
			return collh.In(2)
		case "true":
			return collh.Bo(true)
		case "undef", "":
			return collh.U()
		}
	}
	return nil
}

// disguise: a copy in which the n-th scalar that has a look-alike is replaced by it; false when there are fewer
func disguise(p *collh.PV, n *int) (*collh.PV, bool) {
	if len(p.L) == 0 && p.K != "a" && p.K != "h" {
		if l := lookAlike(p); l != nil {
			if *n == 0 {
				*n = -1
				return l, true
			}
			*n--
		}
		return p, false
	}
	out := &collh.PV{K: p.K, L: append([]*collh.PV{}, p.L...)}
	for i, c := range p.L {
		if d, ok := disguise(c, n); ok {
			out.L[i] = d
			return out, true
		}
	}
	return p, false
}

// alikeScalars / alikeHash: random trees over scalars that print alike
var alikeScalars = []*collh.PV{collh.In(1), collh.St("1"), collh.Bo(true), collh.St("true"), collh.U(), collh.St("undef"),
	collh.St(""), collh.In(2), collh.St("2"), collh.St("a")}

func randAlike(g *lib.Rng, depth int) *collh.PV {
	x := g.Intn(10)
	if depth <= 0 || x < 3 {
		return alikeScalars[g.Intn(len(alikeScalars))]
	}
	if x < 5 {
		a := &collh.PV{K: "a"}
		for i, n := 0, g.Intn(4); i < n; i++ {
			a.L = append(a.L, randAlike(g, depth-1))
		}
		return a
	}
	h := &collh.PV{K: "h"}
	for i, n := 0, 1+g.Intn(4); i < n; i++ {
		k := randAlike(g, depth-1)
		dup := false
		for _, e := range h.L {
			if collh.Veq(e.L[0], k) {
				dup = true
			}
		}
		if !dup {
			h.L = append(h.L, collh.En(k, randAlike(g, depth-1)))
		}
	}
	return h
}

func (r *collRunner) keyPair(kf *lib.CasesFile, a, b *collh.PV, n int, toCoq bool, family string) {
	// every pair goes through the three parts; of the chosen pairs one part in turn goes to the operations' model
	// (the values are large), the keys of both values to the key model
	r.keyHist++
	for part := 0; part < 3; part++ {
		r.check(keyHistory(a, b, n%3, part), toCoq && r.keyHist%3 == part, family)
	}
	switch {
	case collh.Veq(a, b) && !a.Equal(b):
		r.res.Count("coll.law.key-pair.equal-but-another-tree")
	case collh.Veq(a, b):
		r.res.Count("coll.law.key-pair.identical")
	default:
		r.res.Count("coll.law.key-pair.different")
	}
	if toCoq {
		if c, ok := keyCase(a, b); ok {
			kf.Add(c, keyInput(a, b))
		}
	}
}

func keyPairs(r *collRunner, rng *lib.Rng) {
	I, S, A, E, H := collh.In, collh.St, collh.Ar, collh.En, collh.Ha
	kf := newKeyCases()
	base := collh.AlikeKeys()
	pool := append([]*collh.PV{}, base...)
	// wrappings of the hashes of the alphabet: inside an array, as a key and as a value of an inner hash, in an entry
	for _, k := range base {
		if k.K == "h" {
			pool = append(pool, A(k), H(E(k, I(1))), H(E(S("v"), k)), A(S("p"), A(k)))
		}
	}
	pool = append(pool, H(), A(), A(H()), H(E(H(), A())))
	n := 0
	scalar := func(p *collh.PV) bool { return p.K != "a" && p.K != "h" && p.K != "e" }
	for i, a := range pool {
		for j, b := range pool {
			n++
			// every pair of equal keys, every pair over the base alphabet, a sample of the rest
			eq := collh.Veq(a, b)
			inBase := i < len(base) && j < len(base)
			if !eq && n%17 != 0 && !inBase {
				continue
			}
			// to the models: the pairs of equal keys that are different trees, the base pairs with a collection (once)
			toCoq := (eq && !a.Equal(b) && n%3 == 0) || (inBase && i <= j && !(scalar(a) && scalar(b)) && n%4 == 0)
			r.keyPair(kf, a, b, n, toCoq, "key-pairs")
		}
	}
	r.res.Extra["coll_key_pairs_alphabet"] = n
	// an entry against its two element array as keys, with such hashes inside
	for i, k := range base {
		if k.K == "h" {
			r.keyPair(kf, A(S("p"), k), A(S("p"), base[(i+1)%len(base)]), i, true, "key-pairs")
		}
	}
	m := 400
	if r.cfg.Thorough() {
		m = 30000
	}
	for i := 0; i < m; i++ {
		g := rng.Fork()
		v := randAlike(g, 3)
		if v.K != "h" && v.K != "a" {
			v = H(E(v, randAlike(g, 2)), E(S("k"), randAlike(g, 2)))
		}
		w := reshuffle(g, v)
		if w.K == "e" {
			w = collh.Ar(w.L[0], w.L[1])
		}
		r.keyPair(kf, v, w, i, i%8 == 0, "key-pairs-random")
		k := g.Intn(4)
		if d, ok := disguise(w, &k); ok && !d.HasRepeatedKey() {
			r.keyPair(kf, v, d, i, i%8 == 1, "key-pairs-random")
		}
	}
	r.res.CorrFiles = append(r.res.CorrFiles, kf.WriteTo(r.cfg.Out, "cases_key"))
}

func replayKey(cfg *lib.Config, res *lib.Result, in interface{}, kf *lib.CasesFile, ccf *lib.CasesFile) {
	var x struct {
		A *collh.PV `json:"a"`
		B *collh.PV `json:"b"`
	}
	lib.Remarshal(in, &x)
	ka, _ := keyBytes(x.A)
	kb, _ := keyBytes(x.B)
	fmt.Printf("  a = %s  key %q\n  b = %s  key %q\n  same key: %v, Equals: %v\n", x.A, ka, x.B, kb, ka == kb, collh.Veq(x.A, x.B))
	if c, ok := keyCase(x.A, x.B); ok {
		kf.Add(c, in)
	}
	for part := 0; part < 3; part++ {
		replayColl(cfg, res, collInput(keyHistory(x.A, x.B, 0, part)), ccf)
	}
}
