package main

import (
	"bytes"
	"fmt"
	"runtime"
	"strconv"
	"sync"
	"time"

	"github.com/lyraproj/pcore/pcore"
	"github.com/lyraproj/pcore/px"
	"github.com/lyraproj/pcore/verifhook"
)

// A deterministic scheduler for real goroutines.  Every thread of a program is a goroutine that runs its operations
// on the real loaders.  At every verifhook.Point the goroutine parks and reports to the scheduler; the scheduler
// lets exactly one goroutine run at a time, the one that the schedule names, until it parks again (next yield
// point, or the end of the operation).  A goroutine parked in front of a mutex that is held (PointLock) is not
// released: that schedule step is a no-op, as it is in the model (Conc.seg: PBeforeLock).

type thr struct {
	id      int
	goid    int64
	resume  chan struct{}
	ops     []opT
	results []opRes
	opIdx   int // operation in progress (or next to start)
	inOp    bool
	site    string
	mu      *sync.Mutex
	inParse bool // between "instantiate.marked" and "instantiate.unlocked": yield points of nested loads pass through
	inInst  bool // between "instantiate.checked" and "instantiate.unlocked"
	parses  int
	done    bool
	// the current Load returned-not-found candidates: did another goroutine instantiate the same file meanwhile?
	overlapped map[int]bool // op index -> overlapped an instantiation of the same (loader, name) by another goroutine
	steps      int
}

type report struct {
	t    *thr
	kind int // 0: parked at a yield point, 1: operation finished
}

var (
	gmapLock sync.RWMutex
	gmap     = map[int64]*thr{}
	reports  = make(chan report)
)

func goid() int64 {
	var buf [64]byte
	n := runtime.Stack(buf[:], false)
	// "goroutine 123 [running]:"
	f := bytes.Fields(buf[:n])
	id, _ := strconv.ParseInt(string(f[1]), 10, 64)
	return id
}

func currentThread() *thr {
	id := goid()
	gmapLock.RLock()
	t := gmap[id]
	gmapLock.RUnlock()
	return t
}

func hookHandler(site string, mu *sync.Mutex) {
	t := currentThread()
	if t == nil {
		return // not a goroutine of the program under schedule (set-up, sequential oracle)
	}
	if t.inParse && site != "instantiate.unlocked" {
		return
	}
	switch site {
	case "instantiate.checked":
		t.inInst = true
	case "instantiate.unlocked":
		t.inParse = false
		t.inInst = false
	}
	t.site, t.mu = site, mu
	reports <- report{t, 0}
	<-t.resume
	t.site, t.mu = "", nil
	if site == "instantiate.marked" {
		t.inParse = true
	}
}

func installHook() { verifhook.SetHandler(hookHandler) }

type runResult struct {
	Results  [][]opRes
	Parses   []int
	Sched    []int   // the schedule as executed, including the steps that were no-ops
	Enabled  [][]int // Enabled[i]: the threads that could move at step i
	Deadlock bool
	Hang     string
	Steps    int
	Overlap  []map[int]bool
	World    *world
	Counts   map[string]int
}

// policy picks the thread to run at step i among the enabled ones (never empty); it may also pick a thread that is
// not enabled (finished or blocked) when it replays a given schedule: that step is then a no-op.
type policy func(i int, enabled []int) int

func prefixPolicy(prefix []int) policy {
	return func(i int, enabled []int) int {
		if i < len(prefix) {
			return prefix[i]
		}
		return enabled[0]
	}
}

const maxSteps = 400

func runSchedule(cfg []ldefT, prog [][]opT, pick policy) *runResult {
	w := newWorld(cfg)
	rr := &runResult{World: w}
	ths := make([]*thr, len(prog))
	for i, ops := range prog {
		t := &thr{id: i, resume: make(chan struct{}), ops: ops, overlapped: map[int]bool{}}
		ths[i] = t
		if len(ops) == 0 {
			t.done = true
			continue
		}
		started := make(chan struct{})
		go func() {
			t.goid = goid()
			gmapLock.Lock()
			gmap[t.goid] = t
			gmapLock.Unlock()
			defer func() {
				gmapLock.Lock()
				delete(gmap, t.goid)
				gmapLock.Unlock()
			}()
			c := pcore.NewContext(px.StaticLoader(), pcore.Logger())
			close(started)
			for i, o := range t.ops {
				<-t.resume
				t.opIdx, t.inOp = i, true
				r := w.apply(c, o)
				t.results = append(t.results, r)
				t.inOp = false
				if i == len(t.ops)-1 {
					t.done = true
				}
				reports <- report{t, 1}
			}
		}()
		<-started
	}
	isEnabled := func(t *thr) bool {
		if t.done {
			return false
		}
		if t.mu != nil {
			if !t.mu.TryLock() {
				return false
			}
			t.mu.Unlock()
		}
		return true
	}
	fl := func(t *thr) (int, int) { // the (file loader, name) that the operation in progress of t can instantiate
		if !t.inOp || t.ops[t.opIdx].Kind != "Load" {
			return -1, -1
		}
		o := t.ops[t.opIdx]
		return w.fileLevel(o.L, o.N), o.N
	}
	for step := 0; ; step++ {
		var enabled []int
		alive := false
		for _, t := range ths {
			if !t.done {
				alive = true
			}
			if isEnabled(t) {
				enabled = append(enabled, t.id)
			}
		}
		if !alive {
			break
		}
		if len(enabled) == 0 {
			rr.Deadlock = true
			break
		}
		if step >= maxSteps {
			rr.Hang = "more than the maximal number of steps"
			break
		}
		k := pick(step, enabled)
		rr.Sched = append(rr.Sched, k)
		rr.Enabled = append(rr.Enabled, enabled)
		if k < 0 || k >= len(ths) || !isEnabled(ths[k]) {
			continue // finished or blocked: no-op
		}
		t := ths[k]
		t.steps++
		t.resume <- struct{}{}
		select {
		case rep := <-reports:
			if rep.t != t {
				rr.Hang = fmt.Sprintf("goroutine %d reported while goroutine %d was scheduled", rep.t.id, t.id)
			}
		case <-time.After(10 * time.Second):
			rr.Hang = fmt.Sprintf("goroutine %d did not reach a yield point within 10s (operation %s)", t.id, t.ops[t.opIdx])
		}
		if rr.Hang != "" {
			break
		}
		// bookkeeping for the known-finding matcher: which operations overlapped an instantiation by someone else
		for _, a := range ths {
			ad, an := fl(a)
			if ad < 0 {
				continue
			}
			for _, b := range ths {
				if b != a && b.inInst {
					if bd, bn := fl(b); bd == ad && bn == an {
						a.overlapped[a.opIdx] = true
					}
				}
			}
		}
	}
	rr.Steps = len(rr.Sched)
	for _, t := range ths {
		rr.Results = append(rr.Results, t.results)
		rr.Parses = append(rr.Parses, t.parses)
		rr.Overlap = append(rr.Overlap, t.overlapped)
	}
	if !rr.Deadlock && rr.Hang == "" {
		w.resolve(rr.Results)
	}
	rr.Counts = w.parseCounts()
	return rr
}
