package main

import (
	"bytes"
	"fmt"
	"os"
	"runtime"
	"strconv"
	"strings"
	"sync"
	"time"

	"github.com/lyraproj/pcore/pcore"
	"github.com/lyraproj/pcore/px"
	"github.com/lyraproj/pcore/verifhook"
)

// A deterministic scheduler for real goroutines.  Every thread of a program is a goroutine that runs its operations
// on the real loaders.  At every verifhook.Point the goroutine parks and reports to the scheduler; the scheduler
// lets exactly one goroutine run at a time, the one that the schedule names, until it parks again (next yield
// point, or the end of the operation).  A goroutine parked in front of a mutex that is held (PointLock) is not
// released: that schedule step is a no-op, as it is in the model (Conc.seg: PBeforeLock).

type thr struct {
	id      int
	goid    int64
	resume  chan struct{}
	jobs    []job
	results []opRes
	opIdx   int // operation in progress (or next to start)
	inOp    bool
	site    string
	mu      *sync.Mutex
	inParse bool // between "instantiate.marked" and "instantiate.unlocked": yield points of nested loads pass through
	quiet   bool // rendering an observation: yield points pass through (lazy.go)
	inInst  bool // between "instantiate.checked" and "instantiate.unlocked"
	parses  int
	done    bool
	// the current Load returned-not-found candidates: did another goroutine instantiate the same file meanwhile?
	overlapped map[int]bool // op index -> overlapped an instantiation of the same (loader, name) by another goroutine
	steps      int
	doneAt     []int
	windowed   map[int]bool  // op index -> the operation parked in the window of a lazily filled cache (lazy.go)
	rep        chan report   // the channel of the run that this goroutine belongs to
	cbOrder    map[int][]int // op index -> the names for which the predicate of a Discover asked the loader, in the order of the calls
}

// job is one operation of a thread
type job struct {
	name string
	run  func(c px.Context) opRes
}

type report struct {
	t    *thr
	kind int // 0: parked at a yield point, 1: operation finished
}

var (
	gmapLock sync.RWMutex
	gmap     = map[int64]*thr{}
)

func goid() int64 {
	var buf [64]byte
	n := runtime.Stack(buf[:], false)
	// "goroutine 123 [running]:"
	f := bytes.Fields(buf[:n])
	id, _ := strconv.ParseInt(string(f[1]), 10, 64)
	return id
}

func currentThread() *thr {
	id := goid()
	gmapLock.RLock()
	t := gmap[id]
	gmapLock.RUnlock()
	return t
}

func hookHandler(site string, mu *sync.Mutex) {
	t := currentThread()
	if t == nil {
		return // not a goroutine of the program under schedule (set-up, sequential oracle)
	}
	if t.quiet || (t.inParse && site != "instantiate.unlocked") {
		return
	}
	if strings.HasPrefix(site, "resolve.") != (siteFilter == "resolve.") {
		return // the yield points of resolveResolvables are for the programs of reg.go, and only they for them
	}
	switch site {
	case "instantiate.checked":
		t.inInst = true
	case "instantiate.unlocked":
		t.inParse = false
		t.inInst = false
	}
	if strings.HasSuffix(site, ".window") {
		t.windowed[t.opIdx] = true // this operation found the cache empty and builds the object itself
	}
	park(t, site, mu)
	if site == "instantiate.marked" {
		t.inParse = true
	}
}

func park(t *thr, site string, mu *sync.Mutex) {
	t.site, t.mu = site, mu
	if debugSites {
		fmt.Fprintf(os.Stderr, "  [goroutine %d parks at %s]\n", t.id, site)
	}
	t.rep <- report{t, 0}
	<-t.resume
	t.site, t.mu = "", nil
}

// rwHookHandler: a place between the look-up and the update of a structure guarded by mu (basicLoader.SetEntry:
// "setentry.after-lookup").  Where mu is held there - by this goroutine: every other goroutine of the program is
// parked, and the code parks nowhere inside a critical section - the two are one critical section and nothing can
// come between them: the goroutine goes on.  Where mu is free the code has a window there, and the goroutine parks.
func rwHookHandler(site string, mu *sync.RWMutex) {
	t := currentThread()
	if t == nil || t.quiet || t.inParse || siteFilter != "" {
		return
	}
	if !mu.TryLock() {
		return
	}
	mu.Unlock()
	park(t, site, nil)
}

var debugSites = os.Getenv("C13_DEBUG_SITES") != ""

// siteFilter: when set, only the yield points with this prefix park the goroutines of the running program (the
// programs of reg.go stop at "resolve.*" only: what a Do resolves and looks at passes through the loaders' points)
var siteFilter = ""

func installHook() {
	verifhook.SetHandler(hookHandler)
	verifhook.SetRWHandler(rwHookHandler)
}

type runResult struct {
	Results   [][]opRes
	Parses    []int
	Sched     []int   // the schedule as executed, including the steps that were no-ops
	Enabled   [][]int // Enabled[i]: the threads that could move at step i
	Deadlock  bool
	Hang      string
	Steps     int
	Overlap   []map[int]bool
	World     *world
	Counts    map[string]int
	DoneAt    [][]int // DoneAt[t][i]: the schedule step at which operation i of thread t returned
	Windowed  []map[int]bool
	Abandoned string          // the run left the control of the scheduler without being a deadlock (see runJobs)
	CbOrder   []map[int][]int // CbOrder[t][i]: names for which the predicate of Discover operation i of thread t asked the loader, in call order
}

// policy picks the thread to run at step i among the enabled ones (never empty); it may also pick a thread that is
// not enabled (finished or blocked) when it replays a given schedule: that step is then a no-op.
type policy func(i int, enabled []int) int

func prefixPolicy(prefix []int) policy {
	return func(i int, enabled []int) int {
		if i < len(prefix) {
			return prefix[i]
		}
		return enabled[0]
	}
}

const maxSteps = 400

// runs that did not finish (deadlock, or a goroutine that blocked where there is no yield point).  Each of them is a
// violation and leaves goroutines behind, and a blocked goroutine costs the full waiting time: after a few of
// them the exploration stops starting new runs (stuck()).
var unfinishedRuns = 0

const maxUnfinishedRuns = 8

const hangAfter = 6 * time.Second
const confirmAfter = 2 * time.Second

func stuck() bool { return unfinishedRuns >= maxUnfinishedRuns }

func runSchedule(cfg []ldefT, prog [][]opT, pick policy) *runResult {
	w := newWorld(cfg)
	jobs := make([][]job, len(prog))
	for t, ops := range prog {
		for _, o := range ops {
			o := o
			jobs[t] = append(jobs[t], job{o.String(), func(c px.Context) opRes { return w.apply(c, o) }})
		}
	}
	fl := func(t *thr, idx int) (int, int) { // the (file loader, name) that operation idx of t can instantiate
		if idx >= len(prog[t.id]) || prog[t.id][idx].Kind != "Load" {
			return -1, -1
		}
		o := prog[t.id][idx]
		return w.fileLevel(o.L, o.N, o.S), o.N
	}
	// bookkeeping for the known-finding matcher: which operations ran (a segment) while another goroutine was
	// instantiating the same (loader, name)
	before := func(t *thr, ths []*thr) {
		idx := len(t.results)
		d, n := fl(t, idx)
		if d < 0 {
			return
		}
		for _, b := range ths {
			if b != t && b.inInst {
				if bd, bn := fl(b, len(b.results)); bd == d && bn == n {
					t.overlapped[idx] = true
				}
			}
		}
	}
	rr := runJobs(jobs, pick, before)
	rr.World = w
	if !rr.Deadlock && rr.Hang == "" && rr.Abandoned == "" {
		w.resolve(rr.Results)
	}
	rr.Counts = w.parseCounts()
	return rr
}

func runJobs(jobs [][]job, pick policy, before func(t *thr, ths []*thr)) *runResult {
	rr := &runResult{}
	ths := make([]*thr, len(jobs))
	reports := make(chan report) // (of this run: a goroutine left behind by an earlier run reports to that run's channel)
	for i, js := range jobs {
		t := &thr{id: i, resume: make(chan struct{}), jobs: js, overlapped: map[int]bool{}, windowed: map[int]bool{}, rep: reports, cbOrder: map[int][]int{}}
		ths[i] = t
		if len(js) == 0 {
			t.done = true
			continue
		}
		started := make(chan struct{})
		go func() {
			t.goid = goid()
			gmapLock.Lock()
			gmap[t.goid] = t
			gmapLock.Unlock()
			defer func() {
				gmapLock.Lock()
				delete(gmap, t.goid)
				gmapLock.Unlock()
			}()
			c := pcore.NewContext(px.StaticLoader(), pcore.Logger())
			close(started)
			for i, j := range t.jobs {
				<-t.resume
				t.opIdx, t.inOp = i, true
				r := j.run(c)
				t.results = append(t.results, r)
				t.inOp = false
				// (an operation that escaped with a panic may not have passed "instantiate.unlocked")
				t.inParse, t.inInst = false, false
				if i == len(t.jobs)-1 {
					t.done = true
				}
				t.rep <- report{t, 1}
			}
		}()
		<-started
	}
	isEnabled := func(t *thr) bool {
		if t.done {
			return false
		}
		if t.mu != nil {
			if !t.mu.TryLock() {
				return false
			}
			t.mu.Unlock()
		}
		return true
	}
	for step := 0; ; step++ {
		var enabled []int
		alive := false
		for _, t := range ths {
			if !t.done {
				alive = true
			}
			if isEnabled(t) {
				enabled = append(enabled, t.id)
			}
		}
		if !alive {
			break
		}
		if len(enabled) == 0 {
			rr.Deadlock = true
			break
		}
		if step >= maxSteps {
			rr.Hang = "more than the maximal number of steps"
			break
		}
		k := pick(step, enabled)
		rr.Sched = append(rr.Sched, k)
		rr.Enabled = append(rr.Enabled, enabled)
		if k < 0 || k >= len(ths) || !isEnabled(ths[k]) {
			continue // finished or blocked: no-op
		}
		t := ths[k]
		t.steps++
		if before != nil {
			before(t, ths)
		}
		t.resume <- struct{}{}
		select {
		case rep := <-reports:
			if rep.t != t {
				rr.Hang = fmt.Sprintf("goroutine %d reported while goroutine %d was scheduled", rep.t.id, t.id)
			} else if rep.kind == 1 {
				t.doneAt = append(t.doneAt, step)
			}
		case <-time.After(hangAfter):
			rr.Hang = fmt.Sprintf("goroutine %d did not reach a yield point within %s (operation %s)", t.id, hangAfter, t.jobs[t.opIdx].name)
			// A goroutine that is parked inside the predicate of a Discover is inside user code.  If the loader runs the
			// predicate with a lock held, t may just be waiting for that goroutine, which the scheduler keeps parked:
			// let those goroutines go on.  Nobody moves: they block each other (the predicate asks the loader, and a
			// reader does not get past a writer that waits).  Somebody moves: no deadlock, but the run is no longer
			// under the control of the scheduler and is abandoned.
			var cbs []*thr
			for _, u := range ths {
				if u != t && !u.done && u.site == "discover.callback" {
					cbs = append(cbs, u)
				}
			}
			if len(cbs) > 0 {
				moved := false
				for _, u := range cbs {
					u.resume <- struct{}{}
				}
				select {
				case <-reports:
					moved = true
				case <-time.After(confirmAfter):
				}
				if moved {
					rr.Hang = ""
					rr.Abandoned = fmt.Sprintf("goroutine %d (%s) waited for a goroutine that was parked inside the predicate of its Discover", t.id, t.jobs[t.opIdx].name)
				} else {
					rr.Hang += fmt.Sprintf("; %d goroutine(s) parked inside the predicate of a Discover were let go on and did not come back from asking the loader within %s either: the goroutines block each other", len(cbs), confirmAfter)
				}
			}
		}
		if rr.Abandoned != "" {
			break
		}
		if rr.Hang != "" {
			break
		}
	}
	rr.Steps = len(rr.Sched)
	if rr.Deadlock || rr.Hang != "" || rr.Abandoned != "" {
		unfinishedRuns++
	}
	for _, t := range ths {
		rr.Results = append(rr.Results, t.results)
		rr.Parses = append(rr.Parses, t.parses)
		rr.Overlap = append(rr.Overlap, t.overlapped)
		rr.DoneAt = append(rr.DoneAt, t.doneAt)
		rr.Windowed = append(rr.Windowed, t.windowed)
		rr.CbOrder = append(rr.CbOrder, t.cbOrder)
	}
	return rr
}
