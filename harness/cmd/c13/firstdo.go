package main

// The very first initialization of the runtime, raced by several goroutines.  internal.InitializeRuntime runs once per
// process (the first pcore.Do / RootContext / Try): "the first calls of a process" can be observed only in a FRESH
// process, so this part re-executes the harness binary (environment variable C13_FIRSTDO_CHILD holds the parameters; the
// child never runs the set-up of the parent).  In the child N goroutines, released together, enter the runtime for the
// first time and immediately use what the initialization provides: px.Wrap of a Go map / slice / struct (the
// implementation registry of the context), the Pcore:: aliases, a type that was declared before the first call (as the
// init() functions of a program do) - in the static loader, resolved, instances can be created.
//   seq   the goroutines run one after the other: the sequential answers (the oracle)
//   free  the goroutines run freely
//   park  the goroutine that first reaches the yield point Site inside InitializeRuntime (verifhook "init.logger-set",
//         "init.resolved"; hook commit 06ca27a) is held there until every other goroutine has returned or is blocked on
//         a mutex, then let go: the schedule "initializer up to Site, everybody else as far as they get, initializer
//         to the end, everybody else to the end"
// Direct check: no goroutine panics, every goroutine gets the sequential answers.  Model: ConcInit.v (cases_init.v).

import (
	"bytes"
	"encoding/json"
	"fmt"
	"os"
	"os/exec"
	"runtime"
	"sort"
	"strings"
	"sync"
	"sync/atomic"
	"time"

	"github.com/lyraproj/pcore/pcore"
	"github.com/lyraproj/pcore/px"
	"github.com/lyraproj/pcore/types"
	"github.com/lyraproj/pcore/verifhook"
	"verifharness/lib"
)

const firstDoEnv = "C13_FIRSTDO_CHILD"

var initSites = []string{"init.logger-set", "init.resolved"}
var entryTab = []string{"do", "root", "try"}

type firstDoParams struct {
	Kind  string `json:"kind"` // "firstdo"
	N     int    `json:"n"`
	Mode  string `json:"mode"`           // seq | free | park
	Site  string `json:"site,omitempty"` // park: the yield point
	Entry string `json:"entry"`          // do | root | try | mixed (goroutine g enters through entryTab[g%3])
}

type firstDoOut struct {
	Parked  int        `json:"parked"`  // the goroutine that was held at Site (-1: nobody got there)
	Early   []int      `json:"early"`   // goroutines that returned while it was held
	Blocked int        `json:"blocked"` // goroutines blocked on a mutex when it was let go
	Results [][]string `json:"results"` // per goroutine: the answers, or one element "panic: ..."
}

// ---- the child --------------------------------------------------------------------------------------------

type earlyThing struct {
	A int
	B string
}

func firstDoUses(c px.Context) (out []string) {
	use := func(what string, f func() string) {
		defer func() {
			if r := recover(); r != nil {
				out = append(out, what+": panic: "+panicText(r))
			}
		}()
		out = append(out, what+": "+f())
	}
	use("wrap map", func() string { return px.Wrap(c, map[string]int{"a": 1}).String() })
	use("wrap slice", func() string { return px.Wrap(c, []string{"x", "y"}).String() })
	use("wrap struct", func() string { return px.Wrap(c, &earlyThing{3, "b"}).String() })
	use("alias", func() string {
		v, ok := px.Load(c, px.NewTypedName(px.NsType, "Pcore::MemberName"))
		if !ok {
			return "Pcore::MemberName absent"
		}
		t := c.ParseType("Pcore::QRef")
		return fmt.Sprintf("%s %v %v", v.(px.Type).String(), px.IsInstance(t, types.WrapString("Ab::Cd")), px.IsInstance(v.(px.Type), types.WrapString("9x")))
	})
	use("declared before", func() string {
		v, ok := px.Load(c, px.NewTypedName(px.NsType, "C13::Early"))
		if !ok {
			return "absent"
		}
		ot, isObj := v.(px.ObjectType)
		if !isObj || ot.AttributesInfo() == nil {
			return fmt.Sprintf("unresolved %T", v)
		}
		inStatic := px.StaticLoader().HasEntry(px.NewTypedName(px.NsType, "C13::Early"))
		return fmt.Sprintf("%s static=%v", px.New(c, ot, types.WrapInteger(3)).String(), inStatic)
	})
	return
}

func panicText(r interface{}) string {
	if e, ok := r.(runtime.Error); ok {
		return "runtime fault " + e.Error()
	}
	return strings.ReplaceAll(fmt.Sprint(r), "\n", " ")
}

// firstDoWorker: one goroutine's first use of the runtime (a function of its own so that it shows in a stack dump)
func firstDoWorker(entry string) (out []string) {
	defer func() {
		if r := recover(); r != nil {
			out = []string{"panic: " + panicText(r)}
		}
	}()
	switch entry {
	case "root":
		out = firstDoUses(pcore.RootContext())
	case "try":
		if err := pcore.Try(func(c px.Context) error { out = firstDoUses(c); return nil }); err != nil {
			out = []string{"panic: " + strings.ReplaceAll(err.Error(), "\n", " ")}
		}
	default:
		pcore.Do(func(c px.Context) { out = firstDoUses(c) })
	}
	return
}

// workersBlocked: how many goroutines that are executing firstDoWorker are blocked in Mutex.Lock
func workersBlocked() int {
	buf := make([]byte, 1<<20)
	buf = buf[:runtime.Stack(buf, true)]
	n := 0
	for _, g := range strings.Split(string(buf), "\n\n") {
		if strings.Contains(g, "main.firstDoWorker") && strings.Contains(g, "sync.(*Mutex).Lock") {
			n++
		}
	}
	return n
}

func firstDoChild(raw string) {
	var p firstDoParams
	if err := json.Unmarshal([]byte(raw), &p); err != nil {
		fmt.Println("bad parameters: " + err.Error())
		os.Exit(2)
	}
	// what the init() functions of a program do: declarations made before anybody has called the runtime
	px.NewObjectType("C13::Early", `{attributes => {a => Integer}}`)

	out := firstDoOut{Parked: -1, Results: make([][]string, p.N)}
	var finished int32
	done := make([]int32, p.N)
	var parkedFlag int32
	var idLock sync.Mutex
	ids := map[int64]int{}
	if p.Mode == "park" {
		verifhook.SetHandler(func(site string, mu *sync.Mutex) {
			if site != p.Site || !atomic.CompareAndSwapInt32(&parkedFlag, 0, 1) {
				return
			}
			idLock.Lock()
			g, ok := ids[goid()]
			idLock.Unlock()
			if !ok {
				return
			}
			out.Parked = g
			deadline := time.Now().Add(5 * time.Second)
			for time.Now().Before(deadline) {
				fin := int(atomic.LoadInt32(&finished))
				if fin == p.N-1 {
					break
				}
				if b := workersBlocked(); b > 0 && b+fin == p.N-1 {
					out.Blocked = b
					break
				}
				time.Sleep(500 * time.Microsecond)
			}
			for h := 0; h < p.N; h++ {
				if h != g && atomic.LoadInt32(&done[h]) == 1 {
					out.Early = append(out.Early, h)
				}
			}
		})
	}
	entry := func(g int) string {
		if p.Entry == "mixed" {
			return entryTab[g%len(entryTab)]
		}
		return p.Entry
	}
	var wg sync.WaitGroup
	start := make(chan struct{})
	for g := 0; g < p.N; g++ {
		g := g
		wg.Add(1)
		run := func() {
			defer wg.Done()
			idLock.Lock()
			ids[goid()] = g
			idLock.Unlock()
			<-start
			out.Results[g] = firstDoWorker(entry(g))
			atomic.StoreInt32(&done[g], 1)
			atomic.AddInt32(&finished, 1)
		}
		if p.Mode == "seq" {
			close(start)
			run()
			start = make(chan struct{})
		} else {
			go run()
		}
	}
	if p.Mode != "seq" {
		time.Sleep(2 * time.Millisecond) // (the goroutines are at the barrier)
		close(start)
	}
	wg.Wait()
	sort.Ints(out.Early)
	b, _ := json.Marshal(out)
	fmt.Println("FIRSTDO " + string(b))
}

// ---- the parent ---------------------------------------------------------------------------------------------

func runFirstDoChild(p firstDoParams) (*firstDoOut, string) {
	self, err := os.Executable()
	if err != nil {
		return nil, "os.Executable: " + err.Error()
	}
	raw, _ := json.Marshal(p)
	cmd := exec.Command(self)
	cmd.Env = append(os.Environ(), firstDoEnv+"="+string(raw))
	var so, se bytes.Buffer
	cmd.Stdout, cmd.Stderr = &so, &se
	if err := cmd.Start(); err != nil {
		return nil, err.Error()
	}
	done := make(chan error, 1)
	go func() { done <- cmd.Wait() }()
	select {
	case err = <-done:
	case <-time.After(30 * time.Second):
		_ = cmd.Process.Kill()
		<-done
		return nil, "the process did not finish within 30 s (goroutines block each other?)\n" + tail(se.String(), 1500)
	}
	for _, l := range strings.Split(so.String(), "\n") {
		if strings.HasPrefix(l, "FIRSTDO ") {
			var out firstDoOut
			if json.Unmarshal([]byte(strings.TrimPrefix(l, "FIRSTDO ")), &out) == nil {
				return &out, ""
			}
		}
	}
	return nil, fmt.Sprintf("the process ended without a result (%v)\n%s", err, tail(se.String(), 1500))
}

var firstDoOracle = map[string][]string{}

// the sequential answers for an entry point (every goroutine of a sequential run gives the same ones, checked)
func firstDoSeq(res *lib.Result, entry string) []string {
	if o, ok := firstDoOracle[entry]; ok {
		return o
	}
	p := firstDoParams{Kind: "firstdo", N: 2, Mode: "seq", Entry: entry}
	out, fail := runFirstDoChild(p)
	var o []string
	if out == nil {
		res.Violate(lib.Violation{Clause: "no-crash", What: "first use of the runtime, goroutines one after the other: " + fail, Input: p})
	} else {
		o = out.Results[0]
		for g, r := range out.Results {
			if strings.Join(r, "|") != strings.Join(o, "|") || strings.Contains(strings.Join(r, "|"), "panic: ") {
				res.Violate(lib.Violation{Clause: "no-crash", What: fmt.Sprintf("first use of the runtime, goroutines one after the other: goroutine %d got %v, goroutine 0 got %v", g, r, o), Input: p})
			}
		}
	}
	firstDoOracle[entry] = o
	return o
}

func entryOf(p firstDoParams, g int) string {
	if p.Entry == "mixed" {
		return entryTab[g%len(entryTab)]
	}
	return p.Entry
}

// checkFirstDo: D on one run; ok[g] = goroutine g got the sequential answers
func checkFirstDo(res *lib.Result, p firstDoParams, out *firstDoOut, fail string, verbose bool) (ok []bool) {
	res.Evaluations++
	res.Count("firstdo.runs." + p.Mode)
	if out == nil {
		res.Violate(lib.Violation{Clause: "no-crash", What: fmt.Sprintf("first use of the runtime by %d goroutines (%s %s): %s", p.N, p.Mode, p.Site, fail), Input: p})
		return nil
	}
	ok = make([]bool, p.N)
	for g, r := range out.Results {
		want := firstDoSeq(res, entryOf(p, g))
		got := strings.Join(r, " | ")
		if verbose {
			fmt.Printf("goroutine %d (%s): %s\n", g, entryOf(p, g), got)
		}
		switch {
		case strings.Contains(got, "panic: "):
			where := "free running"
			if p.Mode == "park" {
				where = fmt.Sprintf("goroutine %d was held at %s inside InitializeRuntime", out.Parked, p.Site)
			}
			res.Violate(lib.Violation{Clause: "no-crash", What: fmt.Sprintf("first use of the runtime by %d goroutines of a fresh process (%s): goroutine %d (pcore %s) failed: %s", p.N, where, g, entryOf(p, g), got), Input: p})
		case got != strings.Join(want, " | "):
			res.Violate(lib.Violation{Clause: "sequential-consistency", What: fmt.Sprintf("first use of the runtime by %d goroutines of a fresh process: goroutine %d (pcore %s) got [%s]; in every sequential order it gets [%s]", p.N, g, entryOf(p, g), got, strings.Join(want, " | ")), Input: p})
		default:
			ok[g] = true
		}
	}
	if p.Mode == "park" && out.Parked >= 0 {
		res.Nontrivial(fmt.Sprintf("firstdo %d %s %s blocked=%d", p.N, p.Site, p.Entry, out.Blocked))
		if out.Blocked > 0 {
			res.Count("firstdo.goroutines-that-waited-for-the-initializer")
		}
	}
	return ok
}

// gInitCase: (number of goroutines, yield point, per goroutine: returned while the initializer was held, complete)
// with the initializer as thread 0
func gInitCase(p firstDoParams, out *firstDoOut, ok []bool) string {
	site := 0
	if p.Site == initSites[1] {
		site = 1
	}
	early := map[int]bool{}
	for _, g := range out.Early {
		early[g] = true
	}
	obs := []string{fmt.Sprintf("(false, %s)", lib.GBool(ok[out.Parked]))}
	for g := 0; g < p.N; g++ {
		if g != out.Parked {
			obs = append(obs, fmt.Sprintf("(%s, %s)", lib.GBool(early[g]), lib.GBool(ok[g])))
		}
	}
	return fmt.Sprintf("(%d%%nat, %d%%nat, %s)", p.N, site, lib.GList(obs, "bool * bool"))
}

func initCasesFile() *lib.CasesFile {
	return &lib.CasesFile{Imports: []string{"Model.Base", "Model.ConcInit", "Corr.CorrC13"}, Typ: "init_case",
		Obligations: map[string]string{"init_model": "init_mismatches cases"}}
}

func runFirstDo(cfg *lib.Config, res *lib.Result, rng *lib.Rng) {
	file := initCasesFile()
	var ps []firstDoParams
	for i, site := range initSites {
		ps = append(ps, firstDoParams{Kind: "firstdo", N: 2 + i, Mode: "park", Site: site, Entry: "do"})
		ps = append(ps, firstDoParams{Kind: "firstdo", N: 3 + rng.Intn(3), Mode: "park", Site: site, Entry: entryTab[rng.Intn(3)]})
		ps = append(ps, firstDoParams{Kind: "firstdo", N: 2 + rng.Intn(5), Mode: "park", Site: site, Entry: "mixed"})
	}
	for k := 0; k < 6; k++ {
		ps = append(ps, firstDoParams{Kind: "firstdo", N: 2 + rng.Intn(7), Mode: "park", Site: initSites[k%2], Entry: append(entryTab, "mixed")[rng.Intn(4)]})
	}
	nFree := 20
	if cfg.Thorough() {
		nFree = 60
		for k := 0; k < 30; k++ {
			ps = append(ps, firstDoParams{Kind: "firstdo", N: 2 + rng.Intn(7), Mode: "park", Site: initSites[rng.Intn(2)], Entry: append(entryTab, "mixed")[rng.Intn(4)]})
		}
	}
	for k := 0; k < nFree; k++ {
		ps = append(ps, firstDoParams{Kind: "firstdo", N: 2 + rng.Intn(7), Mode: "free", Entry: append(entryTab, "mixed")[rng.Intn(4)]})
	}
	// four processes at a time
	type outT struct {
		out  *firstDoOut
		fail string
	}
	outs := make([]outT, len(ps))
	sem := make(chan struct{}, 4)
	var wg sync.WaitGroup
	for i := range ps {
		i := i
		wg.Add(1)
		sem <- struct{}{}
		go func() {
			defer wg.Done()
			o, f := runFirstDoChild(ps[i])
			outs[i] = outT{o, f}
			<-sem
		}()
	}
	wg.Wait()
	for i, p := range ps {
		ok := checkFirstDo(res, p, outs[i].out, outs[i].fail, false)
		if ok != nil && p.Mode == "park" && outs[i].out.Parked >= 0 {
			file.Add(gInitCase(p, outs[i].out, ok), p)
		}
		if i%5 == 0 && outs[i].out != nil {
			res.Sample(map[string]interface{}{"firstdo": p, "results": outs[i].out.Results[0], "held": outs[i].out.Parked, "blocked": outs[i].out.Blocked})
		}
	}
	res.Extra["firstdo"] = fmt.Sprintf("%d fresh processes (the harness binary re-executed): the first pcore.Do / RootContext / Try of the process from 2-8 goroutines released together; yield points %v", len(ps), initSites)
	res.CorrFiles = append(res.CorrFiles, file.WriteTo(cfg.Out, "cases_init"))
}

func replayFirstDo(cfg *lib.Config, res *lib.Result, in interface{}) {
	var p firstDoParams
	lib.Remarshal(in, &p)
	fmt.Printf("fresh process: %d goroutines, %s %s, entry %s\n", p.N, p.Mode, p.Site, p.Entry)
	fmt.Printf("sequential answers (pcore %s): %v\n", entryOf(p, 0), firstDoSeq(res, entryOf(p, 0)))
	out, fail := runFirstDoChild(p)
	before := len(res.Violations)
	ok := checkFirstDo(res, p, out, fail, true)
	if out != nil {
		fmt.Printf("held at the yield point: goroutine %d; returned meanwhile: %v; blocked on a mutex when it was let go: %d\n", out.Parked, out.Early, out.Blocked)
	}
	for _, v := range res.Violations[before:] {
		fmt.Printf("FAILS %s: %s\n", v.Clause, v.What)
	}
	if len(res.Violations) == before {
		fmt.Println("the run satisfies the direct checks")
	}
	if ok != nil && p.Mode == "park" && out.Parked >= 0 {
		file := initCasesFile()
		file.Add(gInitCase(p, out, ok), p)
		res.CorrFiles = append(res.CorrFiles, file.WriteTo(cfg.Out, "cases_init"))
	}
}
