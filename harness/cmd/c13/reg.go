package main

import (
	"fmt"
	"reflect"
	"sort"
	"strings"
	"time"

	"github.com/lyraproj/issue/issue"
	"github.com/lyraproj/pcore/pcore"
	"github.com/lyraproj/pcore/px"
	"github.com/lyraproj/pcore/types"
	"verifharness/lib"
)

// The lists of pending declarations (types/types.go: resolvableTypes, resolvableMappings, constructorsDecls;
// internal/context.go: resolvableFunctions) and what pcore.Do / RootContext do with them (resolveResolvables: each
// list is taken and replaced under its lock, what was taken is bound and resolved outside that lock, under
// resolveLock), Model/ConcReg.v.
//
// A program is one list of operations per goroutine:
//   Decl x   declares item x.  The letter of x is its kind:
//              T  px.NewObjectType                       (list of types)
//              P  px.RegisterResolvableType of a probe that counts its Resolve calls   (list of types)
//              X  a probe whose Resolve panics: the Do that resolves it escapes with that panic   (list of types)
//              G  px.NewGoObjectType with a reflect.Type of its own   (list of types and list of mappings)
//              C  px.NewGoConstructor                    (list of constructors)
//              F  px.NewGoFunction                       (list of functions)
//   Do       pcore.Do(f) where f looks at every item that this goroutine has declared before, in order:
//            is it bound, resolved, usable (T: an instance can be created; P: resolved exactly once; G: T and
//            the reflect.Type is mapped in the context of this Do; C, F: the name is bound).
// The goroutines park at the yield points "resolve.*" of resolveResolvables.  After the run the harness calls
// pcore.Do once more and looks at every item of the program.

type regOp struct {
	Kind string `json:"op"` // Decl | Do
	Item string `json:"item,omitempty"`
}

func (o regOp) String() string {
	if o.Kind == "Decl" {
		return "Decl(" + o.Item + ")"
	}
	return "Do"
}

type regCase struct {
	Prog  [][]regOp `json:"prog"`
	Sched []int     `json:"sched"`
	Note  string    `json:"note,omitempty"`
}

func (c regCase) input(sched []int) map[string]interface{} {
	ops := make([][]string, len(c.Prog))
	for t, th := range c.Prog {
		for _, o := range th {
			ops[t] = append(ops[t], o.String())
		}
	}
	return map[string]interface{}{"kind": "reg", "prog": c.Prog, "sched": sched, "ops": ops}
}

func (c regCase) key() string {
	var b strings.Builder
	for _, th := range c.Prog {
		for _, o := range th {
			b.WriteString(o.String() + ",")
		}
		b.WriteString("/")
	}
	return b.String()
}

func (c regCase) items() []string {
	var out []string
	for _, th := range c.Prog {
		for _, o := range th {
			if o.Kind == "Decl" {
				out = append(out, o.Item)
			}
		}
	}
	return out
}

func (c regCase) hasFailing() bool {
	for _, x := range c.items() {
		if x[0] == 'X' {
			return true
		}
	}
	return false
}

// ---- one run's instances of the items ----------------------------------------------------------------------------

type probe struct {
	name     string
	fails    bool
	resolves int
	by       []int // the goroutines (thread ids, -1: not a goroutine of the program) that called Resolve
}

func (p *probe) Name() string { return p.name }

func (p *probe) Resolve(c px.Context) px.Type {
	p.resolves++
	id := -1
	if t := currentThread(); t != nil {
		id = t.id
	}
	p.by = append(p.by, id)
	if p.fails {
		panic(px.Error(px.Failure, issue.H{`message`: `C13 probe: this declaration cannot be resolved`}))
	}
	return types.DefaultAnyType()
}

var regRunID = 0

type regRun struct {
	id     int
	probes map[string]*probe
	rtypes map[string]reflect.Type
}

func newRegRun() *regRun {
	regRunID++
	return &regRun{id: regRunID, probes: map[string]*probe{}, rtypes: map[string]reflect.Type{}}
}

func (r *regRun) typeName(x string) string { return fmt.Sprintf("C13reg::R%d::%s", r.id, x) }
func (r *regRun) funcName(x string) string {
	return fmt.Sprintf("c13reg::r%d::%s", r.id, strings.ToLower(x))
}

func (r *regRun) declare(x string) {
	switch x[0] {
	case 'T':
		px.NewObjectType(r.typeName(x), `{attributes => {x => Integer}}`)
	case 'P', 'X':
		p := &probe{name: r.typeName(x), fails: x[0] == 'X'}
		r.probes[x] = p
		px.RegisterResolvableType(p)
	case 'G':
		rt := reflect.StructOf([]reflect.StructField{{Name: fmt.Sprintf("R%d%s", r.id, x), Type: reflect.TypeOf(0)}})
		r.rtypes[x] = rt
		px.NewGoObjectType(r.typeName(x), rt, `{attributes => {x => Integer}}`)
	case 'C':
		px.NewGoConstructor(r.typeName(x), func(d px.Dispatch) {
			d.Param(`Integer`)
			d.Function(func(c px.Context, args []px.Value) px.Value { return args[0] })
		})
	case 'F':
		px.NewGoFunction(r.funcName(x), func(d px.Dispatch) {
			d.Param(`Integer`)
			d.Function(func(c px.Context, args []px.Value) px.Value { return args[0] })
		})
	default:
		panic("bad item " + x)
	}
}

func loadIn(c px.Context, ns px.Namespace, name string) (interface{}, bool) {
	return px.Load(c, px.NewTypedName(ns, name))
}

// look: the state of item x as the function of a Do sees it.  "ok" is the only state that a sequential use of the
// declared item can show to the Do that follows its declaration in the same goroutine (X: "failed").
func (r *regRun) look(c px.Context, x string, withMapping bool) (state string) {
	defer func() {
		if e := recover(); e != nil {
			state = "unusable (" + panicCode(e) + ")"
		}
	}()
	typeState := func() string {
		v, ok := loadIn(c, px.NsType, r.typeName(x))
		if !ok {
			return "absent"
		}
		ot, isObj := v.(px.ObjectType)
		if !isObj {
			return fmt.Sprintf("bound to a %T", v)
		}
		if ot.AttributesInfo() == nil {
			return "unresolved"
		}
		o := px.New(c, ot, types.WrapInteger(3))
		if want := r.typeName(x) + "('x' => 3)"; o.String() != want {
			return "instance " + o.String()
		}
		return "ok"
	}
	switch x[0] {
	case 'T':
		return typeState()
	case 'G':
		s := typeState()
		if s == "ok" && withMapping {
			if t, ok := c.ImplementationRegistry().ReflectedToType(r.rtypes[x]); !ok {
				return "ok-nomap"
			} else if t.Name() != r.typeName(x) {
				return "mapped to " + t.Name()
			}
		}
		return s
	case 'P', 'X':
		p := r.probes[x]
		switch {
		case p.resolves == 0:
			if _, ok := loadIn(c, px.NsType, p.name); !ok {
				return "absent"
			}
			return "unresolved"
		case p.resolves > 1:
			return fmt.Sprintf("resolved %d times", p.resolves)
		case p.fails:
			return "failed"
		}
		return "ok"
	case 'C':
		if _, ok := loadIn(c, px.NsConstructor, r.typeName(x)); !ok {
			return "absent"
		}
		return "ok"
	case 'F':
		if f, ok := loadIn(c, px.NsFunction, r.funcName(x)); !ok {
			return "absent"
		} else if v := f.(px.Function).Call(c, nil, types.WrapInteger(7)); !v.Equals(types.WrapInteger(7), nil) {
			return "wrong answer"
		}
		return "ok"
	}
	return "?"
}

func panicCode(e interface{}) string {
	if rep, ok := e.(issue.Reported); ok {
		return string(rep.Code())
	}
	return fmt.Sprintf("%T %v", e, e)
}

// apply runs operation o of a goroutine that has declared `own` so far
func (r *regRun) apply(o regOp, own []string) (res opRes) {
	defer func() {
		if e := recover(); e != nil {
			res = opRes{Kind: "regpanic", Text: panicCode(e)}
		}
	}()
	if o.Kind == "Decl" {
		r.declare(o.Item)
		return opRes{Kind: "declared"}
	}
	var states []string
	pcore.Do(func(c px.Context) {
		for _, x := range own {
			states = append(states, r.look(c, x, true))
		}
	})
	return opRes{Kind: "do", Text: strings.Join(states, ",")}
}

func regOutcomeKey(rs [][]opRes) string {
	var b strings.Builder
	for _, th := range rs {
		for _, r := range th {
			b.WriteString(r.Kind + ":" + r.Text + ";")
		}
		b.WriteString("|")
	}
	return b.String()
}

func regTexts(rs [][]opRes) [][]string {
	out := make([][]string, len(rs))
	for t, th := range rs {
		for _, r := range th {
			out[t] = append(out[t], strings.TrimSuffix(r.Kind+" "+r.Text, " "))
		}
	}
	return out
}

// withDeadline: resolveLock is one lock for the whole process; a goroutine that a broken run left behind with the
// lock held blocks every later pcore.Do, also the ones of the harness itself
func withDeadline(f func()) bool {
	done := make(chan struct{})
	go func() { defer close(done); f() }()
	select {
	case <-done:
		return true
	case <-time.After(hangAfter):
		unfinishedRuns = maxUnfinishedRuns // nothing that calls pcore.Do can be trusted to return any more
		return false
	}
}

// sweep: one more Do after the run, which looks at every item of the program
func (r *regRun) sweep(c regCase) (states map[string]string, finished bool) {
	states = map[string]string{}
	finished = withDeadline(func() {
		defer func() { _ = recover() }() // (a pending X item makes this Do escape as well; the states stay empty)
		pcore.Do(func(ctx px.Context) {
			for _, x := range c.items() {
				states[x] = r.look(ctx, x, false)
			}
		})
	})
	return
}

type regResult struct {
	rr     *runResult
	run    *regRun
	sweep  map[string]string
	swept  bool
	probes map[string][]int
}

func runRegCase(c regCase, pick policy) *regResult {
	run := newRegRun()
	jobs := make([][]job, len(c.Prog))
	for t, ops := range c.Prog {
		var own []string
		for _, o := range ops {
			o := o
			mine := append([]string(nil), own...)
			jobs[t] = append(jobs[t], job{o.String(), func(px.Context) opRes { return run.apply(o, mine) }})
			if o.Kind == "Decl" {
				own = append(own, o.Item)
			}
		}
	}
	siteFilter = "resolve."
	rr := runJobs(jobs, pick, nil)
	siteFilter = ""
	out := &regResult{rr: rr, run: run, probes: map[string][]int{}}
	if rr.Hang == "" && !rr.Deadlock {
		out.sweep, out.swept = run.sweep(c)
		for x, p := range run.probes {
			out.probes[x] = p.by
		}
	}
	return out
}

// ---- the sequential oracle -----------------------------------------------------------------------------------

var regSeqMemo = map[string]map[string]bool{}

func regSeqOutcomes(c regCase) map[string]bool {
	key := c.key()
	if m, ok := regSeqMemo[key]; ok {
		return m
	}
	set := map[string]bool{}
	idx := make([]int, len(c.Prog))
	var order [][2]int
	ok := true
	var rec func()
	rec = func() {
		done := true
		for t := range c.Prog {
			if ok && idx[t] < len(c.Prog[t]) {
				done = false
				order = append(order, [2]int{t, idx[t]})
				idx[t]++
				rec()
				idx[t]--
				order = order[:len(order)-1]
			}
		}
		if done && ok {
			ok = withDeadline(func() {
				run := newRegRun()
				results := make([][]opRes, len(c.Prog))
				own := make([][]string, len(c.Prog))
				for _, s := range order {
					o := c.Prog[s[0]][s[1]]
					results[s[0]] = append(results[s[0]], run.apply(o, append([]string(nil), own[s[0]]...)))
					if o.Kind == "Decl" {
						own[s[0]] = append(own[s[0]], o.Item)
					}
				}
				run.sweep(c)
				set[regOutcomeKey(results)] = true
			})
		}
	}
	rec()
	if !ok {
		set = nil
	}
	regSeqMemo[key] = set
	return set
}

// ---- direct checks -----------------------------------------------------------------------------------------------

func regCheck(c regCase, r *regResult) []verdict {
	rr := r.rr
	if rr.Hang != "" {
		return []verdict{{"no-deadlock", "the run did not finish: " + rr.Hang, nil}}
	}
	if rr.Deadlock {
		return []verdict{{"no-deadlock", "every unfinished goroutine is blocked on a mutex", nil}}
	}
	var vs []verdict
	failing := c.hasFailing()
	// 1. no crash: the only panic is that of a Do which resolves a declaration that cannot be resolved
	for t, th := range rr.Results {
		for i, res := range th {
			if res.Kind == "regpanic" && !(failing && c.Prog[t][i].Kind == "Do" && res.Text == string(px.Failure)) {
				vs = append(vs, verdict{"no-crash", fmt.Sprintf("goroutine %d: %s escaped with %s", t, c.Prog[t][i], res.Text), nil})
			}
		}
	}
	// 2. the function of a Do sees what its own goroutine declared before, as in some sequential order
	if set := regSeqOutcomes(c); set == nil {
		vs = append(vs, verdict{"no-deadlock", "a sequential run of the operations did not finish", nil})
	} else if !set[regOutcomeKey(rr.Results)] {
		v := verdict{"sequential-consistency", "no sequential order of the operations returns " + fmt.Sprint(regTexts(rr.Results)), nil}
		// known finding mapping-split: resolveResolvables takes the list of types and the list of mappings in two critical
		// sections (context.go:181, :187); a px.NewGoObjectType declared in between has its mapping taken by this Do and its
		// type by a later one.  The function of the declarer's Do then finds the type usable and the mapping missing
		// ("ok-nomap"), which sequentially happens only when the other Do took the type as well.  Matched only if the run
		// shows that state for a G item and, with exactly those states left open, the outcome is that of a sequential order.
		if regMatchesModuloNomap(c, set, rr.Results) {
			v.tags = []string{"mapping-split"}
			v.what = "the mapping of a px.NewGoObjectType was taken by another goroutine's Do than its type (the lists of types and of mappings are taken in two critical sections): " + v.what
		}
		vs = append(vs, v)
	}
	// 3. afterwards: everything that was declared has been resolved, once
	if !r.swept {
		vs = append(vs, verdict{"no-deadlock", "a pcore.Do after the run did not return", nil})
	} else if !failing {
		for _, x := range c.items() {
			if s := r.sweep[x]; s != "ok" {
				vs = append(vs, verdict{"declared-resolved-once", fmt.Sprintf("after the run and one more Do, %s is %s", x, s), nil})
			}
		}
	} else {
		for _, x := range c.items() {
			if s := r.sweep[x]; strings.HasPrefix(s, "resolved ") {
				vs = append(vs, verdict{"declared-resolved-once", fmt.Sprintf("after the run and one more Do, %s is %s", x, s), nil})
			}
		}
	}
	return vs
}

// regMatchesModuloNomap: some Do of the run reports "ok-nomap" for a G item, and some sequential outcome agrees with the
// run everywhere but at those states
func regMatchesModuloNomap(c regCase, set map[string]bool, rs [][]opRes) bool {
	// own[t][i]: the items that goroutine t has declared before its operation i
	own := make([][][]string, len(c.Prog))
	for t, ops := range c.Prog {
		var mine []string
		for _, o := range ops {
			own[t] = append(own[t], append([]string(nil), mine...))
			if o.Kind == "Decl" {
				mine = append(mine, o.Item)
			}
		}
	}
	wild := false
	for t, th := range rs {
		for i, r := range th {
			if r.Kind != "do" || r.Text == "" {
				continue
			}
			for k, st := range strings.Split(r.Text, ",") {
				if st == "ok-nomap" && k < len(own[t][i]) && own[t][i][k][0] == 'G' {
					wild = true
				}
			}
		}
	}
	if !wild {
		return false
	}
	for key := range set {
		ths := strings.Split(key, "|")
		ok := len(ths) == len(rs)+1
		for t := 0; ok && t < len(rs); t++ {
			parts := strings.Split(ths[t], ";")
			if len(parts) != len(rs[t])+1 {
				ok = false
				break
			}
			for i, r := range rs[t] {
				if parts[i] == r.Kind+":"+r.Text {
					continue
				}
				// a Do on both sides whose states differ only where the run has "ok-nomap" for a G item
				if r.Kind != "do" || !strings.HasPrefix(parts[i], "do:") {
					ok = false
					break
				}
				a, b := strings.Split(r.Text, ","), strings.Split(strings.TrimPrefix(parts[i], "do:"), ",")
				if len(a) != len(b) || len(a) != len(own[t][i]) {
					ok = false
					break
				}
				for k := range a {
					if a[k] != b[k] && !(a[k] == "ok-nomap" && own[t][i][k][0] == 'G') {
						ok = false
					}
				}
				if !ok {
					break
				}
			}
		}
		if ok {
			return true
		}
	}
	return false
}

// ---- the model tie -----------------------------------------------------------------------------------------------

func gItem(x string) string {
	k := map[byte]string{'T': "KT", 'P': "KP", 'X': "KX", 'G': "KG", 'C': "KC", 'F': "KF"}[x[0]]
	return fmt.Sprintf("(%s, %s%%nat)", k, x[1:])
}

func gRegCase(c regCase, r *regResult) string {
	ts := make([]string, len(c.Prog))
	for t, ops := range c.Prog {
		os := make([]string, len(ops))
		for i, o := range ops {
			if o.Kind == "Decl" {
				os[i] = "RDecl " + gItem(o.Item)
			} else {
				os[i] = "RDo"
			}
		}
		ts[t] = lib.GList(os, "rop")
	}
	obs := make([]string, len(c.Prog))
	for t, th := range r.rr.Results {
		rs := make([]string, len(th))
		for i, res := range th {
			switch res.Kind {
			case "declared":
				rs[i] = "ORDeclared"
			case "do":
				var bs []string
				if res.Text != "" {
					for _, s := range strings.Split(res.Text, ",") {
						bs = append(bs, lib.GBool(s == "ok"))
					}
				}
				rs[i] = "ORDone " + lib.GList(bs, "bool")
			default:
				rs[i] = "ORPanic"
			}
		}
		// the probes that this goroutine resolved
		var mine []string
		for _, x := range probeOrder(r, t) {
			mine = append(mine, gItem(x))
		}
		obs[t] = fmt.Sprintf("(%s, %s)", lib.GList(rs, "rres_o"), lib.GList(mine, "item"))
	}
	return fmt.Sprintf("(%s,\n    %s,\n    %s)", lib.GList(ts, "list rop"), gSched(r.rr.Sched), lib.GList(obs, "robs"))
}

// probeOrder: the probes whose Resolve was called by goroutine t.  The harness records per probe who called; the
// order within one goroutine is the order of the list of types, which is the order of declaration in the run: the
// model is compared on the SET (sorted here and there).
func probeOrder(r *regResult, t int) []string {
	var out []string
	for x, by := range r.probes {
		for _, id := range by {
			if id == t {
				out = append(out, x)
			}
		}
	}
	sort.Strings(out)
	return out
}

// ---- programs ----------------------------------------------------------------------------------------------------

func dc(x string) regOp           { return regOp{Kind: "Decl", Item: x} }
func do() regOp                   { return regOp{Kind: "Do"} }
func rth(ops ...regOp) []regOp    { return ops }
func rpr(ts ...[]regOp) [][]regOp { return ts }

func regCorpus() []regCase {
	return []regCase{
		{Prog: rpr(rth(dc("T0"), do()), rth(dc("T1"))), Note: "a declaration while another goroutine resolves"},
		{Prog: rpr(rth(dc("T0"), dc("P1"), do()), rth(dc("T2"), do()))},
		{Prog: rpr(rth(dc("T0"), do()), rth(do())), Note: "a Do that finds nothing pending while the other one resolves"},
		{Prog: rpr(rth(dc("T0"), do()), rth(dc("P1"), do()), rth(dc("T2"), do()))},
		{Prog: rpr(rth(dc("C0"), do()), rth(dc("C1"), do())), Note: "constructors"},
		{Prog: rpr(rth(dc("F0"), do()), rth(dc("F1"), do())), Note: "functions"},
		{Prog: rpr(rth(dc("G0"), do()), rth(dc("G1"))), Note: "mappings"},
		{Prog: rpr(rth(dc("G0"), dc("G1"), do()), rth(dc("G2"), do()))},
		{Prog: rpr(rth(dc("T0"), dc("C1"), dc("F2"), do()), rth(dc("F3"), dc("C4"), dc("T5"), do())), Note: "all lists"},
		{Prog: rpr(rth(dc("P0"), do(), dc("P1"), do()), rth(dc("P2"), do()))},
		{Prog: rpr(rth(dc("X0"), do()), rth(dc("T1"), do())), Note: "a declaration that cannot be resolved: the Do escapes, the other one must not wait for ever"},
		{Prog: rpr(rth(dc("T0"), dc("X1"), do(), do()), rth(do(), dc("P2"), do()))},
		// a type with a mapping declared while another goroutine's Do is between the list of types and the list of mappings
		// (open finding mapping-split; the failing declaration in front of it pins down which Do took what)
		{Prog: rpr(rth(do()), rth(dc("X0"), dc("G1"), do())), Note: "mapping taken by another Do than the type"},
	}
}

func randomRegProgram(r *lib.Rng, nThreads, maxOps int) regCase {
	kinds := "TTTPPGCFX"
	prog := make([][]regOp, nThreads)
	n := 0
	for t := range prog {
		k := 1 + r.Intn(maxOps)
		for i := 0; i < k; i++ {
			if r.Intn(5) < 3 {
				kc := kinds[r.Intn(len(kinds))]
				if kc == 'X' && r.Intn(3) != 0 {
					kc = 'T'
				}
				prog[t] = append(prog[t], dc(fmt.Sprintf("%c%d", kc, n)))
				n++
			} else {
				prog[t] = append(prog[t], do())
			}
		}
		if last := prog[t][len(prog[t])-1]; last.Kind == "Decl" && r.Intn(4) != 0 {
			prog[t] = append(prog[t], do())
		}
	}
	return regCase{Prog: prog}
}

func regCasesFile() *lib.CasesFile {
	return &lib.CasesFile{Imports: []string{"Model.Base", "Model.Conc", "Model.ConcReg", "Corr.CorrC13"}, Typ: "reg_case",
		Obligations: map[string]string{"reg_model": "reg_mismatches cases"}}
}

func runReg(cfg *lib.Config, res *lib.Result, rng *lib.Rng) {
	cf := regCasesFile()
	limit, every, nRandom, maxCases := 300, 4, 24, 1200
	if cfg.Thorough() {
		limit, every, nRandom, maxCases = 2000, 12, 60, 6000
	}
	runs, complete, programs := 0, 0, 0
	visit := func(c regCase, r *regResult) {
		runs++
		res.Evaluations++
		res.Count("runs.reg")
		vs := regCheck(c, r)
		for _, v := range vs {
			res.Violate(lib.Violation{Clause: v.clause, What: v.what, Input: c.input(r.rr.Sched), Tags: v.tags})
		}
		if r.rr.Hang != "" || r.rr.Deadlock {
			return
		}
		// non-trivial: a goroutine declared something while another one was between two steps of its resolution, or
		// a goroutine waited for the resolve lock
		if regInterleaved(c, r.rr) {
			res.Nontrivial("reg" + c.key() + fmt.Sprint(r.rr.Sched))
			res.Count("nontrivial.reg")
		}
		if (len(vs) > 0 && len(cf.Cases) < maxCases+20) || (runs%every == 0 && len(cf.Cases) < maxCases) {
			cf.Add(gRegCase(c, r), c.input(r.rr.Sched))
		}
		if runs%997 == 1 {
			res.Sample(map[string]interface{}{"prog": c.input(nil)["ops"], "sched": r.rr.Sched, "results": regTexts(r.rr.Results), "after": r.sweep})
		}
	}
	explore := func(c regCase) {
		programs++
		n, unfinished := 0, 0
		stack := [][]int{nil}
		done := true
		for len(stack) > 0 {
			if n >= limit || unfinished >= 2 || stuck() {
				done = false
				break
			}
			prefix := stack[len(stack)-1]
			stack = stack[:len(stack)-1]
			r := runRegCase(c, prefixPolicy(prefix))
			n++
			visit(c, r)
			if r.rr.Hang != "" || r.rr.Deadlock {
				unfinished++
				continue
			}
			for i := len(r.rr.Sched) - 1; i >= len(prefix); i-- {
				for _, alt := range r.rr.Enabled[i] {
					if alt != r.rr.Sched[i] {
						stack = append(stack, append(append([]int(nil), r.rr.Sched[:i]...), alt))
					}
				}
			}
		}
		if done {
			complete++
		} else {
			for k := 0; k < 40 && !stuck(); k++ {
				rg := rng.Fork()
				visit(c, runRegCase(c, noisyPolicy(rg, len(c.Prog), 4+rg.Intn(20))))
			}
		}
	}
	for _, c := range regCorpus() {
		explore(c)
	}
	for i := 0; i < nRandom && !stuck(); i++ {
		if i%3 == 2 {
			explore(randomRegProgram(rng.Fork(), 3, 2))
		} else {
			explore(randomRegProgram(rng.Fork(), 2, 3))
		}
	}
	res.Extra["reg_programs"] = programs
	res.Extra["reg_programs_with_all_schedules_explored"] = complete
	res.Extra["reg_runs"] = runs
	res.CorrFiles = append(res.CorrFiles, cf.WriteTo(cfg.Out, "cases_reg"))
}

// regInterleaved: a goroutine waited for the resolve lock, or another goroutine moved between the first and the last
// step of a Do
func regInterleaved(c regCase, rr *runResult) bool {
	effective := func(s int) bool {
		for _, x := range rr.Enabled[s] {
			if x == rr.Sched[s] {
				return true
			}
		}
		return false
	}
	for s := range rr.Sched {
		if !effective(s) {
			return true
		}
	}
	for t, d := range rr.DoneAt {
		prev := -1
		for i, last := range d {
			if c.Prog[t][i].Kind == "Do" {
				first := -1
				for s := prev + 1; s <= last; s++ {
					if rr.Sched[s] == t {
						first = s
						break
					}
				}
				for s := first + 1; first >= 0 && s < last; s++ {
					if rr.Sched[s] != t {
						return true
					}
				}
			}
			prev = last
		}
	}
	return false
}

func replayReg(cfg *lib.Config, res *lib.Result, in interface{}) {
	var c regCase
	lib.Remarshal(in, &c)
	r := runRegCase(c, prefixPolicy(c.Sched))
	fmt.Printf("program %v\nschedule %v\n", c.input(nil)["ops"], r.rr.Sched)
	if r.rr.Hang != "" || r.rr.Deadlock {
		fmt.Printf("the run did not finish (deadlock=%v) %s\n", r.rr.Deadlock, r.rr.Hang)
	} else {
		fmt.Printf("results  %v\nafter    %v (finished %v)\nprobes resolved by %v\n", regTexts(r.rr.Results), r.sweep, r.swept, r.probes)
	}
	vs := regCheck(c, r)
	for _, v := range vs {
		fmt.Printf("FAILS %s: %s\n", v.clause, v.what)
		res.Violate(lib.Violation{Clause: v.clause, What: v.what, Input: c.input(r.rr.Sched), Tags: v.tags})
	}
	if len(vs) == 0 {
		fmt.Println("the run satisfies the direct checks")
	} else if set := regSeqOutcomes(c); set != nil {
		keys := make([]string, 0, len(set))
		for k := range set {
			keys = append(keys, k)
		}
		sort.Strings(keys)
		fmt.Printf("the %d sequential outcomes:\n", len(keys))
		for _, k := range keys {
			fmt.Println("  " + k)
		}
	}
	res.Evaluations++
	if r.rr.Hang == "" && !r.rr.Deadlock {
		cf := regCasesFile()
		cf.Add(gRegCase(c, r), in)
		res.CorrFiles = append(res.CorrFiles, cf.WriteTo(cfg.Out, "cases_reg"))
	}
}
