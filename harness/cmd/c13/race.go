package main

import "verifharness/lib"

func runRace(cfg *lib.Config, res *lib.Result, rng *lib.Rng)      {}
func replayRace(cfg *lib.Config, res *lib.Result, in interface{}) {}
