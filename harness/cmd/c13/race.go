package main

// The free-running part of C13: harness/cmd/c13race (no `verif` tag: the production configuration) is built with
// `go build -race` against the same repository and run with real, unscheduled goroutines on shared loaders,
// file based loaders, values and types.  Every report of the race detector and every functional failure that the
// program notices is a violation of the property ("there is no data race and no crash").  This is a test, not a
// proof: it is the evidence for the assumption of the atomic-segment model (Model/Conc.v) that the segments
// between two yield points do not race, and the part of the check that sees a removed or narrowed lock.

import (
	"bytes"
	"fmt"
	"os"
	"os/exec"
	"path/filepath"
	"regexp"
	"sort"
	"strings"
	"sync"
	"time"

	"verifharness/lib"
)

var raceParts = []string{"loader", "files", "values", "types", "declare", "firstdo"}

// the part "firstdo" (the first use of the runtime by N goroutines at once) is once per process: it is run this many times
const firstDoProcesses = 6

type raceParams struct {
	Kind   string `json:"kind"`
	Part   string `json:"part"`
	N      int    `json:"n"`
	Iters  int    `json:"iters"`
	Rounds int    `json:"rounds"`
	Seed   uint64 `json:"seed"`
}

type raceReport struct {
	sig        string   // the two racing functions (top frames), sorted
	funcs      []string // top frame of each access
	frames     []string // every function on the two access stacks
	text       string
	incomplete bool // the detector could not restore one of the two stacks (its history buffer had wrapped)
}

// buildRace builds the stress program with the race detector, in a module of its own under the output directory
// (source copied from harness/cmd/c13race, go.mod pointing at the repository under test: $VERIF_REPO or /repo), so
// that the build does not depend on harness/go.mod, which the driver rewrites for whichever check runs next.
// The harness runs with /verif as working directory (driver).
func buildRace(out string) (string, error) {
	bin, err := filepath.Abs(filepath.Join(out, "c13race"))
	if err != nil {
		return "", err
	}
	src, err := os.ReadFile(filepath.Join("harness", "cmd", "c13race", "main.go"))
	if err != nil {
		return "", fmt.Errorf("harness/cmd/c13race/main.go not found from %s", mustWd())
	}
	repo := os.Getenv("VERIF_REPO")
	if repo == "" {
		repo = "/repo"
	}
	sum, err := os.ReadFile(filepath.Join(repo, "go.sum"))
	if err != nil {
		return "", err
	}
	mod := filepath.Join(out, "racemod")
	_ = os.RemoveAll(mod)
	if err := os.MkdirAll(mod, 0o755); err != nil {
		return "", err
	}
	gomod := "module c13race\n\ngo 1.13\n\nrequire github.com/lyraproj/pcore v0.0.0\n\nreplace github.com/lyraproj/pcore => " + repo + "\n"
	for name, content := range map[string][]byte{"main.go": src, "go.mod": []byte(gomod), "go.sum": sum} {
		if err := os.WriteFile(filepath.Join(mod, name), content, 0o644); err != nil {
			return "", err
		}
	}
	cmd := exec.Command("go", "build", "-race", "-o", bin, ".")
	cmd.Dir = mod
	cmd.Env = append(os.Environ(), "CGO_ENABLED=1")
	var buf bytes.Buffer
	cmd.Stdout, cmd.Stderr = &buf, &buf
	if err := cmd.Run(); err != nil {
		return "", fmt.Errorf("go build -race: %v: %s", err, tail(buf.String(), 1500))
	}
	_ = os.RemoveAll(mod)
	return bin, nil
}

func mustWd() string { d, _ := os.Getwd(); return d }

func tail(s string, n int) string {
	if len(s) > n {
		return s[len(s)-n:]
	}
	return s
}

var (
	accessHdr = regexp.MustCompile(`^(?:Previous )?(?:[Ww]rite|[Rr]ead|atomic write|atomic read) at 0x[0-9a-f]+ by (?:goroutine \d+|main goroutine):$`)
	frameLine = regexp.MustCompile(`^  (\S+?)\(\)$`)
)

// parseRaces splits the stderr of a -race binary into reports
func parseRaces(stderr string) []raceReport {
	var out []raceReport
	for _, blk := range strings.Split(stderr, "==================") {
		if !strings.Contains(blk, "WARNING: DATA RACE") {
			continue
		}
		lines := strings.Split(blk, "\n")
		var funcs, frames []string
		for i, l := range lines {
			if accessHdr.MatchString(strings.TrimRight(l, " ")) && i+1 < len(lines) {
				// top = the first frame that is not runtime / sync code
				top := false
				for j := i + 1; j < len(lines) && strings.HasPrefix(lines[j], "  "); j++ {
					if m := frameLine.FindStringSubmatch(lines[j]); m != nil {
						f := m[1]
						frames = append(frames, shortFunc(f))
						if top || strings.HasPrefix(f, "runtime.") || strings.HasPrefix(f, "sync/atomic.") || strings.HasPrefix(f, "sync.") {
							continue
						}
						funcs = append(funcs, shortFunc(f))
						top = true
					}
				}
			}
		}
		s := append([]string(nil), funcs...)
		sort.Strings(s)
		out = append(out, raceReport{sig: strings.Join(s, " / "), funcs: funcs, frames: frames, text: strings.TrimSpace(blk),
			incomplete: strings.Contains(blk, "failed to restore the stack")})
	}
	return out
}

func shortFunc(f string) string {
	return strings.TrimPrefix(f, "github.com/lyraproj/pcore/")
}

// the placeholder that Hash.privateReducedType publishes before it fills in the key and the value type, observed as the
// type of a shared Hash whose type is something else (n entries: Hash[Any, Any, n, n])
var halfBuiltHash = regexp.MustCompile(`^FUNCTIONAL values PType of shared value \d+ observed as Hash\[Any, Any, (\d+), (\d+)\], it is Hash\[`)

// the unsynchronised lazily filled caches of shared values (ConcLazy.v models their logic; that the reads and
// writes of the fields race in the sense of the Go memory model is the open finding lazy-cache-data-race)
var lazyCacheFuncs = map[string]bool{
	"types.(*Array).privateReducedType":  true,
	"types.(*Array).privateDetailedType": true,
	"types.(*Hash).privateReducedType":   true,
	"types.(*Hash).privateDetailedType":  true,
	"types.(*Hash).valueIndex":           true,
}

// A report belongs to the open finding when one of the two access stacks passes through one of those functions:
// either the field itself is accessed, or an object that was built there, for the cache, is written (by its
// constructor, or by Hash.privateReducedType filling it in after publication) while a goroutine that was handed
// the pointer through the unsynchronised field reads it.
func raceTags(r raceReport) []string {
	for _, f := range r.frames {
		if lazyCacheFuncs[f] {
			return []string{"lazy-cache-data-race"}
		}
	}
	return nil
}

// history: GORACE history_size (the per-goroutine access history is 32K * 2^history entries; a report whose
// earlier access has left the history has no stack for it)
func runRacePart(bin string, p raceParams, dir string, limit time.Duration, history int) (stdout, stderr string, err error) {
	if p.Part == "firstdo" && p.Rounds > 1 {
		// one fresh process per round; a process that does not finish ends the series and is what is judged
		q := p
		q.Rounds = 1
		for k := 0; k < p.Rounds; k++ {
			so, se, e := runRacePart(bin, q, dir, limit, history)
			if e != nil || !strings.Contains(so, "DONE ") {
				return so, se, e
			}
			stdout, stderr = stdout+so, stderr+se
			q.Seed++
			q.N = 2 + (q.N+k)%7
		}
		return stdout, stderr, nil
	}
	args := []string{"-part", p.Part, "-dir", dir, "-n", fmt.Sprint(p.N), "-iters", fmt.Sprint(p.Iters),
		"-rounds", fmt.Sprint(p.Rounds), "-seed", fmt.Sprint(p.Seed)}
	cmd := exec.Command(bin, args...)
	cmd.Env = append(os.Environ(), fmt.Sprintf("GORACE=halt_on_error=0 exitcode=0 history_size=%d", history))
	var so, se bytes.Buffer
	cmd.Stdout, cmd.Stderr = &so, &se
	if err = cmd.Start(); err != nil {
		return "", "", err
	}
	done := make(chan error, 1)
	go func() { done <- cmd.Wait() }()
	select {
	case err = <-done:
	case <-time.After(limit):
		_ = cmd.Process.Kill()
		<-done
		err = fmt.Errorf("no result within %s", limit)
	}
	return so.String(), se.String(), err
}

// judgeRace: with deferIncomplete, a report that lacks one of its two stacks and therefore cannot be attributed
// (no known finding matches it) is not reported but counted in the result: the caller runs the part again with a
// larger history and judges that run without deferring.
func judgeRace(res *lib.Result, p raceParams, stdout, stderr string, err error, verbose, deferIncomplete bool) (deferred int) {
	res.Evaluations++
	res.Count("race.runs." + p.Part)
	seen := map[string]bool{}
	for _, r := range parseRaces(stderr) {
		res.Count("race.reports." + p.Part)
		if seen[r.sig] {
			continue
		}
		if deferIncomplete && r.incomplete && raceTags(r) == nil {
			res.Count("race.reports-without-a-stack." + p.Part)
			deferred++
			continue
		}
		seen[r.sig] = true
		if verbose {
			fmt.Printf("DATA RACE (%s): %s\n%s\n", p.Part, r.sig, r.text)
		}
		res.Violate(lib.Violation{Clause: "no-data-race",
			What:  fmt.Sprintf("the race detector reports a data race between %s in the stress program part %q:\n%s", r.sig, p.Part, tail2(r.text, 2500)),
			Input: p, Tags: raceTags(r)})
	}
	finished := false
	for _, l := range strings.Split(stdout, "\n") {
		switch {
		case strings.HasPrefix(l, "FUNCTIONAL "):
			res.Count("race.functional." + p.Part)
			if verbose {
				fmt.Println(l)
			}
			if halfBuiltHash.MatchString(l) {
				// open finding hash-reduced-half-built seen by free-running goroutines: Hash.privateReducedType stores
				// Hash[Any,Any,n,n] in the value before the key and value types are filled in, and a second goroutine
				// was handed exactly that placeholder (the controlled part lazy.go reports it under the same clause and tag)
				res.Violate(lib.Violation{Clause: "never-half-built", What: "free-running goroutines: " + strings.TrimPrefix(l, "FUNCTIONAL "), Input: p, Tags: []string{"hash.reduced"}})
				continue
			}
			res.Violate(lib.Violation{Clause: "stress-functional", What: "free-running goroutines: " + strings.TrimPrefix(l, "FUNCTIONAL "), Input: p})
		case strings.HasPrefix(l, "DONE "):
			finished = true
			var part string
			var ops int
			if n, _ := fmt.Sscanf(l, "DONE %s %d", &part, &ops); n == 2 {
				res.Distribution["race.operations."+p.Part] += ops
			}
		}
	}
	if !finished {
		what := fmt.Sprintf("the stress program part %q did not finish: %v\n%s", p.Part, err, tail(stderr, 2500))
		if verbose {
			fmt.Println(what)
		}
		res.Violate(lib.Violation{Clause: "no-crash", What: what, Input: p})
	} else if len(seen) == 0 {
		res.Nontrivial(fmt.Sprint("race-clean ", p.Part, p.N, p.Iters, p.Rounds, p.Seed))
	}
	return deferred
}

func tail2(s string, n int) string {
	if len(s) > n {
		return s[:n] + " ..."
	}
	return s
}

func runRace(cfg *lib.Config, res *lib.Result, rng *lib.Rng) {
	bin, err := buildRace(cfg.Out)
	if err != nil {
		// no C toolchain / no race runtime on this machine: recorded, not a verdict about the repository
		// (the scheduled part has compiled the same packages already)
		res.Extra["race_part"] = "NOT RUN: " + err.Error()
		return
	}
	n, iters, rounds := 8, 150, 3
	if cfg.Thorough() {
		n, iters, rounds = 12, 400, 12
	}
	// (a part whose goroutines block each other never prints DONE: it is killed after the limit and reported)
	limit := 60 * time.Second
	if cfg.Thorough() {
		limit = 300 * time.Second
	}
	seed := rng.Next() % 1000000
	type outT struct {
		p              raceParams
		stdout, stderr string
		err            error
	}
	outs := make([]outT, len(raceParts))
	var wg sync.WaitGroup
	for i, part := range raceParts {
		i, part := i, part
		p := raceParams{Kind: "race", Part: part, N: n, Iters: iters, Rounds: rounds, Seed: seed}
		if part == "loader" || part == "files" || part == "types" {
			// the windows of the loaders are open while a name is looked up / a file instantiated for the FIRST time in a
			// world: many short-lived worlds find an unsynchronised access far more reliably than few long ones
			// (measured on the reverse of fix 6364f0d: 3 worlds x 150 iterations report it in 1 run of 3, 40 x 40 in 9 of 9)
			p.Iters, p.Rounds = 40, 40
			if cfg.Thorough() {
				p.Iters, p.Rounds = 60, 400
			}
		}
		if part == "firstdo" {
			p.Iters, p.Rounds = 1, firstDoProcesses
			if cfg.Thorough() {
				p.Rounds = 10 * firstDoProcesses
			}
		}
		wg.Add(1)
		go func() {
			defer wg.Done()
			so, se, err := runRacePart(bin, p, filepath.Join(cfg.Out, "fs", "race-"+part), limit, 3)
			outs[i] = outT{p, so, se, err}
		}()
	}
	wg.Wait()
	for _, o := range outs {
		if judgeRace(res, o.p, o.stdout, o.stderr, o.err, false, true) > 0 {
			// a report that cannot be attributed for lack of a stack ("failed to restore the stack": the earlier access
			// has left the detector's history): the part is run again with the largest history, up to four times; a
			// report with both stacks is judged at once in whichever run it appears, one without a stack is reported
			// only if the last run still cannot show it with a stack
			for try := 1; try <= 4; try++ {
				so, se, err := runRacePart(bin, o.p, filepath.Join(cfg.Out, "fs", "race-"+o.p.Part), 2*limit, 7)
				if judgeRace(res, o.p, so, se, err, false, try < 4) == 0 {
					break
				}
			}
		}
	}
	res.Extra["race_part"] = fmt.Sprintf("race-detector build of cmd/c13race: parts %v, %d goroutines x %d iterations x %d worlds each (loader, files: many short worlds, see race.go), seed %d", raceParts, n, iters, rounds, seed)
	_ = os.Remove(bin)
}

func replayRace(cfg *lib.Config, res *lib.Result, in interface{}) {
	var p raceParams
	lib.Remarshal(in, &p)
	bin, err := buildRace(cfg.Out)
	if err != nil {
		fmt.Println("cannot build the stress program with the race detector: " + err.Error())
		return
	}
	fmt.Printf("stress program part %q, %d goroutines x %d iterations x %d worlds, seed %d (free-running: a data race may need several runs to show)\n",
		p.Part, p.N, p.Iters, p.Rounds, p.Seed)
	for try := 0; try < 3; try++ {
		so, se, err := runRacePart(bin, p, filepath.Join(cfg.Out, "fs", "race-"+p.Part), 300*time.Second, 7)
		before := len(res.Violations)
		judgeRace(res, p, so, se, err, true, false)
		if len(res.Violations) > before {
			break
		}
		fmt.Println("run", try, ": no report")
		p.Seed++
	}
	_ = os.Remove(bin)
}
