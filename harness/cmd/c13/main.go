// c13: shared loaders, types and values are safe under concurrent use.
package main

import (
	"fmt"
	"os"
	"sort"
	"strings"

	"verifharness/lib"
)

func main() {
	if raw := os.Getenv(firstDoEnv); raw != "" {
		firstDoChild(raw) // (firstdo.go: the fresh process of the part "firstdo")
		return
	}
	cfg := lib.ParseFlags()
	res := lib.NewResult("C13")
	res.Rule = "controlled part: a case is (loader tree, one operation list per goroutine, schedule); real goroutines are driven " +
		"through the schedule at the verifhook yield points; every run is checked directly (no runtime fault, outcome vector is " +
		"the outcome of some sequential order of the same operations on the real implementation, agreement, every file parsed " +
		"at most once, no deadlock) and a sample goes to the model (per-thread results and parse counts of Conc.exec, vm_compute). " +
		"non-trivial = the outcome of the run differs from the outcome of running the threads one after the other (thread 0 " +
		"first), or a goroutine was blocked on the name lock, or a file was instantiated while another goroutine was inside " +
		"the same load; distinct = distinct (program, executed schedule) pairs among those. " +
		"declaration programs (reg.go): a case is (one list of Decl/Do operations per goroutine, schedule) at the yield points of resolveResolvables; " +
		"checked directly (no panic but that of a Do which takes a declaration that cannot be resolved, outcome vector of some sequential order, " +
		"everything declared is resolved exactly once and usable after one more Do, no deadlock) and a sample goes to ConcReg.rexec; non-trivial = " +
		"a goroutine waited for the resolve lock or moved between two steps of another goroutine's Do. " +
		"free-running part: the race-detector build of the stress program (cmd/c13race), every report of the race detector and every functional failure is a violation"
	setupRuntime(cfg.Out)
	installHook()
	rng := lib.NewRng(cfg.Seed)
	if cfg.Replay != "" {
		replay(cfg, res)
	} else {
		// (C13_ONLY=controlled,lazy,...: run only those parts - a development aid, the driver never sets it)
		only := os.Getenv("C13_ONLY")
		part := func(name string) bool { return only == "" || strings.Contains(","+only+",", ","+name+",") }
		if part("controlled") {
			runControlled(cfg, res, rng)
		}
		if part("discover") {
			runDiscover(cfg, res, rng)
		}
		if part("namespaces") {
			runNs(cfg, res, lib.NewRng(cfg.Seed*7919+13))
		}
		if part("firstdo") {
			runFirstDo(cfg, res, lib.NewRng(cfg.Seed*7919+17))
		}
		if part("lazy") {
			runLazy(cfg, res, rng)
		}
		if part("reg") {
			runReg(cfg, res, rng)
		}
		if part("race") {
			runRace(cfg, res, rng)
		}
	}
	res.Write(cfg)
}

// ---- direct checks on one run ------------------------------------------------------------------------------

type verdict struct {
	clause string
	what   string
	tags   []string
}

func (c caseT) input(sched []int) map[string]interface{} {
	return map[string]interface{}{"kind": "sched", "cfg": c.Cfg, "prog": c.Prog, "sched": sched, "ops": progText(c.Prog)}
}

func progText(p [][]opT) [][]string {
	out := make([][]string, len(p))
	for i, th := range p {
		out[i] = make([]string, len(th))
		for j, o := range th {
			out[i][j] = o.String()
		}
	}
	return out
}

func dcheck(c caseT, rr *runResult) []verdict {
	var vs []verdict
	if rr.Hang != "" {
		return []verdict{{"no-deadlock", "the run did not finish: " + rr.Hang, nil}}
	}
	if rr.Deadlock {
		return []verdict{{"no-deadlock", "every unfinished goroutine is blocked on a mutex", nil}}
	}
	if rr.Abandoned != "" {
		return nil // (no deadlock, and no results to judge: see runJobs)
	}
	w := rr.World
	// 1. no crash
	for t, th := range rr.Results {
		for i, r := range th {
			switch {
			case r.Kind == "fault":
				vs = append(vs, verdict{"no-crash", fmt.Sprintf("goroutine %d: %s escaped with a runtime fault: %s", t, c.Prog[t][i], r.Text), nil})
			case r.Kind == "other":
				vs = append(vs, verdict{"no-crash", fmt.Sprintf("goroutine %d: %s escaped with an error that no operation of the program can raise: %s", t, c.Prog[t][i], r.Text), nil})
			case r.Kind == "fileerr" && !(c.Prog[t][i].Kind == "Load" && w.badLevel(c.Prog[t][i].L, c.Prog[t][i].N, c.Prog[t][i].S)):
				vs = append(vs, verdict{"no-crash", fmt.Sprintf("goroutine %d: %s escaped with the error of an instantiator although no file of that name is broken: %s", t, c.Prog[t][i], r.Text), nil})
			}
		}
	}
	// 2. every file is instantiated at most once
	for _, path := range sortedKeys(rr.Counts) {
		if rr.Counts[path] > 1 {
			vs = append(vs, verdict{"instantiate-once", fmt.Sprintf("%s was read and parsed %d times", path, rr.Counts[path]), nil})
		}
	}
	// 3. agreement: all loads of a name through a loader that return a value return the same one - demanded when all
	// definitions of the name inside the loader's chain (Define operations and files) are in one loader
	type ln struct{ l, n, s int }
	seen := map[ln]int{}
	for t, th := range rr.Results {
		for i, r := range th {
			o := c.Prog[t][i]
			if o.Kind != "Load" || r.Kind != "found" || !r.Found {
				continue
			}
			k := ln{o.L, o.N, o.S}
			if old, ok := seen[k]; ok && old != r.Val && singleDefiner(c, w, o.L, o.N) {
				vs = append(vs, verdict{"agreement", fmt.Sprintf("Load(l%d,%s) returned v%d to one goroutine and v%d to another", o.L, nameTab[o.N], old, r.Val), nil})
			} else if !ok {
				seen[k] = r.Val
			}
		}
	}
	// 3b. agreement among the definers: the Define operations on one name in one loader that were accepted were all handed
	// the one value that is bound to the name (two different definitions are never both accepted)
	defd := map[ln]int{}
	for t, th := range rr.Results {
		for i, r := range th {
			o := c.Prog[t][i]
			if o.Kind != "Define" || r.Kind != "defined" {
				continue
			}
			k := ln{o.L, o.N, o.S}
			if old, ok := defd[k]; ok && old != r.Val {
				vs = append(vs, verdict{"agreement", fmt.Sprintf("two definitions of %s in l%d were both accepted: one goroutine was told that v%d is bound, another that v%d is", nameTab[o.N], o.L, old, r.Val), nil})
			} else if !ok {
				defd[k] = r.Val
			}
		}
	}
	// 4. some sequential order of the same operations gives the same results
	if set := seqOutcomes(c); set != nil {
		if !set[outcomeKey(rr.Results)] {
			v := verdict{"sequential-consistency", "no sequential order of the operations returns " + fmt.Sprint(resTexts(rr.Results)), nil}
			// known finding: a load that meets the mark of an instantiation in progress in another goroutine takes it
			// for a cached miss (answers "not found", or goes on to a child loader's binding).  Matched only if (a) that
			// is what the run did and (b) with exactly those answers corrected the outcome is that of a sequential order.
			fixed := make([][]opRes, len(rr.Results))
			changed := false
			for t, th := range rr.Results {
				fixed[t] = append([]opRes(nil), th...)
				for i, r := range th {
					o := c.Prog[t][i]
					if o.Kind == "Load" && r.Kind == "found" && rr.Overlap[t][i] {
						// (the mark of an instantiation in progress is stored under the name of the FIRST namespace of the
						// SmartPath: a load through another namespace of a Multi loader never meets it and is not in the class)
						if d := w.fileLevel(o.L, o.N, o.S); d >= 0 && o.S <= 1 && !(r.Found && r.Val == fileVidS(d, o.N, o.S, 0)) {
							fixed[t][i] = opRes{Kind: "found", Found: true, Val: fileVidS(d, o.N, o.S, 0)}
							changed = true
						}
					}
				}
			}
			if changed && set[outcomeKey(fixed)] {
				v.tags = []string{"load-during-instantiate"}
				v.what = "a Load did not get the value of a name that has a file, because another goroutine was instantiating it: " + v.what
			} else {
				// known finding: LoadEntry reads the ancestors and then the loader itself in separate critical sections.
				// When the program binds the same name in TWO loaders of one chain, a load can combine "ancestor: nothing
				// yet" with a later binding of the descendant.  Matched only if every other result, and every result for
				// a name with one defining loader, is exactly that of a sequential order, and the loads in question
				// returned a value that the program does bind to that name in that chain.
				wild := map[[2]int]bool{}
				for t, th := range rr.Results {
					for i, r := range th {
						o := c.Prog[t][i]
						if o.Kind == "Load" && r.Kind == "found" && r.Found && !singleDefiner(c, w, o.L, o.N) && definedIn(c, w, o.L, o.N, r.Val) {
							wild[[2]int{t, i}] = true
						}
					}
				}
				if len(wild) > 0 && (matchesModulo(set, rr.Results, wild) || (changed && matchesModulo(set, fixed, wild))) {
					v.tags = []string{"shadowed-name-race"}
					v.what = "a Load combined an ancestor's 'nothing yet' with a later binding in a descendant (the name is bound in two loaders of the chain): " + v.what
				}
				// known finding: parentedLoader.Discover walks the ancestors first and then offers its own names except those
				// that the parent has by then.  A name that the program binds in TWO loaders of the chain - in the descendant
				// first - is in neither part when the ancestor receives it in between.  Matched only if the Discover is
				// interested in such a name and every other result is exactly that of a sequential order.
				if v.tags == nil {
					wildD := map[[2]int]bool{}
					for t, th := range rr.Results {
						for i, r := range th {
							o := c.Prog[t][i]
							if o.Kind != "Discover" || r.Kind != "names" {
								continue
							}
							for _, n := range o.Ns {
								if !singleDefiner(c, w, o.L, n) {
									wildD[[2]int{t, i}] = true
								}
							}
						}
					}
					if len(wildD) > 0 && matchesModulo(set, rr.Results, wildD) {
						v.tags = []string{"discover-shadowed-name"}
						v.what = "a Discover did not return a name that is bound in two loaders of the chain (the descendant offered it after the ancestor had got it too): " + v.what
					}
				}
			}
			vs = append(vs, v)
		}
	}
	return vs
}

// definedIn: the program binds value id v to name n in some loader of the chain of l (Define operation or file)
func definedIn(c caseT, w *world, l, n, v int) bool {
	in := map[int]bool{}
	for _, d := range w.chain(l) {
		in[d] = true
		if c.Cfg[d].File && v == fileVid(d, n, 0) {
			for _, f := range c.Cfg[d].Files {
				if f == n {
					return true
				}
			}
		}
	}
	for _, th := range c.Prog {
		for _, o := range th {
			if o.Kind == "Define" && o.N == n && in[o.L] && o.V == v {
				return true
			}
		}
	}
	return false
}

// matchesModulo: some sequential outcome agrees with the results at every position that is not in wild
func matchesModulo(set map[string]bool, rs [][]opRes, wild map[[2]int]bool) bool {
	for key := range set {
		ths := strings.Split(key, "|")
		ok := len(ths) == len(rs)+1
		for t := 0; ok && t < len(rs); t++ {
			parts := strings.Split(ths[t], ";")
			if len(parts) != len(rs[t])+1 {
				ok = false
				break
			}
			for i, r := range rs[t] {
				if wild[[2]int{t, i}] {
					continue
				}
				if parts[i] != strings.TrimSuffix(outcomeKey([][]opRes{{r}}), ";|") {
					ok = false
					break
				}
			}
		}
		if ok {
			return true
		}
	}
	return false
}

func singleDefiner(c caseT, w *world, l, n int) bool {
	in := map[int]bool{}
	for _, d := range w.chain(l) {
		in[d] = true
	}
	defs := map[int]bool{}
	for _, th := range c.Prog {
		for _, o := range th {
			if o.Kind == "Define" && o.N == n && in[o.L] {
				defs[o.L] = true
			}
		}
	}
	for d := range in {
		if c.Cfg[d].File {
			for _, f := range c.Cfg[d].Files {
				if f == n {
					defs[d] = true
				}
			}
		}
	}
	return len(defs) <= 1
}

func gCase(c caseT, rr *runResult) string {
	obs := make([]string, len(rr.Results))
	for t, th := range rr.Results {
		rs := make([]string, len(th))
		for i, r := range th {
			rs[i] = r.gallina()
		}
		obs[t] = fmt.Sprintf("(%s, %d%%nat)", lib.GList(rs, "res"), rr.Parses[t])
	}
	return fmt.Sprintf("(%s,\n    %s,\n    %s,\n    %s)", gCfg(c.Cfg), gProg(c.Prog), gSched(rr.Sched), lib.GList(obs, "obs"))
}

// ---- programs -------------------------------------------------------------------------------------------------

func cfgFamilies() [][]ldefT {
	return [][]ldefT{
		{{Parent: -1}, {Parent: 0}},                                              // static <- A
		{{Parent: -1}, {Parent: 0}, {Parent: 1}},                                 // static <- A <- B
		{{Parent: -1}, {Parent: 0, File: true, Files: []int{0}}},                 // static <- F{Na}
		{{Parent: -1}, {Parent: 0, File: true, Files: []int{0}}, {Parent: 1}},    // static <- F{Na} <- C
		{{Parent: -1}, {Parent: 0}, {Parent: 1, File: true, Files: []int{0, 1}}}, // static <- A <- F{Na,Nb}
		{{Parent: -1}, {Parent: 0}, {Parent: 0}},                                 // static <- A, static <- B (siblings)
		// files that cannot be instantiated (the instantiator panics while the name lock is held)
		{{Parent: -1}, {Parent: 0, File: true, Files: []int{0}, Bad: []int{0}}},                                           // static <- F{Na!}
		{{Parent: -1}, {Parent: 0, File: true, Files: []int{0, 1}, Bad: []int{1}}, {Parent: 1}},                           // static <- F{Na,Nb!} <- C
		{{Parent: -1}, {Parent: 0}, {Parent: 1, File: true, Files: []int{0, 1}, Bad: []int{0, 1}}},                        // static <- A <- F{Na!,Nb!}
		{{Parent: -1}, {Parent: 0, File: true, Files: []int{0}, Bad: []int{0}}, {Parent: 1, File: true, Files: []int{0}}}, // static <- F{Na!} <- G{Na}
	}
}

func ld(l, n int) opT        { return opT{Kind: "Load", L: l, N: n} }
func df(l, n, v int) opT     { return opT{Kind: "Define", L: l, N: n, V: v} }
func hs(l, n int) opT        { return opT{Kind: "Has", L: l, N: n} }
func th(ops ...opT) []opT    { return ops }
func pr(ts ...[]opT) [][]opT { return ts }

func corpus() []caseT {
	f := cfgFamilies()
	return []caseT{
		{Cfg: f[0], Prog: pr(th(ld(1, 0)), th(df(1, 0, 0))), Note: "miss then define"},
		{Cfg: f[0], Prog: pr(th(ld(1, 0), ld(1, 0)), th(df(1, 0, 0), ld(1, 0)))},
		{Cfg: f[0], Prog: pr(th(df(1, 0, 0), ld(1, 0)), th(df(1, 0, 1), ld(1, 0))), Note: "two definitions"},
		{Cfg: f[0], Prog: pr(th(df(1, 0, 4), ld(1, 0)), th(df(1, 0, 5), ld(1, 0))), Note: "two equal definitions"},
		{Cfg: f[0], Prog: pr(th(ld(1, 0), hs(1, 0)), th(ld(1, 0), df(1, 0, 0))), Note: "two misses"},
		// a name that holds a cached miss is defined by two goroutines
		{Cfg: f[0], Prog: pr(th(ld(1, 0), df(1, 0, 0)), th(df(1, 0, 1))), Note: "miss, then two different definitions"},
		{Cfg: f[0], Prog: pr(th(ld(1, 0)), th(df(1, 0, 0), ld(1, 0)), th(df(1, 0, 1), ld(1, 0))), Note: "miss while two different definitions are made"},
		{Cfg: f[0], Prog: pr(th(ld(1, 0), df(1, 0, 4), ld(1, 0)), th(df(1, 0, 6), ld(1, 0))), Note: "miss, then two definitions of different classes"},
		{Cfg: f[0], Prog: pr(th(ld(1, 0), df(1, 0, 4)), th(df(1, 0, 5)), th(df(1, 0, 1))), Note: "miss, then two equal definitions and a different one"},
		{Cfg: f[1], Prog: pr(th(ld(2, 0), df(1, 0, 0)), th(df(1, 0, 1), hs(2, 0))), Note: "the miss is cached in the child, the parent is defined twice"},
		{Cfg: f[1], Prog: pr(th(ld(2, 0), df(2, 0, 0)), th(ld(2, 0), df(2, 0, 1))), Note: "two misses, then two different definitions"},
		{Cfg: f[2], Prog: pr(th(ld(1, 1), df(1, 1, 0)), th(df(1, 1, 1), ld(1, 1))), Note: "file loader, the miss of a name without file is cached, then two definitions"},
		{Cfg: f[1], Prog: pr(th(ld(2, 0), ld(2, 0)), th(df(1, 0, 0)), th(df(2, 0, 1))), Note: "define in parent and child"},
		{Cfg: f[1], Prog: pr(th(ld(2, 0), hs(2, 0)), th(df(1, 0, 0), ld(1, 0)))},
		{Cfg: f[1], Prog: pr(th(ld(2, 0)), th(hs(2, 0), df(1, 0, 4)), th(hs(1, 0), df(2, 0, 1))), Note: "name bound in parent and child while a load is between the two"},
		// the FIRST operations of a fresh file based loader (the path index is built on demand; yield point index.building)
		{Cfg: f[4], Prog: pr(th(hs(2, 0)), th(ld(2, 1))), Note: "fresh loader: HasEntry while another name is loaded"},
		{Cfg: f[4], Prog: pr(th(hs(2, 0)), th(hs(2, 1))), Note: "fresh loader: HasEntry || HasEntry"},
		{Cfg: f[2], Prog: pr(th(hs(1, 0), ld(1, 0)), th(hs(1, 0))), Note: "fresh loader: HasEntry first, then Load"},
		{Cfg: f[2], Prog: pr(th(hs(1, 0)), th(ld(1, 0)), th(hs(1, 0))), Note: "fresh loader: HasEntry, Load, HasEntry"},
		{Cfg: f[3], Prog: pr(th(hs(2, 0)), th(ld(2, 0), hs(1, 0))), Note: "fresh loader below a child: HasEntry through the child"},
		{Cfg: f[2], Prog: pr(th(ld(1, 0)), th(ld(1, 0))), Note: "two loads of a file name"},
		{Cfg: f[2], Prog: pr(th(ld(1, 0), ld(1, 0)), th(ld(1, 0), ld(1, 0)))},
		{Cfg: f[2], Prog: pr(th(ld(1, 0)), th(ld(1, 0)), th(ld(1, 0))), Note: "three loads of a file name"},
		{Cfg: f[2], Prog: pr(th(ld(1, 1)), th(ld(1, 1), df(1, 1, 0))), Note: "file loader, name without file"},
		{Cfg: f[3], Prog: pr(th(ld(2, 0)), th(ld(1, 0), hs(2, 0))), Note: "load through the child of a file loader"},
		{Cfg: f[4], Prog: pr(th(ld(2, 0), ld(2, 1)), th(ld(2, 1), ld(2, 0))), Note: "two file names, crossed"},
		{Cfg: f[4], Prog: pr(th(ld(2, 0)), th(df(1, 0, 0), ld(2, 0))), Note: "file name shadowed by a definition in the parent"},
		{Cfg: f[5], Prog: pr(th(df(1, 0, 0), ld(2, 0)), th(df(2, 0, 1), ld(1, 0))), Note: "siblings"},
		{Cfg: f[6], Prog: pr(th(ld(1, 0)), th(ld(1, 0))), Note: "two loads of a name whose file is broken"},
		{Cfg: f[6], Prog: pr(th(ld(1, 0), ld(1, 0)), th(ld(1, 0), hs(1, 0))), Note: "broken file, loads repeated"},
		{Cfg: f[6], Prog: pr(th(ld(1, 0)), th(ld(1, 0)), th(ld(1, 0))), Note: "three loads of a name whose file is broken"},
		{Cfg: f[7], Prog: pr(th(ld(2, 1), ld(2, 0)), th(ld(2, 0), ld(2, 1))), Note: "a broken and a good file, crossed, through the child"},
		{Cfg: f[8], Prog: pr(th(ld(2, 0), ld(2, 1)), th(ld(2, 1), ld(2, 0))), Note: "two broken files, crossed"},
		{Cfg: f[8], Prog: pr(th(ld(2, 0)), th(df(1, 0, 0), ld(2, 0))), Note: "broken file shadowed by a definition in the parent"},
		{Cfg: f[9], Prog: pr(th(ld(2, 0)), th(ld(2, 0))), Note: "broken file in the parent, good file of the same name in the child"},
		{Cfg: f[9], Prog: pr(th(ld(2, 0), ld(2, 0)), th(ld(1, 0), ld(2, 0)))},
	}
}

func randomProgram(r *lib.Rng, nThreads, maxOps int) caseT {
	fams := cfgFamilies()
	cfg := fams[r.Intn(len(fams))]
	names := 1 + r.Intn(2)
	hasFile := func(l, n int) bool {
		for _, f := range cfg[l].Files {
			if f == n {
				return true
			}
		}
		return false
	}
	prog := make([][]opT, nThreads)
	for t := range prog {
		k := 1 + r.Intn(maxOps)
		for i := 0; i < k; i++ {
			l := 1 + r.Intn(len(cfg)-1)
			n := r.Intn(names)
			switch x := r.Intn(10); {
			case x < 5:
				prog[t] = append(prog[t], ld(l, n))
			case x < 8 && !(cfg[l].File && hasFile(l, n)):
				// (a Define of a name that the same loader finds in a file is outside the modelled programs, see design notes)
				prog[t] = append(prog[t], df(l, n, []int{0, 1, 4, 5}[r.Intn(4)]))
			default:
				prog[t] = append(prog[t], hs(l, n))
			}
		}
	}
	return caseT{Cfg: cfg, Prog: prog}
}

// missDefineProgram: a name is asked for before it is defined (the loader caches the miss), then two or three goroutines
// define it, with different or equal values, and look at it
func missDefineProgram(r *lib.Rng) caseT {
	fams := cfgFamilies()
	cfg := fams[[]int{0, 1, 2, 3, 5}[r.Intn(5)]]
	l := 1 + r.Intn(len(cfg)-1)
	n := 0
	if cfg[l].File {
		n = 1 // (a name without file)
	}
	via := l
	if r.Intn(3) == 0 {
		via = 1 + r.Intn(len(cfg)-1) // the miss is cached through another loader
	}
	nT := 2 + r.Intn(2)
	prog := make([][]opT, nT)
	vals := []int{0, 1, 4, 5, 6}
	for t := range prog {
		if t == 0 || r.Intn(3) == 0 {
			prog[t] = append(prog[t], ld(via, n))
		}
		if t < 2 || r.Intn(2) == 0 {
			prog[t] = append(prog[t], df(l, n, vals[r.Intn(len(vals))]))
		}
		if len(prog[t]) == 0 || (r.Intn(2) == 0 && len(prog[t]) < 2) {
			prog[t] = append(prog[t], ld(l, n))
		}
	}
	return caseT{Cfg: cfg, Prog: prog}
}

// ---- exploration -------------------------------------------------------------------------------------------

type explorer struct {
	cfg      *lib.Config
	res      *lib.Result
	files    []*lib.CasesFile
	coqEvery int
	nRuns    int
	coqCases int
	coqMax   int
	baseline map[string]string
	emit     func(c caseT, rr *runResult) // when set: hands a run to the model (instead of the cases of Conc.v)
}

func (e *explorer) casesFile() *lib.CasesFile {
	return &lib.CasesFile{Imports: []string{"Model.Base", "Model.Conc", "Corr.CorrC13"}, Typ: "conc_case",
		Obligations: map[string]string{"conc_model": "conc_mismatches cases"}}
}

// visit checks one run and possibly hands it to the model
func (e *explorer) visit(c caseT, rr *runResult, family string, forceCoq bool) {
	e.nRuns++
	e.res.Evaluations++
	e.res.Count("runs." + family)
	e.res.Count(fmt.Sprintf("threads.%d", len(c.Prog)))
	vs := dcheck(c, rr)
	for _, v := range vs {
		e.res.Violate(lib.Violation{Clause: v.clause, What: v.what, Input: c.input(rr.Sched), Tags: v.tags})
	}
	// non-trivial?
	blocked := false
	for i, k := range rr.Sched {
		in := false
		for _, x := range rr.Enabled[i] {
			if x == k {
				in = true
			}
		}
		if !in {
			blocked = true
		}
	}
	overl := false
	for _, m := range rr.Overlap {
		if len(m) > 0 {
			overl = true
		}
	}
	key := progKey(c)
	base, ok := e.baseline[key]
	if !ok {
		var order [][2]int
		for t, th := range c.Prog {
			for i := range th {
				order = append(order, [2]int{t, i})
			}
		}
		base = runSequential(c, order)
		e.baseline[key] = base
	}
	if rr.Abandoned != "" {
		e.res.Count("runs.abandoned")
	}
	if rr.Hang == "" && !rr.Deadlock && rr.Abandoned == "" {
		if outcomeKey(rr.Results) != base || blocked || overl {
			e.res.Nontrivial(key + fmt.Sprint(rr.Sched))
			e.res.Count("nontrivial")
		}
		if blocked {
			e.res.Count("runs.with-blocked-step")
		}
		toCoq := forceCoq || (len(vs) > 0 && e.coqCases < 20+e.coqMax) || e.nRuns%e.coqEvery == 0
		if toCoq && e.coqCases < e.coqMax+20 {
			if e.emit != nil {
				e.emit(c, rr)
			} else {
				f := e.files[e.coqCases%len(e.files)]
				f.Add(gCase(c, rr), c.input(rr.Sched))
				e.coqCases++
			}
		}
	}
	if e.nRuns%1499 == 1 {
		e.res.Sample(map[string]interface{}{"prog": progText(c.Prog), "sched": rr.Sched, "results": resTexts(rr.Results), "parses": rr.Parses})
	}
}

// exploreAll runs every maximal schedule of the program (stateless depth-first search: a run with a prefix is
// completed by always taking the first enabled thread, every other enabled thread at every later position is a new prefix)
func (e *explorer) exploreAll(c caseT, limit int, family string) (runs int, complete bool) {
	stack := [][]int{nil}
	unfinished := 0
	for len(stack) > 0 {
		if runs >= limit || unfinished >= 2 || stuck() {
			return runs, false
		}
		prefix := stack[len(stack)-1]
		stack = stack[:len(stack)-1]
		rr := runSchedule(c.Cfg, c.Prog, prefixPolicy(prefix))
		runs++
		e.visit(c, rr, family, false)
		if rr.Hang != "" || rr.Deadlock || rr.Abandoned != "" {
			unfinished++ // (reported by visit; two such runs are enough for one program)
			continue
		}
		for i := len(rr.Sched) - 1; i >= len(prefix); i-- {
			for _, alt := range rr.Enabled[i] {
				if alt != rr.Sched[i] {
					np := append(append([]int(nil), rr.Sched[:i]...), alt)
					stack = append(stack, np)
				}
			}
		}
	}
	return runs, true
}

// pctPolicy: randomised priorities with d-1 priority change points (PCT, Burckhardt et al.)
func pctPolicy(r *lib.Rng, nThreads, depth, estLen int) policy {
	prio := make([]int, nThreads)
	perm := make([]int, nThreads)
	for i := range perm {
		perm[i] = i
	}
	for i := nThreads - 1; i > 0; i-- {
		j := r.Intn(i + 1)
		perm[i], perm[j] = perm[j], perm[i]
	}
	for i, p := range perm {
		prio[i] = depth + p
	}
	change := map[int]int{}
	for k := 1; k < depth; k++ {
		change[r.Intn(estLen)] = depth - k
	}
	return func(i int, enabled []int) int {
		best := enabled[0]
		for _, t := range enabled {
			if prio[t] > prio[best] {
				best = t
			}
		}
		if lo, ok := change[i]; ok {
			prio[best] = lo
		}
		return best
	}
}

// noisyPolicy: a random thread at every step, enabled or not (exercises the no-op steps), then completion
func noisyPolicy(r *lib.Rng, nThreads, length int) policy {
	pre := make([]int, length)
	for i := range pre {
		pre[i] = r.Intn(nThreads)
	}
	return prefixPolicy(pre)
}

func runControlled(cfg *lib.Config, res *lib.Result, rng *lib.Rng) {
	e := &explorer{cfg: cfg, res: res, baseline: map[string]string{}}
	nFiles, perProgram, nRandom2, nRandom3, nRandom4, pct4 := 2, 1500, 40, 14, 60, 12
	nMiss := 12
	if cfg.Thorough() {
		nMiss = 120
	}
	e.coqMax = 1600
	e.coqEvery = 9
	if cfg.Thorough() {
		nFiles, perProgram, nRandom2, nRandom3, nRandom4, pct4 = 8, 60000, 400, 120, 600, 40
		e.coqMax = 14000
		e.coqEvery = 40
	}
	for i := 0; i < nFiles; i++ {
		e.files = append(e.files, e.casesFile())
	}
	exhaustive, truncated, schedules := 0, 0, 0
	// the cap per program applies while the part is within its budget of runs; afterwards programs get the quick cap
	maxRuns := 60000
	if cfg.Thorough() {
		maxRuns = 600000
	}
	explore := func(c caseT, family string) {
		limit := perProgram
		if e.nRuns > maxRuns && limit > 1500 {
			limit = 1500
		}
		n, complete := e.exploreAll(c, limit, family)
		schedules += n
		if complete {
			exhaustive++
			res.Count("programs.exhaustive." + family)
		} else {
			truncated++
			res.Count("programs.truncated." + family)
			// beyond the cap: random schedules
			for k := 0; k < 50 && !stuck(); k++ {
				r := rng.Fork()
				rr := runSchedule(c.Cfg, c.Prog, noisyPolicy(r, len(c.Prog), 10+r.Intn(30)))
				e.visit(c, rr, family+".random", false)
			}
		}
	}
	for _, c := range corpus() {
		explore(c, "corpus")
	}
	for i := 0; i < nRandom2; i++ {
		explore(randomProgram(rng.Fork(), 2, 3), "2x3")
	}
	for i := 0; i < nMiss; i++ {
		explore(missDefineProgram(rng.Fork()), "miss-define")
	}
	for i := 0; i < nRandom3; i++ {
		explore(randomProgram(rng.Fork(), 3, 2), "3x2")
	}
	// 4 goroutines: randomised-priority sampling, plus noisy schedules
	for i := 0; i < nRandom4; i++ {
		c := randomProgram(rng.Fork(), 4, 2)
		for k := 0; k < pct4 && !stuck(); k++ {
			r := rng.Fork()
			var pol policy
			if k%4 == 3 {
				pol = noisyPolicy(r, 4, 10+r.Intn(40))
			} else {
				pol = pctPolicy(r, 4, 1+r.Intn(3), 30)
			}
			rr := runSchedule(c.Cfg, c.Prog, pol)
			e.visit(c, rr, "4xpct", false)
		}
	}
	res.Extra["programs_with_all_schedules_explored"] = exhaustive
	res.Extra["programs_truncated_at_cap"] = truncated
	res.Extra["schedules_per_program_cap"] = perProgram
	res.Extra["schedules_budget_after_which_the_cap_is_1500"] = maxRuns
	res.Extra["schedules_run"] = e.nRuns
	if stuck() {
		res.Extra["exploration_cut_short"] = fmt.Sprintf("%d runs did not finish (each one is reported as a violation); no further runs were started", unfinishedRuns)
	}
	res.Extra["sequential_oracle_programs"] = len(seqMemo)
	res.Exhaustive = truncated == 0
	for i, f := range e.files {
		res.CorrFiles = append(res.CorrFiles, f.WriteTo(cfg.Out, fmt.Sprintf("cases_conc_%d", i)))
	}
}

// ---- replay --------------------------------------------------------------------------------------------------

func replay(cfg *lib.Config, res *lib.Result) {
	e := &explorer{cfg: cfg, res: res, baseline: map[string]string{}, coqEvery: 1, coqMax: 100}
	e.files = []*lib.CasesFile{e.casesFile()}
	for _, in := range lib.ReplayInputs(cfg.Replay) {
		var k struct {
			Kind string `json:"kind"`
		}
		lib.Remarshal(in, &k)
		switch k.Kind {
		case "sched":
			var c caseT
			lib.Remarshal(in, &c)
			rr := runSchedule(c.Cfg, c.Prog, prefixPolicy(c.Sched))
			fmt.Printf("program %v\nschedule %v\n", progText(c.Prog), rr.Sched)
			if rr.Hang != "" || rr.Deadlock {
				fmt.Printf("the run did not finish (deadlock=%v) %s\n", rr.Deadlock, rr.Hang)
			} else {
				fmt.Printf("results  %v\nparses   %v %v\n", resTexts(rr.Results), rr.Parses, rr.Counts)
			}
			vs := dcheck(c, rr)
			for _, v := range vs {
				fmt.Printf("FAILS %s: %s %v\n", v.clause, v.what, v.tags)
			}
			if len(vs) == 0 {
				fmt.Println("the run satisfies the direct checks")
				if set := seqOutcomes(c); set != nil {
					ks := make([]string, 0, len(set))
					for k := range set {
						ks = append(ks, k)
					}
					sort.Strings(ks)
					fmt.Printf("(%d sequential outcomes)\n", len(ks))
				}
			}
			hasDisc := false
			for _, th := range c.Prog {
				for _, o := range th {
					hasDisc = hasDisc || o.Kind == "Discover"
				}
			}
			if isMultiCase(c) {
				nf := nsCasesFile()
				cf := chainCasesFile()
				e.emit = func(c caseT, rr *runResult) {
					if nsModelled(c) {
						nf.Add(gNsCase(c, rr), c.input(rr.Sched))
					} else if _, _, ok := chainModelled(c); ok {
						cf.Add(gChainCase(c, rr), c.input(rr.Sched))
					}
				}
				e.visit(c, rr, "replay", true)
				e.emit = nil
				if len(nf.Cases) > 0 {
					res.CorrFiles = append(res.CorrFiles, nf.WriteTo(cfg.Out, "cases_ns"))
				}
				if len(cf.Cases) > 0 {
					res.CorrFiles = append(res.CorrFiles, cf.WriteTo(cfg.Out, "cases_nschain"))
				}
			} else if hasDisc {
				df := discCasesFile()
				e.emit = func(c caseT, rr *runResult) {
					if discModelled(c) {
						df.Add(gDiscCase(c, rr), c.input(rr.Sched))
					}
				}
				e.visit(c, rr, "replay", true)
				e.emit = nil
				if len(df.Cases) > 0 {
					res.CorrFiles = append(res.CorrFiles, df.WriteTo(cfg.Out, "cases_disc"))
				}
			} else {
				e.visit(c, rr, "replay", true)
			}
		case "lazy":
			replayLazy(cfg, res, in)
		case "reg":
			replayReg(cfg, res, in)
		case "race":
			replayRace(cfg, res, in)
		case "firstdo":
			replayFirstDo(cfg, res, in)
		default:
			fmt.Println("unknown replay input kind " + strings.TrimSpace(k.Kind))
		}
	}
	if len(e.files[0].Cases) > 0 {
		res.CorrFiles = append(res.CorrFiles, e.files[0].WriteTo(cfg.Out, "cases_conc_0"))
	}
}
