package main

import (
	"fmt"
	"os"
	"path/filepath"
	"runtime"
	"sort"
	"strings"
	"sync"

	"github.com/lyraproj/issue/issue"
	"github.com/lyraproj/pcore/loader"
	"github.com/lyraproj/pcore/pcore"
	"github.com/lyraproj/pcore/px"
	"github.com/lyraproj/pcore/types"
	"verifharness/lib"
)

// ---- the input language: configuration (loader tree), program (one operation list per goroutine), schedule ----

type ldefT struct {
	Parent int   `json:"parent"` // -1: the static loader itself (only loader 0)
	File   bool  `json:"file,omitempty"`
	Files  []int `json:"files,omitempty"` // names (indices into nameTab) that have a file under this loader
	Bad    []int `json:"bad,omitempty"`   // those of Files whose file cannot be instantiated (syntax error, wrong or no definition)
	// Multi: the SmartPath of this file based loader serves SEVERAL namespaces (multiNs, ns.go): one file things/<name>.thg
	// defines <name> in each of them and is instantiated under the name of the first one, whichever was asked for
	Multi bool `json:"multi,omitempty"`
}

func (l ldefT) isBad(n int) bool {
	for _, b := range l.Bad {
		if b == n {
			return true
		}
	}
	return false
}

type opT struct {
	Kind string `json:"op"` // Load | Define | Has
	L    int    `json:"l"`
	N    int    `json:"n"`
	V    int    `json:"v,omitempty"`
	// S: the namespace of the name. 0: type (every program but those of ns.go); 1, 2, 3: the namespaces multiNs[S-1] that
	// the SmartPath of a Multi loader serves (1 = its first namespace)
	S int `json:"s,omitempty"`
	// Discover: the predicate is interested in the names Ns only; for each of them that it is offered it asks loader L
	// itself (Ask 1: HasEntry, 2: LoadEntry, 3: px.Load; 0: it looks at the name only)
	Ask int   `json:"ask,omitempty"`
	Ns  []int `json:"ns,omitempty"`
}

var askTab = []string{"name-only", "HasEntry", "LoadEntry", "px.Load"}

type caseT struct {
	Cfg   []ldefT `json:"cfg"`
	Prog  [][]opT `json:"prog"`
	Sched []int   `json:"sched"`
	Note  string  `json:"note,omitempty"`
}

func (o opT) String() string {
	switch o.Kind {
	case "Define":
		return fmt.Sprintf("Define(l%d,%s,v%d)", o.L, nameTab[o.N], o.V)
	case "Discover":
		ns := make([]string, len(o.Ns))
		for i, n := range o.Ns {
			ns[i] = nameTab[n]
		}
		return fmt.Sprintf("Discover(l%d,predicate:%s,%v)", o.L, askTab[o.Ask], ns)
	}
	if o.S != 0 {
		return fmt.Sprintf("%s(l%d,%s/%s)", o.Kind, o.L, multiNs[o.S-1], nameTab[o.N])
	}
	return fmt.Sprintf("%s(l%d,%s)", o.Kind, o.L, nameTab[o.N])
}

// tn: the typed name that the operation is about
func (o opT) tn() px.TypedName { return sname(o.S, o.N) }

func sname(s, n int) px.TypedName {
	if s == 0 {
		return tname(n)
	}
	return px.NewTypedName(multiNs[s-1], nameTab[n])
}

func (o opT) gallina() string {
	switch o.Kind {
	case "Load":
		return fmt.Sprintf("OLoad %d%%nat %d%%N", o.L, o.N)
	case "Define":
		return fmt.Sprintf("ODefine %d%%nat %d%%N %s", o.L, o.N, gVal(o.V))
	case "Has":
		return fmt.Sprintf("OHas %d%%nat %d%%N", o.L, o.N)
	}
	panic("bad op " + o.Kind)
}

func progKey(c caseT) string {
	var b strings.Builder
	for _, l := range c.Cfg {
		fmt.Fprintf(&b, "%d,%v,%v,%v,%v;", l.Parent, l.File, l.Files, l.Bad, l.Multi)
	}
	b.WriteString("|")
	for _, th := range c.Prog {
		for _, o := range th {
			b.WriteString(o.String())
			b.WriteString(",")
		}
		b.WriteString("/")
	}
	return b.String()
}

// ---- names and values --------------------------------------------------------------------------------

var nameTab = []string{"Na", "Nb", "Nc", "Nd"}

func tname(n int) px.TypedName { return px.NewTypedName(px.NsType, nameTab[n]) }

// values that Define binds: plain pointers (equal iff identical) and px.Equality implementers (equal iff same class),
// as basicLoader.SetEntry distinguishes them (loader.go:132-139)
type plainThing struct{ id int }
type eqThing struct{ class, id int }

func (e *eqThing) Equals(other interface{}, g px.Guard) bool {
	o, ok := other.(*eqThing)
	return ok && o.class == e.class
}

type valInfo struct {
	v   interface{}
	cls int // -1: no px.Equality
}

var valTab = []valInfo{
	{&plainThing{0}, -1}, {&plainThing{1}, -1}, {&plainThing{2}, -1}, {&plainThing{3}, -1},
	{&eqThing{0, 4}, 0}, {&eqThing{0, 5}, 0}, {&eqThing{1, 6}, 1}, {&eqThing{1, 7}, 1},
}

// the value that the file of name n under loader d defines (k: which instantiation; 0 in every correct run)
func fileVid(d, n, k int) int { return 100 + 10*d + n + 1000*k }

// the same for the name in namespace s of a Multi loader (s = 0: fileVid)
func fileVidS(d, n, s, k int) int { return fileVid(d, n, k) + 50*s }

func gVal(id int) string {
	if id >= 0 && id < len(valTab) && valTab[id].cls >= 0 {
		return fmt.Sprintf("(mkV %d (Some %d%%N))", id, valTab[id].cls)
	}
	return fmt.Sprintf("(mkV %d None)", id)
}

func gCfg(cfg []ldefT) string {
	ls := make([]string, len(cfg))
	for d, l := range cfg {
		par := "None"
		if l.Parent >= 0 {
			par = fmt.Sprintf("(Some %d%%nat)", l.Parent)
		}
		fs := make([]string, len(l.Files))
		for i, n := range l.Files {
			fs[i] = fmt.Sprintf("(%d%%N, %s)", n, gVal(fileVid(d, n, 0)))
		}
		bad := make([]string, len(l.Bad))
		for i, n := range l.Bad {
			bad[i] = fmt.Sprintf("%d%%N", n)
		}
		ls[d] = fmt.Sprintf("mkL %s %s %s %s", par, lib.GBool(l.File), lib.GList(fs, "key * val"), lib.GList(bad, "key"))
	}
	return lib.GList(ls, "ldef")
}

func gProg(p [][]opT) string {
	ts := make([]string, len(p))
	for i, th := range p {
		os := make([]string, len(th))
		for j, o := range th {
			os[j] = o.gallina()
		}
		ts[i] = lib.GList(os, "op")
	}
	return lib.GList(ts, "list op")
}

func gSched(s []int) string {
	es := make([]string, len(s))
	for i, t := range s {
		es[i] = fmt.Sprint(t)
	}
	return "(" + lib.GList(es, "nat") + "%nat)"
}

// ---- results ---------------------------------------------------------------------------------------------

type opRes struct {
	Kind  string      // found | defined | bool | err | fileerr | fault | other
	raw   interface{} // the value handed out (found, defined)
	Found bool
	B     bool
	Text  string // error / fault text
	Val   int    // value id (filled by world.resolve)
	Names []int  // Discover: the names of the predicate's interest that were returned, in the order of opT.Ns
}

func (r opRes) gallina() string {
	switch r.Kind {
	case "found":
		if !r.Found {
			return "RFound None"
		}
		return "RFound (Some " + gVal(r.Val) + ")"
	case "defined":
		return "RDefined " + gVal(r.Val)
	case "bool":
		return "RBool " + lib.GBool(r.B)
	case "err":
		return "RErr"
	case "fileerr":
		return "RFileErr"
	case "names":
		return "RNames " + fmt.Sprint(r.Names)
	}
	return "RFault"
}

func (r opRes) String() string {
	switch r.Kind {
	case "found":
		if !r.Found {
			return "not found"
		}
		return fmt.Sprintf("found v%d", r.Val)
	case "defined":
		return fmt.Sprintf("defined v%d", r.Val)
	case "bool":
		return fmt.Sprint(r.B)
	case "err":
		return "error " + r.Text
	case "fileerr":
		return "instantiation failed " + r.Text
	case "names":
		ns := make([]string, len(r.Names))
		for i, n := range r.Names {
			ns[i] = nameTab[n]
		}
		return fmt.Sprint("discovered ", ns)
	}
	return r.Kind + " " + r.Text
}

// ---- the world: real loaders built from a configuration -------------------------------------------------

var fsRoot string

var parseCount = struct {
	sync.Mutex
	byPath map[string]int
}{byPath: map[string]int{}}

// countingInstantiator is InstantiatePuppetType plus a count of how often each file is read and parsed
func countingInstantiator(ctx px.Context, l loader.ContentProvidingLoader, tn px.TypedName, sources []string) {
	parseCount.Lock()
	parseCount.byPath[sources[0]]++
	parseCount.Unlock()
	if t := currentThread(); t != nil {
		t.parses++
	}
	loader.InstantiatePuppetType(ctx, l, tn, sources)
}

func setupRuntime(out string) {
	fsRoot = filepath.Join(out, "fs")
	pcore.Do(func(c px.Context) {})
	registerMultiPath()
	loader.SmartPathFactories[px.PuppetDataTypePath] = func(l px.ModuleLoader, moduleNameRelative bool) loader.SmartPath {
		return loader.NewSmartPath(`types`, `.pp`, l, []px.Namespace{px.NsType}, moduleNameRelative, false, countingInstantiator)
	}
}

var dirMade = map[string]bool{}

// the text of a file that cannot be instantiated; the three ways in which InstantiatePuppetType gives up
// (loader/instantiate.go): the parser rejects it, it defines another name, it defines nothing
func badFileText(d, n int) string {
	switch (d + n) % 3 {
	case 0:
		return fmt.Sprintf("type %s = Object[{\n  attributes => {\n    first => String\n    second => Integer\n  }\n}]\n", nameTab[n])
	case 1:
		return fmt.Sprintf("type %sOther = Integer[%d,%d]\n", nameTab[n], d, 100+n)
	}
	return "# nothing is defined here\n"
}

func fileDir(d int, l ldefT) string {
	files := l.Files
	ks := make([]string, len(files))
	for i, n := range files {
		ks[i] = fmt.Sprint(n)
		if l.isBad(n) {
			ks[i] += "b"
		}
	}
	sub, ext, pre := "types", ".pp", "l"
	if l.Multi {
		sub, ext, pre = "things", ".thg", "m"
	}
	dir := filepath.Join(fsRoot, fmt.Sprintf("%s%d-%s", pre, d, strings.Join(ks, "_")))
	if !dirMade[dir] {
		dirMade[dir] = true
		if err := os.MkdirAll(filepath.Join(dir, sub), 0o755); err != nil {
			panic(err)
		}
		for _, n := range files {
			p := filepath.Join(dir, sub, strings.ToLower(nameTab[n])+ext)
			text := fmt.Sprintf("type %s = Integer[%d,%d]\n", nameTab[n], d, 100+n)
			if l.isBad(n) {
				text = badFileText(d, n)
			}
			if l.Multi {
				text = fmt.Sprintf("good %d %d\n", d, n)
				if l.isBad(n) {
					text = fmt.Sprintf("bad %d %d\n", d, n)
				}
			}
			if err := os.WriteFile(p, []byte(text), 0o644); err != nil {
				panic(err)
			}
		}
	}
	return dir
}

type world struct {
	cfg     []ldefT
	loaders []px.Loader
	dirs    []string
	ptr     map[interface{}]int
	extra   int
}

func newWorld(cfg []ldefT) *world {
	w := &world{cfg: cfg, ptr: map[interface{}]int{}}
	for i, vi := range valTab {
		w.ptr[vi.v] = i
	}
	for d, l := range cfg {
		var ld px.Loader
		dir := ""
		switch {
		case l.Parent < 0:
			ld = px.StaticLoader()
		case l.File:
			dir = fileDir(d, l)
			pt := px.PuppetDataTypePath
			if l.Multi {
				pt = multiPathType
			}
			ld = px.NewFileBasedLoader(w.loaders[l.Parent], dir, ``, pt)
		default:
			ld = px.NewParentedLoader(w.loaders[l.Parent])
		}
		w.loaders = append(w.loaders, ld)
		w.dirs = append(w.dirs, dir)
	}
	parseCount.Lock()
	parseCount.byPath = map[string]int{}
	parseCount.Unlock()
	return w
}

func (w *world) chain(l int) []int {
	var up []int
	for d := l; d >= 0; d = w.cfg[d].Parent {
		up = append(up, d)
	}
	for i, j := 0, len(up)-1; i < j; i, j = i+1, j-1 {
		up[i], up[j] = up[j], up[i]
	}
	return up
}

// badLevel: some file based loader in the chain of l has a file for n that cannot be instantiated
func (w *world) badLevel(l, n, s int) bool {
	for _, d := range w.chain(l) {
		if w.cfg[d].File && w.cfg[d].isBad(n) && w.cfg[d].Multi == (s != 0) {
			return true
		}
	}
	return false
}

// fileLevel: the file based loader in the chain of l that has a file for n which defines n (-1: none).  A loader
// whose file for n is broken never binds n: loads go on to the loaders below it once the failure is cached.
func (w *world) fileLevel(l, n, s int) int {
	for _, d := range w.chain(l) {
		if w.cfg[d].File && !w.cfg[d].isBad(n) && w.cfg[d].Multi == (s != 0) {
			for _, f := range w.cfg[d].Files {
				if f == n {
					return d
				}
			}
		}
	}
	return -1
}

// resolve gives every value handed out its id: the values of valTab, the value that each file based loader holds
// for a file name (instance 0), and fresh ids (instance >= 1) for any other pointer - a second instantiation.
func (w *world) resolve(results [][]opRes) {
	for d, l := range w.cfg {
		if !l.File {
			continue
		}
		for _, n := range l.Files {
			if l.Multi {
				for s := 1; s <= len(multiNs); s++ {
					if e := w.loaders[d].GetEntry(sname(s, n)); e != nil && e.Value() != nil {
						if _, known := w.ptr[e.Value()]; !known {
							w.ptr[e.Value()] = fileVidS(d, n, s, 0)
						}
					}
				}
				continue
			}
			if e := w.loaders[d].GetEntry(tname(n)); e != nil && e.Value() != nil {
				if _, known := w.ptr[e.Value()]; !known {
					w.ptr[e.Value()] = fileVid(d, n, 0)
				}
			}
		}
	}
	for ti := range results {
		for oi := range results[ti] {
			r := &results[ti][oi]
			if r.raw == nil {
				continue
			}
			id, ok := w.ptr[r.raw]
			if !ok {
				w.extra++
				id = fileVid(0, 0, w.extra)
				if ft, isThing := r.raw.(*fileThing); isThing {
					id = fileVidS(ft.d, ft.n, ft.s, w.extra)
				}
				if t, isType := r.raw.(px.Type); isType {
					for n, nm := range nameTab {
						if strings.EqualFold(nm, t.Name()) {
							id = fileVid(0, n, w.extra)
						}
					}
				}
				w.ptr[r.raw] = id
			}
			r.Val = id
		}
	}
}

func (w *world) parseCounts() map[string]int {
	parseCount.Lock()
	defer parseCount.Unlock()
	m := map[string]int{}
	for k, v := range parseCount.byPath {
		rel, err := filepath.Rel(fsRoot, k)
		if err != nil {
			rel = k
		}
		m[rel] = v
	}
	return m
}

func classifyPanic(r interface{}) opRes {
	if re, ok := r.(runtime.Error); ok {
		return opRes{Kind: "fault", Text: re.Error()}
	}
	if rep, ok := r.(issue.Reported); ok {
		switch rep.Code() {
		case px.AttemptToRedefine:
			return opRes{Kind: "err", Text: string(rep.Code())}
		case types.ParseError, px.ParseError, px.WrongDefinition, px.NoDefinition:
			// the instantiator gave up on the file (loader/instantiate.go, types/parser.go)
			return opRes{Kind: "fileerr", Text: string(rep.Code())}
		}
		return opRes{Kind: "other", Text: string(rep.Code())}
	}
	return opRes{Kind: "fault", Text: fmt.Sprintf("panic %T: %v", r, r)}
}

// apply runs one operation on the real loaders with the calling goroutine's context
func (w *world) apply(c px.Context, o opT) (res opRes) {
	defer func() {
		if r := recover(); r != nil {
			res = classifyPanic(r)
		}
	}()
	l := w.loaders[o.L]
	switch o.Kind {
	case "Load":
		var v interface{}
		var ok bool
		c.DoWithLoader(l, func() { v, ok = px.Load(c, o.tn()) })
		if !ok {
			if v != nil {
				return opRes{Kind: "fault", Text: "Load: not found, yet a value"}
			}
			return opRes{Kind: "found"}
		}
		if v == nil {
			return opRes{Kind: "fault", Text: "Load: found, yet nil"}
		}
		return opRes{Kind: "found", Found: true, raw: v}
	case "Define":
		e := l.(px.DefiningLoader).SetEntry(o.tn(), px.NewLoaderEntry(valTab[o.V].v, nil))
		if e == nil || e.Value() == nil {
			return opRes{Kind: "fault", Text: "SetEntry returned an entry without value"}
		}
		return opRes{Kind: "defined", raw: e.Value()}
	case "Has":
		return opRes{Kind: "bool", B: l.HasEntry(o.tn())}
	case "Discover":
		want := map[string]int{}
		for _, n := range o.Ns {
			want[tname(n).MapKey()] = n
		}
		t := currentThread()
		pred := func(tn px.TypedName) bool {
			n, ok := want[tn.MapKey()]
			if !ok {
				return false
			}
			if o.Ask == 0 {
				return true
			}
			// the predicate is user code: it asks the loader that it is discovering about the name that it is offered
			if t != nil {
				t.cbOrder[t.opIdx] = append(t.cbOrder[t.opIdx], n)
				park(t, "discover.callback", nil)
				t.quiet = true // (what the predicate asks is one step of the schedule)
				defer func() { t.quiet = false }()
			}
			switch o.Ask {
			case 1:
				return l.HasEntry(tn)
			case 2:
				e := l.LoadEntry(c, tn)
				return e != nil && e.Value() != nil
			}
			var ok2 bool
			c.DoWithLoader(l, func() { _, ok2 = px.Load(c, tn) })
			return ok2
		}
		found := map[string]bool{}
		for _, tn := range l.Discover(c, pred) {
			if found[tn.MapKey()] {
				return opRes{Kind: "fault", Text: "Discover returned " + tn.String() + " twice"}
			}
			found[tn.MapKey()] = true
		}
		names := []int{}
		for _, n := range o.Ns {
			if found[tname(n).MapKey()] {
				names = append(names, n)
			}
		}
		return opRes{Kind: "names", Names: names}
	}
	panic("bad op " + o.Kind)
}

func resTexts(rs [][]opRes) [][]string {
	out := make([][]string, len(rs))
	for i, th := range rs {
		out[i] = make([]string, len(th))
		for j, r := range th {
			out[i][j] = r.String()
		}
	}
	return out
}

func outcomeKey(rs [][]opRes) string {
	var b strings.Builder
	for _, th := range rs {
		for _, r := range th {
			b.WriteString(r.gallina())
			if r.Kind == "other" || r.Kind == "fault" {
				b.WriteString(" " + r.Kind)
			}
			b.WriteString(";")
		}
		b.WriteString("|")
	}
	return b.String()
}

func sortedKeys(m map[string]int) []string {
	ks := make([]string, 0, len(m))
	for k := range m {
		ks = append(ks, k)
	}
	sort.Strings(ks)
	return ks
}
