package main

import "verifharness/lib"

func runLazy(cfg *lib.Config, res *lib.Result, rng *lib.Rng)      {}
func replayLazy(cfg *lib.Config, res *lib.Result, in interface{}) {}
