package main

import (
	"fmt"
	"strings"

	"github.com/lyraproj/pcore/pcore"
	"github.com/lyraproj/pcore/px"
	"github.com/lyraproj/pcore/types"
	"verifharness/lib"
)

// Lazily cached inferred types and key index of shared Array / Hash values (Model/ConcLazy.v).  A cell is one cache
// of one fresh shared value; an operation LInfer c asks for it (PType, DetailedValueType, Get) and renders what it got
// at once: complete = the rendering is that of the same value examined by one goroutine alone.

var lazyKinds = []string{"array.reduced", "array.detailed", "hash.reduced", "hash.detailed", "hash.index"}

type lazyCase struct {
	Kinds []string `json:"kinds"` // per cell
	Prog  [][]int  `json:"prog"`  // per thread: the cells it asks for
	Sched []int    `json:"sched"`
}

func (c lazyCase) input(sched []int) map[string]interface{} {
	return map[string]interface{}{"kind": "lazy", "kinds": c.Kinds, "prog": c.Prog, "sched": sched}
}

func lazyValue(c px.Context, kind string) px.Value {
	if strings.HasPrefix(kind, "array") {
		return px.Wrap(c, []interface{}{1, "a"})
	}
	return px.Wrap(c, map[string]interface{}{"a": 1, "b": "x"})
}

func lazyAsk(kind string, v px.Value) (raw interface{}, text string) {
	// the observation itself: the call that reads (and may fill) the cache of the shared value
	var t px.Type
	switch kind {
	case "array.reduced", "hash.reduced":
		t = v.PType()
	case "array.detailed", "hash.detailed":
		t = px.DetailedValueType(v)
	case "hash.index":
		x, ok := v.(px.OrderedMap).Get4("b")
		return nil, fmt.Sprint(ok, x)
	default:
		panic("bad kind " + kind)
	}
	// rendering the type that was handed out formats a goroutine-local array of parameters, which infers the type
	// of that array and so passes through "array.reduced.window" again: not a step of the shared cell.  The
	// rendering happens at once (no other goroutine runs meanwhile), so a half-built object is seen as it was handed out.
	if th := currentThread(); th != nil {
		th.quiet = true
		defer func() { th.quiet = false }()
	}
	return t, t.String()
}

var lazyRef = map[string]string{}

// which caches store the pointer before the object is complete (Model/ConcLazy.v: pf)
var publishFirst = map[string]bool{"hash.reduced": true}

func runLazyCase(c lazyCase, pick policy) *runResult {
	ctx := pcore.NewContext(px.StaticLoader(), pcore.Logger())
	for _, k := range lazyKinds {
		if _, ok := lazyRef[k]; !ok {
			_, lazyRef[k] = lazyAsk(k, lazyValue(ctx, k))
		}
	}
	vals := make([]px.Value, len(c.Kinds))
	for i, k := range c.Kinds {
		vals[i] = lazyValue(ctx, k)
	}
	jobs := make([][]job, len(c.Prog))
	for t, cells := range c.Prog {
		for _, cell := range cells {
			cell := cell
			jobs[t] = append(jobs[t], job{fmt.Sprintf("%s(cell %d)", c.Kinds[cell], cell), func(px.Context) (res opRes) {
				defer func() {
					if r := recover(); r != nil {
						res = classifyPanic(r)
					}
				}()
				raw, text := lazyAsk(c.Kinds[cell], vals[cell])
				return opRes{Kind: "lazy", raw: raw, B: text == lazyRef[c.Kinds[cell]], Text: text}
			}})
		}
	}
	return runJobs(jobs, pick, nil)
}

// creators: an operation that found the cache empty (it parked in the window of that cache) builds the object
// itself and is handed its own object (ConcLazy.lstep, both orders of build and publish); every other operation is
// handed an object that one of those built.  -1: the harness cannot tell (no object identity, or an object that no
// operation of the run built).
func lazyCreators(rr *runResult) [][]int {
	creator := map[interface{}]int{}
	for t, th := range rr.Results {
		for i, r := range th {
			if r.raw != nil && rr.Windowed[t][i] {
				creator[r.raw] = t
			}
		}
	}
	out := make([][]int, len(rr.Results))
	for t, th := range rr.Results {
		for _, r := range th {
			if by, ok := creator[r.raw]; r.raw != nil && ok {
				out[t] = append(out[t], by)
			} else {
				out[t] = append(out[t], -1)
			}
		}
	}
	return out
}

func lazyCheck(c lazyCase, rr *runResult) []verdict {
	if rr.Hang != "" || rr.Deadlock {
		return []verdict{{"no-deadlock", "the run did not finish: " + rr.Hang, nil}}
	}
	var vs []verdict
	for t, th := range rr.Results {
		for i, r := range th {
			k := c.Kinds[c.Prog[t][i]]
			switch {
			case r.Kind != "lazy":
				vs = append(vs, verdict{"no-crash", fmt.Sprintf("goroutine %d: %s of a shared value escaped: %s %s", t, k, r.Kind, r.Text), nil})
			case !r.B:
				var tags []string
				if k == "hash.reduced" {
					tags = []string{"hash.reduced"} // known finding: Hash.privateReducedType publishes before it fills in
				}
				vs = append(vs, verdict{"never-half-built", fmt.Sprintf("goroutine %d: %s of a shared value observed as %s, alone it is %s", t, k, r.Text, lazyRef[k]), tags})
			}
		}
	}
	return vs
}

func gLazyCase(c lazyCase, rr *runResult) string {
	ts := make([]string, len(c.Prog))
	for t, cells := range c.Prog {
		os := make([]string, len(cells))
		for i, cell := range cells {
			os[i] = fmt.Sprintf("LInfer %d%%nat", cell)
		}
		ts[t] = lib.GList(os, "lop")
	}
	cr := lazyCreators(rr)
	obs := make([]string, len(rr.Results))
	for t, th := range rr.Results {
		rs := make([]string, len(th))
		for i, r := range th {
			by := "None"
			if cr[t][i] >= 0 {
				by = fmt.Sprintf("Some %d%%nat", cr[t][i])
			}
			rs[i] = fmt.Sprintf("(%s, %s)", by, lib.GBool(r.Kind == "lazy" && r.B))
		}
		obs[t] = lib.GList(rs, "option nat * bool")
	}
	pfs := make([]string, len(c.Kinds))
	for i, k := range c.Kinds {
		pfs[i] = lib.GBool(publishFirst[k])
	}
	return fmt.Sprintf("(%s, %s, %s, %s)", lib.GList(pfs, "bool"), lib.GList(ts, "list lop"), gSched(rr.Sched), lib.GList(obs, "lobs"))
}

func lazyPrograms() []lazyCase {
	var cs []lazyCase
	for _, k := range lazyKinds {
		cs = append(cs,
			lazyCase{Kinds: []string{k}, Prog: [][]int{{0}, {0}}},
			lazyCase{Kinds: []string{k}, Prog: [][]int{{0, 0}, {0, 0}}},
			lazyCase{Kinds: []string{k}, Prog: [][]int{{0}, {0}, {0}}},
			lazyCase{Kinds: []string{k, k}, Prog: [][]int{{0, 1}, {1, 0}}},
		)
	}
	cs = append(cs,
		lazyCase{Kinds: []string{"array.reduced", "array.detailed"}, Prog: [][]int{{0, 1}, {1, 0}, {0}}},
		lazyCase{Kinds: []string{"hash.reduced", "hash.detailed", "hash.index"}, Prog: [][]int{{0, 1}, {1, 2}, {2, 0}}},
		lazyCase{Kinds: []string{"array.reduced", "hash.reduced"}, Prog: [][]int{{0}, {1}, {0}, {1}}},
	)
	return cs
}

func lazyCasesFile() *lib.CasesFile {
	return &lib.CasesFile{Imports: []string{"Model.Base", "Model.Conc", "Model.ConcLazy", "Corr.CorrC13"}, Typ: "lazy_case",
		Obligations: map[string]string{"lazy_model": "lazy_mismatches cases"}}
}

func runLazy(cfg *lib.Config, res *lib.Result, rng *lib.Rng) {
	cf := lazyCasesFile()
	limit, every := 400, 3
	if cfg.Thorough() {
		limit, every = 20000, 10
	}
	runs, complete := 0, 0
	visit := func(c lazyCase, rr *runResult) {
		runs++
		res.Evaluations++
		res.Count("runs.lazy")
		vs := lazyCheck(c, rr)
		for _, v := range vs {
			res.Violate(lib.Violation{Clause: v.clause, What: v.what, Input: c.input(rr.Sched), Tags: v.tags})
		}
		if rr.Hang != "" || rr.Deadlock {
			return
		}
		// non-trivial: some goroutine was handed an object that another goroutine built
		cr := lazyCreators(rr)
		for t, th := range cr {
			for _, by := range th {
				if by >= 0 && by != t {
					res.Nontrivial(fmt.Sprint("lazy", c.Kinds, c.Prog, rr.Sched))
				}
			}
		}
		if (len(vs) > 0 && len(cf.Cases) < 1500) || (runs%every == 0 && len(cf.Cases) < 1200) {
			cf.Add(gLazyCase(c, rr), c.input(rr.Sched))
		}
	}
	for _, c := range lazyPrograms() {
		n := 0
		stack := [][]int{nil}
		done := true
		for len(stack) > 0 {
			if n >= limit || stuck() {
				done = false
				break
			}
			prefix := stack[len(stack)-1]
			stack = stack[:len(stack)-1]
			rr := runLazyCase(c, prefixPolicy(prefix))
			n++
			visit(c, rr)
			if rr.Hang != "" || rr.Deadlock {
				continue
			}
			for i := len(rr.Sched) - 1; i >= len(prefix); i-- {
				for _, alt := range rr.Enabled[i] {
					if alt != rr.Sched[i] {
						stack = append(stack, append(append([]int(nil), rr.Sched[:i]...), alt))
					}
				}
			}
		}
		if done {
			complete++
		} else {
			for k := 0; k < 100 && !stuck(); k++ {
				r := rng.Fork()
				visit(c, runLazyCase(c, noisyPolicy(r, len(c.Prog), 4+r.Intn(12))))
			}
		}
	}
	res.Extra["lazy_programs"] = len(lazyPrograms())
	res.Extra["lazy_programs_with_all_schedules_explored"] = complete
	res.Extra["lazy_runs"] = runs
	res.CorrFiles = append(res.CorrFiles, cf.WriteTo(cfg.Out, "cases_lazy"))
}

func replayLazy(cfg *lib.Config, res *lib.Result, in interface{}) {
	var c lazyCase
	lib.Remarshal(in, &c)
	rr := runLazyCase(c, prefixPolicy(c.Sched))
	fmt.Printf("cells %v\nprogram %v\nschedule %v\n", c.Kinds, c.Prog, rr.Sched)
	for t, th := range rr.Results {
		for i, r := range th {
			fmt.Printf("  goroutine %d op %d (%s): %s %v %s\n", t, i, c.Kinds[c.Prog[t][i]], r.Kind, r.B, r.Text)
		}
	}
	vs := lazyCheck(c, rr)
	for _, v := range vs {
		fmt.Printf("FAILS %s: %s\n", v.clause, v.what)
		res.Violate(lib.Violation{Clause: v.clause, What: v.what, Input: c.input(rr.Sched), Tags: v.tags})
	}
	if len(vs) == 0 {
		fmt.Println("every observation is that of the complete type")
	}
	res.Evaluations++
	if rr.Hang == "" && !rr.Deadlock {
		cf := lazyCasesFile()
		cf.Add(gLazyCase(c, rr), in)
		res.CorrFiles = append(res.CorrFiles, cf.WriteTo(cfg.Out, "cases_lazy"))
	}
}

var _ = types.WrapString
