package main

import (
	"fmt"
	"strings"

	"github.com/lyraproj/issue/issue"
	"github.com/lyraproj/pcore/loader"
	"github.com/lyraproj/pcore/px"
	"verifharness/lib"
)

// File based loaders whose SmartPath serves SEVERAL namespaces (loader.NewSmartPath with three namespaces, registered
// in loader.SmartPathFactories: the extension point for plans, tasks, workflows).  One file things/<name>.thg defines
// <name> in each of the namespaces; fileBasedLoader.instantiate maps whatever name was asked for to the name in the
// FIRST namespace, and it is under that name that the file is locked, marked and instantiated (filebased.go:242-250).
// Programs: goroutines that load (and ask HasEntry for) the same file through the same and through different
// namespaces.  Direct checks: those of every controlled program (dcheck: the file is instantiated at most once, no
// fault, agreement, the outcome is that of a sequential order of the same operations on the real code, no deadlock).
// Model: ConcNs.v (cases_ns.v) for the tree static <- M.

var multiNs = []px.Namespace{px.NsStep, px.NsDefinition, px.NsHandler}

const multiPathType = px.PathType(`c13things`)

// the value that the file of name n under the Multi loader d defines in namespace s
type fileThing struct{ d, n, s int }

// multiInstantiator: what the instantiator of a several-namespace path does (compare the workflow loaders of the
// lyra project): read the file, define the thing in every namespace through the defining loader of the context
func multiInstantiator(ctx px.Context, l loader.ContentProvidingLoader, tn px.TypedName, sources []string) {
	parseCount.Lock()
	parseCount.byPath[sources[0]]++
	parseCount.Unlock()
	if t := currentThread(); t != nil {
		t.parses++
	}
	content := string(l.GetContent(ctx, sources[0]))
	var d, n int
	if k, _ := fmt.Sscanf(content, "good %d %d", &d, &n); k != 2 {
		panic(px.Error(px.NoDefinition, issue.H{`source`: sources[0], `type`: tn.Namespace(), `name`: tn.Name()}))
	}
	dl := ctx.DefiningLoader()
	for i, ns := range multiNs {
		dl.SetEntry(px.NewTypedName(ns, tn.Name()), px.NewLoaderEntry(&fileThing{d, n, i + 1}, nil))
	}
}

func registerMultiPath() {
	loader.SmartPathFactories[multiPathType] = func(l px.ModuleLoader, moduleNameRelative bool) loader.SmartPath {
		return loader.NewSmartPath(`things`, `.thg`, l, multiNs, moduleNameRelative, false, multiInstantiator)
	}
}

func nsFamilies() [][]ldefT {
	return [][]ldefT{
		{{Parent: -1}, {Parent: 0, File: true, Multi: true, Files: []int{0, 1}}},                 // static <- M{Na,Nb}
		{{Parent: -1}, {Parent: 0, File: true, Multi: true, Files: []int{0, 1}, Bad: []int{1}}},  // static <- M{Na,Nb!}
		{{Parent: -1}, {Parent: 0, File: true, Multi: true, Files: []int{0}}, {Parent: 1}},       // static <- M{Na} <- C
		{{Parent: -1}, {Parent: 0}, {Parent: 1, File: true, Multi: true, Files: []int{0, 1}}},    // static <- A <- M{Na,Nb}
		{{Parent: -1}, {Parent: 0, File: true, Multi: true, Files: []int{0}, Bad: []int{0}}},     // static <- M{Na!}
	}
}

func lds(l, n, s int) opT { return opT{Kind: "Load", L: l, N: n, S: s} }
func hss(l, n, s int) opT { return opT{Kind: "Has", L: l, N: n, S: s} }

func nsCorpus() []caseT {
	f := nsFamilies()
	return []caseT{
		{Cfg: f[0], Prog: pr(th(lds(1, 0, 1)), th(lds(1, 0, 2))), Note: "one file through its first and through its second namespace"},
		{Cfg: f[0], Prog: pr(th(lds(1, 0, 2)), th(lds(1, 0, 3))), Note: "two namespaces, neither the first"},
		{Cfg: f[0], Prog: pr(th(lds(1, 0, 2)), th(lds(1, 0, 2))), Note: "the same name of the second namespace twice"},
		{Cfg: f[0], Prog: pr(th(lds(1, 0, 1)), th(lds(1, 0, 2)), th(lds(1, 0, 3))), Note: "three namespaces, three goroutines"},
		{Cfg: f[0], Prog: pr(th(lds(1, 0, 3), lds(1, 0, 1)), th(lds(1, 0, 2), hss(1, 0, 3))), Note: "loads repeated through other namespaces"},
		{Cfg: f[0], Prog: pr(th(lds(1, 0, 2), lds(1, 1, 1)), th(lds(1, 1, 3), lds(1, 0, 1))), Note: "two files, crossed"},
		{Cfg: f[0], Prog: pr(th(lds(1, 2, 2)), th(lds(1, 2, 1), hss(1, 2, 1))), Note: "a name without file"},
		{Cfg: f[1], Prog: pr(th(lds(1, 1, 1)), th(lds(1, 1, 2))), Note: "a file that cannot be instantiated, through two namespaces"},
		{Cfg: f[1], Prog: pr(th(lds(1, 1, 3), lds(1, 1, 3)), th(lds(1, 1, 2), lds(1, 0, 2))), Note: "broken and good file"},
		{Cfg: f[4], Prog: pr(th(lds(1, 0, 2)), th(lds(1, 0, 3)), th(lds(1, 0, 1))), Note: "broken file, three namespaces"},
		{Cfg: f[2], Prog: pr(th(lds(2, 0, 2)), th(lds(1, 0, 1), hss(2, 0, 3))), Note: "through the child of the loader"},
		{Cfg: f[2], Prog: pr(th(lds(2, 0, 2)), th(lds(2, 0, 3))), Note: "both through the child"},
		{Cfg: f[3], Prog: pr(th(lds(2, 0, 1), lds(2, 1, 2)), th(lds(2, 1, 3), lds(2, 0, 2))), Note: "the loader below a parented loader"},
	}
}

func randomNsProgram(r *lib.Rng, nThreads, maxOps int) caseT {
	fams := nsFamilies()
	cfg := fams[r.Intn(len(fams))]
	names := 1 + r.Intn(2)
	if r.Intn(8) == 0 {
		names = 3 // (Nc has no file)
	}
	prog := make([][]opT, nThreads)
	for t := range prog {
		k := 1 + r.Intn(maxOps)
		for i := 0; i < k; i++ {
			l := 1 + r.Intn(len(cfg)-1)
			n := r.Intn(names)
			s := 1 + r.Intn(len(multiNs))
			if r.Intn(6) == 0 {
				prog[t] = append(prog[t], hss(l, n, s))
			} else {
				prog[t] = append(prog[t], lds(l, n, s))
			}
		}
	}
	return caseT{Cfg: cfg, Prog: prog}
}

func isMultiCase(c caseT) bool {
	for _, l := range c.Cfg {
		if l.Multi {
			return true
		}
	}
	return false
}

// modelled: what ConcNs.v has - the tree static <- M, Load and Has through M of names in M's namespaces
func nsModelled(c caseT) bool {
	if len(c.Cfg) != 2 || !c.Cfg[1].Multi {
		return false
	}
	for _, th := range c.Prog {
		for _, o := range th {
			if (o.Kind != "Load" && o.Kind != "Has") || o.L != 1 || o.S < 1 {
				return false
			}
		}
	}
	return true
}

// chainModelled: what ConcNsChain.v has - a chain static <- A.. <- M <- C.. with exactly one file based loader, the
// several-namespace loader M, and Load / Has through any loader of the chain of names in M's namespaces.
// Returns the number of parented loaders above and below M.
func chainModelled(c caseT) (above, below int, ok bool) {
	m := -1
	for i, l := range c.Cfg {
		if i == 0 {
			if l.Parent != -1 || l.File {
				return 0, 0, false
			}
			continue
		}
		if l.Parent != i-1 {
			return 0, 0, false
		}
		if l.File {
			if !l.Multi || m >= 0 {
				return 0, 0, false
			}
			m = i
		}
	}
	if m < 1 {
		return 0, 0, false
	}
	for _, th := range c.Prog {
		for _, o := range th {
			if (o.Kind != "Load" && o.Kind != "Has") || o.L < 1 || o.L >= len(c.Cfg) || o.S < 1 {
				return 0, 0, false
			}
		}
	}
	return m - 1, len(c.Cfg) - 1 - m, true
}

func gNsRes(r opRes) string {
	switch r.Kind {
	case "found":
		if r.Found {
			// (which instantiation of the file made the value: 0 in every run that instantiates once)
			return fmt.Sprintf("NFound (Some %d%%nat)", (r.Val-100)/1000)
		}
		return "NFound None"
	case "bool":
		return "NBool " + lib.GBool(r.B)
	case "fileerr":
		return "NFileErr"
	case "err":
		return "NErr"
	}
	return "NFault"
}

func gChainCase(c caseT, rr *runResult) string {
	above, below, _ := chainModelled(c)
	l := c.Cfg[above+1]
	fs := make([]string, len(l.Files))
	for i, n := range l.Files {
		fs[i] = fmt.Sprintf("%d%%N", n)
	}
	bad := make([]string, len(l.Bad))
	for i, n := range l.Bad {
		bad[i] = fmt.Sprintf("%d%%N", n)
	}
	ts := make([]string, len(c.Prog))
	obs := make([]string, len(c.Prog))
	for t, th := range c.Prog {
		os := make([]string, len(th))
		rs := make([]string, len(th))
		for i, o := range th {
			k := "CLoad"
			if o.Kind == "Has" {
				k = "CHas"
			}
			os[i] = fmt.Sprintf("%s %d%%nat %d%%nat %d%%N", k, o.L, o.S-1, o.N)
			rs[i] = gNsRes(rr.Results[t][i])
		}
		ts[t] = lib.GList(os, "cop")
		obs[t] = fmt.Sprintf("(%s, %d%%nat)", lib.GList(rs, "nres"), rr.Parses[t])
	}
	return fmt.Sprintf("(mkCC (mkNC %s %s %d%%nat) %d%%nat %d%%nat,\n    %s,\n    %s,\n    %s)", lib.GList(fs, "N"), lib.GList(bad, "N"),
		len(multiNs)-1, above, below, lib.GList(ts, "list cop"), gSched(rr.Sched), lib.GList(obs, "nobs"))
}

func chainCasesFile() *lib.CasesFile {
	return &lib.CasesFile{Imports: []string{"Model.Base", "Model.ConcNs", "Model.ConcNsChain", "Corr.CorrC13"}, Typ: "chain_case",
		Obligations: map[string]string{"nschain_model": "chain_mismatches cases"}}
}

func gNsCase(c caseT, rr *runResult) string {
	l := c.Cfg[1]
	fs := make([]string, len(l.Files))
	for i, n := range l.Files {
		fs[i] = fmt.Sprintf("%d%%N", n)
	}
	bad := make([]string, len(l.Bad))
	for i, n := range l.Bad {
		bad[i] = fmt.Sprintf("%d%%N", n)
	}
	ts := make([]string, len(c.Prog))
	obs := make([]string, len(c.Prog))
	for t, th := range c.Prog {
		os := make([]string, len(th))
		rs := make([]string, len(th))
		for i, o := range th {
			if o.Kind == "Load" {
				os[i] = fmt.Sprintf("NLoad %d%%nat %d%%N", o.S-1, o.N)
			} else {
				os[i] = fmt.Sprintf("NHas %d%%nat %d%%N", o.S-1, o.N)
			}
			r := rr.Results[t][i]
			switch r.Kind {
			case "found":
				if r.Found {
					// (which instantiation of the file made the value: 0 in every run that instantiates once)
					rs[i] = fmt.Sprintf("NFound (Some %d%%nat)", (r.Val-100)/1000)
				} else {
					rs[i] = "NFound None"
				}
			case "bool":
				rs[i] = "NBool " + lib.GBool(r.B)
			case "fileerr":
				rs[i] = "NFileErr"
			case "err":
				rs[i] = "NErr"
			default:
				rs[i] = "NFault"
			}
		}
		ts[t] = lib.GList(os, "nop")
		obs[t] = fmt.Sprintf("(%s, %d%%nat)", lib.GList(rs, "nres"), rr.Parses[t])
	}
	return fmt.Sprintf("(mkNC %s %s %d%%nat,\n    %s,\n    %s,\n    %s)", lib.GList(fs, "N"), lib.GList(bad, "N"), len(multiNs)-1,
		lib.GList(ts, "list nop"), gSched(rr.Sched), lib.GList(obs, "nobs"))
}

func nsCasesFile() *lib.CasesFile {
	return &lib.CasesFile{Imports: []string{"Model.Base", "Model.ConcNs", "Corr.CorrC13"}, Typ: "ns_case",
		Obligations: map[string]string{"ns_model": "ns_mismatches cases"}}
}

func runNs(cfg *lib.Config, res *lib.Result, rng *lib.Rng) {
	e := &explorer{cfg: cfg, res: res, baseline: map[string]string{}}
	file := nsCasesFile()
	chainFile := chainCasesFile()
	perProgram, nRandom2, nRandom3, nPct := 300, 8, 4, 8
	e.coqMax, e.coqEvery = 300, 22
	if cfg.Thorough() {
		perProgram, nRandom2, nRandom3, nPct = 30000, 150, 60, 100
		e.coqMax, e.coqEvery = 3000, 100
	}
	e.emit = func(c caseT, rr *runResult) {
		if nsModelled(c) {
			file.Add(gNsCase(c, rr), c.input(rr.Sched))
			e.coqCases++
			// every third of them also through the chain model (no parented loader above or below: it must agree)
			if e.coqCases%3 == 0 {
				chainFile.Add(gChainCase(c, rr), c.input(rr.Sched))
			}
		} else if _, _, ok := chainModelled(c); ok {
			chainFile.Add(gChainCase(c, rr), c.input(rr.Sched))
			e.coqCases++
		}
	}
	explore := func(c caseT, family string) {
		_, complete := e.exploreAll(c, perProgram, family)
		if complete {
			res.Count("programs.exhaustive." + family)
			return
		}
		res.Count("programs.truncated." + family)
		// beyond the cap: randomised priorities (a goroutine runs far into its load before the next one starts) and noise
		for k := 0; k < 40 && !stuck(); k++ {
			r := rng.Fork()
			var pol policy
			if k%3 == 2 {
				pol = noisyPolicy(r, len(c.Prog), 10+r.Intn(30))
			} else {
				pol = pctPolicy(r, len(c.Prog), 1+r.Intn(3), 24)
			}
			e.visit(c, runSchedule(c.Cfg, c.Prog, pol), family+".random", false)
		}
	}
	for _, c := range nsCorpus() {
		explore(c, "namespaces.corpus")
	}
	for i := 0; i < nRandom2; i++ {
		explore(randomNsProgram(rng.Fork(), 2, 2), "namespaces.2x2")
	}
	for i := 0; i < nRandom3; i++ {
		explore(randomNsProgram(rng.Fork(), 3, 1), "namespaces.3x1")
	}
	for i := 0; i < nPct; i++ {
		c := randomNsProgram(rng.Fork(), 4, 2)
		for k := 0; k < 12 && !stuck(); k++ {
			r := rng.Fork()
			e.visit(c, runSchedule(c.Cfg, c.Prog, pctPolicy(r, 4, 1+r.Intn(3), 40)), "namespaces.4xpct", false)
		}
	}
	res.Extra["namespaces_schedules_run"] = e.nRuns
	res.Extra["namespaces_model_cases"] = e.coqCases
	res.Extra["namespaces"] = "SmartPath with the namespaces " + strings.Trim(fmt.Sprint(multiNs), "[]") + " (loader.NewSmartPath, loader.SmartPathFactories)"
	res.Extra["namespaces_chain_model_cases"] = len(chainFile.Cases)
	res.CorrFiles = append(res.CorrFiles, file.WriteTo(cfg.Out, "cases_ns"))
	res.CorrFiles = append(res.CorrFiles, chainFile.WriteTo(cfg.Out, "cases_nschain"))
}
