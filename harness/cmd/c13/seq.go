package main

import (
	"fmt"

	"github.com/lyraproj/pcore/pcore"
	"github.com/lyraproj/pcore/px"
)

// The sequential oracle: "every operation returns what some sequential ordering of the same operations would
// return".  The same operations are run on the real implementation, one whole operation at a time, in every
// interleaving that keeps each goroutine's own order; the set of outcome vectors is what a concurrent run may produce.

var seqMemo = map[string]map[string]bool{}

const maxOrders = 6000

func countOrders(prog [][]opT) int {
	// multinomial coefficient, saturating
	n, total := 1, 0
	for _, th := range prog {
		for i := 1; i <= len(th); i++ {
			total++
			n = n * total / i
			if n > 10*maxOrders {
				return n
			}
		}
	}
	return n
}

// seqOutcomes returns nil when there are too many orders to enumerate.
func seqOutcomes(c caseT) map[string]bool {
	key := progKey(c)
	if m, ok := seqMemo[key]; ok {
		return m
	}
	if countOrders(c.Prog) > maxOrders {
		seqMemo[key] = nil
		return nil
	}
	set := map[string]bool{}
	idx := make([]int, len(c.Prog))
	var order [][2]int
	var rec func()
	rec = func() {
		done := true
		for t := range c.Prog {
			if idx[t] < len(c.Prog[t]) {
				done = false
				order = append(order, [2]int{t, idx[t]})
				idx[t]++
				rec()
				idx[t]--
				order = order[:len(order)-1]
			}
		}
		if done {
			set[runSequential(c, order)] = true
		}
	}
	rec()
	seqMemo[key] = set
	return set
}

func runSequential(c caseT, order [][2]int) string {
	w := newWorld(c.Cfg)
	ctxs := make([]px.Context, len(c.Prog))
	results := make([][]opRes, len(c.Prog))
	for t := range c.Prog {
		ctxs[t] = pcore.NewContext(px.StaticLoader(), pcore.Logger())
	}
	for _, s := range order {
		results[s[0]] = append(results[s[0]], w.apply(ctxs[s[0]], c.Prog[s[0]][s[1]]))
	}
	w.resolve(results)
	for path, n := range w.parseCounts() {
		if n > 1 {
			return fmt.Sprintf("sequential run parsed %s %d times", path, n)
		}
	}
	return outcomeKey(results)
}
