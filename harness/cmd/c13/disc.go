package main

import (
	"fmt"

	"verifharness/lib"
)

// Discover programs: goroutines that discover the names bound in a loader chain with a predicate that asks the loader it
// is discovering about every name it is offered (HasEntry / LoadEntry / px.Load), while other goroutines define names
// (SetEntry) or cache misses in the same loaders.  The predicate is user code: the harness parks the goroutine inside it
// ("discover.callback"), right before it asks the loader.  If the loader called the predicate with its lock held, a
// goroutine that wants the write lock then queues behind the reader, and the reader's own question queues behind the
// writer: nobody returns (clause no-deadlock, see runJobs).  Loader trees without file based loaders (the Discover of a
// file based loader walks its index: stress program only).  Model: ConcDisc.v.

func dsc(l, ask int, ns ...int) opT { return opT{Kind: "Discover", L: l, Ask: ask, Ns: ns} }

func discCorpus() []caseT {
	f := cfgFamilies()
	return []caseT{
		{Cfg: f[0], Prog: pr(th(df(1, 0, 0), dsc(1, 1, 0)), th(df(1, 1, 1))), Note: "the predicate asks HasEntry while another goroutine defines"},
		{Cfg: f[0], Prog: pr(th(df(1, 0, 0), dsc(1, 2, 0, 1)), th(df(1, 1, 1), hs(1, 1))), Note: "LoadEntry in the predicate, two names"},
		{Cfg: f[0], Prog: pr(th(df(1, 0, 0), dsc(1, 3, 0)), th(ld(1, 1))), Note: "px.Load in the predicate, the writer is the miss caching of a Load"},
		{Cfg: f[0], Prog: pr(th(df(1, 0, 0), dsc(1, 3, 0, 1)), th(df(1, 1, 1)), th(df(1, 2, 4))), Note: "three goroutines"},
		{Cfg: f[0], Prog: pr(th(dsc(1, 0, 0, 1)), th(df(1, 0, 0), df(1, 1, 1))), Note: "a predicate that looks at the name only"},
		{Cfg: f[0], Prog: pr(th(df(1, 0, 0), dsc(1, 1, 0)), th(df(1, 1, 1), dsc(1, 2, 0, 1))), Note: "two discoverers"},
		{Cfg: f[1], Prog: pr(th(df(1, 0, 0), df(2, 1, 1), dsc(2, 1, 0, 1)), th(df(2, 2, 0))), Note: "names of the parent and of the child"},
		{Cfg: f[1], Prog: pr(th(df(1, 0, 0), df(2, 1, 1), dsc(2, 2, 0, 1)), th(df(1, 2, 0))), Note: "the parent is written while the child's names are offered"},
		{Cfg: f[1], Prog: pr(th(dsc(2, 2, 0, 1)), th(df(1, 0, 0), df(2, 1, 1))), Note: "definitions arrive while the chain is walked"},
		{Cfg: f[1], Prog: pr(th(df(2, 0, 0), dsc(2, 3, 0)), th(df(1, 0, 1), hs(2, 0))), Note: "a name of the child that the parent gets too"},
		{Cfg: f[5], Prog: pr(th(df(1, 0, 0), dsc(1, 1, 0)), th(df(2, 0, 1), dsc(2, 3, 0))), Note: "siblings"},
		// Discover of a FRESH file based loader (walks the path index, built on demand) next to HasEntry / Load; direct check only
		{Cfg: f[2], Prog: pr(th(hs(1, 0)), th(dsc(1, 0, 0))), Note: "fresh file loader: HasEntry || Discover"},
		{Cfg: f[4], Prog: pr(th(hs(2, 1)), th(dsc(2, 0, 0, 1)), th(ld(2, 0))), Note: "fresh file loader: HasEntry, Discover, Load"},
	}
}

func randomDiscProgram(r *lib.Rng, nThreads, maxOps int) caseT {
	fams := cfgFamilies()
	cfg := fams[[]int{0, 1, 5}[r.Intn(3)]]
	prog := make([][]opT, nThreads)
	hasDisc := false
	for t := range prog {
		k := 1 + r.Intn(maxOps)
		for i := 0; i < k; i++ {
			l := 1 + r.Intn(len(cfg)-1)
			n := r.Intn(2)
			switch x := r.Intn(20); {
			case x < 9:
				prog[t] = append(prog[t], df(l, n, []int{0, 1, 4, 5}[r.Intn(4)]))
			case x < 15:
				ns := []int{r.Intn(2)}
				if r.Intn(2) == 0 {
					ns = []int{0, 1}
				}
				ask := 1 + r.Intn(3)
				if r.Intn(6) == 0 {
					ask = 0
				}
				prog[t] = append(prog[t], dsc(l, ask, ns...))
				hasDisc = true
			case x < 18:
				prog[t] = append(prog[t], hs(l, n))
			default:
				prog[t] = append(prog[t], ld(l, n))
			}
		}
	}
	if !hasDisc {
		prog[0] = append(prog[0], dsc(len(cfg)-1, 1+r.Intn(3), 0, 1))
	}
	return caseT{Cfg: cfg, Prog: prog}
}

// modelled: the program uses only what ConcDisc.v has (Discover, Define, Has on loaders that are not file based)
func discModelled(c caseT) bool {
	for _, l := range c.Cfg {
		if l.File {
			return false
		}
	}
	for _, th := range c.Prog {
		for _, o := range th {
			if o.Kind == "Load" {
				return false
			}
		}
	}
	return true
}

func gKeys(ns []int) string {
	ks := make([]string, len(ns))
	for i, n := range ns {
		ks[i] = fmt.Sprintf("%d%%N", n)
	}
	return lib.GList(ks, "key")
}

// the names of a Discover in the order in which the predicate asked about them in this run (the loader offers the names
// of one level in the order of a Go map), then the others
func askedFirst(ns, asked []int) []int {
	out := append([]int(nil), asked...)
	for _, n := range ns {
		in := false
		for _, a := range out {
			if a == n {
				in = true
			}
		}
		if !in {
			out = append(out, n)
		}
	}
	return out
}

func gDiscCase(c caseT, rr *runResult) string {
	ts := make([]string, len(c.Prog))
	obs := make([]string, len(c.Prog))
	for t, th := range c.Prog {
		os := make([]string, len(th))
		rs := make([]string, len(th))
		for i, o := range th {
			switch o.Kind {
			case "Discover":
				os[i] = fmt.Sprintf("DDiscover %d%%nat %s %s", o.L, lib.GBool(o.Ask != 0), gKeys(askedFirst(o.Ns, rr.CbOrder[t][i])))
			case "Define":
				os[i] = fmt.Sprintf("DDefine %d%%nat %d%%N %s", o.L, o.N, gVal(o.V))
			default:
				os[i] = fmt.Sprintf("DHas %d%%nat %d%%N", o.L, o.N)
			}
			r := rr.Results[t][i]
			switch r.Kind {
			case "names":
				rs[i] = "DNames " + gKeys(r.Names)
			case "defined":
				rs[i] = "DDefined " + gVal(r.Val)
			case "bool":
				rs[i] = "DBool " + lib.GBool(r.B)
			case "err":
				rs[i] = "DErr"
			default:
				rs[i] = "DFault"
			}
		}
		ts[t] = lib.GList(os, "dop")
		obs[t] = lib.GList(rs, "dres")
	}
	return fmt.Sprintf("(%s,\n    %s,\n    %s,\n    %s)", gCfg(c.Cfg), lib.GList(ts, "list dop"), gSched(rr.Sched), lib.GList(obs, "list dres"))
}

func discCasesFile() *lib.CasesFile {
	return &lib.CasesFile{Imports: []string{"Model.Base", "Model.Conc", "Model.ConcDisc", "Corr.CorrC13"}, Typ: "disc_case",
		Obligations: map[string]string{"disc_model": "disc_mismatches cases"}}
}

func runDiscover(cfg *lib.Config, res *lib.Result, rng *lib.Rng) {
	e := &explorer{cfg: cfg, res: res, baseline: map[string]string{}}
	file := discCasesFile()
	perProgram, nRandom2, nRandom3 := 400, 24, 8
	e.coqMax, e.coqEvery = 600, 3
	if cfg.Thorough() {
		perProgram, nRandom2, nRandom3 = 20000, 300, 100
		e.coqMax, e.coqEvery = 4000, 40
	}
	e.emit = func(c caseT, rr *runResult) {
		if discModelled(c) {
			file.Add(gDiscCase(c, rr), c.input(rr.Sched))
			e.coqCases++
		}
	}
	explore := func(c caseT, family string) {
		n, complete := e.exploreAll(c, perProgram, family)
		_ = n
		if complete {
			res.Count("programs.exhaustive." + family)
		} else {
			res.Count("programs.truncated." + family)
			for k := 0; k < 30 && !stuck(); k++ {
				r := rng.Fork()
				rr := runSchedule(c.Cfg, c.Prog, noisyPolicy(r, len(c.Prog), 10+r.Intn(30)))
				e.visit(c, rr, family+".random", false)
			}
		}
	}
	for _, c := range discCorpus() {
		explore(c, "discover.corpus")
	}
	for i := 0; i < nRandom2; i++ {
		explore(randomDiscProgram(rng.Fork(), 2, 3), "discover.2x3")
	}
	for i := 0; i < nRandom3; i++ {
		explore(randomDiscProgram(rng.Fork(), 3, 2), "discover.3x2")
	}
	res.Extra["discover_schedules_run"] = e.nRuns
	res.Extra["discover_model_cases"] = e.coqCases
	res.CorrFiles = append(res.CorrFiles, file.WriteTo(cfg.Out, "cases_disc"))
}
