package main

// Running one case on the implementation, the direct check D of the three clauses of C18, and the
// classification of inputs into the input classes of the known findings.

import (
	"fmt"
	"math"
	"math/big"
	"reflect"
	"sort"
	"strings"

	"github.com/lyraproj/pcore/pcore"
	"github.com/lyraproj/pcore/px"

	"verifharness/lib"
)

type Case struct {
	S *Shape `json:"shape"`
	V *Val   `json:"value"`
	// H: earlier values of the same Go type.  The destination of the second conversion (Reflector.ReflectTo into a
	// destination the caller already used) holds them one after the other before V is converted into it: the first
	// by plain assignment, the others by ReflectTo of their wrapped value.
	H      []*Val `json:"history,omitempty"`
	Family string `json:"family,omitempty"`
	// TS: the struct types of the case are derived through Reflector.TypeSetFromReflect of this argument list (family
	// typeset, typeset.go) instead of one TypeFromReflect per struct
	TS *TSpec `json:"typeset,omitempty"`
}

// Obs: everything observed on the implementation for one case.
type Obs struct {
	RegErr, RegText   string
	TypeErr, TypeText string
	Type              string // term of ty
	WrapErr, WrapText string
	Wrapped           string // term of value
	Inst              bool
	BackErr, BackText string
	Back              *Val
	BackOutside       bool // converted-back value contains something outside the universe of shapes
	Deep              bool
	// Reflector.ReflectTo(wrapped, dest) where dest already holds the last value of the history H
	Used                  bool
	UsedErr, UsedText     string
	UsedBack              *Val
	UsedOutside, UsedDeep bool
	Obj                   *ObjObs
	// the caller wrote through every pointer, slice and map of the first converted-back value; then an equal value,
	// built anew, is wrapped and converted back
	Again               bool
	AgainErr, AgainText string
	AgainBack           *Val
	AgainDeep           bool
	Ffmt                map[uint64]string
	// the attributes the object type derived from the struct of the case declares itself (those of a declared parent
	// excluded), in declaration order; nil when the case is not a struct or a pointer to one
	Own []string
	// the same three steps in a fresh context in which NO struct type was registered: WrapReflectedType derives
	// anonymous object types from the unnamed struct types (types.go wrapReflectedType, case reflect.Struct)
	Anon                                   bool
	AnonTypeErr, AnonTypeText, AnonWrapErr string
	AnonInst                               bool
	AnonBackErr, AnonBackText              string
	AnonDeep                               bool
	// family typeset: the entries of the type set in their order; what TypeFromReflect gives for the same structs one by
	// one; the entries of the type set derived from the same structs in another order
	TSet                    []TSObs
	TSRef                   map[string]TSObs
	TSRefErr, TSRefText     string
	TSOther                 map[string]TSObs
	TSOtherErr, TSOtherText string
}

// ObjObs: the struct <-> object clause, observed for cases whose shape is a struct or a pointer to one.
type ObjObs struct {
	Attrs             []string // attribute names in positional order
	GetsErr           string
	Gets              []string // terms: Get(name) per attribute
	HashErr, HashText string
	InitHash          string // term
	NewHErr, NewHText string // px.New(type, InitHash) then Reflect2
	NewHBack          *Val
	NewHDeep          bool
	NewPErr, NewPText string // px.New(type, positional...) then Reflect2
	NewPBack          *Val
	NewPDeep          bool
	NewPOutside       bool // converted-back value contains something outside the universe of shapes
	SingleHash        bool // the positional argument list is one Hash
	// px.New(type, the first TrimK positional values...): the longest run of trailing optional arguments that equal the
	// declared default of their attribute is left out (TrimK == len(Attrs): nothing to leave out, not run)
	Required          int
	TrimK             int
	TrimArgs          string
	NewTErr, NewTText string
	NewTBack          *Val
	NewTDeep          bool
	NewTOutside       bool
	// the instance constructed from the init hash, converted into a destination that holds an earlier struct
	NewHUsed                  bool
	NewHUsedErr, NewHUsedText string
	NewHUsedBack              *Val
	NewHUsedDeep              bool
}

// usedDest makes a settable destination of the type of the case that went through the history cs.H.
func usedDest(c px.Context, cs *Case) reflect.Value {
	dest := reflect.New(cs.S.RType()).Elem()
	for i, h := range cs.H {
		if i == 0 {
			dest.Set(Build(cs.S, h))
			continue
		}
		// a failing earlier conversion (the value may belong to a known-finding class) leaves whatever it leaves
		_, _ = guarded(func() { c.Reflector().ReflectTo(px.Wrap(c, Build(cs.S, h).Interface()), dest) })
	}
	return dest
}

// scramble overwrites every scalar the value owns through its pointers, slices, maps and (settable) fields.
func scramble(rv reflect.Value) {
	switch rv.Kind() {
	case reflect.Ptr:
		if !rv.IsNil() {
			scramble(rv.Elem())
		}
	case reflect.Slice:
		for i := 0; i < rv.Len(); i++ {
			scramble(rv.Index(i))
		}
	case reflect.Map:
		for _, k := range rv.MapKeys() {
			e := reflect.New(rv.Type().Elem()).Elem()
			e.Set(rv.MapIndex(k))
			scramble(e)
			rv.SetMapIndex(k, e)
		}
	case reflect.Struct:
		for i := 0; i < rv.NumField(); i++ {
			scramble(rv.Field(i))
		}
	}
	if !rv.CanSet() {
		return
	}
	switch rv.Kind() {
	case reflect.Int, reflect.Int8, reflect.Int16, reflect.Int32, reflect.Int64:
		rv.SetInt(^rv.Int())
	case reflect.Uint, reflect.Uint8, reflect.Uint16, reflect.Uint32, reflect.Uint64:
		rv.SetUint(^rv.Uint())
	case reflect.Float32, reflect.Float64:
		rv.SetFloat(-rv.Float() - 1)
	case reflect.String:
		rv.SetString(rv.String() + "!")
	case reflect.Bool:
		rv.SetBool(!rv.Bool())
	}
}

func guarded(f func()) (errc, text string) {
	defer func() {
		if r := recover(); r != nil {
			errc, text = errClass(r), panicText(r)
		}
	}()
	f()
	return
}

func deepEqual(s *Shape, orig reflect.Value, origV *Val, back reflect.Value, known map[reflect.Type]*Shape) (deep bool, bv *Val, outside bool) {
	bv, ok := Unbuild(s, back, known)
	if !ok {
		return false, bv, true
	}
	if reflect.DeepEqual(orig.Interface(), back.Interface()) {
		return true, bv, false
	}
	// reflect.DeepEqual is false for NaN against itself; the property cannot mean that
	return valEqual(s, origV, bv), bv, false
}

// runAnon: derive the type of the Go type without registering its struct types first, wrap, test, convert back.
func runAnon(cs *Case, o *Obs) {
	var structs []*Shape
	structShapes(cs.S, map[string]bool{}, &structs)
	if len(structs) == 0 {
		return
	}
	for _, s := range structs {
		if s.G != "" {
			// only an UNNAMED struct type is derived on the fly (types.go wrapReflectedType: vt.Name() == ``)
			return
		}
	}
	o.Anon = true
	pcore.Do(func(c px.Context) {
		rt := cs.S.RType()
		gv := Build(cs.S, cs.V)
		var pt px.Type
		o.AnonTypeErr, o.AnonTypeText = guarded(func() {
			var err error
			pt, err = px.WrapReflectedType(c, rt)
			if err != nil {
				panic(err)
			}
		})
		if o.AnonTypeErr != "" {
			return
		}
		var w px.Value
		o.AnonWrapErr, _ = guarded(func() { w = px.Wrap(c, gv.Interface()) })
		if o.AnonWrapErr != "" {
			return
		}
		_, _ = guarded(func() { o.AnonInst = px.IsInstance(pt, w) })
		o.AnonBackErr, o.AnonBackText = guarded(func() {
			back := c.Reflector().Reflect2(w, rt)
			o.AnonDeep = reflect.DeepEqual(gv.Interface(), back.Interface()) || func() bool {
				bv, ok := Unbuild(cs.S, back, map[reflect.Type]*Shape{})
				return ok && valEqual(cs.S, cs.V, bv)
			}()
		})
	})
}

func runCase(cs *Case) *Obs {
	o := &Obs{}
	runAnon(cs, o)
	pcore.Do(func(c px.Context) {
		env := &caseEnv{known: map[reflect.Type]*Shape{}, ffmt: map[uint64]string{}}
		o.Ffmt = env.ffmt
		var structs []*Shape
		seen := map[string]bool{}
		structShapes(cs.S, seen, &structs)
		structShapesOfVal(cs.S, cs.V, seen, &structs)
		typeOf := map[string]px.ObjectType{}
		o.RegErr, o.RegText = guarded(func() {
			if cs.TS != nil {
				byName, obs := deriveTypeSet(c, cs.TS)
				o.TSet = obs
				for _, it := range cs.TS.Items {
					s := tsShape(cs.TS, it.G)
					env.known[s.RType()] = s
					if ot, ok := byName[s.N]; ok {
						typeOf[s.N] = ot
					}
				}
				for _, s := range structs {
					if typeOf[s.N] == nil {
						panic(fmt.Errorf("the type set holds no type %s", s.N))
					}
				}
				return
			}
			for _, s := range structs {
				rt := s.RType()
				var parent px.Type
				if s.P {
					// the embedded first field is the Go rendering of the parent type (registered before: inner first)
					parent = typeOf[s.F[0].T.N]
				}
				t := c.Reflector().TypeFromReflect(s.N, parent, rt)
				px.AddTypes(c, t)
				env.known[rt] = s
				typeOf[s.N] = t
			}
		})
		if o.RegErr != "" {
			return
		}
		if cs.TS != nil {
			o.TSRef, o.TSRefErr, o.TSRefText = tsReference(cs.TS)
			o.TSOther, o.TSOtherErr, o.TSOtherText = tsOtherOrder(cs.TS)
		}
		rt := cs.S.RType()
		gv := Build(cs.S, cs.V)
		var pt px.Type
		o.TypeErr, o.TypeText = guarded(func() {
			var err error
			pt, err = px.WrapReflectedType(c, rt)
			if err != nil {
				panic(err)
			}
		})
		if o.TypeErr == "" {
			o.Type, o.TypeText = typeTerm(pt), pt.String()
		}
		var w px.Value
		o.WrapErr, o.WrapText = guarded(func() {
			w = px.Wrap(c, gv.Interface())
			o.Wrapped = env.valueTerm(c, w)
		})
		if o.WrapErr != "" {
			return
		}
		if o.TypeErr == "" {
			_, _ = guarded(func() { o.Inst = px.IsInstance(pt, w) })
		}
		var first reflect.Value
		o.BackErr, o.BackText = guarded(func() {
			back := c.Reflector().Reflect2(w, rt)
			o.Deep, o.Back, o.BackOutside = deepEqual(cs.S, gv, cs.V, back, env.known)
			first = back
		})
		if o.BackErr == "" && o.Deep {
			// what a caller does with a value it owns: it writes through it.  Nothing of that may show in the conversion
			// of another, equal value (built anew: it shares no memory with the first).  Last step of the case, because
			// the first converted-back value may share its pointees with the input (a wrapped struct keeps its Go value).
			defer func() {
				o.Again = true
				o.AgainErr, o.AgainText = guarded(func() {
					scramble(first)
					gv2 := Build(cs.S, cs.V)
					back := c.Reflector().Reflect2(px.Wrap(c, gv2.Interface()), rt)
					o.AgainDeep, o.AgainBack, _ = deepEqual(cs.S, gv2, cs.V, back, env.known)
				})
			}()
		}
		if len(cs.H) > 0 {
			o.Used = true
			o.UsedErr, o.UsedText = guarded(func() {
				dest := usedDest(c, cs)
				c.Reflector().ReflectTo(w, dest)
				o.UsedDeep, o.UsedBack, o.UsedOutside = deepEqual(cs.S, gv, cs.V, dest, env.known)
			})
		}
		// the struct <-> object clause
		ss := cs.S
		if ss.K == "ptr" && !cs.V.Nil {
			ss = ss.E
		}
		po, isObj := w.(px.PuppetObject)
		if ss.K != "struct" || !isObj {
			return
		}
		ot := typeOf[ss.N]
		_, _ = guarded(func() {
			if ih, ok := ot.(interface{ InitHash() px.OrderedMap }); ok {
				o.Own = []string{}
				if as, ok := ih.InitHash().Get4("attributes"); ok {
					as.(px.OrderedMap).EachKey(func(k px.Value) { o.Own = append(o.Own, k.String()) })
				}
			}
		})
		ob := &ObjObs{}
		o.Obj = ob
		attrs := ot.AttributesInfo().Attributes()
		args := make([]px.Value, len(attrs))
		ob.GetsErr, _ = guarded(func() {
			for i, a := range attrs {
				ob.Attrs = append(ob.Attrs, a.Name())
				v, ok := po.Get(a.Name())
				if !ok {
					panic(fmt.Errorf("no attribute %s", a.Name()))
				}
				args[i] = v
				ob.Gets = append(ob.Gets, env.valueTerm(c, v))
			}
		})
		var ih px.OrderedMap
		ob.HashErr, ob.HashText = guarded(func() {
			ih = po.InitHash()
			ob.InitHash = env.valueTerm(c, ih)
		})
		if ob.HashErr == "" {
			ob.NewHErr, ob.NewHText = guarded(func() {
				o2 := px.New(c, ot, ih)
				back := c.Reflector().Reflect2(o2, rt)
				ob.NewHDeep, ob.NewHBack, _ = deepEqual(cs.S, gv, cs.V, back, env.known)
			})
			if ob.NewHErr == "" && len(cs.H) > 0 {
				ob.NewHUsed = true
				ob.NewHUsedErr, ob.NewHUsedText = guarded(func() {
					dest := usedDest(c, cs)
					c.Reflector().ReflectTo(px.New(c, ot, ih), dest)
					ob.NewHUsedDeep, ob.NewHUsedBack, _ = deepEqual(cs.S, gv, cs.V, dest, env.known)
				})
			}
		}
		if ob.GetsErr == "" {
			if len(args) == 1 {
				_, ob.SingleHash = args[0].(px.OrderedMap)
			}
			ob.NewPErr, ob.NewPText = guarded(func() {
				// the constructor may complete the slice it is given: hand over a copy
				o3 := px.New(c, ot, append([]px.Value{}, args...)...)
				back := c.Reflector().Reflect2(o3, rt)
				ob.NewPDeep, ob.NewPBack, ob.NewPOutside = deepEqual(cs.S, gv, cs.V, back, env.known)
			})
			// leave out the trailing optional arguments that equal the declared default of their attribute
			ob.Required = ot.AttributesInfo().RequiredCount()
			ob.TrimK = len(args)
			for ob.TrimK > ob.Required && attrs[ob.TrimK-1].Default(args[ob.TrimK-1]) {
				ob.TrimK--
			}
			cutIsHash := false
			if ob.TrimK == 1 {
				_, cutIsHash = args[0].(px.OrderedMap)
			}
			if ob.TrimK < len(args) && !cutIsHash {
				ob.TrimArgs = fmt.Sprint(args[:ob.TrimK])
				ob.NewTErr, ob.NewTText = guarded(func() {
					o4 := px.New(c, ot, append([]px.Value{}, args[:ob.TrimK]...)...)
					back := c.Reflector().Reflect2(o4, rt)
					ob.NewTDeep, ob.NewTBack, ob.NewTOutside = deepEqual(cs.S, gv, cs.V, back, env.known)
				})
			}
		}
	})
	return o
}

// ---- classification into the input classes of the known findings (known_findings/C18.json)

const (
	clsU64       = "uint64-ge-2^63"        // uint / uint64 value >= 2^63 wraps to a negative Integer
	clsNonFinite = "float32-nonfinite"     // a float32 that is NaN, +Inf or -Inf: the type derived from float32 is the range of the finite float32 values (float64: no exclusion, its type is the unbounded Float type)
	clsNilUndef  = "nil-slice-map-undef"   // nil slice / map wraps to undef, the derived type is Array / Hash
	clsNilFast   = "nil-fastpath-empty"    // nil []int, []string, []interface{}, map[string]string, map[string]interface{} wrap to empty
	clsPtrPtr    = "ptr-to-ptr"            // pointer to pointer
	clsPtrNil    = "ptr-to-nil-collection" // pointer to a nil slice / map collapses to a nil pointer
	clsIfaceDyn  = "iface-noncanonical"    // interface{} holding a dynamic type other than int64/float64/string/bool: outside the property
)

type classes struct {
	outer map[string]bool // classes outside the fields of registered structs: affect round trip / type acceptance
	field map[string]bool // classes inside fields of registered structs: affect the struct <-> object clause
}

var two63 = new(big.Int).Lsh(big.NewInt(1), 63)

// pos: 'W' the sub-value is handed to wrap() (types.go:591: top level, slice element, map key/value,
// interface content), 'R' it is handed to wrapReflected() directly (:666: pointee, field of a registered struct).
func classify(s *Shape, v *Val, pos byte, underPtr, inField, inIface bool, out *classes) {
	add := func(c string) {
		if inField {
			out.field[c] = true
		} else {
			out.outer[c] = true
		}
	}
	switch {
	case s.K == "uint" || s.K == "uint64":
		if bigOf(v).Cmp(two63) >= 0 && !inIface {
			add(clsU64)
		}
	case s.K == "float32":
		f := math.Float64frombits(fbits(v))
		if (math.IsNaN(f) || math.IsInf(f, 0)) && !inIface {
			add(clsNonFinite)
		}
	}
	switch s.K {
	case "slice":
		if v.Nil {
			switch {
			case pos == 'W' && exact(s) && (s.E.K == "int" || s.E.K == "string" || s.E.K == "iface"):
				add(clsNilFast)
			case pos == 'W' && exact(s) && s.E.K == "uint8":
				// a nil []byte handed to wrap() is a Binary without bytes: accepted by Binary, converts back to nil
			case underPtr:
				add(clsPtrNil)
			case !inIface:
				add(clsNilUndef)
			}
			return
		}
		for _, e := range v.L {
			classify(s.E, e, 'W', false, inField, inIface, out)
		}
	case "map":
		if v.Nil {
			switch {
			case pos == 'W' && exact(s) && s.Key.K == "string" && (s.E.K == "string" || s.E.K == "iface"):
				add(clsNilFast)
			case underPtr:
				add(clsPtrNil)
			case !inIface:
				add(clsNilUndef)
			}
			return
		}
		for _, kv := range v.M {
			classify(s.Key, kv[0], 'W', false, inField, inIface, out)
			classify(s.E, kv[1], 'W', false, inField, inIface, out)
		}
	case "ptr":
		if v.Nil {
			return
		}
		if s.E.K == "ptr" {
			add(clsPtrPtr)
		}
		classify(s.E, v.L[0], 'R', true, inField, inIface, out)
	case "iface":
		if v.Nil {
			return
		}
		if !(v.D.K == "int64" || v.D.K == "float64" || v.D.K == "string" || v.D.K == "bool") {
			add(clsIfaceDyn)
		}
		classify(v.D, v.L[0], 'W', false, inField, true, out)
	case "struct":
		// a registered struct is kept as it is by wrap (reflectedObject); its fields matter for the object clause
		for i, e := range v.L {
			classify(s.F[i].T, e, 'R', false, true, false, out)
		}
	}
}

// exact: the slice / map type is the unnamed type over unnamed elements, i.e. it can be IDENTICAL to one of the types
// the type switch of wrap and the wellKnown table name ([]byte, []int, []string, []interface{}, map[string]string,
// map[string]interface{}); a defined type, or a slice of a defined scalar, never is.
func exact(s *Shape) bool {
	return s.G == "" && (s.E == nil || s.E.G == "") && (s.Key == nil || s.Key.G == "")
}

func classesOf(cs *Case) *classes {
	out := &classes{outer: map[string]bool{}, field: map[string]bool{}}
	classify(cs.S, cs.V, 'W', false, false, false, out)
	return out
}

func keys(m map[string]bool, only ...string) []string {
	var r []string
	for k := range m {
		if len(only) == 0 {
			r = append(r, k)
			continue
		}
		for _, o := range only {
			if o == k {
				r = append(r, k)
			}
		}
	}
	sort.Strings(r)
	return r
}

// directCheck evaluates the property as stated on the observed outputs of the implementation.
func directCheck(cs *Case, o *Obs, res *lib.Result) (violated bool) {
	cl := classesOf(cs)
	input := map[string]interface{}{"shape": cs.S, "value": cs.V, "history": cs.H, "go_type": cs.S.String(), "go_value": cs.V.Text(cs.S)}
	if cs.TS != nil {
		input["typeset"] = cs.TS
		input["typeset_call"] = cs.TS.text()
	}
	viol := func(clause, what string, tags []string) {
		violated = true
		res.Violate(lib.Violation{Clause: clause, What: what + "  [" + cs.S.String() + " = " + cs.V.Text(cs.S) + "]", Input: input, Tags: tags})
	}
	if o.RegErr != "" {
		call := ""
		if cs.TS != nil {
			call = cs.TS.text() + ": "
		}
		viol("struct-object", call+"deriving the object types of the structs fails: "+o.RegErr+" "+o.RegText, nil)
		return
	}
	// the type set itself (family typeset): every member is what its struct alone says, whatever the order of the list
	tsDirect(cs, o, viol)
	// clause 1: wrap then reflect back gives a deeply equal value
	rtTags := keys(cl.outer, clsNilFast, clsPtrPtr, clsPtrNil)
	outside := cl.outer[clsIfaceDyn]
	switch {
	case o.WrapErr != "":
		viol("roundtrip", "Wrap fails: "+o.WrapErr+" "+o.WrapText, rtTags)
	case o.BackErr != "":
		if !outside {
			viol("roundtrip", "reflecting the wrapped value back into the same Go type fails: "+o.BackErr+" "+o.BackText, rtTags)
		}
	case !o.Deep:
		if !outside {
			viol("roundtrip", "the value converted back is not deeply equal: "+backText(cs.S, o.Back), rtTags)
		}
	}
	if o.WrapErr != "" {
		return
	}
	// clause 1 for an equal value built anew, after the caller wrote through the first converted-back value
	if o.Again && !outside {
		switch {
		case o.AgainErr != "":
			viol("roundtrip", "after the caller wrote through the first converted-back value, converting an equal value fails: "+o.AgainErr+" "+o.AgainText, rtTags)
		case !o.AgainDeep:
			viol("roundtrip", "after the caller wrote through the pointers of the first converted-back value, an equal value (built anew) converts back to "+backText(cs.S, o.AgainBack), rtTags)
		}
	}
	// clause 1 observed at Reflector.ReflectTo with a destination that was used before (it holds the last value of
	// the history): the destination must end up deeply equal to the value that was wrapped, whatever it held
	if o.Used && !outside {
		hist := "  [destination went through " + histText(cs) + "]"
		switch {
		case o.UsedErr != "":
			viol("roundtrip", "ReflectTo of the wrapped value into a used destination of the same Go type fails: "+o.UsedErr+" "+o.UsedText+hist, rtTags)
		case !o.UsedDeep:
			viol("roundtrip", "ReflectTo into a used destination: the destination is not deeply equal to the value that was wrapped: "+backText(cs.S, o.UsedBack)+hist, rtTags)
		}
	}
	// clause 2: the pcore type derived from the Go type accepts the wrapped value
	accTags := keys(cl.outer, clsU64, clsNonFinite, clsNilUndef)
	switch {
	case o.TypeErr != "":
		viol("ptype-accepts", "WrapReflectedType fails: "+o.TypeErr+" "+o.TypeText, accTags)
	case !o.Inst:
		viol("ptype-accepts", "the derived type "+o.TypeText+" does not accept the wrapped value "+o.Wrapped, accTags)
	}
	// the same two clauses when the struct types were not registered beforehand (anonymous object types)
	if o.Anon {
		switch {
		case o.AnonTypeErr != "":
			viol("ptype-accepts", "WrapReflectedType of the type with unregistered (anonymous) struct types fails: "+o.AnonTypeErr+" "+o.AnonTypeText, accTags)
		case o.AnonWrapErr != "":
			viol("roundtrip", "Wrap fails when the struct types are anonymous: "+o.AnonWrapErr, rtTags)
		default:
			if !o.AnonInst {
				viol("ptype-accepts", "anonymous struct types: the derived type "+o.AnonTypeText+" does not accept the wrapped value", accTags)
			}
			if (o.AnonBackErr != "" || !o.AnonDeep) && !outside {
				viol("roundtrip", "anonymous struct types: the value converted back is not deeply equal "+o.AnonBackErr+" "+o.AnonBackText, rtTags)
			}
		}
	}
	// clause 3: an object type derived from a struct constructs instances that convert back to equal structs
	if ob := o.Obj; ob != nil {
		all := map[string]bool{}
		for k := range cl.field {
			all[k] = true
		}
		objTags := keys(all, clsU64, clsNonFinite, clsNilUndef, clsNilFast, clsPtrPtr, clsPtrNil)
		outside := cl.field[clsIfaceDyn]
		switch {
		case ob.GetsErr != "":
			viol("struct-object", "reading the attributes of the wrapped struct fails: "+ob.GetsErr, objTags)
		case ob.HashErr != "":
			viol("struct-object", "InitHash of the wrapped struct fails: "+ob.HashErr+" "+ob.HashText, objTags)
		}
		if ob.HashErr == "" {
			switch {
			case ob.NewHErr != "":
				if !outside {
					viol("struct-object", "constructing from the init hash fails: "+ob.NewHErr+" "+ob.NewHText, objTags)
				}
			case !ob.NewHDeep:
				if !outside {
					viol("struct-object", "the instance constructed from the init hash converts back to a different struct: "+backText(cs.S, ob.NewHBack), objTags)
				}
			}
		}
		if ob.NewHUsed && !outside {
			switch {
			case ob.NewHUsedErr != "":
				viol("struct-object", "converting the instance constructed from the init hash into a used struct fails: "+ob.NewHUsedErr+" "+ob.NewHUsedText, objTags)
			case !ob.NewHUsedDeep:
				viol("struct-object", "the instance constructed from the init hash, converted into a used destination (it held "+histText(cs)+"), gives a different struct: "+backText(cs.S, ob.NewHUsedBack), objTags)
			}
		}
		// A single Hash argument is, by the calling convention of the constructor (objecttype.go: the
		// named-argument creator comes first), the init hash and not a positional attribute value: such an argument
		// list is not a positional call, so the positional sub-clause is evaluated on the other argument lists only.
		if ob.GetsErr == "" && !ob.SingleHash {
			posTags := objTags
			switch {
			case ob.NewPErr != "":
				if !outside {
					viol("struct-object", "constructing from the positional attribute values fails: "+ob.NewPErr+" "+ob.NewPText, posTags)
				}
			case !ob.NewPDeep:
				if !outside {
					viol("struct-object", "the instance constructed positionally converts back to a different struct: "+backText(cs.S, ob.NewPBack), posTags)
				}
			}
			if ob.TrimArgs != "" && !outside {
				switch {
				case ob.NewTErr != "":
					viol("struct-object", "constructing from the positional values without the trailing defaults "+ob.TrimArgs+" fails: "+ob.NewTErr+" "+ob.NewTText, posTags)
				case !ob.NewTDeep:
					viol("struct-object", "the instance constructed from the positional values without the trailing defaults "+ob.TrimArgs+" converts back to a different struct: "+backText(cs.S, ob.NewTBack), posTags)
				}
			}
		}
	}
	return
}

func histText(cs *Case) string {
	parts := make([]string, len(cs.H))
	for i, h := range cs.H {
		parts[i] = h.Text(cs.S)
	}
	return strings.Join(parts, " ; ")
}

func backText(s *Shape, v *Val) string {
	if v == nil {
		return "?"
	}
	return v.Text(s)
}

// ---- the case as a Gallina term (type `rcase` of Corr/CorrC18.v)

func (o *Obs) gallina(cs *Case) string {
	var b strings.Builder
	hist := make([]string, len(cs.H))
	for i, h := range cs.H {
		hist[i] = h.Gallina(cs.S)
	}
	b.WriteString("mkCase " + cs.S.Gallina() + "\n     " + cs.V.Gallina(cs.S) + "\n     " + lib.GList(hist, "gval") + "\n     ")
	if o.RegErr != "" {
		// nothing else was observed
		b.WriteString("(ORegFail " + resTerm(o.RegErr, "tt") + ")")
		return b.String()
	}
	b.WriteString("(OSeen " + resTerm(o.TypeErr, o.Type) + " " + resTerm(o.WrapErr, o.Wrapped) + " " + lib.GBool(o.Inst) + " ")
	if o.WrapErr != "" {
		b.WriteString("None false None None)")
		return b.String()
	}
	back := "GVOutside"
	if o.BackErr == "" && !o.BackOutside {
		back = o.Back.Gallina(cs.S)
	}
	b.WriteString("(Some " + resTerm(o.BackErr, back) + ") " + lib.GBool(o.Deep) + "\n     ")
	if o.Used {
		used := "GVOutside"
		if o.UsedErr == "" && !o.UsedOutside {
			used = o.UsedBack.Gallina(cs.S)
		}
		b.WriteString("(Some " + resTerm(o.UsedErr, used) + ")\n     ")
	} else {
		b.WriteString("None ")
	}
	if ob := o.Obj; ob != nil && ob.GetsErr == "" && ob.HashErr == "" {
		attrs := make([]string, len(ob.Attrs))
		for i, a := range ob.Attrs {
			attrs[i] = lib.GStr(a)
		}
		nh, np := "GVOutside", "GVOutside"
		if ob.NewHErr == "" && ob.NewHBack != nil {
			nh = ob.NewHBack.Gallina(cs.S)
		}
		if ob.NewPErr == "" && ob.NewPBack != nil && !ob.NewPOutside {
			np = ob.NewPBack.Gallina(cs.S)
		}
		nt := "None"
		if ob.TrimArgs != "" {
			t := "GVOutside"
			if ob.NewTErr == "" && ob.NewTBack != nil && !ob.NewTOutside {
				t = ob.NewTBack.Gallina(cs.S)
			}
			nt = "(Some " + resTerm(ob.NewTErr, t) + ")"
		}
		b.WriteString("(Some (mkObjObs " + lib.GList(attrs, "str") + " " + lib.GList(ob.Gets, "value") + " " + ob.InitHash + "\n       " +
			resTerm(ob.NewHErr, nh) + " " + resTerm(ob.NewPErr, np) + " " + fmt.Sprintf("%d%%nat %d%%nat ", ob.Required, ob.TrimK) + nt + ")))")
	} else {
		b.WriteString("None)")
	}
	return b.String()
}
