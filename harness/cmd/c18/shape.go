package main

// Shapes (Go types assembled with package reflect at run time) and values of those shapes, both as
// plain JSON-able trees so that every case replays exactly.

import (
	"fmt"
	"math"
	"math/big"
	"reflect"
	"sort"
	"strconv"
	"strings"
)

// Shape is a Go type: K is one of the integer kinds "int","int8",...,"uint64", "float32","float64",
// "string","bool","slice","map","ptr","struct","iface".
type Shape struct {
	K   string  `json:"k"`
	E   *Shape  `json:"e,omitempty"`   // element of slice / ptr, value type of map
	Key *Shape  `json:"key,omitempty"` // key type of map
	F   []Field `json:"f,omitempty"`   // struct fields
	N   string  `json:"n,omitempty"`   // struct: name under which the derived object type is registered
	G   string  `json:"g,omitempty"`   // a defined (named) Go type declared in static.go; K/E/Key/F describe its underlying type
	P   bool    `json:"p,omitempty"`   // struct with an embedded first struct field: its object type is declared as the parent
}

// Field of a struct shape.  TagName / TagValue become `puppet:"name=>..,value=>.."`.
type Field struct {
	Name     string `json:"name"`
	TagName  string `json:"tn,omitempty"`
	TagValue *Lit   `json:"tv,omitempty"`
	T        *Shape `json:"t"`
	Emb      bool   `json:"emb,omitempty"` // embedded field (static struct types only)
}

// Lit is a default value literal in a tag: K = "int" | "str" | "bool" | "float" (F: binary64 bits, hex; only values
// whose shortest decimal text has a fraction, so that the tag parser reads a Float).
type Lit struct {
	K string `json:"k"`
	I int64  `json:"i,omitempty"`
	S string `json:"s,omitempty"`
	B bool   `json:"b,omitempty"`
	F string `json:"f,omitempty"`
}

// val is the value of the (scalar) shape base that equals the literal.
func (l *Lit) val() *Val {
	switch l.K {
	case "int":
		return &Val{I: strconv.FormatInt(l.I, 10)}
	case "bool":
		return &Val{B: l.B}
	case "float":
		return &Val{F: l.F}
	default:
		return &Val{S: []byte(l.S)}
	}
}

// defaultVal: the value of the field's type that equals the declared default (behind a pointer for a pointer field).
func (f *Field) defaultVal() *Val {
	if f.TagValue == nil {
		return nil
	}
	if f.T.K == "ptr" {
		return &Val{L: []*Val{f.TagValue.val()}}
	}
	return f.TagValue.val()
}

// Val is a value of a shape.
type Val struct {
	Nil bool      `json:"nil,omitempty"` // nil slice / map / ptr / iface
	I   string    `json:"i,omitempty"`   // integer kinds: the mathematical value, decimal
	F   string    `json:"f,omitempty"`   // floats: IEEE-754 binary64 bits (hex) of the value (float32: of its exact float64 image)
	S   []byte    `json:"s,omitempty"`   // string bytes
	B   bool      `json:"b,omitempty"`
	L   []*Val    `json:"l,omitempty"` // slice elements / struct fields / [pointee] / [interface content]
	M   [][2]*Val `json:"m,omitempty"` // map entries
	D   *Shape    `json:"d,omitempty"` // interface: dynamic type of the content
}

var intKinds = []string{"int", "int8", "int16", "int32", "int64", "uint", "uint8", "uint16", "uint32", "uint64"}

func isIntKind(k string) bool {
	for _, x := range intKinds {
		if x == k {
			return true
		}
	}
	return false
}
func isUintKind(k string) bool  { return strings.HasPrefix(k, "uint") }
func isFloatKind(k string) bool { return k == "float32" || k == "float64" }
func isScalarKind(k string) bool {
	return isIntKind(k) || isFloatKind(k) || k == "string" || k == "bool"
}

func intRange(k string) (lo, hi *big.Int) {
	bits := map[string]uint{"int": 64, "int8": 8, "int16": 16, "int32": 32, "int64": 64, "uint": 64, "uint8": 8, "uint16": 16, "uint32": 32, "uint64": 64}[k]
	one := big.NewInt(1)
	if isUintKind(k) {
		return big.NewInt(0), new(big.Int).Sub(new(big.Int).Lsh(one, bits), one)
	}
	h := new(big.Int).Lsh(one, bits-1)
	return new(big.Int).Neg(h), new(big.Int).Sub(h, one)
}

var scalarTypes = map[string]reflect.Type{
	"int": reflect.TypeOf(int(0)), "int8": reflect.TypeOf(int8(0)), "int16": reflect.TypeOf(int16(0)),
	"int32": reflect.TypeOf(int32(0)), "int64": reflect.TypeOf(int64(0)),
	"uint": reflect.TypeOf(uint(0)), "uint8": reflect.TypeOf(uint8(0)), "uint16": reflect.TypeOf(uint16(0)),
	"uint32": reflect.TypeOf(uint32(0)), "uint64": reflect.TypeOf(uint64(0)),
	"float32": reflect.TypeOf(float32(0)), "float64": reflect.TypeOf(float64(0)),
	"string": reflect.TypeOf(""), "bool": reflect.TypeOf(false),
}
var ifaceType = reflect.TypeOf((*interface{})(nil)).Elem()

func (l *Lit) text() string {
	switch l.K {
	case "int":
		return strconv.FormatInt(l.I, 10)
	case "bool":
		if l.B {
			return "true"
		}
		return "false"
	case "float":
		return strconv.FormatFloat(math.Float64frombits(fbits(&Val{F: l.F})), 'f', -1, 64)
	default:
		return "'" + l.S + "'"
	}
}

func (f *Field) tag() reflect.StructTag {
	var parts []string
	if f.TagName != "" {
		parts = append(parts, "name=>"+f.TagName)
	}
	if f.TagValue != nil {
		parts = append(parts, "value=>"+f.TagValue.text())
	}
	if len(parts) == 0 {
		return ""
	}
	return reflect.StructTag(`puppet:"` + strings.Join(parts, ",") + `"`)
}

// RType assembles the Go type with reflect.SliceOf/MapOf/PtrTo/StructOf.
func (s *Shape) RType() reflect.Type {
	if s.G != "" {
		t, ok := staticTypes[s.G]
		if !ok {
			panic("unknown static type " + s.G)
		}
		return t
	}
	if t, ok := scalarTypes[s.K]; ok {
		return t
	}
	switch s.K {
	case "slice":
		return reflect.SliceOf(s.E.RType())
	case "map":
		return reflect.MapOf(s.Key.RType(), s.E.RType())
	case "ptr":
		return reflect.PtrTo(s.E.RType())
	case "iface":
		return ifaceType
	case "struct":
		fs := make([]reflect.StructField, len(s.F))
		for i := range s.F {
			fs[i] = reflect.StructField{Name: s.F[i].Name, Type: s.F[i].T.RType(), Tag: s.F[i].tag()}
		}
		return reflect.StructOf(fs)
	}
	panic("bad shape kind " + s.K)
}

func (s *Shape) String() string {
	if s.G != "" {
		u := *s
		u.G = ""
		p := ""
		if s.P {
			p = " parent=" + s.F[0].T.G
		}
		return s.G + p + "(" + u.String() + ")"
	}
	switch s.K {
	case "slice":
		return "[]" + s.E.String()
	case "map":
		return "map[" + s.Key.String() + "]" + s.E.String()
	case "ptr":
		return "*" + s.E.String()
	case "iface":
		return "interface{}"
	case "struct":
		var b strings.Builder
		b.WriteString("struct " + s.N + "{")
		for i := range s.F {
			if i > 0 {
				b.WriteString("; ")
			}
			if s.F[i].Emb {
				b.WriteString("embedded ")
			}
			b.WriteString(s.F[i].Name + " " + s.F[i].T.String())
			if t := s.F[i].tag(); t != "" {
				b.WriteString(" `" + string(t) + "`")
			}
		}
		b.WriteString("}")
		return b.String()
	}
	return s.K
}

func fbits(v *Val) uint64 {
	u, err := strconv.ParseUint(v.F, 16, 64)
	if err != nil {
		panic(err)
	}
	return u
}

func bigOf(v *Val) *big.Int {
	z, ok := new(big.Int).SetString(v.I, 10)
	if !ok {
		panic("bad integer " + v.I)
	}
	return z
}

// Build makes the reflect.Value (of type s.RType()) described by v.
func Build(s *Shape, v *Val) reflect.Value {
	t := s.RType()
	switch {
	case isUintKind(s.K):
		r := reflect.New(t).Elem()
		r.SetUint(bigOf(v).Uint64())
		return r
	case isIntKind(s.K):
		r := reflect.New(t).Elem()
		r.SetInt(bigOf(v).Int64())
		return r
	case isFloatKind(s.K):
		r := reflect.New(t).Elem()
		r.SetFloat(math.Float64frombits(fbits(v)))
		return r
	}
	switch s.K {
	case "string":
		r := reflect.New(t).Elem()
		r.SetString(string(v.S))
		return r
	case "bool":
		r := reflect.New(t).Elem()
		r.SetBool(v.B)
		return r
	case "slice":
		if v.Nil {
			return reflect.Zero(t)
		}
		r := reflect.MakeSlice(t, len(v.L), len(v.L))
		for i, e := range v.L {
			r.Index(i).Set(Build(s.E, e))
		}
		return r
	case "map":
		if v.Nil {
			return reflect.Zero(t)
		}
		r := reflect.MakeMapWithSize(t, len(v.M))
		for _, kv := range v.M {
			r.SetMapIndex(Build(s.Key, kv[0]), Build(s.E, kv[1]))
		}
		return r
	case "ptr":
		if v.Nil {
			return reflect.Zero(t)
		}
		p := reflect.New(t.Elem())
		p.Elem().Set(Build(s.E, v.L[0]))
		return p
	case "iface":
		r := reflect.New(t).Elem()
		if !v.Nil {
			r.Set(Build(v.D, v.L[0]))
		}
		return r
	case "struct":
		r := reflect.New(t).Elem()
		for i := range s.F {
			r.Field(i).Set(Build(s.F[i].T, v.L[i]))
		}
		return r
	}
	panic("bad shape kind " + s.K)
}

// shapeOfType reconstructs a Shape from a reflect.Type (dynamic types found inside interfaces of
// converted-back values).  known maps the struct types of the case to their shapes.
func shapeOfType(t reflect.Type, known map[reflect.Type]*Shape) *Shape {
	if s, ok := known[t]; ok {
		return s
	}
	for k, st := range scalarTypes {
		if st == t {
			return &Shape{K: k}
		}
	}
	switch t.Kind() {
	case reflect.Slice:
		if e := shapeOfType(t.Elem(), known); e != nil {
			return &Shape{K: "slice", E: e}
		}
	case reflect.Map:
		k, e := shapeOfType(t.Key(), known), shapeOfType(t.Elem(), known)
		if k != nil && e != nil {
			return &Shape{K: "map", Key: k, E: e}
		}
	case reflect.Ptr:
		if e := shapeOfType(t.Elem(), known); e != nil {
			return &Shape{K: "ptr", E: e}
		}
	case reflect.Interface:
		if t == ifaceType {
			return &Shape{K: "iface"}
		}
	}
	return nil
}

// Unbuild reads a reflect.Value of shape s back into a Val.  ok=false when the value contains something
// outside the universe of shapes (then the caller reports it as such).
func Unbuild(s *Shape, rv reflect.Value, known map[reflect.Type]*Shape) (v *Val, ok bool) {
	ok = true
	switch {
	case isUintKind(s.K):
		return &Val{I: new(big.Int).SetUint64(rv.Uint()).String()}, true
	case isIntKind(s.K):
		return &Val{I: strconv.FormatInt(rv.Int(), 10)}, true
	case isFloatKind(s.K):
		return &Val{F: strconv.FormatUint(math.Float64bits(rv.Float()), 16)}, true
	}
	switch s.K {
	case "string":
		return &Val{S: []byte(rv.String())}, true
	case "bool":
		return &Val{B: rv.Bool()}, true
	case "slice":
		if rv.IsNil() {
			return &Val{Nil: true}, true
		}
		r := &Val{L: make([]*Val, rv.Len())}
		for i := range r.L {
			var o bool
			r.L[i], o = Unbuild(s.E, rv.Index(i), known)
			ok = ok && o
		}
		return r, ok
	case "map":
		if rv.IsNil() {
			return &Val{Nil: true}, true
		}
		r := &Val{}
		it := rv.MapRange()
		for it.Next() {
			k, o1 := Unbuild(s.Key, it.Key(), known)
			e, o2 := Unbuild(s.E, it.Value(), known)
			ok = ok && o1 && o2
			r.M = append(r.M, [2]*Val{k, e})
		}
		sortEntries(s.Key, r.M)
		return r, ok
	case "ptr":
		if rv.IsNil() {
			return &Val{Nil: true}, true
		}
		e, o := Unbuild(s.E, rv.Elem(), known)
		return &Val{L: []*Val{e}}, o
	case "iface":
		if rv.IsNil() {
			return &Val{Nil: true}, true
		}
		d := shapeOfType(rv.Elem().Type(), known)
		if d == nil {
			return &Val{Nil: true}, false
		}
		e, o := Unbuild(d, rv.Elem(), known)
		return &Val{D: d, L: []*Val{e}}, o
	case "struct":
		r := &Val{L: make([]*Val, len(s.F))}
		for i := range s.F {
			var o bool
			r.L[i], o = Unbuild(s.F[i].T, rv.Field(i), known)
			ok = ok && o
		}
		return r, ok
	}
	panic("bad shape kind " + s.K)
}

// keyLess is the canonical (native) order of map keys used to list the entries of a Go map:
// integers numerically, strings bytewise, false < true, floats by their order key.
func keyLess(ks *Shape, a, b *Val) bool {
	switch {
	case isIntKind(ks.K):
		return bigOf(a).Cmp(bigOf(b)) < 0
	case isFloatKind(ks.K):
		return floatKey(fbits(a)) < floatKey(fbits(b))
	case ks.K == "string":
		return string(a.S) < string(b.S)
	case ks.K == "bool":
		return !a.B && b.B
	}
	return false
}

// floatKey: order preserving image of the non-NaN doubles (-0 and +0 differ by one, which only makes the
// listing deterministic; Go maps identify them, so both never occur in one map).
func floatKey(bits uint64) int64 {
	if bits>>63 == 1 {
		return -int64(bits&0x7fffffffffffffff) - 1
	}
	return int64(bits)
}

func sortEntries(ks *Shape, m [][2]*Val) {
	sort.SliceStable(m, func(i, j int) bool { return keyLess(ks, m[i][0], m[j][0]) })
}

// valEqual: structural equality of two values of the same shape, floats equal when both are NaN or
// have the same bits or compare == (so it is implied by reflect.DeepEqual except for NaN).
func valEqual(s *Shape, a, b *Val) bool {
	switch {
	case isIntKind(s.K):
		return bigOf(a).Cmp(bigOf(b)) == 0
	case isFloatKind(s.K):
		x, y := math.Float64frombits(fbits(a)), math.Float64frombits(fbits(b))
		return x == y || (x != x && y != y)
	}
	switch s.K {
	case "string":
		return string(a.S) == string(b.S)
	case "bool":
		return a.B == b.B
	case "slice", "struct", "ptr":
		if a.Nil != b.Nil || len(a.L) != len(b.L) {
			return false
		}
		for i := range a.L {
			var es *Shape
			if s.K == "struct" {
				es = s.F[i].T
			} else {
				es = s.E
			}
			if !valEqual(es, a.L[i], b.L[i]) {
				return false
			}
		}
		return true
	case "map":
		if a.Nil != b.Nil || len(a.M) != len(b.M) {
			return false
		}
		am, bm := append([][2]*Val(nil), a.M...), append([][2]*Val(nil), b.M...)
		sortEntries(s.Key, am)
		sortEntries(s.Key, bm)
		for i := range am {
			if !valEqual(s.Key, am[i][0], bm[i][0]) || !valEqual(s.E, am[i][1], bm[i][1]) {
				return false
			}
		}
		return true
	case "iface":
		if a.Nil != b.Nil {
			return false
		}
		if a.Nil {
			return true
		}
		if a.D.String() != b.D.String() {
			return false
		}
		return valEqual(a.D, a.L[0], b.L[0])
	}
	return false
}

func (v *Val) Text(s *Shape) string {
	switch {
	case isIntKind(s.K):
		return v.I
	case isFloatKind(s.K):
		return fmt.Sprintf("%s(0x%s)", strconv.FormatFloat(math.Float64frombits(fbits(v)), 'g', -1, 64), v.F)
	}
	switch s.K {
	case "string":
		return strconv.Quote(string(v.S))
	case "bool":
		return strconv.FormatBool(v.B)
	case "slice", "struct":
		if v.Nil {
			return "nil"
		}
		parts := make([]string, len(v.L))
		for i, e := range v.L {
			if s.K == "struct" {
				parts[i] = s.F[i].Name + ":" + e.Text(s.F[i].T)
			} else {
				parts[i] = e.Text(s.E)
			}
		}
		return "{" + strings.Join(parts, ", ") + "}"
	case "map":
		if v.Nil {
			return "nil"
		}
		parts := make([]string, len(v.M))
		for i, kv := range v.M {
			parts[i] = kv[0].Text(s.Key) + ": " + kv[1].Text(s.E)
		}
		return "map{" + strings.Join(parts, ", ") + "}"
	case "ptr":
		if v.Nil {
			return "nil"
		}
		return "&" + v.L[0].Text(s.E)
	case "iface":
		if v.Nil {
			return "nil"
		}
		return v.D.String() + "(" + v.L[0].Text(v.D) + ")"
	}
	return "?"
}

// structShapes lists the struct shapes of s bottom-up (inner before outer), each distinct name once.
func structShapes(s *Shape, seen map[string]bool, out *[]*Shape) {
	if s == nil {
		return
	}
	structShapes(s.E, seen, out)
	structShapes(s.Key, seen, out)
	for i := range s.F {
		structShapes(s.F[i].T, seen, out)
	}
	if s.K == "struct" && !seen[s.N] {
		seen[s.N] = true
		*out = append(*out, s)
	}
}

// structShapesOfVal also visits the dynamic types inside interface values.
func structShapesOfVal(s *Shape, v *Val, seen map[string]bool, out *[]*Shape) {
	if v == nil || v.Nil {
		return
	}
	switch s.K {
	case "slice", "ptr":
		for _, e := range v.L {
			structShapesOfVal(s.E, e, seen, out)
		}
	case "struct":
		for i, e := range v.L {
			structShapesOfVal(s.F[i].T, e, seen, out)
		}
	case "map":
		for _, kv := range v.M {
			structShapesOfVal(s.E, kv[1], seen, out)
		}
	case "iface":
		structShapes(v.D, seen, out)
		structShapesOfVal(v.D, v.L[0], seen, out)
	}
}
