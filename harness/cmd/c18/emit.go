package main

// Gallina term printers for shapes, Go values, pcore values and pcore types (constructors of
// coq/Model/Reflect.v) and the decoding of implementation outputs into those terms.

import (
	"fmt"
	"math"
	"math/big"
	"reflect"
	"strings"

	"github.com/lyraproj/issue/issue"
	"github.com/lyraproj/pcore/px"
	"github.com/lyraproj/pcore/types"

	"verifharness/lib"
)

var kindCtor = map[string]string{"int": "KInt", "int8": "KInt8", "int16": "KInt16", "int32": "KInt32", "int64": "KInt64",
	"uint": "KUint", "uint8": "KUint8", "uint16": "KUint16", "uint32": "KUint32", "uint64": "KUint64"}

func gOptStr(s string) string {
	if s == "" {
		return "None"
	}
	return "(Some " + lib.GStr(s) + ")"
}

func (l *Lit) gallina() string {
	if l == nil {
		return "None"
	}
	switch l.K {
	case "int":
		return "(Some (LInt " + lib.GZ(l.I) + "))"
	case "bool":
		return "(Some (LBool " + lib.GBool(l.B) + "))"
	case "float":
		return "(Some (LFloat " + gBits(l.F) + "))"
	default:
		return "(Some (LStr " + lib.GStr(l.S) + "))"
	}
}

func (s *Shape) Gallina() string {
	if c, ok := kindCtor[s.K]; ok {
		return "(GInt " + c + ")"
	}
	switch s.K {
	case "float32":
		return "GFloat32"
	case "float64":
		return "GFloat64"
	case "string":
		return "GString"
	case "bool":
		return "GBool"
	case "slice":
		return "(GSlice " + s.E.Gallina() + ")"
	case "map":
		return "(GMap " + s.Key.Gallina() + " " + s.E.Gallina() + ")"
	case "ptr":
		return "(GPtr " + s.E.Gallina() + ")"
	case "iface":
		return "GIface"
	case "struct":
		fs := make([]string, len(s.F))
		for i := range s.F {
			f := &s.F[i]
			fs[i] = "GField " + lib.GStr(f.Name) + " " + gOptStr(f.TagName) + " " + f.TagValue.gallina() + " " + f.T.Gallina()
		}
		return "(GStruct " + lib.GStr(s.N) + " " + lib.GList(fs, "gfield") + ")"
	}
	panic("bad shape kind " + s.K)
}

func gBits(hex string) string {
	u := fbits(&Val{F: hex})
	return "(" + new(big.Int).SetUint64(u).String() + ")%Z"
}

func (v *Val) Gallina(s *Shape) string {
	switch {
	case isIntKind(s.K):
		return "(GVInt (" + v.I + ")%Z)"
	case isFloatKind(s.K):
		return "(GVFloat " + gBits(v.F) + ")"
	}
	switch s.K {
	case "string":
		return "(GVStr " + lib.GStr(string(v.S)) + ")"
	case "bool":
		return "(GVBool " + lib.GBool(v.B) + ")"
	case "slice":
		if v.Nil {
			return "(GVSlice None)"
		}
		es := make([]string, len(v.L))
		for i, e := range v.L {
			es[i] = e.Gallina(s.E)
		}
		return "(GVSlice (Some " + lib.GList(es, "gval") + "))"
	case "map":
		if v.Nil {
			return "(GVMap None)"
		}
		m := append([][2]*Val(nil), v.M...)
		sortEntries(s.Key, m)
		es := make([]string, len(m))
		for i, kv := range m {
			es[i] = lib.GPair(kv[0].Gallina(s.Key), kv[1].Gallina(s.E))
		}
		return "(GVMap (Some " + lib.GList(es, "gval * gval") + "))"
	case "ptr":
		if v.Nil {
			return "(GVPtr None)"
		}
		return "(GVPtr (Some " + v.L[0].Gallina(s.E) + "))"
	case "iface":
		if v.Nil {
			return "(GVIface None)"
		}
		return "(GVIface (Some " + lib.GPair(v.D.Gallina(), v.L[0].Gallina(v.D)) + "))"
	case "struct":
		es := make([]string, len(v.L))
		for i, e := range v.L {
			es[i] = e.Gallina(s.F[i].T)
		}
		return "(GVStruct " + lib.GList(es, "gval") + ")"
	}
	panic("bad shape kind " + s.K)
}

// ---- decoding of implementation outputs

// caseEnv: the struct types registered for one case.
type caseEnv struct {
	known map[reflect.Type]*Shape // struct type -> shape of the struct
	ffmt  map[uint64]string       // fmt %v of the float keys of wrapped hashes (oracle table for the model)
}

// valueTerm converts a pcore value into a term of the model's `value`.
func (e *caseEnv) valueTerm(c px.Context, v px.Value) string {
	switch v := v.(type) {
	case px.Integer:
		return "(VInt " + lib.GZ(v.Int()) + ")"
	case px.Float:
		return "(VFloat (" + new(big.Int).SetUint64(math.Float64bits(v.Float())).String() + ")%Z)"
	case px.StringValue:
		return "(VStr " + lib.GStr(v.String()) + ")"
	case px.Boolean:
		return "(VBool " + lib.GBool(v.Bool()) + ")"
	case *types.UndefValue:
		return "VUndef"
	case *types.Binary:
		if v.Bytes() == nil {
			return "(VBinary None)"
		}
		return "(VBinary (Some " + lib.GStr(string(v.Bytes())) + "))"
	case *types.Array:
		es := make([]string, v.Len())
		for i := range es {
			es[i] = e.valueTerm(c, v.At(i))
		}
		return "(VArr " + lib.GList(es, "value") + ")"
	case *types.Hash:
		es := make([]string, 0, v.Len())
		v.EachPair(func(k, x px.Value) {
			if f, ok := k.(px.Float); ok {
				e.ffmt[math.Float64bits(f.Float())] = fmt.Sprintf("%v", f.Float())
			}
			es = append(es, lib.GPair(e.valueTerm(c, k), e.valueTerm(c, x)))
		})
		return "(VHash " + lib.GList(es, "value * value") + ")"
	case *types.RuntimeValue:
		// a Go value kept as it is (the content of an interface{} field)
		rv := reflect.ValueOf(v.Interface())
		if rv.IsValid() {
			if d := shapeOfType(rv.Type(), e.known); d != nil {
				if pv, ok := Unbuild(d, rv, e.known); ok {
					return "(VRuntime " + d.Gallina() + " " + pv.Gallina(d) + ")"
				}
			}
		}
	case px.PuppetObject:
		if r, ok := v.(px.Reflected); ok {
			rv := r.Reflect(c)
			t := rv.Type()
			s, isPtr := e.known[t], false
			if s == nil && t.Kind() == reflect.Ptr {
				s, isPtr = e.known[t.Elem()], true
			}
			if s != nil {
				var pv *Val
				var ok bool
				if isPtr {
					pv, ok = Unbuild(&Shape{K: "ptr", E: s}, rv, e.known)
					if ok {
						// addressability only matters for a struct payload
						return "(VObj " + lib.GStr(v.PType().Name()) + " false " + pv.Gallina(&Shape{K: "ptr", E: s}) + ")"
					}
				} else {
					pv, ok = Unbuild(s, rv, e.known)
					if ok {
						return "(VObj " + lib.GStr(v.PType().Name()) + " " + lib.GBool(rv.CanAddr()) + " " + pv.Gallina(s) + ")"
					}
				}
			}
		}
	}
	return "VOther"
}

func isDefaultSize(sz *types.IntegerType) bool { return sz.Min() == 0 && sz.Max() == math.MaxInt64 }

func fbitsTerm(f float64) string {
	return "(" + new(big.Int).SetUint64(math.Float64bits(f)).String() + ")%Z"
}

// typeTerm converts a pcore type into a term of the model's `ty` (TOther when outside the fragment).
func typeTerm(t px.Type) string {
	switch t := t.(type) {
	case *types.AnyType:
		return "TAny"
	case *types.IntegerType:
		return "(TInteger " + lib.GZ(t.Min()) + " " + lib.GZ(t.Max()) + ")"
	case *types.FloatType:
		return "(TFloat " + fbitsTerm(t.Min()) + " " + fbitsTerm(t.Max()) + ")"
	case *types.BooleanType:
		if t.String() == "Boolean" {
			return "TBoolean"
		}
	case *types.BinaryType:
		return "TBinary"
	case *types.ArrayType:
		if isDefaultSize(t.Size()) {
			return "(TArray " + typeTerm(t.ElementType()) + ")"
		}
	case *types.HashType:
		if isDefaultSize(t.Size()) {
			return "(THash " + typeTerm(t.KeyType()) + " " + typeTerm(t.ValueType()) + ")"
		}
	case *types.OptionalType:
		return "(TOptional " + typeTerm(t.ContainedType()) + ")"
	case px.ObjectType:
		return "(TObject " + lib.GStr(t.Name()) + ")"
	default:
		if t.String() == "String" {
			return "TString"
		}
	}
	return "TOther"
}

// errClass maps a recovered panic value to the small error enumeration of the model:
// pcore issue codes by name, everything else (Go runtime errors, reflect panics) is a fault.
func errClass(r interface{}) string {
	if rep, ok := r.(issue.Reported); ok {
		switch rep.Code() {
		case px.AttemptToSetWrongKind:
			return "EWrongKind"
		case px.AttemptToSetUnsettable:
			return "EUnsettable"
		case px.UnreflectableType, px.UnreflectableValue:
			return "EUnreflectable"
		case px.InvalidSourceForSet:
			return "EInvalidSource"
		case px.IllegalArguments, px.TypeMismatch:
			return "EArgs"
		default:
			return "EOther"
		}
	}
	return "Fault"
}

func resTerm(errc string, okTerm string) string {
	switch errc {
	case "":
		return "(Ok " + okTerm + ")"
	case "Fault":
		return "Fault"
	default:
		return "(Err " + errc + ")"
	}
}

func panicText(r interface{}) string {
	s := fmt.Sprint(r)
	if i := strings.Index(s, "\n"); i > 0 {
		s = s[:i]
	}
	if len(s) > 300 {
		s = s[:300]
	}
	return s
}
