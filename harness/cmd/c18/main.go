// c18: the Go reflection bridge round-trips values and agrees with inferred types.
package main

import (
	"encoding/json"
	"fmt"
	"sort"
	"strconv"

	"verifharness/lib"
)

const rule = "a case is a Go type assembled with reflect.SliceOf/MapOf/PtrTo/StructOf over the 14 scalar kinds and interface{} " +
	"plus one value of it; families: hand-written corpus, bounded-exhaustive (all shapes of depth <= 2 x boundary values: min/max of " +
	"every integer width, float extremes/subnormals/non-finite, nil/empty/1/2 elements), seeded random shapes of depth <= 4 (70% avoiding " +
	"every known-finding input class), random structs with name tags and declared defaults (also on pointer fields); every case carries a " +
	"history of 1-3 earlier values of the same type that the destination of a second conversion (ReflectTo) went through; family static: " +
	"statically declared Go types that reflect cannot assemble (defined scalar, slice and map types such as type Blob []byte, net.IP, []Octet, " +
	"map[Label]Octet; structs that embed structs first / in the middle / last, by value and by pointer, with and without a declared parent " +
	"type), each bare, behind a pointer, as slice element and as map value, x boundary and random values; family typeset: argument lists of " +
	"Reflector.TypeSetFromReflect over 17 static struct types (bases, several children of one base, grandchildren, unrelated plain structs, structs whose embedded first field is a pointer or a defined scalar) - small sets in every " +
	"valid order, random closed subsets in random valid orders, members as struct or pointer type, with aliases and nested type set names - x values of every member; a case is non-trivial when its value holds a non-empty container, a " +
	"non-nil pointer/interface, or a scalar at the minimum or maximum of its kind; distinct = distinct (type, value) texts"

func newCasesFile() *lib.CasesFile {
	return &lib.CasesFile{Imports: []string{"Model.Base", "Model.Reflect", "Corr.CorrC18"}, Typ: "rcase",
		Obligations: map[string]string{"reflect_model": "c18_mismatches ffmt_table cases"}}
}

// the oracle table for fmt %v of float keys goes into the prelude of the cases file
func writeCases(r *runner, cf *lib.CasesFile, name string) {
	if len(cf.Cases) == 0 && r.shard > 0 {
		return
	}
	if r.shard > 0 || len(cf.Cases) >= maxCasesPerFile {
		name = fmt.Sprintf("%s_%d", name, r.shard)
	}
	bits := make([]uint64, 0, len(r.ffmt))
	for b := range r.ffmt {
		bits = append(bits, b)
	}
	sort.Slice(bits, func(i, j int) bool { return bits[i] < bits[j] })
	es := make([]string, len(bits))
	for i, b := range bits {
		es[i] = lib.GPair("("+strconv.FormatUint(b, 10)+")%Z", lib.GStr(r.ffmt[b]))
	}
	cf.Prelude = "Definition ffmt_table : list (Z * str) := " + lib.GList(es, "Z * str") + ".\n"
	r.res.CorrFiles = append(r.res.CorrFiles, cf.WriteTo(r.cfg.Out, name))
	r.ffmt = map[uint64]string{}
}

func nontrivial(s *Shape, v *Val) bool {
	switch {
	case isIntKind(s.K):
		lo, hi := intRange(s.K)
		z := bigOf(v)
		return z.Cmp(lo) == 0 || z.Cmp(hi) == 0
	case isScalarKind(s.K):
		return false
	}
	if v.Nil {
		return false
	}
	switch s.K {
	case "slice":
		return len(v.L) > 0
	case "map":
		return len(v.M) > 0
	case "struct":
		return len(v.L) > 0
	}
	return true
}

// at most this many cases per cases file (one coqc each, about 2 MB of memory per case)
const maxCasesPerFile = 1500

type runner struct {
	cfg    *lib.Config
	res    *lib.Result
	total  int
	ffmt   map[uint64]string
	shard  int             // number of cases files already written for the current family
	ncf    *lib.CasesFile  // cases of the static family
	acSeen map[string]bool // struct types whose attribute derivation was emitted
	tsSeen map[string]bool // argument lists of TypeSetFromReflect whose entries were emitted
}

// flush writes the cases file of the current family when it is full and starts the next shard.
func (r *runner) flush(cf *lib.CasesFile, name string) *lib.CasesFile {
	if len(cf.Cases) < maxCasesPerFile {
		return cf
	}
	writeCases(r, cf, name)
	r.shard++
	return newCasesFile()
}

// finish writes the last shard of a family.
func (r *runner) finish(cf *lib.CasesFile, name string) {
	writeCases(r, cf, name)
	r.shard = 0
}

func (r *runner) process(cs *Case, toCoq bool, cf *lib.CasesFile) {
	o := runCase(cs)
	r.total++
	r.res.Evaluations++
	r.res.Count("family." + cs.Family)
	r.res.Count("kind." + cs.S.K)
	cl := classesOf(cs)
	for k := range cl.outer {
		r.res.Count("class." + k)
	}
	for k := range cl.field {
		r.res.Count("class.field." + k)
	}
	if len(cl.outer) == 0 && len(cl.field) == 0 {
		r.res.Count("class.clean")
	}
	if o.Obj != nil {
		r.res.Count("struct-object-clause")
	}
	if nontrivial(cs.S, cs.V) {
		r.res.Nontrivial(cs.S.String() + "=" + cs.V.Text(cs.S))
	}
	bad := directCheck(cs, o, r.res)
	if hasStatic(cs.S) {
		r.processStatic(cs, o, toCoq || (bad && len(r.res.Violations) <= 20))
	} else if toCoq || (bad && len(r.res.Violations) <= 20) {
		cf.Add(o.gallina(cs), map[string]interface{}{"shape": cs.S, "value": cs.V, "history": cs.H})
		for b, t := range o.Ffmt {
			r.ffmt[b] = t
		}
	}
	if r.total%1499 == 7 {
		r.res.Sample(map[string]interface{}{"go_type": cs.S.String(), "go_value": cs.V.Text(cs.S), "pcore_type": o.TypeText,
			"wrapped": o.Wrapped, "accepted": o.Inst, "deep_equal_after_round_trip": o.Deep})
	}
}

func main() {
	cfg := lib.ParseFlags()
	res := lib.NewResult("C18")
	res.Rule = rule
	rng := lib.NewRng(cfg.Seed)
	r := &runner{cfg: cfg, res: res, ffmt: map[uint64]string{}}
	if cfg.Replay != "" {
		replay(r)
		res.Write(cfg)
		return
	}
	// sizes
	capPerShape, coqExh, nRandom, coqRandom, nStruct, coqStruct := 14, 1000, 12000, 900, 6000, 800
	if cfg.Thorough() {
		capPerShape, coqExh, nRandom, coqRandom, nStruct, coqStruct = 40, 6000, 400000, 9000, 150000, 6000
	}
	// 1. corpus + bounded-exhaustive
	cf := newCasesFile()
	for _, cs := range corpus() {
		cs.Family = "corpus"
		nameStructs(cs)
		r.process(cs, true, cf)
	}
	var exh []*Case
	for _, s := range exhaustiveShapes(cfg.Thorough()) {
		vs := boundaryValues(s, capPerShape)
		for i, v := range vs {
			cs := &Case{S: s, V: v, Family: "exhaustive"}
			// the used destination: it held the fullest value of the shape (the last one: all keys / most elements), then
			// (for every other case) the neighbouring boundary value
			cs.H = []*Val{vs[len(vs)-1]}
			if i%2 == 1 {
				cs.H = append(cs.H, vs[(i+len(vs)-1)%len(vs)])
			}
			exh = append(exh, cs)
		}
	}
	stride := len(exh)/coqExh + 1
	off := int(cfg.Seed % uint64(stride))
	for i, cs := range exh {
		// shapes are shared between cases: name on a copy
		c2 := cloneCase(cs)
		nameStructs(c2)
		r.process(c2, i%stride == off, cf)
		cf = r.flush(cf, "cases_exhaustive")
	}
	res.Extra["exhaustive_cases"] = len(exh)
	r.finish(cf, "cases_exhaustive")
	// 2. random shapes and values
	cf = newCasesFile()
	for i := 0; i < nRandom; i++ {
		r.process(randCase(rng.Fork(), "random"), i < coqRandom, cf)
		cf = r.flush(cf, "cases_random")
	}
	r.finish(cf, "cases_random")
	// 3. random structs (the struct <-> object clause)
	cf = newCasesFile()
	for i := 0; i < nStruct; i++ {
		r.process(randCase(rng.Fork(), "struct"), i < coqStruct, cf)
		cf = r.flush(cf, "cases_struct")
	}
	r.finish(cf, "cases_struct")
	// 4. statically declared Go types (defined scalar / slice / map types, structs with embedded structs)
	capStatic, nRandStatic := 16, 6
	if cfg.Thorough() {
		capStatic, nRandStatic = 60, 200
	}
	r.ncf = newNamedCasesFile()
	nst := 0
	for _, s := range staticShapes() {
		vs := boundaryValues(s, capStatic)
		for i, v := range vs {
			cs := &Case{S: s, V: v, Family: "static"}
			cs.H = []*Val{vs[len(vs)-1]}
			if i%2 == 1 {
				cs.H = append(cs.H, vs[(i+len(vs)-1)%len(vs)])
			}
			c2 := cloneCase(cs)
			nameStructs(c2)
			r.process(c2, (nst+int(cfg.Seed))%3 == 0 || cfg.Thorough(), nil)
			nst++
		}
		for i := 0; i < nRandStatic; i++ {
			g := rng.Fork()
			m := genMode{clean: g.Chance(7, 10)}
			cs := &Case{S: s, V: randVal(g, s, m, 0), Family: "static"}
			for n := 1 + g.Intn(3); n > 0; n-- {
				cs.H = append(cs.H, randVal(g, s, m, 0))
			}
			c2 := cloneCase(cs)
			nameStructs(c2)
			r.process(c2, i < 1 || (cfg.Thorough() && i < 20), nil)
			nst++
		}
	}
	res.Extra["static_cases"] = nst
	// 5. type sets: Reflector.TypeSetFromReflect over lists of the static struct types in every order (typeset.go)
	specs := tsSpecs(rng.Fork(), cfg.Thorough())
	nts := 0
	for li, t := range specs {
		for ci, cs := range tsCases(rng.Fork(), t, 2) {
			r.process(cs, (li+ci+int(cfg.Seed))%7 == 0, nil)
			nts++
		}
	}
	res.Extra["typeset_lists"] = len(specs)
	res.Extra["typeset_cases"] = nts
	r.finishStatic()
	res.Write(cfg)
}

func cloneCase(cs *Case) *Case {
	b, err := json.Marshal(cs)
	if err != nil {
		panic(err)
	}
	c2 := &Case{}
	if err := json.Unmarshal(b, c2); err != nil {
		panic(err)
	}
	return c2
}

// replay re-runs exactly the recorded input(s) on the current implementation, prints what happens and
// emits the same case(s) for the model.
func replay(r *runner) {
	cf := newCasesFile()
	r.ncf = newNamedCasesFile()
	for _, in := range lib.ReplayInputs(r.cfg.Replay) {
		cs := &Case{}
		lib.Remarshal(in, cs)
		if cs.S == nil || cs.V == nil {
			continue
		}
		cs.Family = "replay"
		o := runCase(cs)
		fmt.Printf("Go type    : %s\nGo value   : %s\n", cs.S.String(), cs.V.Text(cs.S))
		if cs.TS != nil {
			fmt.Printf("type set   : %s\n", cs.TS.text())
			for _, d := range o.TSet {
				fmt.Printf("             %s => %s parent=%q own attributes %v constructor attributes %v\n", d.Key, d.Name, d.Parent, d.Own, d.All)
			}
		}
		if o.RegErr != "" {
			fmt.Printf("deriving the object types fails: %s %s\n", o.RegErr, o.RegText)
		}
		fmt.Printf("pcore type : %s %s\nwrapped    : %s %s\naccepted   : %v\n", o.TypeErr, o.TypeText, o.WrapErr+o.WrapText, o.Wrapped, o.Inst)
		fmt.Printf("back       : %s %s %s\ndeep equal : %v\n", o.BackErr, o.BackText, backText(cs.S, o.Back), o.Deep)
		if o.Used {
			fmt.Printf("used dest  : held %s\n             after ReflectTo: %s %s %s equal=%v\n", histText(cs), o.UsedErr, o.UsedText, backText(cs.S, o.UsedBack), o.UsedDeep)
		}
		if ob := o.Obj; ob != nil {
			fmt.Printf("attributes : %v\ninit hash  : %s %s\nnew(hash)  : %s %s %s equal=%v\nnew(pos)   : %s %s %s equal=%v\n", ob.Attrs, ob.HashErr, ob.InitHash,
				ob.NewHErr, ob.NewHText, backText(cs.S, ob.NewHBack), ob.NewHDeep, ob.NewPErr, ob.NewPText, backText(cs.S, ob.NewPBack), ob.NewPDeep)
			if ob.TrimArgs != "" {
				fmt.Printf("new(pos without trailing defaults %s): %s %s %s equal=%v\n", ob.TrimArgs, ob.NewTErr, ob.NewTText, backText(cs.S, ob.NewTBack), ob.NewTDeep)
			}
			if ob.NewHUsed {
				fmt.Printf("new(hash) into a used destination: %s %s %s equal=%v\n", ob.NewHUsedErr, ob.NewHUsedText, backText(cs.S, ob.NewHUsedBack), ob.NewHUsedDeep)
			}
		}
		n := len(r.res.Violations)
		r.process(cs, true, cf)
		for _, v := range r.res.Violations[n:] {
			fmt.Printf("FAILS %s: %s (tags %v)\n", v.Clause, v.What, v.Tags)
		}
		if len(r.res.Violations) == n {
			fmt.Println("the implementation satisfies the three clauses of C18 on this input")
		}
	}
	writeCases(r, cf, "cases_replay")
	if len(r.ncf.Cases) > 0 {
		r.finishStatic()
	}
}
