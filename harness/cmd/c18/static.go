package main

// Statically declared Go types.  reflect.SliceOf/MapOf/PtrTo/StructOf only assemble UNNAMED types from unnamed parts;
// the property speaks of every Go value of a reflectable shape, and a program hands the bridge its own defined types:
// defined scalar types (type Port uint16), defined slice and map types (net.IP, type Blob []byte), slices of defined
// scalars ([]Octet), and structs that embed other structs (first = the Go rendering of a parent type, or further down
// = an ordinary field named after the type).  The bridge decides by reflect.Kind in most places and by exact type
// identity in a few (the type switch of wrap, the wellKnown table, reflect.Value.Set of a *T): the two kinds of test
// only differ on defined types.
//
// A Shape whose G is set stands for the defined type registered here under that key; its K/E/Key/F describe the
// underlying type, so that values are built, read back, compared and printed exactly as for the assembled types.

import (
	"fmt"
	"net"
	"reflect"
	"sort"

	"verifharness/lib"
)

type (
	SOctet uint8
	SCount int
	SSmall int8
	SWide  uint64
	SPort  uint16
	SLabel string
	SFlag  bool
	SRatio float64
	SR32   float32

	SBlob   []byte
	SInts   []int
	SLabels []string
	SAnys   []interface{}
	SOctets []SOctet
	SPorts  []uint16

	SStrMap  map[string]string
	SAttrs   map[string]interface{}
	SByLabel map[SLabel]SOctet
	SCounts  map[string]int32
)

type SLimits struct {
	Max int16
	Min int16
}

type SMeta struct {
	Owner  string
	Labels map[string]string
	Rev    *uint32
}

// embedded struct in last position
type SItem struct {
	Name  string
	Count *int
	SMeta
}

// embedded structs in the middle, one of them by pointer
type SJob struct {
	Id int64
	SLimits
	Tags []string
	*SMeta
	Done bool
}

// embedded first field: with a declared parent type it is the parent, without one it is a field like any other
type SChild struct {
	SLimits
	Name string
}

// two levels of embedded first fields
type SGrand struct {
	SChild
	Extra *SLabel
}

// embedded first AND last
type SBoth struct {
	SLimits
	Note string
	SMeta
}

// the same structs as named fields
type SPlain struct {
	Name string
	Meta SMeta
	Lim  *SLimits
}

// fields of defined scalar, slice and map types, pointers to them
type SHost struct {
	Name  SLabel
	Addr  net.IP
	Key   SBlob
	Mask  []SOctet
	Raw   []byte
	Ports []SPort
	Alt   map[string]net.IP
	Up    *SFlag
	Load  *SRatio
	N     *SCount
	Tag   *SLabel
	W     SWide
	F     SR32
}

type SOpt struct {
	A *SOctet
	B *SSmall
	C *SR32
	D *SBlob
	E *SStrMap
	F *bool
	G *SFlag
}

// a second child of SLimits (several children of one base)
type STag struct {
	SLimits
	Port *uint16
	Tags []string
}

// a child of another base
type SOwned struct {
	SMeta
	N int8
}

// a second grandchild of SLimits
type SGrand2 struct {
	SChild
	F float32
	B bool
}

// unrelated plain structs: no embedded field, no parent
type SLoose struct {
	Addr  string
	Port  *uint16
	Ratio float32
	Tags  []string
}

type SGroup struct {
	Label   string
	Members []*SLoose
	Lookup  map[string]int8
}

// embedded first field that is NOT a struct (a pointer to one, a defined scalar): never a parent, a field like any other
type SLink struct {
	*SMeta
	K string
}

type SNamed struct {
	SLabel
	N int8
}

var staticTypes = map[string]reflect.Type{}

// the defined types, in a fixed order
var staticRoots = []reflect.Type{
	reflect.TypeOf(SOctet(0)), reflect.TypeOf(SCount(0)), reflect.TypeOf(SSmall(0)), reflect.TypeOf(SWide(0)), reflect.TypeOf(SPort(0)),
	reflect.TypeOf(SLabel("")), reflect.TypeOf(SFlag(false)), reflect.TypeOf(SRatio(0)), reflect.TypeOf(SR32(0)),
	reflect.TypeOf(SBlob(nil)), reflect.TypeOf(net.IP(nil)), reflect.TypeOf(SInts(nil)), reflect.TypeOf(SLabels(nil)), reflect.TypeOf(SAnys(nil)),
	reflect.TypeOf(SOctets(nil)), reflect.TypeOf(SPorts(nil)),
	reflect.TypeOf(SStrMap(nil)), reflect.TypeOf(SAttrs(nil)), reflect.TypeOf(SByLabel(nil)), reflect.TypeOf(SCounts(nil)),
	reflect.TypeOf(SLimits{}), reflect.TypeOf(SMeta{}), reflect.TypeOf(SItem{}), reflect.TypeOf(SJob{}), reflect.TypeOf(SChild{}),
	reflect.TypeOf(SGrand{}), reflect.TypeOf(SBoth{}), reflect.TypeOf(SPlain{}), reflect.TypeOf(SHost{}), reflect.TypeOf(SOpt{}),
	reflect.TypeOf(STag{}), reflect.TypeOf(SOwned{}), reflect.TypeOf(SGrand2{}), reflect.TypeOf(SLoose{}), reflect.TypeOf(SGroup{}),
	reflect.TypeOf(SLink{}), reflect.TypeOf(SNamed{}),
}

func init() {
	for _, t := range staticRoots {
		staticTypes[t.String()] = t
	}
}

var kindNames = map[reflect.Kind]string{
	reflect.Int: "int", reflect.Int8: "int8", reflect.Int16: "int16", reflect.Int32: "int32", reflect.Int64: "int64",
	reflect.Uint: "uint", reflect.Uint8: "uint8", reflect.Uint16: "uint16", reflect.Uint32: "uint32", reflect.Uint64: "uint64",
	reflect.Float32: "float32", reflect.Float64: "float64", reflect.String: "string", reflect.Bool: "bool",
}

// shapeOfStatic derives the shape of a Go type that may contain defined types.
func shapeOfStatic(t reflect.Type) *Shape {
	var s *Shape
	if k, ok := kindNames[t.Kind()]; ok {
		s = &Shape{K: k}
	} else {
		switch t.Kind() {
		case reflect.Slice:
			s = &Shape{K: "slice", E: shapeOfStatic(t.Elem())}
		case reflect.Map:
			s = &Shape{K: "map", Key: shapeOfStatic(t.Key()), E: shapeOfStatic(t.Elem())}
		case reflect.Ptr:
			s = &Shape{K: "ptr", E: shapeOfStatic(t.Elem())}
		case reflect.Interface:
			s = &Shape{K: "iface"}
		case reflect.Struct:
			s = &Shape{K: "struct"}
			for i := 0; i < t.NumField(); i++ {
				f := t.Field(i)
				s.F = append(s.F, Field{Name: f.Name, T: shapeOfStatic(f.Type), Emb: f.Anonymous})
			}
		default:
			panic("static type of unsupported kind " + t.String())
		}
	}
	if t.PkgPath() != "" {
		if _, ok := staticTypes[t.String()]; !ok {
			panic("static type not registered: " + t.String())
		}
		s.G = t.String()
	}
	return s
}

func staticShape(key string) *Shape { return shapeOfStatic(staticTypes[key]) }

// hasStatic: does the shape contain a defined type?
func hasStatic(s *Shape) bool {
	if s == nil {
		return false
	}
	if s.G != "" || hasStatic(s.E) || hasStatic(s.Key) {
		return true
	}
	for i := range s.F {
		if hasStatic(s.F[i].T) {
			return true
		}
	}
	return false
}

// withParent: the struct shape with its embedded first field declared as the parent type
func withParent(s *Shape) *Shape {
	c := *s
	c.P = true
	return &c
}

// parentsDeclared: every struct with an embedded first struct field, at every depth, declares it as its parent
func parentsDeclared(s *Shape) *Shape {
	if s == nil {
		return nil
	}
	c := *s
	c.E, c.Key = parentsDeclared(s.E), parentsDeclared(s.Key)
	c.F = append([]Field(nil), s.F...)
	for i := range c.F {
		c.F[i].T = parentsDeclared(c.F[i].T)
	}
	if c.K == "struct" && len(c.F) > 0 && c.F[0].Emb && c.F[0].T.K == "struct" {
		c.P = true
	}
	return &c
}

// staticShapes: the family of shapes over the defined types: each of them bare, behind a pointer, as slice element, as
// map value (and key, for the scalars); the structs also with their embedded first fields declared as parents.
func staticShapes() []*Shape {
	var out []*Shape
	keys := make([]string, 0, len(staticTypes))
	for k := range staticTypes {
		keys = append(keys, k)
	}
	sort.Strings(keys)
	for _, k := range keys {
		s := staticShape(k)
		variants := []*Shape{s}
		if s.K == "struct" {
			if p := parentsDeclared(s); structKey(p) != structKey(s) {
				variants = append(variants, p)
			}
		}
		for _, v := range variants {
			out = append(out, v, ptrTo(v), sliceOf(v), mapOf(sh("string"), v))
			if isScalarKind(v.K) {
				out = append(out, mapOf(v, sh("string")), mapOf(v, v), sliceOf(ptrTo(v)))
			}
			if v.K == "slice" || v.K == "map" {
				out = append(out, sliceOf(sliceOf(v)), mapOf(sh("uint8"), v), ptrTo(sliceOf(v)))
			}
		}
	}
	return out
}

// structKey tells struct shapes apart: the Go type and which embedded first fields are declared as parents.
func structKey(s *Shape) string {
	k := ""
	var visit func(s *Shape)
	visit = func(s *Shape) {
		if s == nil {
			return
		}
		if s.K == "struct" {
			k += s.G
			if s.P {
				k += "+P"
			}
			k += ";"
		}
		visit(s.E)
		visit(s.Key)
		for i := range s.F {
			visit(s.F[i].T)
		}
	}
	visit(s)
	return k
}

// ---- the cases of the static family for the model (Model/ReflectNamed.v, Corr/CorrC18.v ncase)

func newNamedCasesFile() *lib.CasesFile {
	return &lib.CasesFile{Imports: []string{"Model.Base", "Model.Reflect", "Model.ReflectNamed", "Model.ReflectTypeSet", "Corr.CorrC18"}, Typ: "ncase",
		Obligations: map[string]string{"reflect_named_model": "c18n_mismatches ffmt_table cases"}}
}

// Mask: which nodes of the shape are defined types (nmask of Model/ReflectNamed.v).
func (s *Shape) Mask() string {
	var subs []string
	switch s.K {
	case "slice", "ptr":
		subs = []string{s.E.Mask()}
	case "map":
		subs = []string{s.Key.Mask(), s.E.Mask()}
	case "struct":
		for i := range s.F {
			subs = append(subs, s.F[i].T.Mask())
		}
	}
	// a struct is kept as it is (reflectedObject): its name never decides anything
	return "(NM " + lib.GBool(s.G != "" && s.K != "struct") + " " + lib.GList(subs, "nmask") + ")"
}

func (r *runner) processStatic(cs *Case, o *Obs, toCoq bool) {
	if r.ncf == nil || o.RegErr != "" {
		return
	}
	input := map[string]interface{}{"shape": cs.S, "value": cs.V, "history": cs.H}
	if cs.TS != nil {
		input["typeset"] = cs.TS
		// the argument list and the entries of the type set, once per list (always: the list is the input)
		if r.tsSeen == nil {
			r.tsSeen = map[string]bool{}
		}
		if k := cs.TS.key(); !r.tsSeen[k] && o.TSet != nil {
			r.tsSeen[k] = true
			r.ncf.Add(tsCaseTerm(cs.TS, o.TSet), input)
		}
	}
	if !toCoq || o.WrapErr != "" {
		return
	}
	back := "GVOutside"
	if o.BackErr == "" && !o.BackOutside && o.Back != nil {
		back = o.Back.Gallina(cs.S)
	}
	r.ncf.Add("NCase "+cs.S.Gallina()+" "+cs.S.Mask()+"\n     "+cs.V.Gallina(cs.S)+"\n     "+resTerm(o.TypeErr, o.Type)+" "+
		resTerm(o.WrapErr, o.Wrapped)+" "+lib.GBool(o.Inst)+" "+resTerm(o.BackErr, back), input)
	for b, t := range o.Ffmt {
		r.ffmt[b] = t
	}
	if o.Own != nil && !r.acSeen[structKey(cs.S)] {
		if r.acSeen == nil {
			r.acSeen = map[string]bool{}
		}
		r.acSeen[structKey(cs.S)] = true
		ss := cs.S
		if ss.K == "ptr" {
			ss = ss.E
		}
		fs := make([]string, len(ss.F))
		for i := range ss.F {
			fs[i] = lib.GPair(lib.GStr(ss.F[i].Name), lib.GBool(ss.F[i].Emb))
		}
		own := make([]string, len(o.Own))
		for i, a := range o.Own {
			own[i] = lib.GStr(a)
		}
		r.ncf.Add("ACase "+lib.GBool(ss.P)+" "+lib.GList(fs, "str * bool")+" "+lib.GList(own, "str"), input)
	}
}

func (r *runner) finishStatic() {
	if r.ncf == nil {
		return
	}
	// thorough tier: shards of at most maxCasesPerFile cases
	all := r.ncf
	// shards of equal size, at most maxCasesPerFile (quick tier: two files of ~850 cases, checked in parallel)
	const quickShard = 900
	nShards := (len(all.Cases) + quickShard - 1) / quickShard
	if len(all.Cases) > 4*quickShard {
		nShards = (len(all.Cases) + maxCasesPerFile - 1) / maxCasesPerFile
	}
	if nShards < 1 {
		nShards = 1
	}
	per := (len(all.Cases) + nShards - 1) / nShards
	if per < 1 {
		per = 1
	}
	for i := 0; i == 0 || i < len(all.Cases); i += per {
		j := i + per
		if j > len(all.Cases) {
			j = len(all.Cases)
		}
		part := newNamedCasesFile()
		part.Cases, part.Inputs = all.Cases[i:j], all.Inputs[i:j]
		name := "cases_static"
		if nShards > 1 {
			name = fmt.Sprintf("cases_static_p%d", i/per)
		}
		ff := r.ffmt
		r.shard = 0
		writeCases(r, part, name)
		r.ffmt = ff
	}
	r.ffmt = map[uint64]string{}
}
