package main

// Family typeset: the second entry point for struct types, Reflector.TypeSetFromReflect(name, version, aliases, rTypes...)
// (types/reflector.go:426).  It derives one object type per struct of its argument list; the only things it decides
// itself are the name of each type and its parent (the type named after an embedded first struct field), the rest is
// TypeFromReflect of that one struct.  So every member of the resulting type set must be what the struct ALONE says:
// the parent, the attributes the type declares itself (= the struct's own Go fields), instances that convert back to
// equal structs, a creator that accepts the init hash of the type's own instances - whatever else is in the list and
// in whatever order the list is given.
//
// A case of this family is a Case whose TS field holds the argument list; its shape is one member of the list (bare or
// behind a pointer) with the type names of the type set.  runCase derives the object types through the type set
// instead of one TypeFromReflect per struct, then evaluates the three clauses as for every other case, and on top:
//   - D: per member, parent and own attributes against the struct's Go fields (reflect), against TypeFromReflect of the
//     same struct (separate context) and against the type set derived from the same structs in another order;
//   - M: the list and the observed entries against typeset_entries of Model/ReflectTypeSet.v (TCase).

import (
	"fmt"
	"reflect"
	"sort"
	"strings"

	"github.com/lyraproj/pcore/pcore"
	"github.com/lyraproj/pcore/px"
	"github.com/lyraproj/semver/semver"

	"verifharness/lib"
)

// TSItem: one argument of TypeSetFromReflect: the static struct type G, handed over as struct type or as pointer to it.
type TSItem struct {
	G   string `json:"g"`
	Ptr bool   `json:"ptr,omitempty"`
}

type TSpec struct {
	Name    string            `json:"name"`
	Items   []TSItem          `json:"items"`
	Aliases map[string]string `json:"aliases,omitempty"`
}

// TSObs: one entry of the type set as observed.
type TSObs struct {
	Key    string   // key of the entry in Types()
	Name   string   // name of the object type
	Parent string   // name of its parent, "" when it has none
	Own    []string // the attributes the type declares itself, in declaration order
	All    []string // all attributes in positional (constructor) order
}

func (t *TSpec) typeName(goName string) string {
	if a, ok := t.Aliases[goName]; ok {
		goName = a
	}
	return t.Name + "::" + goName
}

func (t *TSpec) rTypes() []reflect.Type {
	out := make([]reflect.Type, len(t.Items))
	for i, it := range t.Items {
		out[i] = staticTypes[it.G]
		if it.Ptr {
			out[i] = reflect.PtrTo(out[i])
		}
	}
	return out
}

func (t *TSpec) text() string {
	parts := make([]string, len(t.Items))
	for i, it := range t.Items {
		parts[i] = staticTypes[it.G].Name()
		if it.Ptr {
			parts[i] = "*" + parts[i]
		}
	}
	al := ""
	if len(t.Aliases) > 0 {
		ks := make([]string, 0, len(t.Aliases))
		for k, v := range t.Aliases {
			ks = append(ks, k+"=>"+v)
		}
		sort.Strings(ks)
		al = " aliases " + strings.Join(ks, ",")
	}
	return "TypeSetFromReflect(" + t.Name + al + "; " + strings.Join(parts, ", ") + ")"
}

// tsShape: the shape of the member G of the type set: every embedded first struct field is a declared parent, the
// struct types carry the names of the type set.
func tsShape(t *TSpec, g string) *Shape {
	s := parentsDeclared(staticShape(g))
	var visit func(s *Shape)
	visit = func(s *Shape) {
		if s == nil {
			return
		}
		visit(s.E)
		visit(s.Key)
		for i := range s.F {
			visit(s.F[i].T)
		}
		if s.K == "struct" {
			s.N = t.typeName(staticTypes[s.G].Name())
		}
	}
	visit(s)
	return s
}

// ---- what a struct says by itself (package reflect only: the reference of D)

// structDeps: the struct type of an embedded first struct field (the parent) and the named struct types the other
// fields mention (their object types must exist when the struct is derived).
func structDeps(rt reflect.Type) (parent reflect.Type, fields []reflect.Type) {
	var walk func(t reflect.Type)
	walk = func(t reflect.Type) {
		switch t.Kind() {
		case reflect.Ptr, reflect.Slice:
			walk(t.Elem())
		case reflect.Map:
			walk(t.Key())
			walk(t.Elem())
		case reflect.Struct:
			if t != rt {
				fields = append(fields, t)
			}
		}
	}
	for i := 0; i < rt.NumField(); i++ {
		f := rt.Field(i)
		if i == 0 && f.Anonymous && f.Type.Kind() == reflect.Struct {
			parent = f.Type
			continue
		}
		walk(f.Type)
	}
	return
}

func lowerFirst(s string) string {
	if s != "" && s[0] >= 'A' && s[0] <= 'Z' {
		return string(s[0]+32) + s[1:]
	}
	return s
}

// ownFields: the Go fields of the struct that are its own (not the embedded first struct field), as attribute names.
func ownFields(rt reflect.Type) []string {
	out := []string{}
	for i := 0; i < rt.NumField(); i++ {
		f := rt.Field(i)
		if i == 0 && f.Anonymous && f.Type.Kind() == reflect.Struct {
			continue
		}
		if f.PkgPath != "" {
			continue
		}
		out = append(out, lowerFirst(f.Name))
	}
	return out
}

// closure adds the parents and the field struct types, transitively.
func tsClosure(gs []string) []string {
	seen := map[string]bool{}
	var out []string
	var add func(g string)
	add = func(g string) {
		if seen[g] {
			return
		}
		seen[g] = true
		p, fs := structDeps(staticTypes[g])
		if p != nil {
			add(p.String())
		}
		for _, f := range fs {
			add(f.String())
		}
		out = append(out, g)
	}
	for _, g := range gs {
		add(g)
	}
	return out
}

// validOrder: a struct mentioned by a field of another one stands before it (WrapReflectedType of the field needs the
// registered type); a parent may stand anywhere (it is a type reference, resolved when the type set is added).
func validOrder(gs []string) bool {
	pos := map[string]int{}
	for i, g := range gs {
		pos[g] = i
	}
	for i, g := range gs {
		_, fs := structDeps(staticTypes[g])
		for _, f := range fs {
			if j, ok := pos[f.String()]; !ok || j > i {
				return false
			}
		}
	}
	return true
}

// canonicalOrder: parents and field types first, ties by name.
func canonicalOrder(gs []string) []string {
	sorted := append([]string(nil), gs...)
	sort.Strings(sorted)
	in := map[string]bool{}
	for _, g := range sorted {
		in[g] = true
	}
	seen := map[string]bool{}
	var out []string
	var add func(g string)
	add = func(g string) {
		if seen[g] || !in[g] {
			return
		}
		seen[g] = true
		p, fs := structDeps(staticTypes[g])
		if p != nil {
			add(p.String())
		}
		for _, f := range fs {
			add(f.String())
		}
		out = append(out, g)
	}
	for _, g := range sorted {
		add(g)
	}
	return out
}

func permutations(gs []string) [][]string {
	if len(gs) <= 1 {
		return [][]string{append([]string(nil), gs...)}
	}
	var out [][]string
	for i := range gs {
		rest := append(append([]string(nil), gs[:i]...), gs[i+1:]...)
		for _, p := range permutations(rest) {
			out = append(out, append([]string{gs[i]}, p...))
		}
	}
	return out
}

var tsPool = []string{"main.SLimits", "main.SMeta", "main.SItem", "main.SJob", "main.SChild", "main.SGrand", "main.SBoth", "main.SPlain",
	"main.SHost", "main.SOpt", "main.STag", "main.SOwned", "main.SGrand2", "main.SLoose", "main.SGroup", "main.SLink", "main.SNamed"}

// tsSpecs: the argument lists.  (a) small sets in EVERY valid order: base + child + plain structs, several children of
// one base, grandchildren, unrelated structs in between and at the end; (b) seeded random closed subsets of the pool in
// a random valid order, members handed over as struct type or pointer, with and without aliases, plain and nested
// type set names.
func tsSpecs(rng *lib.Rng, thorough bool) []*TSpec {
	var out []*TSpec
	sets := [][]string{
		{"main.SLimits", "main.SChild", "main.SLoose"},
		{"main.SLimits", "main.SChild", "main.STag", "main.SMeta"},
		{"main.SLimits", "main.SChild", "main.SGrand", "main.SLoose", "main.SGroup"},
		{"main.SMeta", "main.SOwned", "main.SLink", "main.SNamed"},
	}
	if thorough {
		sets = append(sets, []string{"main.SLimits", "main.SMeta", "main.SOwned", "main.SBoth", "main.SOpt"},
			[]string{"main.SLimits", "main.SChild", "main.SGrand", "main.SGrand2", "main.STag", "main.SHost"})
	}
	for si, set := range sets {
		for pi, p := range permutations(set) {
			if !validOrder(p) {
				continue
			}
			t := &TSpec{Name: "TS"}
			for i, g := range p {
				t.Items = append(t.Items, TSItem{G: g, Ptr: (si+pi+i)%3 == 0})
			}
			out = append(out, t)
		}
	}
	nRandom := 110
	if thorough {
		nRandom = 1500
	}
	for n := 0; n < nRandom; n++ {
		g := rng.Fork()
		var pick []string
		for k := 2 + g.Intn(5); k > 0; k-- {
			pick = append(pick, tsPool[g.Intn(len(tsPool))])
		}
		set := tsClosure(pick)
		// a random valid order: among the structs whose field types are placed, any one
		placed := map[string]bool{}
		var order []string
		for len(order) < len(set) {
			var ready []string
			for _, x := range set {
				if placed[x] {
					continue
				}
				_, fs := structDeps(staticTypes[x])
				ok := true
				for _, f := range fs {
					ok = ok && placed[f.String()]
				}
				if ok {
					ready = append(ready, x)
				}
			}
			x := ready[g.Intn(len(ready))]
			placed[x] = true
			order = append(order, x)
		}
		t := &TSpec{Name: "TS"}
		if g.Chance(1, 4) {
			t.Name = "My::Own"
		}
		for _, x := range order {
			t.Items = append(t.Items, TSItem{G: x, Ptr: g.Bool()})
			if g.Chance(1, 5) {
				if t.Aliases == nil {
					t.Aliases = map[string]string{}
				}
				// SLimits => Limits
				t.Aliases[staticTypes[x].Name()] = staticTypes[x].Name()[1:]
			}
		}
		out = append(out, t)
	}
	return out
}

// tsCases: for every member of the list, values of the member type (bare and behind a pointer).
func tsCases(rng *lib.Rng, t *TSpec, perMember int) []*Case {
	var out []*Case
	for mi, it := range t.Items {
		s := tsShape(t, it.G)
		g := rng.Fork()
		if g.Bool() {
			s = ptrTo(s)
		}
		bs := boundaryValues(s, 12)
		for k := 0; k < perMember; k++ {
			m := genMode{clean: g.Chance(7, 10)}
			var v *Val
			if k == 0 {
				v = bs[(mi+len(t.Items))%len(bs)]
			} else {
				v = randVal(g, s, m, 0)
			}
			if s.K == "ptr" && v.Nil {
				v = pv(randVal(g, s.E, m, 0))
			}
			cs := &Case{S: s, V: v, Family: "typeset", TS: t}
			for n := 1 + g.Intn(2); n > 0; n-- {
				cs.H = append(cs.H, randVal(g, s, m, 0))
			}
			out = append(out, cloneCase(cs))
		}
	}
	return out
}

// ---- running

var tsVersion = semver.MustParseVersion("1.0.0")

func describeType(ot px.ObjectType, key string) TSObs {
	d := TSObs{Key: key, Name: ot.Name(), Own: []string{}, All: []string{}}
	if p := ot.Parent(); p != nil {
		d.Parent = p.Name()
	}
	if ih, ok := ot.(interface{ InitHash() px.OrderedMap }); ok {
		if as, ok := ih.InitHash().Get4("attributes"); ok {
			as.(px.OrderedMap).EachKey(func(k px.Value) { d.Own = append(d.Own, k.String()) })
		}
	}
	for _, a := range ot.AttributesInfo().Attributes() {
		d.All = append(d.All, a.Name())
	}
	return d
}

// deriveTypeSet: TypeSetFromReflect of the list, added to the context; the object types by name, and the entries.
func deriveTypeSet(c px.Context, t *TSpec) (map[string]px.ObjectType, []TSObs) {
	ts := c.Reflector().TypeSetFromReflect(t.Name, tsVersion, t.Aliases, t.rTypes()...)
	px.AddTypes(c, ts)
	byName := map[string]px.ObjectType{}
	var obs []TSObs
	ts.Types().EachPair(func(k, v px.Value) {
		ot := v.(px.ObjectType)
		byName[ot.Name()] = ot
		obs = append(obs, describeType(ot, k.String()))
	})
	return byName, obs
}

// tsReference: what TypeFromReflect of each struct alone gives (parents and field types first), in a context of its own.
func tsReference(t *TSpec) (ref map[string]TSObs, errc, text string) {
	ref = map[string]TSObs{}
	gs := make([]string, len(t.Items))
	for i, it := range t.Items {
		gs[i] = it.G
	}
	pcore.Do(func(c px.Context) {
		errc, text = guarded(func() {
			typeOf := map[reflect.Type]px.ObjectType{}
			for _, g := range canonicalOrder(gs) {
				rt := staticTypes[g]
				var parent px.Type
				if p, _ := structDeps(rt); p != nil {
					parent = typeOf[p]
				}
				ot := c.Reflector().TypeFromReflect(t.typeName(rt.Name()), parent, rt)
				px.AddTypes(c, ot)
				typeOf[rt] = ot
				ref[ot.Name()] = describeType(ot, "")
			}
		})
	})
	return
}

// tsOtherOrder: the type set of the same structs in the canonical order (nil when that is the given order).
func tsOtherOrder(t *TSpec) (other map[string]TSObs, errc, text string) {
	gs := make([]string, len(t.Items))
	same := true
	for i, it := range t.Items {
		gs[i] = it.G
	}
	canon := canonicalOrder(gs)
	t2 := &TSpec{Name: t.Name, Aliases: t.Aliases}
	for i, g := range canon {
		same = same && g == gs[i]
		t2.Items = append(t2.Items, TSItem{G: g})
	}
	if same {
		// the given order is the canonical one: take the canonical order with the plain structs moved to the front
		var plain, rest []string
		for _, g := range canon {
			if p, _ := structDeps(staticTypes[g]); p == nil {
				plain = append(plain, g)
			} else {
				rest = append(rest, g)
			}
		}
		t2.Items = nil
		for _, g := range append(plain, rest...) {
			t2.Items = append(t2.Items, TSItem{G: g, Ptr: true})
		}
	}
	other = map[string]TSObs{}
	pcore.Do(func(c px.Context) {
		errc, text = guarded(func() {
			_, obs := deriveTypeSet(c, t2)
			for _, d := range obs {
				other[d.Name] = d
			}
		})
	})
	return
}

// tsDirect: D for the type set itself.
func tsDirect(cs *Case, o *Obs, viol func(clause, what string, tags []string)) {
	t := cs.TS
	if t == nil || o.TSet == nil {
		return
	}
	where := t.text() + ": "
	byName := map[string]TSObs{}
	for _, d := range o.TSet {
		byName[d.Name] = d
	}
	if o.TSRefErr != "" {
		viol("struct-object", where+"TypeFromReflect of the same structs one by one fails: "+o.TSRefErr+" "+o.TSRefText, nil)
	}
	if o.TSOtherErr != "" {
		viol("struct-object", where+"the type set of the same structs in another order cannot be derived: "+o.TSOtherErr+" "+o.TSOtherText, nil)
	}
	for _, it := range t.Items {
		rt := staticTypes[it.G]
		name := t.typeName(rt.Name())
		d, ok := byName[name]
		if !ok {
			viol("struct-object", where+"the type set holds no type "+name, nil)
			continue
		}
		// against the struct itself
		wantParent, why := "", "its struct has no embedded first struct field"
		if p, _ := structDeps(rt); p != nil {
			wantParent, why = t.typeName(p.Name()), "its struct embeds "+p.Name()+" as first field"
		}
		if d.Parent != wantParent {
			viol("struct-object", fmt.Sprintf("%s%s has the parent %q, want %q (%s)", where, name, d.Parent, wantParent, why), nil)
		}
		if own := ownFields(rt); !reflect.DeepEqual(d.Own, own) {
			viol("struct-object", fmt.Sprintf("%s%s declares the attributes %v, the own Go fields of its struct are %v", where, name, d.Own, own), nil)
		}
		// against TypeFromReflect of the same struct
		if r, ok := o.TSRef[name]; ok && (r.Parent != d.Parent || !reflect.DeepEqual(r.Own, d.Own) || !reflect.DeepEqual(r.All, d.All)) {
			viol("struct-object", fmt.Sprintf("%s%s is {parent %q, own attributes %v, constructor attributes %v}, TypeFromReflect of the same struct gives {parent %q, own attributes %v, constructor attributes %v}",
				where, name, d.Parent, d.Own, d.All, r.Parent, r.Own, r.All), nil)
		}
		// against the same structs in another order
		if r, ok := o.TSOther[name]; ok && (r.Parent != d.Parent || !reflect.DeepEqual(r.Own, d.Own) || !reflect.DeepEqual(r.All, d.All)) {
			viol("struct-object", fmt.Sprintf("%sthe result depends on the order of the arguments: %s is {parent %q, own attributes %v, constructor attributes %v}, with the same structs in another order {parent %q, own attributes %v, constructor attributes %v}",
				where, name, d.Parent, d.Own, d.All, r.Parent, r.Own, r.All), nil)
		} else if !ok && o.TSOtherErr == "" {
			viol("struct-object", where+"the type set of the same structs in another order holds no type "+name, nil)
		}
	}
	if len(o.TSet) != len(t.Items) {
		viol("struct-object", fmt.Sprintf("%sthe type set holds %d types for %d structs", where, len(o.TSet), len(t.Items)), nil)
	}
}

// ---- the list and the observed entries for the model (TCase of Corr/CorrC18.v)

func (t *TSpec) key() string { return t.text() }

func tsCaseTerm(t *TSpec, obs []TSObs) string {
	decls := make([]string, len(t.Items))
	for i, it := range t.Items {
		rt := staticTypes[it.G]
		fs := make([]string, rt.NumField())
		for j := range fs {
			f := rt.Field(j)
			ft := f.Type
			if ft.Kind() == reflect.Ptr {
				ft = ft.Elem()
			}
			fs[j] = "(SF " + lib.GStr(f.Name) + " " + lib.GBool(f.Anonymous) + " " + lib.GBool(f.Type.Kind() == reflect.Struct) + " " + lib.GStr(ft.Name()) + ")"
		}
		decls[i] = "(SD " + lib.GStr(rt.Name()) + " " + lib.GList(fs, "sfield") + ")"
	}
	aks := make([]string, 0, len(t.Aliases))
	for k := range t.Aliases {
		aks = append(aks, k)
	}
	sort.Strings(aks)
	als := make([]string, len(aks))
	for i, k := range aks {
		als[i] = lib.GPair(lib.GStr(k), lib.GStr(t.Aliases[k]))
	}
	seen := make([]string, len(obs))
	for i, d := range obs {
		own := make([]string, len(d.Own))
		for j, a := range d.Own {
			own[j] = lib.GStr(a)
		}
		seen[i] = "(TE " + lib.GStr(d.Key) + " " + lib.GStr(d.Name) + " " + gOptStr(d.Parent) + " " + lib.GList(own, "str") + ")"
	}
	return "TCase " + lib.GStr(t.Name) + " " + lib.GList(als, "str * str") + "\n     " + lib.GList(decls, "sdecl") + "\n     " + lib.GList(seen, "tsentry")
}
