package main

// Generators: hand-written corpus, bounded-exhaustive shapes x boundary values, seeded random shapes and values.

import (
	"fmt"
	"math"
	"math/big"
	"strconv"

	"verifharness/lib"
)

func iv(z *big.Int) *Val   { return &Val{I: z.String()} }
func ii(z int64) *Val      { return &Val{I: strconv.FormatInt(z, 10)} }
func fv(f float64) *Val    { return &Val{F: strconv.FormatUint(math.Float64bits(f), 16)} }
func fb(bits uint64) *Val  { return &Val{F: strconv.FormatUint(bits, 16)} }
func sv(s string) *Val     { return &Val{S: []byte(s)} }
func bv(b bool) *Val       { return &Val{B: b} }
func nilv() *Val           { return &Val{Nil: true} }
func lv(es ...*Val) *Val   { return &Val{L: es} }
func pv(e *Val) *Val       { return &Val{L: []*Val{e}} }
func dv(d *Shape, e *Val) *Val { return &Val{D: d, L: []*Val{e}} }
func mv(kvs ...*Val) *Val {
	r := &Val{}
	for i := 0; i+1 < len(kvs); i += 2 {
		r.M = append(r.M, [2]*Val{kvs[i], kvs[i+1]})
	}
	return r
}
func sh(k string) *Shape              { return &Shape{K: k} }
func sliceOf(e *Shape) *Shape         { return &Shape{K: "slice", E: e} }
func ptrTo(e *Shape) *Shape           { return &Shape{K: "ptr", E: e} }
func mapOf(k, e *Shape) *Shape        { return &Shape{K: "map", Key: k, E: e} }
func structOf(fs ...Field) *Shape     { return &Shape{K: "struct", F: fs} }
func fld(n string, t *Shape) Field    { return Field{Name: n, T: t} }
func fldT(n, tn string, t *Shape) Field { return Field{Name: n, TagName: tn, T: t} }
func fldV(n string, t *Shape, l *Lit) Field { return Field{Name: n, T: t, TagValue: l} }
func litI(i int64) *Lit                 { return &Lit{K: "int", I: i} }
func litS(s string) *Lit                { return &Lit{K: "str", S: s} }
func litB(b bool) *Lit                  { return &Lit{K: "bool", B: b} }
func litF(f float64) *Lit               { return &Lit{K: "float", F: strconv.FormatUint(math.Float64bits(f), 16)} }

// default literals for float fields: exact float32 values with a fraction in their decimal text, none of them zero
// (Go identifies -0 and +0, the model's values do not)
var floatDefaults = []float64{0.5, 1.5, -2.25, 100.125, -0.0625}

// nameStructs gives every distinct struct type of the case a name (the same reflect.Type gets the same name).
func nameStructs(cs *Case) {
	names := map[string]string{}
	var visit func(s *Shape)
	visit = func(s *Shape) {
		if s == nil {
			return
		}
		visit(s.E)
		visit(s.Key)
		for i := range s.F {
			visit(s.F[i].T)
		}
		if s.K == "struct" {
			key := s.RType().String()
			if s.P {
				key += "+P"
			}
			n, ok := names[key]
			if !ok {
				n = fmt.Sprintf("C18::T%d", len(names))
				names[key] = n
			}
			s.N = n
		}
	}
	var visitVal func(v *Val)
	visitVal = func(v *Val) {
		if v == nil {
			return
		}
		visit(v.D)
		for _, e := range v.L {
			visitVal(e)
		}
		for _, kv := range v.M {
			visitVal(kv[0])
			visitVal(kv[1])
		}
	}
	visit(cs.S)
	visitVal(cs.V)
}

// ---- boundary values per scalar kind

func intBoundaries(k string) []*Val {
	lo, hi := intRange(k)
	one := big.NewInt(1)
	vs := []*Val{iv(lo), iv(hi), ii(0), ii(1), iv(new(big.Int).Sub(hi, one))}
	if !isUintKind(k) {
		vs = append(vs, ii(-1), iv(new(big.Int).Add(lo, one)))
	}
	if k == "uint" || k == "uint64" {
		vs = append(vs, iv(two63), iv(new(big.Int).Sub(two63, one)))
	}
	return vs
}

var float64Boundaries = []float64{0, math.Copysign(0, -1), 1, -1.5, 0.1, math.MaxFloat64, -math.MaxFloat64, math.SmallestNonzeroFloat64,
	math.MaxFloat32, 1e-300, 123456789.125}
var float32Boundaries = []float64{0, math.Copysign(0, -1), 1, -1.5, float64(float32(0.1)), math.MaxFloat32, -math.MaxFloat32,
	math.SmallestNonzeroFloat32, float64(float32(1e-40)), 16777216}
var nonFinite = []float64{math.Inf(1), math.Inf(-1), math.NaN()}

var stringBoundaries = []string{"", "a", "hello world", "héllo", "\xff\xfe", "a\x00b", "日本", "it's \\ \"q\" $x", "10", "-1"}

func scalarBoundaries(k string, clean bool) []*Val {
	switch {
	case isIntKind(k):
		vs := intBoundaries(k)
		if clean && (k == "uint" || k == "uint64") {
			var r []*Val
			for _, v := range vs {
				if bigOf(v).Cmp(two63) < 0 {
					r = append(r, v)
				}
			}
			return r
		}
		return vs
	case k == "float64" || k == "float32":
		src := float64Boundaries
		if k == "float32" {
			src = float32Boundaries
		}
		var r []*Val
		for _, f := range src {
			r = append(r, fv(f))
		}
		if !clean || k == "float64" {
			// every float64 is inside the property (its type is the unbounded Float type); a non-finite float32 is the
			// input class of the open finding float32-nonfinite
			for _, f := range nonFinite {
				if k == "float32" {
					f = float64(float32(f)) // the exact float64 image of the float32 (NaN: 0x7FF8000000000000)
				}
				r = append(r, fv(f))
			}
		}
		return r
	case k == "string":
		var r []*Val
		for _, s := range stringBoundaries {
			r = append(r, sv(s))
		}
		return r
	case k == "bool":
		return []*Val{bv(false), bv(true)}
	}
	return nil
}

var scalarKinds = []string{"int", "int8", "int16", "int32", "int64", "uint", "uint8", "uint16", "uint32", "uint64", "float32", "float64", "string", "bool"}
var keyKinds = []string{"string", "int", "int8", "int64", "uint16", "uint64", "bool", "float64", "float32", "int32", "uint8", "int16", "uint", "uint32"}

// ---- bounded-exhaustive family

// boundaryValues enumerates a small representative set of values of a shape: every boundary of the scalars,
// nil / empty / one / two elements for the containers.  cap bounds the number per shape.
func boundaryValues(s *Shape, cap int) []*Val {
	var r []*Val
	switch {
	case isScalarKind(s.K):
		r = scalarBoundaries(s.K, false)
	case s.K == "slice":
		es := boundaryValues(s.E, cap)
		r = append(r, nilv(), lv())
		for _, e := range es {
			r = append(r, lv(e))
		}
		if len(es) >= 2 {
			r = append(r, lv(es[0], es[1]), lv(es[len(es)-1], es[0], es[1]))
		}
	case s.K == "ptr":
		r = append(r, nilv())
		for _, e := range boundaryValues(s.E, cap) {
			r = append(r, pv(e))
		}
	case s.K == "map":
		ks := mapKeys(s.Key, boundaryValues(s.Key, cap))
		es := boundaryValues(s.E, cap)
		r = append(r, nilv(), mv())
		for i, e := range es {
			r = append(r, mv(ks[i%len(ks)], e))
		}
		// all keys at once: the order of the entries of the wrapped Hash is the interesting part
		all := &Val{}
		for i, k := range ks {
			all.M = append(all.M, [2]*Val{k, es[i%len(es)]})
		}
		r = append(r, all)
	case s.K == "iface":
		r = append(r, nilv())
		for _, k := range []string{"int64", "float64", "string", "bool", "int", "int8", "uint64", "float32"} {
			for _, e := range scalarBoundaries(k, false) {
				r = append(r, dv(sh(k), e))
			}
		}
	case s.K == "struct":
		// all fields at their i-th boundary value; a field that declares a default has the default as its first
		// value (a pointer field: nil first, then the pointer to the default)
		per := make([][]*Val, len(s.F))
		n := 1
		hasDefault := false
		for i := range s.F {
			per[i] = boundaryValues(s.F[i].T, cap)
			if d := s.F[i].defaultVal(); d != nil {
				hasDefault = true
				if s.F[i].T.K == "ptr" {
					per[i] = append([]*Val{per[i][0], d}, per[i][1:]...)
				} else {
					per[i] = append([]*Val{d}, per[i]...)
				}
			}
			if len(per[i]) > n {
				n = len(per[i])
			}
		}
		row := func(pick func(i int) int) {
			v := &Val{L: make([]*Val, len(s.F))}
			for i := range s.F {
				v.L[i] = per[i][pick(i)%len(per[i])]
			}
			r = append(r, v)
		}
		if hasDefault {
			// mixed rows: one field off / on its default (or nil) while the others stay, so that every prefix of the
			// positional argument list and every subset of init hash entries occurs
			for x := range s.F {
				x := x
				for _, ab := range [][2]int{{0, 1}, {1, 0}, {2, 0}, {0, 2}, {2, 1}, {1, 2}} {
					ab := ab
					row(func(i int) int {
						if i == x {
							return ab[0]
						}
						return ab[1]
					})
				}
			}
		}
		for j := 0; j < n; j++ {
			j := j
			row(func(int) int { return j })
		}
		if len(s.F) == 0 {
			r = []*Val{{L: []*Val{}}}
		}
		if hasDefault && len(r) <= 80 {
			return r
		}
	}
	if cap > 0 && len(r) > cap {
		// keep the first (nil, empty, extremes) and thin out the rest evenly
		keep := r[:cap/2]
		rest := r[cap/2:]
		step := len(rest)/(cap-cap/2) + 1
		for i := 0; i < len(rest); i += step {
			keep = append(keep, rest[i])
		}
		r = keep
	}
	return r
}

// mapKeys removes keys a Go map would identify or cannot hold usefully (NaN; -0 next to +0).
func mapKeys(ks *Shape, vs []*Val) []*Val {
	var r []*Val
	for _, v := range vs {
		if isFloatKind(ks.K) {
			f := math.Float64frombits(fbits(v))
			if f != f {
				continue
			}
			if f == 0 {
				v = fv(0) // Go identifies -0 and +0 as keys; the canonical listing uses +0
			}
		}
		dup := false
		for _, u := range r {
			if valEqual(ks, u, v) {
				dup = true
			}
		}
		if !dup {
			r = append(r, v)
		}
	}
	return r
}

func exhaustiveShapes(thorough bool) []*Shape {
	var base []*Shape
	for _, k := range scalarKinds {
		base = append(base, sh(k))
	}
	out := append([]*Shape(nil), base...)
	var d1 []*Shape
	for _, b := range base {
		d1 = append(d1, sliceOf(b), ptrTo(b), mapOf(sh("string"), b))
	}
	for _, k := range keyKinds {
		d1 = append(d1, mapOf(sh(k), sh("string")), mapOf(sh(k), sh("int16")))
	}
	d1 = append(d1, sliceOf(sh("iface")), mapOf(sh("string"), sh("iface")), mapOf(sh("int"), sh("iface")))
	out = append(out, d1...)
	// depth 2: containers of containers
	inner := []*Shape{sliceOf(sh("int")), sliceOf(sh("int8")), sliceOf(sh("string")), sliceOf(sh("uint8")), sliceOf(sh("float32")),
		ptrTo(sh("int")), ptrTo(sh("string")), ptrTo(sh("uint64")), ptrTo(sh("bool")), ptrTo(sh("float64")),
		mapOf(sh("string"), sh("int")), mapOf(sh("string"), sh("string")), mapOf(sh("int"), sh("bool")), sliceOf(sh("iface")),
		mapOf(sh("string"), sh("iface"))}
	if thorough {
		inner = d1
	}
	for _, in := range inner {
		out = append(out, sliceOf(in), ptrTo(in), mapOf(sh("string"), in))
	}
	// structs over the scalar kinds and one level of containers
	out = append(out,
		structOf(),
		structOf(fld("A", sh("int")), fld("B", sh("string"))),
		structOf(fld("A", sh("int8")), fld("B", sh("uint8")), fld("C", sh("int16")), fld("D", sh("uint16")), fld("E", sh("int32")), fld("F", sh("uint32")), fld("G", sh("int64")), fld("H", sh("uint64")), fld("I", sh("uint")), fld("J", sh("int"))),
		structOf(fld("X", sh("float32")), fld("Y", sh("float64")), fld("S", sh("string")), fld("B", sh("bool"))),
		structOf(fld("A", ptrTo(sh("int"))), fld("B", ptrTo(sh("string"))), fld("C", ptrTo(sh("bool"))), fld("D", ptrTo(sh("float64"))), fld("E", ptrTo(sh("uint8"))), fld("F", ptrTo(sh("float32")))),
		structOf(fld("A", sliceOf(sh("int"))), fld("B", sliceOf(sh("string"))), fld("C", mapOf(sh("string"), sh("int32"))), fld("D", sliceOf(sh("uint8")))),
		structOf(fld("A", ptrTo(sliceOf(sh("int64")))), fld("B", ptrTo(mapOf(sh("string"), sh("int32"))))),
		structOf(fld("Street", sh("string")), fldT("Zip", "zip_code", sh("string"))),
		structOf(Field{Name: "A", T: sh("int"), TagValue: &Lit{K: "int", I: 5}}, fld("B", sh("string")), Field{Name: "C", T: sh("string"), TagValue: &Lit{K: "str", S: "dflt"}}, Field{Name: "D", T: sh("bool"), TagValue: &Lit{K: "bool", B: true}}),
		structOf(fld("P", ptrTo(sh("int"))), fld("Q", sh("int")), fld("R", ptrTo(sh("string"))), fld("S", sh("string"))),
		structOf(fld("I", sh("iface")), fld("J", sliceOf(sh("iface")))),
	)
	// declared defaults, also on pointer fields (optional attributes whose default is not undef) and on every attribute
	endpoint := structOf(fld("Host", sh("string")), fldV("Proto", ptrTo(sh("string")), litS("tcp")), fldV("Port", ptrTo(sh("uint16")), litI(8080)),
		fldV("Ratio", ptrTo(sh("float32")), litF(0.5)), fld("Note", ptrTo(sh("string"))))
	out = append(out,
		endpoint,
		ptrTo(endpoint),
		structOf(fldV("A", ptrTo(sh("int")), litI(5)), fldV("B", ptrTo(sh("bool")), litB(true)), fldV("C", sh("float64"), litF(1.5)), fldV("D", ptrTo(sh("int8")), litI(-3)), fldV("E", ptrTo(sh("string")), litS(""))),
		structOf(fldV("A", sh("int"), litI(5)), fld("R", sh("int16")), fldV("B", ptrTo(sh("string")), litS("x")), fld("O", ptrTo(sh("int")))),
		structOf(fld("Name", sh("string")), fld("Primary", endpoint), fld("Fallback", ptrTo(endpoint)), fld("Others", sliceOf(endpoint))),
		sliceOf(endpoint), mapOf(sh("string"), ptrTo(endpoint)),
	)
	inS := structOf(fld("X", sh("int8")), fldT("Y", "why", ptrTo(sh("string"))))
	out = append(out,
		structOf(fld("A", sh("int")), fld("In", inS), fld("Pin", ptrTo(inS))),
		structOf(fld("S", sliceOf(inS)), fld("M", mapOf(sh("string"), inS)), fld("Ps", sliceOf(ptrTo(inS)))),
		sliceOf(inS), ptrTo(inS), mapOf(sh("string"), inS), sliceOf(ptrTo(inS)), ptrTo(sliceOf(inS)),
		ptrTo(structOf(fld("A", sh("int")), fld("B", ptrTo(sh("int"))))),
	)
	return out
}

// ---- hand-written corpus: the witnesses of the findings and of the fixed defects

func corpus() []*Case {
	max64 := new(big.Int).SetUint64(math.MaxUint64)
	cs := []*Case{
		{S: sh("uint64"), V: iv(max64)},
		{S: sh("uint64"), V: iv(two63)},
		{S: sh("uint"), V: iv(max64)},
		{S: sliceOf(sh("int")), V: nilv()},
		{S: sliceOf(sh("int8")), V: nilv()},
		{S: mapOf(sh("string"), sh("int")), V: nilv()},
		{S: mapOf(sh("string"), sh("string")), V: nilv()},
		{S: sliceOf(sh("uint8")), V: lv(ii(1), ii(2))},
		{S: ptrTo(ptrTo(sh("int"))), V: pv(pv(ii(5)))},
		{S: ptrTo(ptrTo(sh("int"))), V: pv(nilv())},
		{S: ptrTo(sliceOf(sh("int"))), V: pv(nilv())},
		{S: sh("float64"), V: fv(math.Inf(1))},
		{S: sh("float64"), V: fv(math.NaN())},
		{S: sh("float32"), V: fv(float64(float32(math.NaN())))},
		{S: sh("float32"), V: fv(math.Inf(-1))},
		// fixed: [nil] into []interface{} faulted, nil in map[string]interface{} came back as *UndefValue
		{S: sliceOf(sh("iface")), V: lv(dv(sh("int64"), ii(1)), nilv(), dv(sh("string"), sv("a")), dv(sh("float64"), fv(1.5)), dv(sh("bool"), bv(true)))},
		{S: mapOf(sh("string"), sh("iface")), V: mv(sv("a"), nilv(), sv("b"), dv(sh("int64"), ii(1)))},
		// fixed: two unnamed struct types in one context
		{S: structOf(fld("A", structOf(fld("X", sh("int")))), fld("B", structOf(fld("Y", sh("string"))))), V: lv(lv(ii(1)), lv(sv("y")))},
		// key order of the wrapped hash: by the text of the key
		{S: mapOf(sh("int"), sh("string")), V: mv(ii(10), sv("ten"), ii(2), sv("two"), ii(-1), sv("m"), ii(1), sv("one"), ii(-10), sv("mten"))},
		{S: mapOf(sh("string"), sh("int")), V: mv(sv("b"), ii(1), sv("a"), ii(2), sv("B"), ii(3), sv(""), ii(4), sv("ab"), ii(5))},
		{S: sliceOf(sliceOf(sh("int"))), V: lv(nilv(), lv(), lv(ii(1)))},
	}
	return cs
}

// ---- random family

type genMode struct {
	clean bool // avoid every input class of the known findings
}

var fieldNames = []string{"A", "B", "C", "D", "Name", "Zip", "X1", "Abc_d", "URL", "Value"}
var tagNames = []string{"zip_code", "other", "n1", "w_x"}

func randShape(r *lib.Rng, depth int, m genMode, allowStruct bool, pos byte) *Shape {
	if depth <= 0 || r.Chance(2, 5) {
		return sh(scalarKinds[r.Intn(len(scalarKinds))])
	}
	switch r.Intn(10) {
	case 0, 1, 2:
		return sliceOf(randShape(r, depth-1, m, allowStruct, 'W'))
	case 3, 4:
		var k *Shape
		if r.Chance(1, 2) {
			k = sh("string")
		} else {
			k = sh(keyKinds[r.Intn(len(keyKinds))])
		}
		return mapOf(k, randShape(r, depth-1, m, allowStruct, 'W'))
	case 5, 6:
		e := randShape(r, depth-1, m, allowStruct, 'R')
		for e.K == "iface" || (m.clean && e.K == "ptr") {
			e = randShape(r, depth-1, m, allowStruct, 'R')
		}
		return ptrTo(e)
	case 7:
		return sh("iface")
	default:
		if !allowStruct {
			return sh(scalarKinds[r.Intn(len(scalarKinds))])
		}
		return randStruct(r, depth-1, m)
	}
}

func randStruct(r *lib.Rng, depth int, m genMode) *Shape {
	n := r.Intn(5)
	perm := make([]int, len(fieldNames))
	for i := range perm {
		perm[i] = i
	}
	for i := len(perm) - 1; i > 0; i-- {
		j := r.Intn(i + 1)
		perm[i], perm[j] = perm[j], perm[i]
	}
	tp := r.Intn(len(tagNames))
	s := &Shape{K: "struct"}
	for i := 0; i < n; i++ {
		f := Field{Name: fieldNames[perm[i]], T: randShape(r, depth, m, true, 'R')}
		if r.Chance(1, 4) {
			f.TagName = tagNames[(tp+i)%len(tagNames)]
		}
		// a declared default: on a scalar field, or on a pointer to a scalar (an optional attribute whose default is not undef)
		base, chance := f.T, 5
		if base.K == "ptr" && isScalarKind(base.E.K) {
			base, chance = base.E, 2
		}
		if r.Chance(1, chance) {
			switch {
			case isIntKind(base.K):
				z := int64(r.Intn(100))
				if !isUintKind(base.K) && r.Chance(1, 4) {
					z = -z
				}
				f.TagValue = litI(z)
			case base.K == "string":
				f.TagValue = litS([]string{"", "dflt", "x y"}[r.Intn(3)])
			case base.K == "bool":
				f.TagValue = litB(r.Bool())
			case isFloatKind(base.K):
				f.TagValue = litF(floatDefaults[r.Intn(len(floatDefaults))])
			}
		}
		s.F = append(s.F, f)
	}
	return s
}

func randInt(r *lib.Rng, k string, m genMode) *Val {
	bs := scalarBoundaries(k, m.clean)
	if r.Chance(1, 2) {
		return bs[r.Intn(len(bs))]
	}
	lo, hi := intRange(k)
	if m.clean && (k == "uint" || k == "uint64") {
		hi = new(big.Int).Sub(two63, big.NewInt(1))
	}
	if r.Chance(1, 2) {
		// small magnitudes, including the default values used in tags
		z := big.NewInt(int64(r.Intn(200)) - 100)
		if z.Cmp(lo) >= 0 && z.Cmp(hi) <= 0 {
			return iv(z)
		}
	}
	span := new(big.Int).Sub(hi, lo)
	span.Add(span, big.NewInt(1))
	x := new(big.Int).SetUint64(r.Next())
	x.Mod(x, span)
	return iv(x.Add(x, lo))
}

func randFloat(r *lib.Rng, k string, m genMode) *Val {
	bs := scalarBoundaries(k, m.clean)
	if r.Chance(1, 2) {
		return bs[r.Intn(len(bs))]
	}
	for {
		var f float64
		if k == "float32" {
			f = float64(math.Float32frombits(uint32(r.Next())))
		} else {
			f = math.Float64frombits(r.Next())
		}
		if f != f {
			// only the canonical quiet NaN (the hardware may quieten others on float32 <-> float64 conversion)
			f = float64(float32(math.NaN()))
		}
		if m.clean && k == "float32" && (f != f || math.IsInf(f, 0)) {
			continue
		}
		return fv(f)
	}
}

func randString(r *lib.Rng) *Val {
	if r.Chance(2, 3) {
		return sv(stringBoundaries[r.Intn(len(stringBoundaries))])
	}
	n := r.Intn(7)
	b := make([]byte, n)
	for i := range b {
		if r.Chance(3, 4) {
			b[i] = byte('a' + r.Intn(26))
		} else {
			b[i] = byte(r.Next())
		}
	}
	return &Val{S: b}
}

func randScalar(r *lib.Rng, k string, m genMode) *Val {
	switch {
	case isIntKind(k):
		return randInt(r, k, m)
	case isFloatKind(k):
		return randFloat(r, k, m)
	case k == "string":
		return randString(r)
	default:
		return bv(r.Bool())
	}
}

func randVal(r *lib.Rng, s *Shape, m genMode, depth int) *Val {
	if isScalarKind(s.K) {
		return randScalar(r, s.K, m)
	}
	n := r.Intn(4)
	if depth > 3 {
		n = r.Intn(2)
	}
	switch s.K {
	case "slice":
		if !m.clean && r.Chance(1, 6) {
			return nilv()
		}
		v := &Val{L: make([]*Val, n)}
		for i := range v.L {
			v.L[i] = randVal(r, s.E, m, depth+1)
		}
		return v
	case "map":
		if !m.clean && r.Chance(1, 6) {
			return nilv()
		}
		var ks []*Val
		for i := 0; i < n; i++ {
			ks = append(ks, randScalar(r, s.Key.K, genMode{clean: true}))
		}
		ks = mapKeys(s.Key, ks)
		v := &Val{}
		for _, k := range ks {
			v.M = append(v.M, [2]*Val{k, randVal(r, s.E, m, depth+1)})
		}
		return v
	case "ptr":
		if r.Chance(1, 4) {
			return nilv()
		}
		return pv(randVal(r, s.E, m, depth+1))
	case "iface":
		if r.Chance(1, 5) {
			return nilv()
		}
		ks := []string{"int64", "float64", "string", "bool"}
		if !m.clean && r.Chance(1, 3) {
			ks = scalarKinds
		}
		k := ks[r.Intn(len(ks))]
		return dv(sh(k), randScalar(r, k, m))
	case "struct":
		v := &Val{L: make([]*Val, len(s.F))}
		for i := range s.F {
			if d := s.F[i].defaultVal(); d != nil && r.Chance(1, 3) {
				// the declared default itself (left out of the init hash, dropped from the end of the positional list)
				v.L[i] = d
				continue
			}
			v.L[i] = randVal(r, s.F[i].T, m, depth+1)
		}
		return v
	}
	panic("bad shape " + s.K)
}

func randCase(r *lib.Rng, family string) *Case {
	m := genMode{clean: r.Chance(7, 10)}
	var s *Shape
	switch family {
	case "struct":
		s = randStruct(r, 2, m)
		if r.Chance(1, 3) {
			s = ptrTo(s)
		}
	default:
		s = randShape(r, 1+r.Intn(3), m, r.Chance(1, 3), 'W')
		for s.K == "iface" {
			// a value handed to px.Wrap is an interface{} already: the static type interface{} cannot occur at the top
			s = randShape(r, 1+r.Intn(3), m, r.Chance(1, 3), 'W')
		}
	}
	cs := &Case{S: s, V: randVal(r, s, m, 0), Family: family}
	if family == "struct" && cs.V.Nil {
		cs.V = pv(randVal(r, s.E, m, 0))
	}
	// what the destination of the second conversion holds beforehand: 1 to 3 earlier values of the same type
	for n := 1 + r.Intn(3); n > 0; n-- {
		cs.H = append(cs.H, randVal(r, s, m, 0))
	}
	nameStructs(cs)
	return cs
}
