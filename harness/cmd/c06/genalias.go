// Input generator of C06 for the walk over a set of ALIAS declarations, tied to coq/Model/ResolveAlias.v (resolve_all):
// `type T = TypeSet[{.. types => {A => e, B => e', ..}}]` where every e is built from
//
//	Integer                      XCore          a core type
//	A, B, C, U                   XName n        a declared alias (0, 1, 2) or a name that is declared nowhere (U = 9)
//	Array / Optional / NotUndef / Type [e]      XCont1 KArray / KOptional / KNotUndef / KType
//	Hash / Tuple / Variant [e, e']              XCont2 KHash / KTuple / KVariant  (the printer of the model tells them apart)
//	Variant[e]                   XVar1          the member itself
//	A[e], U[e]                   XArgs n e
//	Object[{}], Object[{parent => e}]           XObj0, XObj e     (never the whole expression of a declaration: that
//	                                            declares an Object type, which is another model)
//
// chains, forward references, circles through containers, circles through Variant / aliases only (the code resolves them),
// undeclared names, the alias under resolution as the parent of an Object type in its own expression, parents that are
// resolved on demand from inside another alias. Observed: the class of the outcome and, for a type set, the head of the
// resolved type of every member in the order of declaration (impl.go aliasHeads).
package main

import (
	"fmt"
	"strings"

	"verifharness/lib"
)

type aexpr struct {
	text, term string
	top        bool // may be the whole expression of a declaration
}

var aliasNames = []struct {
	text string
	num  int
}{{"A", 0}, {"B", 1}, {"C", 2}, {"U", 9}}

func aliasAtoms(withC bool) []aexpr {
	as := []aexpr{{"Integer", "XCore", true}}
	for _, n := range aliasNames {
		if n.text == "C" && !withC {
			continue
		}
		as = append(as, aexpr{n.text, fmt.Sprintf("(XName %d%%nat)", n.num), true})
	}
	as = append(as, aexpr{"Object[{}]", "XObj0", false})
	return as
}

func aliasUnary(x aexpr, all bool) []aexpr {
	us := []aexpr{
		{"Array[" + x.text + "]", "(XCont1 KArray " + x.term + ")", true},
		{"Variant[" + x.text + "]", "(XVar1 " + x.term + ")", true},
		{"Object[{parent => " + x.text + "}]", "(XObj " + x.term + ")", false},
	}
	if all {
		us = append(us,
			aexpr{"Optional[" + x.text + "]", "(XCont1 KOptional " + x.term + ")", true},
			aexpr{"NotUndef[" + x.text + "]", "(XCont1 KNotUndef " + x.term + ")", true},
			aexpr{"Type[" + x.text + "]", "(XCont1 KType " + x.term + ")", true},
			aexpr{"A[" + x.text + "]", "(XArgs 0%nat " + x.term + ")", true},
			aexpr{"U[" + x.text + "]", "(XArgs 9%nat " + x.term + ")", true})
	}
	return us
}

func aliasBinary(x, y aexpr, k int) aexpr {
	tn := []string{"Hash", "Tuple", "Variant"}[k%3]
	return aexpr{tn + "[" + x.text + ", " + y.text + "]", "(XCont2 K" + tn + " " + x.term + " " + y.term + ")", true}
}

// aliasPool: expressions of depth <= 2 (depth 3 for the parent forms)
func aliasPool(withC bool) (small, large []aexpr) {
	atoms := aliasAtoms(withC)
	var l1 []aexpr
	for _, a := range atoms {
		l1 = append(l1, aliasUnary(a, true)...)
	}
	k := 0
	for _, a := range atoms {
		for _, b := range atoms {
			if a.text == "Integer" && b.text == "Integer" {
				continue
			}
			l1 = append(l1, aliasBinary(a, b, k))
			k++
		}
	}
	var l2 []aexpr
	for i, x := range l1 {
		l2 = append(l2, aliasUnary(x, i%5 == 0)...)
		l2 = append(l2, aliasBinary(x, atoms[i%len(atoms)], i), aliasBinary(atoms[(i+1)%len(atoms)], x, i+1))
	}
	// an Object parent one level further down: Array[Object[{parent => Array[Object[{parent => x}]]}]]
	var l3 []aexpr
	for _, x := range l2 {
		if !x.top && strings.HasPrefix(x.text, "Object[{parent") {
			l3 = append(l3, aexpr{"Array[" + x.text + "]", "(XCont1 KArray " + x.term + ")", true},
				aexpr{"Variant[" + x.text + "]", "(XVar1 " + x.term + ")", true},
				aexpr{"Hash[B, Object[{parent => " + x.text + "}]]", "(XCont2 KHash (XName 1%nat) (XObj " + x.term + "))", true})
		}
	}
	for _, x := range append(append([]aexpr{}, atoms...), l1...) {
		if x.top {
			small = append(small, x)
		}
	}
	for _, x := range append(l2, l3...) {
		if x.top {
			large = append(large, x)
		}
	}
	return
}

func aliasRegister(ts *[]string, names []string, nums []int, es []aexpr) {
	ms := make([]string, len(es))
	tm := make([]string, len(es))
	for i, e := range es {
		ms[i] = names[i] + " => " + e.text
		tm[i] = fmt.Sprintf("(%d%%nat, %s)", nums[i], e.term)
	}
	t := typeSetText(ms...)
	if _, dup := tsIndex[t]; dup {
		return
	}
	tsIndex[t] = tsCase{"alias", "mkACase " + lib.GList(tm, "nat * aexp")}
	*ts = append(*ts, t)
}

// aliasTexts: generated once at start-up (a replay finds its case in tsIndex)
var aliasTexts = resolveAliasSets()

func resolveAliasSets() []string {
	var ts []string
	small, large := aliasPool(false)
	all := append(append([]aexpr{}, small...), large...)
	// one declaration
	for _, e := range all {
		aliasRegister(&ts, []string{"A"}, []int{0}, []aexpr{e})
	}
	// two declarations: every expression x a choice of partners, the partner declared after it and (for three of the
	// partners) before it
	partnerTexts := []string{"A", "B", "Variant[Object[{}]]", "Array[Object[{parent => A}]]", "Integer", "Hash[A, B]"}
	var partners []aexpr
	for _, pt := range partnerTexts {
		for _, e := range all {
			if e.text == pt {
				partners = append(partners, e)
				break
			}
		}
	}
	for _, e := range all {
		for i, p := range partners {
			if i < 4 {
				aliasRegister(&ts, []string{"A", "B"}, []int{0, 1}, []aexpr{e, p})
			}
			if i < 2 || i >= 4 {
				aliasRegister(&ts, []string{"B", "A"}, []int{1, 0}, []aexpr{p, e})
			}
		}
	}
	return ts
}

// aliasPrinterSets: the printer that words PCORE_ILLEGAL_ARGUMENT_TYPE with the type of the argument (model: print_pred,
// common_pred, asg). A => U[K[x, y]] for K = Hash / Tuple / Variant and every ordered pair x, y of a pool of member types
// over A (under resolution when the error is worded), B, Integer, an undeclared name and Object[{}]; B is declared
// after A (no resolved type yet) or before it (resolved: Array[Integer] or Optional[Integer]); and the same K[x, y] as the
// resolved type of A, rejected as the parent of an Object type (the wording of PCORE_ILLEGAL_OBJECT_INHERITANCE).
func aliasPrinterPool() []aexpr {
	atoms := []aexpr{{"Integer", "XCore", true}, {"A", "(XName 0%nat)", true}, {"B", "(XName 1%nat)", true},
		{"U", "(XName 9%nat)", true}, {"Object[{}]", "XObj0", false}}
	pool := append([]aexpr{}, atoms...)
	for _, x := range atoms[:3] {
		pool = append(pool, aliasUnary(x, true)[3:6]...) // Optional, NotUndef, Type
		pool = append(pool, aliasUnary(x, false)[0])     // Array
	}
	a, b, i := atoms[1], atoms[2], atoms[0]
	opt := func(x aexpr) aexpr { return aliasUnary(x, true)[3] }
	nun := func(x aexpr) aexpr { return aliasUnary(x, true)[4] }
	arr := func(x aexpr) aexpr { return aliasUnary(x, false)[0] }
	pool = append(pool, aliasBinary(a, i, 2), aliasBinary(i, b, 2), aliasBinary(a, b, 2), aliasBinary(a, a, 1), aliasBinary(i, a, 0),
		aliasBinary(i, b, 1), opt(arr(a)), nun(opt(a)), nun(opt(i)), arr(opt(b)), opt(aliasBinary(i, a, 2)), nun(aliasBinary(b, i, 2)))
	return pool
}

func aliasPrinterSets() []string {
	var ts []string
	pool := aliasPrinterPool()
	bs := []aexpr{{"Integer", "XCore", true}, aliasUnary(aexpr{"Integer", "XCore", true}, false)[0], aliasUnary(aexpr{"Integer", "XCore", true}, true)[3]}
	parentUser := aexpr{"Array[Object[{parent => A}]]", "(XCont1 KArray (XObj (XName 0%nat)))", true}
	for k := 0; k < 3; k++ {
		for _, x := range pool {
			for _, y := range pool {
				m := aliasBinary(x, y, k)
				e := aexpr{"U[" + m.text + "]", "(XArgs 9%nat " + m.term + ")", true}
				aliasRegister(&ts, []string{"A", "B"}, []int{0, 1}, []aexpr{e, bs[0]})
				aliasRegister(&ts, []string{"B", "A"}, []int{1, 0}, []aexpr{bs[1+(k+len(x.text)+len(y.text))%2], e})
				// the other site: A = K[x, y] is resolved (it refers to itself as a resolved alias, B has no resolved type
				// yet) and then rejected as the parent of an Object type: illegalParent words K[x, y]
				aliasRegister(&ts, []string{"A", "C", "B"}, []int{0, 2, 1}, []aexpr{m, parentUser, bs[0]})
			}
		}
	}
	return ts
}

var aliasPrinterTexts = aliasPrinterSets()

var aliasCodes = map[string]int{"PCORE_UNRESOLVED_TYPE": 1, "PCORE_ILLEGAL_OBJECT_INHERITANCE": 2, "PCORE_NOT_PARAMETERIZED_TYPE": 3,
	"PCORE_ILLEGAL_ARGUMENT_TYPE": 4}

// resolveAliasRandom: three declarations A, B, C in a seeded order over the pool with C
func resolveAliasRandom(n int, rng *lib.Rng) []string {
	var ts []string
	small, large := aliasPool(true)
	all := append(append([]aexpr{}, small...), large...)
	for i := 0; i < n; i++ {
		r := rng.Fork()
		es := make([]aexpr, 3)
		for j := range es {
			if r.Chance(1, 2) {
				es[j] = small[r.Intn(len(small))]
			} else {
				es[j] = all[r.Intn(len(all))]
			}
		}
		names := []string{"A", "B", "C"}
		nums := []int{0, 1, 2}
		for j := 2; j > 0; j-- {
			k := r.Intn(j + 1)
			names[j], names[k] = names[k], names[j]
			nums[j], nums[k] = nums[k], nums[j]
		}
		aliasRegister(&ts, names, nums, es)
	}
	return ts
}
