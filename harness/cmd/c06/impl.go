// Worker side: the implementation calls of C06 and the projection of their results.
package main

import (
	"fmt"
	"math"
	"regexp"
	"runtime"
	"strconv"
	"strings"
	"unicode"

	"github.com/lyraproj/issue/issue"
	"github.com/lyraproj/pcore/pcore"
	"github.com/lyraproj/pcore/px"
	"github.com/lyraproj/pcore/types"

	"verifharness/lib"
)

// classify maps a recovered panic value to the observation classes of worker.go.
func classify(r interface{}, o *Obs) {
	switch e := r.(type) {
	case nil:
		o.Class = "ok"
	case issue.Reported:
		o.Class = "reported"
		o.Code = string(e.Code())
		o.Msg = clip(e.Error())
		o.Line, o.Col = -1000000, -1000000
		if loc := e.Location(); loc != nil {
			o.Line, o.Col = loc.Line(), loc.Pos()
			if o.Aux == nil {
				o.Aux = map[string]string{}
			}
			o.Aux["file"] = loc.File()
		}
	case runtime.Error:
		o.Class = "runtime"
		o.Msg = clip(e.Error())
	case error:
		o.Class = "error"
		o.Msg = clip(e.Error())
	default:
		o.Class = "panic"
		o.Msg = clip(fmt.Sprint(r))
	}
}

func clip(s string) string {
	if len(s) > 300 {
		return s[:300] + "..."
	}
	return s
}

// handle runs one request; no panic escapes.
func handle(r Req) (o Obs) {
	switch r.Op {
	case "P": // types.Parse: class and location only
		func() {
			defer func() { classify(recover(), &o) }()
			types.Parse(r.In)
		}()
	case "V": // types.Parse with the value as a model term, plus the oracle tables and the token stream
		var v px.Value
		func() {
			defer func() { classify(recover(), &o) }()
			v = types.Parse(r.In)
		}()
		if o.Aux == nil {
			o.Aux = map[string]string{}
		}
		if o.Class == "ok" {
			func() {
				defer func() {
					if x := recover(); x != nil {
						o.Aux["dumpfail"] = fmt.Sprint(x)
					}
				}()
				o.Term = dumpValue(v, 0)
			}()
		}
		tokens(r.In, &o)
	case "T": // Context.ParseType = Parse + Resolve
		func() {
			defer func() { classify(recover(), &o) }()
			var t px.Type
			// types.Parse (operations P, V) runs without a Context, as its callers may; ParseType needs one
			pcore.Do(func(c px.Context) { t = c.ParseType(r.In) })
			if t == nil {
				o.Out = "<nil>"
				o.Aux = map[string]string{"nil": "true"}
				return
			}
			// printing the type is not part of this property (C05): a fault there is only noted
			func() {
				defer func() {
					if x := recover(); x != nil {
						o.Aux = map[string]string{"printfail": fmt.Sprint(x)}
					}
				}()
				o.Out = t.String()
			}()
		}()
	case "L": // the lexer alone
		o.Class = "ok"
		o.Aux = map[string]string{}
		tokens(r.In, &o)
	default:
		o.Class = "panic"
		o.Msg = "unknown operation " + r.Op
	}
	return
}

// tokens records the token stream of the lexer (hook types.VerifTokens), the way the lexer ended, and the
// oracle tables the model needs: strconv.ParseFloat on every float token, regexp.Compile on every regexp token.
func tokens(s string, o *Obs) {
	defer func() {
		if x := recover(); x != nil {
			o.Aux["tokfail"] = fmt.Sprint(x)
		}
	}()
	toks, failure, line, col := types.VerifTokens(s)
	var tb, fl, rx []string
	for _, t := range toks {
		tb = append(tb, fmt.Sprintf("(%d%%nat, %s, %s, %s)", t.Kind, lib.GStr(t.Text), lib.GZ(int64(t.Line)), lib.GZ(int64(t.Column))))
		switch t.Kind {
		case 4: // float
			f, err := strconv.ParseFloat(t.Text, 64)
			if err != nil {
				fl = append(fl, fmt.Sprintf("(%s, @None Z)", lib.GStr(t.Text)))
			} else {
				fl = append(fl, fmt.Sprintf("(%s, Some %s)", lib.GStr(t.Text), lib.GZ(int64(math.Float64bits(f)))))
			}
		case 5: // regexp
			_, err := regexp.Compile(t.Text)
			rx = append(rx, fmt.Sprintf("(%s, %s)", lib.GStr(t.Text), lib.GBool(err == nil)))
		}
	}
	o.Aux["tokens"] = lib.GList(tb, "nat * str * Z * Z")
	// oracle unicode.IsLetter: the non-ASCII runes of the input that are letters
	var ls []string
	seen := map[rune]bool{}
	for _, r := range s {
		if r >= 0x80 && !seen[r] && unicode.IsLetter(r) {
			seen[r] = true
			ls = append(ls, lib.GN(uint64(r)))
		}
	}
	o.Aux["letters"] = lib.GList(ls, "N")
	o.Aux["floats"] = lib.GList(fl, "str * option Z")
	o.Aux["regexps"] = lib.GList(rx, "str * bool")
	var lo Obs
	classify(failure, &lo)
	o.Aux["lexclass"] = lo.Class
	o.Aux["lexmsg"] = lo.Msg
	o.Aux["lexline"] = strconv.Itoa(line)
	o.Aux["lexcol"] = strconv.Itoa(col)
	o.Aux["ntokens"] = strconv.Itoa(len(toks))
}

// dumpValue prints a parsed value as a term of the model's type `pv` (coq/Model/Parser.v).
func dumpValue(v px.Value, depth int) string {
	if depth > 200 {
		panic("value too deep")
	}
	switch x := v.(type) {
	case nil:
		return "PNil"
	case *types.UndefValue:
		return "PUndef"
	case *types.DefaultValue:
		return "PDefault"
	case px.Boolean:
		return "(PBool " + lib.GBool(x.Bool()) + ")"
	case px.Integer:
		return "(PInt " + lib.GZ(x.Int()) + ")"
	case px.Float:
		return "(PFloat " + lib.GZ(int64(math.Float64bits(x.Float()))) + ")"
	case px.StringValue:
		return "(PStr " + lib.GStr(x.String()) + ")"
	case *types.Regexp:
		return "(PRegexp " + lib.GStr(x.PatternString()) + ")"
	case *types.DeferredType:
		ps := x.Parameters()
		if ps == nil {
			return "(PType " + lib.GStr(x.Name()) + " None)"
		}
		return "(PType " + lib.GStr(x.Name()) + " (Some " + dumpList(ps, depth) + "))"
	case types.Deferred:
		return "(PCall " + lib.GStr(x.Name()) + " " + dumpList(x.Arguments().AppendTo(nil), depth) + ")"
	case *types.HashEntry:
		return "(PEntry " + dumpValue(x.Key(), depth+1) + " " + dumpValue(x.Value(), depth+1) + ")"
	case *types.Array:
		return "(PArr " + dumpList(x.AppendTo(nil), depth) + ")"
	case *types.Hash:
		var es []string
		x.EachPair(func(k, v px.Value) {
			es = append(es, "("+dumpValue(k, depth+1)+", "+dumpValue(v, depth+1)+")")
		})
		return "(PHash " + lib.GList(es, "pv * pv") + ")"
	case *types.TypeAliasType:
		return "(PNamed " + lib.GStr(x.Name()) + " 0%nat)"
	case px.TypeSet:
		return "(PNamed " + lib.GStr(x.Name()) + " 2%nat)"
	case px.ObjectType:
		return "(PNamed " + lib.GStr(x.Name()) + " 1%nat)"
	}
	panic(fmt.Sprintf("value of unexpected Go type %T", v))
}

func dumpList(vs []px.Value, depth int) string {
	es := make([]string, len(vs))
	for i, e := range vs {
		es[i] = dumpValue(e, depth+1)
	}
	return lib.GList(es, "pv")
}

func serve() { workerMain(handle) }

// faultMessage: Go's fixed prefixes of runtime faults, used to detect a fault wrapped as a parse error.
func faultMessage(msg string) bool {
	return strings.Contains(msg, "runtime error:") || strings.Contains(msg, "interface conversion:") ||
		strings.Contains(msg, "invalid memory address") || strings.Contains(msg, "reflect:")
}
