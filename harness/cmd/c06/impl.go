// Worker side: the implementation calls of C06 and the projection of their results.
package main

import (
	"fmt"
	"math"
	"regexp"
	"runtime"
	"strconv"
	"strings"
	"unicode"

	"github.com/lyraproj/issue/issue"
	"github.com/lyraproj/pcore/pcore"
	"github.com/lyraproj/pcore/px"
	"github.com/lyraproj/pcore/types"

	"verifharness/lib"
)

// classify maps a recovered panic value to the observation classes of worker.go.
func classify(r interface{}, o *Obs) {
	switch e := r.(type) {
	case nil:
		o.Class = "ok"
	case issue.Reported:
		o.Class = "reported"
		o.Code = string(e.Code())
		// an error that cannot be worded (Error() panics: 7d842f8) is no reported error for whoever prints it
		func() {
			defer func() {
				if x := recover(); x != nil {
					o.Class = "unwordable"
					o.Msg = clip(fmt.Sprintf("issue %s: Error() panics: %v", o.Code, x))
				}
			}()
			o.Msg = clip(e.Error())
		}()
		o.Line, o.Col = -1000000, -1000000
		if o.Aux == nil {
			o.Aux = map[string]string{}
		}
		if loc := e.Location(); loc != nil {
			o.Line, o.Col = loc.Line(), loc.Pos()
			o.Aux["file"] = loc.File()
		}
		// the arguments of the issue that identify the place (never the wording)
		for _, k := range []string{"function", "index", "name"} {
			if a := e.Argument(k); a != nil {
				o.Aux[k] = clip(fmt.Sprint(a))
			}
		}
		// PCORE_EQUALITY_REDEFINED: the ancestor that findEqualityDefiner walked to, by name
		if a := e.Argument("including_parent"); a != nil {
			o.Aux["including_parent"] = func() (nm string) {
				defer func() {
					if recover() != nil {
						nm = "<fault>"
					}
				}()
				if ot, ok := a.(px.ObjectType); ok {
					return ot.Name()
				}
				return fmt.Sprintf("<%T>", a)
			}()
		}
	case runtime.Error:
		o.Class = "runtime"
		o.Msg = clip(e.Error())
	case error:
		o.Class = "error"
		o.Msg = clip(e.Error())
	default:
		o.Class = "panic"
		o.Msg = clip(fmt.Sprint(r))
	}
}

func clip(s string) string {
	if len(s) > 300 {
		return s[:300] + "..."
	}
	return s
}

// handle runs one request; no panic escapes.
func handle(r Req) (o Obs) {
	switch r.Op {
	case "P": // types.Parse: class and location only
		func() {
			defer func() { classify(recover(), &o) }()
			types.Parse(r.In)
		}()
	case "V": // types.Parse with the value as a model term, plus the oracle tables and the token stream
		var v px.Value
		func() {
			defer func() { classify(recover(), &o) }()
			v = types.Parse(r.In)
		}()
		if o.Aux == nil {
			o.Aux = map[string]string{}
		}
		if o.Class == "ok" {
			func() {
				defer func() {
					if x := recover(); x != nil {
						o.Aux["dumpfail"] = fmt.Sprint(x)
					}
				}()
				o.Term = dumpValue(v, 0)
			}()
		}
		tokens(r.In, &o)
	case "T": // Context.ParseType = Parse + Resolve
		func() {
			defer func() { classify(recover(), &o) }()
			var t px.Type
			// types.Parse (operations P, V) runs without a Context, as its callers may; ParseType needs one
			pcore.Do(func(c px.Context) { t = c.ParseType(r.In) })
			if t == nil {
				o.Out = "<nil>"
				o.Aux = map[string]string{"nil": "true"}
				return
			}
			// printing the type is not part of this property (C05): a fault there is only noted
			func() {
				defer func() {
					if x := recover(); x != nil {
						o.Aux = map[string]string{"printfail": fmt.Sprint(x)}
					}
				}()
				o.Out = t.String()
			}()
			aliasHeads(t, &o)
		}()
	case "R": // Context.ParseType observed for the model of the resolve stage (coq/Model/Resolve.v)
		resolveObs(r.In, &o)
	case "L": // the lexer alone
		o.Class = "ok"
		o.Aux = map[string]string{}
		tokens(r.In, &o)
	default:
		o.Class = "panic"
		o.Msg = "unknown operation " + r.Op
	}
	return
}

// tokens records the token stream of the lexer (hook types.VerifTokens), the way the lexer ended, and the
// oracle tables the model needs: strconv.ParseFloat on every float token, regexp.Compile on every regexp token.
func tokens(s string, o *Obs) {
	defer func() {
		if x := recover(); x != nil {
			o.Aux["tokfail"] = fmt.Sprint(x)
		}
	}()
	toks, failure, line, col := types.VerifTokens(s)
	var tb, fl, rx []string
	for _, t := range toks {
		tb = append(tb, fmt.Sprintf("(%d%%nat, %s, %s, %s)", t.Kind, lib.GStr(t.Text), lib.GZ(int64(t.Line)), lib.GZ(int64(t.Column))))
		switch t.Kind {
		case 4: // float
			f, err := strconv.ParseFloat(t.Text, 64)
			if err != nil {
				fl = append(fl, fmt.Sprintf("(%s, @None Z)", lib.GStr(t.Text)))
			} else {
				fl = append(fl, fmt.Sprintf("(%s, Some %s)", lib.GStr(t.Text), lib.GZ(int64(math.Float64bits(f)))))
			}
		case 5: // regexp
			_, err := regexp.Compile(t.Text)
			rx = append(rx, fmt.Sprintf("(%s, %s)", lib.GStr(t.Text), lib.GBool(err == nil)))
		}
	}
	o.Aux["tokens"] = lib.GList(tb, "nat * str * Z * Z")
	// oracle unicode.IsLetter: the non-ASCII runes of the input that are letters
	var ls []string
	seen := map[rune]bool{}
	for _, r := range s {
		if r >= 0x80 && !seen[r] && unicode.IsLetter(r) {
			seen[r] = true
			ls = append(ls, lib.GN(uint64(r)))
		}
	}
	o.Aux["letters"] = lib.GList(ls, "N")
	o.Aux["floats"] = lib.GList(fl, "str * option Z")
	o.Aux["regexps"] = lib.GList(rx, "str * bool")
	var lo Obs
	classify(failure, &lo)
	o.Aux["lexclass"] = lo.Class
	o.Aux["lexmsg"] = lo.Msg
	o.Aux["lexline"] = strconv.Itoa(line)
	o.Aux["lexcol"] = strconv.Itoa(col)
	o.Aux["ntokens"] = strconv.Itoa(len(toks))
}

// dumpValue prints a parsed value as a term of the model's type `pv` (coq/Model/Parser.v).
func dumpValue(v px.Value, depth int) string {
	if depth > 200 {
		panic("value too deep")
	}
	switch x := v.(type) {
	case nil:
		return "PNil"
	case *types.UndefValue:
		return "PUndef"
	case *types.DefaultValue:
		return "PDefault"
	case px.Boolean:
		return "(PBool " + lib.GBool(x.Bool()) + ")"
	case px.Integer:
		return "(PInt " + lib.GZ(x.Int()) + ")"
	case px.Float:
		return "(PFloat " + lib.GZ(int64(math.Float64bits(x.Float()))) + ")"
	case px.StringValue:
		return "(PStr " + lib.GStr(x.String()) + ")"
	case *types.Regexp:
		return "(PRegexp " + lib.GStr(x.PatternString()) + ")"
	case *types.DeferredType:
		ps := x.Parameters()
		if ps == nil {
			return "(PType " + lib.GStr(x.Name()) + " None)"
		}
		return "(PType " + lib.GStr(x.Name()) + " (Some " + dumpList(ps, depth) + "))"
	case types.Deferred:
		return "(PCall " + lib.GStr(x.Name()) + " " + dumpList(x.Arguments().AppendTo(nil), depth) + ")"
	case *types.HashEntry:
		return "(PEntry " + dumpValue(x.Key(), depth+1) + " " + dumpValue(x.Value(), depth+1) + ")"
	case *types.Array:
		return "(PArr " + dumpList(x.AppendTo(nil), depth) + ")"
	case *types.Hash:
		var es []string
		x.EachPair(func(k, v px.Value) {
			es = append(es, "("+dumpValue(k, depth+1)+", "+dumpValue(v, depth+1)+")")
		})
		return "(PHash " + lib.GList(es, "pv * pv") + ")"
	case *types.TypeAliasType:
		return "(PNamed " + lib.GStr(x.Name()) + " 0%nat)"
	case px.TypeSet:
		return "(PNamed " + lib.GStr(x.Name()) + " 2%nat)"
	case px.ObjectType:
		return "(PNamed " + lib.GStr(x.Name()) + " 1%nat)"
	}
	panic(fmt.Sprintf("value of unexpected Go type %T", v))
}

func dumpList(vs []px.Value, depth int) string {
	es := make([]string, len(vs))
	for i, e := range vs {
		es[i] = dumpValue(e, depth+1)
	}
	return lib.GList(es, "pv")
}

// plainValue: the values on which resolveValue (deferredtype.go:80) is the identity up to naming bare types: the
// predicate `plain` of coq/Model/Resolve.v.
func plainValue(v px.Value) bool {
	switch x := v.(type) {
	case nil:
		return false
	case *types.DeferredType:
		return x.Parameters() == nil
	case types.Deferred, *types.HashEntry:
		return false
	case *types.UndefValue, *types.DefaultValue, px.Boolean, px.Integer, px.Float, px.StringValue, *types.Regexp:
		return true
	case *types.Array:
		return x.All(plainValue)
	case *types.Hash:
		return x.AllPairs(func(k, v px.Value) bool { return plainValue(k) && plainValue(v) })
	}
	return false
}

func plainValues(vs []px.Value) bool {
	for _, v := range vs {
		if !plainValue(v) {
			return false
		}
	}
	return true
}

// lowerTable: strings.ToLower on every string among the values (the oracle `lower` of the model).
func lowerTable(vs []px.Value, seen map[string]bool, out *[]string) {
	for _, v := range vs {
		switch x := v.(type) {
		case px.StringValue:
			if s := x.String(); !seen[s] {
				seen[s] = true
				*out = append(*out, "("+lib.GStr(s)+", "+lib.GStr(strings.ToLower(s))+")")
			}
		case *types.Array:
			lowerTable(x.AppendTo(nil), seen, out)
		}
	}
}

// resolveObs: when the input parses to Enum[plain parameters] (kind 0) or to T[Deferred(name, plain arguments)]
// with T other than TypeSet (kind 1), runs Context.ParseType on it and writes the case for resolve_check
// (coq/Corr/CorrC06.v) into o.Term; otherwise o.Term stays empty (the input is outside the model).
func resolveObs(in string, o *Obs) {
	o.Class = "ok"
	o.Aux = map[string]string{}
	var v px.Value
	parsed := func() (ok bool) {
		defer func() {
			if recover() != nil {
				ok = false
			}
		}()
		v = types.Parse(in)
		return true
	}()
	if !parsed {
		return
	}
	dt, isType := v.(*types.DeferredType)
	if !isType || dt.Parameters() == nil {
		return
	}
	ps := dt.Parameters()
	kind := -1
	if dt.Name() == "Enum" && plainValues(ps) {
		kind = 0
	} else if len(ps) == 1 && dt.Name() != "TypeSet" {
		if d, ok := ps[0].(types.Deferred); ok && plainValues(d.Arguments().AppendTo(nil)) {
			kind = 1
		}
	}
	if kind < 0 {
		return
	}
	var args string
	func() {
		defer func() {
			if recover() != nil {
				args = ""
			}
		}()
		args = dumpList(ps, 0)
	}()
	if args == "" {
		return
	}
	var lows []string
	lowerTable(ps, map[string]bool{}, &lows)

	var po Obs
	var t px.Type
	func() {
		defer func() { classify(recover(), &po) }()
		pcore.Do(func(c px.Context) { t = c.ParseType(in) })
	}()
	class, index, values, ci, name := 3, int64(0), []string{}, false, ""
	switch po.Class {
	case "ok":
		class = 0
		if kind == 0 {
			et, ok := t.(*types.EnumType)
			if !ok {
				class = 3
				break
			}
			if vs, ok := et.Get("values"); ok {
				vs.(px.List).Each(func(e px.Value) { values = append(values, lib.GStr(e.String())) })
			}
			if b, ok := et.Get("case_insensitive"); ok {
				ci = b.(px.Boolean).Bool()
			}
		}
	case "runtime":
		class = 2
	case "reported":
		switch {
		case faultMessage(po.Msg):
			class = 2
		case po.Code == string(px.IllegalArgumentType) && po.Aux["function"] == "Enum[]":
			class = 1
			n, _ := strconv.ParseInt(po.Aux["index"], 10, 64)
			index = n
		case po.Code == string(px.UnknownVariable):
			class = 4
			name = po.Aux["name"]
		}
	}
	o.Aux["rkind"] = strconv.Itoa(kind)
	o.Aux["rclass"] = strconv.Itoa(class)
	o.Msg = po.Msg
	o.Term = fmt.Sprintf("mkRCase %d%%nat %s\n     %s\n     %d%%nat %s %s %s %s", kind, args, lib.GList(lows, "str * str"),
		class, lib.GZ(index), lib.GList(values, "str"), lib.GBool(ci), lib.GStr(name))
}

func serve() { workerMain(handle) }

// faultMessage: Go's fixed prefixes of runtime faults, used to detect a fault wrapped as a parse error.
func faultMessage(msg string) bool {
	return strings.Contains(msg, "runtime error:") || strings.Contains(msg, "interface conversion:") ||
		strings.Contains(msg, "invalid memory address") || strings.Contains(msg, "reflect:")
}

// aliasHeads: for a type set, the head of the resolved type of every member that is an alias, in the order of
// declaration (coq/Model/ResolveAlias.v head_kind): 0 core type, 1 TypeReference, 2 alias, 3 container, 4 Object,
// 5 no resolved type; 8 for a member that is no alias. A fault here is noted, not judged.
func aliasHeads(t px.Type, o *Obs) {
	ts, ok := t.(px.TypeSet)
	if !ok {
		return
	}
	defer func() {
		if x := recover(); x != nil {
			if o.Aux == nil {
				o.Aux = map[string]string{}
			}
			o.Aux["alias_heads"] = "fault"
		}
	}()
	var hs []string
	ts.Types().EachValue(func(v px.Value) {
		k := 8
		if a, ok := v.(*types.TypeAliasType); ok {
			rt, _ := a.Get("resolved_type")
			switch rt.(type) {
			case nil:
				k = 5
			case *types.TypeReferenceType:
				k = 1
			case *types.TypeAliasType:
				k = 2
			case *types.ArrayType, *types.HashType, *types.TupleType, *types.VariantType, *types.OptionalType, *types.NotUndefType, *types.TypeType:
				k = 3
			case px.ObjectType:
				k = 4
			default:
				k = 0
			}
		}
		hs = append(hs, fmt.Sprintf("%d%%nat", k))
	})
	if o.Aux == nil {
		o.Aux = map[string]string{}
	}
	o.Aux["alias_heads"] = lib.GList(hs, "nat")
}
