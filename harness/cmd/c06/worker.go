// Child-process execution of implementation calls.
//
// The pinned tree contains real hangs (types.Parse("1e5")) and an unbounded-allocation loop
// (utils.PuppetQuote on invalid UTF-8), so no implementation call is ever made in the harness
// process itself: the harness re-executes its own binary with `-worker` (under `ulimit -v`), feeds
// it batches of requests over a pipe and enforces a deadline. When a batch does not come back in
// time (or the worker dies) the worker is killed, and the batch is re-run one request at a time
// with a 2 s deadline each, which pins the hang / crash to a single input: that input is the replay.
package main

import (
	"bufio"
	"encoding/hex"
	"encoding/json"
	"fmt"
	"io"
	"os"
	"os/exec"
	"runtime"
	"strings"
	"sync"
	"time"
)

// Req is one implementation call: an operation name and its (binary safe) argument.
type Req struct {
	Op string
	In string
}

// Obs is what the worker observed. Class is one of
//
//	ok        the call returned
//	reported  it panicked with an issue.Reported (Code, Line, Col, Msg filled in)
//	runtime   it panicked with a Go runtime.Error (nil dereference, index, slice, type assertion ...)
//	error     it panicked with some other error value
//	panic     it panicked with a non-error value
//	timeout   it did not return within the deadline (set by the parent)
//	crash     the worker process died (out of memory, fatal error) (set by the parent)
type Obs struct {
	Class string `json:"class"`
	Code  string `json:"code,omitempty"`
	Line  int    `json:"line,omitempty"`
	Col   int    `json:"col,omitempty"`
	Msg   string `json:"msg,omitempty"`
	// Out: operation specific textual result (printed type, printed value, ...)
	Out string `json:"out,omitempty"`
	// Term: operation specific Gallina term for the correspondence file
	Term string `json:"term,omitempty"`
	// Aux: further operation specific fields
	Aux map[string]string `json:"aux,omitempty"`
}

const (
	batchSize      = 200
	batchDeadline  = 4 * time.Second
	singleDeadline = 2 * time.Second
	workerMemKB    = 6000000 // ulimit -v of a worker (address space, kB)
	maxPinned      = 6       // hangs / crashes pinned to a single input per run
	workerHeapMax  = 1 << 30 // the worker gives up by itself when its heap exceeds this
)

// ---------------------------------------------------------------------------------------------
// worker side

// workerMain serves requests until stdin closes. handle must never let a panic escape.
func workerMain(handle func(Req) Obs) {
	go func() {
		var ms runtime.MemStats
		for {
			time.Sleep(50 * time.Millisecond)
			runtime.ReadMemStats(&ms)
			if ms.HeapAlloc > workerHeapMax {
				fmt.Fprintln(os.Stderr, "worker: heap limit exceeded")
				os.Exit(3)
			}
		}
	}()
	in := bufio.NewReaderSize(os.Stdin, 1<<20)
	out := bufio.NewWriterSize(os.Stdout, 1<<20)
	enc := json.NewEncoder(out)
	for {
		line, err := in.ReadString('\n')
		if err != nil {
			return
		}
		line = strings.TrimRight(line, "\n")
		if line == "." {
			_, _ = out.WriteString(".\n")
			_ = out.Flush()
			continue
		}
		sp := strings.IndexByte(line, ' ')
		op, hx := line, ""
		if sp >= 0 {
			op, hx = line[:sp], line[sp+1:]
		}
		b, _ := hex.DecodeString(hx)
		o := handle(Req{op, string(b)})
		_ = enc.Encode(&o)
	}
}

// ---------------------------------------------------------------------------------------------
// parent side

type worker struct {
	cmd *exec.Cmd
	in  io.WriteCloser
	out *bufio.Reader
}

func startWorker() *worker {
	self, err := os.Executable()
	if err != nil {
		panic(err)
	}
	cmd := exec.Command("bash", "-c", fmt.Sprintf("ulimit -v %d; exec '%s' -worker -out /dev/null", workerMemKB, self))
	cmd.Stderr = nil
	in, err := cmd.StdinPipe()
	if err != nil {
		panic(err)
	}
	outp, err := cmd.StdoutPipe()
	if err != nil {
		panic(err)
	}
	if err := cmd.Start(); err != nil {
		panic(err)
	}
	return &worker{cmd, in, bufio.NewReaderSize(outp, 1<<20)}
}

func (w *worker) kill() {
	_ = w.in.Close()
	_ = w.cmd.Process.Kill()
	_, _ = w.cmd.Process.Wait()
}

// exchange sends the requests and waits for the answers; ok=false when the deadline passed or the
// worker died (the worker must then be discarded). died tells the two apart.
func (w *worker) exchange(reqs []Req, deadline time.Duration) (obs []Obs, ok bool, died bool) {
	var sb strings.Builder
	for _, r := range reqs {
		sb.WriteString(r.Op)
		sb.WriteByte(' ')
		sb.WriteString(hex.EncodeToString([]byte(r.In)))
		sb.WriteByte('\n')
	}
	sb.WriteString(".\n")
	type result struct {
		obs []Obs
		err error
	}
	ch := make(chan result, 1)
	go func() {
		if _, err := io.WriteString(w.in, sb.String()); err != nil {
			ch <- result{nil, err}
			return
		}
		var res []Obs
		for {
			line, err := w.out.ReadString('\n')
			if err != nil {
				ch <- result{res, err}
				return
			}
			if line == ".\n" {
				ch <- result{res, nil}
				return
			}
			var o Obs
			if err := json.Unmarshal([]byte(line), &o); err != nil {
				ch <- result{res, err}
				return
			}
			res = append(res, o)
		}
	}()
	select {
	case r := <-ch:
		if r.err != nil || len(r.obs) != len(reqs) {
			return nil, false, true
		}
		return r.obs, true, false
	case <-time.After(deadline):
		return nil, false, false
	}
}

// Pool runs requests on several workers in parallel, preserving order.
type Pool struct {
	n        int
	Timeouts int
	Crashes  int
	Skipped  int
}

func NewPool() *Pool {
	n := runtime.NumCPU()
	if n > 8 {
		n = 8
	}
	if n < 2 {
		n = 2
	}
	return &Pool{n: n}
}

// Run executes all requests and returns one observation per request.
func (p *Pool) Run(reqs []Req) []Obs {
	res := make([]Obs, len(reqs))
	type job struct{ lo, hi int }
	jobs := make(chan job, 64)
	var wg sync.WaitGroup
	var mu sync.Mutex
	nw := p.n
	if len(reqs) <= batchSize {
		nw = 1
	}
	for i := 0; i < nw; i++ {
		wg.Add(1)
		go func() {
			defer wg.Done()
			var w *worker
			defer func() {
				if w != nil {
					w.kill()
				}
			}()
			for j := range jobs {
				// once enough hangs / crashes have been pinned to single inputs the run has failed with concrete
				// replays; the remaining batches are not run at all (each hanging batch would cost seconds)
				mu.Lock()
				over := p.Timeouts+p.Crashes >= maxPinned
				if over {
					p.Skipped += j.hi - j.lo
				}
				mu.Unlock()
				if over {
					for k := j.lo; k < j.hi; k++ {
						res[k] = Obs{Class: "skipped", Msg: "not run: the cap of pinned hangs/crashes was reached earlier in this run"}
					}
					continue
				}
				if w == nil {
					w = startWorker()
				}
				obs, ok, _ := w.exchange(reqs[j.lo:j.hi], batchDeadline)
				if ok {
					copy(res[j.lo:j.hi], obs)
					continue
				}
				// pin the hang / crash to single inputs
				w.kill()
				w = nil
				mu.Lock()
				giveUp := p.Timeouts+p.Crashes >= maxPinned
				if giveUp {
					p.Skipped += j.hi - j.lo
				}
				mu.Unlock()
				if giveUp {
					// enough concrete hanging inputs have been pinned already (each costs seconds): the
					// rest of such batches is recorded as skipped, the run fails anyway
					for k := j.lo; k < j.hi; k++ {
						res[k] = Obs{Class: "skipped", Msg: "batch with a hang/crash, not pinned (more than the cap already reported)"}
					}
					continue
				}
				for k := j.lo; k < j.hi; k++ {
					// the cap can be reached in the middle of a batch (a family in which every input hangs)
					mu.Lock()
					capped := p.Timeouts+p.Crashes >= maxPinned
					if capped {
						p.Skipped++
					}
					mu.Unlock()
					if capped {
						res[k] = Obs{Class: "skipped", Msg: "not run: the cap of pinned hangs/crashes was reached earlier in this batch"}
						continue
					}
					if w == nil {
						w = startWorker()
					}
					o, ok, died := w.exchange(reqs[k:k+1], singleDeadline)
					if ok {
						res[k] = o[0]
						continue
					}
					w.kill()
					w = nil
					mu.Lock()
					if died {
						res[k] = Obs{Class: "crash", Msg: "the worker process died (memory limit or fatal error)"}
						p.Crashes++
					} else {
						res[k] = Obs{Class: "timeout", Msg: fmt.Sprintf("no answer within %v", singleDeadline)}
						p.Timeouts++
					}
					mu.Unlock()
				}
			}
		}()
	}
	for lo := 0; lo < len(reqs); lo += batchSize {
		hi := lo + batchSize
		if hi > len(reqs) {
			hi = len(reqs)
		}
		jobs <- job{lo, hi}
	}
	close(jobs)
	wg.Wait()
	return res
}
