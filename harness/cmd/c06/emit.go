// M: emission of the correspondence cases for coq/Corr/CorrC06.v.
//
// Every wanted input of kind "parse" is run once more through the worker operation "V" (types.Parse with the
// value decoded into a term of the model's type pv, plus the lexer's token stream through the hook
// types.VerifTokens and the oracle tables), and written as a `mkCase ...` term. Inputs of kind "parsetype"
// (Context.ParseType = Parse + Resolve) are covered by the direct check only: the resolver is not modelled.
package main

import (
	"fmt"
	"strconv"

	"verifharness/lib"
)

type emitter struct {
	nbad   int
	inputs []input
	seen   map[string]bool
}

func newEmitter() *emitter { return &emitter{seen: map[string]bool{}} }

func (e *emitter) want(in input) {
	if in.Kind != "parse" {
		return
	}
	k := in.Kind + ":" + in.Hex
	if !e.seen[k] {
		e.seen[k] = true
		e.inputs = append(e.inputs, in)
	}
}

const casesPerFile = 1400

// resultTriple maps the observation of types.Parse to the classes of CorrC06.cc_result:
// 0 value | 1 PARSE_ERROR at line, column | 2 Go runtime fault, raw or wrapped | 3 anything else.
func resultTriple(o Obs) string {
	switch o.Class {
	case "ok":
		return "(0%nat, 0, 0)"
	case "reported":
		if faultMessage(o.Msg) {
			return "(2%nat, 0, 0)"
		}
		if o.Code == "PARSE_ERROR" {
			return fmt.Sprintf("(1%%nat, %s, %s)", lib.GZ(int64(o.Line)), lib.GZ(int64(o.Col)))
		}
		return "(3%nat, 0, 0)"
	case "runtime":
		return "(2%nat, 0, 0)"
	}
	return "(3%nat, 0, 0)"
}

// lexEndTriple: 0 the stream ended with an end token | 1 the lexer panicked with an error at line, column |
// 2 runtime fault | 3 anything else.
func lexEndTriple(o Obs) string {
	switch o.Aux["lexclass"] {
	case "ok":
		return "(0%nat, 0, 0)"
	case "error", "reported":
		l, _ := strconv.Atoi(o.Aux["lexline"])
		c, _ := strconv.Atoi(o.Aux["lexcol"])
		return fmt.Sprintf("(1%%nat, %s, %s)", lib.GZ(int64(l)), lib.GZ(int64(c)))
	case "runtime":
		return "(2%nat, 0, 0)"
	}
	return "(3%nat, 0, 0)"
}

func caseTerm(in input, o Obs) string {
	val := "(@None pv)"
	if o.Class == "ok" && o.Term != "" {
		val = "(Some " + o.Term + ")"
	}
	get := func(k, empty string) string {
		if v, ok := o.Aux[k]; ok && v != "" {
			return v
		}
		return empty
	}
	return fmt.Sprintf("mkCase %s\n     %s %s %s\n     %s\n     %s %s %s",
		lib.GStr(in.bytes()),
		get("letters", "(@nil N)"), get("floats", "(@nil (str * option Z))"), get("regexps", "(@nil (str * bool))"),
		get("tokens", "(@nil (nat * str * Z * Z))"),
		lexEndTriple(o), resultTriple(o), val)
}

func (e *emitter) emit(cfg *lib.Config, res *lib.Result, pool *Pool) {
	if len(e.inputs) == 0 {
		return
	}
	reqs := make([]Req, len(e.inputs))
	for i, in := range e.inputs {
		reqs[i] = Req{"V", in.bytes()}
	}
	obs := pool.Run(reqs)
	newFile := func() *lib.CasesFile {
		return &lib.CasesFile{Imports: []string{"Model.Base", "Model.Lexer", "Model.Parser", "Corr.CorrC06"}, Typ: "c06case",
			Obligations: map[string]string{"lexer_model": "lex_mismatches cases", "parser_model": "parse_mismatches cases"}}
	}
	cf := newFile()
	nfile := 0
	flush := func() {
		if len(cf.Cases) > 0 {
			res.CorrFiles = append(res.CorrFiles, cf.WriteTo(cfg.Out, fmt.Sprintf("cases_parse_%d", nfile)))
			nfile++
			cf = newFile()
		}
	}
	undecoded := 0
	for i, in := range e.inputs {
		o := obs[i]
		if o.Class == "skipped" {
			// not run (hangs earlier in this run, reported by the direct check): nothing observed to compare
			res.Count("corr.class.skipped")
			continue
		}
		if o.Class == "ok" && o.Term == "" {
			undecoded++
		}
		res.Count("corr.class." + o.Class)
		cf.Add(caseTerm(in, o), in)
		if len(cf.Cases) >= casesPerFile {
			flush()
		}
	}
	flush()
	res.Extra["corr_cases"] = len(e.inputs)
	res.Extra["corr_values_not_decoded"] = undecoded
}
