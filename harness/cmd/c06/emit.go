// M: emission of the correspondence cases (filled in together with coq/Corr/CorrC06.v).
package main

import "verifharness/lib"

type emitter struct {
	nbad   int
	inputs []input
	seen   map[string]bool
}

func newEmitter() *emitter { return &emitter{seen: map[string]bool{}} }

func (e *emitter) want(in input) {
	k := in.Kind + ":" + in.Hex
	if !e.seen[k] {
		e.seen[k] = true
		e.inputs = append(e.inputs, in)
	}
}

func (e *emitter) emit(cfg *lib.Config, res *lib.Result, pool *Pool) {}
