// M: emission of the correspondence cases for coq/Corr/CorrC06.v.
//
// Every wanted input of kind "parse" is run once more through the worker operation "V" (types.Parse with the
// value decoded into a term of the model's type pv, plus the lexer's token stream through the hook
// types.VerifTokens and the oracle tables), and written as a `mkCase ...` term. Inputs of kind "parsetype"
// (Context.ParseType = Parse + Resolve) that fall into the modelled part of the resolve stage (coq/Model/Resolve.v:
// Enum[plain parameters], T[Deferred(name, plain arguments)]; the worker operation "R" decides) are written as
// `mkRCase ...` terms into cases_resolve_N.v; the other creators are covered by the direct check only.
package main

import (
	"fmt"
	"strconv"
	"strings"

	"verifharness/lib"
)

type emitter struct {
	nbad   int
	inputs []input
	seen   map[string]bool
	// candidates of the resolve tie; rbad: those on which the direct check failed (always kept)
	rinputs []input
	rbad    map[string]bool
	// the cases of the model of user-declared Object types (gentypeset.go tsIndex), with what the run observed
	tsIn  []input
	tsObs []Obs
}

func newEmitter() *emitter { return &emitter{seen: map[string]bool{}, rbad: map[string]bool{}} }

// resolveCandidate: a cheap textual filter; whether the input is inside the model is decided by the worker (op R)
func resolveCandidate(s string) bool {
	return strings.HasPrefix(s, "Enum[") || deferredCandidate(s)
}

// deferredCandidate: T[Deferred(...)] with nothing after the closing parenthesis
func deferredCandidate(s string) bool {
	i := strings.Index(s, "[Deferred(")
	return i > 0 && !strings.ContainsAny(s[:i], "[({ ,") && strings.HasSuffix(s, ")]")
}

func (e *emitter) wantResolve(in input, bad bool) {
	if in.Kind != "parsetype" || !resolveCandidate(in.bytes()) {
		return
	}
	k := in.Kind + ":" + in.Hex
	if bad {
		e.rbad[k] = true
	}
	if !e.seen[k] {
		e.seen[k] = true
		e.rinputs = append(e.rinputs, in)
	}
}

// wantTypeSet: every input that the generators of gentypeset.go registered as a model case is kept with its observation.
func (e *emitter) wantTypeSet(in input, o Obs) {
	if in.Kind != "parsetype" || o.Class == "skipped" {
		return
	}
	if _, ok := tsIndex[in.bytes()]; !ok {
		return
	}
	k := "ts:" + in.Hex
	if !e.seen[k] {
		e.seen[k] = true
		e.tsIn = append(e.tsIn, in)
		e.tsObs = append(e.tsObs, o)
	}
}

// emitTypeSet writes cases_alias_0.v (alias_check; generator in genalias.go), cases_override_0.v, cases_params_0.v (coq/Corr/CorrC06.v: override_check, params_check) and
// cases_equality_0.v, cases_like_0.v (equality_check, like_check; generators in genhier.go).
func (e *emitter) emitTypeSet(cfg *lib.Config, res *lib.Result) {
	files := []struct {
		name, typ, obl, expr, model string
		codes                       map[string]int
		// extra: further observed fields after the class
		extra func(o Obs) string
	}{
		{"override", "c06ocase", "override_model", "override_mismatches cases", "Model.ResolveObj", overrideCodes, nil},
		{"params", "c06xcase", "params_model", "params_mismatches cases", "Model.ResolveObj", paramsCodes, nil},
		{"equality", "c06qcase", "equality_model", "equality_mismatches cases", "Model.ResolveHier", equalityCodes,
			func(o Obs) string { return " " + lib.GStr(o.Aux["including_parent"]) }},
		{"like", "c06lcase", "like_model", "like_mismatches cases", "Model.ResolveHier", likeCodes, nil},
		{"alias", "c06acase", "alias_model", "alias_mismatches cases", "Model.ResolveAlias", aliasCodes,
			func(o Obs) string {
				if h := o.Aux["alias_heads"]; h != "" && h != "fault" && o.Class == "ok" {
					return " " + h
				}
				return " (@nil nat)"
			}},
	}
	for _, f := range files {
		cf := &lib.CasesFile{Imports: []string{"Model.Base", f.model, "Corr.CorrC06"}, Typ: f.typ,
			Obligations: map[string]string{f.obl: f.expr}}
		for i, in := range e.tsIn {
			c := tsIndex[in.bytes()]
			if c.file != f.name {
				continue
			}
			cl := tsClass(e.tsObs[i], f.codes)
			res.Count(fmt.Sprintf("corr.%s.class%d", f.name, cl))
			term := fmt.Sprintf("%s %d%%nat", c.term, cl)
			if f.extra != nil {
				term += f.extra(e.tsObs[i])
			}
			cf.Add(term, in)
		}
		if len(cf.Cases) > 0 {
			res.CorrFiles = append(res.CorrFiles, cf.WriteTo(cfg.Out, "cases_"+f.name+"_0"))
			res.Extra["corr_"+f.name+"_cases"] = len(cf.Cases)
		}
	}
}

func (e *emitter) want(in input) {
	if in.Kind != "parse" {
		e.wantResolve(in, false)
		return
	}
	k := in.Kind + ":" + in.Hex
	if !e.seen[k] {
		e.seen[k] = true
		e.inputs = append(e.inputs, in)
	}
}

const casesPerFile = 1400

// resultTriple maps the observation of types.Parse to the classes of CorrC06.cc_result:
// 0 value | 1 PARSE_ERROR at line, column | 2 Go runtime fault, raw or wrapped | 3 anything else.
func resultTriple(o Obs) string {
	switch o.Class {
	case "ok":
		return "(0%nat, 0, 0)"
	case "reported":
		if faultMessage(o.Msg) {
			return "(2%nat, 0, 0)"
		}
		if o.Code == "PARSE_ERROR" {
			return fmt.Sprintf("(1%%nat, %s, %s)", lib.GZ(int64(o.Line)), lib.GZ(int64(o.Col)))
		}
		return "(3%nat, 0, 0)"
	case "runtime":
		return "(2%nat, 0, 0)"
	}
	return "(3%nat, 0, 0)"
}

// lexEndTriple: 0 the stream ended with an end token | 1 the lexer panicked with an error at line, column |
// 2 runtime fault | 3 anything else.
func lexEndTriple(o Obs) string {
	switch o.Aux["lexclass"] {
	case "ok":
		return "(0%nat, 0, 0)"
	case "error", "reported":
		l, _ := strconv.Atoi(o.Aux["lexline"])
		c, _ := strconv.Atoi(o.Aux["lexcol"])
		return fmt.Sprintf("(1%%nat, %s, %s)", lib.GZ(int64(l)), lib.GZ(int64(c)))
	case "runtime":
		return "(2%nat, 0, 0)"
	}
	return "(3%nat, 0, 0)"
}

func caseTerm(in input, o Obs) string {
	val := "(@None pv)"
	if o.Class == "ok" && o.Term != "" {
		val = "(Some " + o.Term + ")"
	}
	get := func(k, empty string) string {
		if v, ok := o.Aux[k]; ok && v != "" {
			return v
		}
		return empty
	}
	return fmt.Sprintf("mkCase %s\n     %s %s %s\n     %s\n     %s %s %s",
		lib.GStr(in.bytes()),
		get("letters", "(@nil N)"), get("floats", "(@nil (str * option Z))"), get("regexps", "(@nil (str * bool))"),
		get("tokens", "(@nil (nat * str * Z * Z))"),
		lexEndTriple(o), resultTriple(o), val)
}

const resolveCasesMax = 4000
const resolveCasesPerFile = 2000

// emitResolve: the candidates (strided down to resolveCasesMax, the failed ones always kept) are run through the
// worker operation R; those inside the model become the cases of cases_resolve_N.v.
func (e *emitter) emitResolve(cfg *lib.Config, res *lib.Result, pool *Pool) {
	if len(e.rinputs) == 0 {
		return
	}
	max := resolveCasesMax
	if cfg.Thorough() {
		max *= 5
	}
	// the two kinds of candidates are strided separately
	var ins []input
	for _, enum := range []bool{true, false} {
		var cs []input
		for _, in := range e.rinputs {
			if strings.HasPrefix(in.bytes(), "Enum[") == enum {
				cs = append(cs, in)
			}
		}
		stride := len(cs)/max + 1
		for i, in := range cs {
			if i%stride == 0 || e.rbad[in.Kind+":"+in.Hex] {
				ins = append(ins, in)
			}
		}
	}
	reqs := make([]Req, len(ins))
	for i, in := range ins {
		reqs[i] = Req{"R", in.bytes()}
	}
	obs := pool.Run(reqs)
	newFile := func() *lib.CasesFile {
		return &lib.CasesFile{Imports: []string{"Model.Base", "Model.Parser", "Model.Resolve", "Corr.CorrC06"}, Typ: "c06rcase",
			Obligations: map[string]string{"resolve_model": "resolve_mismatches cases"}}
	}
	cf := newFile()
	nfile, n := 0, 0
	flush := func() {
		if len(cf.Cases) > 0 {
			res.CorrFiles = append(res.CorrFiles, cf.WriteTo(cfg.Out, fmt.Sprintf("cases_resolve_%d", nfile)))
			nfile++
			cf = newFile()
		}
	}
	for i, in := range ins {
		o := obs[i]
		if o.Term == "" || o.Aux["rkind"] == "" {
			res.Count("corr.resolve.outside-model")
			continue
		}
		res.Count("corr.resolve.kind" + o.Aux["rkind"] + ".class" + o.Aux["rclass"])
		cf.Add(o.Term, in)
		n++
		if len(cf.Cases) >= resolveCasesPerFile {
			flush()
		}
	}
	flush()
	res.Extra["corr_resolve_cases"] = n
}

func (e *emitter) emit(cfg *lib.Config, res *lib.Result, pool *Pool) {
	e.emitResolve(cfg, res, pool)
	e.emitTypeSet(cfg, res)
	if len(e.inputs) == 0 {
		return
	}
	reqs := make([]Req, len(e.inputs))
	for i, in := range e.inputs {
		reqs[i] = Req{"V", in.bytes()}
	}
	obs := pool.Run(reqs)
	newFile := func() *lib.CasesFile {
		return &lib.CasesFile{Imports: []string{"Model.Base", "Model.Lexer", "Model.Parser", "Corr.CorrC06"}, Typ: "c06case",
			Obligations: map[string]string{"lexer_model": "lex_mismatches cases", "parser_model": "parse_mismatches cases"}}
	}
	cf := newFile()
	nfile := 0
	flush := func() {
		if len(cf.Cases) > 0 {
			res.CorrFiles = append(res.CorrFiles, cf.WriteTo(cfg.Out, fmt.Sprintf("cases_parse_%d", nfile)))
			nfile++
			cf = newFile()
		}
	}
	undecoded := 0
	for i, in := range e.inputs {
		o := obs[i]
		if o.Class == "skipped" {
			// not run (hangs earlier in this run, reported by the direct check): nothing observed to compare
			res.Count("corr.class.skipped")
			continue
		}
		if o.Class == "ok" && o.Term == "" {
			undecoded++
		}
		res.Count("corr.class." + o.Class)
		cf.Add(caseTerm(in, o), in)
		if len(cf.Cases) >= casesPerFile {
			flush()
		}
	}
	flush()
	res.Extra["corr_cases"] = len(e.inputs)
	res.Extra["corr_values_not_decoded"] = undecoded
}
