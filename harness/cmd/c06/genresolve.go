// Input generators of C06 for the resolve stage: texts handed to Context.ParseType whose parse succeeds and whose
// resolution walks the positional creators (types/resolver.go:18) with argument lists of every shape:
//
//	resolve-listform  every parameterized type name x (list-form argument of 0..4 elements of every kind, nested lists)
//	                  alone, followed / preceded by one more argument, followed by two more
//	resolve-deferred  every type name x Deferred(...) / call forms (empty, variable, unknown function, new) as an
//	                  argument, inside a list argument, as a hash key or value
//	resolve-hash      every hash-taking form x every known init-hash key x every value shape; members of Object /
//	                  TypeSet one level down; pairs of keys
//	resolve-nested-created (main.go, second phase) every type the run created, as an argument of other types - in
//	                  particular where the outer creator rejects it and words the error with the type
//	resolve-random2   random type expressions over the pools above
package main

import (
	"fmt"
	"strings"

	"verifharness/lib"
)

// parameterless: type names whose meta type has no parameters or that are not core types: every `T[...]` of these takes
// the same path (ResolveWithParams -> NotParameterizedType / the loader); they stay in resolve-args (all type names x
// all argument lists <= 2) and in resolve-deferred, the wider families use the parameterized names.
var parameterless = map[string]bool{"Any": true, "Binary": true, "Data": true, "Default": true, "Numeric": true, "RichData": true,
	"Scalar": true, "ScalarData": true, "Undef": true, "Unit": true, "Target": true, "Error": true, "Deferred": true}

func parameterizedNames() []string {
	var r []string
	for _, tn := range typeNames {
		if !parameterless[tn] {
			r = append(r, tn)
		}
	}
	return r
}

// kindPool: one literal per kind of argument a creator distinguishes (string as a bare word and quoted, integer,
// boolean, type, default); tailPool: what follows or precedes the list-form argument.
var kindPool = []string{"a", "'b'", "1", "true", "Integer", "default"}
var tailPool = []string{"c", "true", "3", "default", "Integer", "[d]"}
var tail2Pool = []string{"c", "true", "3"}

func listForms() []string {
	var ls []string
	wordsOverSep(kindPool, 2, func(w []string) { ls = append(ls, "["+strings.Join(w, ", ")+"]") })
	wordsOverSepExact([]string{"a", "true"}, 3, func(w []string) { ls = append(ls, "["+strings.Join(w, ", ")+"]") })
	wordsOverSepExact([]string{"'b'", "1"}, 3, func(w []string) { ls = append(ls, "["+strings.Join(w, ", ")+"]") })
	ls = append(ls, "[a, b, c, d]", "[a, b, c, true]", "[Integer, String, 1, 2]", "[1, 2, 3, 4]",
		"[[a, b]]", "[[a, b], c]", "[[a], [b]]", "[[]]", "[[], a]", "[a, [b, c]]", "[[a, b, c], true]", "[[Integer, String], 1]")
	return ls
}

func wordsOverSep(alpha []string, maxLen int, each func([]string)) {
	var rec func(prefix []string)
	rec = func(prefix []string) {
		each(prefix)
		if len(prefix) == maxLen {
			return
		}
		for _, a := range alpha {
			rec(append(prefix[:len(prefix):len(prefix)], a))
		}
	}
	rec(nil)
}

func wordsOverSepExact(alpha []string, n int, each func([]string)) {
	wordsOverSep(alpha, n, func(w []string) {
		if len(w) == n {
			each(w)
		}
	})
}

func resolveListForm(th bool) []string {
	var ts []string
	ls := listForms()
	for _, tn := range parameterizedNames() {
		for _, l := range ls {
			ts = append(ts, tn+"["+l+"]")
			for _, x := range tailPool {
				ts = append(ts, tn+"["+l+", "+x+"]", tn+"["+x+", "+l+"]")
			}
			for _, x := range tail2Pool {
				for _, y := range tail2Pool {
					ts = append(ts, tn+"["+l+", "+x+", "+y+"]")
					if th {
						ts = append(ts, tn+"["+x+", "+l+", "+y+"]", tn+"["+x+", "+y+", "+l+"]")
					}
				}
			}
		}
	}
	return ts
}

// resolveArgs34: every parameterized type name x every argument list of three arguments over one literal per kind
// (string, quoted string, integer, boolean, type, default, list, regexp) and of four over four kinds: the creators
// that take sizes, ranges, return/block types or patterns after their first arguments, and their error paths.
func resolveArgs34(th bool) []string {
	var ts []string
	k3 := []string{"a", "'b'", "1", "true", "Integer", "default", "[c]", "/x/"}
	k4 := []string{"a", "1", "Integer", "default"}
	if th {
		k4 = []string{"a", "1", "Integer", "default", "true", "[c]"}
	}
	for _, tn := range parameterizedNames() {
		wordsOverSepExact(k3, 3, func(w []string) { ts = append(ts, tn+"["+strings.Join(w, ", ")+"]") })
		wordsOverSepExact(k4, 4, func(w []string) { ts = append(ts, tn+"["+strings.Join(w, ", ")+"]") })
		wordsOverSepExact([]string{"Integer", "1"}, 5, func(w []string) { ts = append(ts, tn+"["+strings.Join(w, ", ")+"]") })
	}
	return ts
}

// deferredPool: the special form Deferred(...) and call forms as they reach deferred.Resolve (types/deferred.go:113):
// empty name, variable names (with and without a name after the '$', with something to dig), unknown function,
// `new` with good / bad / missing arguments, nested.
var deferredPool = []string{
	"Deferred('')", "Deferred('', 1)", "Deferred('x')", "Deferred('$x')", "Deferred('$')", "Deferred('$x', 0)", "Deferred('$', 0)",
	"Deferred('new', Integer, 3)", "Deferred('new', String, 'a')", "Deferred('new')", "Deferred('new', 1)", "Deferred('new', Integer)",
	"Deferred('new', Deferred('x'))", "Deferred('new', Array, [1, 2])", "Deferred('new', Type, 'Integer')", "Deferred('é')",
	"Foo(1)", "Foo()", "Integer(3)", "Integer('x')", "String(1)", "Array([1])", "Type('Integer')", "Foo::Bar(a => 1)",
}

func resolveDeferred() []string {
	var ts []string
	for _, tn := range typeNames {
		for _, d := range deferredPool {
			ts = append(ts, tn+"["+d+"]", tn+"[["+d+"]]", tn+"[["+d+", a]]", tn+"[{a => "+d+"}]", tn+"[{"+d+" => 1}]")
			for _, x := range tailPool {
				ts = append(ts, tn+"["+d+", "+x+"]", tn+"["+x+", "+d+"]")
			}
		}
	}
	return ts
}

// resolveEnumArgs: the creator that coq/Model/Resolve.v models, bounded-exhaustively: every argument list up to four
// arguments over a string (bare and quoted, upper case for the case-insensitive flag), both flags, the array form
// (two elements, empty, nested), and a value of another kind.
func resolveEnumArgs(th bool) []string {
	var ts []string
	alpha := []string{"a", "'B'", "true", "false", "[a, 'C']", "[]", "1", "[[d]]"}
	n := 4
	if th {
		n = 5
	}
	wordsOverSep(alpha, n, func(w []string) { ts = append(ts, "Enum["+strings.Join(w, ", ")+"]") })
	ts = append(ts, "Enum[[a, b, c, d, e, f, g, h], i, j, k, true]", "Enum[[[[[a, b]]]]]", "Enum[[[a, b], c]]", "Enum[['É', 'ß'], 'Σ', true]", "Enum[[], true]", "Enum[[], a, b]")
	return ts
}

// resolveDeferredNames: every name over a small alphabet ('$', a letter, a multi-byte letter, a space, a digit) up to
// three characters, alone and with an argument: the name test of deferred.Resolve (types/deferred.go:119).
func resolveDeferredNames() []string {
	var ts []string
	wordsOver([]string{"$", "x", "é", " ", "0"}, 3, func(w string) {
		ts = append(ts, "Array[Deferred('"+w+"')]", "Array[Deferred('"+w+"', 0)]", "Integer[Deferred(\""+w+"\", 'a', [1])]", "Foo[Deferred('"+w+"')]")
	})
	return ts
}

// hashKeys: every key an init hash of a core type knows (objecttype.go:36-50, typeset.go:19-23, px/runtime.go:12,
// timespantype.go:40-49, uritype.go, attribute.go, annotatedmember.go, the attribute names of the meta types) and one
// unknown key.
var hashKeys = []string{
	"name", "parent", "type_parameters", "attributes", "constants", "functions", "equality", "equality_include_type", "checks",
	"annotations", "serialization", "kind", "final", "override", "type", "value", "go_name",
	"pcore_uri", "pcore_version", "name_authority", "version", "version_range", "types", "references",
	"string", "format", "negative", "days", "hours", "minutes", "seconds", "milliseconds", "microseconds", "nanoseconds",
	"scheme", "userinfo", "host", "port", "path", "query", "fragment", "opaque",
	"from", "to", "element_type", "size_type", "key_type", "value_type", "values", "case_insensitive", "patterns", "elements",
	"param_types", "block_type", "return_type", "init_args", "runtime", "pattern", "ranges", "min", "max", "zzz",
}

// hashValues: one value of every shape an init-hash member may be given.
var hashValues = []string{
	"1", "-1", "'a'", "''", "true", "undef", "default", "1.5", "/x/", "Integer", "Type[Integer]", "Optional[Integer]", "Foo", "[]", "[a]",
	"[Integer]", "[1, 2]", "{}", "{a => Integer}", "{a => 1}", "{type => Integer}", "{type => Integer, value => 'x'}", "{type => Integer, value => 3}",
	"'Integer'", "'1.0.0'", "'Foo['", "Deferred('x')", "{a => {type => Integer}}", "[[a, b]]", "Integer[1]",
}

// hashForms: the forms that hand a hash to a creator or to NamedType (parser.go:hash after a type name / `type X =`).
var hashForms = []string{"Object[%s]", "TypeSet[%s]", "Struct[%s]", "URI[%s]", "Timespan[%s]", "Timestamp[%s]", "Init[Integer, %s]", "Hash[%s]",
	"Runtime[%s]", "Foo[%s]", "type X = %s", "Foo%s", "Object%s", "TypeSet%s", "type X = Object[%s]", "type X = Foo%s"}

var hashFewKeys = []string{"name", "type", "types", "attributes", "zzz"}

func resolveHash(th bool, rng *lib.Rng) []string {
	var ts []string
	one := func(form, h string) { ts = append(ts, strings.Replace(form, "%s", h, -1)) }
	for _, f := range hashForms {
		for _, k := range hashKeys {
			for _, v := range hashValues {
				one(f, "{"+k+" => "+v+"}")
			}
		}
	}
	// the other type names: a few keys
	for _, tn := range typeNames {
		f := tn + "[%s]"
		skip := false
		for _, g := range hashForms {
			skip = skip || f == g
		}
		if skip {
			continue
		}
		for _, k := range hashFewKeys {
			for _, v := range hashValues {
				one(f, "{"+k+" => "+v+"}")
			}
		}
	}
	// members of Object one level down; `type` is what a member needs, so every member key is also tried next to it
	memberKeys := []string{"type", "value", "kind", "final", "override", "annotations", "go_name", "zzz"}
	for _, sect := range []string{"attributes", "functions", "type_parameters", "constants"} {
		for _, mk := range memberKeys {
			for _, v := range hashValues {
				one("Object[%s]", "{"+sect+" => {a => {"+mk+" => "+v+"}}}")
				one("Object[%s]", "{"+sect+" => {a => {type => Integer, "+mk+" => "+v+"}}}")
				if th {
					one("Object[%s]", "{name => 'X', "+sect+" => {a => {type => Callable[Integer], "+mk+" => "+v+"}}}")
				}
			}
		}
		for _, v := range hashValues {
			one("Object[%s]", "{"+sect+" => {a => "+v+", b => "+v+"}}")
			one("Object[%s]", "{parent => Object[{"+sect+" => {a => Integer}}], "+sect+" => {a => "+v+"}}")
			one("Object[%s]", "{"+sect+" => {a => Integer}, serialization => "+v+"}")
			one("Object[%s]", "{"+sect+" => {a => Integer}, equality => "+v+"}")
		}
	}
	for _, kind := range []string{"constant", "derived", "given_or_derived", "reference", "'zzz'"} {
		for _, v := range hashValues {
			one("Object[%s]", "{attributes => {a => {type => Integer, kind => "+kind+", value => "+v+"}}}")
		}
	}
	// a parameterized object type and its extension (resolver.go:20)
	for _, v := range hashValues {
		one("Object[%s]", "{type_parameters => {a => "+v+"}, attributes => {a => Integer}}")
		one("Object[{type_parameters => {a => Integer}, attributes => {a => Integer}}][%s]", v)
	}
	// members of TypeSet: the two required keys given, every other key with every value; types / references one level down
	for _, k := range hashKeys {
		for _, v := range hashValues {
			one("TypeSet[%s]", "{pcore_version => '1.0.0', version => '1.0.0', "+k+" => "+v+"}")
		}
	}
	for _, v := range hashValues {
		one("TypeSet[%s]", "{pcore_version => '1.0.0', version => '1.0.0', types => {A => "+v+"}}")
		one("TypeSet[%s]", "{pcore_version => '1.0.0', version => '1.0.0', types => {A => Integer}, references => {R => "+v+"}}")
		for _, rk := range []string{"name", "version_range", "name_authority", "annotations", "zzz"} {
			one("TypeSet[%s]", "{pcore_version => '1.0.0', version => '1.0.0', types => {A => Integer}, references => {R => {name => 'B', version_range => '1.x', "+rk+" => "+v+"}}}")
		}
	}
	// pairs of keys of Object and TypeSet, sampled
	n := 4000
	if th {
		n = 60000
	}
	for i := 0; i < n; i++ {
		r := rng.Fork()
		k1, k2 := hashKeys[r.Intn(24)], hashKeys[r.Intn(24)]
		v1, v2 := hashValues[r.Intn(len(hashValues))], hashValues[r.Intn(len(hashValues))]
		f := []string{"Object[%s]", "TypeSet[%s]", "type X = %s", "Foo%s"}[r.Intn(4)]
		one(f, fmt.Sprintf("{%s => %s, %s => %s}", k1, v1, k2, v2))
	}
	return ts
}

// nestForms: where a created type is put in the second phase; Integer[..] / Enum[..] / String[..] reject a type
// argument and word the error with the type of the actual value, the others keep it.
var nestForms = []string{"Integer[%s]", "Enum[%s]", "String[1, %s]", "Array[%s]", "Array[%s, %s]", "Variant[%s, %s]", "Variant[%s, Integer]", "Type[%s]", "Optional[%s]",
	"Hash[%s, %s]", "Tuple[%s, 1, %s]", "Struct[{a => %s}]", "Struct[{%s => Integer}]", "Callable[%s]", "Callable[[%s], %s]", "NotUndef[%s]", "Sensitive[%s]", "Iterable[%s]",
	"Like[%s, a]", "Init[%s, 1]", "TypeAlias[X, %s]", "Object[{attributes => {a => %s}}]", "Object[{parent => %s}]", "%s[1]", "%s[%s]"}

func nestCreated(created []string, each func(string)) {
	for _, c := range created {
		for _, f := range nestForms {
			each(strings.Replace(f, "%s", c, -1))
		}
	}
}

// randomTypeExpr: a random type expression over the pools of this file (arguments of every kind, list forms,
// Deferred forms, hashes), nested up to depth.
func randomTypeExpr(r *lib.Rng, depth int) string {
	tn := typeNames[r.Intn(len(typeNames))]
	n := r.Intn(5)
	if n == 0 {
		return tn
	}
	args := make([]string, n)
	for i := range args {
		args[i] = randomArg(r, depth-1)
	}
	return tn + "[" + strings.Join(args, ", ") + "]"
}

func randomArg(r *lib.Rng, depth int) string {
	switch k := r.Intn(12); {
	case k < 3:
		return kindPool[r.Intn(len(kindPool))]
	case k < 5:
		return argPool[r.Intn(len(argPool))]
	case k < 7 && depth > 0:
		n := r.Intn(4)
		es := make([]string, n)
		for i := range es {
			es[i] = randomArg(r, depth-1)
		}
		return "[" + strings.Join(es, ", ") + "]"
	case k < 8:
		return deferredPool[r.Intn(len(deferredPool))]
	case k < 9 && depth > 0:
		n := r.Intn(3)
		es := make([]string, n)
		for i := range es {
			key := hashKeys[r.Intn(len(hashKeys))]
			if r.Chance(1, 4) {
				key = randomArg(r, depth-1)
			}
			es[i] = key + " => " + randomArg(r, depth-1)
		}
		return "{" + strings.Join(es, ", ") + "}"
	case k < 10:
		return hashValues[r.Intn(len(hashValues))]
	default:
		if depth > 0 {
			return randomTypeExpr(r, depth)
		}
		return tailPool[r.Intn(len(tailPool))]
	}
}
