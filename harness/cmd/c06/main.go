// c06: the parser is total — it terminates and fails only with located parse errors.
//
// G  generators (gen.go): corpus, bounded-exhaustive token sequences, truncations / single-byte mutations /
//
//	insertions of valid expressions, number- and string-scanner words, invalid UTF-8, seeded random.
//
// D  direct check on the implementation (this file, checkParse / checkParseType): every call runs in a child
//
//	process under a deadline (worker.go); a timeout, a Go runtime fault (raw or wrapped as a parse error),
//	a non-reported panic or a location outside the input is a violation with that input as the replay.
//
// M  model tie (emit.go): a sample of the inputs with the observed result (class, line, column, value,
//
//	token stream) as Gallina terms for coq/Corr/CorrC06.v; for the resolve stage the Enum[...] and
//	T[Deferred(...)] inputs with what Context.ParseType made of them (genresolve.go, impl.go resolveObs).
package main

import (
	"encoding/hex"
	"flag"
	"fmt"
	"os"
	"path/filepath"
	"strings"
	"time"
	"unicode/utf8"

	"verifharness/lib"
)

var workerFlag = flag.Bool("worker", false, "serve implementation calls on stdin/stdout (internal)")

type input struct {
	Kind   string `json:"kind"` // "parse" | "parsetype"
	Hex    string `json:"hex"`
	Text   string `json:"text"` // for the reader only (the bytes are in Hex)
	Family string `json:"family,omitempty"`
}

func mkInput(kind, s, family string) input {
	return input{Kind: kind, Hex: hex.EncodeToString([]byte(s)), Text: fmt.Sprintf("%q", s), Family: family}
}

func (in input) bytes() string {
	b, _ := hex.DecodeString(in.Hex)
	return string(b)
}

func main() {
	cfg := lib.ParseFlags()
	if *workerFlag {
		serve()
		return
	}
	res := lib.NewResult("C06")
	res.Rule = "an input is non-trivial when the implementation rejects it (any error class) or it contains a bracket, brace, " +
		"parenthesis, comma, '=' or a quote (more than a single plain token); distinct = distinct input byte strings"
	rng := lib.NewRng(cfg.Seed)
	pool := NewPool()
	if cfg.Replay != "" {
		replay(cfg, res, pool)
	} else {
		run(cfg, res, rng, pool)
	}
	res.Extra["timeouts"] = pool.Timeouts
	res.Extra["worker_crashes"] = pool.Crashes
	res.Extra["skipped_after_hangs"] = pool.Skipped
	res.Write(cfg)
}

// locationOK: the location convention of utils.StringReader (reader.go:19-44), pinned by the expected messages of
// types/parser_test.go:74, px/context_test.go:50 and loader/filebased_test.go:30: lines count from 1; the column
// counts the characters read on the line; on every line after the first the newline that ended the previous
// line counts as column 1, and reading past the end of the input counts as one more column. "Within the input":
// 1 <= line <= number of lines, 0 <= column <= characters of that line + 1 (+1 more after the first line).
func locationOK(s string, line, col int) bool {
	lines := strings.Split(s, "\n")
	if line < 1 || line > len(lines) {
		return false
	}
	max := utf8.RuneCountInString(lines[line-1]) + 1
	if line > 1 {
		max++
	}
	return col >= 0 && col <= max
}

func nontrivial(s string, o Obs) bool {
	return o.Class != "ok" || strings.ContainsAny(s, "[{(=,'\"")
}

// checkParse is the direct check D for types.Parse on one input.
func checkParse(res *lib.Result, in input, o Obs) (violated bool) {
	s := in.bytes()
	v := func(clause, what string, tags ...string) {
		violated = true
		res.Violate(lib.Violation{Clause: clause, What: fmt.Sprintf("types.Parse(%s): %s", in.Text, what), Input: in, Tags: tags})
	}
	switch o.Class {
	case "ok", "skipped":
	case "timeout":
		v("terminates", "does not return within "+singleDeadline.String()+" (hang)", "hang")
	case "crash":
		v("terminates", "the process died (memory limit / fatal error)", "crash")
	case "runtime":
		v("no-runtime-fault", "a Go runtime fault escapes: "+o.Msg, "raw")
	case "reported":
		if o.Code != "PARSE_ERROR" {
			v("reported-parse-error", "raises the issue "+o.Code+" instead of a PARSE_ERROR: "+o.Msg)
		}
		if faultMessage(o.Msg) {
			v("no-runtime-fault", "a Go runtime fault is wrapped as a parse error: "+o.Msg, "wrapped")
		}
		if !locationOK(s, o.Line, o.Col) {
			v("location-within-input", fmt.Sprintf("the parse error is located at line %d, column %d, outside the input: %s", o.Line, o.Col, o.Msg))
		}
	default:
		v("reported-parse-error", "panics with a value that is not a reported error ("+o.Class+"): "+o.Msg)
	}
	return
}

// checkParseType is the direct check D for Context.ParseType (parse, then resolve to a type).
func checkParseType(res *lib.Result, in input, o Obs) (violated bool) {
	s := in.bytes()
	v := func(clause, what string, tags ...string) {
		violated = true
		res.Violate(lib.Violation{Clause: clause, What: fmt.Sprintf("Context.ParseType(%s): %s", in.Text, what), Input: in, Tags: tags})
	}
	switch o.Class {
	case "skipped":
	case "ok":
		if o.Aux["nil"] == "true" {
			v("resolve-returns-type", "returns a nil Type without raising an error")
		}
	case "timeout":
		v("resolve-terminates", "does not return within "+singleDeadline.String()+" (hang)", "hang")
	case "crash":
		v("resolve-terminates", "the process died (memory limit / fatal error)", "crash")
	case "runtime":
		v("resolve-no-runtime-fault", "a Go runtime fault escapes: "+o.Msg, "raw")
	case "reported":
		if faultMessage(o.Msg) {
			v("resolve-no-runtime-fault", "a Go runtime fault is wrapped as a reported error: "+o.Msg, "wrapped")
		}
		if o.Code == "PARSE_ERROR" && !locationOK(s, o.Line, o.Col) {
			v("location-within-input", fmt.Sprintf("the parse error is located at line %d, column %d, outside the input: %s", o.Line, o.Col, o.Msg))
		}
	default:
		v("resolve-reported-error", "panics with a value that is not a reported error ("+o.Class+"): "+o.Msg)
	}
	return
}

type family struct {
	name   string
	kind   string // parse | parsetype
	inputs []string
	// how many of the family go to the Coq file (evenly strided)
	coq int
	// collect: the types this family creates are nested into other types in the second phase
	collect bool
}

func run(cfg *lib.Config, res *lib.Result, rng *lib.Rng, pool *Pool) {
	fams := families(cfg, rng)
	em := newEmitter()
	total := 0
	// every failing input of the run, one per line (triage aid; the replay files hold the first few per clause)
	all, _ := os.Create(filepath.Join(cfg.Out, "failing_inputs.txt"))
	defer all.Close()
	nall := 0
	// created: inputs of the resolve families on which ParseType returned a type, at most three per distinct printed
	// text (all when printing failed), in order of appearance: the material of the second phase
	var created, createdUnprintable []string
	perOut := map[string]int{}
	runFamily := func(f family) {
		op := "P"
		if f.kind == "parsetype" {
			op = "T"
		}
		reqs := make([]Req, len(f.inputs))
		for i, s := range f.inputs {
			reqs[i] = Req{op, s}
		}
		obs := pool.Run(reqs)
		stride := 1
		if f.coq > 0 {
			stride = len(f.inputs)/f.coq + 1
		}
		for i, s := range f.inputs {
			in := mkInput(f.kind, s, f.name)
			o := obs[i]
			res.Evaluations++
			total++
			res.Count(f.kind + "." + f.name)
			res.Count("class." + f.kind + "." + o.Class)
			if nontrivial(s, o) {
				res.Nontrivial(f.kind + ":" + s)
			}
			var bad bool
			if f.kind == "parse" {
				bad = checkParse(res, in, o)
			} else {
				bad = checkParseType(res, in, o)
				if o.Class == "ok" && o.Aux["nil"] != "true" && f.collect && len(s) <= 120 && !strings.HasPrefix(s, "type ") {
					key := o.Out + "\x00" + o.Aux["printfail"]
					lim := 3
					if o.Aux["printfail"] != "" {
						lim = 12
					}
					if perOut[key] < lim {
						perOut[key]++
						if o.Aux["printfail"] != "" {
							// a type that cannot be printed is the first candidate for a fault in an error message
							createdUnprintable = append(createdUnprintable, s)
						} else {
							created = append(created, s)
						}
					}
				}
			}
			if bad && nall < 50000 {
				nall++
				fmt.Fprintf(all, "%s\t%s\t%s\t%s\t%d:%d\t%s\n", f.kind, f.name, in.Text, o.Class, o.Line, o.Col, o.Msg)
			}
			if (f.coq > 0 && i%stride == 0) || (bad && em.nbad < 20) {
				if bad {
					em.nbad++
				}
				em.want(in)
			}
			if f.kind == "parsetype" {
				em.wantResolve(in, bad && len(em.rbad) < 20)
				em.wantTypeSet(in, o)
			}
			if total%9973 == 1 {
				res.Sample(map[string]interface{}{"input": in, "observed": o})
			}
		}
	}
	for _, f := range fams {
		t0 := time.Now()
		runFamily(f)
		if os.Getenv("C06_TIMING") != "" {
			fmt.Fprintf(os.Stderr, "family %-28s %-9s %7d inputs %6.1fs timeouts=%d crashes=%d\n", f.name, f.kind, len(f.inputs), time.Since(t0).Seconds(), pool.Timeouts, pool.Crashes)
		}
	}
	// second phase: every type the run created as an argument of other types
	{
		max := 1200
		if cfg.Thorough() {
			max = 6000
		}
		if len(created) > max {
			stride := len(created)/max + 1
			var c2 []string
			for i := 0; i < len(created); i += stride {
				c2 = append(c2, created[i])
			}
			created = c2
		}
		if len(createdUnprintable) > 300 {
			createdUnprintable = createdUnprintable[:300]
		}
		created = append(createdUnprintable, created...)
		var ns []string
		nestCreated(created, func(s string) { ns = append(ns, s) })
		res.Extra["created_types_nested"] = len(created)
		runFamily(family{name: "resolve-nested-created", kind: "parsetype", inputs: ns})
	}
	res.Exhaustive = false
	em.emit(cfg, res, pool)
}

func families(cfg *lib.Config, rng *lib.Rng) []family {
	th := cfg.Thorough()
	var fams []family
	add := func(name, kind string, coq int, inputs []string) {
		fams = append(fams, family{name: name, kind: kind, inputs: inputs, coq: coq})
	}
	sc := func(quick, thorough int) int {
		if th {
			return thorough
		}
		return quick
	}

	add("corpus", "parse", len(corpus), corpus)
	add("corpus", "parsetype", len(corpus), corpus)

	// token sequences, bounded-exhaustive
	maxTok := sc(3, 4)
	for _, sep := range []string{" ", "", "\n"} {
		var seqs []string
		var rec func(prefix []string)
		rec = func(prefix []string) {
			if len(prefix) > 0 {
				seqs = append(seqs, joinTokens(prefix, sep))
			}
			lim := maxTok
			if sep != " " {
				lim = maxTok - 1
			}
			if len(prefix) == lim {
				return
			}
			for _, t := range tokenAlphabet {
				rec(append(prefix[:len(prefix):len(prefix)], t))
			}
		}
		rec(nil)
		name := map[string]string{" ": "tokens-space", "": "tokens-adjacent", "\n": "tokens-newline"}[sep]
		add(name, "parse", sc(500, 2500), seqs)
	}
	// longer random token sequences
	{
		var seqs []string
		for i := 0; i < sc(60000, 600000); i++ {
			r := rng.Fork()
			n := 4 + r.Intn(7)
			toks := make([]string, n)
			for j := range toks {
				toks[j] = tokenAlphabet[r.Intn(len(tokenAlphabet))]
			}
			seqs = append(seqs, joinTokens(toks, []string{" ", " ", "", "\n"}[r.Intn(4)]))
		}
		add("tokens-random", "parse", sc(200, 1500), seqs)
	}
	// truncations, deletions, replacements of valid expressions
	{
		var ms []string
		for _, e := range validExpressions {
			mutations(e, func(s string) { ms = append(ms, s) })
		}
		add("mutations", "parse", sc(500, 3000), ms)
		var is []string
		for i, e := range validExpressions {
			if th || i%3 == 0 {
				insertions(e, func(s string) { is = append(is, s) })
			}
		}
		add("insertions", "parse", sc(200, 1500), is)
	}
	// valid expressions themselves, and with invalid UTF-8 at every position
	{
		add("valid", "parse", len(validExpressions), validExpressions)
		var us []string
		for i, e := range validExpressions {
			if !th && i%4 != 0 {
				continue
			}
			for p := 0; p <= len(e); p++ {
				for _, u := range invalidUTF8 {
					us = append(us, e[:p]+u+e[p:])
				}
			}
		}
		add("invalid-utf8", "parse", sc(150, 1000), us)
	}
	// nesting: every enclosing form around every valid expression / argument, two levels
	{
		inner := append(append([]string{}, validExpressions...), argPool...)
		var l1, l2 []string
		nestings(inner, func(s string) { l1 = append(l1, s) })
		var short []string
		for _, s := range l1 {
			if len(s) <= 24 {
				short = append(short, s)
			}
		}
		nestings(short, func(s string) { l2 = append(l2, s) })
		add("nesting", "parse", sc(300, 2000), append(l1, l2...))
		add("resolve-nesting", "parsetype", 0, l1)
	}
	// number scanner words
	{
		var ws []string
		wordsOver(bytesToStrings(numberAlphabet), sc(4, 5), func(w string) {
			ws = append(ws, w, "["+w+"]", "1"+w)
		})
		add("numbers", "parse", sc(500, 3000), ws)
	}
	// string / regexp bodies
	{
		var ws []string
		wordsOver(stringAlphabet, sc(3, 4), func(w string) {
			ws = append(ws, "'"+w+"'", "\""+w+"\"", "/"+w+"/", "'"+w, "1 '"+w+"' ]", "1 /"+w+"/ ]")
		})
		add("strings", "parse", sc(400, 3000), ws)
	}
	// random: mutated random expressions and random bytes
	{
		var rs []string
		for i := 0; i < sc(40000, 500000); i++ {
			r := rng.Fork()
			e := randomExpr(r, 1+r.Intn(4))
			switch r.Intn(4) {
			case 0:
			case 1:
				if len(e) > 0 {
					e = e[:r.Intn(len(e)+1)]
				}
			case 2:
				if len(e) > 0 {
					p := r.Intn(len(e))
					e = e[:p] + string([]byte{mutationBytes[r.Intn(len(mutationBytes))]}) + e[p+1:]
				}
			default:
				p := r.Intn(len(e) + 1)
				e = e[:p] + randomBytes(r, 1+r.Intn(3)) + e[p:]
			}
			rs = append(rs, e)
		}
		add("random-expr", "parse", sc(300, 2000), rs)
		var bs []string
		for i := 0; i < sc(40000, 500000); i++ {
			r := rng.Fork()
			bs = append(bs, randomBytes(r, 1+r.Intn(24)))
		}
		add("random-bytes", "parse", sc(300, 2000), bs)
	}
	// resolve: every type name applied to every argument list over the pool
	{
		var ts []string
		maxArgs := sc(2, 3)
		for _, tn := range typeNames {
			ts = append(ts, tn)
			var rec func(args []string)
			rec = func(args []string) {
				if len(args) > 0 {
					ts = append(ts, tn+"["+strings.Join(args, ", ")+"]")
				}
				if len(args) == maxArgs {
					return
				}
				for _, a := range argPool {
					rec(append(args[:len(args):len(args)], a))
				}
			}
			rec(nil)
		}
		add("resolve-args", "parsetype", 0, ts)
		add("resolve-valid", "parsetype", 0, validExpressions)
		var ms []string
		for i, e := range validExpressions {
			if th || i%2 == 0 {
				mutations(e, func(s string) { ms = append(ms, s) })
			}
		}
		add("resolve-mutations", "parsetype", 0, ms)
		var rs []string
		for i := 0; i < sc(20000, 300000); i++ {
			r := rng.Fork()
			rs = append(rs, randomExpr(r, 1+r.Intn(4)))
		}
		add("resolve-random", "parsetype", 0, rs)
		addc := func(name string, inputs []string) {
			fams = append(fams, family{name: name, kind: "parsetype", inputs: inputs, collect: true})
		}
		addc("resolve-listform", resolveListForm(th))
		addc("resolve-args34", resolveArgs34(th))
		addc("resolve-enum-args", resolveEnumArgs(th))
		addc("resolve-deferred", resolveDeferred())
		addc("resolve-deferred-names", resolveDeferredNames())
		addc("resolve-hash", resolveHash(th, rng))
		var r2 []string
		for i := 0; i < sc(15000, 300000); i++ {
			r := rng.Fork()
			r2 = append(r2, randomTypeExpr(r, 1+r.Intn(3)))
		}
		addc("resolve-random2", r2)
		// user-declared types that refer to each other (gentypeset.go)
		add("resolve-override", "parsetype", 0, overrideTexts)
		add("resolve-type-params", "parsetype", 0, typeParamTexts)
		add("resolve-typeset-pairs", "parsetype", 0, resolveTypeSetPairs())
		add("resolve-typeset-random", "parsetype", 0, resolveTypeSetRandom(sc(6000, 100000), rng))
		add("resolve-new-from-hash", "parsetype", 0, resolveNewFromHash(th))
		add("resolve-typeset-variant-cycle", "parsetype", 0, typeSetVariantCycles())
		add("resolve-typeset-illegal-parent", "parsetype", 0, typeSetIllegalParents())
		// fifth wave (genhier.go): hierarchies of depth 1..3, Like types, hostile hash forms
		add("resolve-equality", "parsetype", 0, equalityTexts)
		add("resolve-hierarchy-errors", "parsetype", 0, resolveHierarchyErrors())
		add("resolve-like", "parsetype", 0, likeTexts)
		add("resolve-like-wide", "parsetype", 0, resolveLikeWide())
		add("resolve-time-hash", "parsetype", 0, resolveTimeHash())
		// the walk over a set of alias declarations (genalias.go), tied to coq/Model/ResolveAlias.v
		add("resolve-alias-sets", "parsetype", 0, aliasTexts)
		add("resolve-alias-printer", "parsetype", 0, aliasPrinterTexts)
		add("resolve-alias-random", "parsetype", 0, resolveAliasRandom(sc(800, 3000), rng))
	}
	return fams
}

func replay(cfg *lib.Config, res *lib.Result, pool *Pool) {
	em := newEmitter()
	for _, x := range lib.ReplayInputs(cfg.Replay) {
		var in input
		lib.Remarshal(x, &in)
		s := in.bytes()
		op := "P"
		if in.Kind == "parsetype" {
			op = "T"
		}
		o := pool.Run([]Req{{op, s}})[0]
		res.Evaluations++
		fmt.Printf("%s %s\n  => class=%s code=%s line=%d column=%d out=%q\n     %s\n", in.Kind, in.Text, o.Class, o.Code, o.Line, o.Col, o.Out, o.Msg)
		var bad bool
		if in.Kind == "parsetype" {
			bad = checkParseType(res, in, o)
		} else {
			bad = checkParse(res, in, o)
		}
		if bad {
			for _, v := range res.Violations {
				fmt.Printf("FAILS [%s]: %s\n", v.Clause, v.What)
			}
		} else {
			fmt.Println("the implementation satisfies the property on this input")
		}
		em.want(in)
		em.wantTypeSet(in, o)
	}
	em.emit(cfg, res, pool)
}
