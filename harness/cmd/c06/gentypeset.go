// Input generators of C06 for the resolve stage of USER-DECLARED types: one text handed to Context.ParseType that
// declares several types which refer to each other - `type T = TypeSet[{... types => {A => .., B => ..}}]` (the type
// set makes its members loadable while they are resolved) - or an Object type whose parent is written in place.
//
//	resolve-override        every pair of member declarations (attribute of every kind / constant / function, with and
//	                        without final and override) as inherited member x overriding member, over four routes of
//	                        inheritance (direct, over an intermediate type, over an alias, parent in place); also
//	                        the overriding member without an inherited one. Tied to coq/Model/ResolveObj.v (declare).
//	resolve-type-params     Object types with 1..3 type parameters (own, or inherited + own) x every positional
//	                        argument list of up to n+2 arguments over {default, fitting, not fitting} and the named
//	                        forms. Tied to coq/Model/ResolveObj.v (ext_initialize).
//	resolve-typeset-pairs   every ordered pair of member expressions from a pool (references to each other and to
//	                        themselves directly, in containers, as parent, in members, as type parameters and
//	                        arguments, constants vs functions vs attributes of one name, ...) as A and B
//	resolve-typeset-random  three or four members drawn from the same pool
//	resolve-new-from-hash   Deferred(new, 'TypeName', {key => value}): the hash creators of the core types
package main

import (
	"fmt"
	"strings"

	"verifharness/lib"
)

const tsHead = "type T = TypeSet[{pcore_version => '1.0.0', version => '1.0.0', types => {"
const tsTail = "}}]"

func typeSetText(members ...string) string { return tsHead + strings.Join(members, ", ") + tsTail }

// tsCase: the model case of a generated text: which cases file it goes to and its term up to the observed class.
type tsCase struct {
	file string // "override" | "params" | "equality" | "like" (the last two: genhier.go)
	term string // the term without the class (last field)
}

// tsIndex: text -> model case; filled by the two generators below (deterministic, looked up only, never iterated).
var tsIndex = map[string]tsCase{}

// the two model-tied families are generated once at start-up, so that a replay finds its case in tsIndex as well
var overrideTexts = resolveOverride()
var typeParamTexts = resolveTypeParams()

type mdecl struct {
	sect, text, term string
	asParent         bool
}

// memberDecls: every way of declaring a member that the override check distinguishes.
var memberDecls = []mdecl{
	{"attributes", "Integer", "(DcAttr false None false)", true},
	{"attributes", "{type => Integer, final => true}", "(DcAttr false (Some true) false)", true},
	{"attributes", "{type => Integer, final => false}", "(DcAttr false (Some false) false)", true},
	{"attributes", "{type => Integer, override => true}", "(DcAttr false None true)", false},
	{"attributes", "{type => String, override => true}", "(DcAttr false None true)", false},
	{"attributes", "{type => Integer, override => true, final => true}", "(DcAttr false (Some true) true)", false},
	{"attributes", "{type => Integer, kind => constant, value => 1}", "(DcAttr true None false)", true},
	{"attributes", "{type => Integer, kind => constant, value => 1, override => true}", "(DcAttr true None true)", false},
	{"attributes", "{type => Integer, kind => constant, value => 1, final => true, override => true}", "(DcAttr true (Some true) true)", false},
	{"attributes", "{type => Integer, kind => constant, value => 1, final => false, override => true}", "(DcAttr true (Some false) true)", false},
	{"attributes", "{type => Integer, kind => derived, override => true}", "(DcAttr false None true)", false},
	{"attributes", "{type => Integer, kind => derived}", "(DcAttr false None false)", true},
	{"constants", "1", "DcConst", true},
	{"constants", "'a'", "DcConst", true},
	{"functions", "Callable[[], Integer]", "(DcFunc false false)", true},
	{"functions", "{type => Callable[[], Integer], final => true}", "(DcFunc true false)", true},
	{"functions", "{type => Callable[[], Integer], override => true}", "(DcFunc false true)", false},
	{"functions", "{type => Callable[[Integer], Integer], override => true}", "(DcFunc false true)", false},
	{"functions", "{type => Callable[[], Integer], override => true, final => true}", "(DcFunc true true)", false},
}

// overrideText: the text of one route of inheritance; pa == nil: the parent declares another member.
func overrideText(route int, pa *mdecl, ch mdecl) string {
	sa := "attributes => {y => Integer}"
	if pa != nil {
		sa = pa.sect + " => {x => " + pa.text + "}"
	}
	sb := ch.sect + " => {x => " + ch.text + "}"
	switch route {
	case 0:
		return typeSetText("A => Object[{"+sa+"}]", "B => Object[{parent => A, "+sb+"}]")
	case 1:
		return typeSetText("A => Object[{"+sa+"}]", "M => Object[{parent => A, attributes => {z => String}}]", "B => Object[{parent => M, "+sb+"}]")
	case 2:
		return typeSetText("A => Object[{"+sa+"}]", "M => A", "B => Object[{parent => M, "+sb+"}]")
	default:
		return "Object[{parent => Object[{" + sa + "}], " + sb + "}]"
	}
}

func resolveOverride() []string {
	var ts []string
	for route := 0; route < 4; route++ {
		for ci := range memberDecls {
			ch := memberDecls[ci]
			t := overrideText(route, nil, ch)
			tsIndex[t] = tsCase{"override", "mkOCase None " + ch.term}
			ts = append(ts, t)
			for pi := range memberDecls {
				pa := memberDecls[pi]
				if !pa.asParent {
					continue // needs an inherited member itself
				}
				t := overrideText(route, &pa, ch)
				tsIndex[t] = tsCase{"override", "mkOCase (Some " + pa.term + ") " + ch.term}
				ts = append(ts, t)
			}
		}
	}
	return ts
}

var overrideCodes = map[string]int{"PCORE_OVERRIDE_MEMBER_MISMATCH": 1, "PCORE_OVERRIDE_OF_FINAL": 2, "PCORE_OVERRIDE_IS_MISSING": 3,
	"PCORE_OVERRIDE_TYPE_MISMATCH": 4, "PCORE_OVERRIDDEN_NOT_FOUND": 5, "PCORE_CONSTANT_WITH_FINAL": 8}
var paramsCodes = map[string]int{"PCORE_EMPTY_TYPE_PARAMETER_LIST": 1, "PCORE_TYPE_MISMATCH": 2, "PCORE_MISSING_TYPE_PARAMETER": 3,
	"PCORE_NOT_PARAMETERIZED_TYPE": 4}

// tsClass: the class of an outcome for the model cases (CorrC06.v): 0 a type, 6 runtime fault, 9 no answer within the
// deadline, 7 anything else.
func tsClass(o Obs, codes map[string]int) int {
	switch o.Class {
	case "ok":
		if o.Aux["nil"] == "true" {
			return 7
		}
		return 0
	case "timeout":
		return 9
	case "runtime":
		return 6
	case "reported":
		if faultMessage(o.Msg) {
			return 6
		}
		if c, ok := codes[o.Code]; ok {
			return c
		}
	}
	return 7
}

var tpNames = []string{"p", "q", "r"}
var tpTypes = []string{"Integer", "String", "Boolean"}
var tpGood = []string{"1", "'x'", "true"}

const tpBad = "1.5"

// paramDecls: the member declarations of an Object type with n type parameters; inherited > 0: the first `inherited`
// of them are declared by A and the rest by A2 (parent A). Returns the members and the name to refer to.
func paramDecls(n, inherited int) ([]string, string) {
	obj := func(parent string, lo, hi int) string {
		var tp, at []string
		for i := lo; i < hi; i++ {
			tp = append(tp, tpNames[i]+" => "+tpTypes[i])
			at = append(at, tpNames[i]+" => "+tpTypes[i])
		}
		return "Object[{" + parent + "type_parameters => {" + strings.Join(tp, ", ") + "}, attributes => {" + strings.Join(at, ", ") + "}}]"
	}
	if inherited == 0 {
		return []string{"A => " + obj("", 0, n)}, "A"
	}
	return []string{"A => " + obj("", 0, inherited), "A2 => " + obj("parent => A, ", inherited, n)}, "A2"
}

func resolveTypeParams() []string {
	var ts []string
	kinds := []string{"PgDefault", "PgGood", "PgBad"}
	for n := 1; n <= 3; n++ {
		for inherited := 0; inherited < n; inherited++ {
			if inherited > 0 && inherited != n-1 && inherited != 1 {
				continue
			}
			decls, ref := paramDecls(n, inherited)
			argText := func(k, pos int) string {
				switch k {
				case 0:
					return "default"
				case 1:
					if pos < n {
						return tpGood[pos]
					}
					return tpGood[pos%3]
				}
				return tpBad
			}
			// positional: every list of 1..n+2 arguments
			var rec func(ks []int)
			rec = func(ks []int) {
				if len(ks) > 0 {
					as := make([]string, len(ks))
					tm := make([]string, len(ks))
					for i, k := range ks {
						as[i] = argText(k, i)
						tm[i] = kinds[k]
					}
					for w, wrap := range []string{"%s", "Array[%s]", "Variant[Integer, %s]"} {
						if w > 0 && len(ks) < n {
							continue
						}
						t := typeSetText(append(append([]string{}, decls...), "B => "+fmt.Sprintf(wrap, ref+"["+strings.Join(as, ", ")+"]"))...)
						tsIndex[t] = tsCase{"params", fmt.Sprintf("mkXCase %d%%nat (XPositional %s)", n, lib.GList(tm, "parg"))}
						ts = append(ts, t)
					}
				}
				if len(ks) == n+2 {
					return
				}
				for k := 0; k < 3; k++ {
					rec(append(ks[:len(ks):len(ks)], k))
				}
			}
			rec(nil)
			// named: one or two entries over the parameter names and an unknown name; inside another type, because
			// `B => A[{..}]` as a member of a type set declares an Object type with the parent A (NamedType, types.go:931)
			names := append(append([]string{}, tpNames[:n]...), "zz")
			entry := func(ni, k int) (string, string) {
				idx := "None"
				val := argText(k, ni)
				if ni < n {
					idx = fmt.Sprintf("(Some %d%%nat)", ni)
				} else if k == 1 {
					val = "1"
				}
				return names[ni] + " => " + val, "(" + idx + ", " + kinds[k] + ")"
			}
			for n1 := range names {
				for k1 := 0; k1 < 3; k1++ {
					e1, t1 := entry(n1, k1)
					t := typeSetText(append(append([]string{}, decls...), "B => Array["+ref+"[{"+e1+"}]]")...)
					tsIndex[t] = tsCase{"params", fmt.Sprintf("mkXCase %d%%nat (XNamed %s)", n, lib.GList([]string{t1}, "option nat * parg"))}
					ts = append(ts, t)
					for n2 := range names {
						if n2 == n1 {
							continue
						}
						for k2 := 0; k2 < 3; k2++ {
							e2, t2 := entry(n2, k2)
							t := typeSetText(append(append([]string{}, decls...), "B => Array["+ref+"[{"+e1+", "+e2+"}]]")...)
							tsIndex[t] = tsCase{"params", fmt.Sprintf("mkXCase %d%%nat (XNamed %s)", n, lib.GList([]string{t1, t2}, "option nat * parg"))}
							ts = append(ts, t)
						}
					}
				}
			}
		}
	}
	return ts
}

// tsMemberPool: member expressions of a type set whose members are called A, B, C (and D): references to each other
// and to themselves - directly (aliases, also in a circle), in containers, as parent (directly, over an alias, inside
// another type), in members, as type parameters and as arguments of parameterized Object types - and Object types
// whose members share a name across the sections.
var tsMemberPool = []string{
	"A", "B", "C", "Integer", "Array[A]", "Array[B]", "Optional[A]", "Variant[A, Integer]", "Struct[{a => A}]", "Struct[{a => Optional[B]}]",
	"Hash[String, A]", "Tuple[A, B]", "Type[A]", "Callable[[A], B]", "Enum[A]", "Integer[A]", "Like[A, a]", "Init[A]", "Init[B, 1]", "Iterable[A]", "NotUndef[A]", "Sensitive[B]",
	"Object[{}]", "Object[{parent => A}]", "Object[{parent => B}]", "Object[{parent => C}]", "Object[{parent => Array[A]}]", "Object[{parent => Optional[A]}]",
	"Array[Object[{parent => A}]]", "Optional[Object[{parent => B}]]", "Struct[{a => Object[{parent => A}]}]", "Object[{parent => Object[{parent => A}]}]",
	"Object[{attributes => {a => A}}]", "Object[{attributes => {a => Optional[B]}}]", "Object[{parent => A, attributes => {a => B}}]",
	"Object[{attributes => {a => {type => A, value => undef}}}]", "Object[{attributes => {a => {type => Optional[A], value => undef}}}]",
	"Object[{type_parameters => {p => Integer}}]", "Object[{type_parameters => {p => Integer, q => String}, attributes => {p => Integer, q => String}}]",
	"Object[{type_parameters => {p => A}}]", "Object[{parent => A, type_parameters => {q => String}}]", "Object[{parent => A, type_parameters => {p => String}}]",
	"Object[{parent => B, type_parameters => {p => {type => Integer, value => 3}}}]",
	"A[1]", "A[1, 2]", "A[1, 'x', true]", "A[default]", "A[default, default, 1]", "A[{p => 1}]", "A[{q => 1}]", "A[B]", "A[A]", "B[1]", "B[1, 2]", "Array[A[1, 2, 3]]",
	"Object[{parent => A[1]}]", "Object[{parent => A[1, 2]}]", "Object[{attributes => {a => A[1, 2]}}]",
	"Object[{constants => {x => 1}}]", "Object[{parent => A, constants => {x => 2}}]", "Object[{parent => A, functions => {x => Callable[[], Integer]}}]",
	"Object[{parent => B, functions => {x => {type => Callable[[], Integer], override => true}}}]",
	"Object[{functions => {x => Callable[[], Integer]}}]", "Object[{functions => {x => {type => Callable[[], Integer], final => true}}}]",
	"Object[{parent => A, attributes => {x => Integer}}]", "Object[{parent => A, attributes => {x => {type => Integer, override => true}}}]",
	"Object[{attributes => {x => Integer}}]", "Object[{attributes => {x => {type => Integer, final => true}}}]",
	"Object[{constants => {x => 1}, functions => {x => Callable}}]", "Object[{attributes => {x => Integer}, constants => {x => 1}}]",
	"Object[{attributes => {x => Integer}, functions => {x => Callable}}]",
	"Object[{parent => A, equality => [x]}]", "Object[{attributes => {x => Integer}, equality => [x]}]", "Object[{parent => A, serialization => [x]}]",
	"Object[{parent => A, attributes => {w => Integer}, equality => [x, w]}]",
	"Object[{functions => {f => Callable[[A], B]}}]", "Object[{constants => {c => A}}]", "Object[{constants => {c => B}}]",
	"TypeSet[{pcore_version => '1.0.0', version => '1.0.0', types => {A => A}}]", "TypeSet[{pcore_version => '1.0.0', version => '1.0.0', types => {X => B}}]",
	// Variants over two members (they overflowed the stack before the fix of finding variant-alias-cycle)
	"Variant[A, B]", "Variant[B, C]", "Variant[Optional[B], A]", "Object[{parent => Variant[A, B]}]",
}

// Fixed finding variant-alias-cycle (/repo fix: GuardedIsAssignable guards an alias on the right): a member that is a
// Variant of itself and another alias of the set (`B => Variant[B, C], C => Integer`) overflowed the stack - a fatal
// error - as soon as something compared a type with it (the inferred type of the arguments [Type[B], Type[C]] in the
// wording of an error message, the value of an attribute, the type of an overriding member): the branch of
// GuardedIsAssignable for an alias on the right followed the alias without the recursion guard. The representative
// input and its variations are ordinary inputs now (they must end with a type or a reported error): the alias that
// contains itself without a type in between - directly, through Optional / NotUndef, through one and two further
// aliases, twice, two Variants of each other - used as parent of an Object, member of a Struct, key of a Struct,
// type of an attribute with a value, constant, parameter, element, and where the creator rejects it with a message
// that words the type (Integer[B], Enum[B]), before and after its declaration.
func typeSetVariantCycles() []string {
	ts := []string{typeSetText("A => Object[{parent => B}]", "B => Variant[B, C]", "C => Integer")}
	type self struct{ b, more string }
	selves := []self{
		{"Variant[B, C]", ""}, {"Variant[C, B]", ""}, {"Variant[B, B]", ""}, {"Variant[B, C, B]", ""},
		{"Optional[B]", ""}, {"NotUndef[B]", ""}, {"Variant[Optional[B], C]", ""}, {"Variant[NotUndef[B], C]", ""}, {"Optional[Variant[B, C]]", ""},
		{"Variant[D, C]", "D => B"}, {"Variant[D, C]", "D => E, E => B"}, {"D", "D => Variant[B, C]"}, {"Variant[D, C]", "D => Variant[B, C]"},
		{"Variant[D, B]", "D => Variant[B, D]"}, {"Variant[Variant[B, C], C]", ""}, {"B", ""}, {"D", "D => B"},
	}
	others := []string{"Integer", "String", "Object[{}]", "Array[B]"}
	users := []string{
		"Object[{parent => B}]", "Object[{parent => B, attributes => {x => Integer}}]", "Struct[{m => B}]", "Struct[{Optional[m] => B}]", "Struct[{B => Integer}]",
		"Object[{attributes => {x => B}}]", "Object[{attributes => {x => {type => B, value => 1}}}]", "Object[{attributes => {x => {type => B, value => 'a'}}}]",
		"Object[{attributes => {x => {type => Optional[B], value => undef}}}]", "Object[{constants => {c => B}}]", "Object[{type_parameters => {p => B}}]",
		"Object[{functions => {f => Callable[[B], C]}}]", "Array[B]", "Tuple[B, C]", "Hash[B, C]", "Variant[B, C]", "Variant[C, B]", "Optional[B]", "NotUndef[B]", "Type[B]",
		"Callable[[B], C]", "Init[B]", "Iterable[B]", "Sensitive[B]", "Integer[B]", "Enum[B]", "Integer[B, C]", "String[B]", "Array[Integer, B]", "Like[B, x]", "B", "B[1]",
	}
	for _, sf := range selves {
		for oi, o := range others {
			for ui, u := range users {
				ms := []string{"A => " + u, "B => " + sf.b, "C => " + o}
				if sf.more != "" {
					ms = append(ms, sf.more)
				}
				if (oi+ui)%2 == 1 {
					// the user after the declarations
					ms[0], ms[len(ms)-1] = ms[len(ms)-1], ms[0]
				}
				ts = append(ts, typeSetText(ms...))
			}
		}
	}
	return ts
}

// typeSetIllegalParents (/repo fix 44b8067): an Object type whose parent is a container of members of the set - the
// Object type itself among them - or an alias of one. objectType.resolvedParent words the error with the parent's
// type; wording a Tuple / Variant / Hash infers the common type of its members, which compares the Object type that is
// being rejected with the other member (an interface: the comparison asks for the functions, the inherited ones
// included) - the same error was raised and worded again until the stack overflowed.
func typeSetIllegalParents() []string {
	ts := []string{typeSetText("A => Object[{functions => {x => Callable[[], Integer]}}]", "B => Object[{parent => C}]", "C => Tuple[A, B]"),
		typeSetText("A => Variant[B, C]", "B => Object[{functions => {f => Callable[[A], B]}}]", "C => Object[{parent => A, equality => [x]}]"),
		// thorough tier, seed 1, on the tree before the fix
		typeSetText("C => Tuple[A, B]", "B => Object[{functions => {f => Callable[[A], B]}}]", "A => Object[{parent => C}]")}
	parents := []string{"Tuple[A, B]", "Tuple[B, A]", "Variant[A, B]", "Variant[B, A, Integer]", "Hash[A, B]", "Struct[{a => A, b => B}]", "Callable[[A], B]", "Array[Variant[A, B]]",
		"Tuple[A, B, D]", "Variant[D, A]", "Optional[Tuple[B, A]]"}
	as := []string{"Object[{functions => {x => Callable[[], Integer]}}]", "Object[{}]", "Object[{attributes => {x => Integer}}]", "Object[{functions => {f => Callable[[A], B]}}]",
		"Object[{parent => C}]", "Integer"}
	bs := []string{"Object[{parent => C}]", "Object[{parent => C, functions => {x => Callable[[], Integer]}}]", "Object[{parent => C, equality => [x]}]", "Object[{parent => D}]",
		"Object[{parent => C, attributes => {x => Integer}}]"}
	for pi, pt := range parents {
		for ai, a := range as {
			for bi, b := range bs {
				ms := []string{"A => " + a, "B => " + b, "C => " + pt, "D => C"}
				switch (pi + ai + bi) % 3 {
				case 1:
					ms[0], ms[2] = ms[2], ms[0]
				case 2:
					ms[1], ms[3] = ms[3], ms[1]
				}
				ts = append(ts, typeSetText(ms...))
			}
		}
	}
	return ts
}

func resolveTypeSetPairs() []string {
	var ts []string
	for _, e1 := range tsMemberPool {
		ts = append(ts, typeSetText("A => "+e1))
		for _, e2 := range tsMemberPool {
			ts = append(ts, typeSetText("A => "+e1, "B => "+e2))
		}
	}
	return ts
}

func resolveTypeSetRandom(n int, rng *lib.Rng) []string {
	var ts []string
	names := []string{"A", "B", "C", "D"}
	for i := 0; i < n; i++ {
		r := rng.Fork()
		k := 3 + r.Intn(2)
		ms := make([]string, k)
		for j := 0; j < k; j++ {
			ms[j] = names[j] + " => " + tsMemberPool[r.Intn(len(tsMemberPool))]
		}
		if r.Chance(1, 4) {
			// the members in another order: references forwards and backwards
			ms[0], ms[k-1] = ms[k-1], ms[0]
		}
		ts = append(ts, typeSetText(ms...))
	}
	return ts
}

// resolveNewFromHash: Deferred(new, 'TypeName', {key => value}) as an argument: the hash creators of the core
// types (types/*.go init: the second DispatchFunction), in particular optional members given as undef.
func resolveNewFromHash(th bool) []string {
	var ts []string
	vals := []string{"undef", "1", "'a'", "[]", "{}", "default"}
	names := []string{"Deferred", "Object", "TypeSet", "Timespan", "Timestamp", "URI", "Error", "Target", "SemVer", "SemVerRange", "Binary", "Struct", "Enum",
		"Integer", "String", "Array", "Hash", "Regexp", "Pattern", "Callable", "Type", "TypeAlias", "Init", "Like", "Sensitive", "Foo"}
	for _, tn := range names {
		for _, k := range hashKeys {
			for _, v := range vals {
				ts = append(ts, "Array[Deferred(new, '"+tn+"', {"+k+" => "+v+"})]")
				if th {
					ts = append(ts, "Array[Deferred(new, "+tn+", {"+k+" => "+v+"})]")
				}
			}
		}
	}
	// Deferred itself with its two members in every combination
	for _, nv := range []string{"x", "'$x'", "''", "1", "undef"} {
		for _, av := range append(append([]string{}, vals...), "[1, 2]", "[undef]") {
			ts = append(ts, "Array[Deferred(new, 'Deferred', {name => "+nv+", arguments => "+av+"})]",
				"Array[Deferred(new, 'Deferred', "+nv+", "+av+")]", "Array[Deferred(new, 'Deferred', {arguments => "+av+"})]")
		}
	}
	return ts
}
