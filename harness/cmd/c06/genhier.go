// Input generators of C06, fifth wave (all to Context.ParseType):
//
//	resolve-equality          Object types with 0..3 ancestors; the attribute x declared by one of them as an attribute, a
//	                          constant or a function (or by nobody), y by the root or the type itself; every level with no /
//	                          an empty / a listed `equality`; the type itself with every `equality` over x, y and an unknown
//	                          name. Four routes (type set root first / leaf first / over an alias, parents in place). Tied
//	                          to coq/Model/ResolveHier.v (resolve_chain): class of the outcome and, for
//	                          PCORE_EQUALITY_REDEFINED, WHICH ancestor the error names (findEqualityDefiner walks the chain).
//	resolve-hierarchy-errors  every error of objecttype.go whose test or wording looks at inherited members, with the member
//	                          declared 1, 2 or 3 levels up and plain / attribute-bearing / equality-bearing / alias levels in
//	                          between: equality, serialization, override, type parameters, name clashes, a type that
//	                          inherits itself over 1..3 levels, parameterized ancestors (direct check only)
//	resolve-like              Like[base, navigation] as the parent of an in-place Object type and as the type of a member
//	                          with a value: bases = Object (attributes, functions, inherited), Struct, Tuple (sized, unbounded,
//	                          bare), Array / Optional / Type / Integer (getters of the meta type), aliases of these declared
//	                          before / after the user / being the alias under resolution / over a second alias; navigation =
//	                          one and two steps over keys, indices (negative, beyond the size, beyond int64, hex) and unknown
//	                          names. Tied to coq/Model/ResolveHier.v (like_parent, like_resolve).
//	resolve-like-wide         the same users over every type name, odd navigations ('', '.', 'a.', multi-byte), Object types
//	                          declared after their user, Like of Like, further users (direct check only)
//	resolve-time-hash         the hash forms of Timespan / Timestamp / SemVer / SemVerRange / URI (Type[{..}] and
//	                          Deferred(new, 'Type', {..})) with hostile field values: formats with widths that are no repeat
//	                          count, unfinished and unknown specifiers, strings that do not fit, numbers at the int64 limits,
//	                          values of the wrong kind
package main

import (
	"fmt"
	"strconv"
	"strings"

	"verifharness/lib"
)

// ---- resolve-equality -------------------------------------------------------------------------------------------------

type eqChoice struct{ text, term string }

var eqChoices = []eqChoice{
	{"", "None"}, {"[]", "(Some [])"}, {"[x]", "(Some [sx])"}, {"[y]", "(Some [sy])"}, {"[x, y]", "(Some [sx; sy])"},
	{"[y, x]", "(Some [sy; sx])"}, {"[z]", "(Some [sz])"}, {"x", "(Some [sx])"},
}

type eqLevel struct {
	x  int // 0 not declared here | 1 attribute | 2 constant | 3 function
	y  bool
	eq int // index into eqChoices
}

func (l eqLevel) sections(parent string) string {
	var ss []string
	if parent != "" {
		ss = append(ss, "parent => "+parent)
	}
	var as []string
	if l.x == 1 {
		as = append(as, "x => Integer")
	}
	if l.y {
		as = append(as, "y => Integer")
	}
	if len(as) > 0 {
		ss = append(ss, "attributes => {"+strings.Join(as, ", ")+"}")
	}
	if l.x == 2 {
		ss = append(ss, "constants => {x => 1}")
	}
	if l.x == 3 {
		ss = append(ss, "functions => {x => Callable[[], Integer]}")
	}
	if e := eqChoices[l.eq]; e.text != "" {
		ss = append(ss, "equality => "+e.text)
	}
	return "Object[{" + strings.Join(ss, ", ") + "}]"
}

func (l eqLevel) term(name string) string {
	var ms []string
	if l.x == 1 {
		ms = append(ms, "(sx, MkAttr)")
	}
	if l.y {
		ms = append(ms, "(sy, MkAttr)")
	}
	if l.x == 2 {
		ms = append(ms, "(sx, MkConst)")
	}
	if l.x == 3 {
		ms = append(ms, "(sx, MkFunc)")
	}
	return fmt.Sprintf("(mkLevel %s %s %s)", lib.GStr(name), lib.GList(ms, "str * mkind"), eqChoices[l.eq].term)
}

var levelNames = []string{"A", "B", "C", "D"}

// eqText: the levels from the root (index 0) to the type itself (last); returns the text and the chain term (the type
// itself first).
func eqText(route int, ls []eqLevel) (string, string) {
	n := len(ls)
	terms := make([]string, n)
	if route == 2 {
		// parents in place: no names
		text := ""
		for i := 0; i < n; i++ {
			text = ls[i].sections(text)
			terms[n-1-i] = ls[i].term("")
		}
		return text, lib.GList(terms, "level")
	}
	var ms []string
	for i := 0; i < n; i++ {
		parent := ""
		if i > 0 {
			parent = levelNames[i-1]
			if route == 3 && i == n-1 {
				parent = "M"
			}
		}
		ms = append(ms, levelNames[i]+" => "+ls[i].sections(parent))
		terms[n-1-i] = ls[i].term("T::" + levelNames[i])
	}
	if route == 3 && n > 1 {
		ms = append(ms[:n-1:n-1], "M => "+levelNames[n-2], ms[n-1])
	}
	if route == 1 {
		for i, j := 0, len(ms)-1; i < j; i, j = i+1, j-1 {
			ms[i], ms[j] = ms[j], ms[i]
		}
	}
	return typeSetText(ms...), lib.GList(terms, "level")
}

var equalityTexts = resolveEquality()

func resolveEquality() []string {
	var ts []string
	count := 0
	emit := func(ls []eqLevel) {
		route := count % 4
		count++
		if len(ls) == 1 && route == 3 {
			route = 0
		}
		t, term := eqText(route, ls)
		if _, dup := tsIndex[t]; dup {
			return
		}
		tsIndex[t] = tsCase{"equality", "mkQCase " + term}
		ts = append(ts, t)
	}
	// the type alone
	for x := 0; x < 4; x++ {
		for _, y := range []bool{false, true} {
			for eq := range eqChoices {
				emit([]eqLevel{{x, y, eq}})
			}
		}
	}
	for n := 2; n <= 4; n++ {
		// where x is declared: nowhere, as an attribute at any level, as a constant / function at the root or the leaf
		type xp struct{ level, kind int }
		xps := []xp{{-1, 0}}
		for l := 0; l < n; l++ {
			xps = append(xps, xp{l, 1})
		}
		xps = append(xps, xp{0, 2}, xp{0, 3}, xp{n - 1, 2}, xp{n - 1, 3})
		yps := []int{-1, 0, n - 1}
		ancEq := []int{0, 1, 2, 3}
		leafEq := []int{2, 3, 4, 5, 6, 7, 0}
		if n == 4 {
			yps = []int{-1, n - 1}
			ancEq = []int{0, 1, 2}
			leafEq = []int{2, 3, 5, 6, 7}
		}
		var rec func(ls []eqLevel, x xp, yp int)
		rec = func(ls []eqLevel, x xp, yp int) {
			l := len(ls)
			lv := eqLevel{}
			if x.level == l {
				lv.x = x.kind
			}
			lv.y = yp == l
			choices := ancEq
			if l == n-1 {
				choices = leafEq
			}
			for _, e := range choices {
				lv.eq = e
				next := append(ls[:l:l], lv)
				if l == n-1 {
					emit(next)
				} else {
					rec(next, x, yp)
				}
			}
		}
		for _, x := range xps {
			for _, yp := range yps {
				rec(nil, x, yp)
			}
		}
	}
	return ts
}

var equalityCodes = map[string]int{"PCORE_EQUALITY_ATTRIBUTE_NOT_FOUND": 1, "PCORE_EQUALITY_NOT_ATTRIBUTE": 2, "PCORE_EQUALITY_ON_CONSTANT": 3,
	"PCORE_EQUALITY_REDEFINED": 4}

// ---- resolve-hierarchy-errors ---------------------------------------------------------------------------------------------

func resolveHierarchyErrors() []string {
	inherited := []string{
		"attributes => {x => Integer}", "attributes => {x => {type => Integer, final => true}}",
		"attributes => {x => {type => Optional[Integer], value => undef}}", "attributes => {x => {type => Integer, kind => derived}}",
		"attributes => {x => {type => Integer, kind => given_or_derived}}",
		"constants => {x => 1}", "functions => {x => Callable[[], Integer]}", "functions => {x => {type => Callable[[], Integer], final => true}}",
		"type_parameters => {x => Integer}", "attributes => {x => Integer, v => {type => Integer, value => 1}}",
		"attributes => {x => Integer}, equality => [x]", "attributes => {x => Integer}, equality => []", "",
	}
	mids := []string{"", "attributes => {m%d => Integer}", "equality => []", "attributes => {m%d => Integer}, equality => [m%d]", "alias"}
	leaves := []string{
		"equality => [x]", "equality => x", "attributes => {w => Integer}, equality => [w, x]", "equality => [nope]", "equality => [x, x]",
		"equality_include_type => false, equality => [x]",
		"serialization => [x]", "serialization => [nope]", "attributes => {w => Integer}, serialization => [w, x]",
		"attributes => {w => {type => Integer, value => 1}}, serialization => [w, x]", "serialization => [v, x]", "serialization => [x, v]",
		"attributes => {x => Integer}", "attributes => {x => {type => Integer, override => true}}", "attributes => {x => {type => String, override => true}}",
		"attributes => {x => {type => Integer, override => true, final => true}}",
		"functions => {x => Callable[[], Integer]}", "functions => {x => {type => Callable[[], Integer], override => true}}",
		"functions => {x => {type => Callable[[String], Integer], override => true}}", "constants => {x => 2}", "constants => {x => 'a'}",
		"type_parameters => {x => Integer}", "type_parameters => {x => String}", "attributes => {x => Integer}, constants => {x => 1}",
		"attributes => {x => Integer}, functions => {x => Callable}", "",
	}
	var ts []string
	obj := func(parent, sect string) string {
		var ss []string
		if parent != "" {
			ss = append(ss, "parent => "+parent)
		}
		if sect != "" {
			ss = append(ss, sect)
		}
		return "Object[{" + strings.Join(ss, ", ") + "}]"
	}
	count := 0
	for _, inh := range inherited {
		for _, leaf := range leaves {
			for depth := 1; depth <= 3; depth++ {
				for mi, mid := range mids {
					if depth == 1 && mi > 0 {
						continue
					}
					count++
					// the levels: root, depth-1 intermediates, leaf
					var names, exprs []string
					names = append(names, "A")
					exprs = append(exprs, obj("", inh))
					inPlace := obj("", inh)
					for d := 1; d < depth; d++ {
						nm := fmt.Sprintf("M%d", d)
						if mid == "alias" {
							exprs = append(exprs, names[len(names)-1])
						} else {
							sect := strings.Replace(mid, "%d", strconv.Itoa(d), -1)
							exprs = append(exprs, obj(names[len(names)-1], sect))
							inPlace = obj(inPlace, sect)
						}
						names = append(names, nm)
					}
					exprs = append(exprs, obj(names[len(names)-1], leaf))
					names = append(names, "Z")
					inPlace = obj(inPlace, leaf)
					ms := make([]string, len(names))
					for i := range names {
						ms[i] = names[i] + " => " + exprs[i]
					}
					switch count % 3 {
					case 0:
						ts = append(ts, typeSetText(ms...))
					case 1:
						for i, j := 0, len(ms)-1; i < j; i, j = i+1, j-1 {
							ms[i], ms[j] = ms[j], ms[i]
						}
						ts = append(ts, typeSetText(ms...))
					default:
						if mid == "alias" {
							ts = append(ts, typeSetText(ms...))
						} else {
							ts = append(ts, inPlace)
						}
					}
				}
			}
		}
	}
	// a type that inherits itself over 1..4 levels, directly and over aliases, the members in both orders
	for depth := 1; depth <= 4; depth++ {
		for _, alias := range []bool{false, true} {
			var ms []string
			for d := 0; d < depth; d++ {
				parent := levelNames[(d+1)%depth]
				if alias {
					ms = append(ms, fmt.Sprintf("N%d => %s", d, parent))
					parent = fmt.Sprintf("N%d", d)
				}
				ms = append(ms, levelNames[d]+" => "+obj(parent, fmt.Sprintf("attributes => {a%d => Integer}", d)))
			}
			ts = append(ts, typeSetText(ms...))
			for i, j := 0, len(ms)-1; i < j; i, j = i+1, j-1 {
				ms[i], ms[j] = ms[j], ms[i]
			}
			ts = append(ts, typeSetText(ms...))
		}
	}
	// parameterized ancestors 1..3 levels up (IsParameterized, typeParameters(true) walk the chain)
	for depth := 1; depth <= 3; depth++ {
		for _, use := range []string{"Array[%s[1]]", "Object[{parent => %s[1]}]", "Array[%s[default]]", "Array[%s[1, 2]]", "Array[%s[{p => 1}]]", "Array[%s[{q => 1}]]", "%s[1]",
			"Object[{parent => %s[1], attributes => {p => {type => Integer, override => true}}}]", "Object[{parent => %s, type_parameters => {p => Integer}}]"} {
			ms := []string{"A => Object[{type_parameters => {p => Integer}, attributes => {p => Integer}}]"}
			last := "A"
			for d := 1; d < depth; d++ {
				nm := fmt.Sprintf("M%d", d)
				ms = append(ms, nm+" => "+obj(last, fmt.Sprintf("attributes => {m%d => Integer}", d)))
				last = nm
			}
			ms = append(ms, "Z => "+strings.Replace(use, "%s", last, -1))
			ts = append(ts, typeSetText(ms...))
			for i, j := 0, len(ms)-1; i < j; i, j = i+1, j-1 {
				ms[i], ms[j] = ms[j], ms[i]
			}
			ts = append(ts, typeSetText(ms...))
		}
	}
	return ts
}

// ---- resolve-like -----------------------------------------------------------------------------------------------------------

type likeBase struct{ text, term string }

const lObj = "(LObject [])"

func lStr(s string) string { return lib.GStr(s) }

var likeBases = []likeBase{
	{"Object[{}]", lObj},
	{"Object[{attributes => {a => Object[{}]}}]", "(LObject [(" + lStr("a") + ", (false, " + lObj + "))])"},
	{"Object[{attributes => {a => Integer, b => Struct[{a => Object[{}]}]}}]",
		"(LObject [(" + lStr("a") + ", (false, lInt)); (" + lStr("b") + ", (false, LStruct [(" + lStr("a") + ", " + lObj + ")]))])"},
	{"Object[{functions => {a => Callable[[], Object[{}]]}}]", "(LObject [(" + lStr("a") + ", (true, " + lObj + "))])"},
	{"Object[{parent => Object[{attributes => {a => Object[{}]}}], attributes => {b => Integer}}]",
		"(LObject [(" + lStr("b") + ", (false, lInt)); (" + lStr("a") + ", (false, " + lObj + "))])"},
	{"Struct", "(LStruct [])"},
	{"Struct[{a => Object[{}]}]", "(LStruct [(" + lStr("a") + ", " + lObj + ")])"},
	{"Struct[{a => Integer, b => Object[{}]}]", "(LStruct [(" + lStr("a") + ", lInt); (" + lStr("b") + ", " + lObj + ")])"},
	{"Struct[{a => Struct[{a => Object[{}]}]}]", "(LStruct [(" + lStr("a") + ", LStruct [(" + lStr("a") + ", " + lObj + ")])])"},
	{"Tuple", "(LTuple [] max_int64)"},
	{"Tuple[Object[{}]]", "(LTuple [" + lObj + "] 1)"},
	{"Tuple[Integer, Object[{}]]", "(LTuple [lInt; " + lObj + "] 2)"},
	{"Tuple[Object[{}], 1, 3]", "(LTuple [" + lObj + "] 3)"},
	{"Tuple[Object[{}], 1, default]", "(LTuple [" + lObj + "] max_int64)"},
	{"Tuple[Struct[{a => Object[{}]}], Integer]", "(LTuple [LStruct [(" + lStr("a") + ", " + lObj + ")]; lInt] 2)"},
	{"Integer", "lInt"},
	{"Array[Object[{}]]", "(LMeta [(" + lStr("element_type") + ", Some " + lObj + ")])"},
	{"Optional[Object[{}]]", "(LMeta [(" + lStr("type") + ", Some " + lObj + ")])"},
	{"Type[Object[{}]]", "(LMeta [(" + lStr("type") + ", Some " + lObj + ")])"},
	{"Array[Struct[{a => Object[{}]}]]", "(LMeta [(" + lStr("element_type") + ", Some (LStruct [(" + lStr("a") + ", " + lObj + ")]))])"},
}

var likeSingles = []string{"a", "b", "0", "1", "2", "3", "-1", "99999999999", "0x1", "zz", "from", "element_type", "type"}
var likeSteps = []string{"a", "b", "0", "1", "zz", "type", "element_type"}

func likePaths() []string {
	ps := append([]string{}, likeSingles...)
	for _, a := range likeSteps {
		for _, b := range likeSteps {
			ps = append(ps, a+"."+b)
		}
	}
	return ps
}

// partsTerm: strings.Split(navigation, ".") with strconv.ParseInt(part, 0, 64) of every part (the oracle of the model)
func partsTerm(nav string) string {
	var es []string
	for _, p := range strings.Split(nav, ".") {
		idx := "None"
		if n, err := strconv.ParseInt(p, 0, 64); err == nil {
			idx = "(Some " + lib.GZ(n) + ")"
		}
		es = append(es, "("+lib.GStr(p)+", "+idx+")")
	}
	return lib.GList(es, "str * option Z")
}

// likeUsers: where the Like type is asked to resolve; kind 0 = parent of an in-place Object type (like_parent),
// kind 1 = type of an attribute that has a value (like_resolve; the instance test is not modelled)
var likeUsers = []struct {
	form string
	kind int
}{
	{"Object[{parent => %s}]", 0},
	{"Array[Object[{parent => %s}]]", 0},
	{"Object[{attributes => {q => {type => %s, value => 1}}}]", 1},
}

var likeTexts = resolveLike()

func resolveLike() []string {
	var ts []string
	add := func(text, base, nav string, kind int) {
		if _, dup := tsIndex[text]; dup {
			return
		}
		tsIndex[text] = tsCase{"like", fmt.Sprintf("mkLCase %s %s %d%%nat", base, partsTerm(nav), kind)}
		ts = append(ts, text)
	}
	paths := likePaths()
	for _, b := range likeBases {
		for _, p := range paths {
			for _, u := range likeUsers {
				l := "Like[" + b.text + ", '" + p + "']"
				add(strings.Replace(u.form, "%s", l, -1), b.term, p, u.kind)
			}
		}
	}
	// aliases in a type set: B is an alias of the base (never an Object type: `B => Object[..]` declares the Object type B),
	// the user A holds the Like type; the alias is resolved when it is declared before the user
	tsPaths := []string{"a", "b", "0", "1", "zz", "a.a", "a.zz", "0.a", "1.a", "element_type", "element_type.a", "type", "-1", "99999999999"}
	aliasBases := []int{6, 7, 8, 10, 11, 12, 14, 15, 16, 19, 9}
	users := []struct {
		form string
		kind int
	}{{"Array[Object[{parent => %s}]]", 0}, {"Struct[{q => Object[{parent => %s}]}]", 0}, {"Object[{attributes => {q => {type => %s, value => 1}}}]", 1}}
	for _, bi := range aliasBases {
		b := likeBases[bi]
		for _, p := range tsPaths {
			for _, u := range users {
				a := "A => " + strings.Replace(u.form, "%s", "Like[B, '"+p+"']", -1)
				add(typeSetText("B => "+b.text, a), "(LAlias "+b.term+")", p, u.kind)
				add(typeSetText(a, "B => "+b.text), "LAliasUnresolved", p, u.kind)
				// over a second alias
				add(typeSetText("C => "+b.text, "B => C", a), "(LAlias (LAlias "+b.term+"))", p, u.kind)
				add(typeSetText("B => C", "C => "+b.text, a), "(LAlias (LAlias "+b.term+"))", p, u.kind)
				add(typeSetText("B => C", a, "C => "+b.text), "(LAlias LAliasUnresolved)", p, u.kind)
				add(typeSetText(a, "B => C", "C => "+b.text), "LAliasUnresolved", p, u.kind)
			}
			// the alias under resolution navigates into itself
			for _, self := range []string{"Array[Object[{parent => Like[A, '%s']}]]", "Struct[{a => Object[{parent => Like[A, '%s']}]}]", "Tuple[Object[{parent => Like[A, '%s']}]]"} {
				add(typeSetText("A => "+strings.Replace(self, "%s", p, -1)), "LAliasUnresolved", p, 0)
			}
		}
	}
	return ts
}

var likeCodes = map[string]int{"PCORE_UNRESOLVED_TYPE_OF": 1, "PCORE_UNRESOLVED_TYPE": 2, "PCORE_ILLEGAL_OBJECT_INHERITANCE": 3, "PCORE_TYPE_MISMATCH": 5}

// resolveLikeWide: direct check only.
func resolveLikeWide() []string {
	var ts []string
	navs := []string{"0", "1", "-1", "a", "type", "name", "size_type", "element_type", "element_type.0", "from", "a.b.c", "", ".", "a.", ".a", "..", "é", " ", "00", "+0", "0b1", "0o7",
		"9223372036854775807", "-9223372036854775808", "9223372036854775808", "types", "types.0", "values", "return_type", "param_types", "param_types.types", "block_type", "key_type", "value_type",
		"parent", "attributes", "functions", "base_type", "navigation", "runtime", "pattern", "patterns", "ranges", "to", "size_type.from", "type.type"}
	for _, tn := range typeNames {
		for _, nv := range navs {
			ts = append(ts, "Object[{parent => Like["+tn+", '"+nv+"']}]")
		}
	}
	users := []string{"Object[{parent => %s}]", "Object[{parent => Object[{parent => %s}]}]", "Struct[{q => Object[{parent => %s}]}]", "Object[{attributes => {q => Object[{parent => %s}]}}]",
		"Object[{attributes => {q => {type => %s, value => 1}}}]", "Object[{attributes => {q => {type => %s, value => undef}}}]", "Object[{attributes => {q => {type => Optional[%s], value => undef}}}]",
		"Object[{type_parameters => {p => {type => %s, value => 1}}}]", "Object[{constants => {c => %s}}]", "Integer[%s]", "Enum[%s]", "Variant[%s, Integer]", "Array[%s]", "Like[%s, 'a']",
		"Object[{parent => Like[%s, 'a']}]", "Object[{functions => {f => Callable[[%s], %s]}}]", "Init[%s]", "Init[%s, 1]", "Type[%s]", "Optional[%s]", "Struct[{%s => Integer}]"}
	for _, b := range likeBases {
		for _, nv := range []string{"a", "0", "zz", "a.a", "", "type"} {
			l := "Like[" + b.text + ", '" + nv + "']"
			for _, u := range users {
				ts = append(ts, strings.Replace(u, "%s", l, -1))
			}
		}
	}
	// Object types (not aliases) declared before / after the user, with members of every kind; users as members
	objs := []string{"Object[{attributes => {a => Object[{}]}}]", "Object[{functions => {a => Callable[[], Object[{}]]}}]", "Object[{constants => {a => 1}}]",
		"Object[{parent => C, attributes => {b => Integer}}]", "Object[{type_parameters => {a => Integer}}]", "Object[{attributes => {a => B}}]", "Object[{attributes => {a => A}}]"}
	tsUsers := []string{"Array[Object[{parent => Like[B, '%s']}]]", "Object[{attributes => {q => {type => Like[B, '%s'], value => 1}}}]", "Object[{attributes => {q => Like[B, '%s']}}]",
		"Object[{attributes => {q => Object[{parent => Like[B, '%s']}]}}]", "Object[{parent => Like[B, '%s']}]", "Like[B, '%s']", "Array[Like[B, '%s']]",
		"Object[{attributes => {q => {type => Like[A, '%s'], value => 1}}}]", "Struct[{q => Object[{parent => Like[A, 'q.%s']}]}]"}
	for _, o := range objs {
		for _, u := range tsUsers {
			for _, nv := range []string{"a", "b", "a.a", "0", "parent", "name"} {
				a := "A => " + strings.Replace(u, "%s", nv, -1)
				c := "C => Object[{attributes => {a => Object[{}]}}]"
				ts = append(ts, typeSetText("B => "+o, a, c), typeSetText(a, "B => "+o, c), typeSetText(c, a, "B => "+o))
			}
		}
	}
	return ts
}

// ---- resolve-time-hash ------------------------------------------------------------------------------------------------------

func resolveTimeHash() []string {
	var ts []string
	put := func(name, h string) {
		ts = append(ts, name+"["+h+"]", "Array[Deferred(new, '"+name+"', "+h+")]")
	}
	strs := []string{"'1'", "''", "'-'", "'-1'", "'1-2'", "'99999999999999999999'", "' 1'", "'1.5'", "'é'", "'1:2:3'", "1", "undef"}
	formats := []string{"'%1001H'", "'%1000H'", "'%-1001H'", "'%_1001H'", "'%-0H'", "'%_0H'", "'%0H'", "'%00H'", "'%999999999999999999999H'", "'%'", "'%%'", "''", "'%-'", "'%_'", "'%-_H'", "'%_-H'", "'%5'",
		"'%Q'", "'%H%H'", "'%D%D'", "'%1000H%1000M%1000S'", "'%N'", "'%3N'", "'%-3N'", "'%_3N'", "'%0N'", "'%-0N'", "'%L'", "'%10L'", "'%-0L'", "'%H:%M:%S'", "'%D-%H'", "'%M%H'", "'%é'", "'é%H'", "'%1H%2M%3S%4L%5N'",
		"1", "undef", "[]", "[1]", "['%H', '%']", "['%', '%H']", "['%-0H', '%H']", "['%H', '%-0H']", "[['%H']]", "{}", "default", "true"}
	for _, s := range strs {
		for _, f := range formats {
			put("Timespan", "{string => "+s+", format => "+f+"}")
		}
		put("Timespan", "{string => "+s+"}")
		put("Timestamp", "{string => "+s+"}")
	}
	fields := []string{"negative", "days", "hours", "minutes", "seconds", "milliseconds", "microseconds", "nanoseconds"}
	vals := []string{"0", "-1", "9223372036854775807", "-9223372036854775808", "'x'", "undef", "1.5", "true", "default", "[]"}
	for _, k := range fields {
		for _, v := range vals {
			put("Timespan", "{"+k+" => "+v+"}")
			put("Timespan", "{negative => true, "+k+" => "+v+"}")
			put("Timespan", "{string => '1', "+k+" => "+v+"}")
		}
	}
	tsStrs := []string{"'2000-01-01'", "'2000-13-45'", "'x'", "''", "'1'", "'2000-01-01T00:00:00.000 UTC'", "'99999-01-01'", "'-1'"}
	tsFormats := []string{"'%F'", "'%'", "'%Q'", "'%1001H'", "'%-'", "'%^'", "'%#'", "'%:z'", "'%::z'", "'%:::z'", "'%::::z'", "'%10N'", "'%0'", "'%E'", "'%O'", "'%+'", "'%c'", "'%x'", "'%X'", "'%D'", "'%s'",
		"'%-F'", "'%_F'", "'%^B'", "'%#Z'", "'%010Y'", "'%999999999999999999999Y'", "'%Y-%m-%d'", "'%é'", "''", "'%%'", "1", "undef", "[]", "[1]", "['%F', '%']", "['%', '%F']", "['%F', undef]", "{}", "default"}
	zones := []string{"", "'UTC'", "'Nowhere/Land'", "''", "1", "'+01:00'", "undef", "'../../etc/passwd'"}
	for _, s := range tsStrs {
		for _, f := range tsFormats {
			put("Timestamp", "{string => "+s+", format => "+f+"}")
		}
		for _, z := range zones {
			if z != "" {
				put("Timestamp", "{string => "+s+", format => '%F', timezone => "+z+"}")
				put("Timestamp", "{string => "+s+", timezone => "+z+"}")
			}
		}
	}
	for _, f := range tsFormats {
		put("Timestamp", "{string => '2000-01-01 %Z', format => "+f+", timezone => 'Europe/Stockholm'}")
	}
	svv := []string{"0", "1", "-1", "'a'", "undef", "9223372036854775807", "1.5", "default"}
	svq := []string{"'a'", "'!!'", "''", "1", "undef", "'-'", "'a..b'", "'01'", "'a.b-c'", "'é'"}
	for _, a := range svv {
		for _, b := range svv {
			put("SemVer", "{major => "+a+", minor => "+b+", patch => 0}")
			put("SemVer", "{major => 1, minor => "+a+", patch => "+b+"}")
		}
		put("SemVer", "{major => "+a+"}")
	}
	for _, q := range svq {
		put("SemVer", "{major => 1, minor => 0, patch => 0, prerelease => "+q+"}")
		put("SemVer", "{major => 1, minor => 0, patch => 0, build => "+q+"}")
		put("SemVer", "{major => 1, minor => 0, patch => 0, prerelease => 'a', build => "+q+"}")
	}
	rv := []string{"'1.0.0'", "'x'", "1", "undef", "default", "''", "'>=1'", "SemVer", "Deferred(new, 'SemVer', '1.0.0')", "Deferred(new, 'SemVer', 'x')"}
	for _, a := range rv {
		for _, b := range rv {
			put("SemVerRange", "{min => "+a+", max => "+b+"}")
		}
		put("SemVerRange", "{min => "+a+", max => default, exclude_max => "+a+"}")
		put("SemVerRange", "{max => "+a+"}")
	}
	uk := []string{"scheme", "userinfo", "host", "port", "path", "query", "fragment", "opaque"}
	uv := []string{"':'", "'%zz'", "''", "' '", "'a b'", "'[::1'", "'é'", "'http'", "'//'", "-1", "99999999999999", "0", "1.5", "undef", "true", "[]", "{}", "default", "'\\n'"}
	for i, k := range uk {
		for _, v := range uv {
			put("URI", "{"+k+" => "+v+"}")
			put("URI", "{scheme => 'http', host => 'h', "+k+" => "+v+"}")
			k2 := uk[(i+3)%len(uk)]
			put("URI", "{"+k+" => "+v+", "+k2+" => "+v+"}")
		}
	}
	return ts
}
