// Input generators of C06: byte strings handed to types.Parse / Context.ParseType.
package main

import (
	"strings"

	"verifharness/lib"
)

// corpus: regression inputs, always run first (each one has been a failing input of the pinned tree or of
// a hand-made mutant).
var corpus = []string{
	"1e5", "1e999", "1e+5", "-1E-5", "1.5e3", "[1e5", "1e5\x00", "1e5 ", "1e5]", "1e5x", "1e5.", "1e", "1e+", "1ex",
	"!", " !", "\n!", "abcdef\n!", "'abc'\n  !", "@", "'a\\qb'", "\xff", "'\xff'", "'\xef\xbf\xbd'", "-", "-a", "0x", "1.", "a:", "A::b", "A:", "a::B",
	"Deferred()", "Deferred(1)", "Deferred(a,b)", "Deferred([])", "Deferred(a)", "Deferred('x', 1, 2)", "Foo()", "Foo(1)", "Foo(a => 1)",
	"a =>", "a => ", "a => ]", "a => b", "a => b => c", "a => b c", "A => B[1]", "a =>\n", "type =>", "type => ", "type => 1", "type => a => b",
	"type X = ", "type X = 1", "type X = 'a'", "type X = [1]", "type X = Foo", "type X = {a=>1}", "type X = Object[{a=>1}]",
	"type X = Foo[{a=>1}]", "type X = TypeSet[{a=>1}]", "type X = Struct[{a=>1}]", "type X = Object[{parent=>Foo}]", "type X = Object[{parent=>'Foo'}]",
	"type X = Object[{parent=>1}]", "type X", "type", "type X Y", "type x = 1", "type X = Foo[1,2]", "type X = Foo[1] 2",
	"1 'éééééééééé'", "'é' ]", "/é/ ]", "1 \"\\n\\n\\n\\n\\n\\n\\n\\n\"", "[\n", "[\n\n", "a\n\n\n]", "{a=>\n1,\n]", "'a\nb'", "/a\nb/", "\"a", "/a", "'a\\", "/a\\",
	"[a =>]", "[a => b => c]", "[a => 1, b => 2, 3, c => 4]", "(a => 1)", "{a=>1,a=>2}", "{a=>}", "{=>1}", "{a 1}", "{a=>1 b=>2}", "{a=>1,}", "[1,]", "[,]", "(,)", "{,}",
	"String[]", "String[ ]", "Foo{}", "Foo{a=>1}", "Foo{a=>1}[1]", "Foo[1]{a=>1}", "Foo[1][2]", "Foo[1](2)", "Foo(1)[2]", "Foo Bar", "Foo,", "Foo=>",
	"08", "0777", "0x1F", "-0x1f", "+5", "00x1", "0x1G", "0X1f", "9223372036854775807", "9223372036854775808", "-9223372036854775808", "-9223372036854775809",
	"99999999999999999999", "0xFFFFFFFFFFFFFFFF", "0x7FFFFFFFFFFFFFFF", "1.5.3", "1..2", "1.e3", "1.5e", "1.5e+", "1.5ee3", "1e5e5", "0e0", "00", "0.0", "1a", "1.5a", "1e5a", "12é",
	"/(/", "/a\\/b/", "/\\d/", "/[/", "//", "/", "/ /", "#c", "#c\n1", "# \xff", "1 #c", "1 # c\n 2", "", " ", "\n", "\t", "\x00", "a\x00b", "\r", "a\rb",
	"'\\u{41}'", "\"\\u{1}\"", "'\\u{110000}'", "'\\u{}'", "'\\u{'", "'\\u'", "'\\u{41'", "'\\u{g}'", "\"\\$\"", "'\\$'", "\"\\'\"", "'\\\"'", "'\\''", "\"\\\"\"",
	"Array[Deferred('')]", "Integer[Object[{type_parameters => {a => Integer}}]]", "Object[{type_parameters => {a => Integer}}]", "Enum[[a, b, c], true]", "Enum[[a, b], c, d]",
	"Enum[[a, b, c], 3]", "Pattern[[a, b]]", "Runtime[a, b, c]",
	"Tuple[[Integer], 3]", "a.b", "a . b", ".", "=", "= >", "=>", "a = b", "}", ")", "]", "a]", "a)", "a}", "((()))", "[[[[]]]]", "{{}=>{}}", "{[]=>()}",
}

// tokenAlphabet: every token kind of the lexer (lexer.go:15-33) with two representative lexemes where the
// kind has more than one, plus keywords the parser treats specially, a comment and a NUL (which the lexer
// takes for the end of the input).
var tokenAlphabet = []string{
	"Integer", "Foo::Bar", "Deferred", "abc", "true", "type", "default", "undef", "12", "-0x1F", "1.5", "2e3", "/a.b/", "/\\//", "'x'", "\"y\\n\"",
	"[", "]", "{", "}", "(", ")", ",", ".", "=>", "=", "#c\n", "\x00", "'é€'", "!",
}

// validExpressions: well-formed inputs; every truncation and single-byte mutation of each is run.
var validExpressions = []string{
	"Integer", "Integer[1]", "Integer[1, 10]", "Integer[default, 5]", "Integer[-0x10, 0x10]", "Float[1.5, 2.5e3]", "Float[-1.0e-3]",
	"String", "String[1]", "String[1, 10]", "String['abc']", "Enum['a', 'b']", "Enum[a, b, true]", "Pattern[/a+/, /b\\/c/]", "Pattern['x']", "Regexp[/x\\dy/]",
	"Boolean", "Boolean[true]", "Array[Integer]", "Array[Integer, 1, 5]", "Array[String[1], 0, default]", "Hash[String, Integer]", "Hash[String, Integer, 1, 2]",
	"Collection[1, 2]", "Tuple[Integer, String]", "Tuple[Integer, String, 1, 5]", "Tuple[Integer, 1]", "Struct[{a => Integer, Optional[b] => String}]",
	"Struct[{'a b' => Integer, NotUndef[c] => Any}]", "Variant[Integer, String]", "Variant[Integer[1,2], Enum[a], Undef]", "Optional[Integer]", "Optional['a']",
	"NotUndef[Integer]", "NotUndef", "Type[Integer]", "Type[Array[Integer[0, 5]]]", "Sensitive[String]", "Iterable[Integer]", "Iterator[Integer]",
	"Callable[Integer, String]", "Callable[[Integer], Float]", "Callable[Integer, 1, 2, Callable[String]]", "Callable[0, 0]", "Runtime['go', 'x']", "Runtime[go, /x/]",
	"SemVer['>=1.0.0']", "SemVerRange", "Timespan[1, 2]", "Timestamp['2000-01-01T00:00:00.000Z']", "URI['http://a/b']", "URI[{scheme => 'http'}]", "Binary", "Any", "Undef", "Default", "Unit",
	"Numeric", "Scalar", "ScalarData", "Data", "RichData", "Like[Integer, 'a']", "Init[Integer, 1]", "TypeReference['Foo']", "TypeAlias['X', Integer]", "Object[{name => 'X', attributes => {a => Integer}}]",
	"Object[{parent => Foo, attributes => {a => {type => Integer, value => 3}}}]", "TypeSet[{pcore_version => '1.0.0', version => '1.0.0', types => {A => Integer}}]",
	"Foo", "Foo::Bar", "Foo::Bar[1, 'x']", "Foo[{a => 1}]", "Foo{a => 1, b => [1, 2]}", "Foo(1, 'x')", "Foo(a => 1)", "Foo::Bar(1)", "Deferred('x')", "Deferred(x, 1, 2)", "Deferred('$x')",
	"type X = Integer", "type X = Variant[Integer, Array[X]]", "type X = {attributes => {a => Integer}}", "type X = Object[{parent => Y, attributes => {a => Integer}}]",
	"type X = Y{attributes => {a => Integer}}", "type X = TypeSet[{version => '1.0.0'}]", "type => Integer", "type => Array[Integer]",
	"1", "-1", "+1", "0", "0x1F", "0777", "1.0", "-1.5e-10", "1E5 ", "1e+5 ", "'abc'", "\"abc\"", "'a\\'b'", "\"a\\\"b\"", "'a\\\\b'", "\"a\\tb\\nc\\rd\"", "\"\\u{1F}\\$x\"", "'\\u{e9}'",
	"'é€'", "/abc/", "/a\\/b/", "/a\\.b/", "true", "false", "undef", "default", "abc", "abc::def", "a_b::c_d9",
	"[]", "[1]", "[1, 2, 3]", "[1, [2, [3]]]", "[a => 1]", "[1, a => 2, b => 3, 4]", "[Integer, String[1]]", "{}", "{a => 1}", "{a => 1, b => {c => [1, 2]}}", "{1 => 2, [1] => {}}",
	"{Integer => String}", "(1, 2)", "()", "(a => 1, 2)", "a => 1", "a => [1, 2]", "'x' => Integer[1]", "Integer => String", "Foo[1] => Bar[2]",
	"[1, # comment\n 2]", "# leading\nInteger[\n 1,\n 2\n]", "{\n a => 1,\n b => 2\n}", "Struct[{\n  a => Integer,\n  b => String\n}]",
	"Tuple[Integer[1, 2], Array[Hash[String, Variant[Integer, Float]]], 1, default]", "Hash[Enum[a, b], Struct[{x => Optional[Pattern[/y/]]}], 0, 10]",
}

// typeNames / argPool: the resolve family — every type name applied to every argument list of length <= 3 (quick: 2)
// drawn from the pool, handed to Context.ParseType (Parse + Resolve + the positional creators, resolver.go:18).
var typeNames = []string{
	"Any", "Array", "Binary", "Boolean", "Callable", "Collection", "Data", "Default", "Deferred", "Enum", "Float", "Hash", "Init", "Integer", "Iterable", "Iterator",
	"Like", "NotUndef", "Numeric", "Object", "Optional", "Pattern", "Regexp", "RichData", "Runtime", "Scalar", "ScalarData", "SemVer", "SemVerRange", "Sensitive",
	"String", "Struct", "Timespan", "Timestamp", "Tuple", "Type", "TypeAlias", "TypeReference", "TypeSet", "URI", "Undef", "Unit", "Variant", "Foo", "Target", "Error",
}

var argPool = []string{
	"1", "-1", "0", "3", "default", "undef", "true", "'a'", "''", "b", "1.5", "/x/", "Integer", "String", "Integer[1]", "[Integer]", "[]", "[1, 2]", "{}", "{a => Integer}",
	"{'a' => 1}", "Optional[a]", "Foo", "Callable", "Type[Integer]", "[[Integer], 3]", "{Optional[a] => String, NotUndef['b'] => Any}", "9223372036854775807", "'2000-01-01'", "Undef", "Unit",
}

// nestings: every valid expression and argument inside every enclosing form (two levels for the short ones).
var nestingForms = []string{"Foo[%s]", "Foo(%s)", "Deferred(%s)", "Deferred(x, %s)", "Foo{a => %s}", "Foo{%s => 1}", "[%s]", "[%s => 1]", "[a => %s]", "{a => %s}",
	"{%s => 1}", "(%s)", "(a => %s)", "%s => 1", "a => %s", "type X = %s", "type => %s", "[1, %s, 2]", "Foo[%s, %s]", "Foo(%s) => %s"}

func nestings(inner []string, each func(string)) {
	for _, f := range nestingForms {
		for _, e := range inner {
			each(strings.Replace(f, "%s", e, -1))
		}
	}
}

func joinTokens(toks []string, sep string) string { return strings.Join(toks, sep) }

// mutationBytes: the replacement / insertion alphabet of the single-byte mutation family.
var mutationBytes = []byte{0, '\t', '\n', '\r', ' ', '!', '"', '#', '$', '\'', '(', ')', '+', ',', '-', '.', '/', '0', '9', ':', '=', '>', 'A', 'E', 'Z', '[', '\\', ']', '_', 'a', 'e', 'n', 'u', 'x', '{', '}', 0x7f, 0x80, 0xbf, 0xc3, 0xe2, 0xf0, 0xff}

func mutations(s string, each func(string)) {
	for i := 0; i <= len(s); i++ {
		each(s[:i]) // truncation
	}
	for i := 0; i < len(s); i++ {
		each(s[:i] + s[i+1:]) // deletion
		for _, b := range mutationBytes {
			if s[i] != b {
				each(s[:i] + string([]byte{b}) + s[i+1:]) // replacement
			}
		}
	}
}

func insertions(s string, each func(string)) {
	for i := 0; i <= len(s); i++ {
		for _, b := range mutationBytes {
			each(s[:i] + string([]byte{b}) + s[i:])
		}
	}
}

// invalidUTF8: lone continuation bytes, truncated sequences, overlong forms, surrogates, out of range, 0xfe/0xff,
// and the (valid) replacement character itself.
var invalidUTF8 = []string{"\x80", "\xbf", "\xc3", "\xe2\x82", "\xf0\x90\x80", "\xc0\xaf", "\xe0\x80\xaf", "\xed\xa0\x80", "\xf4\x90\x80\x80", "\xfe", "\xff", "\xef\xbf\xbd", "\xc3\x28"}

// numberAlphabet: every string over it up to a bounded length is run alone and embedded in `[`...`]`: drives
// the number scanner (lexer.go:175-286) through every state, in particular to the end of the input.
var numberAlphabet = []byte{'0', '1', '9', 'e', 'E', 'x', 'X', '.', '+', '-', 'a', 'f', 'G', ' ', 0, 0xc3}

// stringAlphabet: bodies of string and regexp literals.
var stringAlphabet = []string{"'", "\"", "\\", "n", "u", "{", "}", "4", "$", "a", "/", "\n", "\x00", "é", "\xff", " "}

func wordsOver(alpha []string, maxLen int, each func(string)) {
	var rec func(prefix string, l int)
	rec = func(prefix string, l int) {
		each(prefix)
		if l == maxLen {
			return
		}
		for _, a := range alpha {
			rec(prefix+a, l+1)
		}
	}
	rec("", 0)
}

func bytesToStrings(bs []byte) []string {
	r := make([]string, len(bs))
	for i, b := range bs {
		r[i] = string([]byte{b})
	}
	return r
}

// randomExpr: a random (mostly) well-formed expression from a small grammar, used as the seed of random mutations.
func randomExpr(r *lib.Rng, depth int) string {
	if depth <= 0 || r.Chance(1, 4) {
		leaves := []string{"1", "-5", "0x1f", "1.5", "2e3", "'a'", "\"b\\n\"", "/r/", "true", "undef", "default", "abc", "Integer", "Foo::Bar", "'é'"}
		return leaves[r.Intn(len(leaves))]
	}
	n := r.Intn(4)
	var parts []string
	for i := 0; i < n; i++ {
		parts = append(parts, randomExpr(r, depth-1))
	}
	sep := ", "
	if r.Chance(1, 5) {
		sep = ",\n "
	}
	switch r.Intn(8) {
	case 0:
		return "[" + strings.Join(parts, sep) + "]"
	case 1:
		var es []string
		for _, p := range parts {
			es = append(es, randomExpr(r, depth-1)+" => "+p)
		}
		return "{" + strings.Join(es, sep) + "}"
	case 2:
		if n == 0 {
			return "Foo"
		}
		return typeNames[r.Intn(len(typeNames))] + "[" + strings.Join(parts, sep) + "]"
	case 3:
		return typeNames[r.Intn(len(typeNames))] + "(" + strings.Join(parts, sep) + ")"
	case 4:
		return "Foo{a => " + randomExpr(r, depth-1) + "}"
	case 5:
		if n == 0 {
			return "[]"
		}
		return "[" + parts[0] + " => " + randomExpr(r, depth-1) + "]"
	case 6:
		return "Struct[{a => " + randomExpr(r, depth-1) + ", Optional[b] => " + randomExpr(r, depth-1) + "}]"
	default:
		return "Array[" + randomExpr(r, depth-1) + ", " + argPool[r.Intn(5)] + "]"
	}
}

// randomBytes: a random string over a weighted alphabet of token characters.
func randomBytes(r *lib.Rng, n int) string {
	const weighted = "[[]]{{}}(()),,,==>>.::''\"\"//\\\\##  \n\t01239eExX+-._aAbBzZtypeundef$\x00\x80\xc3\xa9\xff!"
	b := make([]byte, n)
	for i := range b {
		b[i] = weighted[r.Intn(len(weighted))]
	}
	return string(b)
}
