package main

import (
	"fmt"
	"sort"

	"verifharness/lib"
)

func bp(b bool) *bool { return &b }

// ---- pools ----

// the last row: types that accept undef without being an Optional (a given_or_derived attribute of such a
// type carries no implicit value; a required attribute of such a type may be given undef)
var typePool = []Ty{tInt(), tIntR(0, 5), tIntR(1, 3), tStr(), tBool(), tOpt(tInt()), tOpt(tStr()), tArr(tInt()),
	tOpt(tIntR(0, 5)), tArr(tStr()), tInt(), tStr(),
	tAny(), tVarU(tStr()), tVarU(tIntR(0, 5)), tUndef(), tArr(tVarU(tInt())), tOpt(tVarU(tStr()))}

// Struct types (the init-type derivation typeAndInit rebuilds them member by member): an explicitly optional key
// whose value type does not accept undef, the conventional optional member ('x' => Optional[T]), a NotUndef key,
// below Array / Optional / Variant[Undef, .] and nested; values leave optional members out
var sXY = tStruct(smOpt("x", tInt()), sm("y", tStr()))
var sConv = tStruct(sm("x", tOpt(tInt())), sm("y", tStr()))
var sMN = tStruct(sm("m", tInt()), smOpt("n", tIntR(0, 5)))
var sP = tStruct(smOpt("p", tBool()))
var sNest = tStruct(sm("in", tStruct(smOpt("x", tInt()))), smOpt("q", tArr(tInt())))
var sNotU = tStruct(smNotU("u", tAny()), smOpt("w", tStr()))
var structPool = []Ty{sXY, sConv, tArr(sMN), tOpt(sXY), tVarU(sP), sNest, sNotU, sMN}

func init() { typePool = append(typePool, structPool...) }

var intPool = []int64{0, 1, 2, 3, 5, 7}
var strPool = []string{"", "x", "y"}

// valueOf draws a value that is an instance of t (from small pools, so that objects often agree).
func valueOf(r *lib.Rng, t Ty) RV {
	switch t.K {
	case "int":
		cands := []int64{}
		for _, i := range intPool {
			if (t.Lo == nil || *t.Lo <= i) && (t.Hi == nil || i <= *t.Hi) {
				cands = append(cands, i)
			}
		}
		if len(cands) == 0 {
			if t.Lo != nil {
				return vInt(*t.Lo)
			}
			return vInt(*t.Hi)
		}
		return vInt(cands[r.Intn(len(cands))])
	case "str":
		return vStr(strPool[r.Intn(len(strPool))])
	case "bool":
		return vBool(r.Bool())
	case "opt":
		if r.Chance(1, 3) {
			return vUndef()
		}
		return valueOf(r, *t.E)
	case "arr":
		n := r.Intn(3)
		es := make([]RV, n)
		for i := range es {
			es[i] = valueOf(r, *t.E)
		}
		return vArr(es...)
	case "any":
		switch r.Intn(5) {
		case 0:
			return vUndef()
		case 1:
			return vInt(intPool[r.Intn(len(intPool))])
		case 2:
			return vStr(strPool[r.Intn(len(strPool))])
		case 3:
			return vBool(r.Bool())
		}
		return vArr(vInt(1), vStr("x"))
	case "varu":
		if r.Chance(1, 3) {
			return vUndef()
		}
		return valueOf(r, *t.E)
	case "struct":
		h := []KV{}
		for _, m := range t.sortedMembers() {
			if !m.required() && r.Bool() {
				continue // a member that may be left out
			}
			h = append(h, KV{m.N, valueOf(r, m.T)})
		}
		return vHash(h...)
	}
	return vUndef()
}

// notValueOf draws a value that is NOT an instance of t.
func notValueOf(r *lib.Rng, t Ty) RV {
	cands := []RV{vStr("x"), vInt(9), vBool(true), vUndef(), vArr(vInt(1)), vArr(vStr("x")), vInt(-4),
		vHash(KV{"zz", vInt(1)}), vHash(KV{"x", vStr("no")}, KV{"y", vStr("v")}), vHash()}
	for k := 0; k < 20; k++ {
		c := cands[r.Intn(len(cands))]
		if !instOf(t, c) {
			return c
		}
	}
	return vHash()
}

// narrower draws a type assignable to t (for overrides).
func narrower(r *lib.Rng, t Ty) Ty {
	switch t.K {
	case "int":
		if t.Lo == nil && t.Hi == nil && r.Bool() {
			return tIntR(0, 5)
		}
		if t.Lo != nil && t.Hi != nil && *t.Lo < *t.Hi && r.Bool() {
			return tIntR(*t.Lo+1, *t.Hi)
		}
		return t
	case "opt":
		if r.Bool() {
			return narrower(r, *t.E)
		}
		return tOpt(narrower(r, *t.E))
	case "arr":
		return tArr(narrower(r, *t.E))
	case "any":
		if r.Bool() {
			return typePool[r.Intn(len(typePool))]
		}
	case "varu":
		switch r.Intn(3) {
		case 0:
			return narrower(r, *t.E)
		case 1:
			return tOpt(narrower(r, *t.E))
		}
		return tVarU(narrower(r, *t.E))
	case "struct":
		// narrow member types, make a member that may be left out required, drop one that may be left out
		out := Ty{K: "struct"}
		for _, m := range t.M {
			if !m.required() && r.Chance(1, 4) {
				continue
			}
			if r.Chance(1, 3) {
				m.T = narrower(r, m.T)
			}
			if m.Opt && r.Chance(1, 3) {
				m.Opt = false
			}
			out.M = append(out.M, m)
		}
		if len(out.M) == 0 {
			return t
		}
		return out
	}
	return t
}

// notAssignable draws a type that is not assignable to t.
func notAssignable(r *lib.Rng, t Ty) Ty {
	for k := 0; k < 30; k++ {
		c := typePool[r.Intn(len(typePool))]
		if !assignable(t, c) {
			return c
		}
	}
	return tArr(tBool())
}

var attrNames = []string{"a", "b", "c", "d", "e", "f", "g", "h", "i", "j"}
var constNames = []string{"k", "m", "n"}
var typeNames = []string{"Ta", "Tb", "Tc", "Td", "Te"}

// predicted constructor attributes (generator side only: used to draw sensible requests)
func ctorOrder(ref *RefType) (names []RefAttr, req int) {
	if ref.Spec.HasSer {
		for _, n := range ref.Spec.Ser {
			if a, ok := ref.attr(n); ok {
				names = append(names, a)
				if !a.optional() {
					req++
				}
			}
		}
		return
	}
	var opt []RefAttr
	for _, a := range ref.All {
		if !a.ctor() {
			continue
		}
		if a.optional() {
			opt = append(opt, a)
		} else {
			names = append(names, a)
		}
	}
	req = len(names)
	return append(names, opt...), req
}

// genAttr draws a fresh attribute.
func genAttr(r *lib.Rng, name string) AttrSpec {
	a := AttrSpec{Name: name, Type: typePool[r.Intn(len(typePool))]}
	switch k := r.Intn(20); {
	case k < 12:
	case k < 14:
		a.Kind = "given_or_derived"
	case k < 15:
		a.Kind = "derived"
	case k < 17:
		a.Kind = "constant"
	default:
		a.Kind = "reference"
	}
	switch a.Kind {
	case "constant":
		a.HasValue, a.Value = true, valueOf(r, a.Type)
		if r.Chance(1, 4) {
			a.Final = bp(true)
		}
	case "", "reference":
		if r.Chance(2, 5) {
			a.HasValue, a.Value = true, valueOf(r, a.Type)
		}
		if r.Chance(1, 12) {
			a.Final = bp(r.Chance(2, 3))
		}
		if r.Chance(1, 15) {
			a.Override = bp(false)
		}
	}
	a.Short = r.Chance(3, 5)
	if r.Chance(1, 8) && (a.Short && a.canShort() || isTypeName(a.Type.Text())) && !hasQuote(a.Type.Text()) {
		a.TypeStr = true
	}
	return a
}

// hasQuote: the text of the type cannot be written inside a single-quoted String literal (Struct keys)
func hasQuote(s string) bool {
	for i := 0; i < len(s); i++ {
		if s[i] == '\'' {
			return true
		}
	}
	return false
}

func genConstValue(r *lib.Rng) RV {
	switch r.Intn(4) {
	case 0:
		return vInt(intPool[r.Intn(len(intPool))])
	case 1:
		return vStr(strPool[r.Intn(len(strPool))])
	case 2:
		return vBool(r.Bool())
	}
	return vArr(vInt(1), vInt(2))
}

// genDef draws a definition that is well formed by construction (given the reference views of
// the definitions before it).
func genDef(r *lib.Rng, name string, parent *RefType, used map[string]bool) *DefSpec {
	d := &DefSpec{Name: name}
	if parent != nil {
		d.Parent = parent.Spec.Name
	}
	fresh := func(pool []string) string {
		for k := 0; k < 30; k++ {
			n := pool[r.Intn(len(pool))]
			if !used[n] {
				used[n] = true
				return n
			}
		}
		return ""
	}
	n := r.Intn(4)
	if parent == nil && n == 0 && r.Chance(3, 4) {
		n = 1 + r.Intn(3)
	}
	for i := 0; i < n; i++ {
		if nm := fresh(attrNames); nm != "" {
			d.Attrs = append(d.Attrs, genAttr(r, nm))
		}
	}
	// overrides of inherited attributes
	if parent != nil && r.Chance(1, 3) {
		cands := []RefAttr{}
		for _, a := range parent.All {
			if !a.Final && a.Kind != "constant" {
				cands = append(cands, a)
			}
		}
		if len(cands) > 0 {
			inh := cands[r.Intn(len(cands))]
			a := AttrSpec{Name: inh.Name, Type: narrower(r, inh.Ty), Override: bp(true), Kind: inh.Kind}
			if a.Kind == "derived" || a.Kind == "given_or_derived" {
				if r.Bool() {
					a.Kind = ""
				}
			}
			if (a.Kind == "" || a.Kind == "reference") && r.Bool() {
				a.HasValue, a.Value = true, valueOf(r, a.Type)
			}
			// at a random position among the own attributes
			pos := r.Intn(len(d.Attrs) + 1)
			d.Attrs = append(d.Attrs[:pos], append([]AttrSpec{a}, d.Attrs[pos:]...)...)
		}
	}
	if r.Chance(1, 4) {
		if nm := fresh(constNames); nm != "" {
			d.Consts = append(d.Consts, KV{nm, genConstValue(r)})
		}
	}
	if parent != nil && r.Chance(1, 6) {
		// a constant overriding an inherited constant (same generic type)
		for _, a := range parent.All {
			if a.Kind == "constant" {
				if g, ok := generalizeOf(a.Def); ok && assignable(a.Ty, g) {
					v := a.Def
					if v.K == "int" {
						v = vInt(v.I + 1)
					}
					dup := false
					for _, x := range d.Attrs {
						dup = dup || x.Name == a.Name
					}
					if !dup {
						d.Consts = append(d.Consts, KV{a.Name, v})
					}
					break
				}
			}
		}
	}
	// equality
	if r.Bool() {
		cands := []string{}
		for _, a := range d.Attrs {
			if a.Kind != "constant" && !(parent != nil && parent.Eq[a.Name]) {
				cands = append(cands, a.Name)
			}
		}
		if parent != nil {
			for _, a := range parent.All {
				own := false
				for _, x := range d.Attrs {
					own = own || x.Name == a.Name
				}
				for _, x := range d.Consts {
					own = own || x.K == a.Name
				}
				if a.Kind != "constant" && !parent.Eq[a.Name] && !own {
					cands = append(cands, a.Name)
				}
			}
		}
		eq := &EqSpec{Names: []string{}}
		for _, c := range cands {
			if r.Bool() {
				eq.Names = append(eq.Names, c)
			}
		}
		if len(eq.Names) > 1 && r.Bool() {
			eq.Names[0], eq.Names[len(eq.Names)-1] = eq.Names[len(eq.Names)-1], eq.Names[0]
		}
		eq.One = len(eq.Names) == 1 && r.Chance(1, 3)
		d.Equality = eq
	}
	if r.Chance(1, 5) {
		d.EqIncl = bp(r.Bool())
	}
	// serialization: a complete enumeration, required attributes first
	if r.Chance(1, 5) {
		tmp := refOf(d, map[string]*RefType{d.Parent: parent})
		var reqd, opt []string
		for _, a := range tmp.All {
			if !a.ctor() {
				continue
			}
			if a.optional() {
				opt = append(opt, a.Name)
			} else {
				reqd = append(reqd, a.Name)
			}
		}
		shuffle(r, reqd)
		shuffle(r, opt)
		d.HasSer, d.Ser = true, append(reqd, opt...)
		if r.Chance(1, 4) && len(d.Ser) > 0 {
			// the input class of the open finding: not a complete duplicate-free enumeration
			if r.Bool() {
				k := r.Intn(len(d.Ser))
				d.Ser = append(d.Ser[:k], d.Ser[k+1:]...)
			} else {
				k := r.Intn(len(d.Ser))
				d.Ser = append(d.Ser[:k+1], d.Ser[k:]...)
			}
		}
	}
	return d
}

func shuffle(r *lib.Rng, s []string) {
	for i := len(s) - 1; i > 0; i-- {
		j := r.Intn(i + 1)
		s[i], s[j] = s[j], s[i]
	}
}

// ---- negative cases: one by-design reason to reject, or a shape the schema rejects ----

// breakSpec turns a well-formed definition into an ill-formed one at the level of DefSpec
// (the reference `wellFormed` knows why). Returns the note, "" when the mutation is not applicable.
func breakSpec(r *lib.Rng, d *DefSpec, parent *RefType, used map[string]bool) string {
	pickAttr := func(pred func(a *AttrSpec) bool) *AttrSpec {
		idx := []int{}
		for i := range d.Attrs {
			if pred(&d.Attrs[i]) {
				idx = append(idx, i)
			}
		}
		if len(idx) == 0 {
			return nil
		}
		return &d.Attrs[idx[r.Intn(len(idx))]]
	}
	any := func(a *AttrSpec) bool { return true }
	ensureAttr := func() *AttrSpec {
		if a := pickAttr(func(a *AttrSpec) bool { return a.Override == nil }); a != nil {
			return a
		}
		for _, n := range attrNames {
			if !used[n] {
				used[n] = true
				d.Attrs = append(d.Attrs, AttrSpec{Name: n, Type: tInt()})
				return &d.Attrs[len(d.Attrs)-1]
			}
		}
		return nil
	}
	switch k := r.Intn(24); k {
	case 0:
		d.Parent = "Nope"
		return "unknown parent"
	case 1:
		d.Parent = d.Name
		return "parent is the type itself"
	case 2:
		if a := ensureAttr(); a != nil {
			a.Kind, a.HasValue, a.Short = "", true, false
			a.Value = notValueOf(r, a.Type)
			return "default value outside the type"
		}
	case 3:
		if a := ensureAttr(); a != nil {
			a.Kind, a.HasValue, a.Short = "constant", false, false
			return "constant without value"
		}
	case 4:
		if a := ensureAttr(); a != nil {
			a.Kind, a.HasValue, a.Value, a.Final, a.Short = "constant", true, valueOf(r, a.Type), bp(false), false
			return "constant with final => false"
		}
	case 5:
		if a := ensureAttr(); a != nil {
			a.Kind, a.HasValue, a.Value, a.Short = []string{"derived", "given_or_derived"}[r.Intn(2)], true, valueOf(r, a.Type), false
			return "derived with value"
		}
	case 6:
		if parent != nil && len(parent.All) > 0 {
			inh := parent.All[r.Intn(len(parent.All))]
			for _, x := range d.Attrs {
				if x.Name == inh.Name {
					return ""
				}
			}
			for _, x := range d.Consts {
				if x.K == inh.Name {
					return ""
				}
			}
			a := AttrSpec{Name: inh.Name, Type: inh.Ty, Short: r.Bool()}
			if r.Chance(1, 3) {
				a.Override = bp(false)
			}
			d.Attrs = append(d.Attrs, a)
			return "override missing"
		}
	case 7:
		if a := ensureAttr(); a != nil {
			if _, inherited := parent.attr(a.Name); !inherited {
				a.Override, a.Short = bp(true), false
				return "overridden not found"
			}
		}
	case 8:
		if parent != nil {
			for _, inh := range parent.All {
				if !inh.Final && inh.Kind != "constant" {
					for _, x := range d.Attrs {
						if x.Name == inh.Name {
							return ""
						}
					}
					d.Attrs = append(d.Attrs, AttrSpec{Name: inh.Name, Type: notAssignable(r, inh.Ty), Override: bp(true)})
					return "override type mismatch"
				}
			}
		}
	case 9:
		if parent != nil {
			for _, inh := range parent.All {
				if inh.Final {
					for _, x := range d.Attrs {
						if x.Name == inh.Name {
							return ""
						}
					}
					for _, x := range d.Consts {
						if x.K == inh.Name {
							return ""
						}
					}
					d.Attrs = append(d.Attrs, AttrSpec{Name: inh.Name, Type: inh.Ty, Override: bp(true)})
					return "override of final"
				}
			}
		}
	case 10:
		if a := pickAttr(any); a != nil {
			d.Consts = append(d.Consts, KV{a.Name, vInt(1)})
			return "both constant and attribute"
		}
	case 11:
		if d.Equality == nil {
			d.Equality = &EqSpec{}
		}
		d.Equality.Names = append(d.Equality.Names, "zz")
		return "equality attribute not found"
	case 12:
		name := ""
		if len(d.Consts) > 0 {
			name = d.Consts[0].K
		} else if a := pickAttr(func(a *AttrSpec) bool { return a.Kind == "constant" }); a != nil {
			name = a.Name
		} else if parent != nil {
			for _, a := range parent.All {
				if a.Kind == "constant" {
					name = a.Name
				}
			}
		}
		if name != "" {
			if d.Equality == nil {
				d.Equality = &EqSpec{}
			}
			d.Equality.Names = append([]string{name}, d.Equality.Names...)
			return "equality on constant"
		}
	case 13:
		if parent != nil {
			names := []string{}
			for n := range parent.Eq {
				if a, ok := parent.attr(n); ok && a.Kind != "constant" {
					names = append(names, n)
				}
			}
			sort.Strings(names)
			if len(names) > 0 {
				if d.Equality == nil {
					d.Equality = &EqSpec{}
				}
				d.Equality.Names = append(d.Equality.Names, names[r.Intn(len(names))])
				return "equality redefined"
			}
		}
	case 14:
		d.HasSer = true
		d.Ser = append(d.Ser, "zz")
		return "serialization attribute not found"
	case 15:
		name := ""
		if len(d.Consts) > 0 {
			name = d.Consts[0].K
		} else if a := pickAttr(func(a *AttrSpec) bool { return a.Kind == "constant" || a.Kind == "derived" }); a != nil {
			name = a.Name
		}
		if name != "" {
			d.HasSer = true
			d.Ser = append([]string{name}, d.Ser...)
			return "serialization bad kind"
		}
	case 16:
		tmp := refOf(d, map[string]*RefType{d.Parent: parent})
		var reqd, opt string
		for _, a := range tmp.All {
			if a.ctor() && a.optional() {
				opt = a.Name
			} else if a.ctor() {
				reqd = a.Name
			}
		}
		if reqd != "" && opt != "" {
			d.HasSer, d.Ser = true, []string{opt, reqd}
			return "serialization required after optional"
		}
	case 17:
		if parent != nil {
			for _, inh := range parent.All {
				if inh.Kind == "constant" {
					if g, ok := generalizeOf(inh.Def); ok {
						v := vStr("x")
						if g.K == "str" {
							v = vInt(1)
						}
						for _, x := range d.Consts {
							if x.K == inh.Name {
								return ""
							}
						}
						for _, x := range d.Attrs {
							if x.Name == inh.Name {
								return ""
							}
						}
						d.Consts = append(d.Consts, KV{inh.Name, v})
						return "constant override type mismatch"
					}
				}
			}
		}
	case 18:
		if a := pickAttr(func(a *AttrSpec) bool { return !isTypeName(a.Type.Text()) && !hasQuote(a.Type.Text()) }); a != nil {
			a.TypeStr, a.Short = true, false
			if a.canShort() {
				a.Final = bp(false)
			}
			return "type string with parameters where only a type name is admitted"
		}
	default:
		// a parent-level constant overridden by a plain attribute (final)
		if parent != nil {
			for _, inh := range parent.All {
				if inh.Kind == "constant" {
					for _, x := range d.Attrs {
						if x.Name == inh.Name {
							return ""
						}
					}
					for _, x := range d.Consts {
						if x.K == inh.Name {
							return ""
						}
					}
					d.Attrs = append(d.Attrs, AttrSpec{Name: inh.Name, Type: inh.Ty, Override: bp(true)})
					return "override of final constant by attribute"
				}
			}
		}
	}
	return ""
}

// noise mutates the raw tree below the level of DefSpec (shapes the schema or the attribute
// initializer rejects). Returns the mutated tree and a note.
func noise(r *lib.Rng, raw RV) (RV, string) {
	set := func(h []KV, k string, v RV) []KV {
		out := []KV{}
		done := false
		for _, e := range h {
			if e.K == k {
				out = append(out, KV{k, v})
				done = true
			} else {
				out = append(out, e)
			}
		}
		if !done {
			out = append(out, KV{k, v})
		}
		return out
	}
	attrs, hasAttrs := raw.get("attributes")
	mutAttr := func(f func(name string, spec RV) (string, RV)) (RV, bool) {
		if !hasAttrs || len(attrs.H) == 0 {
			return raw, false
		}
		i := r.Intn(len(attrs.H))
		nh := append([]KV{}, attrs.H...)
		nn, nv := f(nh[i].K, nh[i].V)
		nh[i] = KV{nn, nv}
		return vHash(set(raw.H, "attributes", vHash(nh...))...), true
	}
	long := func(spec RV) RV {
		if spec.K == "hash" {
			return spec
		}
		return vHash(KV{"type", spec})
	}
	switch r.Intn(16) {
	case 0:
		return vHash(set(raw.H, "foo", vInt(1))...), "unknown key in the init hash"
	case 1:
		if v, ok := mutAttr(func(n string, s RV) (string, RV) { return n, vHash(set(long(s).H, "foo", vInt(1))...) }); ok {
			return v, "unknown key in an attribute"
		}
	case 2:
		if v, ok := mutAttr(func(n string, s RV) (string, RV) { return n, vHash(set(long(s).H, "kind", vStr("foo"))...) }); ok {
			return v, "unknown attribute kind"
		}
	case 3:
		if v, ok := mutAttr(func(n string, s RV) (string, RV) { return n, vInt(5) }); ok {
			return v, "attribute given as an Integer"
		}
	case 4:
		if v, ok := mutAttr(func(n string, s RV) (string, RV) { return n, vStr("Integer[") }); ok {
			return v, "attribute type string that does not parse"
		}
	case 5:
		if v, ok := mutAttr(func(n string, s RV) (string, RV) { return "B" + n, s }); ok {
			return v, "attribute name that is not a member name"
		}
	case 6:
		return vHash(set(raw.H, "equality", vInt(5))...), "equality given as an Integer"
	case 7:
		return vHash(set(raw.H, "serialization", vStr("a"))...), "serialization given as a String"
	case 8:
		return vHash(set(raw.H, "attributes", vInt(5))...), "attributes given as an Integer"
	case 9:
		return vHash(set(raw.H, "equality_include_type", vStr("x"))...), "equality_include_type given as a String"
	case 10:
		return vHash(set(raw.H, "parent", vInt(5))...), "parent given as an Integer"
	case 11:
		return vHash(set(raw.H, "parent", vType(tInt()))...), "parent is not an Object type"
	case 12:
		return vHash(set(raw.H, "constants", vArr(vInt(1)))...), "constants given as an Array"
	case 13:
		if v, ok := mutAttr(func(n string, s RV) (string, RV) { return n, vHash(set(long(s).H, "type", vStr("lower"))...) }); ok {
			return v, "attribute type given as a String that is not a type name"
		}
	case 14:
		if v, ok := mutAttr(func(n string, s RV) (string, RV) { return n, vHash(set(long(s).H, "override", vStr("yes"))...) }); ok {
			return v, "override given as a String"
		}
	case 15:
		return vHash(set(raw.H, "equality", vArr(vStr("Bad")))...), "equality name that is not a member name"
	}
	return vHash(set(raw.H, "foo", vInt(1))...), "unknown key in the init hash"
}

// ---- construction requests ----

func genRequests(r *lib.Rng, t int, ref *RefType, n int) []NewReq {
	attrs, req := ctorOrder(ref)
	out := []NewReq{}
	posArgs := func(k int) []RV {
		args := make([]RV, k)
		for i := 0; i < k; i++ {
			args[i] = valueOf(r, attrs[i].Ty)
		}
		return args
	}
	var last []RV
	for q := 0; q < n; q++ {
		switch c := r.Intn(20); {
		case c < 6 || last == nil && c < 12:
			k := req
			if len(attrs) > req {
				k += r.Intn(len(attrs) - req + 1)
			}
			last = posArgs(k)
			out = append(out, NewReq{T: t, Args: last})
		case c < 9:
			// full length, optional ones often at their default (trimmed or not, must not matter)
			args := posArgs(len(attrs))
			for i := req; i < len(attrs); i++ {
				if attrs[i].HasDef && r.Chance(2, 3) {
					args[i] = attrs[i].Def
				}
			}
			last = args
			out = append(out, NewReq{T: t, Args: args})
		case c < 12:
			// perturb one attribute of the last positional tuple
			args := append([]RV{}, last...)
			if len(args) > 0 {
				i := r.Intn(len(args))
				args[i] = valueOf(r, attrs[i].Ty)
			}
			out = append(out, NewReq{T: t, Args: args})
		case c < 16:
			h := []KV{}
			for i, a := range attrs {
				if i < req || r.Bool() {
					h = append(h, KV{a.Name, valueOf(r, a.Ty)})
				}
			}
			if r.Bool() {
				for i, j := 0, len(h)-1; i < j; i, j = i+1, j-1 {
					h[i], h[j] = h[j], h[i]
				}
			}
			out = append(out, NewReq{T: t, Named: true, Hash: h})
		case c == 16:
			if req > 0 {
				out = append(out, NewReq{T: t, Args: posArgs(req - 1)})
			} else {
				out = append(out, NewReq{T: t, Args: append(posArgs(len(attrs)), vInt(1))})
			}
		case c == 17:
			args := posArgs(len(attrs))
			if len(args) > 0 {
				i := r.Intn(len(args))
				args[i] = notValueOf(r, attrs[i].Ty)
			}
			out = append(out, NewReq{T: t, Args: args})
		case c == 18:
			h := []KV{}
			for _, a := range attrs {
				h = append(h, KV{a.Name, valueOf(r, a.Ty)})
			}
			switch r.Intn(3) {
			case 0:
				h = append(h, KV{"zz", vInt(1)})
			case 1:
				if req > 0 {
					h = h[1:]
				}
			default:
				if len(h) > 0 {
					i := r.Intn(len(h))
					h[i].V = notValueOf(r, attrs[i].Ty)
				}
			}
			out = append(out, NewReq{T: t, Named: true, Hash: h})
		default:
			// a constant or derived attribute passed by name
			h := []KV{}
			for i, a := range attrs {
				if i < req {
					h = append(h, KV{a.Name, valueOf(r, a.Ty)})
				}
			}
			for _, a := range ref.All {
				if !a.ctor() {
					h = append(h, KV{a.Name, valueOf(r, a.Ty)})
					break
				}
			}
			out = append(out, NewReq{T: t, Named: true, Hash: h})
		}
	}
	return out
}

// ---- worlds ----

func worldNames(w *World) {
	seen := map[string]bool{}
	add := func(n string) {
		if !seen[n] {
			seen[n] = true
			w.Names = append(w.Names, n)
		}
	}
	for _, d := range w.Defs {
		if at, ok := d.Raw.get("attributes"); ok {
			for _, e := range at.H {
				add(e.K)
			}
		}
		if ct, ok := d.Raw.get("constants"); ok {
			for _, e := range ct.H {
				add(e.K)
			}
		}
	}
	add("zz")
}

func randomWorld(r *lib.Rng) *World {
	w := &World{Family: "random"}
	known := map[string]*RefType{}
	refs := []*RefType{}
	used := map[string]bool{}
	n := 1 + r.Intn(4)
	for i := 0; i < n; i++ {
		var parent *RefType
		if i > 0 && !r.Chance(1, 6) {
			// mostly a chain, sometimes a branch
			if r.Chance(3, 4) {
				parent = refs[i-1]
			} else {
				parent = refs[r.Intn(i)]
			}
		}
		d := genDef(r, typeNames[i], parent, used)
		route := "text"
		if r.Chance(2, 5) {
			route = "hash"
			if d.Parent != "" && r.Chance(1, 3) {
				d.ParentStr = true
			}
		}
		def := Def{Name: d.Name, Route: route, Spec: d}
		last := i == n-1
		if last && r.Chance(2, 5) {
			if r.Chance(2, 3) {
				def.Note = breakSpec(r, d, parent, used)
			} else {
				raw, note := noise(r, d.raw(route == "hash"))
				def.Raw, def.Note, def.Spec = raw, note, nil
			}
		}
		if def.Spec != nil {
			def.Raw = d.raw(route == "hash")
		}
		w.Defs = append(w.Defs, def)
		if def.Spec != nil && wellFormed(d, known) == "" {
			ref := refOf(d, known)
			known[d.Name] = ref
			refs = append(refs, ref)
		} else {
			// an ill-formed definition is always the last one of its world
			refs = append(refs, nil)
			break
		}
	}
	for i, ref := range refs {
		if ref != nil {
			w.News = append(w.News, genRequests(r, i, ref, 2+r.Intn(3))...)
		}
	}
	worldNames(w)
	return w
}

// ---- the bounded-exhaustive family: every single-level definition over two attributes, each of
// six shapes, with every equality declaration and serialization order, and all tuples over a
// two-value pool ----

var shapes = []func(name string) (AttrSpec, bool){
	func(n string) (AttrSpec, bool) { return AttrSpec{Name: n, Type: tInt(), Short: true}, true },
	func(n string) (AttrSpec, bool) { return AttrSpec{Name: n, Type: tInt(), HasValue: true, Value: vInt(3)}, true },
	func(n string) (AttrSpec, bool) { return AttrSpec{Name: n, Type: tOpt(tInt()), Short: true}, true },
	func(n string) (AttrSpec, bool) { return AttrSpec{Name: n, Type: tInt(), Kind: "given_or_derived"}, true },
	func(n string) (AttrSpec, bool) { return AttrSpec{Name: n, Type: tInt(), Kind: "constant", HasValue: true, Value: vInt(9)}, true },
	func(n string) (AttrSpec, bool) { return AttrSpec{Name: n, Type: tInt(), Kind: "derived"}, true },
	// types that accept undef without being an Optional: given_or_derived without any value, and required
	func(n string) (AttrSpec, bool) { return AttrSpec{Name: n, Type: tAny(), Kind: "given_or_derived"}, true },
	func(n string) (AttrSpec, bool) {
		return AttrSpec{Name: n, Type: tVarU(tInt()), Kind: "given_or_derived"}, true
	},
	func(n string) (AttrSpec, bool) { return AttrSpec{Name: n, Type: tAny(), Short: true}, true },
	// a Struct type with an explicitly optional member: required, and with a default that leaves the member out
	func(n string) (AttrSpec, bool) { return AttrSpec{Name: n, Type: sXY, Short: true}, true },
	func(n string) (AttrSpec, bool) {
		return AttrSpec{Name: n, Type: sXY, HasValue: true, Value: vHash(KV{"y", vStr("d")})}, true
	},
}

// exhPool: the two values every tuple of the exhaustive family draws from, by the type of the attribute
func exhPool(t Ty) []RV {
	if instOf(t, vInt(1)) {
		return []RV{vInt(1), vInt(3)}
	}
	return []RV{vHash(KV{"y", vStr("v")}), vHash(KV{"x", vInt(1)}, KV{"y", vStr("d")})}
}

func exhaustiveCount() int { return len(shapes) * len(shapes) * 6 * 4 }

func exhaustiveWorlds(emit func(w *World)) int {
	eqs := []*EqSpec{nil, {Names: []string{"a"}}, {Names: []string{"b"}}, {Names: []string{"a", "b"}}, {Names: []string{}}, {One: true, Names: []string{"b"}}}
	sers := [][]string{nil, {"a", "b"}, {"b", "a"}, {"a"}}
	n := 0
	for sa := range shapes {
		for sb := range shapes {
			for _, eq := range eqs {
				for si, ser := range sers {
					a, _ := shapes[sa]("a")
					b, _ := shapes[sb]("b")
					d := &DefSpec{Name: "Ta", Attrs: []AttrSpec{a, b}, Equality: eq}
					if si > 0 {
						d.HasSer, d.Ser = true, ser
					}
					route := "text"
					if (sa+sb+si)%2 == 1 {
						route = "hash"
					}
					w := &World{Family: "exhaustive", Defs: []Def{{Name: "Ta", Route: route, Spec: d, Raw: d.raw(route == "hash")}}}
					if wellFormed(d, map[string]*RefType{}) == "" {
						ref := refOf(d, map[string]*RefType{})
						attrs, req := ctorOrder(ref)
						// all positional tuples of every admissible length over the pools
						for k := req; k <= len(attrs); k++ {
							total := 1
							for i := 0; i < k; i++ {
								total *= 2
							}
							for code := 0; code < total; code++ {
								args := make([]RV, k)
								c := code
								for i := 0; i < k; i++ {
									args[i] = exhPool(attrs[i].Ty)[c%2]
									c /= 2
								}
								w.News = append(w.News, NewReq{T: 0, Args: args})
							}
						}
						// inadmissible lengths
						if req > 0 {
							w.News = append(w.News, NewReq{T: 0, Args: []RV{}})
						}
						over := make([]RV, len(attrs)+1)
						for i := range over {
							over[i] = vInt(1)
						}
						w.News = append(w.News, NewReq{T: 0, Args: over})
						// a named request with an explicit undef for every attribute whose type accepts it
						h := []KV{}
						for _, at := range attrs {
							if at.Ty.acceptsUndef() {
								h = append(h, KV{at.Name, vUndef()})
							} else {
								h = append(h, KV{at.Name, exhPool(at.Ty)[1]})
							}
						}
						w.News = append(w.News, NewReq{T: 0, Named: true, Hash: h})
					}
					worldNames(w)
					emit(w)
					n++
				}
			}
		}
	}
	return n
}

// ---- corpus: the inputs on which the pinned tree was seen to fail (always run first) ----

func corpusWorlds() []*World {
	mk := func(family string, defs []*DefSpec, routes []string, news []NewReq) *World {
		w := &World{Family: family}
		for i, d := range defs {
			w.Defs = append(w.Defs, Def{Name: d.Name, Route: routes[i], Spec: d, Raw: d.raw(routes[i] == "hash")})
		}
		w.News = news
		worldNames(w)
		return w
	}
	ab := func() []AttrSpec {
		return []AttrSpec{{Name: "a", Type: tInt(), Short: true}, {Name: "b", Type: tInt(), HasValue: true, Value: vInt(3)}}
	}
	ws := []*World{}
	// positional P(1,3) and named P({a=>1}) with default b=3
	ws = append(ws, mk("corpus", []*DefSpec{{Name: "Ta", Attrs: ab()}}, []string{"text"},
		[]NewReq{{T: 0, Args: []RV{vInt(1), vInt(3)}}, {T: 0, Named: true, Hash: []KV{{"a", vInt(1)}}}, {T: 0, Args: []RV{vInt(1)}}, {T: 0, Args: []RV{vInt(1), vInt(4)}}}))
	// equality given as an array / as a string
	for _, route := range []string{"text", "hash"} {
		ws = append(ws, mk("corpus", []*DefSpec{{Name: "Ta", Attrs: ab(), Equality: &EqSpec{Names: []string{"a"}}}}, []string{route},
			[]NewReq{{T: 0, Args: []RV{vInt(1), vInt(3)}}, {T: 0, Args: []RV{vInt(1), vInt(4)}}, {T: 0, Args: []RV{vInt(2), vInt(3)}}}))
		ws = append(ws, mk("corpus", []*DefSpec{{Name: "Ta", Attrs: ab(), Equality: &EqSpec{One: true, Names: []string{"b"}}}}, []string{route},
			[]NewReq{{T: 0, Args: []RV{vInt(1), vInt(3)}}, {T: 0, Args: []RV{vInt(1), vInt(4)}}, {T: 0, Args: []RV{vInt(2)}}}))
	}
	// serialization with two required attributes
	ws = append(ws, mk("corpus", []*DefSpec{{Name: "Ta", Attrs: []AttrSpec{{Name: "a", Type: tInt(), Short: true}, {Name: "b", Type: tInt(), Short: true}}, HasSer: true, Ser: []string{"b", "a"}}}, []string{"text"},
		[]NewReq{{T: 0, Args: []RV{}}, {T: 0, Args: []RV{vInt(1)}}, {T: 0, Args: []RV{vInt(1), vInt(2)}}, {T: 0, Named: true, Hash: []KV{{"a", vInt(2)}, {"b", vInt(1)}}}}))
	// an overriding attribute
	ws = append(ws, mk("corpus", []*DefSpec{
		{Name: "Ta", Attrs: ab()},
		{Name: "Tb", Parent: "Ta", Attrs: []AttrSpec{{Name: "c", Type: tInt(), Short: true}, {Name: "b", Type: tIntR(0, 5), HasValue: true, Value: vInt(5), Override: bp(true)}}}},
		[]string{"text", "text"},
		[]NewReq{{T: 1, Args: []RV{vInt(1), vInt(2)}}, {T: 1, Args: []RV{vInt(1), vInt(2), vInt(4)}}, {T: 1, Named: true, Hash: []KV{{"a", vInt(1)}, {"c", vInt(2)}, {"b", vInt(4)}}},
			{T: 0, Args: []RV{vInt(1)}}}))
	// an override whose type does not match: the rejection must be an ordinary issue
	ws = append(ws, mk("corpus", []*DefSpec{
		{Name: "Ta", Attrs: ab()},
		{Name: "Tb", Parent: "Ta", Attrs: []AttrSpec{{Name: "a", Type: tStr(), Override: bp(true)}}}},
		[]string{"text", "hash"}, nil))
	// the parent declares no equality (all its attributes take part); the child may not list one of them again
	ws = append(ws, mk("corpus", []*DefSpec{
		{Name: "Ta", Attrs: ab()},
		{Name: "Tb", Parent: "Ta", Attrs: []AttrSpec{{Name: "c", Type: tInt(), Short: true}}, Equality: &EqSpec{Names: []string{"a"}}}},
		[]string{"text", "text"}, nil))
	// three levels, equality per level, instances of all of them
	ws = append(ws, mk("corpus", []*DefSpec{
		{Name: "Ta", Attrs: ab(), Equality: &EqSpec{Names: []string{"a"}}},
		{Name: "Tb", Parent: "Ta", Attrs: []AttrSpec{{Name: "c", Type: tStr(), HasValue: true, Value: vStr("x")}}, Equality: &EqSpec{Names: []string{}}},
		{Name: "Tc", Parent: "Tb", Attrs: []AttrSpec{{Name: "d", Type: tOpt(tInt()), Short: true}}, Consts: []KV{{"k", vInt(9)}}},
		{Name: "Td", Parent: "Ta", Attrs: []AttrSpec{{Name: "e", Type: tBool(), Short: true}}}},
		[]string{"text", "hash", "text", "hash"},
		[]NewReq{{T: 0, Args: []RV{vInt(1)}}, {T: 1, Args: []RV{vInt(1)}}, {T: 1, Args: []RV{vInt(1), vInt(3), vStr("y")}}, {T: 2, Args: []RV{vInt(1)}}, {T: 2, Args: []RV{vInt(1), vInt(3), vStr("x"), vInt(7)}},
			{T: 2, Named: true, Hash: []KV{{"a", vInt(1)}, {"d", vInt(5)}}}, {T: 3, Args: []RV{vInt(1), vBool(true)}}}))
	// given_or_derived attributes whose type accepts undef without being an Optional carry no value: read
	// after a positional construction that leaves them out, compared with the named construction that
	// stores the undef, rebuilt from the init-hash (Optional[String] for comparison)
	god := func(n string, t Ty) AttrSpec { return AttrSpec{Name: n, Type: t, Kind: "given_or_derived"} }
	for _, route := range []string{"text", "hash"} {
		for _, t := range []Ty{tAny(), tVarU(tStr()), tUndef(), tOpt(tStr()), tStr()} {
			ws = append(ws, mk("corpus", []*DefSpec{{Name: "Ta", Attrs: []AttrSpec{{Name: "a", Type: tInt(), Short: true}, god("g", t)}}}, []string{route},
				[]NewReq{{T: 0, Args: []RV{vInt(1)}}, {T: 0, Named: true, Hash: []KV{{"a", vInt(1)}}}, {T: 0, Args: []RV{vInt(1), vUndef()}},
					{T: 0, Named: true, Hash: []KV{{"g", vUndef()}, {"a", vInt(1)}}}, {T: 0, Args: []RV{vInt(2)}}}))
		}
	}
	// ... inherited, behind a defaulted attribute, and with a serialization list that puts it last (the
	// required count must not include it: Ta(1) and Ta({a => 1}) are both accepted)
	ws = append(ws, mk("corpus", []*DefSpec{
		{Name: "Ta", Attrs: []AttrSpec{{Name: "a", Type: tInt(), Short: true}, god("g", tAny())}},
		{Name: "Tb", Parent: "Ta", Attrs: []AttrSpec{{Name: "b", Type: tInt(), HasValue: true, Value: vInt(3)}, god("v", tVarU(tInt()))}}},
		[]string{"text", "hash"},
		[]NewReq{{T: 1, Args: []RV{vInt(1)}}, {T: 1, Named: true, Hash: []KV{{"a", vInt(1)}}}, {T: 1, Args: []RV{vInt(1), vStr("x")}},
			{T: 1, Args: []RV{vInt(1), vUndef(), vInt(3), vInt(2)}}, {T: 1, Named: true, Hash: []KV{{"a", vInt(1)}, {"v", vInt(2)}}}, {T: 0, Args: []RV{vInt(1)}}}))
	for _, ser := range [][]string{{"a", "b", "g"}, {"a", "g", "b"}, {"g", "a", "b"}} {
		ws = append(ws, mk("corpus", []*DefSpec{{Name: "Ta", Attrs: []AttrSpec{{Name: "a", Type: tInt(), Short: true}, {Name: "b", Type: tInt(), HasValue: true, Value: vInt(3)}, god("g", tAny())},
			HasSer: true, Ser: ser}}, []string{"text"},
			[]NewReq{{T: 0, Args: []RV{vInt(1)}}, {T: 0, Named: true, Hash: []KV{{"a", vInt(1)}}}, {T: 0, Named: true, Hash: []KV{{"a", vInt(1)}, {"b", vInt(4)}, {"g", vStr("x")}}}}))
	}
	// a required attribute of type Any given undef, a single Hash as the positional argument of an Any attribute
	ws = append(ws, mk("corpus", []*DefSpec{{Name: "Ta", Attrs: []AttrSpec{{Name: "u", Type: tAny(), Short: true}, {Name: "b", Type: tInt(), HasValue: true, Value: vInt(3)}}}}, []string{"text"},
		[]NewReq{{T: 0, Args: []RV{vUndef()}}, {T: 0, Named: true, Hash: []KV{{"u", vUndef()}}}, {T: 0, Args: []RV{vHash(KV{"zz", vInt(1)})}}, {T: 0, Args: []RV{}},
			{T: 0, Named: true, Hash: []KV{{"u", vInt(1)}, {"b", vInt(3)}}}, {T: 0, Args: []RV{vInt(1)}}}))
	// attributes of a Struct type with an explicitly optional member whose value type does not accept undef
	// (Optional['x'] => Integer), directly, with a default, below Array / Optional / Variant[Undef, .], nested and
	// with a NotUndef key: a value that leaves the member out is given positionally, by name, as the default, and
	// comes back through the init-hash; the conventional form 'x' => Optional[Integer] for comparison
	yv := vHash(KV{"y", vStr("v")})
	xyv := vHash(KV{"x", vInt(2)}, KV{"y", vStr("v")})
	for _, route := range []string{"text", "hash"} {
		for _, st := range []Ty{sXY, sConv} {
			ws = append(ws, mk("corpus", []*DefSpec{{Name: "Ta", Attrs: []AttrSpec{{Name: "a", Type: tInt(), Short: true}, {Name: "s", Type: st, Short: true}}}}, []string{route},
				[]NewReq{{T: 0, Args: []RV{vInt(1), yv}}, {T: 0, Named: true, Hash: []KV{{"a", vInt(1)}, {"s", yv}}}, {T: 0, Args: []RV{vInt(1), xyv}},
					{T: 0, Named: true, Hash: []KV{{"s", xyv}, {"a", vInt(1)}}}, {T: 0, Args: []RV{vInt(1), vHash(KV{"x", vInt(2)})}},
					{T: 0, Named: true, Hash: []KV{{"a", vInt(1)}, {"s", vHash(KV{"y", vStr("v")}, KV{"z", vInt(1)})}}}}))
		}
		mv := vArr(vHash(KV{"m", vInt(3)}))
		ws = append(ws, mk("corpus", []*DefSpec{{Name: "Ta", Attrs: []AttrSpec{{Name: "a", Type: tInt(), Short: true},
			{Name: "s", Type: sXY, HasValue: true, Value: vHash(KV{"y", vStr("dflt")})}, {Name: "l", Type: tArr(sMN), HasValue: true, Value: vArr()}}}}, []string{route},
			[]NewReq{{T: 0, Args: []RV{vInt(1)}}, {T: 0, Args: []RV{vInt(1), yv}}, {T: 0, Named: true, Hash: []KV{{"a", vInt(1)}, {"s", yv}}},
				{T: 0, Args: []RV{vInt(1), vHash(KV{"y", vStr("dflt")}), mv}}, {T: 0, Named: true, Hash: []KV{{"a", vInt(1)}, {"l", mv}}},
				{T: 0, Args: []RV{vInt(1), vHash(KV{"y", vStr("dflt")}), vArr(vHash(KV{"m", vInt(3)}, KV{"n", vInt(9)}))}}}))
		ws = append(ws, mk("corpus", []*DefSpec{{Name: "Ta", Attrs: []AttrSpec{{Name: "o", Type: tOpt(sXY), Short: true}, {Name: "v", Type: tVarU(sP), Short: true},
			{Name: "n", Type: sNest, Short: true}, {Name: "u", Type: sNotU, Short: true}, god("g", sMN)}}}, []string{route},
			[]NewReq{{T: 0, Args: []RV{vHash(), vHash(KV{"in", vHash()}), vHash(KV{"u", vUndef()}), yv}},
				{T: 0, Args: []RV{vHash(), vHash(KV{"in", vHash()}), vHash(KV{"u", vUndef()})}},
				{T: 0, Named: true, Hash: []KV{{"v", vHash()}, {"n", vHash(KV{"in", vHash(KV{"x", vInt(1)})}, KV{"q", vArr(vInt(1))})}, {"u", vHash(KV{"u", vInt(1)}, KV{"w", vStr("x")})}, {"g", vHash(KV{"m", vInt(1)})}}},
				{T: 0, Args: []RV{vHash(KV{"p", vBool(true)}), vHash(KV{"in", vHash()}), vHash(KV{"u", vUndef()}), vUndef(), vHash(KV{"m", vInt(1)}, KV{"n", vInt(2)})}},
				{T: 0, Args: []RV{vHash(), vHash(KV{"in", vHash()}), vHash(KV{"w", vStr("x")})}}}))
	}
	// a Struct attribute overridden by a narrower Struct (the member that may be left out becomes required), and a
	// single Struct attribute (its value as the only positional argument is a Hash the named dispatcher looks at first)
	ws = append(ws, mk("corpus", []*DefSpec{
		{Name: "Ta", Attrs: []AttrSpec{{Name: "s", Type: sXY, Short: true}}},
		{Name: "Tb", Parent: "Ta", Attrs: []AttrSpec{{Name: "s", Type: tStruct(sm("x", tIntR(0, 5)), sm("y", tStr())), Override: bp(true)}}},
		{Name: "Tc", Parent: "Ta", Attrs: []AttrSpec{{Name: "s", Type: tStruct(smOpt("x", tInt()), sm("y", tStr()), smOpt("z", tInt())), Override: bp(true)}}}},
		[]string{"text", "hash", "text"},
		[]NewReq{{T: 0, Args: []RV{yv}}, {T: 0, Named: true, Hash: []KV{{"s", yv}}}, {T: 1, Args: []RV{yv}}, {T: 1, Args: []RV{xyv}}, {T: 1, Named: true, Hash: []KV{{"s", xyv}}}, {T: 0, Args: []RV{xyv}}}))
	return ws
}

func describeWorld(w *World) string {
	s := ""
	for _, d := range w.Defs {
		s += fmt.Sprintf("[%s] %s\n", d.Route, textOfRaw(d.Name, d.Raw))
	}
	return s
}
