package main

import (
	"fmt"

	"verifharness/lib"
)

// ---- generators of the nested family ----

func nvp(v NV) *NV { return &v }

// the wrappers around a reference to an Object type: the positions at which typeAndInit / coerceTo must find it
var nWrappers = []struct {
	name string
	ty   func(t NTy) NTy
	val  func(a, b NV) NV // a value of the wrapped type built from two values of t
}{
	{"direct", func(t NTy) NTy { return t }, func(a, b NV) NV { return a }},
	{"optional", func(t NTy) NTy { return nOpt(t) }, func(a, b NV) NV { return b }},
	{"array", func(t NTy) NTy { return nArr(t) }, func(a, b NV) NV { return nvArr(a, b) }},
	{"hash-value", func(t NTy) NTy { return nHashV(t) }, func(a, b NV) NV { return nvHash(NKV{"k1", a}, NKV{"k2", b}) }},
	{"struct-member", func(t NTy) NTy { return nStruct(NMem{N: "p", T: t}, NMem{N: "q", T: nInt()}) },
		func(a, b NV) NV { return nvHash(NKV{"p", a}, NKV{"q", nvInt(2)}) }},
	{"struct-optional-member", func(t NTy) NTy { return nStruct(NMem{N: "p", Opt: true, T: t}, NMem{N: "q", T: nInt()}) },
		func(a, b NV) NV { return nvHash(NKV{"p", b}, NKV{"q", nvInt(2)}) }},
	{"array-of-optional", func(t NTy) NTy { return nArr(nOpt(t)) }, func(a, b NV) NV { return nvArr(a, nvUndef(), b) }},
	{"optional-array", func(t NTy) NTy { return nOpt(nArr(t)) }, func(a, b NV) NV { return nvArr(b) }},
	{"hash-of-arrays", func(t NTy) NTy { return nHashV(nArr(t)) }, func(a, b NV) NV { return nvHash(NKV{"k1", nvArr(a, b)}) }},
	{"struct-in-array", func(t NTy) NTy { return nArr(nStruct(NMem{N: "p", Opt: true, T: t})) },
		func(a, b NV) NV { return nvArr(nvHash(NKV{"p", a}), nvHash()) }},
}

func innerDef() NDef {
	return NDef{Name: "Inner", Attrs: []NAttr{{N: "x", T: nInt()}, {N: "y", T: nStr(), Def: nvp(nvStr("y"))}}}
}

// exhaustiveNWorlds: wrapper x (the nested object gives its defaulted attribute or not) x (the outer object gives its
// defaulted attribute or not) x (the attribute is declared by the type or inherited from its parent) x (flags of the mixed form)
func exhaustiveNWorlds(emit func(w *NWorld)) int {
	n := 0
	for wi, wr := range nWrappers {
		for full := 0; full < 2; full++ {
			for given := 0; given < 2; given++ {
				for inh := 0; inh < 2; inh++ {
					in1 := nvObj("Inner", (wi+full)%2 == 0, NKV{"x", nvInt(1)})
					in2 := nvObj("Inner", (wi+full)%2 == 1, NKV{"x", nvInt(2)})
					if full == 1 {
						in1.H = append(in1.H, NKV{"y", nvStr("z")})
						in2.H = append([]NKV{{"y", nvStr("y")}}, in2.H...) // the declared value, given; keys in another order
					}
					outer := NDef{Name: "Outer", Attrs: []NAttr{{N: "i", T: wr.ty(nObj("Inner"))}, {N: "n", T: nInt(), Def: nvp(nvInt(0))}}}
					w := &NWorld{Family: "exhaustive." + wr.name, Defs: []NDef{innerDef(), outer}}
					fields := []NKV{{"i", wr.val(in1, in2)}}
					if given == 1 {
						fields = append(fields, NKV{"n", nvInt(7)})
					}
					tn := "Outer"
					if inh == 1 {
						w.Defs = append(w.Defs, NDef{Name: "OuterSub", Parent: "Outer", ParentAlias: (wi+full+given)%2 == 1, Attrs: []NAttr{{N: "s", T: nStr(), Def: nvp(nvStr("s"))}}})
						tn = "OuterSub"
						if given == 1 {
							fields = append(fields, NKV{"s", nvStr("t")})
						}
					}
					w.Cases = []NCase{{T: len(w.Defs) - 1, V: nvObj(tn, false, fields...)}}
					emit(w)
					n++
				}
			}
		}
	}
	return n
}

func corpusNWorlds() []*NWorld {
	in := func(asHash bool, x int64) NV { return nvObj("Inner", asHash, NKV{"x", nvInt(x)}) }
	inFull := func(asHash bool, x int64, y string) NV {
		return nvObj("Inner", asHash, NKV{"x", nvInt(x)}, NKV{"y", nvStr(y)})
	}
	outer := NDef{Name: "Outer", Attrs: []NAttr{{N: "i", T: nObj("Inner")}, {N: "n", T: nInt(), Def: nvp(nvInt(0))}}}
	ws := []*NWorld{
		// the worlds of the demonstration of C17-m9
		{Family: "corpus.direct", Defs: []NDef{innerDef(), outer}, Cases: []NCase{
			{T: 1, V: nvObj("Outer", false, NKV{"i", in(true, 1)})},
			{T: 1, V: nvObj("Outer", false, NKV{"n", nvInt(7)}, NKV{"i", inFull(true, 2, "z")})},
			{T: 0, V: in(false, 5)}}},
		{Family: "corpus.optional", Defs: []NDef{innerDef(),
			{Name: "OuterOpt", Attrs: []NAttr{{N: "a", T: nInt()}, {N: "i", T: nOpt(nObj("Inner")), Def: nvp(nvUndef())}}}}, Cases: []NCase{
			{T: 1, V: nvObj("OuterOpt", false, NKV{"a", nvInt(5)}, NKV{"i", inFull(true, 2, "z")})},
			{T: 1, V: nvObj("OuterOpt", false, NKV{"a", nvInt(5)}, NKV{"i", nvUndef()})},
			{T: 1, V: nvObj("OuterOpt", false, NKV{"a", nvInt(5)})}}},
		{Family: "corpus.array", Defs: []NDef{innerDef(),
			{Name: "OuterArr", Attrs: []NAttr{{N: "is", T: nArr(nObj("Inner"))}}}}, Cases: []NCase{
			{T: 1, V: nvObj("OuterArr", false, NKV{"is", nvArr(in(true, 1), inFull(false, 2, "z"))})},
			{T: 1, V: nvObj("OuterArr", false, NKV{"is", nvArr()})}}},
		{Family: "corpus.inherited", Defs: []NDef{innerDef(), outer,
			{Name: "OuterSub", Parent: "Outer", Attrs: []NAttr{{N: "s", T: nStr(), Def: nvp(nvStr("s"))}}}}, Cases: []NCase{
			{T: 2, V: nvObj("OuterSub", false, NKV{"i", in(true, 1)}, NKV{"n", nvInt(0)}, NKV{"s", nvStr("t")})},
			{T: 2, V: nvObj("OuterSub", false, NKV{"i", in(true, 1)})}}},
		// two levels: an object in an object in an object, an array of them, a required attribute after the nested one
		{Family: "corpus.deep", Defs: []NDef{innerDef(), outer,
			{Name: "Deep", Attrs: []NAttr{{N: "o", T: nObj("Outer")}, {N: "k", T: nArr(nObj("Outer"))}, {N: "z", T: nStr()}}}}, Cases: []NCase{
			{T: 2, V: nvObj("Deep", false, NKV{"o", nvObj("Outer", true, NKV{"i", in(true, 1)})},
				NKV{"k", nvArr(nvObj("Outer", false, NKV{"i", inFull(true, 2, "z")}, NKV{"n", nvInt(3)}))}, NKV{"z", nvStr("e")})},
			{T: 2, V: nvObj("Deep", false, NKV{"o", nvObj("Outer", true, NKV{"i", in(false, 1)})}, NKV{"k", nvArr()}, NKV{"z", nvStr("e")})}}},
		// a subtype whose own attribute has the type of its parent; a type with two attributes of the same Object type
		{Family: "corpus.parent-typed", Defs: []NDef{innerDef(), outer,
			{Name: "Sub", Parent: "Outer", Attrs: []NAttr{{N: "p", T: nObj("Outer")}, {N: "j", T: nOpt(nObj("Inner")), Def: nvp(nvUndef())}}}}, Cases: []NCase{
			{T: 2, V: nvObj("Sub", false, NKV{"i", in(true, 1)}, NKV{"p", nvObj("Outer", true, NKV{"i", in(true, 2)}, NKV{"n", nvInt(4)})},
				NKV{"n", nvInt(0)}, NKV{"j", in(true, 3)})}}},
		// every attribute of the nested type has a declared value: its init-hash may be empty
		{Family: "corpus.all-defaulted", Defs: []NDef{
			{Name: "Dflt", Attrs: []NAttr{{N: "u", T: nInt(), Def: nvp(nvInt(1))}, {N: "v", T: nArr(nInt()), Def: nvp(nvArr())}}},
			{Name: "Holder", Attrs: []NAttr{{N: "d", T: nObj("Dflt")}, {N: "e", T: nHashV(nObj("Dflt")), Def: nvp(nvHash())}}}}, Cases: []NCase{
			{T: 1, V: nvObj("Holder", false, NKV{"d", nvObj("Dflt", true)})},
			{T: 1, V: nvObj("Holder", false, NKV{"d", nvObj("Dflt", true, NKV{"u", nvInt(1)})}, NKV{"e", nvHash(NKV{"k1", nvObj("Dflt", true, NKV{"u", nvInt(2)}, NKV{"v", nvArr(nvInt(3))})})})}}},
		// the parent is named through a type alias; a grandchild through the alias of the child
		{Family: "corpus.alias-parent", Defs: []NDef{innerDef(), outer,
			{Name: "SubA", Parent: "Outer", ParentAlias: true, Attrs: []NAttr{{N: "s", T: nStr(), Def: nvp(nvStr("s"))}}},
			{Name: "SubB", Parent: "SubA", ParentAlias: true, Attrs: []NAttr{{N: "j", T: nArr(nObj("Inner")), Def: nvp(nvArr())}}}}, Cases: []NCase{
			{T: 2, V: nvObj("SubA", false, NKV{"i", in(true, 1)})},
			{T: 3, V: nvObj("SubB", false, NKV{"i", in(true, 1)}, NKV{"n", nvInt(2)}, NKV{"s", nvStr("t")}, NKV{"j", nvArr(in(true, 3))})},
			{T: 1, V: nvObj("Outer", false, NKV{"i", in(false, 1)})}}},
	}
	return ws
}

// ---- random worlds ----

func genNTy(r *lib.Rng, earlier []string, depth int) NTy {
	base := func() NTy {
		if len(earlier) > 0 && r.Chance(3, 4) {
			return nObj(earlier[r.Intn(len(earlier))])
		}
		if r.Bool() {
			return nInt()
		}
		return nStr()
	}
	var wrap func(d int, underOpt bool) NTy
	wrap = func(d int, underOpt bool) NTy {
		if d == 0 {
			return base()
		}
		switch k := r.Intn(6); {
		case k == 0 && !underOpt:
			return nOpt(wrap(d-1, true))
		case k == 1:
			return nArr(wrap(d-1, false))
		case k == 2:
			return nHashV(wrap(d-1, false))
		case k == 3:
			return nStruct(NMem{N: "p", Opt: r.Bool(), T: wrap(d-1, true)}, NMem{N: "q", T: nInt()})
		case k == 4:
			return nStruct(NMem{N: "q", Opt: true, T: nStr()}, NMem{N: "p", T: wrap(d-1, true)})
		}
		return base()
	}
	return wrap(depth, false)
}

func genNDefault(r *lib.Rng, t NTy) *NV {
	switch t.K {
	case "int":
		if r.Chance(1, 3) {
			return nvp(nvInt(int64(r.Intn(3))))
		}
	case "str":
		if r.Chance(1, 3) {
			return nvp(nvStr([]string{"", "d", "y"}[r.Intn(3)]))
		}
	case "opt":
		// an attribute of an Optional type has the value undef, declared or not (objecttype.go:463, attribute.go:69)
		return nvp(nvUndef())
	case "arr":
		if r.Chance(1, 4) {
			return nvp(nvArr())
		}
	case "hashv":
		if r.Chance(1, 4) {
			return nvp(nvHash())
		}
	}
	return nil
}

func (w *NWorld) genNV(r *lib.Rng, t NTy) NV {
	switch t.K {
	case "int":
		return nvInt(int64(r.Intn(4)))
	case "str":
		return nvStr([]string{"", "d", "y", "v"}[r.Intn(4)])
	case "opt":
		if r.Chance(1, 4) {
			return nvUndef()
		}
		return w.genNV(r, *t.E)
	case "arr":
		out := NV{K: "arr"}
		for i, n := 0, r.Intn(3); i < n; i++ {
			out.A = append(out.A, w.genNV(r, *t.E))
		}
		return out
	case "hashv":
		out := NV{K: "hash"}
		for i, n := 0, r.Intn(3); i < n; i++ {
			out.H = append(out.H, NKV{fmt.Sprintf("k%d", i+1), w.genNV(r, *t.E)})
		}
		return out
	case "struct":
		out := NV{K: "hash"}
		for _, m := range t.M {
			if m.Opt && r.Bool() {
				continue
			}
			out.H = append(out.H, NKV{m.N, w.genNV(r, m.T)})
		}
		return out
	case "obj":
		return w.genNObj(r, t.N)
	}
	panic("bad nty " + t.K)
}

// genNObj: all required attributes and a prefix of the others (so that the positional form exists), listed in any order
func (w *NWorld) genNObj(r *lib.Rng, name string) NV {
	d := w.def(name)
	l := w.layout(d)
	req := 0
	for req < len(l) && l[req].Def == nil {
		req++
	}
	k := req + r.Intn(len(l)-req+1)
	out := nvObj(name, r.Bool())
	for i := 0; i < k; i++ {
		out.H = append(out.H, NKV{l[i].N, w.genNV(r, l[i].T)})
	}
	if r.Chance(1, 3) {
		for i := len(out.H) - 1; i > 0; i-- {
			j := r.Intn(i + 1)
			out.H[i], out.H[j] = out.H[j], out.H[i]
		}
	}
	return out
}

func randomNWorld(r *lib.Rng) *NWorld {
	w := &NWorld{Family: "random"}
	nd := 2 + r.Intn(3)
	var names []string
	an := 0
	for j := 0; j < nd; j++ {
		d := NDef{Name: fmt.Sprintf("N%c", 'a'+j)}
		if j > 0 && r.Chance(1, 3) {
			d.Parent = names[r.Intn(len(names))]
			d.ParentAlias = r.Chance(1, 3)
		}
		na := 1 + r.Intn(3)
		for k := 0; k < na; k++ {
			t := genNTy(r, names, r.Intn(3))
			an++
			d.Attrs = append(d.Attrs, NAttr{N: fmt.Sprintf("a%d", an), T: t, Def: genNDefault(r, t)})
		}
		w.Defs = append(w.Defs, d)
		names = append(names, d.Name)
	}
	// cases: of the types that hold another object (directly or through the parent), the last ones first
	for j := nd - 1; j >= 0 && len(w.Cases) < 3; j-- {
		holds := false
		for _, a := range w.collected(&w.Defs[j]) {
			holds = holds || a.T.hasObj()
		}
		if holds || j == nd-1 {
			w.Cases = append(w.Cases, NCase{T: j, V: w.genNObj(r, w.Defs[j].Name)})
			if holds && r.Bool() {
				w.Cases = append(w.Cases, NCase{T: j, V: w.genNObj(r, w.Defs[j].Name)})
			}
		}
	}
	return w
}
