// c17: Object types — constructors, init-hash, equality and inheritance cohere.
package main

import (
	"fmt"
	"os"
	"sync/atomic"
	"time"

	"github.com/lyraproj/pcore/pcore"
	"github.com/lyraproj/pcore/px"
	"verifharness/lib"
)

type runner struct {
	cfg   *lib.Config
	res   *lib.Result
	cases *caseSink
	ncases *nSink
	// progress of the worker, watched by the deadline goroutine
	current atomic.Value // *World
	beat    int64
	nViol   int
}

func main() {
	cfg := lib.ParseFlags()
	res := lib.NewResult("C17")
	res.Rule = "a world = up to 4 related Object type definitions (text route and init-hash route) plus construction requests; " +
		"non-trivial when at least one definition is accepted and either (a) two constructed objects of one type are compared, or " +
		"(b) an object of a type with a parent is tested against its ancestors, or (c) the last definition is rejected for a by-design reason; " +
		"distinct = distinct (definition texts, requests)"
	rn := &runner{cfg: cfg, res: res, cases: newCaseSink(cfg), ncases: newNSink(cfg)}
	done := make(chan struct{})
	go func() {
		defer close(done)
		// the pcore context is goroutine-local: everything that touches the implementation runs here
		pcore.Do(func(root px.Context) {
			if cfg.Replay != "" {
				rn.replay(root)
			} else {
				rn.run(root)
			}
		})
	}()
	// deadline per world: no call of the object machinery is expected to take long; a world that
	// does not finish is reported as the failing input
	last, lastChange := int64(-1), time.Now()
	tick := time.NewTicker(500 * time.Millisecond)
loop:
	for {
		select {
		case <-done:
			break loop
		case <-tick.C:
			b := atomic.LoadInt64(&rn.beat)
			if b != last {
				last, lastChange = b, time.Now()
			} else if time.Since(lastChange) > 20*time.Second {
				w, _ := rn.current.Load().(*World)
				if nw, _ := nCurrent.Load().(*NWorld); nw != nil {
					res.Violate(lib.Violation{Clause: "terminates", What: "the implementation did not finish this world (nested family) within 20 s: " + describeNWorld(nw), Input: nReplayInput(nw, -1)})
				} else if w != nil {
					res.Violate(lib.Violation{Clause: "terminates", What: "the implementation did not finish this world within 20 s", Input: replayInput(w)})
				}
				rn.cases.flush(res)
				rn.ncases.flush(res)
				res.Write(cfg)
				fmt.Fprintln(os.Stderr, "c17: deadline exceeded")
				os.Exit(0)
			}
		}
	}
	rn.cases.flush(res)
	rn.ncases.flush(res)
	res.Write(cfg)
}

func nontrivial(w *World, wo *WorldObs) bool {
	accepted := 0
	for _, d := range wo.Defs {
		if d.Accepted {
			accepted++
		}
	}
	if accepted == 0 {
		return false
	}
	if len(wo.Defs) > 0 && !wo.Defs[len(wo.Defs)-1].Accepted {
		return true
	}
	perType := map[int]int{}
	for i, o := range wo.Objs {
		if o.Err == "" {
			perType[w.News[i].T]++
			if perType[w.News[i].T] >= 2 {
				return true
			}
			if sp := w.Defs[w.News[i].T].Spec; sp != nil && sp.Parent != "" {
				return true
			}
		}
	}
	return false
}

func canon(w *World) string {
	s := describeWorld(w)
	for _, r := range w.News {
		if r.Origin == "" {
			s += reqText(w, &r) + ";"
		}
	}
	return s
}

// check runs one world: implementation, direct check D, counters, and the case for the model.
func (rn *runner) check(root px.Context, w *World, toCoq bool) {
	rn.current.Store(w)
	atomic.AddInt64(&rn.beat, 1)
	wo := runWorld(root, w)
	res := rn.res
	res.Evaluations++
	res.Count("world." + w.Family)
	res.Count(fmt.Sprintf("defs.%d", len(w.Defs)))
	for i, d := range wo.Defs {
		res.Count("route." + w.Defs[i].Route)
		if d.Accepted {
			res.Count("def.accepted")
		} else {
			res.Count("def.rejected." + d.Err)
		}
		if sp := w.Defs[i].Spec; sp != nil {
			if sp.Equality != nil {
				res.Count("def.with-equality")
			}
			if sp.HasSer {
				res.Count("def.with-serialization")
			}
			if sp.Parent != "" {
				res.Count("def.with-parent")
			}
			for _, a := range sp.Attrs {
				if a.Override != nil && *a.Override {
					res.Count("def.with-override")
					break
				}
			}
			for _, a := range sp.Attrs {
				if hasStruct(a.Type) {
					if d.Accepted {
						res.Count("def.with-struct-attribute.accepted")
					} else {
						res.Count("def.with-struct-attribute.rejected")
					}
					break
				}
			}
		} else {
			res.Count("def.raw-noise")
		}
	}
	for i, o := range wo.Objs {
		kind := "new.positional"
		if w.News[i].Named {
			kind = "new.named"
		}
		if w.News[i].Origin != "" {
			kind = "new.derived"
		}
		if o.Err == "" {
			res.Count(kind + ".ok")
			if leavesMemberOut(w, &w.News[i]) {
				// some attribute value is (or contains) a Hash that leaves an optional Struct member out
				res.Count(kind + ".ok.struct-member-left-out")
			}
		} else {
			res.Count(kind + "." + o.Err)
		}
	}
	for i := range wo.Eq {
		for j := range wo.Eq[i] {
			if i != j && wo.Eq[i][j] >= 0 && w.News[i].T == w.News[j].T {
				if wo.Eq[i][j] == 1 {
					res.Count("equals.same-type.true")
				} else {
					res.Count("equals.same-type.false")
				}
			}
		}
	}
	if nontrivial(w, wo) {
		res.Nontrivial(canon(w))
		res.Count("world.nontrivial")
	}
	vs, _ := directCheck(w, wo)
	for _, v := range vs {
		res.Violate(v)
	}
	if len(vs) > 0 {
		rn.nViol++
	}
	if toCoq || len(vs) > 0 && rn.nViol <= 20 {
		rn.cases.add(w, wo)
	}
	if res.Evaluations%211 == 1 {
		res.Sample(map[string]interface{}{"world": describeWorld(w), "requests": len(w.News), "accepted": wo.Defs[len(wo.Defs)-1].Accepted})
	}
}

func (rn *runner) run(root px.Context) {
	cfg := rn.cfg
	rng := lib.NewRng(cfg.Seed)
	nExh := exhaustiveCount()
	nRandom, randomCoq, exhCoq := 4000, 700, 400
	if cfg.Thorough() {
		nRandom, randomCoq, exhCoq = 60000, 5000, nExh
	}
	for _, w := range corpusWorlds() {
		rn.check(root, w, true)
	}
	stride := nExh/exhCoq + 1
	if nExh%exhCoq == 0 {
		stride = nExh / exhCoq
	}
	i := 0
	n := exhaustiveWorlds(func(w *World) {
		rn.check(root, w, i%stride == int(cfg.Seed)%stride)
		i++
	})
	rn.res.Extra["exhaustive_worlds"] = n
	rn.res.Exhaustive = false
	for k := 0; k < nRandom; k++ {
		r := rng.Fork()
		rn.check(root, randomWorld(r), k < randomCoq)
	}
	// the nested family: attributes whose type is or contains another Object type (Model/ObjNest.v)
	nNested, nestedCoq := 1500, 100
	if cfg.Thorough() {
		nNested, nestedCoq = 20000, 2500
	}
	for _, w := range corpusNWorlds() {
		rn.checkNested(root, w, true)
	}
	rn.res.Extra["exhaustive_nested_worlds"] = exhaustiveNWorlds(func(w *NWorld) { rn.checkNested(root, w, true) })
	for k := 0; k < nNested; k++ {
		r := rng.Fork()
		rn.checkNested(root, randomNWorld(r), k < nestedCoq)
	}
}

// replay re-runs exactly the recorded world(s), prints what happens and emits the same case(s).
func (rn *runner) replay(root px.Context) {
	for _, in := range lib.ReplayInputs(rn.cfg.Replay) {
		var x struct {
			Kind  string `json:"kind"`
			World World  `json:"world"`
		}
		lib.Remarshal(in, &x)
		if x.Kind == "nested" {
			var y struct {
				World NWorld `json:"world"`
			}
			lib.Remarshal(in, &y)
			rn.replayNested(root, &y.World)
			continue
		}
		if x.Kind != "world" {
			continue
		}
		w := &x.World
		kept := w.News[:0]
		for _, r := range w.News {
			if r.Origin == "" {
				kept = append(kept, r)
			}
		}
		w.News = kept
		before := len(rn.res.Violations)
		rn.current.Store(w)
		wo := runWorld(root, w)
		rn.res.Evaluations++
		fmt.Print(describeWorld(w))
		for i, d := range wo.Defs {
			if d.Accepted {
				fmt.Printf("  %s accepted: constructor attributes %v, required %d, equality %v\n", w.Defs[i].Name, attrNamesOf(d.Info), d.Req, d.Eq)
			} else {
				fmt.Printf("  %s rejected: %s %s\n", w.Defs[i].Name, d.Err, d.ErrText)
			}
		}
		for i, o := range wo.Objs {
			if o.Err != "" {
				fmt.Printf("  #%d %s => %s\n", i, reqText(w, &w.News[i]), o.Err)
				continue
			}
			fmt.Printf("  #%d %s %s => init-hash %s instance-of %v", i, reqText(w, &w.News[i]), w.News[i].Origin, hashText(o.InitHash), o.Insts)
			for _, g := range o.Gets {
				if g.Found {
					fmt.Printf(" %s=%s", g.Name, g.V.Text())
				}
			}
			if o.ObsErr != "" {
				fmt.Printf(" (reading raised %s)", o.ObsErr)
			}
			fmt.Println()
		}
		for i := range wo.Eq {
			fmt.Printf("  equals[%d] %v\n", i, wo.Eq[i])
		}
		vs, _ := directCheck(w, wo)
		for _, v := range vs {
			rn.res.Violate(v)
			fmt.Printf("FAILS %s: %s\n", v.Clause, v.What)
		}
		if len(rn.res.Violations) == before {
			fmt.Println("the implementation satisfies every clause of C17 on this world")
		}
		rn.cases.add(w, wo)
	}
}

func hasStruct(t Ty) bool {
	if t.K == "struct" {
		return true
	}
	return t.E != nil && hasStruct(*t.E)
}

// structOf: the Struct type at or below Optional / Variant[Undef, .] (for counting only)
func leavesOut(t Ty, v RV) bool {
	switch t.K {
	case "opt", "varu":
		return v.K != "undef" && leavesOut(*t.E, v)
	case "arr":
		for _, e := range v.A {
			if leavesOut(*t.E, e) {
				return true
			}
		}
	case "struct":
		if v.K != "hash" {
			return false
		}
		for _, m := range t.M {
			e, ok := v.get(m.N)
			if !ok || leavesOut(m.T, e) {
				return true
			}
		}
	}
	return false
}

func leavesMemberOut(w *World, r *NewReq) bool {
	sp := w.Defs[r.T].Spec
	if sp == nil {
		return false
	}
	vals := r.Args
	if r.Named {
		vals = nil
		for _, kv := range r.Hash {
			vals = append(vals, kv.V)
		}
	}
	for _, v := range vals {
		for di := 0; di <= r.T && di < len(w.Defs); di++ {
			if w.Defs[di].Spec == nil {
				continue
			}
			for _, a := range w.Defs[di].Spec.Attrs {
				if hasStruct(a.Type) && instOf(a.Type, v) && leavesOut(a.Type, v) {
					return true
				}
			}
		}
	}
	return false
}

func attrNamesOf(info []AttrObs) []string {
	out := make([]string, len(info))
	for i, a := range info {
		out[i] = a.Name
	}
	return out
}
