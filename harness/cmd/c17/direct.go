package main

import (
	"fmt"

	"verifharness/lib"
)

// directCheck (D) evaluates the clauses of C17 as stated on what the implementation did with the
// world; the only reference it needs is the small declarative reading of the definitions in
// spec.go (which attributes a definition declares, their defaults, the equality set, the parent
// chain, and the by-design conditions of a well-formed definition).
//
// Clauses: schema-admits-accepted, reject-renders, pos-named-equal, init-hash-roundtrip,
// get-given-or-default, eq-iff-equality-attrs, sub-instance-of-ancestors, never-the-reverse.
func directCheck(w *World, wo *WorldObs) (vs []lib.Violation, refs []*RefType) {
	known := map[string]*RefType{}
	refs = make([]*RefType, len(w.Defs))
	input := func() interface{} { return replayInput(w) }
	add := func(clause, what string, tags ...string) {
		vs = append(vs, lib.Violation{Clause: clause, What: what, Input: input(), Tags: tags})
	}
	typeTags := func(t int) []string {
		if r := refs[t]; r != nil && !r.serComplete() {
			return []string{"serialization-partial"}
		}
		return nil
	}
	for i := range w.Defs {
		d, o := &w.Defs[i], &wo.Defs[i]
		if !o.Accepted && !o.Renders {
			add("reject-renders", fmt.Sprintf("definition %s is rejected with %s but the rejection cannot be rendered: %s", d.Name, o.Err, o.ErrText))
		}
		if d.Spec == nil {
			continue
		}
		wf := wellFormed(d.Spec, known)
		if wf == "" && !o.Accepted {
			add("schema-admits-accepted", fmt.Sprintf("well-formed definition %s (%s route) is rejected with %s: %s", d.Name, d.Route, o.Err, o.ErrText), "rejected:"+o.Err)
		}
		if wf == "" && o.Accepted {
			refs[i] = refOf(d.Spec, known)
			known[d.Name] = refs[i]
		}
	}
	getOf := func(o *ObjObs, n string) (GetObs, bool) {
		for _, g := range o.Gets {
			if g.Name == n {
				return g, true
			}
		}
		return GetObs{}, false
	}
	// which constructor the request is for, by the declaration alone: the named one takes a single Hash that
	// gives only declared constructor attributes, well typed, and all required ones; everything else is a
	// positional tuple (a Hash can be the value of an attribute of type Any)
	takenNamed := func(r *NewReq) (bool, []KV) {
		ref := refs[r.T]
		if r.Named {
			return ref == nil || namedAccepts(ref, r.Hash), r.Hash
		}
		if len(r.Args) == 1 && r.Args[0].K == "hash" && ref != nil && namedAccepts(ref, r.Args[0].H) {
			return true, r.Args[0].H
		}
		return false, nil
	}
	counterpartOf := func(k string, src int) bool {
		named, _ := takenNamed(&w.News[src])
		switch k {
		case "named-of":
			return !named
		case "positional-of":
			return named
		}
		return true
	}
	for i := range wo.Objs {
		r, o := &w.News[i], &wo.Objs[i]
		if o.Err == "EFault" || o.Err == "EOtherPanic" {
			add("ctor-reports", fmt.Sprintf("%s escapes with %s: %s", reqText(w, r), o.Err, o.ErrText), typeTags(r.T)...)
		}
		if o.Err != "" {
			// the counterpart of a successful construction must itself succeed
			if k, src := originIndex(r.Origin); src >= 0 && counterpartOf(k, src) {
				switch k {
				case "named-of":
					add("pos-named-equal", fmt.Sprintf("%s%s was constructed, the named construction %s%s with the same values is rejected with %s", w.Defs[r.T].Name, argsText(w.News[src].Args), w.Defs[r.T].Name, hashText(r.Hash), o.Err), typeTags(r.T)...)
				case "positional-of":
					add("pos-named-equal", fmt.Sprintf("%s%s was constructed, the positional construction %s%s with the same values is rejected with %s", w.Defs[r.T].Name, hashText(w.News[src].Hash), w.Defs[r.T].Name, argsText(r.Args), o.Err), typeTags(r.T)...)
				case "roundtrip":
					add("init-hash-roundtrip", fmt.Sprintf("the init-hash %s of a constructed %s is rejected by the constructor with %s", hashText(r.Hash), w.Defs[r.T].Name, o.Err), typeTags(r.T)...)
				}
			}
			continue
		}
		tn := w.Defs[r.T].Name
		if o.ObsErr != "" {
			add("get-given-or-default", fmt.Sprintf("reading the constructed %s raised %s: %s", reqText(w, r), o.ObsErr, o.ObsErrText), typeTags(r.T)...)
		}
		if k, src := originIndex(r.Origin); src >= 0 && wo.Objs[src].Err == "" && counterpartOf(k, src) {
			if wo.Eq[src][i] != 1 || wo.Eq[i][src] != 1 {
				switch k {
				case "named-of", "positional-of":
					add("pos-named-equal", fmt.Sprintf("%s and %s are not equal (Equals: %d / %d)", reqText(w, &w.News[src]), reqText(w, r), wo.Eq[src][i], wo.Eq[i][src]), typeTags(r.T)...)
				case "roundtrip":
					add("init-hash-roundtrip", fmt.Sprintf("%s rebuilt from its init-hash %s is not equal to it (Equals: %d / %d)", reqText(w, &w.News[src]), hashText(r.Hash), wo.Eq[src][i], wo.Eq[i][src]), typeTags(r.T)...)
				}
			}
		}
		ref := refs[r.T]
		if ref == nil {
			continue
		}
		// get-given-or-default
		given := map[string]RV{}
		if named, h := takenNamed(r); named {
			for _, kv := range h {
				given[kv.K] = kv.V
			}
		} else {
			args := r.Args
			if r.Named {
				args = []RV{vHash(r.Hash...)}
			}
			info := wo.Defs[r.T].Info
			for k, a := range args {
				if k < len(info) {
					given[info[k].Name] = a
				}
			}
		}
		for _, a := range ref.All {
			g, asked := getOf(o, a.Name)
			if !asked || g.Err != "" {
				continue
			}
			var want RV
			hasWant := false
			if v, ok := given[a.Name]; ok && a.ctor() {
				want, hasWant = v, true
			} else if a.HasDef {
				want, hasWant = a.Def, true
			}
			switch {
			case a.Kind == "derived":
				// neither given nor defaulted: nothing to read
			case a.Kind == "constant":
				if g.AStatus != "val" || !rvEqual(g.AV, want) {
					add("get-given-or-default", fmt.Sprintf("constant %s of %s reads %s %s, declared %s", a.Name, reqText(w, r), g.AStatus, g.AV.Text(), want.Text()), typeTags(r.T)...)
				}
			case !hasWant:
				add("get-given-or-default", fmt.Sprintf("%s was constructed although the required attribute %s has no value", reqText(w, r), a.Name), typeTags(r.T)...)
			default:
				if !g.Found || !rvEqual(g.V, want) {
					add("get-given-or-default", fmt.Sprintf("Get(%s) of %s = %s (found %v), given or default is %s", a.Name, reqText(w, r), g.V.Text(), g.Found, want.Text()), typeTags(r.T)...)
				} else if g.AStatus != "val" || !rvEqual(g.AV, want) {
					add("get-given-or-default", fmt.Sprintf("attribute %s read through the type from %s = %s %s, given or default is %s", a.Name, reqText(w, r), g.AStatus, g.AV.Text(), want.Text()), typeTags(r.T)...)
				}
			}
		}
		// instance-of along the parent chain
		for j := range w.Defs {
			if refs[j] == nil || j >= len(o.Insts) {
				continue
			}
			want := ref.isOrInherits(refs[j])
			if o.Insts[j] != want {
				if want {
					add("sub-instance-of-ancestors", fmt.Sprintf("%s is not an instance of %s", reqText(w, r), w.Defs[j].Name))
				} else if refs[j].isOrInherits(ref) {
					add("never-the-reverse", fmt.Sprintf("%s is an instance of the subtype %s", reqText(w, r), w.Defs[j].Name))
				} else {
					add("never-the-reverse", fmt.Sprintf("%s is an instance of the unrelated type %s", reqText(w, r), w.Defs[j].Name))
				}
			}
		}
		// equality
		for j := range wo.Objs {
			r2, o2 := &w.News[j], &wo.Objs[j]
			if o2.Err != "" {
				continue
			}
			if wo.Eq[i][j] == 2 {
				add("eq-iff-equality-attrs", fmt.Sprintf("%s.Equals(%s) raised", reqText(w, r), reqText(w, r2)))
				continue
			}
			if r2.T != r.T {
				if wo.Eq[i][j] == 1 && includesType(ref) {
					add("eq-iff-equality-attrs", fmt.Sprintf("%s equals %s of another type although the type takes part in equality", reqText(w, r), reqText(w, r2)))
				}
				continue
			}
			want := true
			diff := ""
			for _, n := range ref.eqNames() {
				a, _ := ref.attr(n)
				if !a.ctor() {
					continue
				}
				g1, _ := getOf(o, n)
				g2, _ := getOf(o2, n)
				if g1.Found != g2.Found || g1.Found && !rvEqual(g1.V, g2.V) {
					want = false
					diff = n
				}
			}
			if (wo.Eq[i][j] == 1) != want {
				if want {
					add("eq-iff-equality-attrs", fmt.Sprintf("%s and %s agree on all equality attributes {%s} of %s but Equals is false", reqText(w, r), reqText(w, r2), joinNames(ref.eqNames()), tn), typeTags(r.T)...)
				} else {
					add("eq-iff-equality-attrs", fmt.Sprintf("%s and %s differ in equality attribute %s of %s but Equals is true", reqText(w, r), reqText(w, r2), diff, tn), typeTags(r.T)...)
				}
			}
		}
	}
	return vs, refs
}

// namedAccepts: the hash is a legal named-argument hash of the type as declared (only constructor
// attributes, each value an instance of the declared type, every required attribute present).
func namedAccepts(ref *RefType, h []KV) bool {
	seen := map[string]bool{}
	for _, kv := range h {
		a, ok := ref.attr(kv.K)
		if !ok || !a.ctor() || seen[kv.K] || !instOf(a.Ty, kv.V) {
			return false
		}
		seen[kv.K] = true
	}
	for _, a := range ref.All {
		if a.ctor() && !a.optional() && !seen[a.Name] {
			return false
		}
	}
	return true
}

func includesType(r *RefType) bool {
	for x := r; x != nil; x = x.Parent {
		if x.Spec.EqIncl != nil && !*x.Spec.EqIncl {
			return false
		}
	}
	return true
}

func argsText(args []RV) string {
	s := "("
	for i, a := range args {
		if i > 0 {
			s += ", "
		}
		s += a.Text()
	}
	return s + ")"
}

func hashText(h []KV) string { return "(" + vHash(h...).Text() + ")" }

func reqText(w *World, r *NewReq) string {
	if r.Named {
		return w.Defs[r.T].Name + hashText(r.Hash)
	}
	return w.Defs[r.T].Name + argsText(r.Args)
}

// replayInput: the world without the derived requests (they are re-derived when replaying).
func replayInput(w *World) interface{} {
	c := *w
	c.News = nil
	for _, r := range w.News {
		if r.Origin == "" {
			c.News = append(c.News, r)
		}
	}
	return map[string]interface{}{"kind": "world", "world": c}
}
