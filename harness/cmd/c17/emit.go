package main

import (
	"verifharness/lib"
)

// caseSink collects the worlds that go to the model (cases_*.v).
type caseSink struct {
	cfg *lib.Config
}

func newCaseSink(cfg *lib.Config) *caseSink { return &caseSink{cfg: cfg} }

func (s *caseSink) add(w *World, wo *WorldObs) {}

func (s *caseSink) flush(res *lib.Result) {}
