package main

import (
	"fmt"
	"strings"

	"verifharness/lib"
)

// caseSink collects the worlds that go to the model (cases_*.v): the inputs (definitions by
// route, construction requests, asked names) and everything the implementation was observed to do
// with them, as Gallina terms of the types of coq/Corr/CorrC17.v.
type caseSink struct {
	cfg   *lib.Config
	files []*lib.CasesFile
	n     int
}

func newCaseSink(cfg *lib.Config) *caseSink {
	k := 4
	if cfg.Thorough() {
		k = 8
	}
	if cfg.Replay != "" {
		k = 1
	}
	s := &caseSink{cfg: cfg}
	for i := 0; i < k; i++ {
		s.files = append(s.files, &lib.CasesFile{
			Imports: []string{"Model.Base", "Model.Obj", "Corr.CorrC17"},
			Typ:     "world",
			Obligations: map[string]string{
				"define_model": "define_mismatches cases",
				"object_model": "object_mismatches cases",
				"equals_model": "equals_mismatches cases",
			}})
	}
	return s
}

// strings are interned: every distinct string is defined once in the prelude of the cases file (the
// byte-list literals dominate the parsing time of coqc otherwise)
var strTab = map[string]string{}
var strOrder []string

func gS(s string) string {
	if s == "" {
		return "(@nil N)"
	}
	if n, ok := strTab[s]; ok {
		return n
	}
	n := fmt.Sprintf("zs%d", len(strOrder))
	strTab[s] = n
	strOrder = append(strOrder, s)
	return n
}

func strPrelude() string {
	var b strings.Builder
	for i, s := range strOrder {
		fmt.Fprintf(&b, "Definition zs%d : str := %s.\n", i, lib.GStr(s))
	}
	return b.String()
}

func gKind(k string) string {
	switch k {
	case "":
		return "KNormal"
	case "constant":
		return "KConstant"
	case "derived":
		return "KDerived"
	case "given_or_derived":
		return "KGivenOrDerived"
	case "reference":
		return "KReference"
	}
	return "KNormal (* unknown kind " + k + " *)"
}

func gErr(code string) string {
	if code == "" {
		return "EOtherPanic"
	}
	return code
}

func gDefObs(o *DefObs) string {
	if !o.Accepted {
		return "(DRej " + gErr(o.Err) + ")"
	}
	as := make([]string, len(o.Info))
	for i, a := range o.Info {
		v := lib.GOpt(false, "", "value")
		if a.HasValue {
			v = lib.GOpt(true, a.Value.Gallina(), "value")
		}
		as[i] = "(" + gS(a.Name) + ", " + gKind(a.Kind) + ", " + a.Ty.Gallina() + ", " + v + ")"
	}
	return "(DAcc " + lib.GList(as, "str * kind * ty * option value") + " " + lib.GNat(o.Req) + " " + gStrs(o.Eq) + " " + o.Init.Gallina() + ")"
}

func gGetObs(g *GetObs) string {
	var get string
	switch {
	case g.Err != "":
		get = "(Err " + g.Err + ")"
	case g.Found:
		get = "(Ok (Some " + g.V.Gallina() + "))"
	default:
		get = "(Ok (@None value))"
	}
	var ag string
	switch g.AStatus {
	case "none":
		ag = "ANone"
	case "val":
		ag = "(AVal " + g.AV.Gallina() + ")"
	default:
		ag = "(AErr " + g.AStatus + ")"
	}
	return "(mkGet " + gS(g.Name) + " " + get + " " + ag + ")"
}

func gObjObs(o *ObjObs) string {
	if o.Err != "" {
		return "(ORej " + o.Err + ")"
	}
	gs := make([]string, len(o.Gets))
	for i := range o.Gets {
		gs[i] = gGetObs(&o.Gets[i])
	}
	ih := "(Ok " + gKVs(o.InitHash) + ")"
	if o.IHErr != "" {
		ih = "(Err " + o.IHErr + ")"
	}
	bs := make([]string, len(o.Insts))
	for i, b := range o.Insts {
		bs[i] = lib.GBool(b)
	}
	return "(OOk " + lib.GList(gs, "getobs") + " " + ih + " " + lib.GList(bs, "bool") + ")"
}

func gWorld(w *World, wo *WorldObs) string {
	ds := make([]string, len(w.Defs))
	for i, d := range w.Defs {
		route := "RText"
		if d.Route == "hash" {
			route = "RHash"
		}
		ds[i] = "(mkDC " + route + " " + gS(d.Name) + " " + d.Raw.Gallina() + " " + gDefObs(&wo.Defs[i]) + ")"
	}
	ns := make([]string, len(w.News))
	for i, r := range w.News {
		var args string
		if r.Named {
			args = "[" + vHash(r.Hash...).Gallina() + "]"
		} else {
			as := make([]string, len(r.Args))
			for k, a := range r.Args {
				as[k] = a.Gallina()
			}
			args = lib.GList(as, "value")
		}
		ns[i] = "(mkNC " + lib.GNat(r.T) + " " + args + " " + gObjObs(&wo.Objs[i]) + ")"
	}
	rows := make([]string, len(wo.Eq))
	for i, row := range wo.Eq {
		cs := make([]string, len(row))
		for j, c := range row {
			cs[j] = [...]string{"EqNA", "EqNo", "EqYes", "EqRaised"}[c+1]
		}
		rows[i] = lib.GList(cs, "eqc")
	}
	return "(mkWorld\n   " + lib.GList(ds, "defcase") + "\n   " + gStrs(w.Names) + "\n   [" + strings.Join(ns, ";\n    ") + "]\n   " +
		lib.GList(rows, "list eqc") + ")"
}

// add emits the world after it ran (the derived requests are part of it).
func (s *caseSink) add(w *World, wo *WorldObs) {
	for i := range wo.Objs {
		if wo.Objs[i].Outside != "" {
			// a value outside the value universe of the model was observed: nothing to compare with
			return
		}
	}
	// a request hash with a repeated key is not a pcore Hash value (such requests are only derived from
	// the layout of a definition with a duplicate in its serialization list: open finding)
	for i := range w.News {
		seen := map[string]bool{}
		for _, kv := range w.News[i].Hash {
			if seen[kv.K] {
				return
			}
			seen[kv.K] = true
		}
	}
	term := gWorld(w, wo)
	s.files[s.n%len(s.files)].Add(term, replayInput(w))
	s.n++
}

func (s *caseSink) flush(res *lib.Result) {
	for i, f := range s.files {
		if len(f.Cases) == 0 && i > 0 {
			continue
		}
		f.Prelude = strPrelude()
		res.CorrFiles = append(res.CorrFiles, f.WriteTo(s.cfg.Out, fmt.Sprintf("cases_%d", i)))
	}
}
