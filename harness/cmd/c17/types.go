package main

import (
	"fmt"
	"sort"
	"strconv"
	"strings"

	"github.com/lyraproj/pcore/px"
	"github.com/lyraproj/pcore/types"
	"verifharness/lib"
)

// ---- the type fragment of coq/Model/Obj.v (Inductive ty) ----

// Ty is a type of the modelled fragment: Integer[lo,hi], String, Boolean, Optional[T], Array[T], Any, Undef,
// Variant[Undef, T] (varu), Struct[{...}] (struct), a reference to an Object type by name (obj), or some other
// type (other: only its text is kept).
type Ty struct {
	K  string `json:"k"`
	Lo *int64 `json:"lo,omitempty"` // nil = unbounded
	Hi *int64 `json:"hi,omitempty"`
	E  *Ty    `json:"e,omitempty"`
	N  string `json:"n,omitempty"`
	M  []SM   `json:"m,omitempty"` // struct members in declaration order
}

// SM is one member of a Struct type as it is WRITTEN: the key is 'n', Optional['n'] or NotUndef['n'].
type SM struct {
	N    string `json:"n"`
	Opt  bool   `json:"opt,omitempty"`
	NotU bool   `json:"notu,omitempty"`
	T    Ty     `json:"t"`
}

// required: the member must be present in a value. The rule of the Struct type (Puppet type system, what
// NewStructElement implements): Optional['n'] may be left out, NotUndef['n'] may not, a plain key may be
// left out exactly when the value type accepts undef.
func (m SM) required() bool {
	if m.Opt {
		return false
	}
	return m.NotU || !m.T.acceptsUndef()
}

func tStruct(ms ...SM) Ty { return Ty{K: "struct", M: ms} }
func sm(n string, t Ty) SM { return SM{N: n, T: t} }
func smOpt(n string, t Ty) SM { return SM{N: n, Opt: true, T: t} }
func smNotU(n string, t Ty) SM { return SM{N: n, NotU: true, T: t} }

// sortedMembers: the members by name (the order in which generated values list their keys: Hash equality is
// keyed, the model compares entry by entry; on key-sorted hashes the two coincide)
func (t Ty) sortedMembers() []SM {
	ms := append([]SM{}, t.M...)
	sort.Slice(ms, func(i, j int) bool { return ms[i].N < ms[j].N })
	return ms
}

func (t Ty) member(n string) (SM, bool) {
	for _, m := range t.M {
		if m.N == n {
			return m, true
		}
	}
	return SM{}, false
}

func tInt() Ty                { return Ty{K: "int"} }
func tIntR(lo, hi int64) Ty   { return Ty{K: "int", Lo: &lo, Hi: &hi} }
func tStr() Ty                { return Ty{K: "str"} }
func tBool() Ty               { return Ty{K: "bool"} }
func tOpt(e Ty) Ty            { return Ty{K: "opt", E: &e} }
func tArr(e Ty) Ty            { return Ty{K: "arr", E: &e} }
func tObj(n string) Ty        { return Ty{K: "obj", N: n} }
func tAny() Ty                { return Ty{K: "any"} }
func tUndef() Ty              { return Ty{K: "undef"} }
func tVarU(e Ty) Ty           { return Ty{K: "varu", E: &e} }
func (t Ty) isOpt() bool      { return t.K == "opt" }

// acceptsUndef: undef is an instance of the type (Optional[T], Any, Undef, Variant[Undef, T]).
func (t Ty) acceptsUndef() bool {
	return t.K == "opt" || t.K == "any" || t.K == "undef" || t.K == "varu"
}
func (t Ty) equal(o Ty) bool  { return t.Text() == o.Text() }
func bound(p *int64) string {
	if p == nil {
		return "default"
	}
	return strconv.FormatInt(*p, 10)
}

// Text is the pcore text of the type (what the text route writes and ParseType reads).
func (t Ty) Text() string {
	switch t.K {
	case "int":
		if t.Lo == nil && t.Hi == nil {
			return "Integer"
		}
		return "Integer[" + bound(t.Lo) + ", " + bound(t.Hi) + "]"
	case "str":
		return "String"
	case "bool":
		return "Boolean"
	case "opt":
		return "Optional[" + t.E.Text() + "]"
	case "arr":
		return "Array[" + t.E.Text() + "]"
	case "any":
		return "Any"
	case "undef":
		return "Undef"
	case "varu":
		return "Variant[Undef, " + t.E.Text() + "]"
	case "struct":
		if len(t.M) == 0 {
			return "Struct"
		}
		ps := make([]string, len(t.M))
		for i, m := range t.M {
			k := quote(m.N)
			if m.Opt {
				k = "Optional[" + k + "]"
			} else if m.NotU {
				k = "NotUndef[" + k + "]"
			}
			ps[i] = k + " => " + m.T.Text()
		}
		return "Struct[{" + strings.Join(ps, ", ") + "}]"
	case "obj", "other":
		return t.N
	}
	panic("bad ty " + t.K)
}

const minI64 = "min_int64"
const maxI64 = "max_int64"

func (t Ty) Gallina() string {
	switch t.K {
	case "int":
		lo, hi := minI64, maxI64
		if t.Lo != nil {
			lo = fmt.Sprintf("(%d)", *t.Lo)
		}
		if t.Hi != nil {
			hi = fmt.Sprintf("(%d)", *t.Hi)
		}
		return "(TInteger " + lo + " " + hi + ")"
	case "str":
		return "TString"
	case "bool":
		return "TBoolean"
	case "opt":
		return "(TOptional " + t.E.Gallina() + ")"
	case "arr":
		return "(TArray " + t.E.Gallina() + ")"
	case "any":
		return "TAny"
	case "undef":
		return "TUndef"
	case "varu":
		return "(TVarUndef " + t.E.Gallina() + ")"
	case "struct":
		out := "TStructNil"
		for i := len(t.M) - 1; i >= 0; i-- {
			m := t.M[i]
			out = "(TStructCons " + gS(m.N) + " " + lib.GBool(m.required()) + " " + m.T.Gallina() + " " + out + ")"
		}
		return out
	case "obj":
		return "(TObj " + gS(t.N) + ")"
	case "other":
		return "(TOther " + gS(t.N) + ")"
	}
	panic("bad ty " + t.K)
}

// splitTop splits s at the separator where no bracket, brace or quote is open.
func splitTop(s, sep string) []string {
	out := []string{}
	depth, start := 0, 0
	inq := false
	for i := 0; i < len(s); i++ {
		c := s[i]
		switch {
		case c == '\'':
			inq = !inq
		case inq:
		case c == '[' || c == '{':
			depth++
		case c == ']' || c == '}':
			depth--
		case depth == 0 && strings.HasPrefix(s[i:], sep):
			out = append(out, s[start:i])
			start = i + len(sep)
			i += len(sep) - 1
		}
	}
	return append(out, s[start:])
}

// parseStruct reads the members `key => type, ...` of a printed Struct type.
func parseStruct(in string) (Ty, bool) {
	in = strings.TrimSpace(in)
	if !strings.HasPrefix(in, "{") || !strings.HasSuffix(in, "}") {
		return Ty{}, false
	}
	t := Ty{K: "struct"}
	seen := map[string]bool{}
	for _, part := range splitTop(in[1:len(in)-1], ",") {
		kv := splitTop(part, "=>")
		if len(kv) != 2 {
			return Ty{}, false
		}
		k := strings.TrimSpace(kv[0])
		m := SM{}
		if strings.HasPrefix(k, "Optional[") && strings.HasSuffix(k, "]") {
			m.Opt, k = true, k[len("Optional["):len(k)-1]
		} else if strings.HasPrefix(k, "NotUndef[") && strings.HasSuffix(k, "]") {
			m.NotU, k = true, k[len("NotUndef["):len(k)-1]
		}
		if len(k) < 2 || k[0] != '\'' || k[len(k)-1] != '\'' || strings.ContainsAny(k[1:len(k)-1], "'\\") {
			return Ty{}, false
		}
		m.N = k[1 : len(k)-1]
		m.T = parseTy(kv[1])
		if m.T.K == "other" || m.T.K == "obj" || seen[m.N] {
			return Ty{}, false
		}
		seen[m.N] = true
		t.M = append(t.M, m)
	}
	return t, true
}

// parseTy reads the canonical text of a type of the fragment (as printed by the implementation).
// Anything else becomes `other` with its text.
func parseTy(s string) Ty {
	s = strings.TrimSpace(s)
	inner := func(prefix string) (string, bool) {
		if strings.HasPrefix(s, prefix+"[") && strings.HasSuffix(s, "]") {
			return s[len(prefix)+1 : len(s)-1], true
		}
		return "", false
	}
	switch s {
	case "Integer":
		return tInt()
	case "String":
		return tStr()
	case "Boolean":
		return tBool()
	case "Any":
		return tAny()
	case "Undef":
		return tUndef()
	case "Optional": // Optional[Any] is the default Optional
		return tOpt(tAny())
	case "Array": // Array[Any] is the default Array
		return tArr(tAny())
	case "Struct":
		return tStruct()
	}
	if in, ok := inner("Struct"); ok {
		if t, ok := parseStruct(in); ok {
			return t
		}
		return Ty{K: "other", N: s}
	}
	if in, ok := inner("Variant"); ok {
		// only the form Variant[Undef, T] (two members, Undef first) is in the fragment
		if strings.HasPrefix(in, "Undef,") {
			e := parseTy(in[len("Undef,"):])
			if e.K != "other" && e.K != "obj" {
				return tVarU(e)
			}
		}
		return Ty{K: "other", N: s}
	}
	if in, ok := inner("Integer"); ok {
		ps := strings.Split(in, ",")
		t := Ty{K: "int"}
		rd := func(x string) (*int64, bool) {
			x = strings.TrimSpace(x)
			if x == "default" {
				return nil, true
			}
			v, err := strconv.ParseInt(x, 10, 64)
			if err != nil {
				return nil, false
			}
			return &v, true
		}
		ok1, ok2 := true, true
		if len(ps) == 2 {
			t.Lo, ok1 = rd(ps[0])
			t.Hi, ok2 = rd(ps[1])
			if ok1 && ok2 {
				return t
			}
		} else if len(ps) == 1 {
			t.Lo, ok1 = rd(ps[0])
			if ok1 {
				return t
			}
		}
		return Ty{K: "other", N: s}
	}
	if in, ok := inner("Optional"); ok {
		e := parseTy(in)
		if e.K != "other" {
			return tOpt(e)
		}
		return Ty{K: "other", N: s}
	}
	if in, ok := inner("Array"); ok {
		e := parseTy(in)
		if e.K != "other" {
			return tArr(e)
		}
		return Ty{K: "other", N: s}
	}
	if isTypeName(s) {
		return tObj(s)
	}
	return Ty{K: "other", N: s}
}

// isTypeName mirrors types.TypeNamePattern `\A[A-Z][\w]*(?:::[A-Z][\w]*)*\z` (tiny Go reference).
func isTypeName(s string) bool {
	if s == "" {
		return false
	}
	for _, seg := range strings.Split(s, "::") {
		if seg == "" || !(seg[0] >= 'A' && seg[0] <= 'Z') {
			return false
		}
		for i := 1; i < len(seg); i++ {
			if !isWord(seg[i]) {
				return false
			}
		}
	}
	return true
}

func isWord(c byte) bool {
	return c >= 'a' && c <= 'z' || c >= 'A' && c <= 'Z' || c >= '0' && c <= '9' || c == '_'
}

// isMemberName mirrors types.MemberNamePattern `\A[a-z_]\w*\z`.
func isMemberName(s string) bool {
	if s == "" || !(s[0] >= 'a' && s[0] <= 'z' || s[0] == '_') {
		return false
	}
	for i := 1; i < len(s); i++ {
		if !isWord(s[i]) {
			return false
		}
	}
	return true
}

// ---- raw values (Inductive value of Obj.v): init-hash trees, attribute values, arguments ----

type KV struct {
	K string `json:"k"`
	V RV     `json:"v"`
}

// RV kinds: undef default bool int str tystr type arr hash
// tystr is a String value whose content is the text of type T (a "type name" given as a string).
type RV struct {
	K string `json:"k"`
	B bool   `json:"b,omitempty"`
	I int64  `json:"i,omitempty"`
	S string `json:"s,omitempty"`
	T *Ty    `json:"t,omitempty"`
	A []RV   `json:"a,omitempty"`
	H []KV   `json:"h,omitempty"`
}

func vUndef() RV            { return RV{K: "undef"} }
func vDefault() RV          { return RV{K: "default"} }
func vBool(b bool) RV       { return RV{K: "bool", B: b} }
func vInt(i int64) RV       { return RV{K: "int", I: i} }
func vStr(s string) RV      { return RV{K: "str", S: s} }
func vTyStr(t Ty) RV        { return RV{K: "tystr", T: &t} }
func vType(t Ty) RV         { return RV{K: "type", T: &t} }
func vArr(a ...RV) RV       { return RV{K: "arr", A: a} }
func vHash(h ...KV) RV      { return RV{K: "hash", H: h} }
func (v RV) get(k string) (RV, bool) {
	for _, e := range v.H {
		if e.K == k {
			return e.V, true
		}
	}
	return RV{}, false
}

func quote(s string) string {
	// the pools contain no quote, backslash or control characters
	return "'" + s + "'"
}

// Text is the Puppet literal (text route).
func (v RV) Text() string {
	switch v.K {
	case "":
		return "<none>"
	case "undef":
		return "undef"
	case "default":
		return "default"
	case "bool":
		return strconv.FormatBool(v.B)
	case "int":
		return strconv.FormatInt(v.I, 10)
	case "str":
		return quote(v.S)
	case "tystr":
		return quote(v.T.Text())
	case "type":
		return v.T.Text()
	case "arr":
		ps := make([]string, len(v.A))
		for i, e := range v.A {
			ps[i] = e.Text()
		}
		return "[" + strings.Join(ps, ", ") + "]"
	case "hash":
		ps := make([]string, len(v.H))
		for i, e := range v.H {
			ps[i] = quote(e.K) + " => " + e.V.Text()
		}
		return "{" + strings.Join(ps, ", ") + "}"
	}
	panic("bad rv " + v.K)
}

func (v RV) Gallina() string {
	switch v.K {
	case "undef":
		return "VUndef"
	case "default":
		return "VDefault"
	case "bool":
		return "(VBool " + lib.GBool(v.B) + ")"
	case "int":
		return fmt.Sprintf("(VInt (%d))", v.I)
	case "str":
		return "(VStr " + gS(v.S) + ")"
	case "tystr":
		return "(VTyStr " + v.T.Gallina() + ")"
	case "type":
		return "(VType " + v.T.Gallina() + ")"
	case "arr":
		ps := make([]string, len(v.A))
		for i, e := range v.A {
			ps[i] = e.Gallina()
		}
		return "(VArr " + lib.GList(ps, "value") + ")"
	case "hash":
		return "(VHash " + gKVs(v.H) + ")"
	}
	panic("bad rv " + v.K)
}

func gKVs(h []KV) string {
	ps := make([]string, len(h))
	for i, e := range h {
		ps[i] = lib.GPair(gS(e.K), e.V.Gallina())
	}
	return lib.GList(ps, "str * value")
}

func gStrs(ss []string) string {
	ps := make([]string, len(ss))
	for i, s := range ss {
		ps[i] = gS(s)
	}
	return lib.GList(ps, "str")
}

// Px builds the implementation value. Types are resolved in the given context (init-hash route:
// the hash holds resolved Type values).
func (v RV) Px(c px.Context) px.Value {
	switch v.K {
	case "undef":
		return px.Undef
	case "default":
		return types.WrapDefault()
	case "bool":
		return types.WrapBoolean(v.B)
	case "int":
		return types.WrapInteger(v.I)
	case "str":
		return types.WrapString(v.S)
	case "tystr":
		return types.WrapString(v.T.Text())
	case "type":
		return c.ParseType(v.T.Text())
	case "arr":
		es := make([]px.Value, len(v.A))
		for i, e := range v.A {
			es[i] = e.Px(c)
		}
		return types.WrapValues(es)
	case "hash":
		es := make([]*types.HashEntry, len(v.H))
		for i, e := range v.H {
			es[i] = types.WrapHashEntry2(e.K, e.V.Px(c))
		}
		return types.WrapHash(es)
	}
	panic("bad rv " + v.K)
}

// fromPx decodes an implementation value into the model universe; ok=false outside of it.
func fromPx(v px.Value) (RV, bool) {
	switch x := v.(type) {
	case nil:
		return RV{}, false
	case *types.UndefValue:
		return vUndef(), true
	case *types.DefaultValue:
		return vDefault(), true
	case px.Boolean:
		return vBool(x.Bool()), true
	case px.Integer:
		return vInt(x.Int()), true
	case px.StringValue:
		return vStr(x.String()), true
	case px.Type:
		return vType(parseTy(x.String())), true
	case *types.Array:
		out := make([]RV, 0, x.Len())
		ok := true
		x.Each(func(e px.Value) {
			r, k := fromPx(e)
			ok = ok && k
			out = append(out, r)
		})
		return vArr(out...), ok
	case *types.Hash:
		out := []KV{}
		ok := true
		x.EachPair(func(k, e px.Value) {
			ks, isStr := k.(px.StringValue)
			r, k2 := fromPx(e)
			ok = ok && k2 && isStr
			if isStr {
				out = append(out, KV{ks.String(), r})
			}
		})
		return vHash(out...), ok
	}
	return RV{}, false
}

func rvEqual(a, b RV) bool { return a.Gallina() == b.Gallina() }

// instOf is the tiny Go reference for "value v is an instance of type t" on the fragment.
func instOf(t Ty, v RV) bool {
	switch t.K {
	case "int":
		return v.K == "int" && (t.Lo == nil || *t.Lo <= v.I) && (t.Hi == nil || v.I <= *t.Hi)
	case "str":
		return v.K == "str" || v.K == "tystr"
	case "bool":
		return v.K == "bool"
	case "opt":
		return v.K == "undef" || instOf(*t.E, v)
	case "arr":
		if v.K != "arr" {
			return false
		}
		for _, e := range v.A {
			if !instOf(*t.E, e) {
				return false
			}
		}
		return true
	case "any":
		return true
	case "undef":
		return v.K == "undef"
	case "varu":
		return v.K == "undef" || instOf(*t.E, v)
	case "struct":
		// a Hash with string keys: every member that is present is an instance of its type, every required member
		// is present, there is no other key
		if v.K != "hash" {
			return false
		}
		seen := map[string]bool{}
		for _, e := range v.H {
			m, ok := t.member(e.K)
			if !ok || seen[e.K] || !instOf(m.T, e.V) {
				return false
			}
			seen[e.K] = true
		}
		for _, m := range t.M {
			if m.required() && !seen[m.N] {
				return false
			}
		}
		return true
	}
	return false
}

// assignable is the tiny Go reference for IsAssignable(a, b) on the fragment: Any accepts everything; an
// Optional[b'] or Variant[Undef, b'] is accepted by whoever accepts undef and b'; Optional[a'] and
// Variant[Undef, a'] accept Undef and what a' accepts.
func assignable(a, b Ty) bool {
	if a.K == "any" {
		return true
	}
	if b.K == "opt" || b.K == "varu" {
		return a.acceptsUndef() && assignable(a, *b.E)
	}
	switch a.K {
	case "int":
		if b.K != "int" {
			return false
		}
		lo := a.Lo == nil || b.Lo != nil && *a.Lo <= *b.Lo
		hi := a.Hi == nil || b.Hi != nil && *b.Hi <= *a.Hi
		return lo && hi
	case "str":
		return b.K == "str"
	case "bool":
		return b.K == "bool"
	case "opt", "varu":
		return b.K == "undef" || assignable(*a.E, b)
	case "arr":
		return b.K == "arr" && assignable(*a.E, *b.E)
	case "undef":
		return b.K == "undef"
	case "struct":
		// every value of b is a value of a: b has no member that a does not know, a member of both may be left out
		// in b only if it may in a and its type in a accepts its type in b, a member only a has may be left out
		if b.K != "struct" {
			return false
		}
		for _, mb := range b.M {
			if _, ok := a.member(mb.N); !ok {
				return false
			}
		}
		for _, ma := range a.M {
			mb, ok := b.member(ma.N)
			if !ok {
				if ma.required() {
					return false
				}
				continue
			}
			if ma.required() && !mb.required() || !assignable(ma.T, mb.T) {
				return false
			}
		}
		return true
	}
	return false
}
