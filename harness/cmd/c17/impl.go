package main

import (
	"fmt"
	"runtime"
	"sort"
	"strings"

	"github.com/lyraproj/issue/issue"
	"github.com/lyraproj/pcore/pcore"
	"github.com/lyraproj/pcore/px"
	"github.com/lyraproj/pcore/types"
)

// ---- a world: a few definitions (each by one of the two routes) and construction requests ----

type Def struct {
	Name  string   `json:"name"`
	Route string   `json:"route"` // "text": `type X = Object[{...}]` through Parse + AddTypes; "hash": init-hash through the Object meta type
	Raw   RV       `json:"raw"`
	Spec  *DefSpec `json:"spec,omitempty"` // nil when the raw tree was mutated below the level of DefSpec
	Note  string   `json:"note,omitempty"`
}

type NewReq struct {
	T      int    `json:"t"` // index of the definition
	Named  bool   `json:"named,omitempty"`
	Args   []RV   `json:"args,omitempty"`
	Hash   []KV   `json:"hash,omitempty"`
	Origin string `json:"origin,omitempty"` // "", "named-of:<i>", "positional-of:<i>", "roundtrip:<i>"
}

type World struct {
	Family string   `json:"family"`
	Defs   []Def    `json:"defs"`
	News   []NewReq `json:"news"`
	Names  []string `json:"names"` // attribute names asked of every object
}

// ---- observations ----

type AttrObs struct {
	Name     string `json:"name"`
	Kind     string `json:"kind"`
	Ty       Ty     `json:"ty"`
	HasValue bool   `json:"has_value"`
	Value    RV     `json:"value"`
}

type DefObs struct {
	Accepted bool      `json:"accepted"`
	Err      string    `json:"err,omitempty"` // Gallina constructor of ecode
	ErrText  string    `json:"err_text,omitempty"`
	Renders  bool      `json:"renders"` // the rejection could be rendered as a message
	Info     []AttrObs `json:"info,omitempty"`
	Req      int       `json:"req"`
	Eq       []string  `json:"eq,omitempty"` // names at the equality attribute indexes, sorted
	// Init: the parameter type of the named constructor (createInitType: one Struct member per constructor
	// attribute, its value type derived by typeAndInit), read from the signature of the first dispatcher
	Init Ty `json:"init"`
	typ  px.Type
}

type GetObs struct {
	Name  string `json:"name"`
	Found bool   `json:"found"`
	V     RV     `json:"v"`
	// through the type: Member(name).(Attribute).Get(o): "none" (no such member), "val", or an ecode
	AStatus string `json:"astatus"`
	AV      RV     `json:"av"`
	Err     string `json:"err,omitempty"` // Get itself raised this
}

type ObjObs struct {
	Err      string   `json:"err,omitempty"`
	ErrText  string   `json:"err_text,omitempty"`
	Gets     []GetObs `json:"gets,omitempty"`
	InitHash []KV     `json:"init_hash,omitempty"`
	IHErr    string   `json:"ih_err,omitempty"`
	Insts    []bool   `json:"insts,omitempty"` // IsInstance(type of def j, object), false for rejected defs
	Outside  string   `json:"outside,omitempty"`
	// ObsErr: the object was constructed but reading it (Get / InitHash / IsInstance) raised this
	ObsErr     string `json:"obs_err,omitempty"`
	ObsErrText string `json:"obs_err_text,omitempty"`
	obj        px.Value
}

type WorldObs struct {
	Defs []DefObs `json:"defs"`
	Objs []ObjObs `json:"objs"`
	// Eq[i][j]: objs[i].Equals(objs[j]) for constructed objects, -1 otherwise
	Eq [][]int `json:"eq"`
}

var codeNames = map[string]string{
	"PCORE_TYPE_MISMATCH":                          "ETypeMismatch",
	"PCORE_BAD_TYPE_STRING":                        "EBadTypeString",
	"PCORE_UNRESOLVED_TYPE":                        "EUnresolvedType",
	"PCORE_OBJECT_INHERITS_SELF":                   "EInheritsSelf",
	"PCORE_ILLEGAL_OBJECT_INHERITANCE":             "EIllegalInheritance",
	"PCORE_BOTH_CONSTANT_AND_ATTRIBUTE":            "EBothConstantAndAttribute",
	"PCORE_CONSTANT_WITH_FINAL":                    "EConstantWithFinal",
	"PCORE_ILLEGAL_KIND_VALUE_COMBINATION":         "EIllegalKindValue",
	"PCORE_CONSTANT_REQUIRES_VALUE":                "EConstantRequiresValue",
	"PCORE_OVERRIDE_MEMBER_MISMATCH":               "EOverrideMemberMismatch",
	"PCORE_OVERRIDE_OF_FINAL":                      "EOverrideOfFinal",
	"PCORE_OVERRIDE_IS_MISSING":                    "EOverrideIsMissing",
	"PCORE_OVERRIDE_TYPE_MISMATCH":                 "EOverrideTypeMismatch",
	"PCORE_OVERRIDDEN_NOT_FOUND":                   "EOverriddenNotFound",
	"PCORE_EQUALITY_ATTRIBUTE_NOT_FOUND":           "EEqualityAttributeNotFound",
	"PCORE_EQUALITY_NOT_ATTRIBUTE":                 "EEqualityNotAttribute",
	"PCORE_EQUALITY_ON_CONSTANT":                   "EEqualityOnConstant",
	"PCORE_EQUALITY_REDEFINED":                     "EEqualityRedefined",
	"PCORE_SERIALIZATION_ATTRIBUTE_NOT_FOUND":      "ESerializationAttributeNotFound",
	"PCORE_SERIALIZATION_NOT_ATTRIBUTE":            "ESerializationNotAttribute",
	"PCORE_SERIALIZATION_BAD_KIND":                 "ESerializationBadKind",
	"PCORE_SERIALIZATION_REQUIRED_AFTER_OPTIONAL":  "ESerializationRequiredAfterOptional",
	"PCORE_ILLEGAL_ARGUMENTS":                      "EIllegalArguments",
	"PCORE_MISSING_REQUIRED_ATTRIBUTE":             "EMissingRequiredAttribute",
	"PCORE_ATTRIBUTE_HAS_NO_VALUE":                 "EAttributeHasNoValue",
	"PCORE_NO_ATTRIBUTE_READER":                    "ENoAttributeReader",
}

// classify maps a recovered panic to the small error enum; never compares message wording.
func classify(r interface{}) (code, text string, renders bool) {
	renders = true
	if re, ok := r.(issue.Reported); ok {
		c := string(re.Code())
		func() {
			defer func() {
				if x := recover(); x != nil {
					renders = false
					text = fmt.Sprintf("%s (rendering the message panics: %v)", c, x)
				}
			}()
			text = re.Error()
		}()
		if n, ok := codeNames[c]; ok {
			return n, text, renders
		}
		return "EOtherIssue", c + ": " + text, renders
	}
	if re, ok := r.(runtime.Error); ok {
		return "EFault", re.Error(), true
	}
	return "EOtherPanic", fmt.Sprintf("%T %v", r, r), true
}

func guarded(f func()) (code, text string, renders bool) {
	defer func() {
		if r := recover(); r != nil {
			code, text, renders = classify(r)
		}
	}()
	f()
	return "", "", true
}

func kindName(k px.AttributeKind) string { return string(k) }

func observeAttr(a px.Attribute) AttrObs {
	o := AttrObs{Name: a.Name(), Kind: kindName(a.Kind()), Ty: parseTy(a.Type().String()), HasValue: a.HasValue()}
	if o.HasValue {
		if v, ok := fromPx(a.Value()); ok {
			o.Value = v
		} else {
			o.Value = vStr("<outside the model: " + a.Value().String() + ">")
		}
	}
	return o
}

// define runs one definition by its route in the context c.
func define(c px.Context, d *Def) (obs DefObs) {
	var t px.Type
	code, text, renders := guarded(func() {
		switch d.Route {
		case "text":
			v := types.Parse(textOfRaw(d.Name, d.Raw))
			pt, ok := v.(px.Type)
			if !ok {
				panic(fmt.Errorf("text does not denote a type: %T", v))
			}
			px.AddTypes(c, pt)
			t = pt
		case "hash":
			v := px.New(c, types.ObjectMetaType, d.Raw.Px(c))
			pt, ok := v.(px.Type)
			if !ok {
				panic(fmt.Errorf("init hash does not produce a type: %T", v))
			}
			px.AddTypes(c, pt)
			t = pt
		default:
			panic("bad route " + d.Route)
		}
	})
	if code != "" {
		return DefObs{Err: code, ErrText: text, Renders: renders}
	}
	obs.Accepted, obs.Renders, obs.typ = true, true, t
	code, text, _ = guarded(func() {
		ot, ok := t.(px.ObjectType)
		if !ok {
			panic(fmt.Errorf("definition is not an Object type: %T", t))
		}
		ai := ot.AttributesInfo()
		if ai == nil {
			return // the default Object (empty init hash)
		}
		obs.Req = ai.RequiredCount()
		for _, a := range ai.Attributes() {
			obs.Info = append(obs.Info, observeAttr(a))
		}
		for _, ix := range ai.EqualityAttributeIndex() {
			obs.Eq = append(obs.Eq, ai.Attributes()[ix].Name())
		}
		sort.Strings(obs.Eq)
		obs.Init = Ty{K: "other", N: "<no named constructor>"}
		if ctor := ot.Constructor(c); ctor != nil {
			if ds := ctor.Dispatchers(); len(ds) == 2 {
				if tt, ok := ds[0].Signature().ParametersType().(*types.TupleType); ok && len(tt.Types()) == 1 {
					obs.Init = parseTy(tt.Types()[0].String())
				}
			}
		}
	})
	if code != "" {
		obs.Accepted, obs.Err, obs.ErrText = false, code, "while reading the attributes info: "+text
	}
	return obs
}

func construct(c px.Context, w *World, wo *WorldObs, r *NewReq) (obs ObjObs) {
	d := wo.Defs[r.T]
	var o px.Value
	code, text, _ := guarded(func() {
		if r.Named {
			o = px.New(c, d.typ, vHash(r.Hash...).Px(c))
		} else {
			args := make([]px.Value, len(r.Args))
			for i, a := range r.Args {
				args[i] = a.Px(c)
			}
			o = px.New(c, d.typ, args...)
		}
	})
	if code != "" {
		return ObjObs{Err: code, ErrText: text}
	}
	obs.obj = o
	po, ok := o.(px.PuppetObject)
	if !ok {
		obs.ObsErr, obs.ObsErrText = "EOtherPanic", fmt.Sprintf("constructed value is not a PuppetObject: %T", o)
		return obs
	}
	for _, n := range w.Names {
		g := GetObs{Name: n, AStatus: "none"}
		code, text, _ := guarded(func() {
			v, found := po.Get(n)
			g.Found = found
			if found {
				rv, ok := fromPx(v)
				if !ok {
					obs.Outside = "Get(" + n + ") = " + fmt.Sprint(v)
				}
				g.V = rv
			}
		})
		if code != "" {
			g.Err = code
			obs.ObsErr, obs.ObsErrText = code, "Get("+n+"): "+text
		}
		if m, ok := d.typ.(px.ObjectType).Member(n); ok {
			if at, ok := m.(px.Attribute); ok {
				ac, _, _ := guarded(func() {
					rv, ok := fromPx(at.Get(o))
					if !ok {
						obs.Outside = "attribute.Get(" + n + ")"
					}
					g.AV = rv
				})
				if ac != "" {
					g.AStatus = ac
				} else {
					g.AStatus = "val"
				}
			}
		}
		obs.Gets = append(obs.Gets, g)
	}
	code, text, _ = guarded(func() {
		ih, ok := fromPx(po.InitHash())
		if !ok || ih.K != "hash" {
			obs.Outside = "InitHash = " + po.InitHash().String()
		}
		obs.InitHash = ih.H
	})
	if code != "" {
		obs.IHErr = code
		obs.ObsErr, obs.ObsErrText = code, "InitHash: "+text
	}
	code, text, _ = guarded(func() {
		for _, dj := range wo.Defs {
			obs.Insts = append(obs.Insts, dj.Accepted && px.IsInstance(dj.typ, o))
		}
	})
	if code != "" {
		obs.ObsErr, obs.ObsErrText = code, "IsInstance: "+text
	}
	return obs
}

// runWorld runs the world on the implementation, in a forked context of its own (own loader).
// Derived requests (the named counterpart of a positional construction, the reconstruction from
// the init-hash) are appended to w.News while running.
func runWorld(root px.Context, w *World) *WorldObs {
	wo := &WorldObs{}
	pcore.DoWithParent(root, func(c px.Context) {
		for i := range w.Defs {
			wo.Defs = append(wo.Defs, define(c, &w.Defs[i]))
		}
		n0 := len(w.News)
		for i := 0; i < len(w.News); i++ {
			r := w.News[i]
			if r.T < 0 || r.T >= len(wo.Defs) || !wo.Defs[r.T].Accepted {
				wo.Objs = append(wo.Objs, ObjObs{Err: "ENoType", ErrText: "the type was not accepted"})
				continue
			}
			o := construct(c, w, wo, &w.News[i])
			wo.Objs = append(wo.Objs, o)
			if i >= n0 || o.Err != "" || r.Origin != "" {
				continue
			}
			// derived requests
			if !r.Named {
				info := wo.Defs[r.T].Info
				if len(r.Args) <= len(info) {
					h := make([]KV, len(r.Args))
					for k, a := range r.Args {
						h[k] = KV{info[k].Name, a}
					}
					w.News = append(w.News, NewReq{T: r.T, Named: true, Hash: h, Origin: fmt.Sprintf("named-of:%d", i)})
				}
			} else if args, ok := positionalOf(wo.Defs[r.T].Info, r.Hash); ok {
				// the positional counterpart of a named construction that gives exactly the first k attributes
				w.News = append(w.News, NewReq{T: r.T, Args: args, Origin: fmt.Sprintf("positional-of:%d", i)})
			}
			if o.Outside == "" && o.IHErr == "" {
				w.News = append(w.News, NewReq{T: r.T, Named: true, Hash: o.InitHash, Origin: fmt.Sprintf("roundtrip:%d", i)})
			}
		}
		n := len(wo.Objs)
		wo.Eq = make([][]int, n)
		for i := 0; i < n; i++ {
			wo.Eq[i] = make([]int, n)
			for j := 0; j < n; j++ {
				wo.Eq[i][j] = -1
				if wo.Objs[i].obj != nil && wo.Objs[j].obj != nil {
					var eq bool
					code, _, _ := guarded(func() { eq = wo.Objs[i].obj.Equals(wo.Objs[j].obj, nil) })
					switch {
					case code != "":
						wo.Eq[i][j] = 2
					case eq:
						wo.Eq[i][j] = 1
					default:
						wo.Eq[i][j] = 0
					}
				}
			}
		}
	})
	return wo
}

// positionalOf: when the keys of the named-argument hash are exactly the names of the first k constructor
// attributes (in any order), the tuple of their values in positional order. A single Hash value is left
// out (as the only argument it would be taken for a named-argument hash).
func positionalOf(info []AttrObs, h []KV) ([]RV, bool) {
	if len(h) > len(info) {
		return nil, false
	}
	args := make([]RV, len(h))
	for k := range args {
		v, ok := vHash(h...).get(info[k].Name)
		if !ok {
			return nil, false
		}
		args[k] = v
	}
	if len(args) == 1 && args[0].K == "hash" {
		return nil, false
	}
	return args, true
}

func originIndex(o string) (kind string, idx int) {
	p := strings.SplitN(o, ":", 2)
	if len(p) != 2 {
		return "", -1
	}
	fmt.Sscanf(p[1], "%d", &idx)
	return p[0], idx
}
