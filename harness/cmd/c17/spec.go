package main

import (
	"strings"
)

// ---- structured definitions (what the generators produce) and their raw init-hash ----

type AttrSpec struct {
	Name     string `json:"name"`
	Type     Ty     `json:"type"`
	TypeStr  bool   `json:"type_str,omitempty"` // the type is written as a String holding the type text
	Kind     string `json:"kind,omitempty"`     // "", constant, derived, given_or_derived, reference
	HasValue bool   `json:"has_value,omitempty"`
	Value    RV     `json:"value"`
	Override *bool  `json:"override,omitempty"`
	Final    *bool  `json:"final,omitempty"`
	Short    bool   `json:"short,omitempty"` // written `name => Type` (possible when there is no other key)
}

type EqSpec struct {
	One   bool     `json:"one,omitempty"` // written as a single String instead of an Array
	Names []string `json:"names"`
}

type DefSpec struct {
	Name      string     `json:"name"`
	Parent    string     `json:"parent,omitempty"`
	ParentStr bool       `json:"parent_str,omitempty"` // parent written as a String (type name)
	Attrs     []AttrSpec `json:"attrs,omitempty"`
	Consts    []KV       `json:"consts,omitempty"`
	Equality  *EqSpec    `json:"equality,omitempty"`
	EqIncl    *bool      `json:"eq_incl,omitempty"`
	HasSer    bool       `json:"has_ser,omitempty"`
	Ser       []string   `json:"ser,omitempty"`
}

func (a AttrSpec) canShort() bool {
	return a.Kind == "" && !a.HasValue && a.Override == nil && a.Final == nil
}

func (a AttrSpec) raw() RV {
	tv := vType(a.Type)
	if a.TypeStr {
		tv = vTyStr(a.Type)
	}
	if a.Short && a.canShort() {
		return tv
	}
	h := []KV{{"type", tv}}
	if a.Kind != "" {
		h = append(h, KV{"kind", vStr(a.Kind)})
	}
	if a.HasValue {
		h = append(h, KV{"value", a.Value})
	}
	if a.Override != nil {
		h = append(h, KV{"override", vBool(*a.Override)})
	}
	if a.Final != nil {
		h = append(h, KV{"final", vBool(*a.Final)})
	}
	return vHash(h...)
}

// raw is the init-hash of the definition. withName: the init-hash route carries the name in the
// hash; the text route has it in `type <Name> = ...`.
func (d *DefSpec) raw(withName bool) RV {
	h := []KV{}
	if withName {
		h = append(h, KV{"name", vStr(d.Name)})
	}
	if d.Parent != "" {
		if d.ParentStr {
			h = append(h, KV{"parent", vTyStr(tObj(d.Parent))})
		} else {
			h = append(h, KV{"parent", vType(tObj(d.Parent))})
		}
	}
	if len(d.Attrs) > 0 {
		ah := make([]KV, len(d.Attrs))
		for i, a := range d.Attrs {
			ah[i] = KV{a.Name, a.raw()}
		}
		h = append(h, KV{"attributes", vHash(ah...)})
	}
	if len(d.Consts) > 0 {
		h = append(h, KV{"constants", vHash(d.Consts...)})
	}
	if d.Equality != nil {
		if d.Equality.One && len(d.Equality.Names) == 1 {
			h = append(h, KV{"equality", vStr(d.Equality.Names[0])})
		} else {
			es := make([]RV, len(d.Equality.Names))
			for i, n := range d.Equality.Names {
				es[i] = vStr(n)
			}
			h = append(h, KV{"equality", vArr(es...)})
		}
	}
	if d.EqIncl != nil {
		h = append(h, KV{"equality_include_type", vBool(*d.EqIncl)})
	}
	if d.HasSer {
		es := make([]RV, len(d.Ser))
		for i, n := range d.Ser {
			es[i] = vStr(n)
		}
		h = append(h, KV{"serialization", vArr(es...)})
	}
	return vHash(h...)
}

// ---- the Go-side reference (spec) used by the direct check D ----

// RefAttr is an attribute as the *definition* declares it (after the rules the Object
// specification gives: given_or_derived is optional and undef when not given - its type is made an
// Optional unless it accepts undef already -, Optional[T] defaults to undef, a constant's type is the
// generic type of its value).
type RefAttr struct {
	Name   string
	Kind   string
	Ty     Ty
	HasDef bool
	Def    RV
	Final  bool
}

func (a RefAttr) optional() bool { return a.Kind == "given_or_derived" || a.HasDef }

// ctor: takes part in construction (has a constructor parameter)
func (a RefAttr) ctor() bool { return a.Kind != "constant" && a.Kind != "derived" }

type RefType struct {
	Spec   *DefSpec
	Parent *RefType
	All    []RefAttr // inherited attributes first, an override replaces the inherited attribute in place
	Eq     map[string]bool
}

func (r *RefType) attr(name string) (RefAttr, bool) {
	if r == nil {
		return RefAttr{}, false
	}
	for _, a := range r.All {
		if a.Name == name {
			return a, true
		}
	}
	return RefAttr{}, false
}

func (r *RefType) isOrInherits(o *RefType) bool {
	for x := r; x != nil; x = x.Parent {
		if x == o {
			return true
		}
	}
	return false
}

func generalizeOf(v RV) (Ty, bool) {
	switch v.K {
	case "int":
		return tInt(), true
	case "str", "tystr":
		return tStr(), true
	case "bool":
		return tBool(), true
	case "arr":
		if len(v.A) == 0 {
			return Ty{}, false
		}
		e0, ok := generalizeOf(v.A[0])
		if !ok || e0.K == "arr" {
			return Ty{}, false
		}
		for _, e := range v.A[1:] {
			e1, ok := generalizeOf(e)
			if !ok || !e1.equal(e0) {
				return Ty{}, false
			}
		}
		return tArr(e0), true
	}
	return Ty{}, false
}

func effAttr(a AttrSpec) RefAttr {
	r := RefAttr{Name: a.Name, Kind: a.Kind, Ty: a.Type, Final: a.Final != nil && *a.Final || a.Kind == "constant"}
	if a.Kind == "given_or_derived" && !a.Type.acceptsUndef() {
		r.Ty = tOpt(a.Type)
	}
	if a.HasValue {
		r.HasDef, r.Def = true, a.Value
	} else if r.Ty.isOpt() || a.Kind == "given_or_derived" {
		r.HasDef, r.Def = true, vUndef()
	}
	return r
}

// wellFormed: the by-design conditions under which a definition that the schema admits must be
// accepted ("" = well formed, otherwise the reason). Declarative: no order of tests.
func wellFormed(d *DefSpec, known map[string]*RefType) string {
	var parent *RefType
	if d.Parent != "" {
		if d.Parent == d.Name {
			return "inherits itself"
		}
		parent = known[d.Parent]
		if parent == nil {
			return "parent is not a known Object type"
		}
	}
	own := map[string]RefAttr{}
	for _, a := range d.Attrs {
		if !isMemberName(a.Name) {
			return "attribute name"
		}
		if a.Type.K == "other" || a.Type.K == "obj" {
			return "attribute type outside the fragment"
		}
		if a.TypeStr && !(a.Short && a.canShort()) && !isTypeName(a.Type.Text()) {
			return "type string that is not a type name"
		}
		switch a.Kind {
		case "", "reference":
		case "constant":
			if !a.HasValue {
				return "constant without value"
			}
			if a.Final != nil && !*a.Final {
				return "constant with final => false"
			}
		case "derived", "given_or_derived":
			if a.HasValue {
				return "derived with value"
			}
		default:
			return "unknown kind"
		}
		if a.HasValue && !instOf(a.Type, a.Value) {
			return "default value is not an instance of the attribute type"
		}
		e := effAttr(a)
		ovr := a.Override != nil && *a.Override
		if inh, ok := parent.attr(a.Name); ok {
			if !ovr {
				return "override missing"
			}
			if inh.Final && !(inh.Kind == "constant" && a.Kind == "constant") {
				return "override of final"
			}
			if !assignable(inh.Ty, e.Ty) {
				return "override type mismatch"
			}
		} else if ovr {
			return "overridden not found"
		}
		own[a.Name] = e
	}
	for _, kv := range d.Consts {
		if !isMemberName(kv.K) {
			return "constant name"
		}
		if _, dup := own[kv.K]; dup {
			return "both constant and attribute"
		}
		g, ok := generalizeOf(kv.V)
		if !ok {
			return "constant value outside the fragment"
		}
		if inh, ok := parent.attr(kv.K); ok {
			if inh.Final && inh.Kind != "constant" {
				return "override of final"
			}
			if !assignable(inh.Ty, g) {
				return "override type mismatch"
			}
		}
		own[kv.K] = RefAttr{Name: kv.K, Kind: "constant", Ty: g, HasDef: true, Def: kv.V, Final: true}
	}
	lookup := func(n string) (RefAttr, bool) {
		if a, ok := own[n]; ok {
			return a, true
		}
		return parent.attr(n)
	}
	if d.Equality != nil {
		for _, n := range d.Equality.Names {
			if !isMemberName(n) {
				return "equality name"
			}
			a, ok := lookup(n)
			if !ok {
				return "equality attribute not found"
			}
			if a.Kind == "constant" {
				return "equality on constant"
			}
			if parent != nil && parent.Eq[n] {
				return "equality redefined"
			}
		}
	}
	if d.HasSer {
		optSeen := false
		for _, n := range d.Ser {
			if !isMemberName(n) {
				return "serialization name"
			}
			a, ok := lookup(n)
			if !ok {
				return "serialization attribute not found"
			}
			if !a.ctor() {
				return "serialization bad kind"
			}
			if a.optional() {
				optSeen = true
			} else if optSeen {
				return "serialization required after optional"
			}
		}
	}
	return ""
}

// refOf builds the reference view of a well-formed definition.
func refOf(d *DefSpec, known map[string]*RefType) *RefType {
	r := &RefType{Spec: d, Eq: map[string]bool{}}
	if d.Parent != "" {
		r.Parent = known[d.Parent]
		r.All = append(r.All, r.Parent.All...)
		for k := range r.Parent.Eq {
			r.Eq[k] = true
		}
	}
	put := func(a RefAttr) {
		for i := range r.All {
			if r.All[i].Name == a.Name {
				r.All[i] = a
				return
			}
		}
		r.All = append(r.All, a)
	}
	ownNonConst := []string{}
	for _, a := range d.Attrs {
		e := effAttr(a)
		put(e)
		if e.Kind != "constant" {
			ownNonConst = append(ownNonConst, a.Name)
		}
	}
	for _, kv := range d.Consts {
		g, _ := generalizeOf(kv.V)
		put(RefAttr{Name: kv.K, Kind: "constant", Ty: g, HasDef: true, Def: kv.V, Final: true})
	}
	if d.Equality != nil {
		for _, n := range d.Equality.Names {
			r.Eq[n] = true
		}
	} else {
		// no equality declared at this level: all its attributes except constants participate
		for _, n := range ownNonConst {
			r.Eq[n] = true
		}
	}
	return r
}

// serComplete: the serialization list (when present) enumerates every constructor attribute
// exactly once. Definitions where it does not are the input class of the open finding
// `serialization-partial`.
func (r *RefType) serComplete() bool {
	if !r.Spec.HasSer {
		return true
	}
	seen := map[string]bool{}
	for _, n := range r.Spec.Ser {
		if seen[n] {
			return false
		}
		seen[n] = true
	}
	for _, a := range r.All {
		if a.ctor() && !seen[a.Name] {
			return false
		}
	}
	return true
}

// serCompleteChain: also every ancestor (the attributes of an ancestor are inherited, its
// serialization list is not).
func (r *RefType) eqNames() []string {
	out := []string{}
	for _, a := range r.All {
		if r.Eq[a.Name] {
			out = append(out, a.Name)
		}
	}
	return out
}

func (d *DefSpec) text() string {
	return "type " + d.Name + " = Object[" + d.raw(false).Text() + "]"
}

func textOfRaw(name string, raw RV) string {
	// the text route: the name key, if any, stays in the hash
	return "type " + name + " = Object[" + raw.Text() + "]"
}

func joinNames(ns []string) string { return strings.Join(ns, ",") }
