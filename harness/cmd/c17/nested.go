package main

// The nested family: Object types with attributes whose type is, or contains, another Object type (direct, below
// Optional / Array / Hash value / Struct member, inherited from a parent).  One abstract object value is constructed in
// every form the constructors admit - positional with instances, by name with instances, by name with every nested
// object given as its init-hash, by name mixed, positional with the direct Object attributes given as init-hash - and
// rebuilt from the init-hash of every object built.  Model: coq/Model/ObjNest.v, correspondence: nested_mismatches.

import (
	"fmt"
	"strings"
	"sync/atomic"

	"github.com/lyraproj/pcore/pcore"
	"github.com/lyraproj/pcore/px"
	"github.com/lyraproj/pcore/types"
	"verifharness/lib"
)

// NTy: int str opt arr hashv struct obj
type NTy struct {
	K string `json:"k"`
	E *NTy   `json:"e,omitempty"`
	M []NMem `json:"m,omitempty"`
	N string `json:"n,omitempty"`
}

type NMem struct {
	N   string `json:"n"`
	Opt bool   `json:"opt,omitempty"` // written Optional['n']
	T   NTy    `json:"t"`
}

type NAttr struct {
	N   string `json:"n"`
	T   NTy    `json:"t"`
	Def *NV    `json:"def,omitempty"` // the declared value
}

type NDef struct {
	Name   string  `json:"name"`
	Parent string  `json:"parent,omitempty"`
	// ParentAlias: the parent is named through a type alias `type <Parent>Alias = <Parent>` declared for it
	ParentAlias bool `json:"parent_alias,omitempty"`
	Attrs  []NAttr `json:"attrs"` // own attributes
}

type NKV struct {
	K string `json:"k"`
	V NV     `json:"v"`
}

// NV kinds: undef int str arr hash; obj (abstract: type T, the fields given by name in H, AsHash: given as init-hash in
// the mixed form); nobj (observed, normal form: type T, the value of every constructor attribute in A)
type NV struct {
	K      string `json:"k"`
	I      int64  `json:"i,omitempty"`
	S      string `json:"s,omitempty"`
	A      []NV   `json:"a,omitempty"`
	H      []NKV  `json:"h,omitempty"`
	T      string `json:"t,omitempty"`
	AsHash bool   `json:"as_hash,omitempty"`
}

type NCase struct {
	T int `json:"t"` // index of the definition
	V NV  `json:"v"` // abstract object of that type
}

type NWorld struct {
	Family string  `json:"family"`
	Defs   []NDef  `json:"defs"`
	Cases  []NCase `json:"cases"`
}

func nInt() NTy            { return NTy{K: "int"} }
func nStr() NTy            { return NTy{K: "str"} }
func nOpt(e NTy) NTy       { return NTy{K: "opt", E: &e} }
func nArr(e NTy) NTy       { return NTy{K: "arr", E: &e} }
func nHashV(e NTy) NTy     { return NTy{K: "hashv", E: &e} }
func nObj(n string) NTy    { return NTy{K: "obj", N: n} }
func nStruct(m ...NMem) NTy { return NTy{K: "struct", M: m} }

func (t NTy) Text() string {
	switch t.K {
	case "int":
		return "Integer"
	case "str":
		return "String"
	case "opt":
		return "Optional[" + t.E.Text() + "]"
	case "arr":
		return "Array[" + t.E.Text() + "]"
	case "hashv":
		return "Hash[String, " + t.E.Text() + "]"
	case "struct":
		ps := make([]string, len(t.M))
		for i, m := range t.M {
			k := quote(m.N)
			if m.Opt {
				k = "Optional[" + k + "]"
			}
			ps[i] = k + " => " + m.T.Text()
		}
		return "Struct[{" + strings.Join(ps, ", ") + "}]"
	case "obj":
		return t.N
	}
	panic("bad nty " + t.K)
}

func (t NTy) hasObj() bool {
	switch t.K {
	case "obj":
		return true
	case "struct":
		for _, m := range t.M {
			if m.T.hasObj() {
				return true
			}
		}
		return false
	}
	return t.E != nil && t.E.hasObj()
}

func nvInt(i int64) NV  { return NV{K: "int", I: i} }
func nvStr(s string) NV { return NV{K: "str", S: s} }
func nvUndef() NV       { return NV{K: "undef"} }
func nvArr(a ...NV) NV  { return NV{K: "arr", A: a} }
func nvHash(h ...NKV) NV { return NV{K: "hash", H: h} }
func nvObj(t string, asHash bool, h ...NKV) NV {
	return NV{K: "obj", T: t, H: h, AsHash: asHash}
}

func (v NV) Text() string {
	switch v.K {
	case "undef":
		return "undef"
	case "int":
		return fmt.Sprint(v.I)
	case "str":
		return quote(v.S)
	case "arr":
		ps := make([]string, len(v.A))
		for i, e := range v.A {
			ps[i] = e.Text()
		}
		return "[" + strings.Join(ps, ", ") + "]"
	case "hash", "obj":
		ps := make([]string, len(v.H))
		for i, e := range v.H {
			ps[i] = quote(e.K) + " => " + e.V.Text()
		}
		s := "{" + strings.Join(ps, ", ") + "}"
		if v.K == "obj" {
			if v.AsHash {
				return v.T + "#hash(" + s + ")"
			}
			return v.T + "(" + s + ")"
		}
		return s
	case "nobj":
		ps := make([]string, len(v.A))
		for i, e := range v.A {
			ps[i] = e.Text()
		}
		return v.T + "<" + strings.Join(ps, ", ") + ">"
	case "other":
		return "<" + v.S + ">"
	}
	return "<none>"
}

// Gallina term of an OBSERVED value (normal form) or of a rendered argument
func (v NV) Gallina() string {
	switch v.K {
	case "undef":
		return "NVUndef"
	case "int":
		return fmt.Sprintf("(NVInt (%d))", v.I)
	case "str":
		return "(NVStr " + gS(v.S) + ")"
	case "arr":
		ps := make([]string, len(v.A))
		for i, e := range v.A {
			ps[i] = e.Gallina()
		}
		return "(NVArr " + lib.GList(ps, "nvalue") + ")"
	case "hash":
		return "(NVHash " + gNKVs(v.H) + ")"
	case "nobj":
		ps := make([]string, len(v.A))
		for i, e := range v.A {
			ps[i] = e.Gallina()
		}
		return "(NVObj " + gS(v.T) + " " + lib.GList(ps, "nvalue") + ")"
	}
	panic("no term for nv " + v.K)
}

func gNKVs(h []NKV) string {
	ps := make([]string, len(h))
	for i, e := range h {
		ps[i] = lib.GPair(gS(e.K), e.V.Gallina())
	}
	return lib.GList(ps, "str * nvalue")
}

func (v NV) emittable() bool {
	switch v.K {
	case "undef", "int", "str":
		return true
	case "arr", "nobj":
		for _, e := range v.A {
			if !e.emittable() {
				return false
			}
		}
		return true
	case "hash":
		for _, e := range v.H {
			if !e.V.emittable() {
				return false
			}
		}
		return true
	}
	return false
}

// ---- the declarative reading of the definitions ----

func (w *NWorld) def(name string) *NDef {
	for i := range w.Defs {
		if w.Defs[i].Name == name {
			return &w.Defs[i]
		}
	}
	return nil
}

func (w *NWorld) isOrInherits(d, anc *NDef) bool {
	for x := d; x != nil; x = w.def(x.Parent) {
		if x == anc {
			return true
		}
		if x.Parent == "" {
			break
		}
	}
	return false
}

// collected: own and inherited attributes, the parent's first
func (w *NWorld) collected(d *NDef) []NAttr {
	var out []NAttr
	if d.Parent != "" {
		out = w.collected(w.def(d.Parent))
	}
	return append(out, d.Attrs...)
}

// layout: the constructor attributes in positional order: the required ones, then those with a declared value
func (w *NWorld) layout(d *NDef) []NAttr {
	var req, opt []NAttr
	for _, a := range w.collected(d) {
		if a.Def == nil {
			req = append(req, a)
		} else {
			opt = append(opt, a)
		}
	}
	return append(req, opt...)
}

// norm: the normal form the property demands of every construction of the abstract value v of type t: every nested object
// is an instance that holds, for every constructor attribute, the value given or the declared one
func (w *NWorld) norm(t NTy, v NV) NV {
	switch t.K {
	case "opt":
		if v.K == "undef" {
			return v
		}
		return w.norm(*t.E, v)
	case "arr":
		out := NV{K: "arr"}
		for _, e := range v.A {
			out.A = append(out.A, w.norm(*t.E, e))
		}
		return out
	case "hashv":
		out := NV{K: "hash"}
		for _, e := range v.H {
			out.H = append(out.H, NKV{e.K, w.norm(*t.E, e.V)})
		}
		return out
	case "struct":
		out := NV{K: "hash"}
		for _, e := range v.H {
			mt := nInt()
			for _, m := range t.M {
				if m.N == e.K {
					mt = m.T
				}
			}
			out.H = append(out.H, NKV{e.K, w.norm(mt, e.V)})
		}
		return out
	case "obj":
		d := w.def(v.T)
		out := NV{K: "nobj", T: v.T}
		for _, a := range w.layout(d) {
			var fv *NV
			for i := range v.H {
				if v.H[i].K == a.N {
					fv = &v.H[i].V
				}
			}
			if fv != nil {
				out.A = append(out.A, w.norm(a.T, *fv))
			} else {
				out.A = append(out.A, *a.Def)
			}
		}
		return out
	}
	return v
}

func nvEqual(a, b NV) bool {
	if a.K != b.K || a.I != b.I || a.S != b.S || a.T != b.T || len(a.A) != len(b.A) || len(a.H) != len(b.H) {
		return false
	}
	for i := range a.A {
		if !nvEqual(a.A[i], b.A[i]) {
			return false
		}
	}
	for i := range a.H {
		if a.H[i].K != b.H[i].K || !nvEqual(a.H[i].V, b.H[i].V) {
			return false
		}
	}
	return true
}

// Gallina of a type: an Object type is referred to by containing its constructor attributes in layout order
func (w *NWorld) gTy(t NTy) string {
	switch t.K {
	case "int":
		return "NInt"
	case "str":
		return "NStr"
	case "opt":
		return "(NOpt " + w.gTy(*t.E) + ")"
	case "arr":
		return "(NArr " + w.gTy(*t.E) + ")"
	case "hashv":
		return "(NHashV " + w.gTy(*t.E) + ")"
	case "struct":
		out := "NNil"
		for i := len(t.M) - 1; i >= 0; i-- {
			m := t.M[i]
			d := "None"
			if m.Opt {
				d = "(Some NVUndef)"
			}
			out = "(NCons " + gS(m.N) + " " + d + " " + w.gTy(m.T) + " " + out + ")"
		}
		return "(NStruct " + out + ")"
	case "obj":
		return "(NObj " + gS(t.N) + " " + w.gAttrs(w.def(t.N)) + ")"
	}
	panic("bad nty " + t.K)
}

var ntyTab = map[string]string{}
var ntyOrder []string

// gAttrs: the attribute list of a definition, interned (defined once in the prelude of the cases file)
func (w *NWorld) gAttrs(d *NDef) string {
	l := w.layout(d)
	out := "NNil"
	for i := len(l) - 1; i >= 0; i-- {
		a := l[i]
		dv := "None"
		if a.Def != nil {
			dv = "(Some " + a.Def.Gallina() + ")"
		}
		out = "(NCons " + gS(a.N) + " " + dv + " " + w.gTy(a.T) + " " + out + ")"
	}
	if n, ok := ntyTab[out]; ok {
		return n
	}
	n := fmt.Sprintf("zt%d", len(ntyOrder))
	ntyTab[out] = n
	ntyOrder = append(ntyOrder, out)
	return n
}

func ntyPrelude() string {
	var b strings.Builder
	for i, s := range ntyOrder {
		fmt.Fprintf(&b, "Definition zt%d : nty := %s.\n", i, s)
	}
	return b.String()
}

// ---- running ----

func (d *NDef) text(w *NWorld) string {
	ps := make([]string, len(d.Attrs))
	for i, a := range d.Attrs {
		if a.Def != nil {
			ps[i] = a.N + " => {type => " + a.T.Text() + ", value => " + a.Def.Text() + "}"
		} else {
			ps[i] = a.N + " => " + a.T.Text()
		}
	}
	p := ""
	if d.Parent != "" {
		p = "parent => " + d.Parent + ", "
		if d.ParentAlias {
			p = "parent => " + d.Parent + "Alias, "
		}
	}
	return "Object[{" + p + "attributes => {" + strings.Join(ps, ", ") + "}}]"
}

func describeNWorld(w *NWorld) string {
	var b strings.Builder
	for i := range w.Defs {
		if w.Defs[i].ParentAlias {
			fmt.Fprintf(&b, "type %sAlias = %s\n", w.Defs[i].Parent, w.Defs[i].Parent)
		}
		fmt.Fprintf(&b, "type %s = %s\n", w.Defs[i].Name, w.Defs[i].text(w))
	}
	return b.String()
}

// forms of one abstract value
var nForms = []string{"positional", "named", "named-init-hash", "named-mixed", "positional-init-hash"}

type nRun struct {
	c     px.Context
	w     *NWorld
	types map[string]px.Type
}

// render: the implementation value of the abstract value v. mode: "inst" every object an instance, "hash" every object
// its init-hash, "mixed" by the flag of the node
func (r *nRun) render(v NV, mode string) px.Value {
	switch v.K {
	case "undef":
		return px.Undef
	case "int":
		return types.WrapInteger(v.I)
	case "str":
		return types.WrapString(v.S)
	case "arr":
		es := make([]px.Value, len(v.A))
		for i, e := range v.A {
			es[i] = r.render(e, mode)
		}
		return types.WrapValues(es)
	case "hash", "obj":
		es := make([]*types.HashEntry, len(v.H))
		for i, e := range v.H {
			es[i] = types.WrapHashEntry2(e.K, r.render(e.V, mode))
		}
		h := types.WrapHash(es)
		if v.K == "hash" || mode == "hash" || mode == "mixed" && v.AsHash {
			return h
		}
		return px.New(r.c, r.types[v.T], h)
	}
	panic("bad nv " + v.K)
}

// decode: the normal form of an implementation value (an object: its type name and Get of every constructor attribute)
func decode(v px.Value) NV {
	switch x := v.(type) {
	case *types.UndefValue:
		return nvUndef()
	case px.Integer:
		return nvInt(x.Int())
	case px.StringValue:
		return nvStr(x.String())
	case *types.Array:
		out := NV{K: "arr"}
		x.Each(func(e px.Value) { out.A = append(out.A, decode(e)) })
		return out
	case *types.Hash:
		out := NV{K: "hash"}
		x.EachPair(func(k, e px.Value) {
			if ks, ok := k.(px.StringValue); ok {
				out.H = append(out.H, NKV{ks.String(), decode(e)})
			} else {
				out.H = append(out.H, NKV{k.String(), NV{K: "other", S: "key " + k.String()}})
			}
		})
		return out
	case px.PuppetObject:
		ot, ok := x.PType().(px.ObjectType)
		if !ok || ot.AttributesInfo() == nil {
			return NV{K: "other", S: x.String()}
		}
		out := NV{K: "nobj", T: ot.Name()}
		for _, a := range ot.AttributesInfo().Attributes() {
			g, found := x.Get(a.Name())
			if !found {
				out.A = append(out.A, NV{K: "other", S: "no value for " + a.Name()})
			} else {
				out.A = append(out.A, decode(g))
			}
		}
		return out
	}
	return NV{K: "other", S: fmt.Sprintf("%T %v", v, v)}
}

type nObs struct {
	Form    string
	Origin  int // -1, or the index of the observation whose init-hash this one is rebuilt from
	Skipped bool
	Args    []NV // the arguments as given (normal forms of the rendered values)
	ArgText string
	Err     string // "", NIllegalArguments, NMissing, NCoerceFails, EFault, EOtherPanic
	ErrText string
	V       NV    // normal form
	NotInst []string
	IH      []NKV
	IHErr   string
	Insts   []bool // IsInstance(type of definition j, the object)
	obj     px.Value
	ih      px.Value
}

func nErr(code string) string {
	switch code {
	case "EIllegalArguments":
		return "NIllegalArguments"
	case "EMissingRequiredAttribute":
		return "NMissing"
	case "EFault", "EOtherPanic":
		return code
	}
	return "NCoerceFails"
}

type nCaseObs struct {
	Obs []nObs
	Eq  [][]int
}

func (r *nRun) construct(o *nObs, tn string, args []px.Value) {
	for _, a := range args {
		o.Args = append(o.Args, decode(a))
	}
	ps := make([]string, len(args))
	for i, a := range args {
		ps[i] = a.String()
	}
	o.ArgText = tn + "(" + strings.Join(ps, ", ") + ")"
	var v px.Value
	code, text, _ := guarded(func() { v = px.New(r.c, r.types[tn], args...) })
	if code != "" {
		o.Err, o.ErrText = nErr(code), code+": "+text
		return
	}
	o.obj = v
	code, text, _ = guarded(func() {
		o.V = decode(v)
		po := v.(px.PuppetObject)
		ot := r.types[tn].(px.ObjectType)
		for _, a := range ot.AttributesInfo().Attributes() {
			if g, found := po.Get(a.Name()); !found || !px.IsInstance(a.Type(), g) {
				o.NotInst = append(o.NotInst, a.Name())
			}
		}
	})
	if code != "" {
		o.V = NV{K: "other", S: "reading raised " + code + ": " + text}
	}
	guarded(func() {
		for j := range r.w.Defs {
			o.Insts = append(o.Insts, px.IsInstance(r.types[r.w.Defs[j].Name], v))
		}
	})
	code, text, _ = guarded(func() {
		o.ih = v.(px.PuppetObject).InitHash()
		o.IH = decode(o.ih).H
	})
	if code != "" {
		o.IHErr = code + ": " + text
	}
}

func (r *nRun) runCase(cs *NCase) *nCaseObs {
	w := r.w
	d := &w.Defs[cs.T]
	co := &nCaseObs{}
	layout := w.layout(d)
	field := func(n string) *NV {
		for i := range cs.V.H {
			if cs.V.H[i].K == n {
				return &cs.V.H[i].V
			}
		}
		return nil
	}
	// the positional tuple: the fields given are a prefix of the layout (generators)
	prefix := 0
	for prefix < len(layout) && field(layout[prefix].N) != nil {
		prefix++
	}
	isPrefix := prefix == len(cs.V.H)
	for _, f := range nForms {
		o := nObs{Form: f, Origin: -1}
		var args []px.Value
		code, text, _ := guarded(func() {
			switch f {
			case "positional", "positional-init-hash":
				if !isPrefix {
					o.Skipped = true
					return
				}
				direct := false
				for i := 0; i < prefix; i++ {
					fv := field(layout[i].N)
					mode := "inst"
					if f == "positional-init-hash" && layout[i].T.K == "obj" {
						mode, direct = "hash", true
					}
					args = append(args, r.render(*fv, mode))
				}
				if f == "positional-init-hash" && !direct {
					o.Skipped = true
				}
			case "named":
				args = []px.Value{r.render(NV{K: "hash", H: cs.V.H}, "inst")}
			case "named-init-hash":
				args = []px.Value{r.render(NV{K: "hash", H: cs.V.H}, "hash")}
			case "named-mixed":
				args = []px.Value{r.render(NV{K: "hash", H: cs.V.H}, "mixed")}
			}
		})
		if code != "" {
			// a nested instance could not be built
			o.Err, o.ErrText = nErr(code), "while building the arguments: "+code+": "+text
			o.ArgText = d.Name + " " + f + " of " + cs.V.Text()
			co.Obs = append(co.Obs, o)
			continue
		}
		if h, isHash := singleHash(args); isHash && strings.HasPrefix(f, "positional") {
			// one argument that is a Hash all of whose keys name constructor attributes is a named-argument hash
			// (the named dispatcher is asked first): no positional construction
			all := true
			h.EachKey(func(k px.Value) {
				known := false
				for _, a := range layout {
					known = known || a.N == k.String()
				}
				all = all && known
			})
			o.Skipped = o.Skipped || all
		}
		if !o.Skipped {
			r.construct(&o, d.Name, args)
		}
		co.Obs = append(co.Obs, o)
	}
	n0 := len(co.Obs)
	for i := 0; i < n0; i++ {
		if co.Obs[i].obj == nil || co.Obs[i].ih == nil {
			continue
		}
		o := nObs{Form: "roundtrip", Origin: i}
		r.construct(&o, d.Name, []px.Value{co.Obs[i].ih})
		co.Obs = append(co.Obs, o)
	}
	n := len(co.Obs)
	co.Eq = make([][]int, n)
	for i := 0; i < n; i++ {
		co.Eq[i] = make([]int, n)
		for j := 0; j < n; j++ {
			co.Eq[i][j] = -1
			if co.Obs[i].obj != nil && co.Obs[j].obj != nil {
				var eq bool
				code, _, _ := guarded(func() { eq = co.Obs[i].obj.Equals(co.Obs[j].obj, nil) })
				switch {
				case code != "":
					co.Eq[i][j] = 2
				case eq:
					co.Eq[i][j] = 1
				default:
					co.Eq[i][j] = 0
				}
			}
		}
	}
	return co
}

func singleHash(args []px.Value) (*types.Hash, bool) {
	if len(args) != 1 {
		return nil, false
	}
	h, ok := args[0].(*types.Hash)
	return h, ok
}

type nWorldObs struct {
	DefErr []string
	Cases  []*nCaseObs
}

func runNWorld(root px.Context, w *NWorld) *nWorldObs {
	wo := &nWorldObs{}
	pcore.DoWithParent(root, func(c px.Context) {
		r := &nRun{c: c, w: w, types: map[string]px.Type{}}
		ok := true
		for i := range w.Defs {
			d := &w.Defs[i]
			code, text, _ := guarded(func() {
				if d.ParentAlias {
					if _, ok := r.types[d.Parent+"Alias"]; !ok {
						at := types.NamedType(px.RuntimeNameAuthority, d.Parent+"Alias", types.Parse(d.Parent))
						px.AddTypes(c, at)
						r.types[d.Parent+"Alias"] = at
					}
				}
				t := types.NamedType(px.RuntimeNameAuthority, d.Name, types.Parse(d.text(w)))
				px.AddTypes(c, t)
				r.types[d.Name] = t
				// the layout the reference computes is the layout of the implementation
				ai := t.(px.ObjectType).AttributesInfo()
				l := w.layout(d)
				if len(ai.Attributes()) != len(l) {
					panic(fmt.Errorf("layout: %d attributes, expected %d", len(ai.Attributes()), len(l)))
				}
				for k, a := range ai.Attributes() {
					if a.Name() != l[k].N {
						panic(fmt.Errorf("layout: attribute %d is %s, expected %s", k, a.Name(), l[k].N))
					}
				}
			})
			if code != "" {
				ok = false
				wo.DefErr = append(wo.DefErr, fmt.Sprintf("definition %s = %s is rejected with %s: %s", d.Name, d.text(w), code, text))
			} else {
				wo.DefErr = append(wo.DefErr, "")
			}
		}
		if !ok {
			return
		}
		for i := range w.Cases {
			wo.Cases = append(wo.Cases, r.runCase(&w.Cases[i]))
		}
	})
	return wo
}

// ---- direct check ----

func nReplayInput(w *NWorld, ci int) interface{} {
	c := *w
	if ci >= 0 {
		c.Cases = []NCase{w.Cases[ci]}
	}
	return map[string]interface{}{"kind": "nested", "world": c}
}

func nDirectCheck(w *NWorld, wo *nWorldObs) (vs []lib.Violation) {
	for _, e := range wo.DefErr {
		if e != "" {
			vs = append(vs, lib.Violation{Clause: "schema-admits-accepted", What: e, Input: nReplayInput(w, -1), Tags: []string{"nested"}})
		}
	}
	for ci, co := range wo.Cases {
		cs := &w.Cases[ci]
		d := &w.Defs[cs.T]
		add := func(clause, what string) {
			vs = append(vs, lib.Violation{Clause: clause, What: what + "   [types: " + strings.ReplaceAll(strings.TrimSpace(describeNWorld(w)), "\n", "; ") + "]", Input: nReplayInput(w, ci)})
		}
		want := w.norm(nObj(d.Name), cs.V)
		// the reference object: the first form that was constructed
		ref := -1
		for i := range co.Obs {
			o := &co.Obs[i]
			if o.Skipped {
				continue
			}
			if o.Err == "EFault" || o.Err == "EOtherPanic" {
				add("ctor-reports", fmt.Sprintf("%s escapes with %s", o.ArgText, o.ErrText))
				continue
			}
			if o.Err != "" {
				if o.Origin >= 0 {
					add("init-hash-roundtrip", fmt.Sprintf("the init-hash of %s is rejected by the constructor: %s: %s", co.Obs[o.Origin].ArgText, o.ArgText, o.ErrText))
				} else if o.Form == "positional" || o.Form == "named" {
					// every attribute value is an instance of the declared type: both constructors must take it. (That a
					// nested init-hash is accepted in place of an instance is not demanded by the property: such a
					// rejection is left to the correspondence with the model.)
					add("pos-named-equal", fmt.Sprintf("the %s construction %s of the well-typed value %s is rejected: %s", o.Form, o.ArgText, cs.V.Text(), o.ErrText))
				}
				continue
			}
			// every attribute reads back the value given or its default; the value is an instance of the attribute's type
			if len(o.NotInst) > 0 {
				add("get-given-or-default", fmt.Sprintf("%s (%s) was constructed, attribute %s holds a value that is no instance of the attribute's type: the object reads %s", o.ArgText, o.Form, strings.Join(o.NotInst, ","), o.V.Text()))
			} else if !nvEqual(o.V, want) {
				add("get-given-or-default", fmt.Sprintf("%s (%s) reads %s, the values given or declared are %s", o.ArgText, o.Form, o.V.Text(), want.Text()))
			}
			if o.IHErr != "" {
				add("init-hash-roundtrip", fmt.Sprintf("InitHash of %s raised %s", o.ArgText, o.IHErr))
			}
			// an instance of the type and of every ancestor, of no other type of the world
			for j := range w.Defs {
				want := w.isOrInherits(d, &w.Defs[j])
				if j < len(o.Insts) && o.Insts[j] != want {
					if want {
						add("sub-instance-of-ancestors", fmt.Sprintf("%s (%s) is not an instance of %s", o.ArgText, o.Form, w.Defs[j].Name))
					} else {
						add("never-the-reverse", fmt.Sprintf("%s (%s) is an instance of %s, which is neither its type nor an ancestor", o.ArgText, o.Form, w.Defs[j].Name))
					}
				}
			}
			if o.Origin >= 0 {
				if co.Eq[o.Origin][i] != 1 || co.Eq[i][o.Origin] != 1 {
					add("init-hash-roundtrip", fmt.Sprintf("%s rebuilt from its init-hash (%s) is not equal to it (Equals: %d / %d)", co.Obs[o.Origin].ArgText, o.ArgText, co.Eq[o.Origin][i], co.Eq[i][o.Origin]))
				}
				continue
			}
			if ref < 0 {
				ref = i
				continue
			}
			if co.Eq[ref][i] != 1 || co.Eq[i][ref] != 1 {
				add("pos-named-equal", fmt.Sprintf("%s (%s) and %s (%s) give the same attribute values and are not equal (Equals: %d / %d)", co.Obs[ref].ArgText, co.Obs[ref].Form, o.ArgText, o.Form, co.Eq[ref][i], co.Eq[i][ref]))
			}
		}
	}
	return vs
}

// ---- emission: one Coq case per construction ----

type nSink struct {
	cfg   *lib.Config
	files []*lib.CasesFile
	n     int
	file  *lib.CasesFile
}

func newNSink(cfg *lib.Config) *nSink {
	s := &nSink{cfg: cfg}
	k := 2
	if cfg.Thorough() {
		k = 4
	}
	if cfg.Replay != "" {
		k = 1
	}
	for i := 0; i < k; i++ {
		s.files = append(s.files, &lib.CasesFile{
			Imports:     []string{"Model.Base", "Model.ObjNest", "Corr.CorrC17"},
			Typ:         "ncase",
			Obligations: map[string]string{"nested_model": "nested_mismatches cases"},
		})
	}
	return s
}

func (s *nSink) add(w *NWorld, wo *nWorldObs) {
	s.file = s.files[s.n%len(s.files)]
	s.n++
	for ci, co := range wo.Cases {
		d := &w.Defs[w.Cases[ci].T]
		for i := range co.Obs {
			o := &co.Obs[i]
			if o.Skipped || o.Args == nil {
				continue
			}
			ok := true
			for _, a := range o.Args {
				ok = ok && a.emittable()
			}
			if !ok {
				continue
			}
			as := make([]string, len(o.Args))
			for k, a := range o.Args {
				as[k] = a.Gallina()
			}
			var obs string
			switch {
			case o.Err == "NIllegalArguments" || o.Err == "NMissing" || o.Err == "NCoerceFails":
				obs = o.Err
			case o.Err != "":
				obs = "NCoerceFails (* " + o.Err + " *)"
			case !o.V.emittable():
				continue
			default:
				obs = "(NOk " + o.V.Gallina() + ")"
			}
			ih := NV{K: "hash", H: o.IH}
			if !ih.emittable() {
				continue
			}
			term := "(mkNCase " + gS(d.Name) + " " + w.gAttrs(d) + " " + lib.GList(as, "nvalue") + " " + obs + " " + gNKVs(o.IH) + ")"
			s.file.Add(term, nReplayInput(w, ci))
		}
	}
}

func (s *nSink) flush(res *lib.Result) {
	for i, f := range s.files {
		if len(f.Cases) == 0 && i > 0 {
			continue
		}
		f.Prelude = strPrelude() + ntyPrelude()
		res.CorrFiles = append(res.CorrFiles, f.WriteTo(s.cfg.Out, fmt.Sprintf("cases_nested_%d", i)))
	}
}

// ---- the runner ----

var nCurrent atomic.Value // *NWorld

func (rn *runner) checkNested(root px.Context, w *NWorld, toCoq bool) *nWorldObs {
	nCurrent.Store(w)
	atomic.AddInt64(&rn.beat, 1)
	wo := runNWorld(root, w)
	res := rn.res
	res.Evaluations++
	res.Count("world.nested." + w.Family)
	nontriv := false
	for _, co := range wo.Cases {
		built := 0
		for i := range co.Obs {
			o := &co.Obs[i]
			switch {
			case o.Skipped:
			case o.Err != "":
				res.Count("nested." + o.Form + "." + o.Err)
			default:
				res.Count("nested." + o.Form + ".ok")
				built++
			}
		}
		if built >= 2 {
			nontriv = true
		}
	}
	if nontriv {
		s := describeNWorld(w)
		for _, c := range w.Cases {
			s += c.V.Text() + ";"
		}
		res.Nontrivial(s)
		res.Count("world.nontrivial")
	}
	vs := nDirectCheck(w, wo)
	for _, v := range vs {
		res.Violate(v)
	}
	if len(vs) > 0 {
		rn.nViol++
	}
	if toCoq || len(vs) > 0 && rn.nViol <= 20 {
		rn.ncases.add(w, wo)
	}
	atomic.AddInt64(&rn.beat, 1)
	nCurrent.Store((*NWorld)(nil))
	return wo
}

func (rn *runner) replayNested(root px.Context, w *NWorld) {
	before := len(rn.res.Violations)
	wo := rn.checkNested(root, w, true)
	fmt.Print(describeNWorld(w))
	for _, e := range wo.DefErr {
		if e != "" {
			fmt.Println("  " + e)
		}
	}
	for ci, co := range wo.Cases {
		fmt.Printf("  value %s\n", w.Cases[ci].V.Text())
		for i := range co.Obs {
			o := &co.Obs[i]
			switch {
			case o.Skipped:
			case o.Err != "":
				fmt.Printf("  #%d %-20s %s => %s\n", i, o.Form, o.ArgText, o.ErrText)
			default:
				fmt.Printf("  #%d %-20s %s => %s init-hash %s not-instance %v\n", i, o.Form, o.ArgText, o.V.Text(), NV{K: "hash", H: o.IH}.Text(), o.NotInst)
			}
		}
		for i := range co.Eq {
			fmt.Printf("  equals[%d] %v\n", i, co.Eq[i])
		}
	}
	for _, v := range rn.res.Violations[before:] {
		fmt.Printf("FAILS %s: %s\n", v.Clause, v.What)
	}
	if len(rn.res.Violations) == before {
		fmt.Println("the implementation satisfies every clause of C17 on this world")
	}
}
