// c19: type-mismatch reporting is total and agrees with the lattice.
//
// D (direct, on the implementation): for ALL ordered pairs (expected, actual) of the type pool
//   - px.DescribeMismatch does not crash                                             (clause total)
//   - the text is empty exactly when px.IsAssignable(expected, actual)               (clause empty-iff-assignable)
//   - a non-empty text names the subject it was given                                (clause names-subject)
// and for all (expected, value) of the type pool x value pool
//   - px.AssertInstance raises a reported PCORE_TYPE_MISMATCH exactly when the value is not an instance,
//     and nothing else escapes                                                       (clause assert-iff-not-instance / total)
//   - px.DetailedValueType(value) does not crash                                     (clause detailed-never-fails)
//   - the raised message names the subject                                           (clause names-subject)
// M (model tie): the describer's structured result (px.VerifDescribe: class and path of every mismatch)
// and the outcome of AssertType / AssertInstance are compared with coq/Model/Describe.v by vm_compute.
// ext.go: the same clauses on the types outside the lattice universe (Callable with parameters, return type
// and block, Init, Like, TypeReference, Iterator, Runtime, aliases, Object), and the model tie of the
// Callable describer (coq/Model/DescribeCallable.v, px.VerifDescribeTyped).
// alias.go: expected types that are graphs of type aliases (fan-in, cycles), every call in a child process under a
// deadline (a call that does not return violates clause total), and the model tie of the walk that describe makes
// over the expected type (coq/Model/DescribeWalk.v).
// hist.go: histories of calls on the same type and value objects under different subjects through every entry point
// (coq/Model/DescribeHist.v).
package main

import (
	"bytes"
	"encoding/json"
	"fmt"
	"os"
	"runtime"
	"sort"
	"strconv"
	"strings"

	"github.com/lyraproj/issue/issue"
	"github.com/lyraproj/pcore/pcore"
	"github.com/lyraproj/pcore/px"
	"github.com/lyraproj/pcore/types"
	"verifharness/lat"
	"verifharness/lib"
)

const subject = "the_subject"

func main() {
	cfg := lib.ParseFlags()
	res := lib.NewResult("C19")
	res.Rule = "types: the lattice pool (atoms of every scalar kind with boundary ranges + every constructor applied to an element sub-pool, " +
		"incl. empty Variant, Tuples with/without size and fewer/more slots, Structs with required/optional/undef-accepting members, " +
		"Data/RichData aliases, Callable, Unit) + nested describer targets + seeded random types of depth 2-3, each built twice; values: " +
		"generic pool + boundary witnesses of every pool type + hashes with unusual keys + types as values. ALL ordered type pairs and all " +
		"(type, value) pairs are evaluated on the implementation. A type pair is non-trivial when it is not assignable, neither side is " +
		"Any/Unit and the expected type has a describer of its own (Variant, Struct, Hash, Tuple, Array, Optional, Enum, Pattern); " +
		"distinct = distinct (expected, actual) recipes. Extended pool (ext.go): Callable with every combination of parameters tuple / " +
		"return type / block (bounded-exhaustive family + seeded random over random lattice types, blocks to depth 2), Init, Like, " +
		"TypeReference, Iterator, Iterable, Runtime, aliases of every described kind, Object and the parsed parameterised types, each also " +
		"below Optional/NotUndef/Type/Variant/Array/Tuple/Hash/Struct/Callable; all ordered pairs of it and both directions against a sample " +
		"of the lattice pool; non-trivial there: not assignable, expected not Any, actual neither Any nor Unit. Alias graphs (alias.go): " +
		"ladders of 1-48 alias levels with fan-in 1-4 through 7 constructors, chains, diamonds, wide fan-in, recursive and mutually recursive " +
		"aliases, seeded random graphs, built by constructor and by type declarations, against 9 actual types, a second copy of the graph and " +
		"3 values, in a child process under a deadline; non-trivial there: a not assignable (graph, actual type) pair. Pairs of two different " +
		"alias graphs (aliasPairs): every small graph against copies that differ in one leaf, two declarations of a self-recursive alias " +
		"(10 kinds) that differ in a leaf / a key / the constructor, mutually recursive pairs, ladders of different constructors, at the " +
		"top and below 7 constructors, both directions, as alias and resolved, in the child process with an 8 MB stack limit; non-trivial: " +
		"a not assignable pair of graphs"
	pcore.Do(func(c px.Context) {
		if *aworkerFlag {
			aworkerMain() // alias.go: the child process that makes the calls on alias graphs
			return
		}
		if cfg.Replay != "" {
			replay(cfg, res)
		} else {
			run(cfg, res)
		}
	})
	if *aworkerFlag {
		return
	}
	res.Write(cfg)
}

// ---- observing the implementation ----

type descObs struct {
	Text   string
	Crash  string
	MS     []px.VerifMismatch
	HCrash string // crash of the structured call
}

func crashText(r interface{}) string {
	if _, ok := r.(runtime.Error); ok {
		return fmt.Sprintf("runtime fault: %v", r)
	}
	return fmt.Sprintf("panic: %v", r)
}

func describe(e, a px.Type) (o descObs) {
	func() {
		defer func() {
			if r := recover(); r != nil {
				o.Crash = crashText(r)
			}
		}()
		o.Text = px.DescribeMismatch(subject, e, a)
	}()
	func() {
		defer func() {
			if r := recover(); r != nil {
				o.HCrash = crashText(r)
			}
		}()
		o.MS = px.VerifDescribe(subject, e, a)
	}()
	return
}

type assertObs struct {
	Returned bool
	Code     string // issue code when a Reported was raised
	Detail   string
	Crash    string // anything else that escaped
}

func observeAssert(f func()) (o assertObs) {
	defer func() {
		if r := recover(); r != nil {
			if rep, ok := r.(issue.Reported); ok {
				o.Code = string(rep.Code())
				if d, ok := rep.Argument(`detail`).(string); ok {
					o.Detail = d
				}
				return
			}
			o.Crash = crashText(r)
		}
	}()
	f()
	o.Returned = true
	return
}

func detailed(v px.Value) (t px.Type, crash string) {
	defer func() {
		if r := recover(); r != nil {
			crash = crashText(r)
			t = nil
		}
	}()
	return px.DetailedValueType(v), ""
}

// ---- Gallina printers of the observations ----

var classCtor = map[string]string{
	"countMismatch": "CCount", "missingKey": "CMissingKey", "missingRequiredBlock": "CMissingRequiredBlock",
	"extraneousKey": "CExtraneousKey", "patternMismatch": "CPattern", "sizeMismatch": "CSize", "typeMismatch": "CType",
	"unexpectedBlock": "CUnexpectedBlock", "unresolvedTypeReference": "CUnresolvedTypeReference"}

var kindCtor = map[string]string{"": "PSubject", "entry": "PEntry", "key of entry": "PEntryKey", "parameter": "PParameter",
	"return": "PReturn", "block": "PBlock", "index": "PIndex", "variant": "PVariant", "signature": "PSignature"}

func gMismatches(ms []px.VerifMismatch) string {
	gs := make([]string, len(ms))
	for i, m := range ms {
		ps := make([]string, len(m.Path))
		for j, pe := range m.Path {
			key := "(KName " + lib.GStr(pe.Key) + ")"
			if pe.Kind == "index" || pe.Kind == "variant" {
				if n, err := strconv.ParseUint(pe.Key, 10, 32); err == nil && strconv.FormatUint(n, 10) == pe.Key {
					key = "(KNum " + lib.GN(n) + ")"
				}
			}
			k, ok := kindCtor[pe.Kind]
			if !ok {
				k = "PSignature" // unknown kind: cannot match the model
			}
			ps[j] = "(" + k + ", " + key + ")"
		}
		c, ok := classCtor[m.Class]
		if !ok {
			c = "CUnresolvedTypeReference"
		}
		gs[i] = "(" + c + ", " + lib.GList(ps, "pelem") + ")"
	}
	return lib.GList(gs, "mismatch")
}

func gObserved(o descObs) string {
	if o.HCrash != "" {
		return "OCrash"
	}
	return "(OList " + gMismatches(o.MS) + ")"
}

// classes found in a message text, one per line, by the distinctive wording of every text() method
func textClasses(text string) []string {
	var out []string
	for _, l := range strings.Split(text, "\n") {
		switch {
		case strings.Contains(l, "expects a match for") || strings.Contains(l, "expects an undef value or a match for"):
			out = append(out, "patternMismatch")
		case strings.Contains(l, "expects size to be"):
			out = append(out, "sizeMismatch")
		case strings.Contains(l, "expects a value for key '"):
			out = append(out, "missingKey")
		case strings.Contains(l, "unrecognized key '"):
			out = append(out, "extraneousKey")
		case strings.Contains(l, "references an unresolved type"):
			out = append(out, "unresolvedTypeReference")
		case strings.Contains(l, "does not expect a block"):
			out = append(out, "unexpectedBlock")
		case strings.HasSuffix(l, "expects a block"):
			out = append(out, "missingRequiredBlock")
		case strings.Contains(l, " argument, got ") || strings.Contains(l, " arguments, got "):
			out = append(out, "countMismatch")
		case strings.Contains(l, "expects a value of type ") || (strings.Contains(l, "expects a") && strings.Contains(l, " value, got ")):
			out = append(out, "typeMismatch")
		default:
			out = append(out, "?")
		}
	}
	return out
}

func hasNewline(t *types.VerifTy) bool {
	if strings.Contains(t.S, "\n") {
		return true
	}
	for _, s := range t.Strs {
		if strings.Contains(s, "\n") {
			return true
		}
	}
	for _, s := range t.Names {
		if strings.Contains(s, "\n") {
			return true
		}
	}
	for _, e := range t.Ts {
		if hasNewline(e) {
			return true
		}
	}
	for _, e := range t.Keys {
		if hasNewline(e) {
			return true
		}
	}
	return false
}

// ---- the direct check of one type pair ----

var ownDescriber = map[string]bool{"Variant": true, "Struct": true, "Hash": true, "Tuple": true, "Array": true, "Optional": true,
	"Enum": true, "Pattern": true}

func pairTags(ek, ak, what string) []string {
	return []string{what + ":" + ek + "<-" + ak}
}

// checkPair evaluates the clauses of the property on (e, a); asg is IsAssignable(e, a) as observed.
func checkPair(res *lib.Result, e, a px.Type, de, da *types.VerifTy, asg bool, input map[string]interface{}, et, at string) descObs {
	o := describe(e, a)
	if o.Crash != "" {
		res.Violate(lib.Violation{Clause: "total", What: fmt.Sprintf("DescribeMismatch(%s, %s): %s", et, at, o.Crash), Input: input,
			Tags: pairTags(de.K, da.K, "crash")})
		return o
	}
	if (o.Text == "") != asg {
		what := "empty-not-assignable"
		if asg {
			what = "assignable-not-empty"
		}
		res.Violate(lib.Violation{Clause: "empty-iff-assignable",
			What:  fmt.Sprintf("IsAssignable(%s, %s) = %v but DescribeMismatch = %q", et, at, asg, o.Text),
			Input: input, Tags: pairTags(de.K, da.K, what)})
	}
	if o.Text != "" && !strings.Contains(o.Text, subject) {
		res.Violate(lib.Violation{Clause: "names-subject", What: fmt.Sprintf("DescribeMismatch(%q, %s, %s) = %q does not name the subject", subject, et, at, o.Text),
			Input: input, Tags: pairTags(de.K, da.K, "nosubject")})
	}
	// the structured result must be what the text was formatted from
	if o.HCrash != "" {
		res.Violate(lib.Violation{Clause: "total", What: fmt.Sprintf("describe(%s, %s): %s", et, at, o.HCrash), Input: input,
			Tags: pairTags(de.K, da.K, "crash")})
	} else if !hasNewline(de) && !hasNewline(da) {
		tc := textClasses(o.Text)
		if o.Text == "" {
			tc = nil
		}
		same := len(tc) == len(o.MS)
		for i := 0; same && i < len(tc); i++ {
			same = tc[i] == o.MS[i].Class
		}
		if !same {
			res.Violate(lib.Violation{Clause: "text-vs-structure",
				What:  fmt.Sprintf("DescribeMismatch(%s, %s): the text %q has the classes %v, the describer returned %v", et, at, o.Text, tc, o.MS),
				Input: input, Tags: pairTags(de.K, da.K, "text")})
		}
	}
	return o
}

func checkAssert(res *lib.Result, e px.Type, v px.Value, de *types.VerifTy, inst bool, input map[string]interface{}, et, vt string) assertObs {
	o := observeAssert(func() { px.AssertInstance(subject, e, v) })
	switch {
	case o.Crash != "":
		res.Violate(lib.Violation{Clause: "total", What: fmt.Sprintf("AssertInstance(%s, %s): %s", et, vt, o.Crash), Input: input,
			Tags: []string{"crash-assert:" + de.K}})
	case o.Returned != inst || (!o.Returned && o.Code != string(px.TypeMismatch)):
		res.Violate(lib.Violation{Clause: "assert-iff-not-instance",
			What:  fmt.Sprintf("IsInstance(%s, %s) = %v but AssertInstance returned=%v issue=%q", et, vt, inst, o.Returned, o.Code),
			Input: input, Tags: []string{"assert:" + de.K}})
	case !o.Returned && !strings.Contains(o.Detail, subject):
		res.Violate(lib.Violation{Clause: "names-subject", What: fmt.Sprintf("AssertInstance(%q, %s, %s) raised %q which does not name the subject", subject, et, vt, o.Detail),
			Input: input, Tags: []string{"assert-nosubject:" + de.K}})
	}
	return o
}

// ---- extra pool: nested targets of the describers and hashes with unusual keys ----

func extraSpecs() []*lat.Spec {
	I := lat.Int(lat.Min, lat.Max)
	S := lat.A("String")
	opt := func(t *lat.Spec) *lat.Spec { return lat.W("Optional", t) }
	st := func(ms ...lat.Member) *lat.Spec { return lat.Struct(ms...) }
	return []*lat.Spec{
		// variants below optionals (describeVariantType appends Undef), nested variants, merges by class
		opt(lat.Var(I, S)), opt(lat.Var(lat.Int(0, 5), lat.Int(7, 9))), opt(lat.Var()), lat.Var(opt(I), S),
		lat.Var(lat.Arr(I, 1, 2), lat.Arr(I, 4, 5)), lat.Var(lat.Arr(I, 1, 2), lat.Hsh(S, I, 4, 5)),
		lat.Var(lat.Arr(I, 0, lat.Max), lat.Arr(S, 0, lat.Max)), lat.Var(lat.Var(I, S), lat.A("FloatDefault")),
		lat.Var(st(lat.Member{"a", 0, I}), st(lat.Member{"b", 0, I})), lat.Var(lat.Enum(false, "a"), lat.Pat("b")),
		lat.Var(lat.Tup(I, S), lat.Tup(S, I)), lat.Arr(lat.Var(I, S), 0, lat.Max), lat.Arr(lat.Var(), 0, lat.Max),
		lat.Arr(opt(lat.Var(I, S)), 0, lat.Max), lat.Hsh(S, lat.Var(I, S), 0, lat.Max), lat.Hsh(lat.Var(lat.StrVal("a"), lat.StrVal("b")), I, 0, lat.Max),
		// tuples of tuples / arrays, actual tuples longer than the expected slots
		lat.Tup(lat.Tup(I, S), S), lat.Tup(lat.Tup(S, S), S), lat.TupSz(1, 4, I, S), lat.TupSz(1, 4, S, S), lat.Tup(I, S, S, S), lat.Tup(I, S, S, I),
		lat.Tup(I, I, I), lat.TupSz(1, 3, I), lat.TupSz(0, 3, I, lat.Var(I, S)), lat.Tup(lat.Arr(I, 0, lat.Max)), lat.Tup(lat.Arr(S, 0, lat.Max)),
		lat.Arr(lat.Tup(I, I), 0, lat.Max), lat.Arr(lat.Arr(I, 0, lat.Max), 0, lat.Max), lat.Arr(lat.Arr(S, 0, 2), 0, lat.Max),
		lat.Tup(lat.Var(I, S), lat.Var(I, S)), lat.Tup(opt(I)), lat.Tup(st(lat.Member{"a", 0, I})),
		// nested structs, missing / extraneous / optional keys at depth
		st(lat.Member{"a", 0, st(lat.Member{"b", 0, S})}), st(lat.Member{"a", 0, st(lat.Member{"b", 0, I}, lat.Member{"c", 0, I})}),
		st(lat.Member{"a", 0, st()}), st(lat.Member{"a", 1, st(lat.Member{"b", 1, I})}),
		st(lat.Member{"a", 0, I}, lat.Member{"b", 0, S}, lat.Member{"c", 0, I}), st(lat.Member{"c", 0, I}, lat.Member{"d", 0, I}),
		st(lat.Member{"a", 0, lat.Var(I, S)}), st(lat.Member{"a", 0, lat.Tup(I, S)}), st(lat.Member{"a", 0, lat.Hsh(S, I, 0, lat.Max)}),
		st(lat.Member{"a", 1, I}, lat.Member{"b", 0, S}), st(lat.Member{"a", 2, opt(I)}, lat.Member{"b", 2, opt(S)}),
		lat.Hsh(S, st(lat.Member{"a", 0, I}), 0, lat.Max), lat.Hsh(lat.Enum(false, "a", "b"), lat.Int(0, 5), 0, lat.Max),
		lat.Hsh(lat.StrVal("a"), I, 0, lat.Max), lat.Hsh(opt(S), I, 0, lat.Max), lat.Hsh(lat.Pat("^a+$"), opt(I), 1, 2),
		opt(st(lat.Member{"a", 0, I})), opt(lat.Tup(I, S)), opt(lat.Arr(I, 1, 2)), opt(lat.Hsh(S, I, 1, 2)), opt(opt(lat.Var(I, S))),
		lat.W("NotUndef", lat.Var(I, S)), lat.W("NotUndef", opt(I)), lat.W("Type", lat.Var(I, S)), lat.W("Sensitive", lat.Tup(I, S)),
		opt(lat.Enum(false, "a", "b")), opt(lat.Pat("^a+$")), lat.Var(lat.Enum(false, "a", "b"), lat.Enum(false, "c")),
	}
}

func extraValues() []*lat.VSpec {
	VS, VI, VH, VA, VU := lat.VS, lat.VI, lat.VH, lat.VA, lat.VU
	return []*lat.VSpec{
		// hashes with unusual keys: empty, undef, integer, float, boolean, array, hash, type, mixed, multi-byte
		VH(VS(""), VI(1)), VH(VU(), VI(1)), VH(VI(1), VI(1), VI(2), VI(2)), VH(lat.VF(1.5), VS("x")), VH(lat.VB(true), VI(1)),
		VH(VA(VI(1), VI(2)), VS("x")), VH(VH(VS("a"), VI(1)), VI(1)), VH(lat.VT(lat.A("String")), VI(1)), VH(VS("a"), VI(1), VI(2), VS("b")),
		VH(VS("é"), VI(1)), VH(VS("a b"), VI(1)), VH(VS("a"), VI(1), VU(), VI(2)), VH(&lat.VSpec{K: "Default"}, VI(1)),
		VH(VS("a"), VH(VS("b"), VS("x"))), VH(VS("a"), VH(VS("b"), VI(1), VS("c"), VI(2))), VH(VS("a"), VA(VI(1), VS("x"))),
		VA(VA(VI(1), VS("a")), VS("b")), VA(VA(VS("a"), VS("a")), VS("b")), VA(VI(1), VS("a"), VS("b"), VI(2)), VA(VI(1), VS("a"), VS("b"), VS("c")),
		VA(VH(VS("a"), VI(1))), VA(VA(VI(1), VI(2))), VA(VA(VS("a"))), VA(VU(), VU()),
	}
}

// ---- run ----

func run(cfg *lib.Config, res *lib.Result) {
	rng := lib.NewRng(cfg.Seed)
	nRandom, coqDesc, coqAssert := 150, 2400, 1200
	if cfg.Thorough() {
		nRandom, coqDesc, coqAssert = 1200, 12000, 6000
	}
	u := lat.NewUniverse(rng, nRandom, 0)
	addSpecs(u, extraSpecs())
	addValues(u, extraValues())
	if os.Getenv("C19_PART") == "alias" { // development aid: only the alias graphs
		runAlias(cfg, res, rng, u)
		return
	}
	if os.Getenv("C19_PART") == "hist" { // development aid: only the histories
		runHist(cfg, res, rng)
		return
	}
	u.FillInst()
	u.FillAsg()
	for _, c := range u.Crashes {
		// IsAssignable / IsInstance crashing is another property's business (C01/C02); it makes the pair unusable here
		res.Count("lattice-crash." + c.Tags[0])
	}
	nT, nV := len(u.L), len(u.V)
	res.Extra["types"] = nT
	res.Extra["values"] = nV

	// ---- D on all type pairs
	type pair struct{ a, b int }
	buckets := map[string][]pair{} // model-fragment pairs by (expected kind, actual kind, assignable?)
	equalNotAssignable := 0
	for a := 0; a < nT; a++ {
		for b := 0; b < nT; b++ {
			res.Evaluations++
			asg := u.Asg[a][b]
			in := map[string]interface{}{"kind": "desc", "a": u.Specs[a], "b": u.Specs[b]}
			o := checkPair(res, u.L[a], u.R[b], u.Dec[a], u.Dec[b], asg, in, u.Text[a], u.Text[b])
			ek, ak := u.Dec[a].K, u.Dec[b].K
			if asg {
				res.Count("pair.assignable")
			} else {
				res.Count("pair.not-assignable." + ek)
				for _, m := range o.MS {
					res.Count("class." + m.Class)
				}
				if len(o.MS) > 1 {
					res.Count("pair.several-mismatches")
				}
				if ek != "Any" && ek != "Unit" && ak != "Any" && ak != "Unit" && ownDescriber[ek] {
					res.Nontrivial(fmt.Sprintf("%d/%d", a, b))
				}
			}
			if ek == "Tuple" && ak == "Tuple" && !asg {
				if eq, _ := lat.Guarded(func() bool { return u.L[a].Equals(u.R[b], nil) }); eq {
					equalNotAssignable++
				}
			}
			if u.InM[a] && u.InM[b] {
				k := ek + "<-" + ak
				if asg {
					k += "+"
				}
				buckets[k] = append(buckets[k], pair{a, b})
				if len(o.MS) > 1 || (len(o.MS) == 1 && len(o.MS[0].Path) > 1) {
					buckets["deep:"+ek] = append(buckets["deep:"+ek], pair{a, b})
				}
			}
		}
	}
	res.Extra["tuple_pairs_equal_but_not_assignable"] = equalNotAssignable

	// ---- D on all (type, value) pairs
	dts := make([]px.Type, nV)
	dtDec := make([]*types.VerifTy, nV)
	for v := 0; v < nV; v++ {
		res.Evaluations++
		t, crash := detailed(u.V[v])
		if crash != "" || t == nil {
			res.Violate(lib.Violation{Clause: "detailed-never-fails", What: fmt.Sprintf("DetailedValueType(%s): %s", lat.ValText(u.V[v]), crash),
				Input: map[string]interface{}{"kind": "detailed", "v": u.VSpec[v]}, Tags: []string{"detailed:" + u.VDec[v].K}})
			continue
		}
		dts[v] = t
		dtDec[v] = types.VerifDecodeType(t)
	}
	type tv struct{ t, v int }
	var raised, returned, raisedFallback []tv // raisedFallback: raised although the inferred type is accepted
	emptyForNonInstance := 0
	for t := 0; t < nT; t++ {
		for v := 0; v < nV; v++ {
			res.Evaluations++
			in := map[string]interface{}{"kind": "assert", "t": u.Specs[t], "v": u.VSpec[v]}
			o := checkAssert(res, u.L[t], u.V[v], u.Dec[t], u.Inst[t][v], in, u.Text[t], lat.ValText(u.V[v]))
			if o.Returned {
				res.Count("assert.returned")
			} else if o.Crash == "" {
				res.Count("assert.raised." + o.Code)
				if strings.TrimSpace(o.Detail) == "" {
					emptyForNonInstance++
				}
			}
			if u.InM[t] && u.VInM[v] && dts[v] != nil && lat.InModel(dtDec[v]) {
				if o.Returned {
					returned = append(returned, tv{t, v})
				} else if ok, _ := lat.Guarded(func() bool { return px.IsAssignable(u.L[t], dts[v]) }); ok {
					raisedFallback = append(raisedFallback, tv{t, v})
				} else {
					raised = append(raised, tv{t, v})
				}
			}
		}
	}
	// not demanded by the property as stated for AssertInstance (it depends on the precision of the inferred type,
	// property C04): how often a non-instance got an empty detail
	res.Extra["nonInstance_with_empty_detail"] = emptyForNonInstance
	res.Extra["nonInstance_whose_inferred_type_is_accepted"] = len(raisedFallback)

	// ---- M: describe cases, stratified over the (expected kind, actual kind, verdict) buckets
	keys := make([]string, 0, len(buckets))
	for k := range buckets {
		keys = append(keys, k)
	}
	sort.Strings(keys)
	var sampled []pair
	// half of the budget goes to pairs whose description has several mismatches or a mismatch below the
	// subject ("deep:" buckets, by expected kind), 3/10 to the other non-assignable pairs, 2/10 to assignable
	// pairs; within a group every (expected kind, actual kind) bucket gets the same share
	groups := map[string][]string{}
	for _, k := range keys {
		g := "shallow"
		if strings.HasPrefix(k, "deep:") {
			g = "deep"
		} else if strings.HasSuffix(k, "+") {
			g = "assignable"
		}
		groups[g] = append(groups[g], k)
	}
	share := map[string]int{"deep": coqDesc * 5 / 10, "shallow": coqDesc * 3 / 10, "assignable": coqDesc * 2 / 10}
	for _, g := range []string{"deep", "shallow", "assignable"} {
		ks := groups[g]
		if len(ks) == 0 {
			continue
		}
		per := share[g] / len(ks)
		if per < 1 {
			per = 1
		}
		for _, k := range ks {
			ps := buckets[k]
			n := per
			if g == "shallow" && ownDescriber[k[:strings.Index(k, "<-")]] {
				n = 2 * per
			}
			for i := 0; i < n; i++ {
				sampled = append(sampled, ps[rng.Intn(len(ps))])
			}
		}
	}
	// shuffle so that every shard sees every group
	for i := len(sampled) - 1; i > 0; i-- {
		j := rng.Intn(i + 1)
		sampled[i], sampled[j] = sampled[j], sampled[i]
	}
	shards, ishards := 4, 2
	if cfg.Thorough() {
		shards, ishards = 8, 4
	}
	for s := 0; s < shards; s++ {
		cf := newDescCases()
		pats, strs := map[string]bool{}, map[string]bool{}
		for i := s; i < len(sampled); i += shards {
			p := sampled[i]
			o := describe(u.L[p.a], u.R[p.b])
			addDescCase(cf, pats, strs, u.Dec[p.a], u.Dec[p.b], o, map[string]interface{}{"kind": "desc", "a": u.Specs[p.a], "b": u.Specs[p.b]})
		}
		cf.Prelude = lat.Oracle(pats, strs)
		res.CorrFiles = append(res.CorrFiles, cf.WriteTo(cfg.Out, fmt.Sprintf("cases_desc_%d", s)))
	}
	for i := 0; i < 5 && i < len(sampled); i++ {
		p := sampled[(i*7919+len(sampled)/2)%len(sampled)]
		o := describe(u.L[p.a], u.R[p.b])
		res.Sample(map[string]interface{}{"expected": u.Text[p.a], "actual": u.Text[p.b], "assignable": u.Asg[p.a][p.b], "text": o.Text})
	}

	// ---- M: AssertType cases (a sample of the same pairs) and AssertInstance cases
	{
		cf := newATypeCases()
		pats, strs := map[string]bool{}, map[string]bool{}
		for i := 0; i < len(sampled) && len(cf.Cases) < coqAssert/3; i += 5 {
			p := sampled[i]
			o := observeAssert(func() { px.AssertType(subject, u.L[p.a], u.R[p.b]) })
			if hasNewline(u.Dec[p.a]) || hasNewline(u.Dec[p.b]) {
				continue
			}
			addAssertCase(cf, pats, strs, fmt.Sprintf("(%s, %s, %s, %s)", lib.GStr(subject), lat.GTy(u.Dec[p.a]), lat.GTy(u.Dec[p.b]), gAssert(o)),
				[]*types.VerifTy{u.Dec[p.a], u.Dec[p.b]}, nil, map[string]interface{}{"kind": "assert-type", "a": u.Specs[p.a], "b": u.Specs[p.b]})
		}
		cf.Prelude = lat.Oracle(pats, strs)
		res.CorrFiles = append(res.CorrFiles, cf.WriteTo(cfg.Out, "cases_assert_type"))
	}
	for s := 0; s < ishards; s++ {
		cf := newAInstCases()
		pats, strs := map[string]bool{}, map[string]bool{}
		n := coqAssert * 2 / 3 / ishards
		for i := 0; i < n; i++ {
			var x tv
			if i%8 == 1 && len(raisedFallback) > 0 {
				x = raisedFallback[rng.Intn(len(raisedFallback))]
			} else if i%3 == 0 && len(returned) > 0 {
				x = returned[rng.Intn(len(returned))]
			} else if len(raised) > 0 {
				x = raised[rng.Intn(len(raised))]
			} else {
				break
			}
			addAInst(cf, pats, strs, u.L[x.t], u.V[x.v], u.Dec[x.t], u.VDec[x.v], dts[x.v], dtDec[x.v],
				map[string]interface{}{"kind": "assert", "t": u.Specs[x.t], "v": u.VSpec[x.v]})
		}
		cf.Prelude = lat.Oracle(pats, strs)
		res.CorrFiles = append(res.CorrFiles, cf.WriteTo(cfg.Out, fmt.Sprintf("cases_assert_inst_%d", s)))
	}

	// ---- the types outside the lattice universe (ext.go)
	runExt(cfg, res, rng, u)

	// ---- expected types that are graphs of aliases, in a child process under a deadline (alias.go)
	runAlias(cfg, res, rng, u)

	// ---- histories of calls on the same objects (hist.go)
	runHist(cfg, res, rng)
}

// gAssert prints the observed outcome of an assertion; the classes come from the wording of the detail
func gAssert(o assertObs) string {
	switch {
	case o.Returned:
		return "AReturns"
	case o.Crash != "" || o.Code != string(px.TypeMismatch):
		return "ACrash"
	}
	cs := []string{}
	for _, c := range textClasses(o.Detail) {
		g, ok := classCtor[c]
		if !ok {
			g = "CUnresolvedTypeReference" // unknown wording: cannot match the model
		}
		cs = append(cs, g)
	}
	return "(ARaises " + lib.GList(cs, "mclass") + ")"
}

var imports = []string{"Model.Base", "Model.Ty", "Model.Lattice", "Model.Describe", "Corr.CorrC19"}

func newDescCases() *lib.CasesFile {
	return &lib.CasesFile{Imports: imports, Typ: "desc_case", Obligations: map[string]string{"describe_model": "desc_mismatches orc cases"}}
}
func newATypeCases() *lib.CasesFile {
	return &lib.CasesFile{Imports: imports, Typ: "atype_case", Obligations: map[string]string{"assert_type_model": "atype_mismatches orc cases"}}
}
func newAInstCases() *lib.CasesFile {
	return &lib.CasesFile{Imports: imports, Typ: "ainst_case", Obligations: map[string]string{"assert_instance_model": "ainst_mismatches orc cases"}}
}

func addDescCase(cf *lib.CasesFile, pats, strs map[string]bool, de, da *types.VerifTy, o descObs, in interface{}) {
	lat.TyStrings(de, pats, strs)
	lat.TyStrings(da, pats, strs)
	cf.Add(fmt.Sprintf("(%s, %s, %s, %s)", lib.GStr(subject), lat.GTy(de), lat.GTy(da), gObserved(o)), in)
}

func addAssertCase(cf *lib.CasesFile, pats, strs map[string]bool, term string, ts []*types.VerifTy, vs []*types.VerifVal, in interface{}) {
	for _, t := range ts {
		lat.TyStrings(t, pats, strs)
	}
	for _, v := range vs {
		lat.ValStrings(v, pats, strs)
	}
	cf.Add(term, in)
}

func addAInst(cf *lib.CasesFile, pats, strs map[string]bool, e px.Type, v px.Value, de *types.VerifTy, dv *types.VerifVal, dt px.Type, ddt *types.VerifTy, in interface{}) {
	o := observeAssert(func() { px.AssertInstance(subject, e, v) })
	if hasNewline(de) || hasNewline(ddt) {
		return
	}
	addAssertCase(cf, pats, strs, fmt.Sprintf("(%s, %s, %s, %s, %s)", lib.GStr(subject), lat.GTy(de), lat.GVal(dv), lat.GTy(ddt), gAssert(o)),
		[]*types.VerifTy{de, ddt}, []*types.VerifVal{dv}, in)
}

// addSpecs / addValues extend the universe of package lat with recipes of this property
func addSpecs(u *lat.Universe, specs []*lat.Spec) {
	seen := map[string]bool{}
	for _, s := range u.Specs {
		seen[s.String()] = true
	}
	for _, s := range specs {
		if seen[s.String()] {
			continue
		}
		seen[s.String()] = true
		var l, r px.Type
		_, crash := lat.Guarded(func() bool { l = s.Build(); r = s.Build(); return true })
		if crash != "" || l == nil {
			continue
		}
		u.Specs = append(u.Specs, s)
		u.L = append(u.L, l)
		u.R = append(u.R, r)
		d := types.VerifDecodeType(l)
		u.Dec = append(u.Dec, d)
		u.InM = append(u.InM, lat.InModel(d))
		txt := ""
		lat.Guarded(func() bool { txt = l.String(); return true })
		u.Text = append(u.Text, txt)
	}
}

func addValues(u *lat.Universe, vs []*lat.VSpec) {
	seen := map[string]bool{}
	for _, v := range u.VSpec {
		seen[v.String()] = true
	}
	for _, v := range vs {
		if seen[v.String()] {
			continue
		}
		seen[v.String()] = true
		var pv px.Value
		_, crash := lat.Guarded(func() bool { pv = v.Build(); return true })
		if crash != "" || pv == nil {
			continue
		}
		u.VSpec = append(u.VSpec, v)
		u.V = append(u.V, pv)
		d := types.VerifDecodeValue(pv)
		u.VDec = append(u.VDec, d)
		u.VInM = append(u.VInM, lat.ValInModel(d))
	}
}

// ---- replay ----

// replayInputs reads the input(s) of a replay file keeping integers exact (lib.ReplayInputs decodes numbers
// as float64, which loses the int64 bounds of Integer types)
func replayInputs(path string) []interface{} {
	b, err := os.ReadFile(path)
	if err != nil {
		panic(err)
	}
	dec := json.NewDecoder(bytes.NewReader(b))
	dec.UseNumber()
	var body map[string]interface{}
	if err := dec.Decode(&body); err != nil {
		panic(err)
	}
	switch in := body["input"].(type) {
	case []interface{}:
		return in
	case nil:
		return nil
	default:
		return []interface{}{in}
	}
}

func replay(cfg *lib.Config, res *lib.Result) {
	dcf, tcf, icf, ccf, wcf, acf := newDescCases(), newATypeCases(), newAInstCases(), newCallableCases(), newWalkCases(), newActualCases()
	pats, strs := map[string]bool{}, map[string]bool{}
	ohcf, nhcf, xhcf := newOHistCases(), newNHistCases(), newXHistCases()
	hpats, hstrs := map[string]bool{}, map[string]bool{}
	for _, in := range replayInputs(cfg.Replay) {
		if replayAlias(res, in, wcf, acf) {
			continue
		}
		if replayHist(res, in, ohcf, nhcf, xhcf, hpats, hstrs) {
			continue
		}
		if replayExt(res, in, ccf, pats, strs) {
			res.Evaluations++
			continue
		}
		var x struct {
			Kind string     `json:"kind"`
			A    *lat.Spec  `json:"a"`
			B    *lat.Spec  `json:"b"`
			T    *lat.Spec  `json:"t"`
			V    *lat.VSpec `json:"v"`
		}
		lib.Remarshal(in, &x)
		res.Evaluations++
		inm := in.(map[string]interface{})
		switch x.Kind {
		case "desc", "assert-type":
			e, a := x.A.Build(), x.B.Build()
			de, da := types.VerifDecodeType(e), types.VerifDecodeType(a)
			asg, crash := lat.Guarded(func() bool { return px.IsAssignable(e, a) })
			fmt.Printf("expected = %s\nactual   = %s\nIsAssignable = %v %s\n", e, a, asg, crash)
			before := len(res.Violations)
			o := checkPair(res, e, a, de, da, asg, inm, e.String(), a.String())
			fmt.Printf("DescribeMismatch = %q %s\nstructured = %v %s\n", o.Text, o.Crash, o.MS, o.HCrash)
			ao := observeAssert(func() { px.AssertType(subject, e, a) })
			fmt.Printf("AssertType: returned=%v issue=%q detail=%q %s\n", ao.Returned, ao.Code, ao.Detail, ao.Crash)
			if len(res.Violations) > before {
				fmt.Println("FAILS: " + res.Violations[before].What)
			} else {
				fmt.Println("the clauses of the property hold on this pair")
			}
			if lat.InModel(de) && lat.InModel(da) {
				addDescCase(dcf, pats, strs, de, da, o, in)
				addAssertCase(tcf, pats, strs, fmt.Sprintf("(%s, %s, %s, %s)", lib.GStr(subject), lat.GTy(de), lat.GTy(da), gAssert(ao)),
					[]*types.VerifTy{de, da}, nil, in)
			}
		case "assert":
			e, v := x.T.Build(), x.V.Build()
			de, dv := types.VerifDecodeType(e), types.VerifDecodeValue(v)
			inst, crash := lat.Guarded(func() bool { return px.IsInstance(e, v) })
			fmt.Printf("expected = %s\nvalue    = %s\nIsInstance = %v %s\n", e, lat.ValText(v), inst, crash)
			before := len(res.Violations)
			o := checkAssert(res, e, v, de, inst, inm, e.String(), lat.ValText(v))
			fmt.Printf("AssertInstance: returned=%v issue=%q detail=%q %s\n", o.Returned, o.Code, o.Detail, o.Crash)
			dt, dcrash := detailed(v)
			fmt.Printf("DetailedValueType = %v %s\n", dt, dcrash)
			if len(res.Violations) > before {
				fmt.Println("FAILS: " + res.Violations[before].What)
			} else {
				fmt.Println("the clauses of the property hold on this pair")
			}
			if dt != nil {
				ddt := types.VerifDecodeType(dt)
				if lat.InModel(de) && lat.ValInModel(dv) && lat.InModel(ddt) {
					addAInst(icf, pats, strs, e, v, de, dv, dt, ddt, in)
				}
			}
		case "detailed":
			v := x.V.Build()
			dt, dcrash := detailed(v)
			fmt.Printf("value = %s\nDetailedValueType = %v %s\n", lat.ValText(v), dt, dcrash)
			if dcrash != "" {
				res.Violate(lib.Violation{Clause: "detailed-never-fails", What: fmt.Sprintf("DetailedValueType(%s): %s", lat.ValText(v), dcrash), Input: in})
			}
		}
	}
	orc := lat.Oracle(pats, strs)
	for _, c := range []struct {
		cf   *lib.CasesFile
		name string
	}{{dcf, "cases_desc_replay"}, {tcf, "cases_assert_type_replay"}, {icf, "cases_assert_inst_replay"}, {ccf, "cases_callable_replay"}} {
		if len(c.cf.Cases) > 0 {
			c.cf.Prelude = orc
			res.CorrFiles = append(res.CorrFiles, c.cf.WriteTo(cfg.Out, c.name))
		}
	}
	if len(wcf.Cases) > 0 {
		res.CorrFiles = append(res.CorrFiles, wcf.WriteTo(cfg.Out, "cases_walk_replay"))
	}
	if len(acf.Cases) > 0 {
		res.CorrFiles = append(res.CorrFiles, acf.WriteTo(cfg.Out, "cases_actual_replay"))
	}
	if len(ohcf.Cases) > 0 {
		ohcf.Prelude = histPrelude()
		res.CorrFiles = append(res.CorrFiles, ohcf.WriteTo(cfg.Out, "cases_hist_replay"))
	}
	if len(nhcf.Cases) > 0 {
		nhcf.Prelude = lat.Oracle(hpats, hstrs) + histPrelude()
		res.CorrFiles = append(res.CorrFiles, nhcf.WriteTo(cfg.Out, "cases_nhist_replay"))
	}
	if len(xhcf.Cases) > 0 {
		xhcf.Prelude = lat.Oracle(hpats, hstrs) + histPrelude()
		res.CorrFiles = append(res.CorrFiles, xhcf.WriteTo(cfg.Out, "cases_xhist_replay"))
	}
}
