// hist.go: HISTORIES of describe calls. The same expected / actual type OBJECTS and value OBJECTS are checked again and
// again with different subjects (strings, label functions, a prefix that is neither) through every entry point
// (px.DescribeMismatch, the structured describe, px.AssertType, px.TypeMismatchError, px.AssertInstance, px.MismatchError);
// named types (aliases built by constructor and declared through the parser, named Object types) on the expected side
// at the top and nested.
//
// D, on every call of every history: nothing escapes, the description is empty exactly when IsAssignable, an assertion
// raises PCORE_TYPE_MISMATCH exactly when not assignable / not an instance, and every line of a non-empty answer names
// the subject that THIS call was given (clause names-subject: a line that names the subject of another call of the
// history does not name the subject it was given).
// M: (1) cases_hist: the generic state-passing model of Model/DescribeHist.v, instantiated with what the implementation
// answers when each call is made ALONE on freshly built objects, must reproduce the answers observed in the history;
// (2) cases_nhist: histories whose expected objects are chains of aliases over lattice types, against the model of the
// describer for named types (the model is the answer of a fresh process).
package main

import (
	"encoding/json"
	"fmt"
	"strings"

	"github.com/lyraproj/pcore/px"
	"github.com/lyraproj/pcore/types"
	"verifharness/lat"
	"verifharness/lib"
)

// ---- recipes ----

// HE is an expected type object: a constructor recipe, or declarations `type %N0 = ...` (the names %N0..%N9 are
// replaced by names that are new for every build) followed by a type expression for the type parser
type HE struct {
	X     *XSpec   `json:"x,omitempty"`
	Decl  []string `json:"decl,omitempty"`
	Parse string   `json:"parse,omitempty"`
}

// Decl: declarations `type %W0 = ...` shared by the expected objects of the world (the SAME named type at several places)
type HWorld struct {
	Decl []string     `json:"decl,omitempty"`
	E    []*HE        `json:"e"`
	A    []*XSpec     `json:"a"`
	V    []*lat.VSpec `json:"v"`
}

// HCall: Entry = describe | structured | assert-type | assert-type-label | assert-type-other | type-mismatch-error
// (X = index of the actual type object) | assert-instance | assert-instance-label | mismatch-error (X = index of the
// value object)
type HCall struct {
	Entry string `json:"entry"`
	Subj  string `json:"subj"`
	E     int    `json:"e"`
	X     int    `json:"x"`
}

type HSpec struct {
	Fam   string  `json:"fam"`
	World *HWorld `json:"world"`
	Calls []HCall `json:"calls"`
}

var typeEntries = []string{"describe", "structured", "assert-type", "assert-type-label", "type-mismatch-error", "assert-type-other"}
var valueEntries = []string{"assert-instance", "assert-instance-label", "mismatch-error"}
var histSubjects = []string{"connect", "listen", "attribute primary", "parameter tcp", "lazy label", "Subj_6"}

func isValueEntry(e string) bool {
	return e == "assert-instance" || e == "assert-instance-label" || e == "mismatch-error"
}

// the name that getPrefix makes of the prefix this call passes
func (c HCall) name() string {
	if c.Entry == "assert-type-other" {
		return ""
	}
	return c.Subj
}

func (c HCall) pfx() interface{} {
	switch c.Entry {
	case "assert-type-label", "assert-instance-label":
		s := c.Subj
		return func() string { return s }
	case "assert-type-other":
		return 42
	}
	return c.Subj
}

var histCounter = 0

func histSubst(s, mark string, k int) string {
	for i := 9; i >= 0; i-- {
		s = strings.ReplaceAll(s, fmt.Sprintf("%%%s%d", mark, i), fmt.Sprintf("Vh%d%s%d", k, mark, i))
	}
	return s
}

// wk: the number of the world (its declarations are %W0..%W9)
func (e *HE) build(wk int) px.Type {
	if e.X != nil {
		return e.X.Build()
	}
	histCounter++
	k := histCounter
	subst := func(s string) string { return histSubst(histSubst(s, "N", k), "W", wk) }
	c := px.CurrentContext()
	if len(e.Decl) > 0 {
		decl := make([]px.Type, len(e.Decl))
		for i, d := range e.Decl {
			decl[i] = types.Parse(subst(d)).(px.Type)
		}
		px.AddTypes(c, decl...)
	}
	return c.ParseType(subst(e.Parse))
}

type hObjects struct {
	E []px.Type
	A []px.Type
	V []px.Value
}

func (w *HWorld) build() *hObjects {
	o := &hObjects{}
	histCounter++
	wk := histCounter
	if len(w.Decl) > 0 {
		decl := make([]px.Type, len(w.Decl))
		for i, d := range w.Decl {
			decl[i] = types.Parse(histSubst(d, "W", wk)).(px.Type)
		}
		px.AddTypes(px.CurrentContext(), decl...)
	}
	for _, e := range w.E {
		o.E = append(o.E, e.build(wk))
	}
	for _, a := range w.A {
		o.A = append(o.A, a.Build())
	}
	for _, v := range w.V {
		o.V = append(o.V, v.Build())
	}
	return o
}

// ---- observing one call ----

type hLine struct{ Class, Key string }

type hObs struct {
	Kind       string // desc | text | returned | raised | crash
	MS         []px.VerifMismatch
	Lines      []hLine
	Text       string
	Code       string
	Crash      string
	Truth      bool // IsAssignable(E, A) / IsInstance(E, V) asked right before the call
	TruthCrash string
}

// the subject key `function <s>:` that heads a line of a description, s one of the subjects of the history
func lineKey(line string, subjects []string) string {
	best, found := "", false
	for _, s := range append([]string{""}, subjects...) {
		if strings.HasPrefix(line, " function "+s+":") && (!found || len(s) > len(best)) {
			best, found = s, true
		}
	}
	if !found {
		return "?"
	}
	return "function " + best + ":"
}

func textLines(text string, subjects []string) []hLine {
	if text == "" {
		return nil
	}
	cs := textClasses(text)
	ls := strings.Split(text, "\n")
	out := make([]hLine, len(ls))
	for i, l := range ls {
		out[i] = hLine{cs[i], lineKey(l, subjects)}
	}
	return out
}

func hcall(o *hObjects, c HCall, subjects []string) (ob hObs) {
	e := o.E[c.E]
	if isValueEntry(c.Entry) {
		v := o.V[c.X]
		ob.Truth, ob.TruthCrash = lat.Guarded(func() bool { return px.IsInstance(e, v) })
		var ao assertObs
		switch c.Entry {
		case "mismatch-error":
			ao = observeAssert(func() { panic(px.MismatchError(c.pfx(), e, v)) })
		default:
			ao = observeAssert(func() { px.AssertInstance(c.pfx(), e, v) })
		}
		return assertToObs(ob, ao, subjects)
	}
	a := o.A[c.X]
	ob.Truth, ob.TruthCrash = lat.Guarded(func() bool { return px.IsAssignable(e, a) })
	switch c.Entry {
	case "describe":
		func() {
			defer func() {
				if r := recover(); r != nil {
					ob.Kind, ob.Crash = "crash", crashText(r)
				}
			}()
			ob.Text = px.DescribeMismatch(c.Subj, e, a)
			ob.Kind = "text"
			ob.Lines = textLines(ob.Text, subjects)
		}()
	case "structured":
		func() {
			defer func() {
				if r := recover(); r != nil {
					ob.Kind, ob.Crash = "crash", crashText(r)
				}
			}()
			ob.MS = px.VerifDescribe(c.Subj, e, a)
			ob.Kind = "desc"
		}()
	case "type-mismatch-error":
		return assertToObs(ob, observeAssert(func() { panic(px.TypeMismatchError(c.pfx(), e, a)) }), subjects)
	default: // assert-type, assert-type-label, assert-type-other
		return assertToObs(ob, observeAssert(func() { px.AssertType(c.pfx(), e, a) }), subjects)
	}
	return
}

func assertToObs(ob hObs, ao assertObs, subjects []string) hObs {
	switch {
	case ao.Returned:
		ob.Kind = "returned"
	case ao.Crash != "":
		ob.Kind, ob.Crash = "crash", ao.Crash
	default:
		ob.Kind, ob.Code, ob.Text = "raised", ao.Code, ao.Detail
		ob.Lines = textLines(ao.Detail, subjects)
	}
	return ob
}

// the subject keys of the non-empty answer
func (ob hObs) keys() []string {
	var ks []string
	if ob.Kind == "desc" {
		for _, m := range ob.MS {
			if len(m.Path) > 0 && m.Path[0].Kind == "" {
				ks = append(ks, m.Path[0].Key)
			} else {
				ks = append(ks, "?")
			}
		}
		return ks
	}
	for _, l := range ob.Lines {
		ks = append(ks, l.Key)
	}
	return ks
}

func (ob hObs) show() string {
	switch ob.Kind {
	case "desc":
		return fmt.Sprintf("%v", ob.MS)
	case "text":
		return fmt.Sprintf("%q", ob.Text)
	case "returned":
		return "returned"
	case "raised":
		return fmt.Sprintf("raised %s %q", ob.Code, ob.Text)
	}
	return ob.Crash
}

// ---- D on a history ----

type hRun struct {
	Obs     []hObs
	Objects *hObjects
	// calls whose non-empty answer follows a non-empty answer for the same pair of objects under another subject
	AfterOther int
}

func subjectsOf(h *HSpec) []string {
	seen := map[string]bool{}
	var out []string
	for _, c := range h.Calls {
		if !seen[c.Subj] {
			seen[c.Subj] = true
			out = append(out, c.Subj)
		}
	}
	return out
}

func (h *HSpec) input(at int) map[string]interface{} {
	return map[string]interface{}{"kind": "hist", "fam": h.Fam, "world": h.World, "calls": h.Calls, "at": at}
}

func (h *HSpec) callText(o *hObjects, i int) string {
	c := h.Calls[i]
	et := ""
	lat.Guarded(func() bool { et = o.E[c.E].String(); return true })
	xt := ""
	if isValueEntry(c.Entry) {
		xt = fmt.Sprintf("V%d=%s", c.X, lat.ValText(o.V[c.X]))
	} else {
		lat.Guarded(func() bool { xt = fmt.Sprintf("A%d=%s", c.X, o.A[c.X].String()); return true })
	}
	return fmt.Sprintf("call #%d %s(%q, E%d=%s, %s)", i, c.Entry, c.name(), c.E, et, xt)
}

func runHistory(res *lib.Result, h *HSpec) (hr *hRun, failed bool) {
	hr = &hRun{}
	_, crash := lat.Guarded(func() bool { hr.Objects = h.World.build(); return true })
	if crash != "" {
		res.Count("hist.world-not-built")
		return nil, false
	}
	subjects := subjectsOf(h)
	before := len(res.Violations)
	nviol := 0
	violate := func(v lib.Violation) {
		nviol++
		res.Violate(v)
	}
	type pairKey struct {
		val  bool
		e, x int
	}
	lastNonEmpty := map[pairKey]string{}
	for i, c := range h.Calls {
		res.Evaluations++
		res.Count("hist.call." + c.Entry)
		ob := hcall(hr.Objects, c, subjects)
		hr.Obs = append(hr.Obs, ob)
		tag := func(what string) []string { return []string{"history:" + what + ":" + c.Entry} }
		if ob.TruthCrash != "" {
			res.Count("hist.lattice-crash")
			continue
		}
		if ob.Kind == "crash" {
			violate(lib.Violation{Clause: "total", What: fmt.Sprintf("%s of the history: %s", h.callText(hr.Objects, i), ob.Crash),
				Input: h.input(i), Tags: tag("crash")})
			continue
		}
		switch c.Entry {
		case "describe", "structured":
			empty := (ob.Kind == "text" && ob.Text == "") || (ob.Kind == "desc" && len(ob.MS) == 0)
			if empty != ob.Truth {
				violate(lib.Violation{Clause: "empty-iff-assignable",
					What:  fmt.Sprintf("%s of the history = %s but IsAssignable = %v", h.callText(hr.Objects, i), ob.show(), ob.Truth),
					Input: h.input(i), Tags: tag("empty-iff")})
			}
		case "type-mismatch-error", "mismatch-error":
			if ob.Kind != "raised" || ob.Code != string(px.TypeMismatch) {
				violate(lib.Violation{Clause: "total", What: fmt.Sprintf("%s of the history: %s instead of a PCORE_TYPE_MISMATCH issue", h.callText(hr.Objects, i), ob.show()),
					Input: h.input(i), Tags: tag("not-the-issue")})
			}
		default:
			if (ob.Kind == "returned") != ob.Truth || (ob.Kind == "raised" && ob.Code != string(px.TypeMismatch)) {
				violate(lib.Violation{Clause: "assert-iff-not-instance",
					What:  fmt.Sprintf("%s of the history: %s but IsInstance / IsAssignable = %v", h.callText(hr.Objects, i), ob.show(), ob.Truth),
					Input: h.input(i), Tags: tag("assert")})
			}
		}
		// names the subject IT was given: every mismatch / line is headed by `function <name>:`
		want := "function " + c.name() + ":"
		ks := ob.keys()
		for _, k := range ks {
			if k == want {
				continue
			}
			what := fmt.Sprintf("%s of the history answered %s, which does not name the subject %q it was given", h.callText(hr.Objects, i), ob.show(), c.name())
			t := "nosubject"
			for j := 0; j < i; j++ {
				if "function "+h.Calls[j].name()+":" == k {
					what += fmt.Sprintf(" but %q, the subject of call #%d (%s)", h.Calls[j].name(), j, h.Calls[j].Entry)
					t = "foreign-subject"
					break
				}
			}
			violate(lib.Violation{Clause: "names-subject", What: what, Input: h.input(i), Tags: tag(t)})
			break
		}
		if len(ks) > 0 {
			pk := pairKey{isValueEntry(c.Entry), c.E, c.X}
			if s, ok := lastNonEmpty[pk]; ok && s != c.name() {
				hr.AfterOther++
			}
			lastNonEmpty[pk] = c.name()
		}
	}
	_ = before
	return hr, nviol > 0
}

// ---- the calls alone, on freshly built objects ----

type aloneObs struct {
	Truth bool
	MS    []px.VerifMismatch
	Crash string
}

var aloneMemo = map[string]aloneObs{}

// alone answers (IsAssignable | IsInstance, structured description under the name of the call) for call c of the
// world: a new build of the world in which nothing else is asked
func alone(worldKey string, w *HWorld, c HCall) aloneObs {
	key := fmt.Sprintf("%s|%v|%q|%d|%d", worldKey, isValueEntry(c.Entry), c.name(), c.E, c.X)
	if a, ok := aloneMemo[key]; ok {
		return a
	}
	var a aloneObs
	_, crash := lat.Guarded(func() bool {
		o := w.build()
		e := o.E[c.E]
		var act px.Type
		if isValueEntry(c.Entry) {
			a.Truth = px.IsInstance(e, o.V[c.X])
			act = px.DetailedValueType(o.V[c.X])
		} else {
			act = o.A[c.X]
			a.Truth = px.IsAssignable(e, act)
		}
		a.MS = px.VerifDescribe(c.name(), e, act)
		return true
	})
	a.Crash = crash
	aloneMemo[key] = a
	return a
}

// ---- Gallina ----

func gPfx(c HCall) string {
	switch c.Entry {
	case "assert-type-label", "assert-instance-label":
		return "(PLabel " + lib.GStr(c.Subj) + ")"
	case "assert-type-other":
		return "POther"
	}
	return "(PString " + lib.GStr(c.Subj) + ")"
}

func gCall(c HCall) string {
	ix := fmt.Sprintf("%s %s", lib.GNat(c.E), lib.GNat(c.X))
	switch c.Entry {
	case "describe", "structured":
		return "(CDescribe " + lib.GStr(c.Subj) + " " + ix + ")"
	case "type-mismatch-error":
		return "(CTypeMismatchError " + gPfx(c) + " " + ix + ")"
	case "assert-instance", "assert-instance-label":
		return "(CAssertInstance " + gPfx(c) + " " + ix + ")"
	case "mismatch-error":
		return "(CMismatchError " + gPfx(c) + " " + ix + ")"
	}
	return "(CAssertType " + gPfx(c) + " " + ix + ")"
}

func gLines(ls []hLine) string {
	gs := make([]string, len(ls))
	for i, l := range ls {
		c, ok := classCtor[l.Class]
		if !ok {
			c = "CUnresolvedTypeReference" // unknown wording: cannot match the model
		}
		gs[i] = "(" + c + ", " + lib.GStr(l.Key) + ")"
	}
	return lib.GList(gs, "mclass * str")
}

func gHObs(ob hObs) string {
	switch ob.Kind {
	case "desc":
		return "(HDesc (OList " + gMismatches(ob.MS) + "))"
	case "text":
		return "(HText " + gLines(ob.Lines) + ")"
	case "returned":
		return "HReturns"
	case "raised":
		if ob.Code != string(px.TypeMismatch) {
			return "HCrash"
		}
		return "(HRaises " + gLines(ob.Lines) + ")"
	}
	return "HCrash"
}

func gCalls(h *HSpec) string {
	cs := make([]string, len(h.Calls))
	for i, c := range h.Calls {
		cs[i] = gCall(c)
	}
	return lib.GList(cs, "call")
}

func gObsList(hr *hRun) string {
	os := make([]string, len(hr.Obs))
	for i, o := range hr.Obs {
		os[i] = gHObs(o)
	}
	return lib.GList(os, "hobserved")
}

// the subjects and their keys `function <s>:` are written once per cases file (hs_i, hk_i)
func histPrelude() string {
	var b strings.Builder
	for i, s := range histSubjects {
		fmt.Fprintf(&b, "Definition hs_%d : str := %s.\nDefinition hk_%d : str := %s.\n", i, lib.GStr(s), i, lib.GStr("function "+s+":"))
	}
	return b.String()
}

func histShort(term string) string {
	for i, s := range histSubjects {
		term = strings.ReplaceAll(term, lib.GStr("function "+s+":"), fmt.Sprintf("hk_%d", i))
		term = strings.ReplaceAll(term, lib.GStr(s), fmt.Sprintf("hs_%d", i))
	}
	return term
}

var histImports = []string{"Model.Base", "Model.Ty", "Model.Lattice", "Model.Describe", "Model.DescribeHist", "Corr.CorrC19"}

func newOHistCases() *lib.CasesFile {
	return &lib.CasesFile{Imports: histImports, Typ: "ohist_case", Obligations: map[string]string{"history_model": "ohist_mismatches cases"}}
}
func newNHistCases() *lib.CasesFile {
	return &lib.CasesFile{Imports: histImports, Typ: "nhist_case", Obligations: map[string]string{"named_history_model": "nhist_mismatches orc cases"}}
}

// the opaque instance: tables of the alone answers
func addOHistCase(cf *lib.CasesFile, h *HSpec, hr *hRun, worldKey string) {
	var drows, arows, irows []string
	seenD, seenB := map[string]bool{}, map[string]bool{}
	for _, c := range h.Calls {
		a := alone(worldKey, h.World, c)
		x := uint64(c.X)
		if isValueEntry(c.Entry) {
			x += 1000
		}
		dk := fmt.Sprintf("%q|%d|%d", c.name(), c.E, x)
		if !seenD[dk] {
			seenD[dk] = true
			obs := "OCrash"
			if a.Crash == "" {
				obs = "(OList " + gMismatches(a.MS) + ")"
			}
			drows = append(drows, fmt.Sprintf("(%s, %s, %s, %s)", lib.GStr(c.name()), lib.GN(uint64(c.E)), lib.GN(x), obs))
		}
		bk := fmt.Sprintf("%v|%d|%d", isValueEntry(c.Entry), c.E, c.X)
		if !seenB[bk] {
			seenB[bk] = true
			row := fmt.Sprintf("(%s, %s, %s)", lib.GN(uint64(c.E)), lib.GN(uint64(c.X)), lib.GBool(a.Truth))
			if isValueEntry(c.Entry) {
				irows = append(irows, row)
			} else {
				arows = append(arows, row)
			}
		}
	}
	term := fmt.Sprintf("(%s, %s, %s, (%s, %s, %s), %s, %s)", lib.GList(drows, "str * N * N * observed"), lib.GList(arows, "N * N * bool"),
		lib.GList(irows, "N * N * bool"), lib.GNat(len(h.World.E)), lib.GNat(len(h.World.A)), lib.GNat(len(h.World.V)), gCalls(h), gObsList(hr))
	cf.Add(histShort(term), h.input(-1))
}

// a chain of aliases over a lattice type
func gNty(t px.Type, pats, strs map[string]bool, depth int) (string, bool) {
	if al, ok := t.(*types.TypeAliasType); ok {
		if depth > 8 || al.ResolvedType() == nil {
			return "", false
		}
		r, ok := gNty(al.ResolvedType(), pats, strs, depth+1)
		if !ok {
			return "", false
		}
		return "(NAlias " + lib.GStr(al.Name()) + " " + r + ")", true
	}
	d := types.VerifDecodeType(t)
	if !lat.InModel(d) || hasNewline(d) {
		return "", false
	}
	lat.TyStrings(d, pats, strs)
	return "(NTy " + lat.GTy(d) + ")", true
}

// an expected type with named types (aliases) at any position below Optional / Array / Hash / Tuple / Struct / Variant, as
// a term of type ety over an alias environment (Model/DescribeNested.v): every alias OBJECT met is a declaration of the
// environment (its resolved type, written after the aliases it refers to), a reference to it is `ERef i`; an alias-free
// part that lies in the lattice universe is one ETy leaf.  nested = an alias stands below a constructor (outside the
// universe of gNty).
type xEnv struct {
	idx    map[*types.TypeAliasType]int
	busy   map[*types.TypeAliasType]bool
	bodies []string
	nested bool
}

func newXEnv() *xEnv {
	return &xEnv{idx: map[*types.TypeAliasType]int{}, busy: map[*types.TypeAliasType]bool{}}
}

func gEty(t px.Type, env *xEnv, pats, strs map[string]bool, depth int, below bool) (string, bool) {
	if depth > 40 {
		return "", false
	}
	d := types.VerifDecodeType(t)
	if !hasAliasLeaf(d) {
		if !lat.InModel(d) || hasNewline(d) {
			return "", false
		}
		lat.TyStrings(d, pats, strs)
		return "(ETy " + lat.GTy(d) + ")", true
	}
	list := func(ts []px.Type) (string, bool) {
		gs := make([]string, len(ts))
		for i, c := range ts {
			g, ok := gEty(c, env, pats, strs, depth+1, true)
			if !ok {
				return "", false
			}
			gs[i] = g
		}
		return lib.GList(gs, "ety"), true
	}
	switch t := t.(type) {
	case *types.TypeAliasType:
		if below {
			env.nested = true
			// where the alias shows in (class, path): a Variant below it (through Optionals and further aliases)
			r := t.ResolvedType()
			for k := 0; k < 20; k++ {
				if o, ok := r.(*types.OptionalType); ok {
					r = o.ContainedType()
				} else if a, ok := r.(*types.TypeAliasType); ok && a.ResolvedType() != nil {
					r = a.ResolvedType()
				} else {
					break
				}
			}
			if _, ok := r.(*types.VariantType); ok {
				xVariantBelowNestedAlias = true
			}
		}
		if i, ok := env.idx[t]; ok {
			return fmt.Sprintf("(ERef %d)", i), true
		}
		if t.ResolvedType() == nil || env.busy[t] {
			return "", false // unresolved, or a recursive alias: no unfolding
		}
		env.busy[t] = true
		r, ok := gEty(t.ResolvedType(), env, pats, strs, depth+1, false)
		if !ok {
			return "", false
		}
		env.idx[t] = len(env.bodies)
		env.bodies = append(env.bodies, r)
		return fmt.Sprintf("(ERef %d)", env.idx[t]), true
	case *types.OptionalType:
		r, ok := gEty(t.ContainedType(), env, pats, strs, depth+1, true)
		if !ok {
			return "", false
		}
		return "(EOptional " + r + ")", true
	case *types.ArrayType:
		r, ok := gEty(t.ElementType(), env, pats, strs, depth+1, true)
		if !ok {
			return "", false
		}
		return fmt.Sprintf("(EArray %s %s %s)", r, lib.GZ(d.Lo), lib.GZ(d.Hi)), true
	case *types.HashType:
		k, ok := gEty(t.KeyType(), env, pats, strs, depth+1, true)
		if !ok {
			return "", false
		}
		v, ok := gEty(t.ValueType(), env, pats, strs, depth+1, true)
		if !ok {
			return "", false
		}
		return fmt.Sprintf("(EHash %s %s %s %s)", k, v, lib.GZ(d.Lo), lib.GZ(d.Hi)), true
	case *types.TupleType:
		l, ok := list(t.Types())
		if !ok {
			return "", false
		}
		return fmt.Sprintf("(ETuple %s %s %s %s)", l, lib.GBool(d.HasSize), lib.GZ(d.Lo), lib.GZ(d.Hi)), true
	case *types.VariantType:
		l, ok := list(t.Types())
		if !ok {
			return "", false
		}
		return "(EVariant " + l + ")", true
	case *types.StructType:
		ms := make([]string, len(t.Elements()))
		for i, e := range t.Elements() {
			// the key of a member is a lattice type
			if hasAliasLeaf(d.Keys[i]) || !lat.InModel(d.Keys[i]) || hasNewline(d.Keys[i]) {
				return "", false
			}
			lat.TyStrings(d.Keys[i], pats, strs)
			v, ok := gEty(e.Value(), env, pats, strs, depth+1, true)
			if !ok {
				return "", false
			}
			ms[i] = fmt.Sprintf("(%s, (%s, %s))", lib.GStr(d.Names[i]), lat.GTy(d.Keys[i]), v)
		}
		return "(EStruct " + lib.GList(ms, "str * (ty * ety)") + ")", true
	}
	return "", false // an alias below NotUndef / Type / Sensitive / Iterable / Callable ...: no describer of its own
}

// set by gXty (the harness is single-threaded here)
var xVariantBelowNestedAlias bool

func hasAliasLeaf(d *types.VerifTy) bool {
	if d.K == "Alias" {
		return true
	}
	for _, e := range d.Ts {
		if hasAliasLeaf(e) {
			return true
		}
	}
	for _, e := range d.Keys {
		if hasAliasLeaf(e) {
			return true
		}
	}
	return false
}

func newXHistCases() *lib.CasesFile {
	return &lib.CasesFile{Imports: append(append([]string{}, histImports...), "Model.DescribeNested"), Typ: "xhist_case",
		Obligations: map[string]string{"nested_alias_history_model": "xhist_mismatches orc cases"}}
}

// whether an expected object of the history has a named type below a constructor and all of them lie in the universe
func histNested(hr *hRun) bool {
	env := newXEnv()
	xVariantBelowNestedAlias = false
	for _, e := range hr.Objects.E {
		if _, ok := gEty(e, env, map[string]bool{}, map[string]bool{}, 0, false); !ok {
			return false
		}
	}
	return env.nested
}

// the instance for nested named types (Model/DescribeNested.v): one alias environment for the world
func addXHistCase(cf *lib.CasesFile, pats, strs map[string]bool, h *HSpec, hr *hRun) bool {
	env := newXEnv()
	return addTypedHistCase(cf, pats, strs, h, hr, "ety", func(e px.Type, p2, s2 map[string]bool) (string, bool) {
		return gEty(e, env, p2, s2, 0, false)
	}, func() string { return lib.GList(env.bodies, "ety") + ", " })
}

// the named instance; false when an object of the world lies outside its universe
func addNHistCase(cf *lib.CasesFile, pats, strs map[string]bool, h *HSpec, hr *hRun) bool {
	return addTypedHistCase(cf, pats, strs, h, hr, "nty", func(e px.Type, p2, s2 map[string]bool) (string, bool) {
		return gNty(e, p2, s2, 0)
	}, func() string { return "" })
}

func addTypedHistCase(cf *lib.CasesFile, pats, strs map[string]bool, h *HSpec, hr *hRun, etyp string,
	gE func(e px.Type, p2, s2 map[string]bool) (string, bool), head func() string) bool {
	o := hr.Objects
	p2, s2 := map[string]bool{}, map[string]bool{}
	es := make([]string, len(o.E))
	for i, e := range o.E {
		g, ok := gE(e, p2, s2)
		if !ok {
			return false
		}
		es[i] = g
	}
	as := make([]string, len(o.A))
	for i, a := range o.A {
		d := types.VerifDecodeType(a)
		if !lat.InModel(d) || hasNewline(d) {
			return false
		}
		lat.TyStrings(d, p2, s2)
		as[i] = lat.GTy(d)
	}
	vs := make([]string, len(o.V))
	for i, v := range o.V {
		dv := types.VerifDecodeValue(v)
		dt, crash := detailed(v)
		if crash != "" || dt == nil || !lat.ValInModel(dv) {
			return false
		}
		ddt := types.VerifDecodeType(dt)
		if !lat.InModel(ddt) || hasNewline(ddt) {
			return false
		}
		lat.ValStrings(dv, p2, s2)
		lat.TyStrings(ddt, p2, s2)
		vs[i] = "(" + lat.GVal(dv) + ", " + lat.GTy(ddt) + ")"
	}
	for k := range p2 {
		pats[k] = true
	}
	for k := range s2 {
		strs[k] = true
	}
	cf.Add(histShort(fmt.Sprintf("(%s%s, %s, %s, %s, %s)", head(), lib.GList(es, etyp), lib.GList(as, "ty"), lib.GList(vs, "value * ty"), gCalls(h), gObsList(hr))), h.input(-1))
	return true
}

// ---- generators ----

func hx(x *XSpec) *HE { return &HE{X: x} }

func histBases() []*lat.Spec {
	I := lat.Int(lat.Min, lat.Max)
	S := lat.A("String")
	opt := func(t *lat.Spec) *lat.Spec { return lat.W("Optional", t) }
	return []*lat.Spec{
		lat.Struct(lat.Member{"host", 0, S}, lat.Member{"port", 1, I}),
		opt(lat.Var(I, S)),
		lat.Tup(S, I), lat.Arr(I, 1, lat.Max), lat.Hsh(S, I, 0, lat.Max), lat.Var(I, S), opt(I), lat.Enum(false, "a", "b"), lat.Pat("^a+$"),
		lat.Int(0, 5), lat.Arr(lat.Struct(lat.Member{"a", 0, I}), 0, lat.Max), lat.Struct(lat.Member{"a", 0, lat.Struct(lat.Member{"b", 0, S})}),
		opt(opt(lat.Var(I, lat.Arr(I, 0, lat.Max)))), lat.Var(lat.Arr(I, 1, 2), lat.Arr(I, 4, 5)), lat.Struct(lat.Member{"a", 0, I}, lat.Member{"b", 0, S}),
	}
}

// the forms in which a base type is an expected object: itself, named (once, twice), named below every constructor,
// declared through the parser (named, named twice, named and nested)
func histForms(b *lat.Spec, k int, res *lib.Result) []*HE {
	x := xl(b)
	al := xalias(fmt.Sprintf("Hn%d", k), x)
	out := []*HE{hx(al), hx(xalias(fmt.Sprintf("Ho%d", k), al)), hx(x),
		hx(xstruct("e", 0, al)), hx(xstruct("e", 1, al)), hx(xarr(al)), hx(xw("Optional", al)), hx(xw("Variant", al, xl(lat.A("Boolean")))),
		hx(xtup(al)), hx(xhash(xStr, al))}
	text := ""
	if _, crash := lat.Guarded(func() bool { text = b.Build().String(); return true }); crash == "" && text != "" {
		for _, he := range []*HE{
			{Decl: []string{"type %N0 = " + text}, Parse: "%N0"},
			{Decl: []string{"type %N0 = %N1", "type %N1 = " + text}, Parse: "%N0"},
			{Decl: []string{"type %N0 = " + text}, Parse: "Struct[{e=>%N0}]"},
			{Decl: []string{"type %N0 = " + text}, Parse: "Array[Optional[%N0]]"},
		} {
			if _, crash := lat.Guarded(func() bool { return he.build(0) != nil }); crash == "" {
				out = append(out, he)
			} else {
				res.Count("hist.recipe-rejected")
			}
		}
	}
	return out
}

func histExpected(res *lib.Result) (all []*HE, core []*HE) {
	for k, b := range histBases() {
		fs := histForms(b, k, res)
		all = append(all, fs...)
		if k < 2 {
			core = append(core, fs...)
		}
	}
	// named Object types and a named Callable, at the top and nested
	obj := "type %N0 = Object[{attributes => {x => Integer, y => Integer}}]"
	cal := xcallable(xtup(xStr), xInt, nil)
	for _, he := range []*HE{
		{Decl: []string{obj}, Parse: "%N0"}, {Decl: []string{obj}, Parse: "Struct[{o=>%N0}]"}, {Decl: []string{obj}, Parse: "Array[%N0]"},
		{Decl: []string{obj, "type %N1 = %N0"}, Parse: "%N1"}, {Decl: []string{obj}, Parse: "Optional[%N0]"},
		hx(cal), hx(xalias("Hcal", cal)), hx(xarr(xalias("Hcal", cal))),
		{Decl: []string{"type %N0 = Callable[[String], Integer]"}, Parse: "%N0"},
	} {
		if _, crash := lat.Guarded(func() bool { return he.build(0) != nil }); crash == "" {
			all = append(all, he)
		} else {
			res.Count("hist.recipe-rejected")
		}
	}
	return
}

func histActuals() []*XSpec {
	I := lat.Int(lat.Min, lat.Max)
	S := lat.A("String")
	return []*XSpec{
		xl(S), xl(I), xl(lat.A("Undef")), xl(lat.Struct(lat.Member{"host", 0, I})), xl(lat.Struct(lat.Member{"a", 0, lat.Struct(lat.Member{"b", 0, I})})),
		xl(lat.Tup(I, I)), xl(lat.Arr(S, 0, lat.Max)), xl(lat.Arr(I, 0, 0)), xl(lat.Hsh(I, I, 0, lat.Max)), xl(lat.A("Boolean")),
		xalias("Hact", xl(S)), xl(lat.Arr(lat.Struct(lat.Member{"a", 0, S}), 0, lat.Max)), xl(lat.StrVal("b")),
		xcallable(xtup(xInt), xStr, nil), xl(lat.Struct(lat.Member{"a", 0, S}, lat.Member{"c", 0, S})),
	}
}

func histValues() []*lat.VSpec {
	VS, VI, VH, VA, VU := lat.VS, lat.VI, lat.VH, lat.VA, lat.VU
	return []*lat.VSpec{
		VH(VS("host"), VI(1)), VH(VS("a"), VH(VS("b"), VI(1))), VA(), VA(VS("x")), VA(VI(1), VS("x")), VS("aa"), VS("b"), VI(7), VU(), VH(),
		VA(VH(VS("a"), VS("x"))),
	}
}

func histories(rng *lib.Rng, res *lib.Result, thorough bool) []*HSpec {
	all, core := histExpected(res)
	acts, vals := histActuals(), histValues()
	ns := len(histSubjects)
	var out []*HSpec
	two := func(i int) (string, string, string) {
		a, b := i%ns, (i+1+(i/ns)%(ns-1))%ns
		if a == b {
			b = (b + 1) % ns
		}
		c := (a + 3) % ns
		return histSubjects[a], histSubjects[b], histSubjects[c]
	}
	nt := len(typeEntries)
	idx := 0
	// every expected form x every actual type: entry x, then entry y under another subject, then x under the first again
	for _, e := range all {
		for _, a := range acts {
			x, y := typeEntries[idx%nt], typeEntries[(idx/nt)%nt]
			s1, s2, _ := two(idx)
			idx++
			out = append(out, &HSpec{Fam: "pair", World: &HWorld{E: []*HE{e}, A: []*XSpec{a}},
				Calls: []HCall{{x, s1, 0, 0}, {y, s2, 0, 0}, {x, s1, 0, 0}}})
		}
	}
	// the core forms (a Struct and an Optional[Variant], in every form): all ordered pairs of entry points
	for _, e := range core {
		for ai := 0; ai < 3; ai++ {
			a := acts[[]int{3, 1, 6}[ai]]
			for _, x := range typeEntries {
				for _, y := range typeEntries {
					s1, s2, _ := two(idx)
					idx++
					out = append(out, &HSpec{Fam: "entries", World: &HWorld{E: []*HE{e}, A: []*XSpec{a}},
						Calls: []HCall{{x, s1, 0, 0}, {y, s2, 0, 0}}})
				}
			}
		}
	}
	// every expected form x every value: the same value object asserted again and again (its detailed type is kept),
	// then the type entry points
	nv := len(valueEntries)
	for _, e := range all {
		for _, v := range vals {
			x, y := valueEntries[idx%nv], valueEntries[(idx/nv)%nv]
			s1, s2, s3 := two(idx)
			idx++
			out = append(out, &HSpec{Fam: "value", World: &HWorld{E: []*HE{e}, A: []*XSpec{acts[0]}, V: []*lat.VSpec{v}},
				Calls: []HCall{{x, s1, 0, 0}, {y, s2, 0, 0}, {typeEntries[idx%nt], s3, 0, 0}, {x, s3, 0, 0}}})
		}
	}
	// two objects of the same recipe (two empty arrays, two equal types): one check each, under different subjects
	for _, e := range all {
		for _, ai := range []int{7, 3, 0, 10} {
			x, y := typeEntries[idx%nt], typeEntries[(idx/nt)%nt]
			s1, s2, s3 := two(idx)
			idx++
			out = append(out, &HSpec{Fam: "twin-type", World: &HWorld{E: []*HE{e}, A: []*XSpec{acts[ai], acts[ai]}},
				Calls: []HCall{{x, s1, 0, 0}, {y, s2, 0, 1}, {x, s3, 0, 0}}})
		}
		for _, vi := range []int{2, 0, 5} {
			x, y := valueEntries[idx%nv], valueEntries[(idx/nv)%nv]
			s1, s2, _ := two(idx)
			idx++
			out = append(out, &HSpec{Fam: "twin-value", World: &HWorld{E: []*HE{e}, A: []*XSpec{acts[0]}, V: []*lat.VSpec{vals[vi], vals[vi]}},
				Calls: []HCall{{x, s1, 0, 0}, {y, s2, 0, 1}}})
		}
	}
	// ONE named type at several places of several expected objects (at the top, below Struct / Array / Tuple twice /
	// Optional / Hash): the same (alias object, actual object) pair is described at different paths, under the same and
	// under different subjects
	for bi, b := range histBases() {
		text := ""
		if _, crash := lat.Guarded(func() bool { text = b.Build().String(); return true }); crash != "" || text == "" {
			continue
		}
		I, S := lat.Int(lat.Min, lat.Max), lat.A("String")
		w := func() *HWorld {
			return &HWorld{Decl: []string{"type %W0 = " + text, "type %W1 = %W0"},
				E: []*HE{{Parse: "%W0"}, {Parse: "Struct[{e=>%W0}]"}, {Parse: "Array[%W0]"}, {Parse: "Tuple[%W0, %W0]"}, {Parse: "Struct[{d=>%W0, e=>%W1}]"},
					{Parse: "Hash[String, %W0]"}, {Parse: "%W1"}},
				// the contained String / Integer are singletons: the named type meets the same actual OBJECT at every place
				A: []*XSpec{xl(S), xl(I), acts[3], xl(lat.Arr(S, 0, lat.Max)), xl(lat.Arr(I, 0, lat.Max)), xl(lat.Tup(S, I)), xl(lat.Tup(I, S)),
					xl(lat.Struct(lat.Member{"e", 0, S})), xl(lat.Struct(lat.Member{"e", 0, I})), xl(lat.Hsh(S, I, 0, lat.Max)), xl(lat.Hsh(S, S, 0, lat.Max)),
					xl(lat.Struct(lat.Member{"d", 0, I}, lat.Member{"e", 0, S})), xl(lat.Struct(lat.Member{"d", 0, S}, lat.Member{"e", 0, I})),
					// an Array of a size that no base accepts, below a Struct member / in a Tuple slot / at the top: against the
					// Variant-of-sized-Arrays base the variants merge into ONE size mismatch, which a named type reports as ITS type
					// mismatch - also when the named type stands below a constructor (Model/DescribeNested.v)
					xl(lat.Struct(lat.Member{"e", 0, lat.Arr(I, 3, 3)})), xl(lat.Tup(lat.Arr(I, 3, 3))), xl(lat.Arr(I, 3, 3))}}
		}
		if _, crash := lat.Guarded(func() bool { return w().build() != nil }); crash != "" {
			res.Count("hist.recipe-rejected")
			continue
		}
		// every place in turn, one subject (or two in alternation): only the place of the named type differs
		places := [][2]int{{0, 0}, {0, 1}, {1, 7}, {1, 8}, {2, 3}, {2, 4}, {3, 5}, {3, 6}, {4, 11}, {4, 12}, {5, 9}, {5, 10}, {6, 0}, {6, 1}, {0, 0}, {1, 7}, {1, 13}, {2, 14}, {0, 15}}
		for i := 0; i < 6; i++ {
			h := &HSpec{Fam: "shared-place", World: w()}
			s1, s2, _ := two(idx)
			idx++
			for j, pl := range places {
				s := s1
				if i >= 3 && j%2 == 1 {
					s = s2
				}
				h.Calls = append(h.Calls, HCall{typeEntries[(i+j+j/nt)%nt], s, pl[0], pl[1]})
			}
			out = append(out, h)
		}
		n := 15
		if thorough {
			n = 150
		}
		for i := 0; i < n; i++ {
			h := &HSpec{Fam: "shared-name", World: w()}
			// one subject for the whole history in half of them
			one := histSubjects[(bi+i)%ns]
			for j, m := 0, 5+rng.Intn(6); j < m; j++ {
				s := one
				if i%2 == 1 {
					s = histSubjects[rng.Intn(ns)]
				}
				h.Calls = append(h.Calls, HCall{typeEntries[rng.Intn(nt)], s, rng.Intn(len(h.World.E)), rng.Intn(len(h.World.A))})
			}
			out = append(out, h)
		}
	}
	// seeded random histories over worlds of several objects
	nRandom := 1200
	if thorough {
		nRandom = 12000
	}
	for i := 0; i < nRandom; i++ {
		w := &HWorld{}
		for j, n := 0, 1+rng.Intn(3); j < n; j++ {
			w.E = append(w.E, all[rng.Intn(len(all))])
		}
		for j, n := 0, 1+rng.Intn(3); j < n; j++ {
			w.A = append(w.A, acts[rng.Intn(len(acts))])
		}
		for j, n := 0, 1+rng.Intn(2); j < n; j++ {
			w.V = append(w.V, vals[rng.Intn(len(vals))])
		}
		h := &HSpec{Fam: "random", World: w}
		for j, n := 0, 4+rng.Intn(9); j < n; j++ {
			s := histSubjects[rng.Intn(ns)]
			if rng.Chance(1, 3) {
				h.Calls = append(h.Calls, HCall{valueEntries[rng.Intn(nv)], s, rng.Intn(len(w.E)), rng.Intn(len(w.V))})
			} else {
				en := typeEntries[rng.Intn(nt)]
				h.Calls = append(h.Calls, HCall{en, s, rng.Intn(len(w.E)), rng.Intn(len(w.A))})
			}
		}
		out = append(out, h)
	}
	return out
}

// ---- run ----

func runHist(cfg *lib.Config, res *lib.Result, rng *lib.Rng) {
	hs := histories(rng, res, cfg.Thorough())
	ocf, ncf, xcf := newOHistCases(), newNHistCases(), newXHistCases()
	pats, strs := map[string]bool{}, map[string]bool{}
	xpats, xstrs := map[string]bool{}, map[string]bool{}
	// histories with a named type BELOW a constructor go through Model/DescribeNested.v: a share of every family
	// (a quarter of the step where the alias shows in the (class, path) image: a Variant below a nested alias)
	xStep := map[string]int{"shared-place": 3, "shared-name": 12, "pair": 80, "entries": 100, "value": 80, "random": 40, "twin-type": 40, "twin-value": 40}
	if cfg.Thorough() {
		xStep = map[string]int{"shared-place": 1, "shared-name": 3, "pair": 3, "entries": 3, "value": 3, "random": 3, "twin-type": 3, "twin-value": 3}
	}
	xSeen, nestedHist, xTaken := map[string]int{}, 0, 0
	nO, nN := 320, 250
	if cfg.Thorough() {
		nO, nN = 3000, 2000
	}
	perFam := map[string]int{}
	for _, h := range hs {
		perFam[h.Fam]++
	}
	seenFam := map[string]int{}
	failedCases, afterOther, named := 0, 0, 0
	for _, h := range hs {
		hr, failed := runHistory(res, h)
		if hr == nil {
			continue
		}
		res.Count("hist.fam." + h.Fam)
		afterOther += hr.AfterOther
		if hr.AfterOther > 0 {
			res.Nontrivial("hist:" + h.Fam + fmt.Sprint(seenFam[h.Fam]))
		}
		k := seenFam[h.Fam]
		seenFam[h.Fam]++
		// a share of every family in equal steps; the histories on which D failed (cap 20)
		stepO := perFam[h.Fam]*5/nO + 1
		take := k%stepO == 0
		if failed && failedCases < 20 {
			failedCases++
			take = true
		}
		if histNested(hr) {
			nestedHist++
			st := xStep[h.Fam]
			if st == 0 {
				st = 20
			}
			fam := h.Fam
			if xVariantBelowNestedAlias {
				fam, st = fam+"+variant", (st+3)/4
				res.Count("hist.nested-alias-over-variant")
			}
			if xSeen[fam]%st == 0 || (failed && failedCases <= 20) {
				if addXHistCase(xcf, xpats, xstrs, h, hr) {
					xTaken++
					res.Count("hist.nested-model." + h.Fam)
				}
			}
			xSeen[fam]++
		}
		if !take {
			continue
		}
		wk, _ := json.Marshal(h.World)
		addOHistCase(ocf, h, hr, string(wk))
		if len(ncf.Cases) < nN || failed {
			if addNHistCase(ncf, pats, strs, h, hr) {
				named++
			}
		}
	}
	res.Extra["histories"] = len(hs)
	res.Extra["history_calls_answered_nonempty_after_another_subject_for_the_same_objects"] = afterOther
	res.Extra["histories_in_the_named_model"] = named
	ocf.Prelude = histPrelude()
	ncf.Prelude = lat.Oracle(pats, strs) + histPrelude()
	res.Extra["histories_with_a_named_type_below_a_constructor"] = nestedHist
	res.Extra["histories_in_the_nested_alias_model"] = xTaken
	xcf.Prelude = lat.Oracle(xpats, xstrs) + histPrelude()
	res.CorrFiles = append(res.CorrFiles, ocf.WriteTo(cfg.Out, "cases_hist_0"), ncf.WriteTo(cfg.Out, "cases_nhist_0"), xcf.WriteTo(cfg.Out, "cases_xhist_0"))
	if len(hs) > 0 {
		h := hs[len(hs)/3]
		if hr, _ := runHistory(lib.NewResult("C19"), h); hr != nil {
			var answers []string
			for _, o := range hr.Obs {
				answers = append(answers, o.show())
			}
			res.Sample(map[string]interface{}{"history": h.Calls, "answers": answers})
		}
	}
}

// ---- replay ----

func replayHist(res *lib.Result, in interface{}, ocf, ncf, xcf *lib.CasesFile, pats, strs map[string]bool) bool {
	m, ok := in.(map[string]interface{})
	if !ok || m["kind"] != "hist" {
		return false
	}
	var h HSpec
	lib.Remarshal(in, &h)
	before := len(res.Violations)
	hr, _ := runHistory(res, &h)
	if hr == nil {
		fmt.Println("the world of the history could not be built")
		return true
	}
	wk, _ := json.Marshal(h.World)
	for i, c := range h.Calls {
		a := alone(string(wk), h.World, c)
		fmt.Printf("%s\n   in the history: %s\n   alone, on new objects: IsAssignable/IsInstance = %v, description %v %s\n", h.callText(hr.Objects, i), hr.Obs[i].show(), a.Truth, a.MS, a.Crash)
	}
	if len(res.Violations) > before {
		fmt.Println("FAILS: " + res.Violations[before].What)
	} else {
		fmt.Println("the clauses of the property hold on every call of this history")
	}
	addOHistCase(ocf, &h, hr, string(wk))
	if !addNHistCase(ncf, pats, strs, &h, hr) {
		addXHistCase(xcf, pats, strs, &h, hr)
	}
	return true
}
