// alias.go: expected types that are graphs of type aliases - aliases that share members (fan-in: every level
// refers to the next level several times), chains, diamonds, wide fan-in, self-recursive and mutually recursive
// aliases - built through the constructors (NewTypeAliasType) and through the type parser (type declarations
// added with px.AddTypes), at the top and below Array / Optional / Struct, against actual types of every shape
// (a scalar, Undef, one level of the matching constructor, the same graph built again) and against values.
//
// `describe` walks the whole expected type on every error path (expected.Accept looking for an unresolved
// reference): a walk that is not linear in the number of aliases does not end for 30 levels. So every
// implementation call on these inputs is made in a CHILD PROCESS under a deadline (the harness re-executes its
// own binary with -aworker); a call that does not return is a violation of clause `total` with the input as
// replay.
//
// D: the clauses of checkPair / checkAssert (no crash, no hang, empty iff assignable, names the subject,
//    AssertInstance raises exactly on non-instances).
// M: the visits of expected.Accept(visitor, nil) as observed (aliases by identity, unresolved references by
//    name, everything else) and the first stage of the description (nothing / unresolved reference / a
//    description) are compared with Model/DescribeWalk.v (accept, describe_stage) by vm_compute; the type graph
//    is decoded from the built Go types (resolved types of the aliases in the order they are met). The same tie
//    is made for a sample of the lattice pool and for the alias types of the extended pool.
package main

import (
	"bufio"
	"encoding/json"
	"flag"
	"fmt"
	"io"
	"os"
	"os/exec"
	"runtime/debug"
	"sort"
	"strings"
	"time"

	"github.com/lyraproj/pcore/px"
	"github.com/lyraproj/pcore/types"
	"verifharness/lat"
	"verifharness/lib"
)

var aworkerFlag = flag.Bool("aworker", false, "serve the alias-graph requests on stdin/stdout (internal)")

// ---- recipes ----

// GT is a type expression over the aliases of a graph: K = Int | Str | Ref (unresolved TypeReference S) |
// Alias (I) | Struct (Names, Sub) | Tuple | Variant | Array | Hash (key, value) | Optional | NotUndef |
// Callable (Sub = parameters, Ret)
type GT struct {
	K     string   `json:"k"`
	I     int      `json:"i,omitempty"`
	S     string   `json:"s,omitempty"`
	Sub   []*GT    `json:"sub,omitempty"`
	Names []string `json:"names,omitempty"`
	Ret   *GT      `json:"ret,omitempty"`
}

// GSpec is a graph of aliases: Bodies[i] is the type alias i stands for. Route "ctor": NewTypeAliasType with
// the resolved type (alias i may only refer to aliases > i); "parsed": type declarations through the type
// parser and px.AddTypes (any reference).
type GSpec struct {
	Fam    string `json:"fam"`
	Route  string `json:"route"`
	Bodies []*GT  `json:"bodies"`
	Top    *GT    `json:"top"`
	Twin   bool   `json:"twin,omitempty"` // small enough to be compared with a second copy of itself
}

func (g *GSpec) String() string {
	b, _ := json.Marshal(g)
	return string(b)
}

var (
	gInt = &GT{K: "Int"}
	gStr = &GT{K: "Str"}
)

func gRef(n string) *GT               { return &GT{K: "Ref", S: n} }
func gAl(i int) *GT                   { return &GT{K: "Alias", I: i} }
func gW(k string, sub ...*GT) *GT     { return &GT{K: k, Sub: sub} }
func gCallable(ret *GT, ps ...*GT) *GT { return &GT{K: "Callable", Sub: ps, Ret: ret} }
func gStruct(names []string, sub ...*GT) *GT {
	return &GT{K: "Struct", Names: names, Sub: sub}
}

var memberNames = []string{"left", "right", "mid", "up", "m4", "m5", "m6", "m7"}

var graphCounter = 0

func (t *GT) text(name func(int) string) string {
	subs := func() []string {
		ss := make([]string, len(t.Sub))
		for i, s := range t.Sub {
			ss[i] = s.text(name)
		}
		return ss
	}
	switch t.K {
	case "Int":
		return "Integer"
	case "Str":
		return "String"
	case "Ref":
		return "TypeReference['" + t.S + "']"
	case "Alias":
		return name(t.I)
	case "Struct":
		ms := make([]string, len(t.Sub))
		for i, s := range t.Sub {
			if n := t.Names[i]; strings.HasPrefix(n, "?") {
				ms[i] = "Optional[" + n[1:] + "]=>" + s.text(name) // a key that may be absent
			} else {
				ms[i] = n + "=>" + s.text(name)
			}
		}
		return "Struct[{" + strings.Join(ms, ", ") + "}]"
	case "Tuple", "Variant", "Array", "Hash", "Optional", "NotUndef":
		return t.K + "[" + strings.Join(subs(), ", ") + "]"
	case "Callable":
		return "Callable[[" + strings.Join(subs(), ", ") + "], " + t.Ret.text(name) + "]"
	}
	panic("GT.text: unknown kind " + t.K)
}

func (t *GT) build(alias func(int) px.Type) px.Type {
	subs := func() []px.Type {
		ts := make([]px.Type, len(t.Sub))
		for i, s := range t.Sub {
			ts[i] = s.build(alias)
		}
		return ts
	}
	switch t.K {
	case "Int":
		return types.DefaultIntegerType()
	case "Str":
		return types.DefaultStringType()
	case "Ref":
		return types.NewTypeReferenceType(t.S)
	case "Alias":
		return alias(t.I)
	case "Struct":
		es := make([]*types.StructElement, len(t.Sub))
		for i, s := range t.Sub {
			if n := t.Names[i]; strings.HasPrefix(n, "?") {
				es[i] = types.NewStructElement(types.NewOptionalType(types.WrapString(n[1:]).PType()), s.build(alias))
			} else {
				es[i] = types.NewStructElement(types.WrapString(n), s.build(alias))
			}
		}
		return types.NewStructType(es)
	case "Tuple":
		return types.NewTupleType(subs(), nil)
	case "Variant":
		return types.NewVariantType(subs()...)
	case "Array":
		return types.NewArrayType(t.Sub[0].build(alias), nil)
	case "Hash":
		return types.NewHashType(t.Sub[0].build(alias), t.Sub[1].build(alias), nil)
	case "Optional":
		return types.NewOptionalType(t.Sub[0].build(alias))
	case "NotUndef":
		return types.NewNotUndefType(t.Sub[0].build(alias))
	case "Callable":
		return types.NewCallableType(types.NewTupleType(subs(), nil), t.Ret.build(alias), nil)
	}
	panic("GT.build: unknown kind " + t.K)
}

// Build makes the graph and returns the expected type
func (g *GSpec) Build() px.Type {
	graphCounter++
	k := graphCounter
	name := func(i int) string { return fmt.Sprintf("Vg%dL%d", k, i) }
	n := len(g.Bodies)
	if g.Route == "parsed" {
		c := px.CurrentContext()
		// the last alias first: resolving `type A = Struct[{m => B}]` asks B whether it accepts undef
		// (NewStructElement), which an alias that is not resolved yet cannot answer; references to an alias
		// that is declared later are always below Optional in these recipes
		decl := make([]px.Type, n)
		for i, b := range g.Bodies {
			decl[n-1-i] = types.Parse("type " + name(i) + " = " + b.text(name)).(px.Type)
		}
		px.AddTypes(c, decl...)
		return c.ParseType(g.Top.text(name))
	}
	as := make([]px.Type, n)
	alias := func(i int) px.Type {
		if i < 0 || i >= n || as[i] == nil {
			panic(fmt.Sprintf("route ctor: alias %d is not built yet", i))
		}
		return as[i]
	}
	for i := n - 1; i >= 0; i-- {
		as[i] = types.NewTypeAliasType(name(i), nil, g.Bodies[i].build(alias))
	}
	return g.Top.build(alias)
}

// ---- families ----

// level i of a ladder: `kind` applied to `fan` references to level i+1
func ladderBody(kind string, fan int, next *GT, back *GT) *GT {
	refs := func(n int) []*GT {
		r := make([]*GT, n)
		for i := range r {
			r[i] = next
		}
		return r
	}
	switch kind {
	case "Struct":
		sub, names := refs(fan), append([]string{}, memberNames[:fan]...)
		if back != nil {
			sub, names = append(sub, gW("Optional", back)), append(names, "back")
		}
		return gStruct(names, sub...)
	case "OptStruct":
		return gStruct(memberNames[:2], gW("Optional", next), next)
	case "Tuple":
		return gW("Tuple", refs(fan)...)
	case "VarArrHash":
		return gW("Variant", gW("Array", next), gW("Hash", gStr, next))
	case "ArrTuple":
		return gW("Array", gW("Tuple", refs(fan)...))
	case "Callable":
		return gCallable(next, refs(fan-1)...)
	case "Hash":
		return gW("Hash", gW("NotUndef", next), next)
	case "Arr": // a chain Array[Array[...]]: an actual Tuple is decomposed against it slot by slot
		return gW("Array", next)
	case "HashStr": // a chain Hash[String, Hash[String, ...]]: an actual Struct is decomposed against it
		return gW("Hash", gStr, next)
	}
	panic("ladderBody: " + kind)
}

func ladder(kind string, n, fan int, bottom *GT, route string, top func(*GT) *GT, recursive bool) *GSpec {
	g := &GSpec{Fam: fmt.Sprintf("ladder-%s-fan%d", kind, fan), Route: route, Twin: n <= 8}
	for i := 0; i < n; i++ {
		var back *GT
		if recursive {
			back = gAl(0)
		}
		g.Bodies = append(g.Bodies, ladderBody(kind, fan, gAl(i+1), back))
	}
	g.Bodies = append(g.Bodies, bottom)
	g.Top = top(gAl(0))
	if recursive {
		g.Fam += "-recursive"
	}
	return g
}

func idTop(t *GT) *GT { return t }

func aliasGraphs(rng *lib.Rng, thorough bool) []*GSpec {
	var out []*GSpec
	sizes := []int{1, 2, 3, 5, 8, 12, 16, 24, 32, 48}
	nRandom := 40
	if thorough {
		sizes = []int{1, 2, 3, 4, 5, 6, 8, 10, 12, 16, 20, 24, 28, 32, 40, 48, 64, 96}
		nRandom = 400
	}
	bottomStruct := gStruct([]string{"v"}, gInt)
	for _, n := range sizes {
		for _, route := range []string{"ctor", "parsed"} {
			for _, kind := range []string{"Struct", "OptStruct", "Tuple", "VarArrHash", "ArrTuple", "Callable", "Hash"} {
				out = append(out, ladder(kind, n, 2, gInt, route, idTop, false))
			}
			out = append(out,
				ladder("Struct", n, 3, bottomStruct, route, idTop, false),
				ladder("Tuple", n, 4, gInt, route, idTop, false),
				// an unresolved reference at the bottom: the walk has to find it
				ladder("Struct", n, 2, gRef("Foo"), route, idTop, false),
				// the ladder below other constructors
				ladder("Struct", n, 2, gInt, route, func(t *GT) *GT { return gW("Array", t) }, false),
				ladder("Struct", n, 2, gInt, route, func(t *GT) *GT { return gW("Optional", t) }, false),
				ladder("Tuple", n, 2, gInt, route, func(t *GT) *GT { return gStruct([]string{"a", "b"}, t, t) }, false),
				// no fan-in: a chain
				ladder("Struct", n, 1, gInt, route, idTop, false))
		}
		// cycles on top of the fan-in: every level also refers back to the first one (type parser only)
		out = append(out, ladder("Struct", n, 2, gInt, "parsed", idTop, true))
	}
	for _, route := range []string{"ctor", "parsed"} {
		// a diamond, and one alias referred to 60 times
		out = append(out,
			&GSpec{Fam: "diamond", Route: route, Twin: true, Top: gAl(0), Bodies: []*GT{gW("Tuple", gAl(1), gAl(2)), gW("Array", gAl(3)), gW("Optional", gAl(3)),
				gStruct([]string{"x"}, gInt)}},
			&GSpec{Fam: "wide", Route: route, Twin: true, Top: gAl(0), Bodies: []*GT{gW("Tuple", func() []*GT {
				r := make([]*GT, 60)
				for i := range r {
					r[i] = gAl(1)
				}
				return r
			}()...), gStruct([]string{"x", "y"}, gInt, gStr)}})
	}
	// recursive aliases (type parser only)
	opt := func(t *GT) *GT { return gW("Optional", t) }
	out = append(out,
		&GSpec{Fam: "tree", Route: "parsed", Twin: true, Top: gAl(0), Bodies: []*GT{gStruct([]string{"left", "right", "v"}, opt(gAl(0)), opt(gAl(0)), gInt)}},
		&GSpec{Fam: "tree", Route: "parsed", Twin: true, Top: gW("Array", gAl(0)), Bodies: []*GT{gStruct([]string{"left", "v"}, opt(gAl(0)), gRef("Foo::Bar"))}},
		&GSpec{Fam: "pingpong", Route: "parsed", Twin: true, Top: gAl(0), Bodies: []*GT{gStruct([]string{"a", "b"}, opt(gAl(1)), opt(gAl(1))),
			gStruct([]string{"a", "b"}, opt(gAl(0)), opt(gAl(0)))}},
		&GSpec{Fam: "pingpong", Route: "parsed", Twin: true, Top: gW("Tuple", gAl(0), gAl(1)), Bodies: []*GT{gW("Array", gW("Variant", gInt, gAl(1))),
			gW("Hash", gStr, gW("Variant", gStr, gAl(0)))}})
	// seeded random graphs
	for r := 0; r < nRandom; r++ {
		n := 2 + rng.Intn(11)
		route := "ctor"
		if rng.Bool() {
			route = "parsed"
		}
		g := &GSpec{Fam: "random", Route: route, Twin: n <= 6, Top: gAl(0)}
		for i := 0; i < n; i++ {
			slot := func() *GT {
				switch {
				case i+1 < n && rng.Chance(3, 5):
					return gAl(i + 1 + rng.Intn(n-i-1)) // forward: with fan-in when drawn twice
				case route == "parsed" && rng.Chance(1, 4):
					return gW("Optional", gAl(rng.Intn(i+1))) // back or self reference
				case rng.Chance(1, 12):
					return gRef("Foo")
				case rng.Bool():
					return gInt
				}
				return gStr
			}
			var body func(d int) *GT
			body = func(d int) *GT {
				sub := func() *GT {
					if d > 0 && rng.Chance(1, 3) {
						return body(d - 1)
					}
					return slot()
				}
				switch rng.Intn(7) {
				case 0:
					k := 1 + rng.Intn(3)
					ss := make([]*GT, k)
					for j := range ss {
						ss[j] = sub()
					}
					return gStruct(memberNames[:k], ss...)
				case 1:
					return gW("Tuple", sub(), sub())
				case 2:
					return gW("Variant", sub(), gW("Array", sub()))
				case 3:
					return gW("Array", sub())
				case 4:
					return gW("Hash", gStr, sub())
				case 5:
					return gCallable(sub(), sub())
				}
				return gStruct(memberNames[:2], gW("Optional", sub()), sub())
			}
			g.Bodies = append(g.Bodies, body(2))
		}
		out = append(out, g)
	}
	sort.SliceStable(out, func(i, j int) bool { return len(out[i].Bodies) < len(out[j].Bodies) })
	return out
}


// ---- pairs: BOTH sides graphs of aliases ----

// GPair is an expected graph and a different graph for the actual type
type GPair struct {
	Fam  string
	E, A *GSpec
}

func (g *GSpec) clone() *GSpec {
	b, _ := json.Marshal(g)
	c := &GSpec{}
	if err := json.Unmarshal(b, c); err != nil {
		panic(err)
	}
	return c
}

func (t *GT) leaves(out *[]*GT) {
	if t == nil {
		return
	}
	if t.K == "Int" || t.K == "Str" {
		*out = append(*out, t)
	}
	for _, s := range t.Sub {
		s.leaves(out)
	}
	t.Ret.leaves(out)
}

// mutateLeaf: a second declaration of the same graph that differs in its k-th Integer / String leaf (the other of
// the two); nil when the graph has no such leaf. nLeaves = number of leaves of the graph.
func mutateLeaf(g *GSpec, k int) (m *GSpec, nLeaves int) {
	c := g.clone()
	var ls []*GT
	for _, b := range c.Bodies {
		b.leaves(&ls)
	}
	c.Top.leaves(&ls)
	if len(ls) == 0 {
		return nil, 0
	}
	l := ls[k%len(ls)]
	if l.K == "Int" {
		l.K = "Str"
	} else {
		l.K = "Int"
	}
	c.Fam = g.Fam + "-leaf" + fmt.Sprint(k%len(ls))
	return c, len(ls)
}

// recursive declarations: the alias refers to itself at a position the describers decompose; `leaf` is where two
// declarations differ
var recKinds = []struct {
	name string
	body func(self, leaf *GT) *GT
}{
	{"struct-optkey", func(self, leaf *GT) *GT { return gStruct([]string{"v", "?next"}, leaf, self) }},
	{"struct-optkey-first", func(self, leaf *GT) *GT { return gStruct([]string{"?next", "v"}, self, leaf) }},
	{"struct-optval", func(self, leaf *GT) *GT { return gStruct([]string{"v", "next"}, leaf, gW("Optional", self)) }},
	{"struct-tree", func(self, leaf *GT) *GT { return gStruct([]string{"?left", "?right", "v"}, self, self, leaf) }},
	{"tuple", func(self, leaf *GT) *GT { return gW("Tuple", leaf, gW("Optional", self)) }},
	{"array", func(self, leaf *GT) *GT { return gW("Array", gW("Variant", leaf, self)) }},
	{"hash", func(self, leaf *GT) *GT { return gW("Hash", gStr, gW("Variant", leaf, self)) }},
	{"variant", func(self, leaf *GT) *GT { return gW("Variant", leaf, gW("Array", self)) }},
	{"variant-struct", func(self, leaf *GT) *GT {
		return gW("Variant", gStruct([]string{"v", "?next"}, leaf, self), gW("Array", leaf))
	}},
	{"callable", func(self, leaf *GT) *GT { return gCallable(gW("Optional", self), leaf) }},
}

var pairTops = []struct {
	name string
	top  func(*GT) *GT
}{
	{"top", idTop},
	{"in-struct", func(t *GT) *GT { return gStruct([]string{"head"}, t) }},
	{"in-struct-optkey", func(t *GT) *GT { return gStruct([]string{"n", "?head"}, gInt, t) }},
	{"in-array", func(t *GT) *GT { return gW("Array", t) }},
	{"in-tuple", func(t *GT) *GT { return gW("Tuple", t, t) }},
	{"in-optional", func(t *GT) *GT { return gW("Optional", t) }},
	{"in-hash", func(t *GT) *GT { return gW("Hash", gStr, t) }},
	{"in-variant", func(t *GT) *GT { return gW("Variant", t, gW("Array", t)) }},
}

// aliasPairs: two DIFFERENT declarations on the two sides - recursive aliases of every decomposed constructor that
// differ in a leaf (List1 / List2), in an additional optional key (List3), in the constructor (Hash against Struct,
// Array against Tuple, ...), mutually recursive pairs, at the top and below every constructor; and every small graph
// of aliasGraphs against copies of itself that differ in one leaf
func aliasPairs(rng *lib.Rng, graphs []*GSpec, thorough bool) []*GPair {
	var out []*GPair
	one := func(fam string, body, top *GT) *GSpec {
		return &GSpec{Fam: fam, Route: "parsed", Bodies: []*GT{body}, Top: top}
	}
	// every small graph against copies of itself that differ in one leaf (the first, the middle, the last one)
	for _, g := range graphs {
		if !g.Twin {
			continue
		}
		_, n := mutateLeaf(g, 0)
		if n == 0 {
			continue
		}
		ks := map[int]bool{0: true, n / 2: true, n - 1: true}
		if g.Fam == "random" || thorough {
			ks[rng.Intn(n)] = true
		}
		idx := make([]int, 0, len(ks))
		for k := range ks {
			idx = append(idx, k)
		}
		sort.Ints(idx)
		for _, k := range idx {
			m, _ := mutateLeaf(g, k)
			out = append(out, &GPair{Fam: "leaf-twin." + g.Fam, E: g, A: m})
		}
	}
	// ladders of different constructors on the two sides, aliases directly at the positions the describers pair
	// (Array chain / Tuple ladder, Hash chain / Struct ladder, ...), the bottoms differ
	crossKinds := []string{"Struct", "Tuple", "ArrTuple", "Hash", "VarArrHash", "Arr", "HashStr"}
	for _, n := range []int{2, 3} {
		for i, k1 := range crossKinds {
			for j, k2 := range crossKinds {
				if i == j {
					continue
				}
				route := []string{"ctor", "parsed"}[(i+j+n)%2]
				out = append(out, &GPair{Fam: "cross." + k1 + "-" + k2, E: ladder(k1, n, 2, gInt, route, idTop, false), A: ladder(k2, n, 2, gStr, route, idTop, false)})
			}
		}
	}
	self := gAl(0)
	add := func(fam string, e, a func(top func(*GT) *GT) *GSpec) {
		for _, w := range pairTops {
			out = append(out, &GPair{Fam: fam + "." + w.name, E: e(w.top), A: a(w.top)},
				&GPair{Fam: fam + "." + w.name + ".swapped", E: a(w.top), A: e(w.top)})
		}
	}
	for _, k := range recKinds {
		k := k
		mk := func(leaf *GT) func(top func(*GT) *GT) *GSpec {
			return func(top func(*GT) *GT) *GSpec { return one("rec-"+k.name, k.body(self, leaf), top(self)) }
		}
		add("rec2."+k.name, mk(gInt), mk(gStr))
	}
	// one more optional key on one side (List1 / List3), one key less
	list := func(names []string, sub ...*GT) func(top func(*GT) *GT) *GSpec {
		return func(top func(*GT) *GT) *GSpec { return one("rec-list", gStruct(names, sub...), top(self)) }
	}
	add("rec2.extra-optional-key", list([]string{"v", "?next"}, gInt, self), list([]string{"v", "?next", "?tag"}, gInt, self, gStr))
	add("rec2.extra-required-key", list([]string{"v", "?next"}, gInt, self), list([]string{"v", "?next", "tag"}, gInt, self, gStr))
	add("rec2.other-key", list([]string{"v", "?next"}, gInt, self), list([]string{"v", "?prev"}, gInt, self))
	// different constructors on the two sides that the describers pair: Hash / Struct, Array / Tuple
	kind := func(name string) func(self, leaf *GT) *GT {
		for _, k := range recKinds {
			if k.name == name {
				return k.body
			}
		}
		panic(name)
	}
	for _, m := range [][2]string{{"hash", "struct-optkey"}, {"hash", "struct-tree"}, {"array", "tuple"}, {"variant", "array"}, {"variant-struct", "struct-optkey"},
		{"struct-optval", "struct-optkey"}, {"array", "variant"}} {
		m := m
		add("rec2.mixed."+m[0]+"."+m[1],
			func(top func(*GT) *GT) *GSpec { return one("rec-"+m[0], kind(m[0])(self, gInt), top(self)) },
			func(top func(*GT) *GT) *GSpec { return one("rec-"+m[1], kind(m[1])(self, gStr), top(self)) })
	}
	// mutually recursive pairs
	mutual := func(b0, b1 func(leaf *GT) *GT) func(leaf *GT) func(top func(*GT) *GT) *GSpec {
		return func(leaf *GT) func(top func(*GT) *GT) *GSpec {
			return func(top func(*GT) *GT) *GSpec {
				return &GSpec{Fam: "rec-mutual", Route: "parsed", Bodies: []*GT{b0(leaf), b1(leaf)}, Top: top(self)}
			}
		}
	}
	m1 := mutual(func(leaf *GT) *GT { return gStruct([]string{"v", "?p"}, leaf, gAl(1)) },
		func(leaf *GT) *GT { return gStruct([]string{"?q", "w"}, gAl(0), gInt) })
	m2 := mutual(func(leaf *GT) *GT { return gStruct([]string{"?p", "v"}, gAl(1), gInt) },
		func(leaf *GT) *GT { return gW("Array", gW("Variant", leaf, gAl(0))) })
	m3 := mutual(func(leaf *GT) *GT { return gW("Tuple", gInt, gW("Optional", gAl(1))) },
		func(leaf *GT) *GT { return gW("Hash", gStr, gW("Variant", leaf, gAl(0))) })
	add("rec2.mutual.struct-struct", m1(gInt), m1(gStr))
	add("rec2.mutual.struct-array", m2(gInt), m2(gStr))
	add("rec2.mutual.tuple-hash", m3(gInt), m3(gStr))
	return out
}

// the actual types and values every graph is checked against
var aliasActuals = []string{"String", "Undef", "Struct[{left=>String}]", "Struct[{left=>String, right=>String}]", "Tuple[String, String]",
	"Array[String]", "Hash[String, String]", "Variant[String, Float]", "Callable[[String], String]"}
var aliasValues = []string{"str", "arr", "hash"}

// ---- decoding a built type into the universe of Model/DescribeWalk.v ----

type walkEnv struct {
	idx    map[*types.TypeAliasType]int
	bodies []string
	ok     bool
}

func gOptA(s string, present bool) string {
	if !present {
		return "None"
	}
	return "(Some " + s + ")"
}

func (w *walkEnv) term(t px.Type) string {
	list := func(ts []px.Type) string {
		ss := make([]string, len(ts))
		for i, e := range ts {
			ss[i] = w.term(e)
		}
		return lib.GList(ss, "aty")
	}
	switch t := t.(type) {
	case *types.TypeAliasType:
		i, seen := w.idx[t]
		if !seen {
			i = len(w.bodies)
			w.idx[t] = i
			w.bodies = append(w.bodies, "")
			var rt px.Type
			if _, crash := lat.Guarded(func() bool { rt = t.ResolvedType(); return true }); crash != "" || rt == nil {
				w.ok = false
				return "ALeaf"
			}
			w.bodies[i] = w.term(rt)
		}
		return "(AAlias " + lib.GNat(i) + ")"
	case *types.TypeReferenceType:
		return "(ARef " + lib.GStr(t.TypeString()) + ")"
	case *types.ArrayType:
		return "(a_array " + w.term(t.ElementType()) + ")"
	case *types.HashType:
		return "(a_hash " + w.term(t.KeyType()) + " " + w.term(t.ValueType()) + ")"
	case *types.TupleType:
		return "(a_tuple " + list(t.Types()) + ")"
	case *types.VariantType:
		return "(a_variant " + list(t.Types()) + ")"
	case *types.OptionalType:
		return "(a_wrap " + w.term(t.ContainedType()) + ")"
	case *types.NotUndefType:
		return "(a_wrap " + w.term(t.ContainedType()) + ")"
	case *types.TypeType:
		return "(a_wrap " + w.term(t.ContainedType()) + ")"
	case *types.SensitiveType:
		return "(a_wrap " + w.term(t.ContainedType()) + ")"
	case *types.StructType:
		ms := make([]string, 0)
		for _, e := range t.Elements() {
			ms = append(ms, "("+w.term(e.Key())+", "+w.term(e.Value())+")")
		}
		return "(a_struct " + lib.GList(ms, "aty * aty") + ")"
	case *types.CallableType:
		p, b, r := t.ParametersType(), t.BlockType(), t.ReturnType()
		ps, bs, rs := "None", "None", "None"
		if p != nil {
			ps = gOptA(w.term(p), true)
		}
		if b != nil {
			bs = gOptA(w.term(b), true)
		}
		if r != nil {
			rs = gOptA(w.term(r), true)
		}
		return "(a_callable " + ps + " " + bs + " " + rs + ")"
	case *types.AnyType, *types.IntegerType, *types.FloatType, *types.BooleanType, *types.UndefType, *types.DefaultType, *types.NumericType,
		*types.ScalarType, *types.ScalarDataType, *types.BinaryType, *types.UnitType, *types.EnumType, *types.RegexpType, *types.TimestampType:
		return "ALeaf"
	case nil:
		w.ok = false
		return "ALeaf"
	}
	switch fmt.Sprintf("%T", t) {
	case "*types.stringType", "*types.vcStringType":
		return "ALeaf"
	case "*types.scStringType":
		return "a_sc_string"
	}
	w.ok = false // a kind whose Accept is not modelled
	return "ALeaf"
}

// walkObs: the graph of e as Gallina terms and the visits of e.Accept(visitor, nil)
type walkObs struct {
	InModel bool
	Env     string
	Top     string
	Visits  string // Gallina: WVisits [...] | WCrash
	NVisit  int
	NAlias  int // alias visits
	NEnv    int // distinct aliases
}

func observeWalk(e px.Type) (o walkObs) {
	w := &walkEnv{idx: map[*types.TypeAliasType]int{}, ok: true}
	if _, crash := lat.Guarded(func() bool { o.Top = w.term(e); return true }); crash != "" {
		return
	}
	o.InModel = w.ok
	o.Env = lib.GList(w.bodies, "aty")
	o.NEnv = len(w.bodies)
	var evs []string
	_, crash := lat.Guarded(func() bool {
		e.Accept(func(t px.Type) {
			o.NVisit++
			switch t := t.(type) {
			case *types.TypeAliasType:
				o.NAlias++
				if i, ok := w.idx[t]; ok {
					evs = append(evs, "VAlias "+lib.GNat(i))
				} else {
					evs = append(evs, "VAlias "+lib.GNat(len(w.bodies)+1))
				}
			case *types.TypeReferenceType:
				evs = append(evs, "VRef "+lib.GStr(t.TypeString()))
			default:
				evs = append(evs, "VOther")
			}
		}, nil)
		return true
	})
	if crash != "" {
		o.Visits = "WCrash"
	} else if len(evs) > 5000 {
		// far beyond any graph of the generators (the largest makes 400 visits): only the number is compared
		o.Visits = "(WMany " + lib.GN(uint64(len(evs))) + ")"
	} else {
		o.Visits = "(WVisits " + lib.GList(evs, "ev") + ")"
	}
	return
}

func stageOf(o descObs) string {
	switch {
	case o.HCrash != "":
		return "SCrash"
	case len(o.MS) == 0:
		return "SNone"
	case len(o.MS) == 1 && o.MS[0].Class == "unresolvedTypeReference":
		return "SUnresolved"
	}
	return "SOther"
}

func walkCaseTerm(w walkObs, asg bool, o descObs) string {
	return fmt.Sprintf("(%s, %s, %s, %s, %s)", w.Env, w.Top, w.Visits, lib.GBool(asg), stageOf(o))
}

// descentsOf: for every mismatch the number of path elements below the subject that are not of kind variant - each
// of them is made together with a descent into the actual type
func descentsOf(o descObs) []string {
	ds := make([]string, len(o.MS))
	for i, m := range o.MS {
		n := 0
		for _, pe := range m.Path {
			if pe.Kind != "" && pe.Kind != "variant" {
				n++
			}
		}
		ds[i] = lib.GNat(n)
	}
	return ds
}

// actualCaseTerm: (resolved types of the aliases met in the actual type, the actual type, the descents of the
// observed description) for Model/DescribeActual.v; "" when the actual type is outside the universe of the model
// or the structured call crashed
func actualCaseTerm(a px.Type, o descObs) string {
	if o.HCrash != "" {
		return ""
	}
	w := &walkEnv{idx: map[*types.TypeAliasType]int{}, ok: true}
	top := ""
	if _, crash := lat.Guarded(func() bool { top = w.term(a); return true }); crash != "" || !w.ok {
		return ""
	}
	return fmt.Sprintf("(%s, %s, %s)", lib.GList(w.bodies, "aty"), top, lib.GList(descentsOf(o), "nat"))
}

func newActualCases() *lib.CasesFile {
	return &lib.CasesFile{Imports: []string{"Model.Base", "Model.DescribeWalk", "Model.DescribeActual", "Corr.CorrC19"}, Typ: "actual_case",
		Obligations: map[string]string{"actual_model": "actual_mismatches cases"}}
}

func newWalkCases() *lib.CasesFile {
	return &lib.CasesFile{Imports: []string{"Model.Base", "Model.DescribeWalk", "Corr.CorrC19"}, Typ: "walk_case",
		Obligations: map[string]string{"walk_model": "walk_mismatches cases"}}
}

// ---- one request, evaluated in the child ----

type aReq struct {
	G   *GSpec `json:"g"`
	AG  *GSpec `json:"ag,omitempty"`  // the graph of the actual type (Act = "graph": its top type, "graph-resolved": what that resolves to)
	Act string `json:"act,omitempty"` // an actual type (text), "twin", "twin-resolved", "graph" or "graph-resolved"
	Val string `json:"val,omitempty"` // or a value: str | arr | hash
}

type aReply struct {
	Violations []lib.Violation `json:"violations"`
	Case       string          `json:"case,omitempty"` // the walk case (Gallina) when the graph lies in the model
	ACase      string          `json:"acase,omitempty"` // the actual-side case (Gallina) when the actual type lies in the model
	Actual     string          `json:"actual,omitempty"`
	Asg        bool            `json:"asg"`
	Text       string          `json:"text"`
	Expected   string          `json:"expected"`
	NVisit     int             `json:"nvisit"`
	NAlias     int             `json:"nalias"`
	NEnv       int             `json:"nenv"`
	Outcome    string          `json:"outcome"`
}

func (r *aReq) input() map[string]interface{} {
	in := map[string]interface{}{"kind": "galias", "g": r.G, "act": r.Act, "val": r.Val}
	if r.AG != nil {
		in["ag"] = r.AG
	}
	return in
}

// evalAlias makes the implementation calls of one request; stage is told before every call
func evalAlias(r *aReq, stage func(string)) (rep aReply) {
	res := lib.NewResult("C19")
	in := r.input()
	stage("building the alias graph")
	var e px.Type
	if _, crash := lat.Guarded(func() bool { e = r.G.Build(); return true }); crash != "" || e == nil {
		rep.Outcome = "rejected-by-constructor: " + crash
		return
	}
	stage("String() of the expected type")
	lat.Guarded(func() bool { rep.Expected = e.String(); return true })
	de := xDecode(e)
	if r.Val != "" {
		var v px.Value = types.WrapString("x")
		t := e
		switch r.Val {
		case "arr":
			v = types.WrapValues([]px.Value{types.WrapString("x")})
			t = types.NewArrayType(e, nil)
		case "hash":
			v = types.WrapHash([]*types.HashEntry{types.WrapHashEntry2("left", types.WrapString("x"))})
		}
		stage("IsInstance")
		inst, crash := lat.Guarded(func() bool { return px.IsInstance(t, v) })
		if crash != "" {
			rep.Outcome = "lattice-crash"
			return
		}
		stage("AssertInstance")
		o := checkAssert(res, t, v, xDecode(t), inst, in, rep.Expected, lat.ValText(v))
		rep.Violations, rep.Text, rep.Outcome = res.Violations, o.Detail, "assert"
		return
	}
	var a px.Type
	stage("building the actual type")
	_, crash := lat.Guarded(func() bool {
		switch r.Act {
		case "twin":
			a = r.G.Build()
		case "twin-resolved":
			a = r.G.Build()
			if al, ok := a.(*types.TypeAliasType); ok {
				a = al.ResolvedType()
			}
		case "graph":
			a = r.AG.Build()
		case "graph-resolved":
			a = r.AG.Build()
			if al, ok := a.(*types.TypeAliasType); ok {
				a = al.ResolvedType()
			}
		default:
			a = px.CurrentContext().ParseType(r.Act)
		}
		return true
	})
	if crash != "" || a == nil {
		rep.Outcome = "actual rejected: " + crash
		return
	}
	stage("IsAssignable")
	asg, crash := lat.Guarded(func() bool { return px.IsAssignable(e, a) })
	if crash != "" {
		rep.Outcome = "lattice-crash"
		return
	}
	rep.Asg = asg
	stage("DescribeMismatch")
	at := ""
	lat.Guarded(func() bool { at = a.String(); return true })
	o := checkPair(res, e, a, de, xDecode(a), asg, in, rep.Expected, at)
	rep.Text, rep.Actual = o.Text, at
	rep.ACase = actualCaseTerm(a, o)
	stage("AssertType")
	ao := observeAssert(func() { px.AssertType(subject, e, a) })
	if ao.Crash != "" || ao.Returned != asg || (!ao.Returned && ao.Code != string(px.TypeMismatch)) {
		res.Violate(lib.Violation{Clause: "total", What: fmt.Sprintf("AssertType(%s, %s): returned=%v issue=%q %s although IsAssignable = %v", rep.Expected, at, ao.Returned, ao.Code, ao.Crash, asg),
			Input: in, Tags: []string{"assert-type:" + de.K}})
	}
	stage("Accept (the walk of describe)")
	w := observeWalk(e)
	rep.NVisit, rep.NAlias, rep.NEnv = w.NVisit, w.NAlias, w.NEnv
	if w.InModel {
		rep.Case = walkCaseTerm(w, asg, o)
	}
	rep.Violations, rep.Outcome = res.Violations, "desc"
	return
}

// aworkerMain: one JSON request per line; answers "@<stage>" lines and then "=<reply JSON>"
func aworkerMain() {
	// the goroutine stack of a Go program is not bounded by `ulimit -s` but by the runtime (1 GB: minutes of work
	// before an unbounded recursion dies - the describer copies its path at every level, so the work is quadratic in
	// the depth): 8 MB is far above what the deepest graph of the generators needs (< 1 MB) and an unbounded
	// recursion reaches it in well under a second - the runtime then ends the process with "fatal error: stack
	// overflow", which the parent reports as a dead child
	debug.SetMaxStack(8 << 20)
	in := bufio.NewReaderSize(os.Stdin, 1<<20)
	out := bufio.NewWriterSize(os.Stdout, 1<<20)
	for {
		line, err := in.ReadString('\n')
		if err != nil {
			return
		}
		var r aReq
		if err := json.Unmarshal([]byte(line), &r); err != nil {
			fmt.Fprintln(out, "=") // cannot happen: the parent marshalled it
			out.Flush()
			continue
		}
		rep := evalAlias(&r, func(s string) { fmt.Fprintln(out, "@"+s); out.Flush() })
		b, _ := json.Marshal(&rep)
		out.WriteString("=")
		out.Write(b)
		out.WriteString("\n")
		out.Flush()
	}
}

// ---- the parent side ----

type achild struct {
	cmd   *exec.Cmd
	in    io.WriteCloser
	lines chan string
}

func startAChild() *achild {
	self, err := os.Executable()
	if err != nil {
		panic(err)
	}
	cmd := exec.Command("bash", "-c", fmt.Sprintf("ulimit -v 6000000; exec '%s' -aworker -out /dev/null", self))
	in, err := cmd.StdinPipe()
	if err != nil {
		panic(err)
	}
	outp, err := cmd.StdoutPipe()
	if err != nil {
		panic(err)
	}
	if err := cmd.Start(); err != nil {
		panic(err)
	}
	c := &achild{cmd: cmd, in: in, lines: make(chan string, 64)}
	go func() {
		rd := bufio.NewReaderSize(outp, 1<<20)
		for {
			l, err := rd.ReadString('\n')
			if err != nil {
				close(c.lines)
				return
			}
			c.lines <- strings.TrimRight(l, "\n")
		}
	}()
	return c
}

func (c *achild) kill() {
	_ = c.in.Close()
	_ = c.cmd.Process.Kill()
	_, _ = c.cmd.Process.Wait()
}

// ask returns the reply, or how the call failed: "timeout" / "died", and the stage it was in
func (c *achild) ask(r *aReq, deadline time.Duration) (rep *aReply, failure, stage string) {
	b, _ := json.Marshal(r)
	if _, err := c.in.Write(append(b, '\n')); err != nil {
		return nil, "died", ""
	}
	timer := time.After(deadline)
	for {
		select {
		case l, ok := <-c.lines:
			switch {
			case !ok:
				return nil, "died", stage
			case strings.HasPrefix(l, "@"):
				stage = l[1:]
			case strings.HasPrefix(l, "="):
				rep = &aReply{}
				if err := json.Unmarshal([]byte(l[1:]), rep); err != nil {
					return nil, "died", stage
				}
				return rep, "", stage
			}
		case <-timer:
			return nil, "timeout", stage
		}
	}
}

type aliasRunner struct {
	child    *achild
	deadline time.Duration
	hangs    int
	minHang  int // the smallest graph (number of aliases) that did not come back
	slow     int // answers that took more than half a second (the unchanged library: none)
	minSlow  int
}

func (ar *aliasRunner) close() {
	if ar.child != nil {
		ar.child.kill()
		ar.child = nil
	}
}

// run evaluates one request in the child; a call that does not return within the deadline (or kills the
// child) is a violation of clause total
func (ar *aliasRunner) run(res *lib.Result, r *aReq) *aReply {
	if ar.child == nil {
		ar.child = startAChild()
	}
	res.Evaluations++
	t0 := time.Now()
	rep, failure, stage := ar.child.ask(r, ar.deadline)
	if failure == "" {
		if time.Since(t0) > 500*time.Millisecond {
			ar.slow++
			if n := len(r.G.Bodies); ar.minSlow == 0 || n < ar.minSlow {
				ar.minSlow = n
			}
		}
		for _, v := range rep.Violations {
			res.Violate(v)
		}
		return rep
	}
	ar.close()
	ar.hangs++
	if n := len(r.G.Bodies); ar.minHang == 0 || n < ar.minHang {
		ar.minHang = n
	}
	against := "the actual type " + r.Act
	if r.AG != nil {
		against = fmt.Sprintf("an actual type that is a different graph of %d type aliases (%s; %s)", len(r.AG.Bodies), r.AG.Fam, r.Act)
	}
	if r.Val != "" {
		against = "a value (" + r.Val + ")"
	}
	what := fmt.Sprintf("%s did not return within %v", stage, ar.deadline)
	tag := "timeout"
	if failure == "died" {
		what = stage + ": the child process died (fatal error, stack or memory exhausted)"
		tag = "died"
	}
	res.Violate(lib.Violation{Clause: "total",
		What: fmt.Sprintf("%s for an expected type that is a graph of %d type aliases (%s, route %s) against %s: the mismatch description is not produced",
			what, len(r.G.Bodies), r.G.Fam, r.G.Route, against),
		Input: r.input(), Tags: []string{tag + ":alias-graph:" + stage}})
	return nil
}

func runAlias(cfg *lib.Config, res *lib.Result, rng *lib.Rng, u *lat.Universe) {
	graphs := aliasGraphs(rng, cfg.Thorough())
	ar := &aliasRunner{deadline: 3 * time.Second}
	maxHangs := 3
	if cfg.Thorough() {
		ar.deadline, maxHangs = 10*time.Second, 6
	}
	defer ar.close()
	cf := newWalkCases()
	type actualCase struct {
		term string
		in   interface{}
	}
	var actualCases []actualCase
	maxVisits, maxAliases := 0, 0
	for gi, g := range graphs {
		res.Count("galias." + g.Fam + "." + g.Route)
		var reqs []*aReq
		for _, a := range aliasActuals {
			reqs = append(reqs, &aReq{G: g, Act: a})
		}
		if g.Twin {
			reqs = append(reqs, &aReq{G: g, Act: "twin"}, &aReq{G: g, Act: "twin-resolved"})
		}
		for _, v := range aliasValues {
			reqs = append(reqs, &aReq{G: g, Val: v})
		}
		for ri, r := range reqs {
			if ar.hangs >= maxHangs && len(g.Bodies) >= ar.minHang {
				// enough hanging inputs are pinned (each costs the deadline); the run fails anyway
				res.Count("galias.skipped-after-hangs")
				continue
			}
			if ar.slow >= 6 && len(g.Bodies) >= ar.minSlow && ri > 0 {
				// the calls have become slow on graphs of this size: one actual type per graph is enough to
				// find the size from which they do not return
				res.Count("galias.skipped-slow")
				continue
			}
			rep := ar.run(res, r)
			if rep == nil {
				continue
			}
			res.Count("galias.outcome." + strings.SplitN(rep.Outcome, ":", 2)[0])
			if rep.Outcome != "desc" {
				if rep.Outcome != "assert" {
					o := rep.Outcome
					if len(o) > 90 {
						o = o[:90]
					}
					res.Count("galias.unusable." + g.Route + "." + o)
				}
				continue
			}
			if rep.NVisit > maxVisits {
				maxVisits = rep.NVisit
			}
			if rep.NEnv > maxAliases {
				maxAliases = rep.NEnv
			}
			if rep.Asg {
				res.Count("galias.assignable")
			} else {
				res.Count("galias.not-assignable")
				res.Nontrivial("g:" + g.String() + "/" + r.Act)
			}
			// the walk is the same for every actual type: two cases per graph (a scalar and the deepest
			// description), all of them for the small graphs
			if rep.Case != "" && (ri == 0 || ri == 3 || len(g.Bodies) <= 2 || r.Act == "twin-resolved") {
				cf.Add(rep.Case, r.input())
			}
			// the actual side (Model/DescribeActual.v): the structured actual types, for every third graph
			if rep.ACase != "" && ri >= 2 && (gi%3 == 0 || g.Twin) {
				actualCases = append(actualCases, actualCase{rep.ACase, r.input()})
			}
			if gi%97 == 5 && ri == 2 {
				res.Sample(map[string]interface{}{"expected": rep.Expected, "aliases": rep.NEnv, "visits": rep.NVisit, "actual": r.Act, "text": rep.Text})
			}
		}
	}
	// both sides graphs of aliases, two different declarations
	acf := newActualCases()
	for _, c := range actualCases {
		acf.Add(c.term, c.in)
	}
	pairs := aliasPairs(lib.NewRng(cfg.Seed+1919), graphs, cfg.Thorough())
	hangs0 := ar.hangs
	famHangs := map[string]int{} // calls that did not come back, per family: two pinned inputs per family, 12 per run
	for pi, p := range pairs {
		fam := strings.SplitN(p.Fam, ".", 3)
		res.Count("galias2." + strings.Join(fam[:len(fam)-1], "."))
		acts := []string{"graph", "graph-resolved"}
		if fam[0] == "leaf-twin" {
			acts = acts[:1+pi%2]
		}
		for _, act := range acts {
			famKey := strings.Join(fam[:len(fam)-1], ".")
			if ar.hangs-hangs0 >= 4*maxHangs || famHangs[famKey] >= 2 {
				res.Count("galias2.skipped-after-hangs")
				continue
			}
			r := &aReq{G: p.E, AG: p.A, Act: act}
			rep := ar.run(res, r)
			if rep == nil {
				famHangs[famKey]++
				continue
			}
			res.Count("galias2.outcome." + strings.SplitN(rep.Outcome, ":", 2)[0])
			if rep.Outcome != "desc" {
				o := rep.Outcome
				if len(o) > 90 {
					o = o[:90]
				}
				res.Count("galias2.unusable." + fam[0] + "." + o)
				continue
			}
			if rep.Asg {
				res.Count("galias2.assignable")
			} else {
				res.Count("galias2.not-assignable")
				res.Nontrivial("gp:" + p.E.String() + "/" + p.A.String() + "/" + act)
			}
			if rep.ACase != "" {
				res.Count("galias2.actual-case")
				acf.Add(rep.ACase, r.input())
			} else {
				res.Count("galias2.actual-outside-the-model")
			}
			if rep.Case != "" && fam[0] != "leaf-twin" && act == "graph" {
				cf.Add(rep.Case, r.input())
			}
			if pi%97 == 11 {
				res.Sample(map[string]interface{}{"expected": rep.Expected, "actual": rep.Actual, "family": p.Fam, "text": rep.Text})
			}
		}
	}
	ar.close()
	res.Extra["alias_graph_pairs"] = len(pairs)
	res.Extra["alias_graphs"] = len(graphs)
	res.Extra["alias_graph_max_aliases"] = maxAliases
	res.Extra["alias_graph_max_visits"] = maxVisits
	res.Extra["alias_graph_hangs"] = ar.hangs

	// the same tie for types of the other pools: every tenth lattice type (Data / RichData are recursive
	// aliases with fan-in) and the alias recipes of the extended pool, in this process
	inProc := func(e px.Type, in map[string]interface{}) {
		w := observeWalk(e)
		if !w.InModel {
			res.Count("walk.pool-type-outside-the-model")
			return
		}
		a := types.DefaultBinaryType()
		asg, crash := lat.Guarded(func() bool { return px.IsAssignable(e, a) })
		if crash != "" {
			return
		}
		res.Count("walk.pool-type")
		cf.Add(walkCaseTerm(w, asg, describe(e, a)), in)
	}
	bin := lat.A("Binary")
	for i := range u.L {
		if i%10 == 0 || u.Dec[i].K == "Alias" {
			inProc(u.L[i], map[string]interface{}{"kind": "desc", "a": u.Specs[i], "b": bin})
		}
	}
	for _, s := range extPool(lib.NewRng(cfg.Seed), 0) {
		if !strings.Contains(s.String(), `"Alias"`) {
			continue
		}
		var e px.Type
		if _, crash := lat.Guarded(func() bool { e = s.Build(); return true }); crash == "" && e != nil {
			inProc(e, xInput("xdesc", s, xl(bin)))
		}
	}
	// the actual side for pairs of the lattice pool: every tenth type against three structured actual types
	var structured []int
	for j := range u.L {
		switch u.Dec[j].K {
		case "Struct", "Tuple", "Array", "Hash", "Alias", "Callable", "Optional", "Variant":
			structured = append(structured, j)
		}
	}
	for i := range u.L {
		if i%10 != 0 || len(structured) == 0 {
			continue
		}
		for k := 0; k < 3; k++ {
			j := structured[(i*7+k*131+5)%len(structured)]
			e, a := u.L[i], u.L[j]
			var o descObs
			if _, crash := lat.Guarded(func() bool { o = describe(e, a); return true }); crash != "" {
				continue
			}
			if t := actualCaseTerm(a, o); t != "" {
				res.Count("actual.pool-pair")
				acf.Add(t, map[string]interface{}{"kind": "desc", "a": u.Specs[i], "b": u.Specs[j]})
			}
		}
	}
	res.CorrFiles = append(res.CorrFiles, acf.WriteTo(cfg.Out, "cases_actual_0"))
	// two files: the driver evaluates them in parallel
	half := [2]*lib.CasesFile{newWalkCases(), newWalkCases()}
	for i := range cf.Cases {
		half[i%2].Add(cf.Cases[i], cf.Inputs[i])
	}
	for i, h := range half {
		res.CorrFiles = append(res.CorrFiles, h.WriteTo(cfg.Out, fmt.Sprintf("cases_walk_%d", i)))
	}
}

// replayAlias replays one recorded alias-graph input, in a child under the deadline
func replayAlias(res *lib.Result, in interface{}, cf, acf *lib.CasesFile) bool {
	var x struct {
		Kind string `json:"kind"`
		aReq
	}
	lib.Remarshal(in, &x)
	if x.Kind != "galias" || x.G == nil {
		return false
	}
	ar := &aliasRunner{deadline: 10 * time.Second}
	defer ar.close()
	fmt.Printf("expected: a graph of %d aliases (%s, route %s); actual = %q value = %q\n", len(x.G.Bodies), x.G.Fam, x.G.Route, x.Act, x.Val)
	if x.AG != nil {
		fmt.Printf("actual: a graph of %d aliases (%s, route %s)\n", len(x.AG.Bodies), x.AG.Fam, x.AG.Route)
	}
	before := len(res.Violations)
	rep := ar.run(res, &x.aReq)
	if rep != nil {
		fmt.Printf("expected = %s\nIsAssignable = %v\ntext/detail = %q\naliases = %d, visits of Accept = %d (alias visits %d)\n", rep.Expected, rep.Asg, rep.Text, rep.NEnv, rep.NVisit, rep.NAlias)
		if rep.Actual != "" {
			fmt.Printf("actual = %s\n", rep.Actual)
		}
		if rep.Case != "" {
			cf.Add(rep.Case, in)
		}
		if rep.ACase != "" {
			acf.Add(rep.ACase, in)
		}
	}
	if len(res.Violations) > before {
		fmt.Println("FAILS: " + res.Violations[before].What)
	} else {
		fmt.Println("the clauses of the property hold on this input")
	}
	return true
}
