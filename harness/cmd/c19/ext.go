// ext.go: the types outside the lattice universe of package lat — Callable with parameters / return type /
// block, Init, Like, TypeReference, Iterator, Iterable, Runtime, type aliases, Object and the remaining
// parameterised types — as expected and as actual type, at the top and nested below every constructor that
// has a describer of its own.
//
// D: all ordered pairs of this pool, and this pool against a sample of the lattice pool in both directions,
// with the same clauses as the lattice pairs (checkPair), plus AssertInstance on (extended type, value).
// M: the pairs whose expected type is a Callable of Model/DescribeCallable.v are sent to the model
// (casg, idesc_callable, describe_mismatch_callable, assert_type_callable) with what px.VerifDescribeTyped
// returned: class, path and the presence of the carried types of every mismatch.
package main

import (
	"encoding/json"
	"fmt"
	"sort"
	"strings"

	"github.com/lyraproj/issue/issue"
	"github.com/lyraproj/pcore/px"
	"github.com/lyraproj/pcore/types"
	"verifharness/lat"
	"verifharness/lib"
)

// XSpec is the recipe of a type that package lat cannot build. K = "L" wraps a recipe of package lat.
type XSpec struct {
	K       string       `json:"k"`
	L       *lat.Spec    `json:"l,omitempty"`
	Sub     []*XSpec     `json:"sub,omitempty"`
	Par     *XSpec       `json:"par,omitempty"` // Callable: the parameters tuple (absent = no parameters type)
	Ret     *XSpec       `json:"ret,omitempty"` // Callable: the return type
	Blk     *XSpec       `json:"blk,omitempty"` // Callable: the block type (a Callable or Optional[Callable])
	S       string       `json:"s,omitempty"`
	Lo      int64        `json:"lo,omitempty"`
	Hi      int64        `json:"hi,omitempty"`
	HasSize bool         `json:"has_size,omitempty"`
	Names   []string     `json:"names,omitempty"`
	KeyKind []int        `json:"key_kind,omitempty"`
	Args    []*lat.VSpec `json:"args,omitempty"` // Init: init_args
}

type goProbe struct{ A int }

func (s *XSpec) String() string {
	b, _ := json.Marshal(s)
	return string(b)
}

func (s *XSpec) Build() px.Type {
	sub := func(i int) px.Type { return s.Sub[i].Build() }
	subs := func() []px.Type {
		ts := make([]px.Type, len(s.Sub))
		for i := range s.Sub {
			ts[i] = sub(i)
		}
		return ts
	}
	opt := func(x *XSpec) px.Type {
		if x == nil {
			return nil
		}
		return x.Build()
	}
	switch s.K {
	case "L":
		return s.L.Build()
	case "Callable":
		return types.NewCallableType(opt(s.Par), opt(s.Ret), opt(s.Blk))
	case "Parsed":
		return px.CurrentContext().ParseType(s.S)
	case "Init":
		var args px.Value
		if len(s.Args) > 0 {
			vs := make([]px.Value, len(s.Args))
			for i, a := range s.Args {
				vs[i] = a.Build()
			}
			args = types.WrapValues(vs)
		}
		if len(s.Sub) == 0 {
			return types.NewInitType(nil, args)
		}
		return types.NewInitType(sub(0), args)
	case "TypeRef":
		return types.NewTypeReferenceType(s.S)
	case "Iterator":
		if len(s.Sub) == 0 {
			return types.DefaultIteratorType()
		}
		return types.NewIteratorType(sub(0))
	case "Iterable":
		if len(s.Sub) == 0 {
			return types.DefaultIterableType()
		}
		return types.NewIterableType(sub(0))
	case "Runtime":
		return types.DefaultRuntimeType()
	case "GoRuntime":
		return types.NewGoRuntimeType(&goProbe{})
	case "Like":
		return types.NewLikeType(sub(0), s.S)
	case "Alias":
		return types.NewTypeAliasType(s.S, nil, sub(0))
	case "Optional":
		return types.NewOptionalType(sub(0))
	case "NotUndef":
		return types.NewNotUndefType(sub(0))
	case "Type":
		return types.NewTypeType(sub(0))
	case "Sensitive":
		return types.NewSensitiveType(sub(0))
	case "Variant":
		return types.NewVariantType(subs()...)
	case "Array":
		return types.NewArrayType(sub(0), types.NewIntegerType(s.Lo, s.Hi))
	case "Hash":
		return types.NewHashType(sub(0), sub(1), types.NewIntegerType(s.Lo, s.Hi))
	case "Tuple":
		if s.HasSize {
			return types.NewTupleType(subs(), types.NewIntegerType(s.Lo, s.Hi))
		}
		return types.NewTupleType(subs(), nil)
	case "Struct":
		es := make([]*types.StructElement, len(s.Sub))
		for i := range s.Sub {
			var key px.Value = types.WrapString(s.Names[i])
			if s.KeyKind[i] == 1 {
				key = types.NewOptionalType(types.WrapString(s.Names[i]).PType())
			}
			es[i] = types.NewStructElement(key, sub(i))
		}
		return types.NewStructType(es)
	}
	panic("XSpec.Build: unknown kind " + s.K)
}

// ---- constructors of recipes ----

func xl(l *lat.Spec) *XSpec           { return &XSpec{K: "L", L: l} }
func xw(k string, t ...*XSpec) *XSpec { return &XSpec{K: k, Sub: t} }
func xparsed(s string) *XSpec         { return &XSpec{K: "Parsed", S: s} }
func xcallable(par, ret, blk *XSpec) *XSpec {
	return &XSpec{K: "Callable", Par: par, Ret: ret, Blk: blk}
}
func xtup(ts ...*XSpec) *XSpec { return &XSpec{K: "Tuple", Sub: ts} }
func xtupSz(lo, hi int64, ts ...*XSpec) *XSpec {
	return &XSpec{K: "Tuple", Sub: ts, HasSize: true, Lo: lo, Hi: hi}
}
func xarr(t *XSpec) *XSpec { return &XSpec{K: "Array", Sub: []*XSpec{t}, Lo: 0, Hi: lat.Max} }
func xhash(k, v *XSpec) *XSpec {
	return &XSpec{K: "Hash", Sub: []*XSpec{k, v}, Lo: 0, Hi: lat.Max}
}
func xstruct(name string, kind int, t *XSpec) *XSpec {
	return &XSpec{K: "Struct", Names: []string{name}, KeyKind: []int{kind}, Sub: []*XSpec{t}}
}
func xalias(name string, t *XSpec) *XSpec { return &XSpec{K: "Alias", S: name, Sub: []*XSpec{t}} }
func xinit(t *XSpec, args ...*lat.VSpec) *XSpec {
	s := &XSpec{K: "Init", Args: args}
	if t != nil {
		s.Sub = []*XSpec{t}
	}
	return s
}

var (
	xInt  = xl(lat.Int(lat.Min, lat.Max))
	xStr  = xl(lat.A("String"))
	xAny  = xl(lat.A("Any"))
	xUnd  = xl(lat.A("Undef"))
	xI05  = xl(lat.Int(0, 5))
	xOptI = xl(lat.W("Optional", lat.Int(lat.Min, lat.Max)))
)

// the parameter tuples, return types and block types every Callable of the bounded-exhaustive family is built from
func callableParts() (pars, rets, blks []*XSpec) {
	pars = []*XSpec{nil, xtupSz(0, 0), xtup(xStr), xtup(xStr, xInt), xtupSz(1, 2, xStr), xtupSz(0, lat.Max, xAny), xtup(xI05)}
	rets = []*XSpec{nil, xAny, xInt, xStr, xOptI}
	bare := xcallable(nil, nil, nil)
	cI := xcallable(xtup(xInt), nil, nil)
	cS := xcallable(xtup(xStr), nil, nil)
	blks = []*XSpec{nil, bare, cI, xw("Optional", cI), cS, xcallable(xtup(xInt), xStr, cS)}
	return
}

// the Callables that are put below every constructor
func keyCallables() []*XSpec {
	cI := xcallable(xtup(xInt), nil, nil)
	return []*XSpec{
		xcallable(nil, nil, nil),
		xcallable(xtup(xStr), nil, nil),
		xcallable(xtup(xStr), xInt, nil),
		xcallable(xtupSz(0, 0), xInt, nil),
		xcallable(xtup(xStr), nil, cI),
		xcallable(xtup(xStr), xInt, xw("Optional", cI)),
	}
}

// extPool: bounded-exhaustive families first, then seeded random Callables
func extPool(rng *lib.Rng, nRandom int) []*XSpec {
	var out []*XSpec
	pars, rets, blks := callableParts()
	for _, p := range pars {
		for _, r := range rets {
			for _, b := range blks {
				out = append(out, xcallable(p, r, b))
			}
		}
	}
	keys := keyCallables()
	for i, c := range keys {
		other := keys[(i+2)%len(keys)]
		out = append(out,
			xw("Optional", c), xw("NotUndef", c), xw("Type", c), xw("Sensitive", c),
			xw("Variant", xInt, c), xw("Variant", c, other), xw("Variant", xw("Optional", c), xStr),
			xarr(c), xtup(c), xtup(xStr, c), xtupSz(1, 3, c), xhash(xStr, c),
			xstruct("f", 0, c), xstruct("f", 1, c),
			xcallable(xtup(c), nil, nil), xcallable(xtup(xStr, c), xInt, nil), // a Callable parameter
			xcallable(xtup(xStr), c, nil),                                     // a Callable return type
			xalias(fmt.Sprintf("MyCallable%d", i), c),
			xw("Iterable", c), xw("Iterator", c))
	}
	// Init: bare, of types with and without a constructor, with init arguments
	for _, t := range []*XSpec{nil, xInt, xStr, xI05, xl(lat.A("FloatDefault")), xl(lat.Bln(-1)), xl(lat.A("Binary")),
		xl(lat.Arr(lat.Int(lat.Min, lat.Max), 0, lat.Max)), xl(lat.Hsh(lat.A("String"), lat.Int(lat.Min, lat.Max), 0, lat.Max)),
		xl(lat.Struct(lat.Member{"a", 0, lat.Int(lat.Min, lat.Max)})), xl(lat.Tup(lat.Int(lat.Min, lat.Max), lat.A("String"))),
		xl(lat.A("Timestamp")), xl(lat.A("Timespan")), xl(lat.A("SemVer")), xl(lat.A("Numeric")), xl(lat.A("Scalar")),
		xUnd, xAny, xOptI, xl(lat.Var(lat.Int(lat.Min, lat.Max), lat.A("String"))), xl(lat.W("NotUndef", lat.A("String"))),
		xl(lat.A("Data")), xl(lat.A("RichData")), xl(lat.Enum(false, "a", "b")), xl(lat.Pat("^a+$")), xl(lat.Rx("a")),
		xl(lat.W("Type", lat.A("Any"))), xl(lat.W("Sensitive", lat.A("Any"))), keys[0], keys[2],
		xparsed(`URI`), xparsed(`SemVerRange`), xparsed(`Object[{name=>'Verif::Pt', attributes=>{x=>Integer, y=>Integer}}]`)} {
		out = append(out, xinit(t))
	}
	out = append(out, xinit(xInt, lat.VI(16)), xinit(xStr, lat.VS("%d")), xinit(xInt, lat.VS("x")), xinit(nil, lat.VI(1)),
		xw("Optional", xinit(nil)), xw("Optional", xinit(xInt)), xarr(xinit(xInt)), xarr(xinit(nil)), xtup(xinit(xStr)),
		xstruct("f", 0, xinit(xInt)), xw("Variant", xinit(xInt), xStr), xalias("MyInit", xinit(xInt)))
	// unresolved references, at the top and below the constructors
	for _, n := range []string{"Foo", "Foo::Bar"} {
		r := &XSpec{K: "TypeRef", S: n}
		out = append(out, r, xarr(r), xw("Optional", r), xw("Variant", xInt, r), xstruct("f", 0, r), xtup(r), xhash(xStr, r),
			xcallable(xtup(r), nil, nil), xw("Type", r), xalias("MyRef"+strings.Replace(n, "::", "", -1), r))
	}
	// aliases of every kind that has a describer of its own (describeVariantType reports an alias of a Variant as one mismatch)
	for _, a := range []struct {
		n string
		t *XSpec
	}{
		{"MyInt", xInt}, {"MyVar", xl(lat.Var(lat.Int(lat.Min, lat.Max), lat.A("String")))},
		{"MyVarSz", xl(lat.Var(lat.Arr(lat.Int(lat.Min, lat.Max), 1, 2), lat.Arr(lat.Int(lat.Min, lat.Max), 4, 5)))},
		{"MyEmptyVar", xl(lat.Var())}, {"MyOpt", xOptI},
		{"MyOptVar", xl(lat.W("Optional", lat.Var(lat.Int(lat.Min, lat.Max), lat.A("String"))))},
		{"MyStruct", xl(lat.Struct(lat.Member{"a", 0, lat.Int(lat.Min, lat.Max)}))},
		{"MyTuple", xl(lat.Tup(lat.Int(lat.Min, lat.Max), lat.A("String")))},
		{"MyArr", xl(lat.Arr(lat.Int(lat.Min, lat.Max), 1, 2))}, {"MyHash", xl(lat.Hsh(lat.A("String"), lat.Int(lat.Min, lat.Max), 0, lat.Max))},
		{"MyEnum", xl(lat.Enum(false, "a", "b"))}, {"MyPat", xl(lat.Pat("^a+$"))}, {"MyAny", xAny}, {"MyUndef", xUnd},
		{"MyData", xl(lat.A("Data"))},
	} {
		al := xalias(a.n, a.t)
		out = append(out, al, xw("Optional", al), xarr(al), xw("Variant", al, xStr), xstruct("f", 0, al), xalias("Outer"+a.n, al))
	}
	// the remaining type kinds, through their constructors or the type parser
	out = append(out, xw("Iterator"), xw("Iterator", xInt), xw("Iterator", xStr), xw("Iterable"), xw("Iterable", xInt),
		&XSpec{K: "Runtime"}, &XSpec{K: "GoRuntime"}, xarr(&XSpec{K: "GoRuntime"}), xw("Optional", xw("Iterator", xInt)),
		&XSpec{K: "Like", S: "a", Sub: []*XSpec{xl(lat.Struct(lat.Member{"a", 0, lat.Int(lat.Min, lat.Max)}))}},
		&XSpec{K: "Like", S: "0", Sub: []*XSpec{xl(lat.Tup(lat.Int(lat.Min, lat.Max), lat.A("String")))}},
		&XSpec{K: "Like", S: "x", Sub: []*XSpec{xInt}})
	for _, s := range []string{`Object`, `Object[{name=>'Verif::Pt', attributes=>{x=>Integer, y=>Integer}}]`,
		`Object[{name=>'Verif::Nm', attributes=>{name=>String}}]`, `Array[Object[{name=>'Verif::Pt', attributes=>{x=>Integer, y=>Integer}}]]`,
		`URI`, `URI['http://example.com/a']`, `SemVer['>=1.0.0']`, `SemVerRange`, `Timestamp['2000-01-01', '2001-01-01']`,
		`Timespan['0-00:00:00', '1-00:00:00']`, `Deferred`, `TypeSet`, `Error`, `Type`, `Type[Callable]`, `Sensitive`, `Optional`, `NotUndef`,
		`Collection`, `Hash`, `Array`, `Tuple`, `Struct`, `Variant`, `Enum`, `Pattern`, `Regexp`, `Iterable`, `Iterator`, `Runtime`, `Init`, `Like`,
		`Callable[String]`, `Callable[[String], Integer]`, `Callable[0, 0]`, `Callable[[0, 0], Integer]`, `Callable[Integer, 1, 2]`,
		`Callable[String, Callable[Integer]]`, `Callable[String, Optional[Callable[Integer]]]`, `Callable[[String, Callable[Integer]], Integer]`,
		`Callable[[]]`, `Callable[[], Integer]`} {
		out = append(out, xparsed(s))
	}
	// seeded random Callables over random lattice types
	rt := func(d int) *XSpec { return xl(lat.RandomType(rng, d)) }
	var randomCallable func(depth int) *XSpec
	randomCallable = func(depth int) *XSpec {
		var par, ret, blk *XSpec
		if !rng.Chance(1, 5) {
			n := rng.Intn(4)
			ts := make([]*XSpec, n)
			for i := range ts {
				ts[i] = rt(rng.Intn(2))
			}
			if rng.Bool() {
				par = xtup(ts...)
			} else {
				lo := int64(rng.Intn(3))
				par = xtupSz(lo, lo+int64(rng.Intn(3)), ts...)
			}
		}
		if !rng.Chance(1, 3) {
			ret = rt(rng.Intn(2))
		}
		if depth > 0 && rng.Chance(1, 2) {
			blk = randomCallable(depth - 1)
			if rng.Chance(1, 3) {
				blk = xw("Optional", blk)
			}
		}
		return xcallable(par, ret, blk)
	}
	for i := 0; i < nRandom; i++ {
		out = append(out, randomCallable(2))
	}
	return out
}

// ---- the extended universe ----

type xUniverse struct {
	Specs []*XSpec
	L, R  []px.Type
	Dec   []*types.VerifTy // decoded, with K = the type name for what package types decodes as Other
	Text  []string
	Kind  []string
}

func reportedOnly(f func()) (reported bool, crash string) {
	defer func() {
		if r := recover(); r != nil {
			if _, ok := r.(issue.Reported); ok {
				reported = true
				return
			}
			crash = crashText(r)
		}
	}()
	f()
	return
}

func xDecode(t px.Type) *types.VerifTy {
	d := types.VerifDecodeType(t)
	if d.K == "Other" || d.K == "Alias" {
		c := *d
		if d.K == "Other" {
			c.K = d.S
		}
		if c.K == "" {
			c.K = "Object"
		}
		return &c
	}
	return d
}

// newXUniverse builds every recipe twice. A recipe is not a type when a constructor rejects it or when the
// type answers a question about itself with a reported error (Init of a type that has no constructor,
// Like of an attribute that does not exist: the library rejects those lazily, on first use).
func newXUniverse(res *lib.Result, specs []*XSpec) *xUniverse {
	u := &xUniverse{}
	seen := map[string]bool{}
	for _, s := range specs {
		k := s.String()
		if seen[k] {
			continue
		}
		seen[k] = true
		var l, r px.Type
		_, crash := lat.Guarded(func() bool { l = s.Build(); r = s.Build(); return true })
		if crash != "" || l == nil {
			res.Count("xpool.rejected-by-constructor")
			continue
		}
		if rep, _ := reportedOnly(func() { px.IsAssignable(l, r); px.IsAssignable(l, types.DefaultIntegerType()) }); rep {
			res.Count("xpool.rejected-on-first-use")
			continue
		}
		txt := ""
		lat.Guarded(func() bool { txt = l.String(); return true })
		d := xDecode(l)
		u.Specs, u.L, u.R, u.Dec, u.Text, u.Kind = append(u.Specs, s), append(u.L, l), append(u.R, r), append(u.Dec, d), append(u.Text, txt), append(u.Kind, s.K)
		res.Count("xpool." + s.K)
	}
	return u
}

// ---- values for the instance assertion on the extended types ----

type XVSpec struct {
	K string     `json:"k"`
	L *lat.VSpec `json:"l,omitempty"`
	S string     `json:"s,omitempty"`
	I int        `json:"i,omitempty"`
	T *XSpec     `json:"t,omitempty"`
}

func (v *XVSpec) String() string {
	b, _ := json.Marshal(v)
	return string(b)
}

func (v *XVSpec) Build() px.Value {
	switch v.K {
	case "L":
		return v.L.Build()
	case "Type":
		return v.T.Build()
	case "Ctor", "CtorLambda": // the constructor function of a type, or one of its dispatchers (a Lambda)
		f, ok := px.Load(px.CurrentContext(), types.NewTypedName(px.NsConstructor, v.S))
		if !ok {
			panic("no constructor " + v.S)
		}
		fn := f.(px.Function)
		if v.K == "Ctor" {
			return fn
		}
		return fn.Dispatchers()[v.I]
	}
	panic("XVSpec.Build: unknown kind " + v.K)
}

func extValues(xu *xUniverse) []*XVSpec {
	var out []*XVSpec
	for _, n := range []string{"Integer", "String", "Array", "Hash", "Timestamp", "Binary"} {
		out = append(out, &XVSpec{K: "Ctor", S: n})
		for i := 0; i < 3; i++ {
			out = append(out, &XVSpec{K: "CtorLambda", S: n, I: i})
		}
	}
	for i, s := range xu.Specs {
		if i%9 == 0 {
			out = append(out, &XVSpec{K: "Type", T: s})
		}
	}
	return out
}

// ---- Gallina printers for Model/DescribeCallable.v ----

func gOptTuple(t px.Type) (string, bool) {
	if t == nil {
		return "None", true
	}
	tt, ok := t.(*types.TupleType)
	if !ok {
		return "", false
	}
	d := types.VerifDecodeType(tt)
	if !lat.InModel(d) {
		return "", false
	}
	gs := make([]string, len(d.Ts))
	for i, e := range d.Ts {
		gs[i] = lat.GTy(e)
	}
	return fmt.Sprintf("(Some (%s, %s, %s, %s))", lib.GList(gs, "ty"), lib.GBool(d.HasSize), lib.GZ(d.Lo), lib.GZ(d.Hi)), true
}

// gCty prints a Callable of the model universe; tys collects the lattice types in it (for the regexp oracle)
func gCty(t *types.CallableType, tys *[]*types.VerifTy) (string, bool) {
	par, ok := gOptTuple(t.ParametersType())
	if !ok {
		return "", false
	}
	if pt := t.ParametersType(); pt != nil {
		*tys = append(*tys, types.VerifDecodeType(pt))
	}
	ret := "None"
	if rt := t.ReturnType(); rt != nil {
		d := types.VerifDecodeType(rt)
		if !lat.InModel(d) {
			return "", false
		}
		*tys = append(*tys, d)
		ret = "(Some " + lat.GTy(d) + ")"
	}
	switch b := t.BlockType().(type) {
	case nil:
		return fmt.Sprintf("(CNoBlock %s %s)", par, ret), true
	case *types.CallableType:
		g, ok := gCty(b, tys)
		return fmt.Sprintf("(CBlock %s %s false %s)", par, ret, g), ok
	case *types.OptionalType:
		if bc, ok := b.ContainedType().(*types.CallableType); ok {
			g, ok := gCty(bc, tys)
			return fmt.Sprintf("(CBlock %s %s true %s)", par, ret, g), ok
		}
	}
	return "", false
}

func gActual(t px.Type, tys *[]*types.VerifTy) (string, bool) {
	if c, ok := t.(*types.CallableType); ok {
		g, ok := gCty(c, tys)
		return "(ACallable " + g + ")", ok
	}
	d := types.VerifDecodeType(t)
	if !lat.InModel(d) {
		return "", false
	}
	*tys = append(*tys, d)
	return "(ATy " + lat.GTy(d) + ")", true
}

func gPath(path []px.VerifPathElem) string {
	ps := make([]string, len(path))
	for j, pe := range path {
		key := "(KName " + lib.GStr(pe.Key) + ")"
		if pe.Kind == "index" || pe.Kind == "variant" {
			if n, ok := decimal(pe.Key); ok {
				key = "(KNum " + lib.GN(n) + ")"
			}
		}
		k, ok := kindCtor[pe.Kind]
		if !ok {
			k = "PSignature"
		}
		ps[j] = "(" + k + ", " + key + ")"
	}
	return lib.GList(ps, "pelem")
}

func decimal(s string) (uint64, bool) {
	if s == "" || (len(s) > 1 && s[0] == '0') || len(s) > 18 {
		return 0, false
	}
	var n uint64
	for _, c := range s {
		if c < '0' || c > '9' {
			return 0, false
		}
		n = n*10 + uint64(c-'0')
	}
	return n, true
}

func gTyped(ms []px.VerifTypedMismatch) string {
	gs := make([]string, len(ms))
	for i, m := range ms {
		c, ok := classCtor[m.Class]
		if !ok {
			c = "CUnresolvedTypeReference"
		}
		carried := "NoTypes"
		if m.HasTypes {
			carried = fmt.Sprintf("(Types %s %s)", lib.GBool(!m.ExpectedNil), lib.GBool(!m.ActualNil))
		}
		gs[i] = fmt.Sprintf("((%s, %s), %s)", c, gPath(m.Path), carried)
	}
	return lib.GList(gs, "tmismatch")
}

type typedObs struct {
	MS    []px.VerifTypedMismatch
	Crash string
}

func describeTyped(e, a px.Type) (o typedObs) {
	defer func() {
		if r := recover(); r != nil {
			o.Crash = crashText(r)
		}
	}()
	o.MS = px.VerifDescribeTyped(subject, e, a)
	return
}

func newCallableCases() *lib.CasesFile {
	return &lib.CasesFile{Imports: append(append([]string{}, imports...), "Model.DescribeCallable"), Typ: "callable_case", Obligations: map[string]string{"callable_model": "callable_mismatches orc cases"}}
}

// addCallableCase emits (name, expected Callable, actual, IsAssignable, typed description, text returned, AssertType)
// when the pair lies in the universe of Model/DescribeCallable.v
func addCallableCase(cf *lib.CasesFile, pats, strs map[string]bool, e, a px.Type, in interface{}) bool {
	ec, ok := e.(*types.CallableType)
	if !ok {
		return false
	}
	var tys []*types.VerifTy
	ge, ok := gCty(ec, &tys)
	if !ok {
		return false
	}
	ga, ok := gActual(a, &tys)
	if !ok {
		return false
	}
	for _, t := range tys {
		if hasNewline(t) {
			return false
		}
	}
	asg, crash := lat.Guarded(func() bool { return px.IsAssignable(e, a) })
	if crash != "" {
		return false
	}
	to := describeTyped(e, a)
	obs := "COCrash"
	if to.Crash == "" {
		obs = "(COList " + gTyped(to.MS) + ")"
	}
	o := describe(e, a)
	ao := observeAssert(func() { px.AssertType(subject, e, a) })
	for _, t := range tys {
		lat.TyStrings(t, pats, strs)
	}
	cf.Add(fmt.Sprintf("(%s, %s, %s, %s, %s, %s, %s)", lib.GStr(subject), ge, ga, lib.GBool(asg), obs, lib.GBool(o.Crash == ""), gAssert(ao)), in)
	return true
}

// ---- run ----

func xInput(kind string, a, b *XSpec) map[string]interface{} {
	return map[string]interface{}{"kind": kind, "a": a, "b": b}
}

func runExt(cfg *lib.Config, res *lib.Result, rng *lib.Rng, u *lat.Universe) {
	nRandom, coqCallable := 60, 900
	if cfg.Thorough() {
		nRandom, coqCallable = 600, 6000
	}
	xu := newXUniverse(res, extPool(rng, nRandom))
	nX := len(xu.L)
	res.Extra["ext_types"] = nX

	// the lattice side: the atoms and every fifth of the rest, as recipes of kind L
	var base []int
	for i := range u.L {
		if i < 50 || i%10 == 0 {
			base = append(base, i)
		}
	}
	res.Extra["ext_lattice_sample"] = len(base)

	type side struct {
		spec *XSpec
		l, r px.Type
		dec  *types.VerifTy
		text string
	}
	xs := make([]side, 0, nX+len(base))
	for i := 0; i < nX; i++ {
		xs = append(xs, side{xu.Specs[i], xu.L[i], xu.R[i], xu.Dec[i], xu.Text[i]})
	}
	for _, i := range base {
		xs = append(xs, side{xl(u.Specs[i]), u.L[i], u.R[i], u.Dec[i], u.Text[i]})
	}

	type pair struct{ a, b int }
	buckets := map[string][]pair{} // pairs of the Callable model by the shape of the description
	for a := range xs {
		for b := range xs {
			if a >= nX && b >= nX {
				continue // lattice x lattice: the main loop
			}
			res.Evaluations++
			e, ac := xs[a], xs[b]
			asg, crash := lat.Guarded(func() bool { return px.IsAssignable(e.l, ac.r) })
			if crash != "" {
				// IsAssignable escaping is the lattice properties' business; the pair is unusable here
				res.Count("xpair.lattice-crash")
				continue
			}
			o := checkPair(res, e.l, ac.r, e.dec, ac.dec, asg, xInput("xdesc", e.spec, ac.spec), e.text, ac.text)
			if asg {
				res.Count("xpair.assignable")
			} else {
				res.Count("xpair.not-assignable." + e.dec.K)
				for _, m := range o.MS {
					res.Count("xclass." + m.Class)
				}
				if e.dec.K != "Any" && ac.dec.K != "Any" && ac.dec.K != "Unit" {
					res.Nontrivial("x:" + e.spec.String() + "/" + ac.spec.String())
				}
			}
			if ec, ok := e.l.(*types.CallableType); ok && o.Crash == "" && o.HCrash == "" {
				var tys []*types.VerifTy
				if _, ok := gCty(ec, &tys); ok {
					if _, ok := gActual(ac.r, &tys); ok {
						shape := "assignable"
						if !asg {
							ps := make([]string, len(o.MS))
							for i, m := range o.MS {
								last := ""
								if n := len(m.Path); n > 1 {
									last = m.Path[n-1].Kind
								}
								ps[i] = m.Class + "@" + last
							}
							shape = strings.Join(ps, ",")
						}
						if _, isC := ac.r.(*types.CallableType); !isC {
							shape += "<-ty"
						}
						buckets[shape] = append(buckets[shape], pair{a, b})
					}
				}
			}
		}
	}

	// ---- M: the Callable model, stratified over the shapes of the description
	keys := make([]string, 0, len(buckets))
	for k := range buckets {
		keys = append(keys, k)
	}
	sort.Strings(keys)
	var sampled []pair
	if len(keys) > 0 {
		per := coqCallable / len(keys)
		if per < 1 {
			per = 1
		}
		for _, k := range keys {
			ps := buckets[k]
			res.Count("callable-shape." + k)
			n := per
			if strings.HasSuffix(k, "<-ty") {
				n = per / 3
			}
			if n > len(ps) {
				// a small bucket: all of it
				sampled = append(sampled, ps...)
				continue
			}
			for i := 0; i < n; i++ {
				sampled = append(sampled, ps[rng.Intn(len(ps))])
			}
		}
	}
	for i := len(sampled) - 1; i > 0; i-- {
		j := rng.Intn(i + 1)
		sampled[i], sampled[j] = sampled[j], sampled[i]
	}
	cshards := 2
	if cfg.Thorough() {
		cshards = 6
	}
	for s := 0; s < cshards; s++ {
		cf := newCallableCases()
		pats, strs := map[string]bool{}, map[string]bool{}
		for i := s; i < len(sampled); i += cshards {
			p := sampled[i]
			addCallableCase(cf, pats, strs, xs[p.a].l, xs[p.b].r, xInput("xdesc", xs[p.a].spec, xs[p.b].spec))
		}
		// the pairs on which the direct check failed (cap 20): the model says what should have come out
		if s == 0 {
			n := 0
			for _, v := range res.Violations {
				if n >= 20 {
					break
				}
				var x struct {
					Kind string `json:"kind"`
					A, B *XSpec
				}
				lib.Remarshal(v.Input, &x)
				if x.Kind != "xdesc" || x.A == nil || x.B == nil {
					continue
				}
				var e, a px.Type
				if _, crash := lat.Guarded(func() bool { e, a = x.A.Build(), x.B.Build(); return true }); crash == "" {
					if addCallableCase(cf, pats, strs, e, a, v.Input) {
						n++
					}
				}
			}
		}
		cf.Prelude = lat.Oracle(pats, strs)
		res.CorrFiles = append(res.CorrFiles, cf.WriteTo(cfg.Out, fmt.Sprintf("cases_callable_%d", s)))
	}
	res.Extra["callable_model_pairs"] = func() int {
		n := 0
		for _, ps := range buckets {
			n += len(ps)
		}
		return n
	}()
	for i := 0; i < 4 && i < len(sampled); i++ {
		p := sampled[(i*104729+len(sampled)/3)%len(sampled)]
		o := describe(xs[p.a].l, xs[p.b].r)
		res.Sample(map[string]interface{}{"expected": xs[p.a].text, "actual": xs[p.b].text, "text": o.Text})
	}

	// ---- D: the instance assertion on the extended types
	var vals []px.Value
	var vspecs []*XVSpec
	for i, v := range u.V {
		if i%6 == 0 {
			vals, vspecs = append(vals, v), append(vspecs, &XVSpec{K: "L", L: u.VSpec[i]})
		}
	}
	for _, vs := range extValues(xu) {
		var pv px.Value
		if _, crash := lat.Guarded(func() bool { pv = vs.Build(); return true }); crash != "" || pv == nil {
			res.Count("xvalue.rejected")
			continue
		}
		vals, vspecs = append(vals, pv), append(vspecs, vs)
		res.Count("xvalue." + vs.K)
	}
	res.Extra["ext_values"] = len(vals)
	for i, v := range vals {
		if vspecs[i].K == "L" {
			continue // checked by the main loop
		}
		res.Evaluations++
		if t, crash := detailed(v); crash != "" || t == nil {
			res.Violate(lib.Violation{Clause: "detailed-never-fails", What: fmt.Sprintf("DetailedValueType(%s): %s", lat.ValText(v), crash),
				Input: map[string]interface{}{"kind": "xdetailed", "v": vspecs[i]}, Tags: []string{"detailed:" + vspecs[i].K}})
		}
	}
	checkX := func(t px.Type, dec *types.VerifTy, text string, tspec *XSpec, i int) {
		res.Evaluations++
		inst, crash := lat.Guarded(func() bool { return px.IsInstance(t, vals[i]) })
		if crash != "" {
			res.Count("xassert.lattice-crash")
			return
		}
		o := checkAssert(res, t, vals[i], dec, inst, map[string]interface{}{"kind": "xassert", "t": tspec, "v": vspecs[i]}, text, lat.ValText(vals[i]))
		if o.Returned {
			res.Count("xassert.returned")
		} else if o.Crash == "" {
			res.Count("xassert.raised." + o.Code)
		}
	}
	for t := 0; t < nX; t++ {
		for i := range vals {
			checkX(xu.L[t], xu.Dec[t], xu.Text[t], xu.Specs[t], i)
		}
	}
	// the extended values (functions, lambdas, extended types as values) against the lattice sample
	for _, b := range base {
		for i := range vals {
			if vspecs[i].K != "L" {
				checkX(u.L[b], u.Dec[b], u.Text[b], xl(u.Specs[b]), i)
			}
		}
	}
}

// replayExt replays one recorded input of the extended pool
func replayExt(res *lib.Result, in interface{}, ccf *lib.CasesFile, pats, strs map[string]bool) bool {
	var x struct {
		Kind string  `json:"kind"`
		A    *XSpec  `json:"a"`
		B    *XSpec  `json:"b"`
		T    *XSpec  `json:"t"`
		V    *XVSpec `json:"v"`
	}
	lib.Remarshal(in, &x)
	inm, _ := in.(map[string]interface{})
	switch x.Kind {
	case "xdesc":
		e, a := x.A.Build(), x.B.Build()
		asg, crash := lat.Guarded(func() bool { return px.IsAssignable(e, a) })
		fmt.Printf("expected = %s\nactual   = %s\nIsAssignable = %v %s\n", e, a, asg, crash)
		before := len(res.Violations)
		o := checkPair(res, e, a, xDecode(e), xDecode(a), asg, inm, e.String(), a.String())
		to := describeTyped(e, a)
		fmt.Printf("DescribeMismatch = %q %s\nstructured = %+v %s\n", o.Text, o.Crash, to.MS, to.Crash)
		ao := observeAssert(func() { px.AssertType(subject, e, a) })
		fmt.Printf("AssertType: returned=%v issue=%q detail=%q %s\n", ao.Returned, ao.Code, ao.Detail, ao.Crash)
		if len(res.Violations) > before {
			fmt.Println("FAILS: " + res.Violations[before].What)
		} else {
			fmt.Println("the clauses of the property hold on this pair")
		}
		addCallableCase(ccf, pats, strs, e, a, in)
	case "xassert":
		e, v := x.T.Build(), x.V.Build()
		inst, crash := lat.Guarded(func() bool { return px.IsInstance(e, v) })
		fmt.Printf("expected = %s\nvalue    = %s\nIsInstance = %v %s\n", e, lat.ValText(v), inst, crash)
		before := len(res.Violations)
		o := checkAssert(res, e, v, xDecode(e), inst, inm, e.String(), lat.ValText(v))
		fmt.Printf("AssertInstance: returned=%v issue=%q detail=%q %s\n", o.Returned, o.Code, o.Detail, o.Crash)
		if len(res.Violations) > before {
			fmt.Println("FAILS: " + res.Violations[before].What)
		} else {
			fmt.Println("the clauses of the property hold on this pair")
		}
	case "xdetailed":
		v := x.V.Build()
		dt, dcrash := detailed(v)
		fmt.Printf("value = %s\nDetailedValueType = %v %s\n", lat.ValText(v), dt, dcrash)
		if dcrash != "" {
			res.Violate(lib.Violation{Clause: "detailed-never-fails", What: fmt.Sprintf("DetailedValueType(%s): %s", lat.ValText(v), dcrash), Input: in})
		}
	default:
		return false
	}
	return true
}
