// c16: dispatch and construction are type-safe.
//
// G  generated dispatch tables (builder operation sequences incl. ill-formed ones, dispatches with 1..33 parameters, local types
//    that refer to each other in every order of declaration incl. recursion, local aliases with varying
//    definitions, blocks incl. block types that accept undef without OptionalBlock) and argument lists;
//    histories of 2-4 functions in one context some of which fail to resolve; histories `calls, read-only accessors of the
//    resolved function (Dispatchers, Parameters, Signature, Types, Size, ..., Resolve once more), the same calls again` (twice);
//    px.New / px.Call("new") / CoerceTo on every core type x argument lists.
// D  the property evaluated directly on the implementation: the body that ran is the one of the first
//    dispatch whose declaration the call satisfies (declarative matching, px.IsInstance per parameter),
//    every body re-checks its own declaration, no match => reported argument error; the result of new is
//    an instance of the type or a reported error.
// M  cases_*.v for coq/Corr/CorrC16.v: the model's builder/dispatch/new on the same inputs.
package main

import (
	"fmt"
	"os"
	"sync/atomic"
	"time"

	"github.com/lyraproj/pcore/pcore"
	"github.com/lyraproj/pcore/px"
	"verifharness/lib"
)

var progress int64 // unix nano of the last finished implementation call batch
var current atomic.Value

type curBox struct{ v interface{} }

func touch(what interface{}) {
	atomic.StoreInt64(&progress, time.Now().UnixNano())
	current.Store(curBox{what})
}

func watchdog(cfg *lib.Config) {
	for {
		time.Sleep(2 * time.Second)
		if time.Since(time.Unix(0, atomic.LoadInt64(&progress))) > 40*time.Second {
			res := lib.NewResult("C16")
			res.Violate(lib.Violation{Clause: "terminates", What: "an implementation call did not return within 40 s",
				Input: current.Load().(curBox).v, Tags: []string{"timeout"}})
			res.Write(cfg)
			os.Exit(0)
		}
	}
}

func main() {
	cfg := lib.ParseFlags()
	res := lib.NewResult("C16")
	res.Rule = "dispatch: a call (function, arguments, block) is non-trivial when the body chosen is not the first dispatch's, " +
		"or no dispatch matches although the arity lies in some dispatch's window (rejected by a type or the block), " +
		"or a block is passed or declared; new: non-trivial when the receiver is constrained (has parameters) and the " +
		"constructor returned a value, so that the re-check against the receiver decides; distinct = distinct input texts"
	touch("start")
	go watchdog(cfg)
	rng := lib.NewRng(cfg.Seed)
	pcore.Do(func(c px.Context) {
		e := newEnv(c)
		if cfg.Replay != "" {
			replay(cfg, res, e)
			return
		}
		runDispatch(cfg, res, e, rng)
		runHistories(cfg, res, e, rng)
		runNewFamily(cfg, res, e, rng)
		runInstFamily(cfg, res, e, rng)
		runInspect(cfg, res, e, rng)
	})
	res.Write(cfg)
}

// ---- cases files --------------------------------------------------------------------------------------------

var corrImports = []string{"Model.Base", "Model.Dispatch", "Corr.CorrC16"}

func dispatchFile(e *env) *lib.CasesFile {
	return &lib.CasesFile{Imports: corrImports, Typ: "fncase", Prelude: e.btabGallina(),
		Obligations: map[string]string{"dispatch_model": "fn_mismatches btab cases"}}
}

func historyFile(e *env) *lib.CasesFile {
	return &lib.CasesFile{Imports: corrImports, Typ: "histcase", Prelude: e.btabGallina(),
		Obligations: map[string]string{"history_model": "hist_mismatches btab cases"}}
}

func newFile() *lib.CasesFile {
	return &lib.CasesFile{Imports: corrImports, Typ: "newcase",
		Obligations: map[string]string{"new_model": "new_mismatches cases",
			// receiver Boolean: dispatch table and body of the constructor are modelled too (no oracle)
			"new_boolean_model": "new_modelled_mismatches cases"}}
}

func instFile() *lib.CasesFile {
	as := make([]string, len(aliasSet))
	for i, a := range aliasSet {
		as[i] = lib.GPair(lib.GStr(a.Name), a.T.Gallina())
	}
	return &lib.CasesFile{Imports: corrImports, Typ: "pty * pval * bool",
		Prelude:     "Definition aliases : list (str * pty) := " + lib.GList(as, "str * pty") + ".\n",
		Obligations: map[string]string{"instance_model": "inst_mismatches aliases cases"}}
}

// ---- dispatch families -------------------------------------------------------------------------------------

func (e *env) callNontrivial(run *fnRun, fc *FnCase, call CallIn) bool {
	if call.Blk >= 0 {
		return true
	}
	for _, d := range run.decls {
		if len(d.blocks) > 0 {
			return true
		}
	}
	exp := e.expected(run, call)
	if exp >= 1 {
		return true
	}
	if exp < 0 {
		for _, d := range run.decls {
			min, max := 0, 0
			for _, p := range d.params {
				switch p.K {
				case "Param":
					min++
					max++
				case "Opt":
					max++
				case "Rep":
					max = 1 << 30
				case "ReqRep":
					min++
					max = 1 << 30
				}
			}
			if len(call.Args) >= min && len(call.Args) <= max && len(call.Args) > 0 {
				return true
			}
		}
	}
	return false
}

func runDispatch(cfg *lib.Config, res *lib.Result, e *env, rng *lib.Rng) {
	maxLen, coqCallsPerFn, nRandom, randomCalls, randomCoq := 3, 24, 1500, 30, 350
	exhArity := 4
	if cfg.Thorough() {
		maxLen, coqCallsPerFn, nRandom, randomCalls, randomCoq = 4, 40, 40000, 40, 3000
		exhArity = 5
	}
	sampled := 0
	// process runs D on the whole case and adds a (sub-sampled) case to the Coq file
	process := func(cf *lib.CasesFile, fc *FnCase, family string, coqCalls int) {
		touch(fc)
		before := len(res.Violations)
		run := e.checkFn(res, fc)
		failed := len(res.Violations) > before
		res.Count("dispatch.fn." + family)
		res.Count("dispatch.build." + run.obs.Build)
		if run.obs.Build != "ok" {
			res.Evaluations++
			res.Nontrivial("build " + fc.text())
		}
		for k, call := range fc.Calls {
			if run.obs.Build != "ok" {
				break
			}
			res.Evaluations++
			co := run.obs.Calls[k]
			res.Count("dispatch.call." + co.Class)
			res.Count(fmt.Sprintf("dispatch.arity.%d", len(call.Args)))
			if e.callNontrivial(run, fc, call) {
				res.Nontrivial(fc.text() + " | " + call.text())
			}
			sampled++
			if sampled%4001 == 1 {
				res.Sample(map[string]interface{}{"kind": "dispatch", "function": fc.text(), "call": call.text(), "observed": co.String()})
			}
		}
		if coqCalls <= 0 && !failed {
			return
		}
		sub := &FnCase{Kind: "dispatch", Aliases: fc.Aliases, Disps: fc.Disps}
		obs := FnObs{Build: run.obs.Build, BuildAt: run.obs.BuildAt, Msg: run.obs.Msg}
		if run.obs.Build == "ok" {
			stride := 1
			if coqCalls > 0 && len(fc.Calls) > coqCalls {
				stride = len(fc.Calls)/coqCalls + 1
			}
			allWf := true
			for _, d := range run.decls {
				if wf, _ := d.wellFormed(); wf != "yes" {
					allWf = false
				}
			}
			for k := range fc.Calls {
				// the calls on which D failed always go to the model too
				bad := run.bodyViol[k] != ""
				if failed && allWf && !bad {
					co := run.obs.Calls[k]
					exp := e.expected(run, fc.Calls[k])
					bad = (exp >= 0 && !(co.Class == "body" && co.Body == exp)) || (exp < 0 && co.Class != "argerror")
				}
				if k%stride == 0 || bad {
					sub.Calls = append(sub.Calls, fc.Calls[k])
					obs.Calls = append(obs.Calls, run.obs.Calls[k])
				}
			}
		}
		cf.Add(sub.gallina(obs), sub)
	}

	cf := dispatchFile(e)
	for _, fc := range dispatchCorpus() {
		process(cf, fc, "corpus", 1000)
	}
	exh := exhaustiveFns(maxLen)
	vals := []*PVal{vInt(3), vStr("a"), vBool(true), vFloat(0.5)}
	calls := allCalls(vals[:3], exhArity)
	if cfg.Thorough() {
		calls = allCalls(vals, exhArity)
	}
	for i, fc := range exh {
		fc.Calls = calls
		// rotate the sampling offset so that different functions send different calls to the model
		off := (i * 7) % 11
		fc.Calls = append(append([]CallIn{}, calls[off:]...), calls[:off]...)
		process(cf, fc, "exhaustive", coqCallsPerFn)
	}
	res.Extra["dispatch_exhaustive_functions"] = len(exh)
	res.Extra["dispatch_exhaustive_calls_each"] = len(calls)
	res.Extra["dispatch_exhaustive_max_params"] = maxLen
	res.CorrFiles = append(res.CorrFiles, cf.WriteTo(cfg.Out, "cases_dispatch_exhaustive"))

	// local types that refer to each other, in every order of declaration; dispatches with many parameters
	sf := dispatchFile(e)
	fwd := forwardFns(rng.Fork())
	for _, fc := range fwd {
		process(sf, fc, "forward", 12)
	}
	res.Extra["dispatch_forward_functions"] = len(fwd)
	lng := longFns(cfg.Thorough())
	for i, fc := range lng {
		n := 0
		if cfg.Thorough() || i%3 == 0 {
			n = 9
		}
		process(sf, fc, "long", n)
	}
	res.Extra["dispatch_long_functions"] = len(lng)
	res.Extra["dispatch_long_max_params"] = longSizes(cfg.Thorough())[len(longSizes(cfg.Thorough()))-1]
	res.CorrFiles = append(res.CorrFiles, sf.WriteTo(cfg.Out, "cases_dispatch_shapes"))

	shards := 1
	if cfg.Thorough() {
		shards = 4
	}
	files := make([]*lib.CasesFile, shards)
	for i := range files {
		files[i] = dispatchFile(e)
	}
	for i := 0; i < nRandom; i++ {
		r := rng.Fork()
		fc := randomFn(e, r, randomCalls)
		n := 0
		if i < randomCoq {
			n = 1000
		}
		process(files[i%shards], fc, "random", n)
	}
	for i, f := range files {
		res.CorrFiles = append(res.CorrFiles, f.WriteTo(cfg.Out, fmt.Sprintf("cases_dispatch_random_%d", i)))
	}
}

// ---- histories: several functions in one context, some of which fail to resolve -----------------------------------

func runHistories(cfg *lib.Config, res *lib.Result, e *env, rng *lib.Rng) {
	nRandom, nCalls, nCoq := 400, 10, 250
	if cfg.Thorough() {
		nRandom, nCalls, nCoq = 8000, 16, 2500
	}
	cf := historyFile(e)
	one := func(h *History, family string, toCoq bool) {
		touch(h)
		before := len(res.Violations)
		runs := e.checkHistory(res, h)
		failed := len(res.Violations) > before
		res.Count("history." + family)
		res.Count(fmt.Sprintf("history.length.%d", len(h.Fns)))
		failedBefore := false
		for i, fc := range h.Fns {
			run := runs[i]
			res.Count("history.build." + run.obs.Build)
			if run.obs.Build != "ok" {
				res.Evaluations++
				failedBefore = true
				continue
			}
			for k, call := range fc.Calls {
				res.Evaluations++
				res.Count("history.call." + run.obs.Calls[k].Class)
				if failedBefore {
					res.Count("history.call-after-failed-resolve")
				}
				if i > 0 && len(fc.Aliases) > 0 {
					res.Nontrivial(h.text() + " | " + fmt.Sprint(i) + " " + call.text())
				}
			}
		}
		if toCoq || failed {
			cf.Add(h.gallina(runs), h)
		}
	}
	for _, h := range historyCorpus() {
		one(h, "corpus", true)
	}
	for i := 0; i < nRandom; i++ {
		one(randomHistory(e, rng.Fork(), nCalls), "random", i < nCoq)
	}
	res.CorrFiles = append(res.CorrFiles, cf.WriteTo(cfg.Out, "cases_history"))
}

// ---- new / coerce family ---------------------------------------------------------------------------------------

func runNewFamily(cfg *lib.Config, res *lib.Result, e *env, rng *lib.Rng) {
	cf := newFile()
	pool := newArgPool()
	seconds := newSecondArgs()
	nPairs, nTriples, coqStride := 120, 30, 5
	if cfg.Thorough() {
		nPairs, nTriples, coqStride = len(pool) * len(seconds), 400, 3
	}
	n := 0
	one := func(nc *NewCase) {
		touch(nc)
		n++
		before := len(res.Violations)
		obs := e.checkNew(res, nc)
		failed := len(res.Violations) > before
		res.Evaluations++
		res.Count("new.via." + nc.Via)
		res.Count("new.outcome." + obs.Out.Class)
		if obs.Out.Class == "reported" {
			res.Count("new.error." + obs.Out.Code)
		}
		res.Count(fmt.Sprintf("new.arity.%d", len(nc.Args)))
		if obs.Out.Class == "ok" && nc.RecvV == nil && containsByte(nc.Recv, '[') {
			res.Nontrivial(nc.text())
		}
		if obs.Out.Class == "reported" && obs.Out.Code == string(px.TypeMismatch) {
			res.Nontrivial(nc.text())
			res.Count("new.recheck-rejected")
		}
		if n%997 == 1 {
			res.Sample(map[string]interface{}{"kind": "new", "input": nc.text(), "observed": obs.Out.String()})
		}
		if nc.RecvT != nil && (n%coqStride == 0 || failed || nc.RecvT.K == "Boolean") {
			if g, ok := e.newGallina(nc, obs); ok {
				cf.Add(g, nc)
			}
		}
	}
	argLists := func(r *lib.Rng) [][]*PVal {
		ls := [][]*PVal{{}}
		for _, a := range pool {
			ls = append(ls, []*PVal{a})
		}
		if nPairs >= len(pool)*len(seconds) {
			for _, a := range pool {
				for _, b := range seconds {
					ls = append(ls, []*PVal{a, b})
				}
			}
		} else {
			for i := 0; i < nPairs; i++ {
				ls = append(ls, []*PVal{pool[r.Intn(len(pool))], seconds[r.Intn(len(seconds))]})
			}
		}
		for i := 0; i < nTriples; i++ {
			ls = append(ls, []*PVal{pool[r.Intn(len(pool))], seconds[r.Intn(len(seconds))], []*PVal{vBool(true), vBool(false), vInt(1), vUndef()}[r.Intn(4)]})
		}
		return ls
	}
	for _, t := range fragmentReceivers() {
		for _, args := range argLists(rng.Fork()) {
			one(&NewCase{Kind: "new", Recv: t.Src(nil), RecvT: t, Args: args, Via: "New"})
		}
	}
	for _, s := range otherReceivers {
		for _, args := range argLists(rng.Fork()) {
			one(&NewCase{Kind: "new", Recv: s, Args: args, Via: "New"})
		}
	}
	for _, v := range nonTypeReceivers {
		for _, args := range argLists(rng.Fork()) {
			one(&NewCase{Kind: "new", RecvV: v, Args: args, Via: "New"})
		}
	}
	// the `new` function (internal/function.go:388) with and without a block, and CoerceTo
	all := []string{}
	for _, t := range fragmentReceivers() {
		all = append(all, t.Src(nil))
	}
	all = append(all, otherReceivers...)
	for _, s := range all {
		r := rng.Fork()
		for i, args := range argLists(r) {
			if len(args) <= 1 || i%6 == 0 {
				one(&NewCase{Kind: "new", Recv: s, Args: args, Via: "Call"})
				one(&NewCase{Kind: "new", Recv: s, Args: args, Via: "CallBlock"})
			}
			if len(args) == 1 {
				one(&NewCase{Kind: "new", Recv: s, Args: args, Via: "Coerce"})
			}
		}
	}
	for _, v := range nonTypeReceivers {
		for _, args := range [][]*PVal{{}, {vStr("3")}, {vInt(3)}, {vArr(vInt(1))}} {
			one(&NewCase{Kind: "new", RecvV: v, Args: args, Via: "Call"})
			one(&NewCase{Kind: "new", RecvV: v, Args: args, Via: "CallBlock"})
		}
	}
	res.CorrFiles = append(res.CorrFiles, cf.WriteTo(cfg.Out, "cases_new"))
}

func containsByte(s string, b byte) bool {
	for i := 0; i < len(s); i++ {
		if s[i] == b {
			return true
		}
	}
	return false
}

// ---- instance-of on the fragment (ties the model's `pinst`, used by both other families) ---------------------

type InstCase struct {
	Kind string `json:"kind"` // "inst"
	T    *PTy   `json:"t"`
	V    *PVal  `json:"v"`
}

func runInstFamily(cfg *lib.Config, res *lib.Result, e *env, rng *lib.Rng) {
	cf := instFile()
	inst := e.instFor(aliasSet)
	ts := append(append(plainTypes(), aliasTypes()...), fragmentReceivers()...)
	vals := append(valuePool(), vStr("abcd"), vInt(-4), vArr(vInt(0), vInt(5)), vArr(vInt(0), vInt(6)), vArr(vStr("a"), vStr("b")),
		vArr(vUndef()), vFloat(-0.0), vStr("\u00e9"), vStr("\u65e5\u672c"), vStr("a\u00e9"), vStr("\u65e5\u672c\u8a9ex"))
	for _, t := range ts {
		for _, v := range vals {
			ic := &InstCase{Kind: "inst", T: t, V: v}
			touch(ic)
			b := inst(t, v.toPx(e.c))
			res.Evaluations++
			res.Count("inst." + t.K)
			cf.Add("("+t.Gallina()+", "+v.Gallina()+", "+lib.GBool(b)+")", ic)
		}
	}
	res.CorrFiles = append(res.CorrFiles, cf.WriteTo(cfg.Out, "cases_inst"))
}

// ---- replay -----------------------------------------------------------------------------------------------------

func replay(cfg *lib.Config, res *lib.Result, e *env) {
	df, nf, inf, hf, isf := dispatchFile(e), newFile(), instFile(), historyFile(e), inspectFile(e)
	for _, in := range lib.ReplayInputs(cfg.Replay) {
		var k struct {
			Kind string `json:"kind"`
		}
		lib.Remarshal(in, &k)
		switch k.Kind {
		case "dispatch":
			var fc FnCase
			lib.Remarshal(in, &fc)
			fmt.Println("function:", fc.text())
			run := e.checkFn(res, &fc)
			fmt.Printf("  builder: %s %s\n", run.obs.Build, run.obs.Msg)
			for i, d := range run.decls {
				wf, why := d.wellFormed()
				fmt.Printf("  dispatch %d well-formed: %s %s\n", i, wf, why)
			}
			if run.obs.Build == "ok" {
				for i, call := range fc.Calls {
					res.Evaluations++
					fmt.Printf("  call %s\n     implementation: %s\n     first dispatch whose declaration is satisfied: %d\n",
						call.text(), run.obs.Calls[i], e.expected(run, call))
					if run.bodyViol[i] != "" {
						fmt.Println("     " + run.bodyViol[i])
					}
				}
			} else {
				res.Evaluations++
			}
			df.Add(fc.gallina(run.obs), in)
		case "inspect":
			var fc FnCase
			lib.Remarshal(in, &fc)
			fmt.Println("function:", fc.text())
			run := e.checkFn(res, &fc)
			fmt.Printf("  builder: %s %s\n", run.obs.Build, run.obs.Msg)
			if run.obs.Build != "ok" {
				res.Evaluations++
				continue
			}
			fmt.Println("  accessors asked between the calls:", accsText(fc.Inspect))
			for r, ro := range run.rounds {
				for j, a := range fc.Inspect {
					fmt.Printf("    round %d  %s -> %s\n", r+1, a, ro.Acc[j])
				}
			}
			for i, call := range fc.Calls {
				res.Evaluations++
				fmt.Printf("  call %s\n     first dispatch whose declaration is satisfied: %d\n     implementation, before the accessors: %s\n",
					call.text(), e.expected(run, call), run.obs.Calls[i])
				if run.bodyViol[i] != "" {
					fmt.Println("     " + run.bodyViol[i])
				}
				for r, ro := range run.rounds {
					fmt.Printf("     implementation, after the accessors were asked %d time(s): %s\n", r+1, ro.Calls[i])
					if ro.Viol[i] != "" {
						fmt.Println("     " + ro.Viol[i])
					}
				}
			}
			isf.Add(fc.inspGallina(run), in)
		case "history":
			var h History
			lib.Remarshal(in, &h)
			fmt.Println("history in one context:")
			runs := e.checkHistory(res, &h)
			for i, fc := range h.Fns {
				run := runs[i]
				fmt.Printf("  function %d: %s\n    builder/Resolve: %s %s\n", i, fc.text(), run.obs.Build, run.obs.Msg)
				if run.obs.Build != "ok" {
					res.Evaluations++
					continue
				}
				for k, call := range fc.Calls {
					res.Evaluations++
					fmt.Printf("    call %s\n       implementation: %s\n       first dispatch whose declaration is satisfied: %d\n",
						call.text(), run.obs.Calls[k], e.expected(run, call))
					if run.bodyViol[k] != "" {
						fmt.Println("       " + run.bodyViol[k])
					}
				}
			}
			hf.Add(h.gallina(runs), in)
		case "new":
			var nc NewCase
			lib.Remarshal(in, &nc)
			obs := e.checkNew(res, &nc)
			res.Evaluations++
			fmt.Printf("%s\n     implementation: %s", nc.text(), obs.Out)
			if obs.Out.Class == "ok" {
				fmt.Printf(" (%s); instance of %s: %v", obs.Result, obs.Target, obs.InType)
			}
			fmt.Println()
			if g, ok := e.newGallina(&nc, obs); ok {
				nf.Add(g, in)
			}
		case "inst":
			var ic InstCase
			lib.Remarshal(in, &ic)
			b := e.instFor(aliasSet)(ic.T, ic.V.toPx(e.c))
			res.Evaluations++
			fmt.Printf("IsInstance(%s, %s) = %v\n", ic.T.Src(nil), ic.V, b)
			inf.Add("("+ic.T.Gallina()+", "+ic.V.Gallina()+", "+lib.GBool(b)+")", in)
		}
	}
	for _, v := range res.Violations {
		fmt.Println("FAILS:", v.Clause, "-", v.What)
	}
	if len(res.Violations) == 0 {
		fmt.Println("the implementation satisfies the property on this input")
	}
	res.CorrFiles = append(res.CorrFiles, df.WriteTo(cfg.Out, "cases_dispatch_exhaustive"), nf.WriteTo(cfg.Out, "cases_new"),
		inf.WriteTo(cfg.Out, "cases_inst"), hf.WriteTo(cfg.Out, "cases_history"), isf.WriteTo(cfg.Out, "cases_inspect"))
}
