package main

import (
	"fmt"
	"regexp"
	"strings"

	"github.com/lyraproj/pcore/px"
	"github.com/lyraproj/pcore/types"
	"verifharness/lib"
)

// ---- looking at a built function between calls ---------------------------------------------------------------------
//
// A function case with a list of read-only accessors (FnCase.Inspect): the calls are made, the accessors are asked, the
// SAME calls are made again, the accessors are asked a second time, the calls are made a third time.  D holds every
// call of every round to the declaration (first matching dispatch, bodies re-check their declaration, no match =>
// reported argument error) - the property speaks of the function, whatever was read from it in between.  M sends the
// accessors, what they answered and the outcome of every call of every round to the model (insp_mismatches).

// Acc is one read-only look at a resolved function (mirrors `accessor` of coq/Model/Dispatch.v).
type Acc struct {
	K string `json:"k"`           // Dispatchers Parameters Signature Names Types Size Block Text Resolve
	D int    `json:"d,omitempty"` // index of the dispatcher looked at
}

func (a Acc) String() string {
	switch a.K {
	case "Dispatchers", "Resolve":
		return a.K
	}
	return fmt.Sprintf("%s(%d)", a.K, a.D)
}

func accsText(as []Acc) string {
	ss := make([]string, len(as))
	for i, a := range as {
		ss[i] = a.String()
	}
	return strings.Join(ss, " ")
}

func (a Acc) gallina() string {
	switch a.K {
	case "Dispatchers":
		return "ADispatchers"
	case "Parameters":
		return fmt.Sprintf("(AParameters %d)", a.D)
	case "Signature":
		return fmt.Sprintf("(ASignature %d)", a.D)
	case "Names":
		return fmt.Sprintf("(ANames %d)", a.D)
	case "Types":
		return fmt.Sprintf("(ATypes %d)", a.D)
	case "Size":
		return fmt.Sprintf("(ASize %d)", a.D)
	case "Block":
		return fmt.Sprintf("(ABlockType %d)", a.D)
	case "Text":
		return fmt.Sprintf("(AText %d)", a.D)
	case "Resolve":
		return "AResolve"
	}
	panic("bad accessor " + a.K)
}

// AccObs is what an accessor answered, projected to what the model states.
type AccObs struct {
	K      string `json:"k"` // count params types size block text resolved fault
	N      int    `json:"n,omitempty"`
	Types  []*PTy `json:"types,omitempty"`
	Rest   []bool `json:"rest,omitempty"`
	Min    int64  `json:"min,omitempty"`
	Max    int64  `json:"max,omitempty"`
	Has    bool   `json:"has,omitempty"`
	Detail string `json:"detail,omitempty"`
}

func (o AccObs) gallina() string {
	switch o.K {
	case "count":
		return fmt.Sprintf("(OCount %d)", o.N)
	case "params":
		ps := make([]string, len(o.Types))
		for i, t := range o.Types {
			ps[i] = lib.GPair(t.Gallina(), lib.GBool(o.Rest[i]))
		}
		return "(OParams " + lib.GList(ps, "pty * bool") + ")"
	case "types":
		ts := make([]string, len(o.Types))
		for i, t := range o.Types {
			ts[i] = t.Gallina()
		}
		return "(OTypes " + lib.GList(ts, "pty") + ")"
	case "size":
		return "(OSize " + lib.GZ(o.Min) + " " + lib.GZ(o.Max) + ")"
	case "block":
		if o.Has {
			return "(OBlockT (Some (false, 0%N)))"
		}
		return "(OBlockT None)"
	case "text":
		return "OText"
	case "resolved":
		return "(OResolved " + lib.GBool(o.Has) + ")"
	}
	return "OIndexFault"
}

func (o AccObs) String() string {
	switch o.K {
	case "count":
		return fmt.Sprintf("%d", o.N)
	case "params", "types":
		ss := make([]string, len(o.Types))
		for i, t := range o.Types {
			ss[i] = t.Src(nil)
			if o.K == "params" && o.Rest[i] {
				ss[i] += " (captures rest)"
			}
		}
		return "[" + strings.Join(ss, "; ") + "]"
	case "size":
		return fmt.Sprintf("[%d, %d]", o.Min, o.Max)
	case "block":
		return fmt.Sprintf("block type present: %v", o.Has)
	case "resolved":
		return fmt.Sprintf("resolved again: %v", o.Has)
	case "text":
		return "(text)"
	}
	return "FAULT " + o.Detail
}

var typeRefRx = regexp.MustCompile(`TypeReference\['([A-Za-z0-9_:]+)'\]`)

// normText: the text of a type with unresolved references written as the bare name (a resolved local type prints as its name)
func normText(s string) string { return typeRefRx.ReplaceAllString(s, "$1") }

// decoder names an observed type by the declared type expression of the function that prints like it; a type that prints
// like none of them becomes a reference to a name that says so (which no model answer equals).  A local type declared
// ready-made (LocalTypes.Type2) is entered in the local loader as the type itself, not as an alias, and prints as its
// definition: the texts of the declared expressions are taken with those names written out.  When several declared
// expressions print alike (a ready-made local name and its definition) the one declared at the position asked about wins.
type decoder struct {
	texts []string
	tys   []*PTy
}

func (e *env) newDecoder(fc *FnCase) *decoder {
	d := &decoder{}
	ready := map[string]*PTy{}
	for _, a := range fc.Aliases {
		if a.Typed && !a.T.hasRef() && !a.T.bad() { // the condition under which runFn uses Type2
			ready[a.Name] = a.T
		}
	}
	seen := map[string]bool{}
	for _, ops := range fc.Disps {
		for _, o := range ops {
			if !isParamOp(o.K) || o.T.bad() {
				continue
			}
			src := o.T.Src(nil)
			if seen[src] {
				continue
			}
			seen[src] = true
			var txt string
			if g := guard(func() px.Value { txt = normText(e.parse(o.T.Src(ready)).String()); return nil }); g.Class != "ok" {
				continue
			}
			d.texts = append(d.texts, txt)
			d.tys = append(d.tys, o.T)
		}
	}
	return d
}

// decode: hint is the type declared at the position asked about (nil: none)
func (d *decoder) decode(t px.Type, hint *PTy) *PTy {
	txt := "<nil>"
	if t != nil {
		txt = normText(t.String())
	}
	var first *PTy
	for i, x := range d.texts {
		if x == txt {
			if first == nil {
				first = d.tys[i]
			}
			if hint != nil && d.tys[i].Src(nil) == hint.Src(nil) {
				return d.tys[i]
			}
		}
	}
	if first != nil {
		return first
	}
	return tRef("?not a declared type: " + txt)
}

// declaredAt: the type declared for parameter i of dispatch di (nil when there is none)
func (fc *FnCase) declaredAt(di, i int) *PTy {
	if di < 0 || di >= len(fc.Disps) {
		return nil
	}
	ps := declOf(fc.Disps[di]).params
	if i < 0 || i >= len(ps) {
		return nil
	}
	return ps[i].T
}

// doAcc asks one accessor.  *f is the function currently in use (Resolve replaces it).  Only public, read-only API is
// used and nothing that is handed out is written to.
func (e *env) doAcc(fc *FnCase, a Acc, f *px.Function, rf px.ResolvableFunction, ctx px.Context, dec *decoder) (obs AccObs) {
	defer func() {
		if r := recover(); r != nil {
			obs = AccObs{K: "fault", Detail: short(fmt.Sprintf("%v", r))}
		}
	}()
	disp := func() px.Lambda { return (*f).Dispatchers()[a.D] }
	tuple := func() *types.TupleType { return disp().Signature().ParametersType().(*types.TupleType) }
	switch a.K {
	case "Dispatchers":
		ds := (*f).Dispatchers()
		_ = (*f).Name()
		_ = (*f).String()
		_ = (*f).PType().String()
		_ = px.Equals(*f, *f, nil)
		return AccObs{K: "count", N: len(ds)}
	case "Parameters":
		ps := disp().Parameters()
		o := AccObs{K: "params"}
		for i, p := range ps {
			_ = p.Name()
			_ = p.String()
			o.Types = append(o.Types, dec.decode(p.Type(), fc.declaredAt(a.D, i)))
			o.Rest = append(o.Rest, p.CapturesRest())
		}
		return o
	case "Signature":
		d := disp()
		s := d.Signature()
		_ = d.PType()
		_ = s.ParametersType()
		_ = s.ReturnType()
		_ = s.BlockName()
		if pt, ok := s.(px.ParameterizedType); ok {
			_ = pt.Parameters()
		}
		if ct, ok := s.(*types.CallableType); ok {
			ct.Get("param_types")
			ct.Get("block_type")
			ct.Get("return_type")
			_ = ct.CanSerializeAsString()
			_ = ct.MetaType()
		}
		return AccObs{K: "text"}
	case "Names":
		return AccObs{K: "count", N: len(disp().Signature().ParameterNames())}
	case "Types":
		tt := tuple()
		o := AccObs{K: "types"}
		for i, t := range tt.Types() {
			o.Types = append(o.Types, dec.decode(t, fc.declaredAt(a.D, i)))
			_ = tt.At(i)
		}
		_ = tt.Parameters()
		tt.Get("types")
		_ = tt.At(len(tt.Types()) + 3)
		return o
	case "Size":
		sz := tuple().Size()
		return AccObs{K: "size", Min: sz.Min(), Max: sz.Max()}
	case "Block":
		return AccObs{K: "block", Has: disp().Signature().BlockType() != nil}
	case "Text":
		d := disp()
		s := d.Signature()
		tt := tuple()
		_ = d.String()
		_ = s.String()
		_ = tt.String()
		_ = px.ToString2(s, types.Expanded)
		_ = px.ToPrettyString(tt)
		n := 0
		s.Accept(func(px.Type) { n++ }, nil)
		_ = px.Generalize(s)
		_ = n
		_ = tt.Generic()
		_ = tt.CommonElementType()
		_ = px.Equals(s, s, nil)
		_ = px.Equals(d, d, nil)
		_ = px.IsAssignable(s, s)
		_ = px.IsInstance(s, d)
		sigs := []px.Signature{}
		for _, l := range (*f).Dispatchers() {
			sigs = append(sigs, l.Signature())
		}
		_ = px.DescribeSignatures(sigs, types.WrapValues([]px.Value{px.Undef, types.WrapInteger(1)}).DetailedType(), nil)
		return AccObs{K: "text"}
	case "Resolve":
		nf := rf.Resolve(ctx)
		*f = nf
		return AccObs{K: "resolved", Has: true}
	}
	panic("bad accessor " + a.K)
}

// roundObs: one round = the accessors asked once, then all calls made again
type roundObs struct {
	Acc   []AccObs
	Calls []CallObs
	Viol  []string
}

const inspectRounds = 2

func (fc *FnCase) inspGallina(run *fnRun) string {
	base := fc.gallina(run.obs) // (aliases, dss, calls, ObsCalls before)
	before := make([]string, len(run.obs.Calls))
	for i, c := range run.obs.Calls {
		before[i] = c.gallina()
	}
	// fc.gallina ends with ",\n    (ObsCalls [...]))": replace the observation by the plain list
	cut := strings.LastIndex(base, "(ObsCalls ")
	head := base[:cut]
	acs := make([]string, len(fc.Inspect))
	for i, a := range fc.Inspect {
		acs[i] = a.gallina()
	}
	rs := make([]string, len(run.rounds))
	for i, r := range run.rounds {
		os := make([]string, len(r.Acc))
		for j, o := range r.Acc {
			os[j] = o.gallina()
		}
		cs := make([]string, len(r.Calls))
		for j, c := range r.Calls {
			cs[j] = c.gallina()
		}
		rs[i] = lib.GPair(lib.GList(os, "caobs"), lib.GList(cs, "callres"))
	}
	return head + lib.GList(before, "callres") + ",\n    " + lib.GList(acs, "accessor") + ",\n    " +
		lib.GList(rs, "list caobs * list callres") + ")"
}

func inspectFile(e *env) *lib.CasesFile {
	return &lib.CasesFile{Imports: corrImports, Typ: "inspcase", Prelude: e.btabGallina(),
		Obligations: map[string]string{"introspection_model": "insp_mismatches btab cases"}}
}

// allAccs: every accessor on every dispatcher, a repeated Resolve in the middle
func allAccs(n int) []Acc {
	out := []Acc{{K: "Dispatchers"}}
	for i := 0; i < n; i++ {
		out = append(out, Acc{K: "Parameters", D: i}, Acc{K: "Signature", D: i}, Acc{K: "Names", D: i}, Acc{K: "Types", D: i},
			Acc{K: "Size", D: i}, Acc{K: "Block", D: i}, Acc{K: "Text", D: i})
	}
	out = append(out, Acc{K: "Resolve"})
	for i := 0; i < n; i++ {
		out = append(out, Acc{K: "Parameters", D: i}, Acc{K: "Types", D: i})
	}
	return out
}

var accKinds = []string{"Dispatchers", "Parameters", "Parameters", "Signature", "Names", "Types", "Types", "Size", "Block", "Text", "Resolve"}

func randomAccs(r *lib.Rng, n int) []Acc {
	out := []Acc{}
	for k := 1 + r.Intn(6); k > 0; k-- {
		out = append(out, Acc{K: accKinds[r.Intn(len(accKinds))], D: r.Intn(n)})
	}
	return out
}

// oneAcc: a single kind of accessor on every dispatcher (so that a replay names the accessor that matters)
func oneAcc(k string, n int) []Acc {
	if k == "Dispatchers" || k == "Resolve" {
		return []Acc{{K: k}}
	}
	out := []Acc{}
	for i := 0; i < n; i++ {
		out = append(out, Acc{K: k, D: i})
	}
	return out
}

// inspectCorpus: dispatch tables in which an argument error / a later dispatch hinges on an optional position, the
// repeated last parameter or the block - with undef, missing and surplus values there.
func inspectCorpus() []*FnCase {
	fn := Op{K: "Function"}
	fn2 := Op{K: "Function2"}
	c := func(blk int, vs ...*PVal) CallIn { return CallIn{Args: vs, Blk: blk} }
	u := vUndef()
	I, S, B, F := tIntR(0, 5), tStr(), tBool(), tFloat()
	pairRestTwo := [][]Op{
		{P("Param", tInt()), P("Opt", S), fn},
		{P("Param", S), P("Opt", B), P("Rep", tIntR(0, 9)), fn},
		{P("Param", F), P("Opt", F), P("Opt", F), fn},
	}
	prtCalls := []CallIn{c(-1, vInt(1)), c(-1, vInt(1), vStr("a")), c(-1, vInt(1), u), c(-1, vInt(1), vInt(2)), c(-1, vStr("s")),
		c(-1, vStr("s"), vBool(true)), c(-1, vStr("s"), u), c(-1, vStr("s"), vBool(true), vInt(1), vInt(2)), c(-1, vStr("s"), u, vInt(1)),
		c(-1, vStr("s"), vBool(true), u), c(-1, vStr("s"), vBool(true), vInt(1), vInt(10)), c(-1, vFloat(1)), c(-1, vFloat(1), vFloat(2), vFloat(3)),
		c(-1, vFloat(1), u), c(-1, vFloat(1), vFloat(2), u), c(-1, u), c(-1), c(1, vInt(1))}
	blkCalls := []CallIn{c(-1, vInt(1)), c(0, vInt(1)), c(1, vInt(1)), c(2, vInt(1)), c(1, vInt(1), u), c(-1, vInt(1), u), c(1, vInt(1), vStr("a")),
		c(-1, vInt(1), vStr("a")), c(1), c(-1), c(1, vInt(7)), c(-1, vInt(7), u)}
	fallCalls := []CallIn{c(-1, vInt(1)), c(-1, vInt(1), u), c(-1, vInt(1), vStr("a")), c(-1, vInt(1), u, u), c(-1, vInt(1), vStr("a"), u), c(-1, u), c(-1, u, u),
		c(-1, vInt(1), vStr("a"), vBool(true)), c(-1), c(-1, vInt(7))}
	tables := []struct {
		aliases []Alias
		disps   [][]Op
		calls   []CallIn
	}{
		{nil, pairRestTwo, prtCalls},
		// an earlier dispatch that must refuse undef so that a later one (or the argument error) gets the call
		{nil, [][]Op{{P("Param", I), P("Opt", S), fn}, {P("Param", I), P("Opt", tUndef()), fn}, {P("Param", tAny()), P("Rep", tAny()), fn}}, fallCalls},
		{nil, [][]Op{{P("Param", I), P("Opt", S), P("Opt", B), fn}, {P("Param", I), P("Rep", tOpt(S)), fn}}, fallCalls},
		{nil, [][]Op{{P("Opt", I), fn}, {P("Opt", tOpt(I)), fn}}, []CallIn{c(-1), c(-1, u), c(-1, vInt(1)), c(-1, vInt(7)), c(-1, u, u)}},
		{nil, [][]Op{{P("Opt", I), P("Opt", I), P("Rep", I), fn}, {P("Rep", tVar(I, tUndef())), fn}}, []CallIn{c(-1), c(-1, u), c(-1, vInt(1), u), c(-1, vInt(1), vInt(2), u),
			c(-1, vInt(1), vInt(2), vInt(3), u), c(-1, vInt(1), vInt(2), vInt(3)), c(-1, vInt(1), vInt(7))}},
		{nil, [][]Op{{P("ReqRep", I), fn}, {P("Param", I), P("Opt", S), fn}}, fallCalls},
		{nil, [][]Op{{fn}, {P("Opt", S), fn}}, []CallIn{c(-1), c(-1, u), c(-1, vStr("a")), c(1)}},
		// blocks: required, optional, a declared type that accepts a missing block; optional parameters in front of them
		{nil, [][]Op{{P("Param", I), P("Opt", S), {K: "Block", B: 2}, fn2}, {P("Param", I), P("Opt", S), fn}}, blkCalls},
		{nil, [][]Op{{P("Param", I), P("Opt", S), {K: "OptBlock", B: 2}, fn2}, {P("Param", tInt()), P("Rep", tAny()), fn}}, blkCalls},
		{nil, [][]Op{{P("Param", I), P("Opt", S), {K: "Block", B: 9}, fn2}, {P("Param", tInt()), P("Rep", tAny()), fn}}, blkCalls},
		{nil, [][]Op{{P("Param", I), {K: "Block", B: 11}, fn2}, {P("Param", I), P("Opt", S), {K: "OptBlock", B: 3, Typed: true}, fn2}}, blkCalls},
		{nil, [][]Op{{P("Param", I), P("Opt", S), {K: "OptBlock", B: firstAliasBlock}, fn2}, {P("Param", I), P("Opt", tAny()), {K: "Block", B: 16}, fn2}}, blkCalls},
		// local types at optional positions
		{aliasSet, [][]Op{{P("Param", tRef("MyInt")), P("Opt", tRef("MyVar")), P("Opt", tRef("MyEnum")), fn}, {P("Param", tRef("MyInt")), P("Rep", tOpt(tRef("MyArr"))), fn}},
			[]CallIn{c(-1, vInt(1)), c(-1, vInt(1), u), c(-1, vInt(1), vStr("ab")), c(-1, vInt(1), vStr("ab"), u), c(-1, vInt(1), vStr("ab"), vStr("a")),
				c(-1, vInt(1), vArr(vInt(1)), u), c(-1, vInt(1), vArr(vInt(7))), c(-1, vInt(7), u), c(-1, u)}},
	}
	// long dispatches: optional tail across the capacities of the builder's lists
	for _, n := range []int{7, 9, 17} {
		long := []Op{}
		pre := []*PVal{}
		for i := 0; i < n-2; i++ {
			long = append(long, Op{K: "Param", T: S, Typed: i%3 == 1})
			pre = append(pre, vStr("s"))
		}
		long = append(long, P("Opt", I), P("Opt", B), fn)
		w := func(vs ...*PVal) CallIn { return CallIn{Args: append(append([]*PVal{}, pre...), vs...), Blk: -1} }
		tables = append(tables, struct {
			aliases []Alias
			disps   [][]Op
			calls   []CallIn
		}{nil, [][]Op{long, {P("Rep", tOpt(tAny())), fn}}, []CallIn{w(), w(vInt(1)), w(u), w(vInt(1), vBool(true)), w(vInt(1), u), w(u, u), w(u, vBool(true)), w(vInt(7))}})
	}
	out := []*FnCase{}
	for _, t := range tables {
		n := len(t.disps)
		// one kind of accessor at a time first (so that the first failing input names the accessor that matters), then all
		seqs := [][]Acc{}
		for _, k := range []string{"Dispatchers", "Parameters", "Signature", "Names", "Types", "Size", "Block", "Text", "Resolve"} {
			seqs = append(seqs, oneAcc(k, n))
		}
		seqs = append(seqs, allAccs(n))
		for _, s := range seqs {
			out = append(out, &FnCase{Kind: "inspect", Aliases: t.aliases, Disps: t.disps, Calls: t.calls, Inspect: s})
		}
	}
	return out
}

func runInspect(cfg *lib.Config, res *lib.Result, e *env, rng *lib.Rng) {
	nRandom, randomCalls, coqEvery, exhLen, exhArity := 400, 24, 3, 3, 3
	if cfg.Thorough() {
		nRandom, randomCalls, coqEvery, exhLen, exhArity = 12000, 40, 4, 3, 4
	}
	cf := inspectFile(e)
	n := 0
	one := func(fc *FnCase, family string, coqCalls int) {
		touch(fc)
		n++
		before := len(res.Violations)
		run := e.checkFn(res, fc)
		failed := len(res.Violations) > before
		res.Count("inspect.fn." + family)
		if run.obs.Build != "ok" {
			res.Count("inspect.not-built")
			return
		}
		for _, a := range fc.Inspect {
			res.Count("inspect.accessor." + a.K)
		}
		for _, r := range run.rounds {
			for k, call := range fc.Calls {
				res.Evaluations++
				res.Count("inspect.call-after." + r.Calls[k].Class)
				if e.callNontrivial(run, fc, call) {
					res.Nontrivial("after " + accsText(fc.Inspect) + " | " + fc.text() + " | " + call.text())
				}
			}
		}
		if n%211 == 1 {
			res.Sample(map[string]interface{}{"kind": "inspect", "function": fc.text(), "accessors": accsText(fc.Inspect),
				"call": fc.Calls[0].text(), "before": run.obs.Calls[0].String(), "after": run.rounds[len(run.rounds)-1].Calls[0].String()})
		}
		if coqCalls <= 0 && !failed {
			return
		}
		// sub-sample the calls for the model; the calls on which D failed in some round always go along
		stride := 1
		if coqCalls > 0 && len(fc.Calls) > coqCalls {
			stride = len(fc.Calls)/coqCalls + 1
		}
		keep := []int{}
		for k := range fc.Calls {
			bad := false
			for _, r := range run.rounds {
				if r.Viol[k] != "" || r.Calls[k] != run.obs.Calls[k] {
					bad = true
				}
			}
			if k%stride == 0 || bad {
				keep = append(keep, k)
			}
		}
		sub := &FnCase{Kind: "inspect", Aliases: fc.Aliases, Disps: fc.Disps, Inspect: fc.Inspect}
		srun := &fnRun{obs: FnObs{Build: "ok"}}
		for _, r := range run.rounds {
			srun.rounds = append(srun.rounds, roundObs{Acc: r.Acc})
		}
		for _, k := range keep {
			sub.Calls = append(sub.Calls, fc.Calls[k])
			srun.obs.Calls = append(srun.obs.Calls, run.obs.Calls[k])
			for i, r := range run.rounds {
				srun.rounds[i].Calls = append(srun.rounds[i].Calls, r.Calls[k])
			}
		}
		cf.Add(sub.inspGallina(srun), sub)
	}
	for _, fc := range inspectCorpus() {
		one(fc, "corpus", 1000)
	}
	// every parameter-kind sequence up to exhLen x the five block declarations, every short call over {3, "a", true, undef}
	calls := allCalls([]*PVal{vInt(3), vStr("a"), vBool(true), vUndef()}, exhArity)
	for i, fc := range exhaustiveFns(exhLen) {
		wf, _ := declOf(fc.Disps[0]).wellFormed()
		if wf != "yes" {
			continue
		}
		off := (i * 5) % 13
		ic := &FnCase{Kind: "inspect", Aliases: fc.Aliases, Disps: fc.Disps, Calls: append(append([]CallIn{}, calls[off:]...), calls[:off]...)}
		switch i % 3 {
		case 0:
			ic.Inspect = allAccs(1)
		case 1:
			ic.Inspect = []Acc{{K: "Parameters"}}
		default:
			ic.Inspect = []Acc{{K: []string{"Types", "Text", "Resolve", "Signature"}[(i/3)%4]}, {K: "Parameters"}}
		}
		m := 0
		if i%coqEvery == 0 {
			m = 12
		}
		one(ic, "exhaustive", m)
	}
	// shapes: local types referring to each other, dispatches with many parameters
	for i, fc := range forwardFns(rng.Fork()) {
		if i%4 != 0 {
			continue
		}
		one(&FnCase{Kind: "inspect", Aliases: fc.Aliases, Disps: fc.Disps, Calls: fc.Calls, Inspect: allAccs(len(fc.Disps))}, "forward", 10)
	}
	for i, fc := range longFns(cfg.Thorough()) {
		if i%5 != 0 {
			continue
		}
		m := 0
		if i%15 == 0 {
			m = 8
		}
		one(&FnCase{Kind: "inspect", Disps: fc.Disps, Calls: fc.Calls, Inspect: allAccs(len(fc.Disps))}, "long", m)
	}
	for i := 0; i < nRandom; i++ {
		r := rng.Fork()
		fc := randomFn(e, r, randomCalls)
		fc.Kind = "inspect"
		if r.Chance(1, 3) {
			fc.Inspect = allAccs(len(fc.Disps))
		} else {
			fc.Inspect = randomAccs(r, len(fc.Disps))
		}
		m := 0
		if i%coqEvery == 0 {
			m = 12
		}
		one(fc, "random", m)
	}
	res.CorrFiles = append(res.CorrFiles, cf.WriteTo(cfg.Out, "cases_inspect"))
}
