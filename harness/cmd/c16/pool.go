package main

import (
	"fmt"
	"math"
	"reflect"
	"runtime"
	"strconv"
	"strings"

	"github.com/lyraproj/issue/issue"
	"github.com/lyraproj/pcore/px"
	"github.com/lyraproj/pcore/types"
	"verifharness/lib"
)

// ---- the concrete type fragment of coq/Model/Dispatch.v (`pty`) --------------------------------

// PTy is a parameter / receiver type of the modelled fragment.  K is one of
// Any Undef Boolean Numeric Float Integer String Enum Optional Variant Array Ref.
// Integer bounds and String/Array size bounds: nil = `default` (unbounded side).
type PTy struct {
	K    string   `json:"k"`
	Lo   *int64   `json:"lo,omitempty"`
	Hi   *int64   `json:"hi,omitempty"`
	Vs   []string `json:"vs,omitempty"`
	Ts   []*PTy   `json:"ts,omitempty"`
	Name string   `json:"name,omitempty"`
}

func i64(n int64) *int64 { return &n }

func tAny() *PTy                       { return &PTy{K: "Any"} }
func tUndef() *PTy                     { return &PTy{K: "Undef"} }
func tBool() *PTy                      { return &PTy{K: "Boolean"} }
func tNumeric() *PTy                   { return &PTy{K: "Numeric"} }
func tFloat() *PTy                     { return &PTy{K: "Float"} }
func tInt() *PTy                       { return &PTy{K: "Integer"} }
func tIntR(lo, hi int64) *PTy          { return &PTy{K: "Integer", Lo: i64(lo), Hi: i64(hi)} }
func tStr() *PTy                       { return &PTy{K: "String"} }
func tStrSz(lo int64, hi *int64) *PTy  { return &PTy{K: "String", Lo: i64(lo), Hi: hi} }
func tEnum(vs ...string) *PTy          { return &PTy{K: "Enum", Vs: vs} }
func tOpt(t *PTy) *PTy                 { return &PTy{K: "Optional", Ts: []*PTy{t}} }
func tVar(ts ...*PTy) *PTy             { return &PTy{K: "Variant", Ts: ts} }
func tArr(e *PTy, lo int64, hi *int64) *PTy { return &PTy{K: "Array", Ts: []*PTy{e}, Lo: i64(lo), Hi: hi} }
func tRef(n string) *PTy               { return &PTy{K: "Ref", Name: n} }

func bound(p *int64) string {
	if p == nil {
		return "default"
	}
	return strconv.FormatInt(*p, 10)
}

// Src prints the type as pcore text.  When expand is non-nil every alias reference is replaced by
// the (expanded) text of its definition - this is the harness' own, independent alias resolution.
func (t *PTy) Src(expand map[string]*PTy) string {
	switch t.K {
	case "Any", "Undef", "Boolean", "Numeric", "Float":
		return t.K
	case "Integer":
		if t.Lo == nil && t.Hi == nil {
			return "Integer"
		}
		return "Integer[" + bound(t.Lo) + "," + bound(t.Hi) + "]"
	case "String":
		if t.Lo == nil && t.Hi == nil {
			return "String"
		}
		if t.Hi == nil {
			return "String[" + bound(t.Lo) + "]"
		}
		return "String[" + bound(t.Lo) + "," + bound(t.Hi) + "]"
	case "Enum":
		qs := make([]string, len(t.Vs))
		for i, v := range t.Vs {
			qs[i] = "'" + v + "'"
		}
		return "Enum[" + strings.Join(qs, ",") + "]"
	case "Optional":
		return "Optional[" + t.Ts[0].Src(expand) + "]"
	case "Variant":
		ss := make([]string, len(t.Ts))
		for i, e := range t.Ts {
			ss[i] = e.Src(expand)
		}
		return "Variant[" + strings.Join(ss, ",") + "]"
	case "Array":
		if t.Lo == nil && t.Hi == nil {
			return "Array[" + t.Ts[0].Src(expand) + "]"
		}
		if t.Hi == nil {
			return "Array[" + t.Ts[0].Src(expand) + "," + bound(t.Lo) + "]"
		}
		return "Array[" + t.Ts[0].Src(expand) + "," + bound(t.Lo) + "," + bound(t.Hi) + "]"
	case "Ref":
		if expand != nil {
			if d, ok := expand[t.Name]; ok {
				return d.Src(expand)
			}
		}
		return t.Name
	}
	panic("bad PTy kind " + t.K)
}

func (t *PTy) hasRef() bool {
	if t.K == "Ref" {
		return true
	}
	for _, e := range t.Ts {
		if e.hasRef() {
			return true
		}
	}
	return false
}

// bad: the expression does not resolve - an Integer range or a String/Array size range with min > max
// (NewIntegerType raises a reported error); mirrors `pty_ok` of the model.
func (t *PTy) bad() bool {
	switch t.K {
	case "Integer", "String", "Array":
		if t.Lo != nil && t.Hi != nil && *t.Lo > *t.Hi {
			return true
		}
		if t.K == "String" && t.Lo == nil && t.Hi != nil && *t.Hi < 0 {
			return true
		}
	}
	for _, e := range t.Ts {
		if e.bad() {
			return true
		}
	}
	return false
}

func gLo(p *int64, dflt string) string {
	if p == nil {
		return dflt
	}
	return lib.GZ(*p)
}

// Gallina prints the type as a term of `pty`.
func (t *PTy) Gallina() string {
	switch t.K {
	case "Any":
		return "PAny"
	case "Undef":
		return "PUndef"
	case "Boolean":
		return "PBoolean"
	case "Numeric":
		return "PNumeric"
	case "Float":
		return "PFloat"
	case "Integer":
		return "(PInteger " + gLo(t.Lo, "min_int64") + " " + gLo(t.Hi, "max_int64") + ")"
	case "String":
		return "(PString " + gLo(t.Lo, "0") + " " + gLo(t.Hi, "max_int64") + ")"
	case "Enum":
		vs := make([]string, len(t.Vs))
		for i, v := range t.Vs {
			vs[i] = lib.GStr(v)
		}
		return "(PEnum " + lib.GList(vs, "str") + ")"
	case "Optional":
		return "(POptional " + t.Ts[0].Gallina() + ")"
	case "Variant":
		ts := make([]string, len(t.Ts))
		for i, e := range t.Ts {
			ts[i] = e.Gallina()
		}
		return "(PVariant " + lib.GList(ts, "pty") + ")"
	case "Array":
		return "(PArray " + t.Ts[0].Gallina() + " " + gLo(t.Lo, "0") + " " + gLo(t.Hi, "max_int64") + ")"
	case "Ref":
		return "(PRef " + lib.GStr(t.Name) + ")"
	}
	panic("bad PTy kind " + t.K)
}

// ---- values -------------------------------------------------------------------------------------

// PVal is a value.  K: undef bool int float str arr are inside the model fragment (`pval`);
// default hash type are outside it (printed as `VOther n`, used only by Go-side checks).
type PVal struct {
	K  string  `json:"k"`
	B  bool    `json:"b,omitempty"`
	I  int64   `json:"i,omitempty"`
	F  float64 `json:"f,omitempty"`
	S  string  `json:"s,omitempty"`
	Vs []*PVal `json:"vs,omitempty"` // arr: elements; hash: k0,v0,k1,v1,...
}

func vUndef() *PVal            { return &PVal{K: "undef"} }
func vDefault() *PVal          { return &PVal{K: "default"} }
func vBool(b bool) *PVal       { return &PVal{K: "bool", B: b} }
func vInt(n int64) *PVal       { return &PVal{K: "int", I: n} }
func vFloat(f float64) *PVal   { return &PVal{K: "float", F: f} }
func vStr(s string) *PVal      { return &PVal{K: "str", S: s} }
func vArr(vs ...*PVal) *PVal   { return &PVal{K: "arr", Vs: vs} }
func vHash(kvs ...*PVal) *PVal { return &PVal{K: "hash", Vs: kvs} }
func vType(s string) *PVal     { return &PVal{K: "type", S: s} }
func vOther(s string) *PVal    { return &PVal{K: "other", S: s} }

func (v *PVal) inFragment() bool {
	switch v.K {
	case "undef", "bool", "int", "float", "str":
		return true
	case "arr":
		for _, e := range v.Vs {
			if !e.inFragment() {
				return false
			}
		}
		return true
	}
	return false
}

func (v *PVal) String() string {
	switch v.K {
	case "undef":
		return "undef"
	case "default":
		return "default"
	case "bool":
		return strconv.FormatBool(v.B)
	case "int":
		return strconv.FormatInt(v.I, 10)
	case "float":
		return strconv.FormatFloat(v.F, 'g', -1, 64)
	case "str":
		return strconv.Quote(v.S)
	case "arr":
		ss := make([]string, len(v.Vs))
		for i, e := range v.Vs {
			ss[i] = e.String()
		}
		return "[" + strings.Join(ss, ",") + "]"
	case "hash":
		ss := []string{}
		for i := 0; i+1 < len(v.Vs); i += 2 {
			ss = append(ss, v.Vs[i].String()+"=>"+v.Vs[i+1].String())
		}
		return "{" + strings.Join(ss, ",") + "}"
	case "type":
		return "type(" + v.S + ")"
	}
	return "other(" + v.S + ")"
}

// Gallina prints the value as a term of `pval` (floats by their IEEE-754 bits).
func (v *PVal) Gallina() string {
	switch v.K {
	case "undef":
		return "VUndef"
	case "bool":
		return "(VBool " + lib.GBool(v.B) + ")"
	case "int":
		return "(VInt " + lib.GZ(v.I) + ")"
	case "float":
		return "(VFloat " + lib.GN(math.Float64bits(v.F)) + ")"
	case "str":
		return "(VStr " + lib.GStr(v.S) + ")"
	case "arr":
		es := make([]string, len(v.Vs))
		for i, e := range v.Vs {
			es[i] = e.Gallina()
		}
		return "(VArr " + lib.GList(es, "pval") + ")"
	}
	return "(VOther 0%N)"
}

func gVals(vs []*PVal) string {
	es := make([]string, len(vs))
	for i, e := range vs {
		es[i] = e.Gallina()
	}
	return lib.GList(es, "pval")
}

func valsText(vs []*PVal) string {
	ss := make([]string, len(vs))
	for i, e := range vs {
		ss[i] = e.String()
	}
	return "(" + strings.Join(ss, ", ") + ")"
}

// toPx builds the implementation value.
func (v *PVal) toPx(c px.Context) px.Value {
	switch v.K {
	case "undef":
		return px.Undef
	case "default":
		return types.WrapDefault()
	case "bool":
		return types.WrapBoolean(v.B)
	case "int":
		return types.WrapInteger(v.I)
	case "float":
		return types.WrapFloat(v.F)
	case "str":
		return types.WrapString(v.S)
	case "arr":
		es := make([]px.Value, len(v.Vs))
		for i, e := range v.Vs {
			es[i] = e.toPx(c)
		}
		return types.WrapValues(es)
	case "hash":
		es := make([]*types.HashEntry, 0, len(v.Vs)/2)
		for i := 0; i+1 < len(v.Vs); i += 2 {
			es = append(es, types.WrapHashEntry(v.Vs[i].toPx(c), v.Vs[i+1].toPx(c)))
		}
		return types.WrapHash(es)
	case "type":
		return c.ParseType(v.S)
	}
	panic("cannot build value of kind " + v.K)
}

func pxVals(c px.Context, vs []*PVal) []px.Value {
	r := make([]px.Value, len(vs))
	for i, v := range vs {
		r[i] = v.toPx(c)
	}
	return r
}

// fromPx decodes an implementation value (by the dynamic Go type, public accessors only).
func fromPx(v px.Value) *PVal {
	if v == nil {
		return vOther("<nil>")
	}
	switch reflect.TypeOf(v).String() {
	case "*types.UndefValue":
		return vUndef()
	case "*types.DefaultValue":
		return vDefault()
	case "types.booleanValue":
		return vBool(v.(px.Boolean).Bool())
	case "types.integerValue":
		return vInt(v.(px.Integer).Int())
	case "types.floatValue":
		return vFloat(v.(px.Float).Float())
	case "types.stringValue":
		return vStr(v.String())
	case "*types.Array":
		l := v.(px.List)
		es := make([]*PVal, l.Len())
		for i := range es {
			es[i] = fromPx(l.At(i))
		}
		return vArr(es...)
	}
	return vOther(reflect.TypeOf(v).String())
}

// ---- outcome of an implementation call -----------------------------------------------------------

// Outcome classes: "ok" (returned), "reported" (panic with an issue.Reported; Code is the issue code),
// "fault" (Go runtime error), "panic" (any other panic value).
type Outcome struct {
	Class string   `json:"class"`
	Code  string   `json:"code,omitempty"`
	Msg   string   `json:"msg,omitempty"`
	Val   px.Value `json:"-"`
}

func (o Outcome) String() string {
	switch o.Class {
	case "ok":
		s := "<nil>"
		if o.Val != nil {
			s = safeString(o.Val)
		}
		return "returned " + s
	case "reported":
		return "reported error " + o.Code
	case "fault":
		return "RUNTIME FAULT " + o.Msg
	}
	return "PANIC " + o.Msg
}

func safeString(v px.Value) (s string) {
	defer func() {
		if r := recover(); r != nil {
			s = fmt.Sprintf("<%T>", v)
		}
	}()
	s = v.String()
	if len(s) > 80 {
		s = s[:80] + "..."
	}
	return
}

func short(s string) string {
	s = strings.ReplaceAll(s, "\n", " ")
	if len(s) > 160 {
		s = s[:160] + "..."
	}
	return s
}

func classify(r interface{}) Outcome {
	switch e := r.(type) {
	case issue.Reported:
		return Outcome{Class: "reported", Code: string(e.Code()), Msg: short(e.Error())}
	case runtime.Error:
		return Outcome{Class: "fault", Msg: short(e.Error())}
	case error:
		return Outcome{Class: "panic", Msg: short(fmt.Sprintf("%T: %s", e, e.Error()))}
	}
	return Outcome{Class: "panic", Msg: short(fmt.Sprintf("%T: %v", r, r))}
}

// guard runs f, converting a panic into an Outcome.
func guard(f func() px.Value) (o Outcome) {
	defer func() {
		if r := recover(); r != nil {
			o = classify(r)
		}
	}()
	v := f()
	return Outcome{Class: "ok", Val: v}
}

// isInst is the implementation's instance-of, guarded (a fault counts as `false` and is reported
// through the flag).
func isInst(t px.Type, v px.Value) (res bool, fault string) {
	defer func() {
		if r := recover(); r != nil {
			res = false
			fault = short(fmt.Sprintf("%v", r))
		}
	}()
	return px.IsInstance(t, v), ""
}
