package main

import (
	"fmt"
	"math"

	"github.com/lyraproj/pcore/px"
	"github.com/lyraproj/pcore/types"
	"verifharness/lib"
)

// ---- px.New / px.Call(c,"new",...) / types.CoerceTo -----------------------------------------------------

// NewCase: create an instance.  The receiver is a type given as pcore text (Recv), or - RecvV - a
// value that is not a type (a type name as a String, or anything else).
type NewCase struct {
	Kind  string  `json:"kind"` // "new"
	Recv  string  `json:"recv,omitempty"`
	RecvT *PTy    `json:"recv_t,omitempty"` // the same receiver as a term of the model fragment, when it is inside
	RecvV *PVal   `json:"recv_v,omitempty"`
	Args  []*PVal `json:"args"`
	Via   string  `json:"via"` // New | Call | CallBlock | Coerce
}

func (nc *NewCase) text() string {
	r := nc.Recv
	if nc.RecvV != nil {
		r = nc.RecvV.String()
	}
	switch nc.Via {
	case "Coerce":
		return fmt.Sprintf("CoerceTo(%s, %s)", r, valsText(nc.Args))
	case "Call":
		return fmt.Sprintf("call new(%s, %s)", r, valsText(nc.Args))
	case "CallBlock":
		return fmt.Sprintf("call new(%s, %s) with a block", r, valsText(nc.Args))
	}
	return fmt.Sprintf("%s.new%s", r, valsText(nc.Args))
}

// receivers inside the model fragment
func fragmentReceivers() []*PTy {
	return []*PTy{
		tInt(), tIntR(0, 5), tIntR(-3, 3), {K: "Integer", Lo: i64(6)}, tFloat(), tNumeric(), tBool(),
		tStr(), tStrSz(2, nil), tStrSz(1, i64(1)), tStrSz(0, i64(0)), tStrSz(3, i64(4)),
		tArr(tAny(), 0, nil), tArr(tInt(), 0, nil), tArr(tInt(), 1, nil), tArr(tStr(), 0, i64(1)), tArr(tIntR(0, 5), 2, i64(2)),
		tArr(tVar(tIntR(0, 5), tStr()), 1, i64(2)),
		// no constructor
		tAny(), tUndef(), tEnum("a", "b"), tOpt(tIntR(0, 5)), tVar(tIntR(0, 5), tStrSz(2, nil)),
	}
}

// receivers outside the fragment (Go-side check only)
var otherReceivers = []string{
	"Float[0.0,1.0]", "Float[-1.0,0.5]", "Boolean[true]", "Boolean[false]", "String['abc']",
	"Tuple", "Tuple[Integer]", "Tuple[Integer,String]", "Tuple[Integer,1,3]", "Tuple[String,Integer[0,5]]",
	"Hash", "Hash[String,Integer]", "Hash[String,Integer,1]", "Hash[Integer,Integer,0,1]",
	"Struct[{a=>Integer}]", "Struct[{a=>Integer,Optional[b]=>String}]",
	"Binary", "Type", "Type[Integer]", "Type[String[2]]", "URI", "Timestamp", "Timespan", "SemVer", "SemVerRange", "Regexp", "Unit",
	"Sensitive", "Sensitive[Integer]", "Sensitive[String[2]]",
	"Scalar", "ScalarData", "Data", "RichData", "Pattern[/a/]", "NotUndef[Integer]", "Default", "Callable", "Collection",
	"Iterable", "Iterator", "Runtime", "Object", "TypeSet", "Init", "Type[Integer[0,5]]",
	"Init[Integer[0,5]]", "Init[String[2]]", "Init[Boolean]", "Init[Binary]", "Init[Array[Integer,1]]", "Init[Integer,16]",
	"Init[Integer[0,5],16]", "Init[Timespan]", "Init[Enum['a','b']]", "Init[Variant[Integer,String]]", "Init[Numeric]", "Init[Float[0.0,1.0]]",
	"Init[Hash[String,Integer,1]]", "Init[Tuple[Integer,String]]",
}

var nonTypeReceivers = []*PVal{vStr("Integer"), vStr("String"), vStr("Array"), vStr("Integer[0,5]"), vStr("NoSuchType"), vStr("Enum"),
	vStr(""), vInt(3), vUndef(), vArr(vInt(1)), vBool(true), vStr("Init"), vStr("Object")}

func newArgPool() []*PVal {
	return []*PVal{
		vInt(-7), vInt(0), vInt(3), vInt(7), vInt(16), vInt(255),
		vFloat(0.5), vFloat(-2.5), vFloat(3), vBool(true), vBool(false), vUndef(), vDefault(),
		vStr("3"), vStr("7"), vStr("-4"), vStr("abc"), vStr(""), vStr("a"), vStr("ab"), vStr("0x1F"), vStr("1F"), vStr("11"),
		vStr("1.5"), vStr("true"), vStr("false"), vStr("yes"), vStr("No"), vStr("YQ=="), vStr("1.0.0"), vStr("http://a/b"),
		vStr("2019-01-01"), vStr("Integer"), vStr("%d"), vStr("1-2"), vStr(">=1.0.0"),
		vArr(), vArr(vInt(1)), vArr(vInt(1), vInt(2)), vArr(vStr("a")), vArr(vInt(7), vInt(3)), vArr(vStr("a"), vInt(1)),
		vArr(vArr(vStr("a"), vInt(1))), vArr(vArr(vInt(1), vInt(2))), vArr(vArr(vArr(vStr("a"), vStr("b")), vInt(1))),
		vHash(vStr("from"), vStr("7")), vHash(vStr("from"), vInt(-7), vStr("abs"), vBool(true)),
		vHash(vStr("from"), vStr("11"), vStr("radix"), vInt(2)), vHash(vStr("a"), vInt(1)), vHash(vStr("a"), vStr("x")), vHash(),
		vHash(vStr("from"), vFloat(-0.5), vStr("abs"), vBool(true)),
		vType("Integer"), vType("String[2]"),
		vFloat(0), vFloat(math.Copysign(0, -1)), vStr("YES"), vStr("N"), vStr("False"), vStr("y"), vStr("no"), vStr("nO"),
		vStr("TRUE"), vStr("tru"), vStr("\u212a"), vArr(vBool(true)),
	}
}

func newSecondArgs() []*PVal {
	return []*PVal{vInt(2), vInt(8), vInt(10), vInt(16), vInt(5), vBool(true), vBool(false), vDefault(), vStr("%d"), vStr("%x"),
		vStr("%5.2f"), vStr("tree"), vStr("hash_tree"), vUndef(), vStr("%s"), vStr("%p")}
}

// ctorNames mirrors the registrations of Go constructors in the types package (newGoConstructor*).
func typeName(t *PTy) string {
	if t.K == "Ref" {
		return t.Name
	}
	return t.K
}

type NewObs struct {
	Out    Outcome
	Result *PVal // decoded result when it returned
	InType bool  // result is an instance of the type new was asked for
	Target string
}

// targetType: the type the created instance has to belong to: the receiver; for Init[T,...] the type T
// (Init[T].new creates a T from the given initializer); for a type name the named type.
func (e *env) targetType(recv px.Value) px.Type {
	switch r := recv.(type) {
	case *types.InitType:
		if r.Type() != nil {
			return r.Type()
		}
		return r
	case px.Type:
		return r
	case px.StringValue:
		var t px.Type
		guard(func() px.Value {
			if x, ok := px.Load(e.c, px.NewTypedName(px.NsType, r.String())); ok {
				t, _ = x.(px.Type)
			}
			return nil
		})
		return t
	}
	return nil
}

func (e *env) receiver(nc *NewCase) (recv px.Value, o Outcome) {
	o = guard(func() px.Value {
		if nc.RecvV != nil {
			recv = nc.RecvV.toPx(e.c)
		} else {
			recv = e.c.ParseType(nc.Recv)
		}
		return nil
	})
	return
}

func (e *env) runNew(nc *NewCase) (obs NewObs, blockArg px.Value, blockRan int) {
	recv, ro := e.receiver(nc)
	if ro.Class != "ok" {
		obs.Out = Outcome{Class: "reported", Code: "RECEIVER_NOT_PARSED", Msg: ro.Msg}
		return
	}
	args := pxVals(e.c, nc.Args)
	target := e.targetType(recv)
	if target != nil {
		obs.Target = safeString(target)
	}
	switch nc.Via {
	case "New":
		obs.Out = guard(func() px.Value { return px.New(e.c, recv, args...) })
	case "Call":
		obs.Out = guard(func() px.Value { return px.Call(e.c, "new", append([]px.Value{recv}, args...), nil) })
	case "CallBlock":
		blk := px.BuildFunction("block", nil, []px.DispatchCreator{func(d px.Dispatch) {
			d.Param("Any")
			d.Function(func(c px.Context, bargs []px.Value) px.Value {
				blockRan++
				blockArg = bargs[0]
				return types.WrapString("from the block")
			})
		}}).Resolve(e.c).Dispatchers()[0]
		obs.Out = guard(func() px.Value { return px.Call(e.c, "new", append([]px.Value{recv}, args...), blk) })
	case "Coerce":
		t, ok := recv.(px.Type)
		if !ok || len(args) != 1 {
			obs.Out = Outcome{Class: "reported", Code: "NOT_APPLICABLE"}
			return
		}
		target = t
		obs.Target = safeString(target)
		obs.Out = guard(func() px.Value { return types.CoerceTo(e.c, "value", t, args[0]) })
	}
	if obs.Out.Class == "ok" {
		created := obs.Out.Val
		if nc.Via == "CallBlock" {
			created = blockArg
		}
		if created != nil {
			obs.Result = fromPx(created)
			if target != nil {
				obs.InType, _ = isInst(target, created)
			} else {
				obs.InType = true // no type could be named: nothing to belong to (never happens when it returns)
			}
		}
	}
	return
}

// checkNew: the direct check D for one creation.
func (e *env) checkNew(res *lib.Result, nc *NewCase) NewObs {
	obs, _, blockRan := e.runNew(nc)
	recvTag := nc.Recv
	if nc.RecvV != nil {
		recvTag = "value:" + nc.RecvV.String()
	}
	switch obs.Out.Class {
	case "ok":
		if nc.Via == "CallBlock" && blockRan != 1 {
			res.Violate(lib.Violation{Clause: "new-block-called-once",
				What: fmt.Sprintf("%s: returned but the block ran %d times", nc.text(), blockRan), Input: nc, Tags: []string{"new", "recv:" + recvTag}})
		} else if !obs.InType {
			res.Violate(lib.Violation{Clause: "new-result-in-type",
				What: fmt.Sprintf("%s yielded %s which is not an instance of %s", nc.text(), obs.Result, obs.Target),
				Input: nc, Tags: []string{"new", "via:" + nc.Via, "recv:" + recvTag}})
		}
	case "reported":
	case "panic":
		// a deliberate panic(error) / panic(string) that is not an issue.Reported (e.g. ParseType's
		// fmt.Errorf): an error report without an issue code.  Counted, not a violation: the property
		// excludes values outside the type and escaping runtime faults.
		res.Count("new.uncoded-error")
	default:
		res.Violate(lib.Violation{Clause: "new-error-is-reported",
			What: fmt.Sprintf("%s escaped with an unreported %s: %s", nc.text(), obs.Out.Class, obs.Out.Msg),
			Input: nc, Tags: []string{"new", "via:" + nc.Via, obs.Out.Class, "recv:" + recvTag}})
	}
	return obs
}

// ---- model tie: outcome terms ----------------------------------------------------------------------------

func outcomeGallina(o Outcome, v *PVal) (string, bool) {
	switch o.Class {
	case "ok":
		if v == nil || !v.inFragment() {
			return "", false
		}
		return "(OVal " + v.Gallina() + ")", true
	case "reported":
		switch o.Code {
		case string(px.IllegalArguments):
			return "(OErr EArg)", true
		case string(px.TypeMismatch):
			return "(OErr EMismatch)", true
		case string(px.InstanceDoesNotRespond):
			return "(OErr ENoRespond)", true
		}
		return "(OErr EOther)", true
	case "fault":
		return "OFault", true
	}
	return "OPanic", true
}

// rawCtor calls the registered constructor function of the named type directly (no AssertInstance).
func (e *env) rawCtor(name string, args []px.Value) (found bool, o Outcome) {
	var f px.Function
	guard(func() px.Value {
		if x, ok := px.Load(e.c, px.NewTypedName(px.NsConstructor, name)); ok {
			f, _ = x.(px.Function)
		}
		return nil
	})
	if f == nil {
		return false, Outcome{}
	}
	return true, guard(func() px.Value { return f.Call(e.c, nil, args...) })
}

// newGallina: (receiver, args, raw constructor outcome, observed outcome of px.New), when everything is
// inside the fragment.
func (e *env) newGallina(nc *NewCase, obs NewObs) (string, bool) {
	if nc.RecvT == nil || nc.Via != "New" {
		return "", false
	}
	for _, a := range nc.Args {
		if !a.inFragment() {
			return "", false
		}
	}
	og, ok := outcomeGallina(obs.Out, obs.Result)
	if !ok {
		return "", false
	}
	raw := "(OErr ENoRespond)"
	if found, ro := e.rawCtor(typeName(nc.RecvT), pxVals(e.c, nc.Args)); found {
		var rv *PVal
		if ro.Class == "ok" && ro.Val != nil {
			rv = fromPx(ro.Val)
		}
		raw, ok = outcomeGallina(ro, rv)
		if !ok {
			return "", false
		}
	}
	return "(" + nc.RecvT.Gallina() + ", " + gVals(nc.Args) + ", " + raw + ", " + og + ")", true
}
