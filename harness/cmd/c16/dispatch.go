package main

import (
	"fmt"
	"strings"

	"github.com/lyraproj/pcore/px"
	"github.com/lyraproj/pcore/types"
	"verifharness/lib"
)

// ---- generated dispatch tables --------------------------------------------------------------------

// Op is one call on the px.Dispatch builder (internal/function.go dispatchBuilder).
type Op struct {
	K     string `json:"k"`               // Param Opt Rep ReqRep Block OptBlock Returns Function Function2
	T     *PTy   `json:"t,omitempty"`     // parameter type (Param/Opt/Rep/ReqRep)
	Typed bool   `json:"typed,omitempty"` // use the ...2 variant with an already parsed px.Type
	B     int    `json:"b,omitempty"`     // Block/OptBlock: index into blockTypes
}

type Alias struct {
	Name  string `json:"name"`
	T     *PTy   `json:"t"`
	Typed bool   `json:"typed,omitempty"` // LocalTypes.Type2 (parsed type) instead of Type (text)
}

type CallIn struct {
	Args []*PVal `json:"args"`
	Blk  int     `json:"blk"` // -1 = no block, else index into blockLambdas
}

type FnCase struct {
	Kind    string   `json:"kind"` // "dispatch"; "inspect" when Inspect is used
	Aliases []Alias  `json:"aliases,omitempty"`
	Disps   [][]Op   `json:"disps"`
	Calls   []CallIn `json:"calls"`
	// Inspect: read-only accessors asked of the resolved function after the calls; the calls are then made again
	// (twice: calls, accessors, calls, accessors, calls), see inspect.go
	Inspect []Acc `json:"inspect,omitempty"`
}

func isParamOp(k string) bool { return k == "Param" || k == "Opt" || k == "Rep" || k == "ReqRep" }

func (o Op) String() string {
	switch {
	case isParamOp(o.K):
		s := o.K + "(" + o.T.Src(nil) + ")"
		if o.Typed {
			s = o.K + "2(" + o.T.Src(nil) + ")"
		}
		return s
	case o.K == "Block" || o.K == "OptBlock":
		return o.K + "(" + blockTypes[o.B] + ")"
	}
	return o.K
}

func opsText(ops []Op) string {
	ss := make([]string, len(ops))
	for i, o := range ops {
		ss[i] = o.String()
	}
	return strings.Join(ss, "; ")
}

func (fc *FnCase) text() string {
	var b strings.Builder
	for _, a := range fc.Aliases {
		fmt.Fprintf(&b, "type %s = %s; ", a.Name, a.T.Src(nil))
	}
	for i, d := range fc.Disps {
		fmt.Fprintf(&b, "dispatch %d {%s} ", i, opsText(d))
	}
	return b.String()
}

func (c CallIn) text() string {
	s := valsText(c.Args)
	if c.Blk >= 0 {
		s += " block" + blockLambdaText(c.Blk)
	}
	return s
}

// Declared block types and the blocks (lambdas) handed to calls.  Whether a block satisfies a declared
// block type is the implementation's px.IsInstance(Callable[...], lambda) (Callable assignability is
// modelled rather than verified here: it is an oracle table `btab` in the cases files).
var blockTypes = []string{"Callable", "Callable[0,0]", "Callable[1,1]", "Callable[Integer]", "Callable[Numeric]",
	"Callable[Integer[0,5]]", "Callable[String,Integer]", "Callable[1,2]", "Callable[Any]",
	// block types that accept a missing block (undef) or every block without being declared with OptionalBlock:
	// a literal Optional[..], Variant[Undef, ..], Any, Undef
	"Optional[Callable[1,1]]", "Optional[Callable[Integer]]", "Variant[Undef,Callable[1,1]]", "Variant[Callable[0,0],Callable[Integer]]",
	"Any", "Undef",
	// local type aliases (declared as local types of the function that uses them, see blockAliasDecls)
	"Handler", "IntCb", "MaybeCb", "Optional[IntCb]", "Variant[Handler,IntCb]"}

// firstAliasBlock: index of the first block type that needs the local block aliases
const firstAliasBlock = 15

// blockAliasDecls are the local types a function declares when one of its dispatches names an alias block type.
var blockAliasDecls = [][2]string{{"Handler", "Optional[Callable[1,1]]"}, {"IntCb", "Callable[Integer]"},
	{"MaybeCb", "Variant[Undef,Callable[Integer]]"}}

func isAliasBlock(b int) bool { return b >= firstAliasBlock }

// blockTypeExpanded is the block type with the aliases replaced by their definitions (the harness' own,
// independent alias resolution; used for the oracle tables).
func blockTypeExpanded(b int) string {
	t := blockTypes[b]
	for _, a := range blockAliasDecls {
		t = strings.ReplaceAll(t, a[0], a[1])
	}
	return t
}

var blockLambdaDecls = [][]Op{
	{},
	{{K: "Param", T: tInt()}},
	{{K: "Param", T: tNumeric()}},
	{{K: "Param", T: tIntR(0, 5)}},
	{{K: "Param", T: tStr()}},
	{{K: "Param", T: tStr()}, {K: "Param", T: tInt()}},
	{{K: "Param", T: tAny()}},
	{{K: "Param", T: tInt()}, {K: "Opt", T: tStr()}},
	{{K: "Rep", T: tAny()}},
}

func blockLambdaText(i int) string { return "{|" + opsText(blockLambdaDecls[i]) + "|}" }

// env holds what is computed once per process from the implementation.
type env struct {
	c       px.Context
	lambdas []px.Lambda
	btypes  []px.Type
	binst   [][]bool // binst[bt][blk] = px.IsInstance(blockTypes[bt], lambda blk)
	bundef  []bool   // bundef[bt] = px.IsInstance(blockTypes[bt], undef): the declared type accepts a missing block
	tcache  map[string]px.Type
}

func newEnv(c px.Context) *env {
	e := &env{c: c, tcache: map[string]px.Type{}}
	for _, decl := range blockLambdaDecls {
		decl := decl
		f := px.BuildFunction("block", nil, []px.DispatchCreator{func(d px.Dispatch) {
			for _, o := range decl {
				applyOp(e, d, o, nil)
			}
			d.Function(func(c px.Context, args []px.Value) px.Value { return types.WrapString("block") })
		}}).Resolve(c)
		e.lambdas = append(e.lambdas, f.Dispatchers()[0])
	}
	for i := range blockTypes {
		e.btypes = append(e.btypes, c.ParseType(blockTypeExpanded(i)))
	}
	e.binst = make([][]bool, len(blockTypes))
	e.bundef = make([]bool, len(blockTypes))
	for i, bt := range e.btypes {
		e.binst[i] = make([]bool, len(e.lambdas))
		for j, l := range e.lambdas {
			e.binst[i][j], _ = isInst(bt, l)
		}
		e.bundef[i], _ = isInst(bt, px.Undef)
	}
	return e
}

// btabGallina is the oracle table: the pairs (block type id, Some block id) that satisfy, and (block type id, None)
// for the block types that accept undef (a missing block).
func (e *env) btabGallina() string {
	ps := []string{}
	for i := range e.binst {
		for j := range e.binst[i] {
			if e.binst[i][j] {
				ps = append(ps, fmt.Sprintf("(%d%%N,Some %d%%N)", i, j))
			}
		}
		if e.bundef[i] {
			ps = append(ps, fmt.Sprintf("(%d%%N,None)", i))
		}
	}
	return "Definition btab : list (N * option N) := " + lib.GList(ps, "N * option N") + ".\n"
}

func (e *env) parse(s string) px.Type {
	if t, ok := e.tcache[s]; ok {
		return t
	}
	t := e.c.ParseType(s)
	e.tcache[s] = t
	return t
}

// applyOp performs one builder call.  expand is the alias map used for the Typed variants (nil: none).
func applyOp(e *env, d px.Dispatch, o Op, bodies *bodyRec) {
	switch o.K {
	case "Param":
		if o.Typed {
			d.Param2(e.parse(o.T.Src(nil)))
		} else {
			d.Param(o.T.Src(nil))
		}
	case "Opt":
		if o.Typed {
			d.OptionalParam2(e.parse(o.T.Src(nil)))
		} else {
			d.OptionalParam(o.T.Src(nil))
		}
	case "Rep":
		if o.Typed {
			d.RepeatedParam2(e.parse(o.T.Src(nil)))
		} else {
			d.RepeatedParam(o.T.Src(nil))
		}
	case "ReqRep":
		if o.Typed {
			d.RequiredRepeatedParam2(e.parse(o.T.Src(nil)))
		} else {
			d.RequiredRepeatedParam(o.T.Src(nil))
		}
	case "Block":
		if o.Typed && !isAliasBlock(o.B) {
			d.Block2(e.btypes[o.B])
		} else {
			d.Block(blockTypes[o.B])
		}
	case "OptBlock":
		if o.Typed && !isAliasBlock(o.B) {
			d.OptionalBlock2(e.btypes[o.B])
		} else {
			d.OptionalBlock(blockTypes[o.B])
		}
	case "Returns":
		d.Returns("Any")
	case "Function":
		d.Function(bodies.body())
	case "Function2":
		d.Function2(bodies.body2())
	default:
		panic("bad op " + o.K)
	}
}

// bodyRec is what the generated Go bodies record when they run.
type bodyRec struct {
	idx    int // index of the dispatch this body belongs to
	ran    *[]bodyRun
	hasBlk bool
}

type bodyRun struct {
	idx      int
	args     []px.Value
	block    px.Lambda
	gotBlock bool // body type receives a block (Function2)
}

func (b *bodyRec) body() px.DispatchFunction {
	idx := b.idx
	ran := b.ran
	return func(c px.Context, args []px.Value) px.Value {
		*ran = append(*ran, bodyRun{idx: idx, args: args})
		return types.WrapInteger(int64(idx))
	}
}

func (b *bodyRec) body2() px.DispatchFunctionWithBlock {
	idx := b.idx
	ran := b.ran
	return func(c px.Context, args []px.Value, block px.Lambda) px.Value {
		*ran = append(*ran, bodyRun{idx: idx, args: args, block: block, gotBlock: true})
		return types.WrapInteger(int64(idx))
	}
}

// ---- the declaration a dispatch states, and its well-formedness (the Go-side specification) ---------

type blockReq struct {
	optional bool
	bt       int
}

type decl struct {
	params   []Op
	blocks   []blockReq
	returns  int
	fn, fn2  int
	fn2First bool // a block is declared after Function2
}

func declOf(ops []Op) decl {
	var d decl
	seenFn2 := false
	for _, o := range ops {
		switch {
		case isParamOp(o.K):
			d.params = append(d.params, o)
		case o.K == "Block":
			d.blocks = append(d.blocks, blockReq{false, o.B})
			if seenFn2 {
				d.fn2First = true
			}
		case o.K == "OptBlock":
			d.blocks = append(d.blocks, blockReq{true, o.B})
			if seenFn2 {
				d.fn2First = true
			}
		case o.K == "Returns":
			d.returns++
		case o.K == "Function":
			d.fn++
		case o.K == "Function2":
			d.fn2++
			if len(d.blocks) == 0 {
				d.fn2First = true
			}
			seenFn2 = true
		}
	}
	return d
}

// wellFormed: "yes" / "no" (with the reason) / "unspecified".  A declaration is well formed when its
// parameters are  required* optional* (repeated | required-repeated)?  with a required-repeated one only
// when there is no optional one, it declares at most one block and one return type, and its Go function
// takes a block exactly when a block is declared.  These are the rules the builder's own panics name.
func (d decl) wellFormed() (string, string) {
	phase := 0 // 0 required, 1 optional, 2 after repeated
	for _, p := range d.params {
		switch p.K {
		case "Param":
			if phase == 1 {
				return "no", "required-after-optional"
			}
			if phase == 2 {
				return "no", "after-repeated"
			}
		case "Opt":
			if phase == 2 {
				return "no", "after-repeated"
			}
			phase = 1
		case "Rep":
			if phase == 2 {
				return "no", "after-repeated"
			}
			phase = 2
		case "ReqRep":
			if phase == 1 {
				return "no", "required-repeated-after-optional"
			}
			if phase == 2 {
				return "no", "after-repeated"
			}
			phase = 2
		}
	}
	if len(d.blocks) > 1 {
		return "no", "block-twice"
	}
	if d.returns > 1 {
		return "no", "returns-twice"
	}
	if d.fn+d.fn2 != 1 {
		return "unspecified", "not exactly one function"
	}
	if d.fn == 1 && len(d.blocks) > 0 {
		return "no", "block-declared-function-takes-none"
	}
	if d.fn2 == 1 && len(d.blocks) == 0 {
		return "no", "function-with-block-without-block"
	}
	if d.fn2First {
		return "unspecified", "block declared after FunctionWithBlock"
	}
	return "yes", ""
}

// matchesParams is the declarative reading of a parameter list: every required parameter takes one
// argument of its type, an optional one takes one if there is one left, a repeated one takes all the
// rest (at least one when required), nothing may be left over.
func matchesParams(ps []Op, args []px.Value, inst func(t *PTy, v px.Value) bool) bool {
	if len(ps) == 0 {
		return len(args) == 0
	}
	p := ps[0]
	switch p.K {
	case "Param":
		return len(args) > 0 && inst(p.T, args[0]) && matchesParams(ps[1:], args[1:], inst)
	case "Opt":
		if len(args) == 0 {
			return matchesParams(ps[1:], args, inst)
		}
		return inst(p.T, args[0]) && matchesParams(ps[1:], args[1:], inst)
	case "Rep", "ReqRep":
		if p.K == "ReqRep" && len(args) == 0 {
			return false
		}
		for _, a := range args {
			if !inst(p.T, a) {
				return false
			}
		}
		return matchesParams(ps[1:], nil, inst)
	}
	return false
}

func (e *env) matchesBlock(d decl, blk int) bool {
	if len(d.blocks) == 0 {
		return blk < 0
	}
	for _, r := range d.blocks {
		if blk < 0 {
			// no block: fine for an optional block and for a declared block type that accepts undef
			if !r.optional && !e.bundef[r.bt] {
				return false
			}
		} else if !e.binst[r.bt][blk] {
			return false
		}
	}
	return true
}

// ---- running one function case on the implementation ------------------------------------------------

type CallObs struct {
	Class  string `json:"class"` // body argerror reported fault panic nobody
	Body   int    `json:"body,omitempty"`
	Detail string `json:"detail,omitempty"`
}

func (o CallObs) gallina() string {
	switch o.Class {
	case "body":
		return fmt.Sprintf("(RBody %d)", o.Body)
	case "argerror":
		return "RArgError"
	case "fault":
		return "RFault"
	}
	return "ROther"
}

func (o CallObs) String() string {
	switch o.Class {
	case "body":
		return fmt.Sprintf("body of dispatch %d ran", o.Body)
	case "argerror":
		return "reported argument error (PCORE_ILLEGAL_ARGUMENTS)"
	case "nobody":
		return "returned without running a generated body"
	}
	return o.Class + " " + o.Detail
}

type FnObs struct {
	Build   string    `json:"build"` // ok, or the panic class
	BuildAt int       `json:"build_at"`
	Msg     string    `json:"msg,omitempty"`
	Calls   []CallObs `json:"calls,omitempty"`
}

var panicCodes = []struct{ frag, code, gal string }{
	{"Required parameters must not come after optional", "req-after-opt", "PReqAfterOpt"},
	{"Repeated parameters can only occur last", "after-repeated", "PAfterRepeated"},
	{"Block specified more than once", "block-twice", "PBlockTwice"},
	{"Returns specified more than once", "returns-twice", "PReturnsTwice"},
	{"Use FunctionWithBlock", "needs-block-fn", "PNeedsBlockFn"},
	{"Dispatch does not expect a block", "no-block-expected", "PNoBlockExpected"},
}

func panicCode(msg string) (string, string) {
	for _, p := range panicCodes {
		if strings.Contains(msg, p.frag) {
			return p.code, p.gal
		}
	}
	return "other", "POther"
}

func (o FnObs) gallina() string {
	if o.Build != "ok" {
		_, g := panicCode(o.Msg)
		if o.Build == "resolve" {
			g = "POther"
		}
		return fmt.Sprintf("(ObsPanic %d %s)", o.BuildAt, g)
	}
	cs := make([]string, len(o.Calls))
	for i, c := range o.Calls {
		cs[i] = c.gallina()
	}
	return "(ObsCalls " + lib.GList(cs, "callres") + ")"
}

type fnRun struct {
	obs   FnObs
	decls []decl
	// per call: the violations found by the bodies' own assertions
	bodyViol []string
	insts    func(t *PTy, v px.Value) bool
	// the rounds of an inspected function: what the accessors answered and what the same calls did afterwards
	rounds []roundObs
}

// aliasesCyclic: some local type refers to itself, directly or through other local types
func aliasesCyclic(aliases []Alias) bool {
	defs := map[string]*PTy{}
	for _, a := range aliases {
		defs[a.Name] = a.T
	}
	state := map[string]int{} // 1 = in progress, 2 = done
	var refs func(t *PTy, f func(n string) bool) bool
	refs = func(t *PTy, f func(n string) bool) bool {
		if t.K == "Ref" {
			return f(t.Name)
		}
		for _, x := range t.Ts {
			if refs(x, f) {
				return true
			}
		}
		return false
	}
	var visit func(n string) bool
	visit = func(n string) bool {
		d, ok := defs[n]
		if !ok {
			return false
		}
		switch state[n] {
		case 1:
			return true
		case 2:
			return false
		}
		state[n] = 1
		r := refs(d, visit)
		state[n] = 2
		return r
	}
	for _, a := range aliases {
		if visit(a.Name) {
			return true
		}
	}
	return false
}

// instFor is the harness' own reading of "value v is an instance of the declared type t" for a function with the given
// local types: the local names stand for their definitions, in whatever order they are declared.  Without recursion the
// names are replaced textually and the implementation's instance-of decides on the closed type; with recursive local
// types the composite types (Optional, Variant, Array, local names) are read structurally by the harness and the
// implementation's instance-of decides on the leaves only.  The generators only make recursion that passes through an
// Array, so the structural reading is well-founded on the value.
func (e *env) instFor(aliases []Alias) func(t *PTy, v px.Value) bool {
	expand := map[string]*PTy{}
	for _, a := range aliases {
		expand[a.Name] = a.T
	}
	if aliasesCyclic(aliases) {
		var rec func(t *PTy, v px.Value, depth int) bool
		rec = func(t *PTy, v px.Value, depth int) bool {
			if depth > 200 {
				panic("instFor: recursion that does not consume the value")
			}
			switch t.K {
			case "Ref":
				d, ok := expand[t.Name]
				if !ok {
					return false // a name that stays unresolved has no instances
				}
				return rec(d, v, depth+1)
			case "Optional":
				if v == px.Undef {
					return true
				}
				return rec(t.Ts[0], v, depth+1)
			case "Variant":
				for _, m := range t.Ts {
					if rec(m, v, depth+1) {
						return true
					}
				}
				return false
			case "Array":
				a, ok := v.(*types.Array)
				if !ok {
					return false
				}
				n := int64(a.Len())
				if t.Lo != nil && n < *t.Lo || t.Hi != nil && n > *t.Hi {
					return false
				}
				for i := 0; i < a.Len(); i++ {
					if !rec(t.Ts[0], a.At(i), depth+1) {
						return false
					}
				}
				return true
			}
			r, _ := isInst(e.parse(t.Src(nil)), v)
			return r
		}
		return func(t *PTy, v px.Value) (r bool) {
			defer func() {
				if x := recover(); x != nil {
					if s, ok := x.(string); ok && strings.HasPrefix(s, "instFor:") {
						panic(x)
					}
					r = false
				}
			}()
			return rec(t, v, 0)
		}
	}
	return func(t *PTy, v px.Value) (r bool) {
		defer func() {
			if recover() != nil { // a type expression that does not parse (generated on purpose) has no instances
				r = false
			}
		}()
		r, _ = isInst(e.parse(t.Src(expand)), v)
		return r
	}
}

func (e *env) runFn(fc *FnCase, ctx px.Context) *fnRun {
	run := &fnRun{insts: e.instFor(fc.Aliases)}
	for _, ops := range fc.Disps {
		run.decls = append(run.decls, declOf(ops))
	}
	ran := []bodyRun{}
	cur := -1
	creators := make([]px.DispatchCreator, len(fc.Disps))
	for i, ops := range fc.Disps {
		i, ops := i, ops
		creators[i] = func(d px.Dispatch) {
			cur = i
			rec := &bodyRec{idx: i, ran: &ran}
			for _, o := range ops {
				applyOp(e, d, o, rec)
			}
		}
	}
	var lt px.LocalTypesCreator
	blkAliases := fc.usesAliasBlock()
	if len(fc.Aliases) > 0 || blkAliases {
		lt = func(l px.LocalTypes) {
			if blkAliases {
				for _, a := range blockAliasDecls {
					l.Type(a[0], a[1])
				}
			}
			for _, a := range fc.Aliases {
				if a.Typed && !a.T.hasRef() && !a.T.bad() {
					l.Type2(a.Name, e.parse(a.T.Src(nil)))
				} else {
					l.Type(a.Name, a.T.Src(nil))
				}
			}
		}
	}
	var rf px.ResolvableFunction
	bo := guard(func() px.Value { rf = px.BuildFunction("generated", lt, creators); return nil })
	if bo.Class != "ok" {
		code, _ := panicCode(bo.Msg)
		run.obs = FnObs{Build: code, BuildAt: cur, Msg: bo.Msg}
		return run
	}
	var f px.Function
	ro := guard(func() px.Value { f = rf.Resolve(ctx); return nil })
	if ro.Class != "ok" {
		run.obs = FnObs{Build: "resolve", BuildAt: 0, Msg: ro.Class + " " + ro.Code + " " + ro.Msg}
		return run
	}
	run.obs.Build = "ok"
	doCalls := func() (cos []CallObs, bvs []string) {
		for _, call := range fc.Calls {
			args := pxVals(e.c, call.Args)
			var blk px.Lambda
			if call.Blk >= 0 {
				blk = e.lambdas[call.Blk]
			}
			ran = ran[:0]
			o := guard(func() px.Value { return f.Call(ctx, blk, args...) })
			var co CallObs
			bv := ""
			switch {
			case len(ran) > 1:
				co = CallObs{Class: "panic", Detail: "more than one body ran"}
			case len(ran) == 1:
				r := ran[0]
				co = CallObs{Class: "body", Body: r.idx}
				if o.Class != "ok" {
					co = CallObs{Class: o.Class, Detail: "after the body ran: " + o.Msg}
				}
				// the body asserts its own declaration on what it received
				d := run.decls[r.idx]
				if !matchesParams(d.params, r.args, run.insts) {
					bv = fmt.Sprintf("body of dispatch %d ran with arguments %s outside its declared parameters {%s}",
						r.idx, valsText(call.Args), opsText(fc.Disps[r.idx]))
				} else if !sameValues(r.args, args) {
					bv = fmt.Sprintf("body of dispatch %d received arguments different from the ones passed", r.idx)
				} else if !e.matchesBlock(d, call.Blk) {
					bv = fmt.Sprintf("body of dispatch %d ran with block %s outside its declared block requirement {%s}",
						r.idx, blockText(call.Blk), opsText(fc.Disps[r.idx]))
				} else if r.gotBlock && r.block != blk {
					bv = fmt.Sprintf("body of dispatch %d received a block different from the one passed", r.idx)
				}
			case o.Class == "ok":
				co = CallObs{Class: "nobody"}
			case o.Class == "reported" && o.Code == string(px.IllegalArguments):
				co = CallObs{Class: "argerror"}
			default:
				co = CallObs{Class: o.Class, Detail: o.Code + " " + o.Msg}
			}
			cos = append(cos, co)
			bvs = append(bvs, bv)
		}
		return
	}
	run.obs.Calls, run.bodyViol = doCalls()
	if len(fc.Inspect) > 0 {
		dec := e.newDecoder(fc)
		for round := 0; round < inspectRounds; round++ {
			ro := roundObs{}
			for _, a := range fc.Inspect {
				ro.Acc = append(ro.Acc, e.doAcc(fc, a, &f, rf, ctx, dec))
			}
			ro.Calls, ro.Viol = doCalls()
			run.rounds = append(run.rounds, ro)
		}
	}
	return run
}

func blockText(b int) string {
	if b < 0 {
		return "(none)"
	}
	return blockLambdaText(b)
}

func sameValues(a, b []px.Value) bool {
	if len(a) != len(b) {
		return false
	}
	for i := range a {
		if !px.Equals(a[i], b[i], nil) {
			return false
		}
	}
	return true
}

// expected: index of the first dispatch whose declaration the call satisfies, -1 if none
func (e *env) expected(run *fnRun, call CallIn) int {
	args := pxVals(e.c, call.Args)
	for i, d := range run.decls {
		if matchesParams(d.params, args, run.insts) && e.matchesBlock(d, call.Blk) {
			return i
		}
	}
	return -1
}

func (fc *FnCase) gallina(obs FnObs) string {
	as := make([]string, len(fc.Aliases))
	for i, a := range fc.Aliases {
		as[i] = lib.GPair(lib.GStr(a.Name), a.T.Gallina())
	}
	ds := make([]string, len(fc.Disps))
	for i, ops := range fc.Disps {
		os := make([]string, len(ops))
		for j, o := range ops {
			switch o.K {
			case "Param":
				os[j] = "OParam " + o.T.Gallina()
			case "Opt":
				os[j] = "OOptParam " + o.T.Gallina()
			case "Rep":
				os[j] = "ORepParam " + o.T.Gallina()
			case "ReqRep":
				os[j] = "OReqRepParam " + o.T.Gallina()
			case "Block":
				os[j] = fmt.Sprintf("OBlock %d%%N", o.B)
			case "OptBlock":
				os[j] = fmt.Sprintf("OOptBlock %d%%N", o.B)
			case "Returns":
				os[j] = "OReturns"
			case "Function":
				os[j] = "OFunction"
			case "Function2":
				os[j] = "OFunction2"
			}
		}
		ds[i] = lib.GList(os, "bop pty N")
	}
	cs := make([]string, len(fc.Calls))
	for i, c := range fc.Calls {
		b := "None"
		if c.Blk >= 0 {
			b = fmt.Sprintf("(Some %d%%N)", c.Blk)
		}
		cs[i] = lib.GPair(gVals(c.Args), b)
	}
	return "(" + lib.GList(as, "str * pty") + ",\n    " + lib.GList(ds, "list (bop pty N)") + ",\n    " +
		lib.GList(cs, "list pval * option N") + ",\n    " + obs.gallina() + ")"
}

// ---- direct check D on one function case --------------------------------------------------------------

// usesAliasBlock: some dispatch names a block type that is a local alias
func (fc *FnCase) usesAliasBlock() bool {
	for _, ops := range fc.Disps {
		for _, o := range ops {
			if (o.K == "Block" || o.K == "OptBlock") && isAliasBlock(o.B) {
				return true
			}
		}
	}
	return false
}

// hasBadType: a local type or a parameter type is an expression that does not resolve (Integer[9,0], ...);
// Resolve is then expected to raise a reported error, about which the property says nothing.
func (fc *FnCase) hasBadType() bool {
	for _, a := range fc.Aliases {
		if a.T.bad() {
			return true
		}
	}
	for _, ops := range fc.Disps {
		for _, o := range ops {
			if isParamOp(o.K) && o.T.bad() {
				return true
			}
		}
	}
	return false
}

// checkFn runs the case in the harness' main context, evaluates the property directly, records violations.
func (e *env) checkFn(res *lib.Result, fc *FnCase) *fnRun {
	return e.checkFnIn(res, fc, e.c, func(one *FnCase) interface{} { return one }, nil)
}

// checkFnIn runs the case in ctx.  wrap turns the (reduced) failing case into the replayable input - for a
// function that is part of a history, the history up to and including it.
func (e *env) checkFnIn(res *lib.Result, fc *FnCase, ctx px.Context, wrap func(one *FnCase) interface{}, tags []string) *fnRun {
	run := e.runFn(fc, ctx)
	allWf := true
	badType := fc.hasBadType()
	for i, d := range run.decls {
		wf, why := d.wellFormed()
		if wf != "yes" {
			allWf = false
		}
		if wf == "no" && (run.obs.Build == "ok" || run.obs.BuildAt > i) {
			res.Violate(lib.Violation{Clause: "illformed-declaration-accepted",
				What: fmt.Sprintf("the builder accepted dispatch %d {%s} although it is ill-formed (%s): no declaration the body could be checked against",
					i, opsText(fc.Disps[i]), why),
				Input: wrap(&FnCase{Kind: "dispatch", Aliases: fc.Aliases, Disps: fc.Disps, Calls: nil}), Tags: append([]string{"builder", why}, tags...)})
		}
		if wf == "yes" && run.obs.Build != "ok" && run.obs.BuildAt == i && !(badType && run.obs.Build == "resolve") {
			res.Violate(lib.Violation{Clause: "wellformed-declaration-rejected",
				What:  fmt.Sprintf("the builder rejected the well-formed dispatch %d {%s}: %s %s", i, opsText(fc.Disps[i]), run.obs.Build, run.obs.Msg),
				Input: wrap(&FnCase{Kind: "dispatch", Aliases: fc.Aliases, Disps: fc.Disps, Calls: nil}), Tags: append([]string{"builder", "rejected-" + run.obs.Build}, tags...)})
		}
	}
	if run.obs.Build != "ok" {
		return run
	}
	for k, call := range fc.Calls {
		kind := "dispatch"
		if len(fc.Inspect) > 0 {
			kind = "inspect"
		}
		one := wrap(&FnCase{Kind: kind, Aliases: fc.Aliases, Disps: fc.Disps, Calls: []CallIn{call}, Inspect: fc.Inspect})
		exp := -2
		// phase 0: the calls after Resolve; phase r > 0: the same calls after the accessors were asked r times
		for phase := 0; phase <= len(run.rounds); phase++ {
			co, bv, ptags, when := run.obs.Calls[k], run.bodyViol[k], tags, ""
			if phase > 0 {
				co, bv = run.rounds[phase-1].Calls[k], run.rounds[phase-1].Viol[k]
				ptags = append(append([]string{}, tags...), "after-inspection")
				when = fmt.Sprintf(" [after the accessors %s were asked %d time(s); before them: %s]", accsText(fc.Inspect), phase, run.obs.Calls[k])
			}
			n := len(res.Violations)
			if bv != "" {
				res.Violate(lib.Violation{Clause: "body-outside-declaration", What: fc.text() + " call " + call.text() + ": " + bv + when, Input: one, Tags: append([]string{"call"}, ptags...)})
			}
			if !allWf {
				continue
			}
			if exp == -2 {
				exp = e.expected(run, call)
			}
			switch {
			case exp >= 0 && !(co.Class == "body" && co.Body == exp):
				res.Violate(lib.Violation{Clause: "first-matching-dispatch",
					What:  fmt.Sprintf("%s call %s: the first dispatch whose declaration is satisfied is %d, but: %s%s", fc.text(), call.text(), exp, co, when),
					Input: one, Tags: append([]string{"call"}, ptags...)})
			case exp < 0 && co.Class == "body":
				if bv == "" {
					res.Violate(lib.Violation{Clause: "first-matching-dispatch",
						What:  fmt.Sprintf("%s call %s: no declaration is satisfied, but: %s%s", fc.text(), call.text(), co, when),
						Input: one, Tags: append([]string{"call"}, ptags...)})
				}
			case exp < 0 && co.Class != "argerror":
				res.Violate(lib.Violation{Clause: "no-match-is-reported-argument-error",
					What:  fmt.Sprintf("%s call %s: no dispatch matches; expected a reported argument error, got: %s%s", fc.text(), call.text(), co, when),
					Input: one, Tags: append([]string{"call", "error-" + co.Class}, ptags...)})
			}
			if len(res.Violations) > n {
				break // one report per call: the first phase in which it goes wrong
			}
		}
	}
	return run
}

// ---- histories: functions built, resolved and called one after the other in ONE context ---------------------

// History is a sequence of functions handled in the same (fresh, forked) context.  A Resolve that raises is
// recovered (by guard) and the context goes on being used, as a caller that handles the reported error would.
type History struct {
	Kind string    `json:"kind"` // "history"
	Fns  []*FnCase `json:"fns"`
}

func (h *History) text() string {
	ss := make([]string, len(h.Fns))
	for i, f := range h.Fns {
		ss[i] = fmt.Sprintf("function %d: %s", i, f.text())
	}
	return strings.Join(ss, " || ")
}

// checkHistory runs D on every function of the history: each is held to its OWN declaration (its own local
// types), whatever was built, resolved or failed before it in the context.
func (e *env) checkHistory(res *lib.Result, h *History) []*fnRun {
	ctx := e.c.Fork()
	runs := make([]*fnRun, len(h.Fns))
	for i, fc := range h.Fns {
		i := i
		wrap := func(one *FnCase) interface{} {
			// the functions before i without their calls (what matters is that they were resolved), then the failing one
			fns := make([]*FnCase, 0, i+1)
			for _, p := range h.Fns[:i] {
				fns = append(fns, &FnCase{Kind: "dispatch", Aliases: p.Aliases, Disps: p.Disps})
			}
			return &History{Kind: "history", Fns: append(fns, one)}
		}
		tags := []string{"history"}
		if i > 0 {
			tags = append(tags, "after-earlier-function")
		}
		runs[i] = e.checkFnIn(res, fc, ctx, wrap, tags)
	}
	return runs
}

func (h *History) gallina(runs []*fnRun) string {
	fs := make([]string, len(h.Fns))
	for i, f := range h.Fns {
		fs[i] = f.gallina(runs[i].obs)
	}
	return lib.GList(fs, "fncase")
}
