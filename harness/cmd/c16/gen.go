package main

import (
	"github.com/lyraproj/pcore/px"
	"verifharness/lib"
)

// ---- pools --------------------------------------------------------------------------------------------

var aliasSet = []Alias{
	{Name: "MyInt", T: tIntR(0, 5)},
	{Name: "MyVar", T: tVar(tRef("MyInt"), tStrSz(2, nil))},
	{Name: "MyArr", T: tArr(tRef("MyInt"), 1, nil)},
	{Name: "MyEnum", T: tEnum("a", "b"), Typed: true},
}

// Alternative definitions for the same four local names (each list in dependency order: MyInt first).  Functions
// of one history pick different ones, so that a local type that outlives its function shows.
var aliasDefs = map[string][]*PTy{
	"MyInt":  {tIntR(0, 5), tInt(), {K: "Integer", Lo: i64(6), Hi: i64(99)}, tIntR(3, 3)},
	"MyVar":  {tVar(tRef("MyInt"), tStrSz(2, nil)), tVar(tRef("MyInt"), tBool()), tVar(tStrSz(0, i64(1)), tRef("MyInt")), tStr()},
	"MyArr":  {tArr(tRef("MyInt"), 1, nil), tArr(tRef("MyInt"), 0, i64(2)), tArr(tStr(), 0, nil), tArr(tRef("MyVar"), 1, i64(1))},
	"MyEnum": {tEnum("a", "b"), tEnum("c"), tEnum("a", "b", "c"), tEnum("ab")},
}

// definitions that do not resolve (a reported error out of Resolve)
var badDefs = map[string][]*PTy{
	"MyInt":  {tIntR(9, 0)},
	"MyVar":  {tVar(tRef("MyInt"), tStrSz(5, i64(2)))},
	"MyArr":  {tArr(tRef("MyInt"), 5, i64(2)), tArr(tIntR(1, 0), 0, nil)},
	"MyEnum": {tOpt(tIntR(9, 0))},
}

var aliasNames = []string{"MyInt", "MyVar", "MyArr", "MyEnum"}

func badTypes() []*PTy {
	return []*PTy{tIntR(9, 0), tStrSz(5, i64(2)), tArr(tInt(), 5, i64(2)), tOpt(tIntR(9, 0)), tVar(tStr(), tIntR(3, 1))}
}

// aliasVariant: the four local names with the definitions picked by idx (one index per name; -1 = a definition
// that does not resolve)
func aliasVariant(idx [4]int) []Alias {
	out := []Alias{}
	for i, n := range aliasNames {
		var t *PTy
		if idx[i] < 0 {
			t = badDefs[n][(-idx[i]-1)%len(badDefs[n])]
		} else {
			t = aliasDefs[n][idx[i]%len(aliasDefs[n])]
		}
		out = append(out, Alias{Name: n, T: t, Typed: n == "MyEnum" && idx[i]%2 == 0})
	}
	return out
}

func randomAliases(r *lib.Rng, allowBad bool) []Alias {
	var idx [4]int
	for i := range idx {
		idx[i] = r.Intn(4)
	}
	if r.Chance(1, 3) {
		idx = [4]int{0, 0, 0, 0}
	}
	if allowBad {
		idx[r.Intn(4)] = -1 - r.Intn(2)
	}
	as := aliasVariant(idx)
	// the order in which the local types are declared is free: users before what they use, half of the time
	if r.Chance(1, 2) {
		as = shuffleAliases(r, as)
	}
	return as
}

func plainTypes() []*PTy {
	return []*PTy{
		tInt(), tIntR(0, 5), {K: "Integer", Lo: i64(6)}, {K: "Integer", Hi: i64(-1)},
		tStr(), tStrSz(2, nil), tStrSz(0, i64(1)), tEnum("a", "b"),
		tOpt(tIntR(0, 5)), tOpt(tStr()), tVar(tIntR(0, 5), tStrSz(2, nil)), tVar(tBool(), tUndef()),
		tArr(tInt(), 1, nil), tArr(tAny(), 0, i64(1)), tArr(tStr(), 0, nil),
		tAny(), tNumeric(), tFloat(), tBool(), tUndef(),
	}
}

func aliasTypes() []*PTy {
	return []*PTy{tRef("MyInt"), tRef("MyVar"), tRef("MyArr"), tRef("MyEnum"), tOpt(tRef("MyInt")),
		tVar(tRef("MyEnum"), tRef("MyArr")), tRef("NoSuchType")}
}

func valuePool() []*PVal {
	return []*PVal{
		vUndef(), vBool(true), vBool(false), vInt(-1), vInt(0), vInt(3), vInt(5), vInt(6), vInt(7),
		vFloat(0.5), vFloat(3), vStr(""), vStr("a"), vStr("b"), vStr("ab"), vStr("abc"), vStr("c"),
		vArr(), vArr(vInt(1)), vArr(vInt(1), vInt(2)), vArr(vStr("a")), vArr(vInt(7)), vArr(vArr(vInt(1))),
	}
}

// ---- corpus: the shapes that matter, always run first ------------------------------------------------------

func P(k string, t *PTy) Op { return Op{K: k, T: t} }

func dispatchCorpus() []*FnCase {
	fn := Op{K: "Function"}
	fn2 := Op{K: "Function2"}
	blk := func(b int) Op { return Op{K: "Block", B: b} }
	oblk := func(b int) Op { return Op{K: "OptBlock", B: b} }
	ret := Op{K: "Returns"}
	I, S, B := tIntR(0, 5), tStr(), tBool()
	calls := func(cs ...CallIn) []CallIn { return cs }
	c := func(blk int, vs ...*PVal) CallIn { return CallIn{Args: vs, Blk: blk} }
	std := calls(c(-1), c(-1, vInt(1)), c(-1, vStr("a")), c(-1, vInt(1), vStr("a")), c(-1, vInt(1), vInt(2)),
		c(-1, vInt(1), vStr("a"), vStr("b")), c(-1, vInt(7)), c(-1, vStr("a"), vStr("b")), c(1, vInt(1)), c(0, vInt(1)))
	blkCalls := calls(c(-1, vInt(1)), c(0, vInt(1)), c(1, vInt(1)), c(2, vInt(1)), c(3, vInt(1)), c(4, vInt(1)), c(5, vInt(1)),
		c(6, vInt(1)), c(7, vInt(1)), c(8, vInt(1)), c(1, vInt(7)), c(1))
	cs := []*FnCase{
		// parameter bookkeeping
		{Disps: [][]Op{{P("Opt", I), P("ReqRep", S), fn}}, Calls: std},
		{Disps: [][]Op{{P("Opt", I), P("Param", S), fn}}, Calls: std},
		{Disps: [][]Op{{P("Rep", I), P("Param", S), fn}}, Calls: std},
		{Disps: [][]Op{{P("Rep", I), P("Opt", S), fn}}, Calls: std},
		{Disps: [][]Op{{P("ReqRep", I), P("Rep", S), fn}}, Calls: std},
		{Disps: [][]Op{{P("Param", I), P("Opt", S), P("Rep", B), fn}}, Calls: append(std, c(-1, vInt(1), vStr("a"), vBool(true), vBool(false)),
			c(-1, vInt(1), vStr("a"), vBool(true), vInt(1)), c(-1, vInt(1), vBool(true)))},
		{Disps: [][]Op{{P("Param", I), P("ReqRep", S), fn}}, Calls: std},
		{Disps: [][]Op{{P("ReqRep", S), fn}}, Calls: std},
		{Disps: [][]Op{{P("Rep", S), fn}}, Calls: std},
		{Disps: [][]Op{{fn}}, Calls: std},
		{Disps: [][]Op{{P("Opt", I), P("Opt", S), fn}}, Calls: std},
		// order of dispatches
		{Disps: [][]Op{{P("Param", I), fn}, {P("Param", tInt()), fn}, {P("Param", tAny()), fn}, {P("Rep", tAny()), fn}},
			Calls: append(std, c(-1, vInt(-1)), c(-1, vUndef()))},
		{Disps: [][]Op{{P("Param", tAny()), fn}, {P("Param", I), fn}}, Calls: std},
		{Disps: [][]Op{{P("Param", S), fn}, {P("Param", I), P("Opt", S), fn}, {P("Param", I), P("Rep", tInt()), fn}}, Calls: std},
		// blocks: required, optional, absent; every block against every declared block type
		{Disps: [][]Op{{P("Param", I), fn}}, Calls: blkCalls},
		{Disps: [][]Op{{P("Param", I), blk(0), fn2}, {P("Param", tInt()), fn}}, Calls: blkCalls},
		{Disps: [][]Op{{P("Param", I), oblk(0), fn2}}, Calls: blkCalls},
		{Disps: [][]Op{{P("Param", I), blk(2), fn2}, {P("Param", I), oblk(1), fn2}, {P("Param", tInt()), fn}}, Calls: blkCalls},
		{Disps: [][]Op{{P("Param", I), oblk(2), fn2}}, Calls: blkCalls},
		{Disps: [][]Op{{P("Param", I), blk(3), fn2}}, Calls: blkCalls},
		{Disps: [][]Op{{P("Param", I), oblk(3), fn2}}, Calls: blkCalls},
		{Disps: [][]Op{{P("Param", I), blk(4), fn2}}, Calls: blkCalls},
		{Disps: [][]Op{{P("Param", I), blk(5), fn2}}, Calls: blkCalls},
		{Disps: [][]Op{{P("Param", I), oblk(5), fn2}}, Calls: blkCalls},
		{Disps: [][]Op{{P("Param", I), blk(6), fn2}}, Calls: blkCalls},
		{Disps: [][]Op{{P("Param", I), blk(7), fn2}}, Calls: blkCalls},
		{Disps: [][]Op{{P("Param", I), blk(8), fn2}}, Calls: blkCalls},
		{Disps: [][]Op{{P("Param", I), {K: "Block", B: 2, Typed: true}, fn2}}, Calls: blkCalls},
		// block / returns / function bookkeeping of the builder
		{Disps: [][]Op{{P("Param", I), blk(2), blk(1), fn2}}, Calls: blkCalls},
		{Disps: [][]Op{{P("Param", I), blk(2), oblk(2), fn2}}, Calls: blkCalls},
		{Disps: [][]Op{{P("Param", I), ret, blk(2), fn2}}, Calls: blkCalls},
		{Disps: [][]Op{{P("Param", I), blk(2), ret, fn2}}, Calls: blkCalls},
		{Disps: [][]Op{{P("Param", I), ret, fn}}, Calls: blkCalls},
		{Disps: [][]Op{{P("Param", I), ret, ret, fn}}, Calls: blkCalls},
		{Disps: [][]Op{{P("Param", I), blk(2), fn}}, Calls: blkCalls},
		{Disps: [][]Op{{P("Param", I), oblk(2), fn}}, Calls: blkCalls},
		{Disps: [][]Op{{P("Param", I), {K: "Block", B: 2, Typed: true}, fn}}, Calls: blkCalls},
		{Disps: [][]Op{{P("Param", I), fn, blk(2)}}, Calls: blkCalls},
		{Disps: [][]Op{{P("Param", I), fn2}}, Calls: blkCalls},
		{Disps: [][]Op{{P("Param", I), fn2, blk(2)}}, Calls: blkCalls},
		// local aliases, unresolved reference
		{Aliases: aliasSet, Disps: [][]Op{{P("Param", tRef("MyVar")), P("Opt", tRef("MyEnum")), fn}, {P("Rep", tRef("MyArr")), fn}},
			Calls: append(std, c(-1, vStr("ab"), vStr("a")), c(-1, vStr("ab"), vStr("c")), c(-1, vArr(vInt(1)), vArr(vInt(7))), c(-1, vArr(vInt(1)), vArr(vInt(5))))},
		{Disps: [][]Op{{P("Param", tRef("NoSuchType")), fn}, {P("Param", tInt()), fn}}, Calls: std},
		// other definitions under the same local names
		{Aliases: aliasVariant([4]int{1, 1, 1, 1}), Disps: [][]Op{{P("Param", tRef("MyVar")), P("Opt", tRef("MyEnum")), fn}, {P("Rep", tRef("MyArr")), fn}, {P("Param", tRef("MyInt")), P("Param", tAny()), fn}},
			Calls: append(std, c(-1, vInt(7), vStr("c")), c(-1, vBool(true)), c(-1, vArr(vInt(1)), vArr(vInt(7))), c(-1, vArr(vInt(1), vInt(2), vInt(3))), c(-1, vInt(7), vInt(7)))},
		{Aliases: aliasVariant([4]int{2, 2, 3, 2}), Disps: [][]Op{{P("Param", tRef("MyInt")), fn}, {P("Param", tRef("MyVar")), fn}, {P("Rep", tRef("MyArr")), fn}},
			Calls: append(std, c(-1, vInt(6)), c(-1, vInt(5)), c(-1, vStr("a")), c(-1, vStr("ab")), c(-1, vArr(vInt(7))), c(-1, vArr(vStr("a"))), c(-1, vArr(vInt(7), vInt(8))))},
		// block types that accept a missing block without OptionalBlock (literal Optional, Variant[Undef,..], Any,
		// Undef, local aliases), alone and in front of a fallback dispatch
		{Disps: [][]Op{{P("Param", I), blk(9), fn2}, {P("Param", tAny()), fn}}, Calls: blkCalls},
		{Disps: [][]Op{{P("Param", I), blk(9), fn2}}, Calls: blkCalls},
		{Disps: [][]Op{{P("Param", I), oblk(9), fn2}}, Calls: blkCalls},
		{Disps: [][]Op{{P("Param", I), blk(10), fn2}, {P("Param", tAny()), fn}}, Calls: blkCalls},
		{Disps: [][]Op{{P("Param", I), blk(11), fn2}, {P("Param", tAny()), fn}}, Calls: blkCalls},
		{Disps: [][]Op{{P("Param", I), blk(11), fn2}}, Calls: blkCalls},
		{Disps: [][]Op{{P("Param", I), blk(12), fn2}, {P("Param", tAny()), fn}}, Calls: blkCalls},
		{Disps: [][]Op{{P("Param", I), blk(13), fn2}, {P("Param", tAny()), fn}}, Calls: blkCalls},
		{Disps: [][]Op{{P("Param", I), blk(14), fn2}, {P("Param", tAny()), fn}}, Calls: blkCalls},
		{Disps: [][]Op{{P("Param", I), blk(15), fn2}, {P("Param", tAny()), fn}}, Calls: blkCalls},
		{Disps: [][]Op{{P("Param", I), blk(15), fn2}}, Calls: blkCalls},
		{Disps: [][]Op{{P("Param", I), oblk(15), fn2}}, Calls: blkCalls},
		{Disps: [][]Op{{P("Param", I), blk(16), fn2}, {P("Param", tAny()), fn}}, Calls: blkCalls},
		{Disps: [][]Op{{P("Param", I), blk(17), fn2}, {P("Param", tAny()), fn}}, Calls: blkCalls},
		{Disps: [][]Op{{P("Param", I), blk(18), fn2}, {P("Param", I), blk(16), fn2}}, Calls: blkCalls},
		{Disps: [][]Op{{P("Param", I), blk(19), fn2}, {P("Param", tAny()), fn}}, Calls: blkCalls},
		{Aliases: aliasSet, Disps: [][]Op{{P("Param", tRef("MyInt")), blk(17), fn2}, {P("Param", tRef("MyVar")), oblk(16), fn2}}, Calls: append(blkCalls, c(-1, vStr("ab")), c(1, vStr("ab")), c(0, vStr("ab")))},
		// type expressions that do not resolve: Resolve raises a reported error (no local types here, so that the
		// harness' main context never has a loader installed while it fails)
		{Disps: [][]Op{{P("Param", tIntR(9, 0)), fn}}, Calls: std},
		{Disps: [][]Op{{P("Param", I), fn}, {P("Opt", tStrSz(5, i64(2))), fn}}, Calls: std},
		{Disps: [][]Op{{P("Rep", tArr(tInt(), 5, i64(2))), fn}}, Calls: std},
		{Disps: [][]Op{{P("Opt", I), P("Param", tIntR(9, 0)), fn}}, Calls: std},
	}
	for _, x := range cs {
		x.Kind = "dispatch"
	}
	return cs
}

// ---- bounded-exhaustive: every parameter-kind sequence up to a length, one dispatch, every short call -----

func exhaustiveFns(maxLen int) []*FnCase {
	kinds := []string{"Param", "Opt", "Rep", "ReqRep"}
	slot := []*PTy{tIntR(0, 5), tStr(), tBool(), tFloat()}
	out := []*FnCase{}
	var rec func(seq []string, l int)
	rec = func(seq []string, l int) {
		if len(seq) == l {
			for variant := 0; variant < 5; variant++ {
				ops := []Op{}
				for i, k := range seq {
					ops = append(ops, Op{K: k, T: slot[i], Typed: i%2 == 1})
				}
				switch variant {
				case 0:
					ops = append(ops, Op{K: "Function"})
				case 1:
					ops = append(ops, Op{K: "Block", B: 2}, Op{K: "Function2"})
				case 2:
					ops = append(ops, Op{K: "OptBlock", B: 2}, Op{K: "Function2"})
				case 3: // a local alias of Optional[Callable[1,1]]: accepts a missing block
					ops = append(ops, Op{K: "Block", B: firstAliasBlock}, Op{K: "Function2"})
				case 4: // Variant[Undef,Callable[1,1]]
					ops = append(ops, Op{K: "Block", B: 11}, Op{K: "Function2"})
				}
				out = append(out, &FnCase{Kind: "dispatch", Disps: [][]Op{ops}})
			}
			return
		}
		for _, k := range kinds {
			rec(append(append([]string{}, seq...), k), l)
		}
	}
	for l := 0; l <= maxLen; l++ {
		rec(nil, l)
	}
	return out
}

// allCalls: every argument list of arity <= maxArity over vals, each without block, with a block the
// declared type accepts (1 parameter) and with one it rejects (no parameter).
func allCalls(vals []*PVal, maxArity int) []CallIn {
	out := []CallIn{}
	var rec func(cur []*PVal, n int)
	rec = func(cur []*PVal, n int) {
		if len(cur) == n {
			args := append([]*PVal{}, cur...)
			out = append(out, CallIn{Args: args, Blk: -1}, CallIn{Args: args, Blk: 1}, CallIn{Args: args, Blk: 0})
			return
		}
		for _, v := range vals {
			rec(append(cur, v), n)
		}
	}
	for n := 0; n <= maxArity; n++ {
		rec(nil, n)
	}
	return out
}

// ---- seeded random dispatch tables ---------------------------------------------------------------------------

func randomDecl(r *lib.Rng, pool []*PTy, allowIll bool) []Op {
	ops := []Op{}
	nReq, nOpt := r.Intn(3), r.Intn(3)
	if r.Chance(1, 4) {
		nOpt = 0
	}
	pick := func() *PTy { return pool[r.Intn(len(pool))] }
	param := func(k string) Op {
		t := pick()
		return Op{K: k, T: t, Typed: !t.hasRef() && r.Chance(1, 3)}
	}
	for i := 0; i < nReq; i++ {
		ops = append(ops, param("Param"))
	}
	for i := 0; i < nOpt; i++ {
		ops = append(ops, param("Opt"))
	}
	switch r.Intn(5) {
	case 0:
		ops = append(ops, param("Rep"))
	case 1:
		if nOpt == 0 || (allowIll && r.Chance(1, 2)) {
			ops = append(ops, param("ReqRep"))
		}
	}
	if allowIll && r.Chance(1, 3) && len(ops) > 1 {
		// an ill-formed order: swap two parameter operations
		i, j := r.Intn(len(ops)), r.Intn(len(ops))
		ops[i], ops[j] = ops[j], ops[i]
	}
	hasBlock := false
	if r.Chance(1, 3) {
		hasBlock = true
		k := "Block"
		if r.Bool() {
			k = "OptBlock"
		}
		b := Op{K: k, B: r.Intn(len(blockTypes)), Typed: r.Chance(1, 4)}
		if isAliasBlock(b.B) {
			b.Typed = false
		}
		ret := r.Chance(1, 4)
		if ret && r.Bool() {
			ops = append(ops, Op{K: "Returns"})
			ret = false
		}
		ops = append(ops, b)
		if ret {
			ops = append(ops, Op{K: "Returns"})
		}
		if allowIll && r.Chance(1, 4) {
			ops = append(ops, Op{K: k, B: r.Intn(len(blockTypes))})
		}
	} else if r.Chance(1, 5) {
		ops = append(ops, Op{K: "Returns"})
	}
	f := "Function"
	if hasBlock {
		f = "Function2"
	}
	if allowIll && r.Chance(1, 3) {
		if f == "Function" {
			f = "Function2"
		} else {
			f = "Function"
		}
	}
	return append(ops, Op{K: f})
}

func randomFn(e *env, r *lib.Rng, nCalls int) *FnCase {
	return randomFnWith(e, r, nCalls, r.Chance(1, 3), 0)
}

// randomFnWith: withAliases = declare the four local names (random definitions) and use them;
// breakIt: 0 = every type resolves, 1 = one parameter type does not, 2 = one local type does not
func randomFnWith(e *env, r *lib.Rng, nCalls int, withAliases bool, breakIt int) *FnCase {
	fc := &FnCase{Kind: "dispatch"}
	pool := plainTypes()
	if withAliases {
		fc.Aliases = randomAliases(r, breakIt == 2)
		pool = append(pool, aliasTypes()...)
		pool = append(pool, aliasTypes()...)
	}
	// a small sub-pool makes dispatches overlap, so that the order matters
	sub := []*PTy{}
	for i := 0; i < 2+r.Intn(4); i++ {
		sub = append(sub, pool[r.Intn(len(pool))])
	}
	allowIll := r.Chance(1, 8)
	n := 1 + r.Intn(4)
	for i := 0; i < n; i++ {
		fc.Disps = append(fc.Disps, randomDecl(r, sub, allowIll))
	}
	if breakIt == 1 {
		// replace the type of one parameter by an expression that does not resolve
		bad := badTypes()
		di := r.Intn(len(fc.Disps))
		placed := false
		for j, o := range fc.Disps[di] {
			if isParamOp(o.K) {
				fc.Disps[di][j] = Op{K: o.K, T: bad[r.Intn(len(bad))]}
				placed = true
				break
			}
		}
		if !placed {
			fc.Disps[di] = append([]Op{{K: "Opt", T: bad[r.Intn(len(bad))]}}, fc.Disps[di]...)
		}
	}
	inst := e.instFor(fc.Aliases)
	vals := valuePool()
	pxv := pxVals(e.c, vals)
	blocksUsed := false
	for _, d := range fc.Disps {
		if len(declOf(d).blocks) > 0 {
			blocksUsed = true
		}
	}
	for k := 0; k < nCalls; k++ {
		// aim at one dispatch: arity at/around its window, values that fit its slots (mostly)
		target := declOf(fc.Disps[r.Intn(len(fc.Disps))])
		min, max := 0, 0
		for _, p := range target.params {
			switch p.K {
			case "Param":
				min++
				max++
			case "Opt":
				max++
			case "Rep":
				max = min + 3
			case "ReqRep":
				min++
				max = min + 3
			}
		}
		arity := []int{min, max, min - 1, max + 1, min + 1, (min + max) / 2}[r.Intn(6)]
		if arity < 0 {
			arity = 0
		}
		if arity > 7 {
			arity = 7
		}
		args := make([]*PVal, arity)
		for i := range args {
			var want *PTy
			if len(target.params) > 0 {
				s := i
				if s >= len(target.params) {
					s = len(target.params) - 1
				}
				want = target.params[s].T
			}
			args[i] = vals[r.Intn(len(vals))]
			if want != nil && r.Chance(4, 5) {
				for try := 0; try < 12; try++ {
					j := r.Intn(len(vals))
					if inst(want, pxv[j]) {
						args[i] = vals[j]
						break
					}
				}
			}
		}
		blk := -1
		if (blocksUsed && r.Chance(2, 3)) || r.Chance(1, 20) {
			blk = r.Intn(len(blockLambdaDecls))
			if len(target.blocks) > 0 && r.Chance(2, 3) {
				for try := 0; try < 8; try++ {
					j := r.Intn(len(blockLambdaDecls))
					if e.binst[target.blocks[0].bt][j] {
						blk = j
						break
					}
				}
			}
		}
		fc.Calls = append(fc.Calls, CallIn{Args: args, Blk: blk})
	}
	return fc
}

var _ px.Value

// randomHistory: 2-4 functions for one context.  Most declare the same four local names with different
// definitions; about every third one cannot be resolved (a parameter type or a local type that does not resolve,
// or an ill-formed dispatch), after which the context goes on being used.
func randomHistory(e *env, r *lib.Rng, nCalls int) *History {
	h := &History{Kind: "history"}
	n := 2 + r.Intn(3)
	for i := 0; i < n; i++ {
		breakIt := 0
		if i < n-1 && r.Chance(2, 5) {
			breakIt = 1 + r.Intn(2)
		} else if r.Chance(1, 12) {
			breakIt = 1 + r.Intn(2)
		}
		withAliases := r.Chance(5, 6) || breakIt == 2
		calls := nCalls
		if breakIt != 0 {
			calls = 2
		}
		h.Fns = append(h.Fns, randomFnWith(e, r.Fork(), calls, withAliases, breakIt))
	}
	return h
}

// historyCorpus: the shapes that matter for "state left in the context".
func historyCorpus() []*History {
	fn := Op{K: "Function"}
	c := func(vs ...*PVal) CallIn { return CallIn{Args: vs, Blk: -1} }
	calls := []CallIn{c(vInt(3)), c(vInt(5)), c(vInt(6)), c(vInt(7)), c(vInt(-1)), c(vStr("ab")), c(vStr("a")), c(vBool(true)),
		c(vArr(vInt(1))), c(vArr(vInt(7))), c(vArr(vStr("a"))), c(vArr()), c(vStr("c")), c()}
	limits := func(v [4]int) *FnCase {
		return &FnCase{Kind: "dispatch", Aliases: aliasVariant(v), Disps: [][]Op{{P("Param", tRef("MyInt")), fn}, {P("Param", tRef("MyVar")), fn},
			{P("Param", tRef("MyArr")), fn}, {P("Param", tRef("MyEnum")), fn}}, Calls: calls}
	}
	brokenParam := func(v [4]int) *FnCase {
		return &FnCase{Kind: "dispatch", Aliases: aliasVariant(v), Disps: [][]Op{{P("Param", tRef("MyInt")), P("Param", tRef("MyVar")), P("Param", tIntR(9, 0)), fn}}, Calls: calls[:2]}
	}
	brokenAlias := func(v [4]int) *FnCase {
		return &FnCase{Kind: "dispatch", Aliases: aliasVariant(v), Disps: [][]Op{{P("Param", tRef("MyInt")), fn}}, Calls: calls[:2]}
	}
	illFormed := func(v [4]int) *FnCase {
		return &FnCase{Kind: "dispatch", Aliases: aliasVariant(v), Disps: [][]Op{{P("Opt", tRef("MyInt")), P("Param", tRef("MyVar")), fn}}, Calls: calls[:2]}
	}
	plain := &FnCase{Kind: "dispatch", Disps: [][]Op{{P("Param", tIntR(0, 5)), fn}, {P("Param", tRef("MyInt")), fn}, {P("Param", tAny()), fn}}, Calls: calls}
	v0, v1, v2 := [4]int{0, 0, 0, 0}, [4]int{1, 1, 1, 1}, [4]int{2, 2, 2, 2}
	hs := []*History{
		{Fns: []*FnCase{limits(v0), brokenParam(v1), limits(v0)}},
		{Fns: []*FnCase{limits(v1), brokenParam(v0), limits(v1), plain}},
		{Fns: []*FnCase{brokenParam(v1), limits(v2)}},
		{Fns: []*FnCase{brokenAlias([4]int{1, 1, -1, 1}), limits(v0)}},
		{Fns: []*FnCase{brokenAlias([4]int{2, -1, 0, 1}), limits(v0), limits(v1)}},
		{Fns: []*FnCase{brokenAlias([4]int{-1, 1, 1, 1}), limits(v2)}},
		{Fns: []*FnCase{brokenAlias([4]int{1, 1, 1, -1}), plain, limits(v0)}},
		{Fns: []*FnCase{illFormed(v1), limits(v0)}},
		{Fns: []*FnCase{limits(v0), limits(v1), limits(v2), limits(v0)}},
		{Fns: []*FnCase{brokenParam(v1), brokenParam(v2), limits(v0)}},
		{Fns: []*FnCase{limits(v2), plain}},
	}
	for _, h := range hs {
		h.Kind = "history"
	}
	return hs
}

// ---- local types that refer to each other: every order of declaration ----------------------------------------------

func permutations(n int) [][]int {
	if n == 0 {
		return [][]int{{}}
	}
	out := [][]int{}
	for _, p := range permutations(n - 1) {
		for i := 0; i <= len(p); i++ {
			q := append(append(append([]int{}, p[:i]...), n-1), p[i:]...)
			out = append(out, q)
		}
	}
	return out
}

func shuffleAliases(r *lib.Rng, as []Alias) []Alias {
	out := append([]Alias{}, as...)
	for i := len(out) - 1; i > 0; i-- {
		j := r.Intn(i + 1)
		out[i], out[j] = out[j], out[i]
	}
	return out
}

type aliasShape struct {
	name    string
	aliases []Alias // in dependency order (helpers first) where there is one
	params  []*PTy  // parameter types that use them
	vals    []*PVal // values that tell the definitions apart
}

func aliasShapes() []aliasShape {
	chain := func(n int) []Alias {
		as := []Alias{{Name: "L0", T: tEnum("a", "b", "c")}}
		for i := 1; i < n; i++ {
			as = append(as, Alias{Name: "L" + string(rune('0'+i%10)) + string(rune('a'+i/10)), T: tRef(as[i-1].Name)})
		}
		return as
	}
	many := chain(11)
	return []aliasShape{
		{name: "items", aliases: []Alias{{Name: "Item", T: tIntR(0, 9)}, {Name: "Items", T: tArr(tRef("Item"), 1, nil)}},
			params: []*PTy{tRef("Items"), tRef("Item"), tOpt(tRef("Items"))},
			vals:   []*PVal{vArr(vInt(1), vInt(2)), vArr(vInt(9)), vArr(vInt(1), vInt(50)), vArr(), vStr("x"), vInt(3), vInt(50), vUndef()}},
		{name: "chain", aliases: []Alias{{Name: "Mark", T: tEnum("a", "b", "c")}, {Name: "Grade", T: tRef("Mark")}, {Name: "Level", T: tRef("Grade")}},
			params: []*PTy{tRef("Level"), tRef("Grade"), tVar(tRef("Level"), tInt())},
			vals:   []*PVal{vStr("a"), vStr("c"), vStr("d"), vInt(1), vUndef()}},
		{name: "ready-made", aliases: []Alias{{Name: "Small", T: tIntR(0, 5), Typed: true}, {Name: "Pair", T: tArr(tRef("Small"), 2, i64(2))}},
			params: []*PTy{tRef("Pair"), tRef("Small")},
			vals:   []*PVal{vArr(vInt(1), vInt(5)), vArr(vInt(1), vInt(6)), vArr(vInt(1)), vInt(5), vInt(6), vStr("a")}},
		{name: "ready-made-middle", aliases: []Alias{{Name: "Small", T: tIntR(0, 5)}, {Name: "Word", T: tStrSz(2, nil), Typed: true},
			{Name: "Mixed", T: tArr(tVar(tRef("Small"), tRef("Word")), 1, nil)}},
			params: []*PTy{tRef("Mixed"), tRef("Word")},
			vals:   []*PVal{vArr(vInt(1), vStr("ab")), vArr(vInt(6)), vArr(vStr("a")), vStr("ab"), vStr("a"), vArr()}},
		{name: "mutual", aliases: []Alias{{Name: "Tree", T: tArr(tVar(tInt(), tRef("Branch")), 0, nil)}, {Name: "Branch", T: tArr(tRef("Tree"), 1, i64(1))}},
			params: []*PTy{tRef("Tree"), tRef("Branch")},
			vals: []*PVal{vArr(vInt(1), vInt(2)), vArr(vInt(1), vArr(vArr(vInt(2)))), vArr(vInt(1), vArr(vArr(vStr("x")))), vArr(vArr(vArr(vInt(1)), vArr(vInt(2)))),
				vArr(vArr(vInt(1))), vArr(), vInt(1), vStr("x")}},
		{name: "self", aliases: []Alias{{Name: "Nest", T: tVar(tIntR(0, 5), tArr(tRef("Nest"), 0, i64(2)))}},
			params: []*PTy{tRef("Nest"), tArr(tRef("Nest"), 1, nil)},
			vals:   []*PVal{vInt(3), vInt(7), vArr(vInt(1), vArr(vInt(2))), vArr(vInt(1), vArr(vInt(7))), vArr(vInt(1), vInt(2), vInt(3)), vArr(), vStr("a")}},
		{name: "cycle3", aliases: []Alias{{Name: "A", T: tArr(tVar(tStr(), tRef("B")), 0, nil)}, {Name: "B", T: tOpt(tRef("C"))}, {Name: "C", T: tArr(tRef("A"), 0, i64(2))}},
			params: []*PTy{tRef("A"), tRef("B"), tRef("C")},
			vals: []*PVal{vArr(vStr("a")), vArr(vStr("a"), vUndef()), vArr(vArr(vArr(vStr("a")))), vArr(vArr(vArr(vInt(1)))), vArr(vArr(vStr("a"))), vUndef(), vArr(),
				vArr(vArr(), vArr(), vArr()), vStr("a")}},
		{name: "unknown-inside", aliases: []Alias{{Name: "Known", T: tIntR(0, 5)}, {Name: "Half", T: tVar(tRef("NoSuchType"), tRef("Known"))}},
			params: []*PTy{tRef("Half"), tRef("Known")},
			vals:   []*PVal{vInt(3), vInt(7), vStr("a")}},
		{name: "does-not-resolve", aliases: []Alias{{Name: "Item", T: tIntR(9, 0)}, {Name: "Items", T: tArr(tRef("Item"), 1, nil)}},
			params: []*PTy{tRef("Items")},
			vals:   []*PVal{vArr(vInt(1))}},
		// more local types than the builder's list has room for at first (capacity 8), declared users-first
		{name: "many", aliases: many,
			params: []*PTy{tRef(many[10].Name), tRef(many[8].Name), tRef(many[0].Name)},
			vals:   []*PVal{vStr("a"), vStr("d"), vInt(1)}},
	}
}

// forwardFns: for every shape and every order of its declarations (all for up to 3 local types, else reversed, rotated
// and seeded shuffles): one function per parameter type P {Param(P)} {Param(Any)}, and one with all of them in a row.
func forwardFns(r *lib.Rng) []*FnCase {
	fn := Op{K: "Function"}
	out := []*FnCase{}
	for _, sh := range aliasShapes() {
		orders := [][]Alias{}
		n := len(sh.aliases)
		if n <= 3 {
			for _, p := range permutations(n) {
				o := make([]Alias, n)
				for i, k := range p {
					o[i] = sh.aliases[k]
				}
				orders = append(orders, o)
			}
		} else {
			rev := make([]Alias, n)
			for i := range rev {
				rev[i] = sh.aliases[n-1-i]
			}
			orders = append(orders, sh.aliases, rev, append(append([]Alias{}, sh.aliases[n/2:]...), sh.aliases[:n/2]...),
				shuffleAliases(r, sh.aliases), shuffleAliases(r, sh.aliases))
		}
		calls := []CallIn{{Blk: -1}}
		for _, v := range sh.vals {
			calls = append(calls, CallIn{Args: []*PVal{v}, Blk: -1})
		}
		for i, v := range sh.vals {
			calls = append(calls, CallIn{Args: []*PVal{v, sh.vals[(i+1)%len(sh.vals)]}, Blk: -1})
		}
		for _, o := range orders {
			for _, p := range sh.params {
				out = append(out, &FnCase{Kind: "dispatch", Aliases: o, Disps: [][]Op{{P("Param", p), fn}, {P("Param", tAny()), fn}}, Calls: calls})
				out = append(out, &FnCase{Kind: "dispatch", Aliases: o, Disps: [][]Op{{P("Param", p), P("Rep", p), fn}}, Calls: calls})
			}
			all := [][]Op{}
			for _, p := range sh.params {
				all = append(all, []Op{P("Param", p), fn})
			}
			out = append(out, &FnCase{Kind: "dispatch", Aliases: o, Disps: all, Calls: calls})
		}
	}
	return out
}

// ---- dispatches with many parameters: sizes across and beyond every capacity the builder starts with ----------------

func longSizes(thorough bool) []int {
	s := []int{1, 2, 7, 8, 9, 10, 11, 12, 15, 16, 17, 18, 23, 24, 25, 26, 33}
	if thorough {
		s = []int{}
		for n := 1; n <= 42; n++ {
			s = append(s, n)
		}
		s = append(s, 63, 64, 65, 66, 129)
	}
	return s
}

// longFns: a dispatch `long` with n parameters (n-1 Strings and one more of another type, declared required,
// optional or repeated) first, in the middle and last among short dispatches, and two long dispatches in a row;
// the calls differ from what `long` declares in the last positions only.
func longFns(thorough bool) []*FnCase {
	fn := Op{K: "Function"}
	out := []*FnCase{}
	sv := func(i int) *PVal { return vStr([]string{"s", "ab", "c"}[i%3]) }
	for _, n := range longSizes(thorough) {
		for li, lastK := range []string{"Param", "Opt", "Rep"} {
			for ti, lastT := range []*PTy{tIntR(0, 9), tFloat()} {
				long := []Op{}
				for i := 0; i < n-1; i++ {
					long = append(long, Op{K: "Param", T: tStr(), Typed: i%3 == 1})
				}
				long = append(long, Op{K: lastK, T: lastT}, fn)
				// a second long dispatch: same length, the type before the last differs (Boolean ... then the same last one)
				long2 := []Op{}
				for i := 0; i < n-1; i++ {
					t := tStr()
					if i >= n-3 {
						t = tBool()
					}
					long2 = append(long2, Op{K: "Param", T: t})
				}
				long2 = append(long2, Op{K: lastK, T: lastT}, fn)
				flag := []Op{P("Param", tBool()), fn}
				text := []Op{P("Param", tStr()), P("Opt", tFloat()), fn}
				rest := []Op{P("Rep", tStr()), fn}

				prefix := make([]*PVal, n-1)
				for i := range prefix {
					prefix[i] = sv(i)
				}
				good, other := vInt(int64(n%10)), vFloat(0.5)
				if ti == 1 {
					good, other = vFloat(1.5), vInt(3)
				}
				with := func(pre []*PVal, vs ...*PVal) CallIn {
					return CallIn{Args: append(append([]*PVal{}, pre...), vs...), Blk: -1}
				}
				bprefix := append([]*PVal{}, prefix...)
				for i := range bprefix {
					if i >= n-3 {
						bprefix[i] = vBool(i%2 == 0)
					}
				}
				calls := []CallIn{with(prefix, good), with(prefix), with(prefix, vBool(true)), with(prefix, vStr("s")), with(prefix, vInt(50)), with(prefix, other),
					with(prefix, good, good), with(prefix, good, vBool(true)), with(prefix, good, good, other), with(bprefix, good), with(bprefix, vBool(false)),
					with(nil, vBool(true)), with(nil, vStr("s")), with(nil, vStr("s"), vFloat(0.5)), with(nil, vStr("s"), vBool(true)), with(nil)}
				if n > 2 {
					calls = append(calls, with(prefix[:n-2], good), with(prefix[:n-2], vBool(true), good))
				}
				var tables [][][]Op
				switch (li + ti) % 2 {
				case 0:
					tables = [][][]Op{{long, flag, text}, {flag, long, text}, {flag, text, long}, {long, long2, flag}, {long}}
				default:
					tables = [][][]Op{{long, rest}, {long2, long, flag, text}, {text, long2, long}, {long, flag, text, rest, long2}}
				}
				for _, tb := range tables {
					out = append(out, &FnCase{Kind: "dispatch", Disps: tb, Calls: calls})
				}
			}
		}
	}
	return out
}
