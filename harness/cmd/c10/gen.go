package main

import (
	"encoding/hex"
	"math"
	"strings"

	"verifharness/lib"
)

// ---- helpers to write specs ----

func sUndef() *Spec           { return &Spec{K: "undef"} }
func sDefault() *Spec         { return &Spec{K: "default"} }
func sBool(b bool) *Spec      { return &Spec{K: "bool", B: b} }
func sInt(i int64) *Spec      { return &Spec{K: "int", I: i} }
func sFloat(f float64) *Spec  { return &Spec{K: "float", I: int64(math.Float64bits(f))} }
func sStr(s string) *Spec     { return &Spec{K: "str", S: s} }
func sArr(id int, e ...*Spec) *Spec { return &Spec{K: "arr", Id: id, E: e} }
func sHash(id int, e ...*Spec) *Spec { return &Spec{K: "hash", Id: id, E: e} }
func sSens(id int, e *Spec) *Spec   { return &Spec{K: "sens", Id: id, E: []*Spec{e}} }
func sBin(id int, b ...byte) *Spec  { return &Spec{K: "bin", Id: id, S: hex.EncodeToString(b)} }
func sK(k string, id int, s string) *Spec { return &Spec{K: k, Id: id, S: s} }
func sTimespan(ns int64) *Spec      { return &Spec{K: "timespan", I: ns} }
func sTimestamp(id int, sec, ns int64) *Spec { return &Spec{K: "timestamp", Id: id, I: sec, J: ns} }
func sObj(id int, typ string, args ...*Spec) *Spec { return &Spec{K: "obj", Id: id, S: typ, E: args} }

func sNone() *Spec { return &Spec{K: "none"} }
func sPT(id int, ctor string, e ...*Spec) *Spec { return &Spec{K: "ptype", Id: id, S: ctor, E: e} }
func sPTs(id int, ctor string, lo, hi int64, e ...*Spec) *Spec {
	return &Spec{K: "ptype", Id: id, S: ctor, B: true, I: lo, J: hi, E: e}
}
func sTy(expr string) *Spec   { return sK("type", 0, expr) }
func sOT(name string) *Spec   { return sK("objtype", 0, name) }
func sAl(name string) *Spec   { return sK("alias", 0, name) }

const sensText = "Sensitive [value redacted]"

var long25 = "abcdefghijklmnopqrstuvwxy"  // >= 20
var long20 = "abcdefghijklmnopqrst"       // == 20
var len19 = "abcdefghijklmnopqrs"         // just below 20

// corpus: one or more values for every kind named by the property, the sharing shapes that the position
// bookkeeping depends on, strings that collide with the serializer's own marker strings, and the
// regressions of the defects found.
func corpus() []*Spec {
	s1 := func() *Spec { return sSens(1, sStr("a")) }
	s2 := func() *Spec { return sSens(2, sStr("b")) }
	b1 := func() *Spec { return sBin(3, 1, 2) }
	b2 := func() *Spec { return sBin(4, 255) }
	sv := func() *Spec { return sK("semver", 5, "1.2.3-rc1+b5") }
	arr := func() *Spec { return sArr(6, sInt(1), sStr("abc"), sStr(long25)) }
	hsh := func() *Spec { return sHash(7, sStr("key"), sStr("abc"), sStr(long25), sInt(2)) }
	pt := func() *Spec { return sObj(8, "My::Pt", sInt(3)) }
	return []*Spec{
		// every plain kind
		sUndef(), sBool(true), sBool(false), sInt(0), sInt(-1), sInt(math.MaxInt64), sInt(math.MinInt64),
		sFloat(0), sFloat(1.5), sFloat(-2.25e300), sFloat(math.Inf(1)), sFloat(5e-324), sStr(""), sStr("a"), sStr("héllo wörld €"),
		sStr(long25), sDefault(), sArr(0), sHash(0),
		// every rich kind
		s1(), b1(), sBin(0), sK("regexp", 0, "a.*b"), sK("regexp", 0, ""), sK("regexp", 0, "^[a-z]+/x$"), sv(), sK("semver", 0, "1.0.0"),
		sK("semverrange", 0, ">=1.0.0 <2.0.0"), sK("semverrange", 0, "1.x"), sK("semverrange", 0, "~1.2.3"), sK("semverrange", 0, ">=1.0.0 <2.0.0 || >=3.0.0"),
		sTimespan(0), sTimespan(1234000000000), sTimespan(1234567891234), sTimespan(-1500000000), sTimespan(1), sTimespan(86400000000000 * 3),
		sTimestamp(0, 0, 0), sTimestamp(0, 1234567, 891234567), sTimestamp(0, -1, 999999999), sTimestamp(0, 253402300799, 0), sTimestamp(0, 1500000000, 500000000),
		sK("uri", 0, "http://example.com/a?b=c#d"), sK("uri", 0, "file:///tmp/x"), sK("uri", 0, "urn:isbn:0451450523"), sK("uri", 0, "http://user:pw@host:8080/p%20q"),
		sK("type", 0, "Integer[1,3]"), sK("type", 0, "String"), sK("type", 0, "Array[String]"), sK("type", 0, "Hash[String,Integer]"),
		sK("type", 0, "Optional[Integer]"), sK("type", 0, "Variant[Integer,String]"), sK("type", 0, "Struct[{a=>Integer}]"), sK("type", 0, "Enum['a','b']"),
		sK("type", 0, "Tuple[Integer,String]"), sK("type", 0, "Type[Integer]"), sK("type", 0, "Timespan"), sK("type", 0, "Sensitive[String]"), sK("type", 0, "Any"),
		// types whose text form carries bounds written from Go values (sizes, instants, durations), and a
		// parameterized Object type (regressions bc3de91, 23a1573, ebbcc60, b9bb9d1)
		sTy("String[1,2]"), sTy("String[1]"), sTy("String[2,2]"), sTy("Array[String[1,2]]"),
		sTy("Timestamp['2000-01-01T00:00:00.000 UTC', '2001-01-01T00:00:00.5 UTC']"), sTy("Timestamp['2000-01-01T00:00:00.000 UTC']"),
		sTy("Timestamp[default, '2001-01-01T00:00:00.000 UTC']"), sTy("Timespan[{hours => 1}, {hours => 2}]"), sTy("Timespan[{hours => 1}]"),
		sTy("Timespan[default, {hours => -2, nanoseconds => 1}]"), sTy("Timespan[1, 2]"), sTy("Float[1.5]"), sTy("Float[default, 2.0]"), sTy("Integer[default, 3]"),
		sTy("Enum['a', 'b c']"), sTy("Pattern[/a/, /b.c/]"), sTy("Regexp[/a.b/]"), sTy("SemVer['1.x']"), sTy("SemVerRange"), sTy("Collection[1,2]"), sTy("URI"),
		sTy("Boolean[true]"), sTy("NotUndef[String]"), sTy("Iterable[String]"), sTy("Callable[[String],Integer]"), sTy("TypeReference['X::Y']"),
		sTy("My::Par[3]"), sTy("Array[My::Par[3]]"), sArr(0, sK("type", 13, "My::Par[3]"), sOT("My::Par"), sK("type", 13, "My::Par[3]")),
		sK("objtype", 0, "My::Pt"), sK("objtype", 0, "My::Wrap"), sK("objtype", 0, "My::Par"), sK("alias", 0, "My::Ints"), sK("alias", 0, "My::Tree"),
		pt(), sObj(0, "My::Pt", sInt(3), sInt(4)), sObj(0, "My::Pt", sInt(3), sInt(0), sStr("t")), sObj(0, "My::Wrap", sArr(0, sInt(1))),
		sObj(0, "My::Wrap", sInt(1), pt()), sObj(0, "My::Wrap", sObj(0, "My::Wrap", s1()), sK("objtype", 0, "My::Pt")),
		// non-string keys (complex keys capability)
		sHash(0, sInt(1), sStr("one"), sStr("two"), sInt(2)), sHash(0, sArr(0, sInt(1), sInt(2)), sStr("pair"), sUndef(), sBool(true), sFloat(1.5), sDefault()),
		sHash(0, sTimespan(5000000000), sStr("five"), sK("semver", 0, "1.0.0"), sStr("v")), sHash(0, sStr("h"), sHash(0, sInt(1), sHash(0, sBool(true), sInt(2)))),
		sHash(0, sInt(1), sStr("1"), sStr("1"), sStr("one")),
		// sharing: the same pointer at 2-3 places, at different depths, also as key and inside rich values
		sArr(0, arr(), arr()), sArr(0, hsh(), sArr(0, hsh()), hsh()), sArr(0, s1(), s1()), sArr(0, b1(), b1(), b1()), sArr(0, sv(), sHash(0, sStr("v"), sv())),
		sArr(0, pt(), pt(), sObj(0, "My::Wrap", pt(), pt())), sArr(0, sArr(0), sArr(0), sHash(0), sHash(0)),
		sHash(0, sStr("a"), arr(), sStr("b"), arr(), sStr("c"), sSens(0, arr())), sHash(0, arr(), sInt(1), sStr("x"), arr()),
		sArr(0, sK("type", 9, "Integer[1,3]"), sK("type", 9, "Integer[1,3]"), sK("type", 0, "Integer[1,3]")),
		sArr(0, sK("objtype", 0, "My::Pt"), pt(), sK("objtype", 0, "My::Pt"), sK("alias", 0, "My::Ints"), sK("alias", 0, "My::Ints")),
		sArr(0, sTimespan(5000000000), sTimespan(5000000000), sTimestamp(10, 5, 0), sTimestamp(10, 5, 0), sTimestamp(0, 5, 0)),
		// equal-but-distinct strings around the thresholds, as values and as keys, and repeated keys
		sArr(0, sStr("ab"), sStr("ab"), sStr("abc"), sStr("abc"), sStr(len19), sStr(len19), sStr(long20), sStr(long20), sStr(long25), sStr(long25)),
		sArr(0, sHash(0, sStr("name"), sInt(1), sStr("value"), sStr("name")), sHash(0, sStr("name"), sInt(2), sStr("value"), sStr("value"))),
		sHash(0, sStr(long25), sStr(long25), sStr("k"), sHash(0, sStr(long25), sStr("k"))),
		// strings equal to the serializer's own marker strings
		sArr(0, sStr("__ptype"), sStr("__pvalue"), sStr("Sensitive"), s1(), sStr("Hash"), sHash(0, sInt(1), sInt(2)), sStr("Default"), sDefault(), sStr("Binary"), b1(), sStr("SemVer"), sv(), sStr("1.2.3-rc1+b5")),
		sArr(0, sStr("AQI="), b1(), sStr("Type"), sK("type", 0, "String"), sStr("String"), sStr("Timespan"), sTimespan(7000000000), sStr("7"), sStr("default"), sDefault()),
		sHash(0, sStr("__pvalue"), sInt(1)), sHash(0, sStr("__pref"), sInt(0)), sArr(0, sInt(5), sHash(0, sStr("__pref"), sInt(0))),
		// regressions: a registered value whose body emits only a back-reference (positions drift)
		sArr(0, s1(), s2(), sStr("x"), s2()), sArr(0, s1(), s2(), s2()), sArr(0, sStr(sensText), s1(), sStr("y"), s1()),
		sArr(0, b1(), sStr("AQI="), b2(), sStr("/w=="), b1(), b2()), sArr(0, sStr("AQI="), b1(), sInt(7), b1(), sStr("z"), sStr("z")),
		sHash(0, sStr("s"), s1(), sStr("t"), s2(), sStr("u"), sArr(0, s2(), s1()), sStr("v"), long25Spec()),
		// parameterized types over user types: no serialization string, they travel as instances of their
		// meta type with the trailing default-valued optional attributes left out (serializer.go:327-353)
		sPT(0, "Array", sOT("My::Pt")), sPTs(0, "Array", 1, 3, sOT("My::Pt")), sPT(0, "Array", sAl("My::Ints")), sPTs(0, "Array", 2, 2, sPT(0, "Array", sOT("My::Wrap"))),
		sPT(0, "Hash", sTy("String"), sOT("My::Pt")), sPT(0, "Hash", sTy("Any"), sOT("My::Pt")), sPTs(0, "Hash", 1, 2, sTy("Any"), sOT("My::Pt")),
		sPT(0, "Hash", sOT("My::Pt"), sTy("Any")), sPTs(0, "Hash", 1, 2, sOT("My::Pt"), sTy("Any")), sPT(0, "Hash", sOT("My::Pt"), sOT("My::Pt")),
		sPT(0, "Callable", sPT(0, "Tuple", sOT("My::Pt")), sOT("My::Pt")), sPT(0, "Callable", sPTs(0, "Tuple", 0, 0), sOT("My::Pt")),
		sPT(0, "Callable", sPT(0, "Tuple", sOT("My::Pt"))), sPT(0, "Callable", sPT(0, "Tuple", sTy("Integer")), sNone(), sPT(0, "Callable", sPT(0, "Tuple", sOT("My::Pt")))),
		sPT(0, "Callable", sPT(0, "Tuple", sTy("Integer")), sOT("My::Wrap"), sPT(0, "Callable", sPT(0, "Tuple", sTy("String")))),
		sPT(0, "Tuple", sOT("My::Pt")), sPTs(0, "Tuple", 1, 5, sOT("My::Pt"), sTy("Integer")), sPT(0, "Variant", sOT("My::Pt"), sTy("Integer")),
		sPT(0, "Variant", sOT("My::Pt"), sOT("My::Wrap"), sAl("My::Tree")), sPT(0, "Optional", sOT("My::Pt")), sPT(0, "NotUndef", sOT("My::Wrap")), sPT(0, "Type", sOT("My::Pt")),
		sPT(0, "Iterable", sOT("My::Pt")), sPT(0, "Iterator", sAl("My::Ints")), sPT(0, "Sensitive", sOT("My::Pt")), sPT(0, "Like", sOT("My::Pt")),
		sPT(0, "Optional", sPT(0, "Hash", sTy("Any"), sPT(0, "Variant", sOT("My::Pt"), sTy("Undef")))),
		sPT(0, "Struct", sOT("My::Pt")), sArr(0, sInt(1), &Spec{K: "ptype", S: "Struct", I: 1, E: []*Spec{sOT("My::Pt"), sTy("Integer")}}),
		// the same parameterized type at several places, next to the object type it mentions and an instance of it
		sArr(0, sPT(11, "Hash", sTy("Any"), sOT("My::Pt")), sOT("My::Pt"), sPT(11, "Hash", sTy("Any"), sOT("My::Pt")), pt(), sPT(0, "Hash", sTy("Any"), sOT("My::Pt"))),
		sHash(0, sStr("t"), sPTs(12, "Array", 1, 3, sOT("My::Pt")), sStr("u"), sSens(0, sPTs(12, "Array", 1, 3, sOT("My::Pt"))), sStr("size_type"), sTy("Integer[1,3]")),
		sObj(0, "My::Wrap", sPT(0, "Callable", sPT(0, "Tuple", sOT("My::Pt")), sOT("My::Pt")), sPT(0, "Hash", sTy("Any"), sOT("My::Wrap"))),
		// by-format finding: a user hash with the string key __ptype
		sHash(0, sStr("__ptype"), sStr("SemVer"), sStr("__pvalue"), sStr("1.0.0")), sArr(0, sHash(0, sStr("__ptype"), sStr("Default"))),
		sHash(0, sStr("a"), sHash(0, sStr("__ptype"), sStr("NoSuchType"), sStr("x"), sInt(1))),
		// an attribute whose declared default (Timespan 1 s) has a coarse Equals: the default itself, a value that
		// differs in its whole seconds, and - open finding object-default-coarse-equals - values that differ below
		// the second (alone, shared, inside a container / a Sensitive / another object)
		sObj(0, "My::Dur", sInt(1)), sObj(0, "My::Dur", sInt(1), sTimespan(1000000000)), sObj(0, "My::Dur", sInt(1), sTimespan(2500000000)),
		sObj(0, "My::Dur", sInt(1), sTimespan(-1500000000)), sObj(0, "My::Dur", sInt(1), sTimespan(500000000)),
		sObj(0, "My::Dur", sInt(1), sTimespan(1500000000)), sObj(0, "My::Dur", sInt(2), sTimespan(1000000001)),
		sArr(0, sObj(31, "My::Dur", sInt(3), sTimespan(1999999999)), sObj(31, "My::Dur", sInt(3), sTimespan(1999999999)), sSens(0, sObj(0, "My::Dur", sInt(4), sTimespan(1250000000)))),
		sObj(0, "My::Wrap", sObj(0, "My::Dur", sInt(5), sTimespan(1500000000)), sObj(0, "My::Dur", sInt(5), sTimespan(3000000000))),
	}
}

func long25Spec() *Spec { return sStr(long25) }

// matrixValues: see run(), step 1b
func matrixValues() []*Spec {
	s1 := func() *Spec { return sSens(1, sStr("a")) }
	s2 := func() *Spec { return sSens(2, sStr(long20)) }
	b1 := func() *Spec { return sBin(3, 1, 2) }
	sv := func() *Spec { return sK("semver", 5, "1.2.3-rc1+b5") }
	ckh := func() *Spec { return sHash(6, sInt(1), sStr(long20), sStr(long20), sInt(2), sStr("abc"), b1()) }
	return []*Spec{
		sArr(0, s1(), s2(), sStr("x"), s2(), b1(), sStr("AQI="), b1(), sStr(sensText), s1(), sStr(long20), sStr(long20),
			sStr("abc"), sStr("abc"), sv(), sv(), sDefault(), ckh(), ckh()),
	}
}

// exhaustiveFamily: every array of length 1..maxLen over an alphabet of atoms with fixed identities:
// two Sensitive, two Binary, strings equal to their degraded forms, a container holding one of them,
// a rich scalar, a short string, a complex-key hash.  This is the family in which the order of first
// occurrences, repeats and degraded duplicates is varied systematically.
func exhaustiveFamily(maxLen int) []*Spec {
	atoms := []func() *Spec{
		func() *Spec { return sSens(1, sStr("a")) },
		func() *Spec { return sSens(2, sStr("b")) },
		func() *Spec { return sBin(3, 1, 2) },
		func() *Spec { return sBin(4, 255) },
		func() *Spec { return sStr(sensText) },
		func() *Spec { return sStr("x") },
		func() *Spec { return sArr(7, sSens(1, sStr("a")), sStr("AQI=")) },
		func() *Spec { return sK("semver", 8, "1.0.0") },
		func() *Spec { return sStr("AQI=") },
		func() *Spec { return sHash(10, sInt(1), sStr("x"), sStr("k"), sBin(3, 1, 2)) },
	}
	var out []*Spec
	var rec func(prefix []int, l int)
	rec = func(prefix []int, l int) {
		if len(prefix) == l {
			es := make([]*Spec, l)
			for i, a := range prefix {
				es[i] = atoms[a]()
			}
			out = append(out, sArr(0, es...))
			return
		}
		for a := range atoms {
			rec(append(prefix, a), l)
		}
	}
	for l := 1; l <= maxLen; l++ {
		rec(nil, l)
	}
	return out
}

// attributeFamily: bounded-exhaustive over the meta types with optional attributes: every combination of
// {default value, non-default value without a user type, value with a user type} per attribute that
// holds at least one user type (otherwise the type has a serialization string and does not travel by
// attributes).  This varies systematically WHERE in the attribute list the default-valued attributes
// sit relative to the non-default ones (leading, in the middle, trailing run of any length).
func attributeFamily() []*Spec {
	var out []*Spec
	user := []func() *Spec{func() *Spec { return sOT("My::Pt") }, func() *Spec { return sAl("My::Ints") }}
	// a slot: 0 = the attribute's default, 1 = a non-default value with a serialization string, 2.. = user types
	type slot struct {
		spec *Spec
		user bool
	}
	slots := func(dflt, plain *Spec) []slot {
		r := []slot{{dflt, false}, {plain, false}}
		for _, u := range user {
			r = append(r, slot{u(), true})
		}
		return r
	}
	sizes := []struct {
		b      bool
		lo, hi int64
	}{{false, 0, 0}, {true, 1, 3}, {true, 0, math.MaxInt64}, {true, 0, 0}}
	// Hash: key_type, value_type (default Any), size_type (default Integer[0])
	for _, k := range slots(sTy("Any"), sTy("String")) {
		for _, v := range slots(sTy("Any"), sTy("Integer[1,3]")) {
			if !k.user && !v.user {
				continue
			}
			for _, z := range sizes {
				out = append(out, &Spec{K: "ptype", S: "Hash", B: z.b, I: z.lo, J: z.hi, E: []*Spec{k.spec, v.spec}})
			}
		}
	}
	// Array: element_type (default Any), size_type;  Tuple: types (required), size_type
	for _, u := range user {
		for _, z := range sizes {
			out = append(out, &Spec{K: "ptype", S: "Array", B: z.b, I: z.lo, J: z.hi, E: []*Spec{u()}})
			out = append(out, &Spec{K: "ptype", S: "Tuple", B: z.b, I: z.lo, J: z.hi, E: []*Spec{u(), sTy("String")}})
		}
	}
	// Callable: param_types, block_type, return_type (default undef each); a Callable without
	// parameter types cannot have the others
	params := []slot{{sPT(0, "Tuple", sTy("Integer")), false}, {sPTs(0, "Tuple", 0, 0), false}, {sPT(0, "Tuple", sOT("My::Pt")), true}, {sPTs(0, "Tuple", 1, 2, sAl("My::Ints")), true}}
	blocks := []slot{{sNone(), false}, {sPT(0, "Callable", sPT(0, "Tuple", sTy("String"))), false}, {sPT(0, "Callable", sPT(0, "Tuple", sOT("My::Pt"))), true}}
	rets := []slot{{sNone(), false}, {sTy("Integer"), false}, {sOT("My::Pt"), true}, {sAl("My::Ints"), true}}
	for _, p := range params {
		for _, b := range blocks {
			for _, r := range rets {
				if p.user || b.user || r.user {
					out = append(out, sPT(0, "Callable", p.spec, r.spec, b.spec))
				}
			}
		}
	}
	// the single-attribute meta types (type, default Any) and Init (type, init_args default [])
	for _, c := range []string{"Optional", "NotUndef", "Type", "Iterable", "Iterator", "Sensitive"} {
		for _, u := range user {
			out = append(out, sPT(0, c, u()), sPT(0, c, sPT(0, "Hash", sTy("Any"), u())))
		}
	}
	out = append(out, sPT(0, "Init", sOT("My::Pt")), sPT(0, "Init", sOT("My::Pt"), sInt(1)), sPT(0, "Init", sOT("My::Pt"), sInt(1), sInt(0), sStr("t")),
		sPT(0, "Init", sOT("My::Wrap"), sArr(0, sInt(1))), sPT(0, "Init", sOT("My::Wrap"), sArr(0)))
	return out
}

// ---- seeded random values with deliberate sharing ----

type gen struct {
	r      *lib.Rng
	nextId int
	pool   []*Spec
	budget int
	noGs   bool // no instances backed by Go structs (their InitHash needs the context of the calling goroutine)
}

func newGen(r *lib.Rng) *gen { return &gen{r: r, nextId: 100, budget: 40 + r.Intn(60)} }

var strPool = []string{"", "a", "ab", "abc", "key", "value", "name", len19, long20, long25, "héllo wörld €", "x y",
	"__pvalue", "__pref", "Hash", "Sensitive", "Default", "Type", "SemVer", "Binary", "Timespan", "Timestamp", "URI", "Regexp",
	"default", sensText, "1.0.0", "AQI=", "My::Pt", "Integer", "String", "0", "1", "true", "[1, 2]"}

var semvers = []string{"1.0.0", "1.2.3-rc1", "0.0.1+build5", "10.20.30-alpha.1+exp.sha"}
var semverRanges = []string{">=1.0.0 <2.0.0", "1.x", "~1.2.3", "^1.2", ">1.0.0", "1.0.0 - 2.0.0", ">=1.0.0 <2.0.0 || >=3.0.0", "1.0.0"}
var uris = []string{"http://example.com/a?b=c#d", "file:///tmp/x", "urn:isbn:0451450523", "mailto:a@b.c", "//host/path", "relative/path", "http://user:pw@host:8080/p%20q"}
var regexps = []string{"a.*b", "", "^[a-z]+$", "a/b", `\d+`, "(?i)x", "[[:alpha:]]"}
var typeExprs = []string{"Integer[1,3]", "Integer", "String", "Array[String]", "Hash[String,Integer]", "Optional[Integer]", "Variant[Integer,String]",
	"Struct[{a=>Integer}]", "Enum['a','b']", "Tuple[Integer,String]", "Type[Integer]", "Timespan", "Sensitive[String]", "Float[1.0,2.0]", "Any", "Binary", "Array[Hash[String,Array[Integer]],1,3]",
	"String[1,2]", "String[3]", "Hash[String[1],String[2,2]]", "Timestamp['2000-01-01T00:00:00.000 UTC', '2001-01-01T00:00:00.5 UTC']", "Timestamp[default, '1999-12-31T23:59:59.999999999 UTC']",
	"Timespan[{hours => 1}, {hours => 2}]", "Timespan[{seconds => -1, nanoseconds => 5}]", "Optional[Timespan[1, 2]]", "Pattern[/a/]", "Regexp[/a.b/]", "SemVer['1.x']", "Collection[1,2]"}

func (g *gen) id() int { g.nextId++; return g.nextId }

func (g *gen) top() *Spec {
	// one value in ten is a parameterized type over user types (its attributes are compared one by one)
	if g.r.Chance(1, 10) {
		return g.ptype(0, true)
	}
	// otherwise the top is a container so that there is something to share
	if g.r.Chance(1, 2) {
		return g.array(0)
	}
	return g.hash(0)
}

func (g *gen) str(key bool) *Spec {
	if g.r.Chance(1, 6) {
		n := g.r.Intn(30)
		var b strings.Builder
		for i := 0; i < n; i++ {
			b.WriteByte(byte('a' + g.r.Intn(4)))
		}
		return sStr(b.String())
	}
	return sStr(strPool[g.r.Intn(len(strPool))])
}

func (g *gen) scalar() *Spec {
	switch g.r.Intn(8) {
	case 0:
		return sUndef()
	case 1:
		return sBool(g.r.Bool())
	case 2:
		return sInt(int64(g.r.Intn(5)))
	case 3:
		return sInt(int64(g.r.Next()))
	case 4:
		fs := []float64{0, 1.5, -2.5, 1e100, math.Inf(-1), 3}
		return sFloat(fs[g.r.Intn(len(fs))])
	}
	return g.str(false)
}

func (g *gen) timespan() *Spec {
	switch g.r.Intn(4) {
	case 0:
		return sTimespan(int64(g.r.Intn(4)) * 1000000000)
	case 1:
		return sTimespan(int64(g.r.Next()%200000000000000) - 100000000000000)
	case 2:
		return sTimespan(int64(g.r.Intn(100000)) * 1000000)
	}
	return sTimespan(int64(g.r.Intn(5000)) * 60 * 1000000000)
}

func (g *gen) timestamp() *Spec {
	ns := []int64{0, 0, 500000000, 123456789, 999999999, 1000}
	secs := []int64{0, 1, 1500000000, -1, 253402300799, -62135596800, 951782400}
	sec := secs[g.r.Intn(len(secs))]
	if g.r.Chance(1, 2) {
		sec = int64(g.r.Next()%4000000000) - 1000000000
	}
	return sTimestamp(g.id(), sec, ns[g.r.Intn(len(ns))])
}

// userType: a leaf with a user type in it
func (g *gen) userType() *Spec {
	if g.r.Chance(2, 3) {
		return sOT(objTypeOrder[g.r.Intn(len(objTypeOrder))])
	}
	return sAl(aliasOrder[g.r.Intn(len(aliasOrder))])
}

var plainTypeExprs = []string{"Any", "String", "Integer", "Integer[1,3]", "Integer[0]", "Undef", "Array[String]", "Optional[String]", "Type"}

// ptype: a random parameterized type; must: it has to mention a user type (and so travels by attributes)
func (g *gen) ptype(depth int, must bool) *Spec {
	leaf := func(must bool) *Spec {
		if must || g.r.Chance(1, 2) {
			return g.userType()
		}
		return sTy(plainTypeExprs[g.r.Intn(len(plainTypeExprs))])
	}
	param := func(must bool) *Spec {
		if depth < 3 && g.r.Chance(1, 3) {
			return g.ptype(depth+1, must)
		}
		return leaf(must)
	}
	s := &Spec{K: "ptype", Id: g.id()}
	size := func() {
		switch g.r.Intn(5) {
		case 0:
			s.B, s.I, s.J = true, int64(g.r.Intn(3)), int64(3+g.r.Intn(3))
		case 1:
			s.B, s.I, s.J = true, 0, math.MaxInt64
		case 2:
			s.B, s.I, s.J = true, int64(g.r.Intn(2)), math.MaxInt64
		}
	}
	switch g.r.Intn(14) {
	case 0, 1:
		s.S = "Array"
		s.E = []*Spec{param(must)}
		size()
	case 2, 3, 4:
		s.S = "Hash"
		w := g.r.Intn(3) // which parameter has the user type: key, value, both
		s.E = []*Spec{param(must && w != 1), param(must && w != 0)}
		size()
	case 5:
		s.S = "Tuple"
		n := 1 + g.r.Intn(3)
		w := g.r.Intn(n)
		for i := 0; i < n; i++ {
			s.E = append(s.E, param(must && i == w))
		}
		size()
	case 6, 7, 8:
		s.S = "Callable"
		w := g.r.Intn(3)
		// a parameter of a Callable is not itself a Tuple or Callable type (nor Optional[Callable]) free of user types: written as
		// text, Callable[Tuple[..]] reads as "the parameter tuple" and a trailing Callable as "the block" - the
		// text form of such a type, which is how it travels when it holds no user type, does not denote it
		// (a defect of the type syntax, outside this property; see design_notes/C10.md)
		param0 := param
		param = func(must bool) *Spec {
			for {
				p := param0(must)
				if p.K == "ptype" && !p.hasUserTypes() && (p.S == "Tuple" || p.S == "Callable" ||
					p.S == "Optional" && len(p.E) == 1 && p.E[0].K == "ptype" && p.E[0].S == "Callable") {
					continue
				}
				return p
			}
		}
		tuple := &Spec{K: "ptype", S: "Tuple"}
		for i, n := 0, g.r.Intn(3); i < n; i++ {
			tuple.E = append(tuple.E, param(false))
		}
		if must && w == 0 {
			tuple.E = append(tuple.E, param(true))
		}
		if len(tuple.E) == 0 {
			tuple.B = true // Tuple[0, 0]
		}
		ret, block := sNone(), sNone()
		if w == 1 || g.r.Chance(1, 2) {
			ret = param(must && w == 1)
		}
		if w == 2 || g.r.Chance(1, 3) {
			block = sPT(0, "Callable", sPT(0, "Tuple", param(must && w == 2)))
		}
		s.E = []*Spec{tuple, ret, block}
	case 9:
		s.S = "Variant"
		n := 2 + g.r.Intn(2)
		w := g.r.Intn(n)
		for i := 0; i < n; i++ {
			s.E = append(s.E, param(must && i == w))
		}
	case 10:
		s.S = "Init"
		s.E = []*Spec{sOT(objTypeOrder[g.r.Intn(len(objTypeOrder))])}
		for i, n := 0, g.r.Intn(3); i < n; i++ {
			s.E = append(s.E, g.scalar())
		}
	default:
		s.S = []string{"Optional", "NotUndef", "Type", "Iterable", "Iterator", "Sensitive"}[g.r.Intn(6)]
		s.E = []*Spec{param(must)}
	}
	return s
}

func (g *gen) rich(depth int) *Spec {
	if g.r.Chance(1, 8) {
		return g.ptype(0, true)
	}
	// an instance backed by a Go struct, every optional attribute at its default with probability 1/2
	if !g.noGs && g.r.Chance(1, 10) {
		return g.gostruct(depth)
	}
	switch g.r.Intn(12) {
	case 0:
		return sSens(g.id(), g.value(depth+1))
	case 1:
		n := g.r.Intn(5)
		bs := make([]byte, n)
		for i := range bs {
			bs[i] = byte(g.r.Next())
		}
		return sBin(g.id(), bs...)
	case 2:
		return sK("regexp", g.id(), regexps[g.r.Intn(len(regexps))])
	case 3:
		return sK("semver", g.id(), semvers[g.r.Intn(len(semvers))])
	case 4:
		return sK("semverrange", g.id(), semverRanges[g.r.Intn(len(semverRanges))])
	case 5:
		return g.timespan()
	case 6:
		return g.timestamp()
	case 7:
		return sK("uri", g.id(), uris[g.r.Intn(len(uris))])
	case 8:
		return sK("type", g.id(), typeExprs[g.r.Intn(len(typeExprs))])
	case 9:
		if g.r.Chance(1, 2) {
			return sDefault()
		}
		if g.r.Chance(1, 2) {
			return sK("objtype", 0, objTypeOrder[g.r.Intn(len(objTypeOrder))])
		}
		return sK("alias", 0, aliasOrder[g.r.Intn(len(aliasOrder))])
	case 10:
		args := []*Spec{sInt(int64(g.r.Intn(4)))}
		if g.r.Chance(1, 2) {
			args = append(args, sInt(int64(g.r.Intn(2))))
			if g.r.Chance(1, 2) {
				args = append(args, g.value(depth+1))
			}
		}
		return sObj(g.id(), "My::Pt", args...)
	}
	args := []*Spec{g.value(depth + 1)}
	if g.r.Chance(1, 2) {
		args = append(args, g.value(depth+1))
	}
	return sObj(g.id(), "My::Wrap", args...)
}

func (g *gen) key() *Spec {
	switch g.r.Intn(16) {
	case 0:
		return sInt(int64(g.r.Intn(4)))
	case 1:
		return sBool(g.r.Bool())
	case 2:
		return sUndef()
	case 3:
		return sFloat(1.5)
	case 4:
		return sArr(g.id(), sInt(int64(g.r.Intn(3))), g.str(true))
	case 5:
		return g.timespan()
	case 6:
		return sK("semver", g.id(), semvers[g.r.Intn(len(semvers))])
	case 7:
		return sDefault()
	}
	s := g.str(true)
	if s.S == "__ptype" {
		s.S = "ptype"
	}
	return s
}

func (g *gen) array(depth int) *Spec {
	n := g.r.Intn(6)
	s := &Spec{K: "arr", Id: g.id()}
	for i := 0; i < n; i++ {
		s.E = append(s.E, g.value(depth+1))
	}
	g.pool = append(g.pool, s)
	return s
}

func (g *gen) hash(depth int) *Spec {
	n := g.r.Intn(5)
	s := &Spec{K: "hash", Id: g.id()}
	// a hash gets either string keys only (common) or a mix
	mixed := g.r.Chance(1, 3)
	for i := 0; i < n; i++ {
		var k *Spec
		if mixed {
			k = g.key()
		} else {
			k = g.str(true)
		}
		s.E = append(s.E, k, g.value(depth+1))
	}
	g.pool = append(g.pool, s)
	return s
}

func (g *gen) value(depth int) *Spec {
	g.budget--
	if len(g.pool) > 0 && g.r.Chance(1, 5) {
		return g.pool[g.r.Intn(len(g.pool))] // the same pointer again
	}
	if depth >= 4 || g.budget <= 0 {
		return g.scalar()
	}
	switch g.r.Intn(10) {
	case 0, 1:
		return g.array(depth)
	case 2, 3:
		return g.hash(depth)
	case 4, 5, 6:
		s := g.rich(depth)
		if s.Id != 0 {
			g.pool = append(g.pool, s)
		}
		return s
	}
	return g.scalar()
}
