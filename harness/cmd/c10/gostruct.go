package main

import (
	"fmt"
	"math"
	"reflect"

	"github.com/lyraproj/pcore/px"
	"github.com/lyraproj/pcore/types"
	"github.com/lyraproj/semver/semver"
)

// ---- object instances backed by Go structs ----
//
// The catalogue: Go structs registered through Reflector().TypeFromReflect (Gs::*) and, for the pair with an
// embedded parent, Reflector().TypeSetFromReflect (Gt::*).  `puppet:"value=>..."` tags declare attribute
// defaults that differ from the Go zero value; pointer and interface fields are optional attributes (implicit
// default undef).  A spec {k: gs, s: type name, e: one spec per exported Go field, in field order} is built as
// px.Wrap(ctx, &Struct{...}).  The loader must know the types (the consumer finds the Go type through the
// type's name), so these values exist in the registered scenario only.

type GsEndpoint struct {
	Host   string
	Port   int64  `puppet:"value=>8080"`
	Scheme string `puppet:"value=>'https'"`
}

type GsOpt struct {
	Name  string
	Note  *string
	Count *int64  `puppet:"value=>undef"`
	Flag  bool    `puppet:"value=>true"`
	Rate  float64 `puppet:"value=>1.5"`
}

type GsNest struct {
	Label string        `puppet:"value=>'lbl'"`
	Ep    *GsEndpoint   `puppet:"value=>undef"`
	Eps   []*GsEndpoint `puppet:"value=>[]"`
	Inner GsEndpoint
	Dyn   px.Value `puppet:"value=>undef"`
	Last  int64    `puppet:"value=>7"`
}

// every attribute has a default: the init hash of an instance can be empty
type GsAllDef struct {
	A int64  `puppet:"value=>1"`
	B string `puppet:"value=>'b'"`
	C bool   `puppet:"value=>true"`
}

type GsBase struct {
	Id int64 `puppet:"value=>1"`
}

type GsDerived struct {
	GsBase
	Extra string `puppet:"value=>'e'"`
	More  int64  `puppet:"value=>3"`
}

var gsTypes = map[string]reflect.Type{
	"Gs::Endpoint":  reflect.TypeOf(GsEndpoint{}),
	"Gs::Opt":       reflect.TypeOf(GsOpt{}),
	"Gs::Nest":      reflect.TypeOf(GsNest{}),
	"Gs::AllDef":    reflect.TypeOf(GsAllDef{}),
	"Gt::GsBase":    reflect.TypeOf(GsBase{}),
	"Gt::GsDerived": reflect.TypeOf(GsDerived{}),
}

// addGoStructs registers the catalogue with the loader of ctx
func addGoStructs(ctx px.Context) {
	rf := ctx.Reflector()
	// Gs::Endpoint first: Gs::Nest refers to it
	px.AddTypes(ctx, rf.TypeFromReflect("Gs::Endpoint", nil, reflect.TypeOf(&GsEndpoint{})))
	px.AddTypes(ctx,
		rf.TypeFromReflect("Gs::Opt", nil, reflect.TypeOf(&GsOpt{})),
		rf.TypeFromReflect("Gs::Nest", nil, reflect.TypeOf(&GsNest{})),
		rf.TypeFromReflect("Gs::AllDef", nil, reflect.TypeOf(&GsAllDef{})))
	px.AddTypes(ctx, rf.TypeSetFromReflect("Gt", semver.MustParseVersion("1.0.0"), nil,
		reflect.TypeOf(&GsBase{}), reflect.TypeOf(&GsDerived{})))
}

// buildGoStruct: px.Wrap of a pointer to the struct described by s
func (b *builder) buildGoStruct(s *Spec) px.Value {
	rt, ok := gsTypes[s.S]
	if !ok {
		panic("bad Go struct " + s.S)
	}
	pv := reflect.New(rt)
	b.fillStruct(pv.Elem(), s)
	return px.Wrap(b.ctx, pv.Interface())
}

func (b *builder) fillStruct(sv reflect.Value, s *Spec) {
	if sv.NumField() != len(s.E) {
		panic(fmt.Sprintf("%s has %d fields, the spec %d", s.S, sv.NumField(), len(s.E)))
	}
	for i := 0; i < sv.NumField(); i++ {
		b.setField(sv.Field(i), s.E[i])
	}
}

func (b *builder) setField(fv reflect.Value, s *Spec) {
	switch fv.Kind() {
	case reflect.String:
		fv.SetString(s.S)
	case reflect.Int64:
		fv.SetInt(s.I)
	case reflect.Bool:
		fv.SetBool(s.B)
	case reflect.Float64:
		fv.SetFloat(math.Float64frombits(uint64(s.I)))
	case reflect.Struct:
		b.fillStruct(fv, s)
	case reflect.Ptr:
		if s.K == "undef" {
			return // nil
		}
		pv := reflect.New(fv.Type().Elem())
		b.setField(pv.Elem(), s)
		fv.Set(pv)
	case reflect.Slice:
		if s.K == "undef" {
			return // nil slice
		}
		sl := reflect.MakeSlice(fv.Type(), len(s.E), len(s.E))
		for i, e := range s.E {
			b.setField(sl.Index(i), e)
		}
		fv.Set(sl)
	case reflect.Interface: // px.Value
		if s.K == "none" {
			return // nil interface
		}
		fv.Set(reflect.ValueOf(b.build(s)))
	default:
		panic("unsupported field kind " + fv.Kind().String())
	}
}

func (s *Spec) hasGoStruct() bool {
	if s.K == "gs" {
		return true
	}
	for _, e := range s.E {
		if e.hasGoStruct() {
			return true
		}
	}
	return false
}

// ---- spec helpers and generators ----

func sGs(id int, typ string, fields ...*Spec) *Spec { return &Spec{K: "gs", Id: id, S: typ, E: fields} }

// endpoint: def bit 0 = Port holds its default, bit 1 = Scheme holds its default
func gsEndpointSpec(id int, host string, def int) *Spec {
	port, scheme := sInt(80), sStr("http")
	if def&1 != 0 {
		port = sInt(8080)
	}
	if def&2 != 0 {
		scheme = sStr("https")
	}
	return sGs(id, "Gs::Endpoint", sStr(host), port, scheme)
}

// opt: bits 0..3 = Note, Count, Flag, Rate hold their default
func gsOptSpec(id int, def int) *Spec {
	note, count, flag, rate := sStr("n"), sInt(5), sBool(false), sFloat(2.5)
	if def&1 != 0 {
		note = sUndef()
	}
	if def&2 != 0 {
		count = sUndef()
	}
	if def&4 != 0 {
		flag = sBool(true)
	}
	if def&8 != 0 {
		rate = sFloat(1.5)
	}
	return sGs(id, "Gs::Opt", sStr("x"), note, count, flag, rate)
}

// nest: bits 0..4 = Label, Ep, Eps, Dyn, Last hold their default; inner = default bits of the Inner endpoint;
// dyn = what the dynamic field holds when it is not at its default
func gsNestSpec(id int, def int, inner int, dyn *Spec) *Spec {
	label, ep, eps, last := sStr("q"), gsEndpointSpec(0, "p", 2), sArr(0, gsEndpointSpec(0, "e1", 3), gsEndpointSpec(0, "e2", 0)), sInt(8)
	if def&1 != 0 {
		label = sStr("lbl")
	}
	if def&2 != 0 {
		ep = sUndef()
	}
	if def&4 != 0 {
		eps = sArr(0)
	}
	if def&8 != 0 || dyn == nil {
		dyn = sUndef()
	}
	if def&16 != 0 {
		last = sInt(7)
	}
	return sGs(id, "Gs::Nest", label, ep, eps, gsEndpointSpec(0, "h", inner), dyn, last)
}

// alldef: bits 0..2 = A, B, C hold their default
func gsAllDefSpec(id int, def int) *Spec {
	a, bb, c := sInt(2), sStr("x"), sBool(false)
	if def&1 != 0 {
		a = sInt(1)
	}
	if def&2 != 0 {
		bb = sStr("b")
	}
	if def&4 != 0 {
		c = sBool(true)
	}
	return sGs(id, "Gs::AllDef", a, bb, c)
}

// derived: bits 0..2 = Id (inherited), Extra, More hold their default
func gsDerivedSpec(id int, def int) *Spec {
	i, extra, more := sInt(2), sStr("f"), sInt(4)
	if def&1 != 0 {
		i = sInt(1)
	}
	if def&2 != 0 {
		extra = sStr("e")
	}
	if def&4 != 0 {
		more = sInt(3)
	}
	return sGs(id, "Gt::GsDerived", sGs(0, "Gt::GsBase", i), extra, more)
}

// structFamily: bounded-exhaustive over the catalogue - EVERY placement of default-valued attributes (leading, in
// the middle, a trailing run of any length, all, none) for every struct, the instance alone, and - rotating -
// shared in an array (the second occurrence is a back-reference), as a hash value, inside a Sensitive, as an
// attribute of a plain object (My::Wrap), as the dynamic field of another Go struct.
func structFamily() []*Spec {
	var alone []*Spec
	for d := 0; d < 4; d++ {
		alone = append(alone, gsEndpointSpec(0, "a.example.com", d))
	}
	for d := 0; d < 16; d++ {
		alone = append(alone, gsOptSpec(0, d))
	}
	for d := 0; d < 8; d++ {
		alone = append(alone, gsAllDefSpec(0, d), gsDerivedSpec(0, d))
	}
	alone = append(alone, sGs(0, "Gt::GsBase", sInt(1)), sGs(0, "Gt::GsBase", sInt(5)))
	for d := 0; d < 32; d++ {
		alone = append(alone, gsNestSpec(0, d, d%4, sSens(0, sStr("s"))))
	}
	// the nil slice (reads as undef, not as the default [])
	alone = append(alone, sGs(0, "Gs::Nest", sStr("lbl"), sUndef(), sUndef(), gsEndpointSpec(0, "h", 3), sUndef(), sInt(7)))
	out := append([]*Spec{}, alone...)
	for i, a := range alone {
		sh := *a
		sh.Id = 50 + i
		s := &sh
		switch i % 5 {
		case 0:
			out = append(out, sArr(0, s, s, sStr("x"), s))
		case 1:
			out = append(out, sHash(0, sStr("k"), s, sStr(long25), sArr(0, s)))
		case 2:
			out = append(out, sArr(0, sSens(0, s), sObj(0, "My::Wrap", s, s)))
		case 3:
			out = append(out, gsNestSpec(0, 23, 3, s), sObj(0, "My::Wrap", sInt(1), gsNestSpec(0, 7, 1, s)))
		case 4:
			out = append(out, sArr(0, gsNestSpec(0, 8|i%8, i%4, nil), s, sObj(0, "My::Pt", sInt(int64(i)), sInt(0), s)))
		}
	}
	return out
}

// gostruct: a random instance; every optional attribute holds its default with probability 1/2
func (g *gen) gostruct(depth int) *Spec {
	id := g.id()
	switch g.r.Intn(6) {
	case 0, 1:
		return gsEndpointSpec(id, []string{"h", "a.example.com", long25}[g.r.Intn(3)], g.r.Intn(4))
	case 2:
		return gsOptSpec(id, g.r.Intn(16))
	case 3:
		if g.r.Chance(1, 2) {
			return gsAllDefSpec(id, g.r.Intn(8))
		}
		return gsDerivedSpec(id, g.r.Intn(8))
	}
	s := gsNestSpec(id, g.r.Intn(32), g.r.Intn(4), nil)
	if s.E[4].K == "undef" && g.r.Chance(1, 2) && depth < 3 {
		s.E[4] = g.value(depth + 1)
	}
	if s.E[1].K != "undef" {
		s.E[1] = gsEndpointSpec(0, "p", g.r.Intn(4))
	}
	return s
}

var _ = types.WrapString
