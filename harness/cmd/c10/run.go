package main

import (
	"fmt"
	"math"
	"runtime"
	"strings"

	"github.com/lyraproj/issue/issue"
	"github.com/lyraproj/pcore/px"
	"github.com/lyraproj/pcore/serialization"
	"github.com/lyraproj/pcore/types"
	"verifharness/lib"
)

// Config is one point of the option x capability matrix.
type Config struct {
	Rich     bool `json:"rich_data"`
	LocalRef bool `json:"local_reference"`
	Dedup    int  `json:"dedup_level"`
	Bin      bool `json:"can_do_binary"`
	CK       bool `json:"can_do_complex_keys"`
	Thr      int  `json:"string_dedup_threshold"`
}

func (c Config) String() string {
	return fmt.Sprintf("rich=%v localref=%v dedup=%d bin=%v ck=%v thr=%d", c.Rich, c.LocalRef, c.Dedup, c.Bin, c.CK, c.Thr)
}

func (c Config) options() px.OrderedMap {
	return types.WrapHash([]*types.HashEntry{
		types.WrapHashEntry2(`rich_data`, types.WrapBoolean(c.Rich)),
		types.WrapHashEntry2(`local_reference`, types.WrapBoolean(c.LocalRef)),
		types.WrapHashEntry2(`dedup_level`, types.WrapInteger(int64(c.Dedup))),
	})
}

func (c Config) gallina() string {
	return fmt.Sprintf("(mkopts %s %s %d%%N), (mkcaps %s %s %d%%N)", lib.GBool(c.Rich), lib.GBool(c.LocalRef), c.Dedup,
		lib.GBool(c.Bin), lib.GBool(c.CK), c.Thr)
}

// effective dedup level after NewSerializer and Convert (serializer.go:47-52, 66-68); used only to
// classify cases for the statistics, never by a check.
func (c Config) effDedup() int {
	d := c.Dedup
	if !c.LocalRef {
		d = 0
	}
	if d >= 2 && !c.CK {
		d = 1
	}
	return d
}

var thresholds = []int{0, 3, 20, 1000000}

func allConfigs() []Config {
	var r []Config
	for _, rich := range []bool{true, false} {
		for _, lr := range []bool{true, false} {
			for d := 0; d <= 2; d++ {
				for _, bin := range []bool{true, false} {
					for _, ck := range []bool{true, false} {
						for _, thr := range thresholds {
							r = append(r, Config{rich, lr, d, bin, ck, thr})
						}
					}
				}
			}
		}
	}
	return r
}

// ---- the recording consumer between serializer and deserializer ----

type event struct {
	K string // add ref arr hash end
	N int
	V px.Value
}

func (e event) String() string {
	switch e.K {
	case "add":
		return fmt.Sprintf("Add(%T %s)", e.V, short(e.V))
	case "ref":
		return fmt.Sprintf("AddRef(%d)", e.N)
	case "arr":
		return fmt.Sprintf("AddArray(%d){", e.N)
	case "hash":
		return fmt.Sprintf("AddHash(%d){", e.N)
	}
	return "}"
}

func (e event) gallina() string {
	switch e.K {
	case "add":
		switch v := e.V.(type) {
		case *types.UndefValue:
			return "EAdd DUndef"
		case px.Boolean:
			return "EAdd (DBool " + lib.GBool(v.Bool()) + ")"
		case px.Integer:
			return "EAdd (DInt " + lib.GZ(v.Int()) + ")"
		case px.Float:
			return "EAdd (DFloat " + lib.GZ(int64(math.Float64bits(v.Float()))) + ")"
		case px.StringValue:
			return "EAdd (DStr " + gStr(v.String()) + ")"
		case *types.Binary:
			return "EAdd (DBin " + gStr(v.SerializationString()) + ")"
		}
		return "EAdd (DArr []) (* not Data: " + strings.ReplaceAll(fmt.Sprintf("%T", e.V), "*", "") + " *)"
	case "ref":
		return fmt.Sprintf("ERef %d", e.N)
	case "arr":
		return fmt.Sprintf("EArr %d", e.N)
	case "hash":
		return fmt.Sprintf("EHash %d", e.N)
	}
	return "EEnd"
}

type frame struct {
	hash     bool
	children int
}

// recorder forwards every call to the deserializer and to a plain collector (whose value is the Data
// tree with the references resolved), records the events and checks the stream clauses as it goes.
type recorder struct {
	cfg       Config
	to        []px.ValueConsumer
	events    []event
	positions int
	open      []bool // per position: a container that has not been closed yet
	cyclic    bool   // a reference to an open container was delivered: the consumers hold a cyclic value
	stack     []frame
	wf        []string // violated stream clauses: "clause|detail"
	refs      int
	// scenarios with several conversions on one Serializer (reent.go): note is called for every event recorded
	// (the global order of the calls), gate at the entry of every consumer call and after a container has been
	// closed - the points at which another conversion may be started or let run
	note func()
	gate func()
}

func (r *recorder) record(e event) {
	r.events = append(r.events, e)
	if r.note != nil {
		r.note()
	}
}

func (r *recorder) atGate() {
	if r.gate != nil {
		r.gate()
	}
}

func (r *recorder) CanDoBinary() bool         { return r.cfg.Bin }
func (r *recorder) CanDoComplexKeys() bool    { return r.cfg.CK }
func (r *recorder) StringDedupThreshold() int { return r.cfg.Thr }

func (r *recorder) bad(clause, detail string) {
	if len(r.wf) < 5 {
		r.wf = append(r.wf, clause+"|"+detail)
	}
}

// child is called for every item delivered to the current frame
func (r *recorder) child(isPlainString bool, what string) {
	if len(r.stack) == 0 {
		return
	}
	f := &r.stack[len(r.stack)-1]
	if f.hash && f.children%2 == 0 && !r.cfg.CK && !isPlainString {
		r.bad("stream-plain-data", fmt.Sprintf("event %d: hash key delivered as %s to a consumer that cannot do complex keys", len(r.events)-1, what))
	}
	f.children++
}

func (r *recorder) Add(v px.Value) {
	r.atGate()
	r.record(event{K: "add", V: v})
	isStr := false
	switch v.(type) {
	case *types.UndefValue, px.Integer, px.Float, px.Boolean:
	case px.StringValue:
		isStr = true
	case *types.Binary:
		if !r.cfg.Bin {
			r.bad("stream-plain-data", fmt.Sprintf("event %d: a Binary was passed to a consumer that cannot do binary", len(r.events)-1))
		}
	default:
		r.bad("stream-plain-data", fmt.Sprintf("event %d: Add(%T) is not Data", len(r.events)-1, v))
	}
	r.child(isStr, fmt.Sprintf("%T", v))
	r.positions++
	r.open = append(r.open, false)
	for _, c := range r.to {
		c.Add(v)
	}
}

func (r *recorder) AddRef(n int) {
	r.atGate()
	r.record(event{K: "ref", N: n})
	r.refs++
	if n < 0 || n >= r.positions {
		r.bad("stream-ref-earlier", fmt.Sprintf("event %d: AddRef(%d) but only %d positions have been produced", len(r.events)-1, n, r.positions))
	} else if r.open[n] {
		// values are immutable and therefore acyclic: no value equals a container it is an element of
		r.cyclic = true
		r.bad("stream-ref-earlier", fmt.Sprintf("event %d: AddRef(%d) refers to the container opened at position %d, which is still under construction", len(r.events)-1, n, n))
	}
	r.child(false, "a reference")
	for _, c := range r.to {
		c.AddRef(n)
	}
}

func (r *recorder) nested(kind string, n int, doer px.Doer) {
	r.atGate()
	r.record(event{K: kind, N: n})
	r.child(false, "a container")
	myPos := r.positions
	r.positions++
	r.open = append(r.open, true)
	r.stack = append(r.stack, frame{hash: kind == "hash"})
	var rec func(i int)
	rec = func(i int) {
		if i == len(r.to) {
			doer()
			return
		}
		if kind == "hash" {
			r.to[i].AddHash(n, func() { rec(i + 1) })
		} else {
			r.to[i].AddArray(n, func() { rec(i + 1) })
		}
	}
	// the frame must be closed (and checked) before the consumers build their hash from it
	closed := false
	closeFrame := func() {
		if closed {
			return
		}
		closed = true
		r.open[myPos] = false
		f := r.stack[len(r.stack)-1]
		r.stack = r.stack[:len(r.stack)-1]
		if f.hash && f.children%2 != 0 {
			r.bad("stream-hash-alternates", fmt.Sprintf("the hash opened before event %d received %d children", len(r.events), f.children))
		}
		r.record(event{K: "end"})
		r.atGate()
	}
	inner := doer
	doer = func() { inner(); closeFrame() }
	rec(0)
}

func (r *recorder) AddArray(n int, doer px.Doer) { r.nested("arr", n, doer) }
func (r *recorder) AddHash(n int, doer px.Doer)  { r.nested("hash", n, doer) }

// ---- one run ----

type outcome struct {
	events    []event
	serFault  string   // non-empty: Convert panicked (class|message)
	wf        []string // violated stream clauses
	data      px.Value // the plain collector's value (references resolved); nil after a fault
	result    px.Value // deserializer's value; nil after a fault/error
	resFault  string   // "fault|msg" or "error|msg" raised by the deserializer's Value()
	refs      int
	overlapped bool    // the conversion shared its Serializer with others (reent.go)
}

func panicClass(e interface{}) string {
	if _, ok := e.(runtime.Error); ok {
		return fmt.Sprintf("fault|%v", e)
	}
	if r, ok := e.(issue.Reported); ok {
		return fmt.Sprintf("error|%s: %v", r.Code(), r)
	}
	return fmt.Sprintf("error|%v", e)
}

// runOne serializes v under cfg with the serializing context ctxS into a recorder that feeds a
// deserializer living in a fork of ctxS.
func runOne(ctxS px.Context, v px.Value, cfg Config) (out outcome) {
	// the deserializer lives in a fork of the serializing context (types it registers stay there); the
	// fork is handed over explicitly and is not made current: switching the current context costs two
	// runtime.Stack calls (threadlocal.getg) per run.
	ctxD := ctxS.Fork()
	ds := serialization.NewDeserializer(ctxD, px.EmptyMap)
	plain := types.NewCollector()
	rec := &recorder{cfg: cfg, to: []px.ValueConsumer{ds, plain}}
	func() {
		defer func() {
			if e := recover(); e != nil {
				out.serFault = panicClass(e)
			}
		}()
		serialization.NewSerializer(ctxS, cfg.options()).Convert(v, rec)
	}()
	out.events, out.wf, out.refs = rec.events, rec.wf, rec.refs
	if out.serFault != "" {
		return
	}
	if rec.cyclic {
		out.resFault = cyclicFault
		return
	}
	func() {
		defer func() {
			if e := recover(); e != nil {
				out.resFault = panicClass(e)
			}
		}()
		out.data = plain.Value()
		out.result = ds.Value()
	}()
	return
}

// Value() of a consumer that was handed a reference to a container under construction holds a cyclic value;
// walking it (the deserializer does) never ends, so it is not asked for
const cyclicFault = "fault|not evaluated: the stream refers to a container under construction, the consumers hold a cyclic value"

func eventsText(evs []event) []string {
	r := make([]string, len(evs))
	for i, e := range evs {
		r[i] = e.String()
	}
	return r
}

func eventsGallina(evs []event) string {
	es := make([]string, len(evs))
	for i, e := range evs {
		es[i] = e.gallina()
	}
	return lib.GList(es, "@event str")
}
