package main

import (
	"bytes"
	"fmt"
	"reflect"

	"github.com/lyraproj/pcore/px"
	"github.com/lyraproj/pcore/types"
)

// ---- the tiny Go reference the direct check D compares the implementation against ----

// deepEq is the equality of the property: Value.Equals, except that (a) Sensitive values, which never
// compare equal, are compared by their wrapped content, (b) containers are walked so that (a) applies
// at any depth (arrays positionally, hashes by position — the serializer and the collector both keep
// the entry order), (c) object instances are compared by type and attribute values (attributeSlice.
// Equals uses reflect.DeepEqual on the value slice, objectvalue.go:145, which is C17's subject), and
// (d) the rich scalars are additionally compared on their full content (Timespan nanoseconds,
// Timestamp instant with nanoseconds), since Timespan.Equals/Timestamp.Equals look at whole seconds
// only and would hide a loss of precision in the string form (of_s (to_s x) = x of the model).
// It returns "" when equal, else a short path to the first difference.
func deepEq(a, b px.Value, path string) string {
	if a == nil || b == nil {
		if a == nil && b == nil {
			return ""
		}
		return path + ": nil vs non-nil"
	}
	switch a := a.(type) {
	case *types.Sensitive:
		if bs, ok := b.(*types.Sensitive); ok {
			return deepEq(a.Unwrap(), bs.Unwrap(), path+"/Sensitive")
		}
		return fmt.Sprintf("%s: Sensitive vs %T", path, b)
	case *types.Array:
		ba, ok := b.(*types.Array)
		if !ok {
			return fmt.Sprintf("%s: Array vs %T", path, b)
		}
		if a.Len() != ba.Len() {
			return fmt.Sprintf("%s: array length %d vs %d", path, a.Len(), ba.Len())
		}
		for i := 0; i < a.Len(); i++ {
			if d := deepEq(a.At(i), ba.At(i), fmt.Sprintf("%s/%d", path, i)); d != "" {
				return d
			}
		}
		return ""
	case *types.Hash:
		bh, ok := b.(*types.Hash)
		if !ok {
			return fmt.Sprintf("%s: Hash vs %T", path, b)
		}
		if a.Len() != bh.Len() {
			return fmt.Sprintf("%s: hash length %d vs %d", path, a.Len(), bh.Len())
		}
		ae, be := hashEntries(a), hashEntries(bh)
		for i := range ae {
			if d := deepEq(ae[i][0], be[i][0], fmt.Sprintf("%s/key%d", path, i)); d != "" {
				return d
			}
			if d := deepEq(ae[i][1], be[i][1], fmt.Sprintf("%s/%s", path, keyLabel(ae[i][0]))); d != "" {
				return d
			}
		}
		return ""
	case types.Timespan:
		bt, ok := b.(types.Timespan)
		if !ok {
			return fmt.Sprintf("%s: Timespan vs %T", path, b)
		}
		if a.Duration() != bt.Duration() {
			return fmt.Sprintf("%s: Timespan %dns vs %dns", path, int64(a.Duration()), int64(bt.Duration()))
		}
		return ""
	case *types.Timestamp:
		bt, ok := b.(*types.Timestamp)
		if !ok {
			return fmt.Sprintf("%s: Timestamp vs %T", path, b)
		}
		if !a.Time().Equal(bt.Time()) {
			return fmt.Sprintf("%s: Timestamp %d.%09d vs %d.%09d", path, a.Time().Unix(), a.Time().Nanosecond(), bt.Time().Unix(), bt.Time().Nanosecond())
		}
		return ""
	}
	if _, isType := a.(px.Type); !isType {
		if ao, ok := a.(px.PuppetObject); ok {
			bo, ok := b.(px.PuppetObject)
			if !ok {
				return fmt.Sprintf("%s: object vs %T", path, b)
			}
			if !ao.PType().Equals(bo.PType(), nil) {
				return fmt.Sprintf("%s: object types differ: %s vs %s", path, ao.PType(), bo.PType())
			}
			if d := deepEq(ao.InitHash(), bo.InitHash(), path+"/init"); d != "" {
				return d
			}
			return instanceEq(ao, bo, path)
		}
	}
	if !a.Equals(b, nil) {
		return fmt.Sprintf("%s: %s (%T) vs %s (%T)", path, short(a), a, short(b), b)
	}
	if !b.Equals(a, nil) {
		return fmt.Sprintf("%s: Equals is not symmetric on %s (%T) vs %s (%T)", path, short(a), a, short(b), b)
	}
	return ""
}

// instanceEq: two instances of the same Object type hold equal values in EVERY attribute (read through
// attribute.Get - what a user of the instance sees, also for the attributes the init hash leaves out because they
// hold their default), and, when the type is backed by a Go struct, the Go values they stand for are equal field
// by field.
func instanceEq(a, b px.PuppetObject, path string) (diff string) {
	ot, ok := a.PType().(px.ObjectType)
	if !ok {
		return ""
	}
	defer func() {
		if e := recover(); e != nil {
			diff = fmt.Sprintf("%s: the attributes of the instance cannot be read: %v", path, e)
		}
	}()
	if ot.GoType() == nil {
		for _, at := range ot.AttributesInfo().Attributes() {
			if d := deepEq(at.Get(a), at.Get(b), path+"/"+at.Name()); d != "" {
				return d
			}
		}
		return ""
	}
	// backed by a Go struct: the fields are the attributes (reading them through attribute.Get costs a
	// runtime.Stack call per attribute: wrap looks for the context of the goroutine)
	ar, aok := a.(px.Reflected)
	br, bok := b.(px.Reflected)
	if !aok || !bok {
		return fmt.Sprintf("%s: instance of a type backed by a Go struct: %T vs %T", path, a, b)
	}
	ga, gb := derefStruct(ar.Reflect(judgeCtx)), derefStruct(br.Reflect(judgeCtx))
	if ga.Type() != gb.Type() {
		return fmt.Sprintf("%s: Go value of type %s vs %s", path, ga.Type(), gb.Type())
	}
	return goEq(ga, gb, path+"/go")
}

// the context of the run that is being judged (px.Reflected.Reflect wants one)
var judgeCtx px.Context

func derefStruct(v reflect.Value) reflect.Value {
	for v.Kind() == reflect.Ptr && !v.IsNil() {
		v = v.Elem()
	}
	return v
}

var pxValueType = reflect.TypeOf((*px.Value)(nil)).Elem()

// goEq: field by field equality of two Go values of the same type; px.Value fields by deepEq; a nil slice and an
// empty one are different values (the one reads as undef, the other as [])
func goEq(a, b reflect.Value, path string) string {
	switch a.Kind() {
	case reflect.Ptr:
		if a.IsNil() || b.IsNil() {
			if a.IsNil() != b.IsNil() {
				return fmt.Sprintf("%s: nil vs non-nil pointer", path)
			}
			return ""
		}
		return goEq(a.Elem(), b.Elem(), path)
	case reflect.Interface:
		if a.IsNil() || b.IsNil() {
			// a nil px.Value reads as undef
			av, bv := px.Value(px.Undef), px.Value(px.Undef)
			if !a.IsNil() {
				av, _ = a.Interface().(px.Value)
			}
			if !b.IsNil() {
				bv, _ = b.Interface().(px.Value)
			}
			return deepEq(av, bv, path)
		}
		av, aok := a.Interface().(px.Value)
		bv, bok := b.Interface().(px.Value)
		if aok && bok {
			return deepEq(av, bv, path)
		}
		if !reflect.DeepEqual(a.Interface(), b.Interface()) {
			return fmt.Sprintf("%s: %v vs %v", path, a.Interface(), b.Interface())
		}
		return ""
	case reflect.Struct:
		for i := 0; i < a.NumField(); i++ {
			if d := goEq(a.Field(i), b.Field(i), path+"."+a.Type().Field(i).Name); d != "" {
				return d
			}
		}
		return ""
	case reflect.Slice:
		if a.IsNil() != b.IsNil() {
			return fmt.Sprintf("%s: nil vs non-nil slice", path)
		}
		if a.Len() != b.Len() {
			return fmt.Sprintf("%s: slice length %d vs %d", path, a.Len(), b.Len())
		}
		for i := 0; i < a.Len(); i++ {
			if d := goEq(a.Index(i), b.Index(i), fmt.Sprintf("%s[%d]", path, i)); d != "" {
				return d
			}
		}
		return ""
	}
	if !reflect.DeepEqual(a.Interface(), b.Interface()) {
		return fmt.Sprintf("%s: %v vs %v", path, a.Interface(), b.Interface())
	}
	return ""
}

func short(v px.Value) string {
	s := safeString(v)
	if len(s) > 80 {
		s = s[:80] + "..."
	}
	return s
}

func keyLabel(k px.Value) string {
	if s, ok := k.(px.StringValue); ok {
		return s.String()
	}
	return "<key>"
}

func hashEntries(h *types.Hash) [][2]px.Value {
	r := make([][2]px.Value, 0, h.Len())
	h.EachPair(func(k, v px.Value) { r = append(r, [2]px.Value{k, v}) })
	return r
}

// dataEq: strict structural, ordered equality of two Data trees (what a BasicCollector builds).
func dataEq(a, b px.Value, path string) string {
	switch a := a.(type) {
	case *types.Array:
		ba, ok := b.(*types.Array)
		if !ok {
			return fmt.Sprintf("%s: Array vs %T", path, b)
		}
		if a.Len() != ba.Len() {
			return fmt.Sprintf("%s: array length %d vs %d", path, a.Len(), ba.Len())
		}
		for i := 0; i < a.Len(); i++ {
			if d := dataEq(a.At(i), ba.At(i), fmt.Sprintf("%s/%d", path, i)); d != "" {
				return d
			}
		}
		return ""
	case *types.Hash:
		bh, ok := b.(*types.Hash)
		if !ok {
			return fmt.Sprintf("%s: Hash vs %T", path, b)
		}
		if a.Len() != bh.Len() {
			return fmt.Sprintf("%s: hash length %d vs %d", path, a.Len(), bh.Len())
		}
		ae, be := hashEntries(a), hashEntries(bh)
		for i := range ae {
			if d := dataEq(ae[i][0], be[i][0], fmt.Sprintf("%s/key%d", path, i)); d != "" {
				return d
			}
			if d := dataEq(ae[i][1], be[i][1], fmt.Sprintf("%s/%s", path, keyLabel(ae[i][0]))); d != "" {
				return d
			}
		}
		return ""
	case *types.Binary:
		bb, ok := b.(*types.Binary)
		if !ok || !bytes.Equal(a.Bytes(), bb.Bytes()) {
			return fmt.Sprintf("%s: Binary vs %s", path, short(b))
		}
		return ""
	}
	if fmt.Sprintf("%T", a) != fmt.Sprintf("%T", b) || !a.Equals(b, nil) {
		return fmt.Sprintf("%s: %s (%T) vs %s (%T)", path, short(a), a, short(b), b)
	}
	return ""
}

// degradeRef is the documented lossy image when rich_data is off (serializer.go:117-119,153-155,
// 163-165,170-172,176-190,212-222: "It will be converted to the String ..."): Default becomes
// 'default', every value without a Data form becomes its String(), and - only for a consumer that
// cannot do complex keys - every non-string key of a hash that has one becomes its String().
func degradeRef(v px.Value, bin, ck bool) px.Value {
	switch v := v.(type) {
	case *types.UndefValue, px.Integer, px.Float, px.Boolean, px.StringValue:
		return v
	case *types.DefaultValue:
		return types.WrapString("default")
	case *types.Hash:
		es := make([]*types.HashEntry, 0, v.Len())
		strKeys := ck || v.AllKeysAreStrings()
		v.EachPair(func(k, e px.Value) {
			var dk px.Value
			if strKeys {
				dk = degradeRef(k, bin, ck)
			} else if s, ok := k.(px.StringValue); ok {
				dk = s
			} else {
				dk = types.WrapString(k.String())
			}
			es = append(es, types.WrapHashEntry(dk, degradeRef(e, bin, ck)))
		})
		return types.WrapHash(es)
	case *types.Array:
		es := make([]px.Value, v.Len())
		for i := range es {
			es[i] = degradeRef(v.At(i), bin, ck)
		}
		return types.WrapValues(es)
	case *types.Binary:
		if bin {
			return v
		}
		return types.WrapString(v.String())
	}
	return types.WrapString(v.String())
}

// ptypeKeyHash: does the data tree contain a hash all of whose keys are strings and one of them is
// `__ptype`?  Such a *user* hash is indistinguishable, by format, from the encoding of a rich value
// (deserializer.go:49-51); this is the input class of the open finding `user-hash-ptype-key`.
func ptypeKeyHash(v px.Value) bool {
	switch v := v.(type) {
	case *types.Hash:
		if v.AllKeysAreStrings() && v.IncludesKey2(`__ptype`) {
			return true
		}
		found := false
		v.EachPair(func(k, e px.Value) {
			if ptypeKeyHash(k) || ptypeKeyHash(e) {
				found = true
			}
		})
		return found
	case *types.Array:
		found := false
		v.Each(func(e px.Value) {
			if ptypeKeyHash(e) {
				found = true
			}
		})
		return found
	case *types.Sensitive:
		return ptypeKeyHash(v.Unwrap())
	}
	if _, isType := v.(px.Type); !isType {
		if po, ok := v.(px.PuppetObject); ok {
			return ptypeKeyHash(po.InitHash())
		}
	}
	return false
}
