package main

// Several conversions on ONE Serializer.  "A Serializer is a re-entrant fully configured serializer"
// (serializer.go:19): the object is made once and Convert may be entered on it again before an earlier
// conversion has returned.  A scenario holds k values that share elements (the same Go objects, equal strings),
// one px.Serializer, one consumer (recorder -> deserializer + plain collector) per conversion, and a way in
// which the conversions overlap:
//
//	sequential   one after the other (reuse of the object)
//	nested       conversion j is started by the consumer of conversion Parent[j] when that consumer has received
//	             At[j] events: same goroutine, from inside the callback (a consumer that converts something else with
//	             the serializer it was handed); a conversion whose moment never comes runs at the end
//	interleaved  every conversion on a goroutine of its own, strictly one running at a time (channels): Sched lists
//	             which conversion is let run next - its first step enters Convert and runs up to its first consumer
//	             call, every further step runs it to its next gate (entry of a consumer call / a container closed)
//
// D: every conversion on its own must satisfy every clause of the property (judge).  M: the scenario goes to the
// model of Model/SerReent.v with the OBSERVED global order of Convert entries and consumer calls (reent_check).

import (
	"fmt"
	"os"
	"strings"

	"github.com/lyraproj/pcore/pcore"
	"github.com/lyraproj/pcore/px"
	"github.com/lyraproj/pcore/serialization"
	"github.com/lyraproj/pcore/types"
	"verifharness/lib"
)

type Reent struct {
	Mode string `json:"mode"`
	// one per conversion; the options (rich_data, local_reference, dedup_level) of Cfgs[0] are those of the
	// serializer, the capabilities are those of each conversion's consumer
	Cfgs   []Config `json:"configs"`
	Parent []int    `json:"parent,omitempty"`
	At     []int    `json:"at,omitempty"`
	Sched  []int    `json:"sched,omitempty"`
}

func (re *Reent) String() string {
	switch re.Mode {
	case "nested":
		return fmt.Sprintf("nested parent=%v at=%v", re.Parent[1:], re.At[1:])
	case "interleaved":
		return fmt.Sprintf("interleaved sched=%v", re.Sched)
	}
	return re.Mode
}

// normalise makes the scenario well formed for k conversions (replay files are taken as they are otherwise)
func (re *Reent) normalise(k int) {
	for len(re.Cfgs) < k {
		re.Cfgs = append(re.Cfgs, re.Cfgs[len(re.Cfgs)-1])
	}
	re.Cfgs = re.Cfgs[:k]
	for j := range re.Cfgs {
		re.Cfgs[j].Rich, re.Cfgs[j].LocalRef, re.Cfgs[j].Dedup = re.Cfgs[0].Rich, re.Cfgs[0].LocalRef, re.Cfgs[0].Dedup
	}
	for len(re.Parent) < k {
		re.Parent = append(re.Parent, 0)
	}
	for len(re.At) < k {
		re.At = append(re.At, 0)
	}
	for j := 1; j < k; j++ {
		if re.Parent[j] < 0 || re.Parent[j] >= j {
			re.Parent[j] = j - 1
		}
	}
	s := re.Sched[:0:0]
	for _, j := range re.Sched {
		if j >= 0 && j < k {
			s = append(s, j)
		}
	}
	re.Sched = s
}

type logEntry struct {
	j     int
	start bool
}

type convRun struct {
	j        int
	v        px.Value
	spec     *Spec
	cfg      Config
	rec      *recorder
	out      outcome
	started  bool
	startIdx int
	nested   bool // started from inside a consumer call of another conversion
	finished bool
	grant    chan struct{}
	yield    chan bool
}

type scenario struct {
	ctxS     px.Context
	ser      serialization.Serializer
	re       *Reent
	convs    []*convRun
	log      []logEntry
	nstarted int
	depth    int
	current  *convRun // interleaved: the conversion whose goroutine holds the token
}

// convert runs conversion c on the shared serializer, on the calling goroutine
func (sc *scenario) convert(c *convRun) {
	c.started, c.startIdx = true, sc.nstarted
	c.nested = sc.depth > 0
	sc.nstarted++
	sc.log = append(sc.log, logEntry{c.j, true})
	ctxD := sc.ctxS.Fork()
	ds := serialization.NewDeserializer(ctxD, px.EmptyMap)
	plain := types.NewCollector()
	c.rec = &recorder{cfg: c.cfg, to: []px.ValueConsumer{ds, plain}}
	c.rec.note = func() { sc.log = append(sc.log, logEntry{c.j, false}) }
	switch sc.re.Mode {
	case "nested":
		c.rec.gate = func() {
			for _, k := range sc.convs {
				if !k.started && sc.re.Parent[k.j] == c.j && len(c.rec.events) >= sc.re.At[k.j] {
					sc.convert(k)
				}
			}
		}
	case "interleaved":
		// the token is handed back by whichever conversion is running on this goroutine (sc.current) - which is the
		// owner of this recorder unless the serializer delivered the call to the consumer of another conversion
		c.rec.gate = func() {
			cur := sc.current
			cur.yield <- false
			<-cur.grant
		}
	}
	sc.depth++
	func() {
		defer func() {
			if e := recover(); e != nil {
				c.out.serFault = panicClass(e)
			}
		}()
		sc.ser.Convert(c.v, c.rec)
	}()
	sc.depth--
	c.rec.gate = nil
	c.out.events, c.out.wf, c.out.refs, c.out.overlapped = c.rec.events, c.rec.wf, c.rec.refs, true
	if c.out.serFault == "" && c.rec.cyclic {
		c.out.resFault = cyclicFault
	} else if c.out.serFault == "" {
		func() {
			defer func() {
				if e := recover(); e != nil {
					c.out.resFault = panicClass(e)
				}
			}()
			c.out.data = plain.Value()
			c.out.result = ds.Value()
		}()
	}
	c.finished = true
}

func (sc *scenario) run() {
	switch sc.re.Mode {
	case "interleaved":
		for _, c := range sc.convs {
			c := c
			c.grant, c.yield = make(chan struct{}), make(chan bool)
			go func() {
				<-c.grant
				// the library keeps its current context per goroutine
				pcore.DoWithParent(sc.ctxS, func(px.Context) { sc.convert(c) })
				c.yield <- true
			}()
		}
		done := make([]bool, len(sc.convs))
		step := func(c *convRun) {
			if done[c.j] {
				return
			}
			sc.current = c
			c.grant <- struct{}{}
			if <-c.yield {
				done[c.j] = true
			}
		}
		for _, j := range sc.re.Sched {
			step(sc.convs[j])
		}
		for _, c := range sc.convs {
			for !done[c.j] {
				step(c)
			}
		}
	default:
		for _, c := range sc.convs {
			if !c.started {
				sc.convert(c)
			}
		}
	}
}

func optsGallina(c Config) string {
	return fmt.Sprintf("(mkopts %s %s %d%%N)", lib.GBool(c.Rich), lib.GBool(c.LocalRef), c.Dedup)
}
func capsGallina(c Config) string {
	return fmt.Sprintf("(mkcaps %s %s %d%%N)", lib.GBool(c.Bin), lib.GBool(c.CK), c.Thr)
}

func newReentFile() *lib.CasesFile {
	return &lib.CasesFile{Imports: []string{"Model.Base", "Model.Ser", "Model.SerAttrs", "Model.SerStruct", "Model.SerReent", "Corr.CorrC10"}, Typ: "rcase",
		Obligations: map[string]string{"reent_model": "reent_mismatches cases"}}
}

// checkScenario runs the values spec.E (built by one builder, so that equal Ids are the same Go object) as the
// conversions of one scenario.  Returns how many conversions were started from inside another one.
func (ck *checker) checkScenario(root px.Context, spec *Spec, registered bool, re *Reent, toCoq bool, family string, verbose bool) (nestedStarts int) {
	res := ck.res
	re.normalise(len(spec.E))
	in := Input{Kind: "c10", Spec: spec, Registered: registered, Cfg: re.Cfgs[0], Reent: re}
	pcore.DoWithParent(root, func(ctxS px.Context) {
		defer func() {
			if e := recover(); e != nil {
				res.Violate(lib.Violation{Clause: "roundtrip-no-fault",
					What:  fmt.Sprintf("%s (%s): the library panicked while the values were prepared or reflected: %s", spec, re, panicClass(e)),
					Input: in})
			}
		}()
		var env *typeEnv
		if spec.hasUserTypes() {
			env = newTypeEnv(ctxS, registered)
			judgeCtx = ctxS
			if registered && spec.hasGoStruct() {
				addGoStructs(ctxS)
			}
		}
		b := newBuilder(ctxS, env)
		sc := &scenario{ctxS: ctxS, re: re, ser: serialization.NewSerializer(ctxS, re.Cfgs[0].options())}
		for j, s := range spec.E {
			var v px.Value
			func() {
				defer func() {
					if e := recover(); e != nil {
						fmt.Fprintf(os.Stderr, "c10: cannot build %s: %v\n", s, e)
					}
				}()
				v = b.build(s)
			}()
			if v == nil {
				res.Count("generator.unbuildable")
				return
			}
			sc.convs = append(sc.convs, &convRun{j: j, v: v, spec: s, cfg: re.Cfgs[j]})
		}
		sc.run()
		res.Count("reentrant.scenarios." + re.Mode)
		res.Count("family." + family)
		failed := false
		for _, c := range sc.convs {
			c := c
			res.Evaluations++
			res.Count("reentrant.conversions")
			if c.nested {
				nestedStarts++
				res.Count("reentrant.conversions-started-inside-a-consumer-call")
			}
			if c.out.refs > 0 {
				res.Nontrivial(fmt.Sprintf("%s|%d|%s|%v", spec, c.j, re, re.Cfgs) + fmt.Sprint(registered))
				res.Count("stream.with-references")
			}
			res.Count(fmt.Sprintf("config.eff-dedup=%d", c.cfg.effDedup()))
			violate := func(clause, what string, tags []string) {
				failed = true
				ck.classify(clause, what, c.spec, c.cfg)
				res.Violate(lib.Violation{Clause: clause,
					What:  fmt.Sprintf("conversion %d of %d on one serializer (%s): %s [%s] %s", c.j+1, len(sc.convs), re, c.spec, c.cfg, what),
					Input: in, Tags: tags})
				if verbose {
					fmt.Printf("FAILS %s (conversion %d): %s\n", clause, c.j+1, what)
				}
			}
			ck.judge(ctxS, c.v, c.spec, c.cfg, c.out, map[Config]px.Value{}, violate)
			if verbose {
				fmt.Printf("conversion %d (entered as number %d)\nvalue   %s\nconfig  %s\nevents  %v\n", c.j+1, c.startIdx+1, c.spec, c.cfg, eventsText(c.out.events))
				if c.out.serFault != "" {
					fmt.Printf("serializer/consumer panicked: %s\n", c.out.serFault)
				} else if c.out.resFault != "" {
					fmt.Printf("deserializer: %s\n", c.out.resFault)
				} else {
					fmt.Printf("result  %s\n", short(c.out.result))
				}
			}
		}
		if verbose {
			fmt.Printf("scenario %s\norder of the calls (conversion numbers; S = Convert entered): %s\n", re, logText(sc))
			if !failed {
				fmt.Println("the implementation satisfies every clause on this input")
			}
		}
		if failed && ck.forced < 20 {
			ck.forced++
			toCoq = true
		}
		if !toCoq {
			return
		}
		// M: conversions in the order in which Convert was entered; one reflector, so that a Go object met in two
		// conversions carries the same identity tag in both
		refl := newReflector(ctxS)
		order := make([]*convRun, len(sc.convs))
		for _, c := range sc.convs {
			order[c.startIdx] = c
		}
		var cs []string
		for _, c := range order {
			mv := refl.toModel(c.v)
			if ok, why := mv.inModel(); !ok {
				res.Count("value.outside-model: " + why)
				return
			}
			var resM *MV
			if c.out.serFault == "" && c.out.resFault == "" {
				resM = newReflector(ctxS).toModel(c.out.result)
				if ok, _ := resM.inModel(); !ok {
					res.Count("result.outside-model")
					return
				}
			}
			cs = append(cs, "RC "+capsGallina(c.cfg)+" "+mv.gallina()+" "+obsGallina(c.out, resM))
			ck.coqCfgs[c.cfg] = true
		}
		var acts []string
		for _, l := range sc.log {
			if l.start {
				acts = append(acts, fmt.Sprintf("RStart %d", sc.convs[l.j].startIdx))
			} else {
				acts = append(acts, fmt.Sprintf("RDeliver %d", sc.convs[l.j].startIdx))
			}
		}
		f, ok := ck.files[family]
		if !ok {
			f = newReentFile()
			ck.files[family] = f
		}
		f.Add("RCase "+optsGallina(re.Cfgs[0])+" "+lib.GList(cs, "rconv")+" "+lib.GList(acts, "raction"), in)
		res.Count("reentrant.scenarios-in-coq")
	})
	return
}

func logText(sc *scenario) string {
	var b strings.Builder
	for _, l := range sc.log {
		if l.start {
			fmt.Fprintf(&b, "S%d ", l.j+1)
		} else {
			fmt.Fprintf(&b, "%d ", l.j+1)
		}
	}
	return b.String()
}

// ---- generators ----

// shared atoms: the same Id = the same Go object in every value of a scenario; strings are keyed by content
func reentAtoms() []func() *Spec {
	return []func() *Spec{
		func() *Spec { return sStr(long25) },
		func() *Spec { return sArr(21, sStr("x"), sInt(1)) },
		func() *Spec { return sHash(22, sStr("k"), sStr(long25)) },
		func() *Spec { return sSens(23, sStr("a")) },
		func() *Spec { return sBin(24, 1, 2) },
		func() *Spec { return sK("semver", 25, "1.2.3-rc1+b5") },
		func() *Spec { return sTimespan(5000000000) },
		func() *Spec { return sObj(26, "My::Pt", sInt(3)) },
		func() *Spec { return sPT(27, "Hash", sTy("Any"), sOT("My::Pt")) },
		func() *Spec { return sHash(28, sInt(1), sStr(long25), sArr(21, sStr("x"), sInt(1)), sInt(2)) },
	}
}

// reentCorpus: arrays [first, other(, third)] of values that have a de-duplicable element in common, at
// different positions of the two streams (equal position, later in the other, earlier in the other)
func reentCorpus() []*Spec {
	out := []*Spec{
		sArr(0, sArr(0, sStr("only in the first value"), sStr(long25), sStr(long25)), sArr(0, sStr(long25))),
		sArr(0, sArr(0, sStr("only in the first value"), sStr(long25)), sArr(0, sStr("p"), sStr("q"), sStr(long25))),
		sArr(0, sHash(0, sStr("first"), sStr("head"), sStr("a"), sArr(21, sStr("x"), sInt(1)), sStr("b"), sArr(21, sStr("x"), sInt(1))),
			sArr(0, sStr("p"), sArr(21, sStr("x"), sInt(1)))),
		// the same value converted again while it is being converted
		sArr(0, sArr(31, sStr(long25), sStr(long25), sArr(21, sStr("x"), sInt(1)), sArr(21, sStr("x"), sInt(1))),
			sArr(31, sStr(long25), sStr(long25), sArr(21, sStr("x"), sInt(1)), sArr(21, sStr("x"), sInt(1)))),
		// nothing in common (control)
		sArr(0, sArr(0, sStr(long20), sStr(long20)), sArr(0, sStr(long25), sStr(long25))),
	}
	for _, x := range reentAtoms() {
		out = append(out,
			sArr(0, sArr(0, sStr("h"), x(), x()), sArr(0, x())),
			sArr(0, sArr(0, x(), sStr("h"), x()), sArr(0, sStr("p"), sStr("q"), x())),
			sArr(0, sArr(0, x(), x()), sArr(0, x(), sStr("t")), sHash(0, sStr("z"), x())))
	}
	return out
}

// reentFamily: bounded-exhaustive: first = every array of length 2..3, other = every array of length 1..2 over
// four atoms (a long string, an array object, a short string that is never de-duplicated at threshold 3+, a Sensitive)
func reentFamily() []*Spec {
	atoms := []func() *Spec{
		func() *Spec { return sStr(long25) },
		func() *Spec { return sArr(21, sStr("x"), sInt(1)) },
		func() *Spec { return sStr("x") },
		func() *Spec { return sSens(23, sStr(long25)) },
	}
	var arrays func(l int) []*Spec
	arrays = func(l int) []*Spec {
		if l == 0 {
			return []*Spec{sArr(0)}
		}
		var r []*Spec
		for _, p := range arrays(l - 1) {
			for _, a := range atoms {
				r = append(r, sArr(0, append(append([]*Spec{}, p.E...), a())...))
			}
		}
		return r
	}
	var out []*Spec
	firsts := append(arrays(2), arrays(3)...)
	others := append(arrays(1), arrays(2)...)
	for _, f := range firsts {
		for _, o := range others {
			out = append(out, sArr(0, f, o))
		}
	}
	return out
}

// configurations for the scenarios: the de-duplicating ones twice as often as the others
func reentConfigs() []Config {
	var r []Config
	for _, c := range allConfigs() {
		if c.effDedup() > 0 || (c.Thr == 3 && c.Bin) {
			r = append(r, c)
		}
	}
	return r
}

func (ck *checker) runReentrant(root px.Context, rng *lib.Rng, scenarios func(*Spec) []bool) {
	thorough := ck.cfg.Thorough()
	cfgs := reentConfigs()
	all := allConfigs()
	n := 0
	pickCfgs := func(r *lib.Rng, k int) []Config {
		cs := []Config{cfgs[r.Intn(len(cfgs))]}
		for j := 1; j < k; j++ {
			cs = append(cs, all[r.Intn(len(all))])
		}
		return cs
	}
	randomSched := func(r *lib.Rng, k int) []int {
		var s []int
		for i, n := 0, r.Intn(40); i < n; i++ {
			j := r.Intn(k)
			// runs of steps of one conversion, so that conversions get somewhere before the next one is let in
			for m := 1 + r.Intn(4); m > 0; m-- {
				s = append(s, j)
			}
		}
		return s
	}
	// 1. corpus: every moment of the first conversion at which the second can be started (nested), the same as
	// a schedule of goroutines, and sequential reuse; a spread of configurations
	for _, s := range reentCorpus() {
		for _, reg := range scenarios(s) {
			r := rng.Fork()
			k := len(s.E)
			nc := 3
			if thorough {
				nc = 12
			}
			for ci := 0; ci < nc; ci++ {
				cs := pickCfgs(r, k)
				coqAt := r.Intn(6)
				for at := 0; at < 40; at++ {
					re := &Reent{Mode: "nested", Cfgs: cs, Parent: make([]int, k), At: make([]int, k)}
					for j := 1; j < k; j++ {
						re.Parent[j], re.At[j] = j-1, at
						if j > 1 {
							re.At[j] = 1 + at%3
						}
					}
					n++
					if ck.checkScenario(root, s, reg, re, ci == 0 && at == coqAt, "reentrant", false) == 0 {
						break // past the end of the first stream: that was sequential reuse
					}
					// the same overlap with the first conversion held on a goroutine of its own: `at` steps, then the others
					if at%2 == ci%2 {
						re2 := &Reent{Mode: "interleaved", Cfgs: cs}
						for i := 0; i <= at; i++ {
							re2.Sched = append(re2.Sched, 0)
						}
						for j := 1; j < k; j++ {
							for i := 0; i < 60; i++ {
								re2.Sched = append(re2.Sched, j)
							}
						}
						n++
						ck.checkScenario(root, s, reg, re2, ci == 1 && at == coqAt, "reentrant", false)
					}
				}
				n++
				ck.checkScenario(root, s, reg, &Reent{Mode: "interleaved", Cfgs: cs, Sched: randomSched(r, k)}, ci == 2, "reentrant", false)
			}
		}
	}
	// 2. bounded-exhaustive pairs, the moment of the overlap and the configuration rotating
	i := 0
	for _, s := range reentFamily() {
		i++
		r := rng.Fork()
		reps := 1
		if thorough {
			reps = 6
		}
		for q := 0; q < reps; q++ {
			cs := pickCfgs(r, 2)
			re := &Reent{Mode: "nested", Cfgs: cs, Parent: []int{0, 0}, At: []int{0, (i + q) % 7}}
			if (i+q)%5 == 0 {
				re = &Reent{Mode: "interleaved", Cfgs: cs, Sched: randomSched(r, 2)}
			}
			n++
			ck.checkScenario(root, s, false, re, q == 0 && i%32 == 0, "reentrant", false)
		}
	}
	// 3. seeded random: 2-3 containers generated with one pool (so that they share elements, or are the same
	// object), random shape of the overlap, random capabilities per consumer
	nRandom := 260
	if thorough {
		nRandom = 6000
	}
	for q := 0; q < nRandom; q++ {
		r := rng.Fork()
		g := newGen(r)
		g.noGs = true
		k := 2 + r.Intn(2)
		s := sArr(0)
		for j := 0; j < k; j++ {
			if r.Chance(1, 2) {
				s.E = append(s.E, g.array(0))
			} else {
				s.E = append(s.E, g.hash(0))
			}
		}
		if s.structOverUserType() {
			continue
		}
		re := &Reent{Cfgs: pickCfgs(r, k)}
		switch r.Intn(5) {
		case 0:
			re.Mode = "sequential"
		case 1, 2:
			re.Mode = "interleaved"
			re.Sched = randomSched(r, k)
		default:
			re.Mode = "nested"
			re.Parent, re.At = make([]int, k), make([]int, k)
			for j := 1; j < k; j++ {
				re.Parent[j], re.At[j] = r.Intn(j), r.Intn(12)
			}
		}
		for _, reg := range scenarios(s) {
			n++
			ck.checkScenario(root, s, reg, re, q%4 == 0, "reentrant", false)
		}
	}
	ck.res.Extra["reentrant_scenarios"] = n
}
