package main

import (
	"fmt"
	"math"
	"strings"

	"github.com/lyraproj/pcore/px"
	"github.com/lyraproj/pcore/types"
	"verifharness/lib"
)

// MV is the model term (coq/Model/Ser.v, type `rvalue str`) of a px.Value: the reflection of the Go
// heap into the tree-with-identity-tags universe of the model. It is produced from the BUILT value with
// the public API only. The classification of "rich" values (what has a serialization string, what is
// an object with an init hash, which type names the loader knows) repeats the questions that
// serializer.go:252-350 asks; the answers are data of the model term (oracles: loader lookup,
// InitHash/AttributesInfo, SerializationString, String) and are not modelled in Rocq.
type MV struct {
	C    string // constructor: VUndef VBool VInt VFloat VStr VDefault VArr VHash VSens VBin VRich VObj ; "" = not in the model
	Id   int
	B    bool
	I    int64
	S    string // VStr: the string; VRich: type name; VBin: unused
	P    string // payload = serialization string (VBin, VRich)
	Disp string // String() (VBin, VRich, VObj)
	Lvl2 bool   // VRich: the type name is emitted at key level (serializer.go:262,275)
	Hint int    // VObj: capacity hint given to AddHash
	Ty   *MV    // VObj: image of the type (a VStr name or the inline type value)
	Ks   []string // VHash: String() of the keys (only non-string keys; "" for string keys)
	E    []*MV  // VArr: elements; VHash: k,v alternating; VSens: content; VObj: attribute values
	An   []string // VObj: attribute names
	// VObjT = a value that travels as an instance of its meta type, attribute by attribute
	// (serializer.go:327-353): E/An hold ALL attributes of the meta type, the trimming of the trailing
	// default-valued optional ones is computed by the model (Model/SerAttrs.v trim)
	Req  int    // VObjT: AttributesInfo().RequiredCount()
	Def  []bool // VObjT: attrs[i].Default(value i)
	Dv   []*MV  // VObjT: the declared default value of attribute i (nil = none: a required attribute)
	Why  string // when C == "": why the value is outside the model
}

type reflector struct {
	ctx  px.Context
	ids  map[px.Value]int
	memo map[px.Value]*MV
	n    int
}

func newReflector(ctx px.Context) *reflector {
	return &reflector{ctx: ctx, ids: map[px.Value]int{}, memo: map[px.Value]*MV{}}
}

// id gives the identity class of v as a key of `map[px.Value]int` (serializer.go:32): Go interface
// equality, i.e. pointer identity for pointer kinds and content for value kinds (Timespan).
func (r *reflector) id(v px.Value) int {
	if i, ok := r.ids[v]; ok {
		return i
	}
	r.n++
	r.ids[v] = r.n
	return r.n
}

func (r *reflector) isKnownType(name string) bool {
	// serializer.go:352
	if strings.HasPrefix(name, `Runtime::`) {
		return true
	}
	_, found := px.Load(r.ctx, px.NewTypedName(px.NsType, name))
	return found
}

func safeString(v px.Value) (s string) {
	defer func() {
		if e := recover(); e != nil {
			s = "<String() panics>"
		}
	}()
	return v.String()
}

func (r *reflector) typeImage(t px.Type) *MV {
	// serializer.go:360 pcoreTypeToData
	name := t.Name()
	if r.isKnownType(name) {
		return &MV{C: "VStr", S: name}
	}
	return r.toModel(t)
}

// toModel reflects v; a value of an identity class met before is the SAME term (same inner tags): the
// serializer never descends twice into one identity class when it de-duplicates, and ignores identities
// when it does not - whereas InitHash() of an object or type builds a fresh hash on every call.
func (r *reflector) toModel(v px.Value) *MV {
	switch v.(type) {
	case nil, *types.UndefValue, px.Integer, px.Float, px.Boolean, px.StringValue, *types.DefaultValue:
		return r.toModel0(v)
	}
	if m, ok := r.memo[v]; ok {
		return m
	}
	m := r.toModel0(v)
	if m.Id != 0 {
		r.memo[v] = m
	}
	return m
}

func (r *reflector) toModel0(v px.Value) *MV {
	if v == nil {
		return &MV{C: "VUndef"}
	}
	switch v := v.(type) {
	case *types.UndefValue:
		return &MV{C: "VUndef"}
	case px.Integer:
		return &MV{C: "VInt", I: v.Int()}
	case px.Float:
		return &MV{C: "VFloat", I: int64(math.Float64bits(v.Float()))}
	case px.Boolean:
		return &MV{C: "VBool", B: v.Bool()}
	case px.StringValue:
		return &MV{C: "VStr", S: v.String()}
	case *types.DefaultValue:
		return &MV{C: "VDefault"}
	case *types.Hash:
		m := &MV{C: "VHash", Id: r.id(v)}
		v.EachPair(func(k, e px.Value) {
			kd := ""
			if _, ok := k.(px.StringValue); !ok {
				kd = safeString(k)
			}
			m.Ks = append(m.Ks, kd)
			m.E = append(m.E, r.toModel(k), r.toModel(e))
		})
		return m
	case *types.Array:
		m := &MV{C: "VArr", Id: r.id(v)}
		v.Each(func(e px.Value) { m.E = append(m.E, r.toModel(e)) })
		return m
	case *types.Sensitive:
		return &MV{C: "VSens", Id: r.id(v), E: []*MV{r.toModel(v.Unwrap())}}
	case *types.Binary:
		return &MV{C: "VBin", Id: r.id(v), P: v.SerializationString(), Disp: safeString(v)}
	}
	// serializer.go:252 valueToDataHash
	if _, ok := v.(*types.RuntimeValue); ok {
		return &MV{Why: "RuntimeValue"}
	}
	switch t := v.(type) {
	case *types.TypeAliasType:
		if r.isKnownType(t.Name()) {
			return &MV{C: "VRich", Id: r.id(v), S: "Type", Lvl2: true, P: t.Name(), Disp: safeString(v)}
		}
	case px.ObjectType:
		if r.isKnownType(t.Name()) {
			return &MV{C: "VRich", Id: r.id(v), S: "Type", Lvl2: true, P: t.String(), Disp: safeString(v)}
		}
	}
	vt := v.PType()
	rich := func() *MV {
		ti := r.typeImage(vt)
		if ti.C != "VStr" {
			return &MV{Why: "string-serializable value whose type name is unknown to the loader"}
		}
		return &MV{C: "VRich", Id: r.id(v), S: ti.S, P: v.(px.SerializeAsString).SerializationString(), Disp: safeString(v)}
	}
	if tx, ok := v.(px.Type); ok {
		if ss, ok := v.(px.SerializeAsString); ok && ss.CanSerializeAsString() {
			return rich()
		}
		vt = tx.MetaType()
	}
	if ss, ok := v.(px.SerializeAsString); ok && ss.CanSerializeAsString() {
		return rich()
	}
	if po, ok := v.(px.PuppetObject); ok {
		if _, isType := v.(px.Type); !isType {
			if ot, ok := vt.(px.ObjectType); ok {
				// an INSTANCE of an Object type (attributeSlice, or the wrapper of a Go struct): only the questions
				// are asked here (attribute list, the value each attribute holds - for a Go struct: the field -, is
				// it the default); which of them the init hash holds is computed by the model (Model/SerStruct.v)
				return r.instance(v, ot)
			}
		}
		m := &MV{C: "VObj", Id: r.id(v), Hint: 2, Disp: safeString(v)}
		m.Ty = r.typeImage(vt)
		bad := false
		po.InitHash().EachPair(func(k, e px.Value) {
			if ks, ok := k.(px.StringValue); ok {
				m.An = append(m.An, ks.String())
			} else {
				bad = true
			}
			m.E = append(m.E, r.toModel(e))
		})
		if bad {
			return &MV{Why: "init hash with a non-string key"}
		}
		return m
	}
	if ot, ok := vt.(px.ObjectType); ok {
		// serializer.go:327-353: only the questions are asked here (attribute list, required count, the
		// value of each attribute, is it the default); what is emitted is computed by the model
		ai := ot.AttributesInfo()
		attrs := ai.Attributes()
		args := make([]px.Value, len(attrs))
		why := ""
		func() {
			defer func() {
				if e := recover(); e != nil {
					why = "an attribute of " + vt.Name() + " cannot be read"
				}
			}()
			for i, a := range attrs {
				args[i] = a.Get(v)
			}
		}()
		if why != "" {
			return &MV{Why: why}
		}
		m := &MV{C: "VObjT", Id: r.id(v), Req: ai.RequiredCount(), Disp: safeString(v)}
		m.Ty = r.typeImage(vt)
		for i, a := range args {
			m.An = append(m.An, attrs[i].Name())
			m.E = append(m.E, r.toModel(a))
			m.Def = append(m.Def, attrs[i].Default(a))
			if attrs[i].HasValue() {
				m.Dv = append(m.Dv, r.toModel(attrs[i].Value()))
			} else {
				m.Dv = append(m.Dv, nil)
			}
		}
		return m
	}
	return &MV{Why: fmt.Sprintf("%T has no rich-data encoding", v)}
}

// instance reflects an object instance as VObjS: ALL attributes with their default flags and declared defaults
func (r *reflector) instance(v px.Value, ot px.ObjectType) *MV {
	ai := ot.AttributesInfo()
	attrs := ai.Attributes()
	args := make([]px.Value, len(attrs))
	why := ""
	func() {
		defer func() {
			if e := recover(); e != nil {
				why = "an attribute of " + ot.Name() + " cannot be read"
			}
		}()
		for i, a := range attrs {
			args[i] = a.Get(v)
		}
	}()
	if why != "" {
		return &MV{Why: why}
	}
	m := &MV{C: "VObjS", Id: r.id(v), Req: ai.RequiredCount(), Disp: safeString(v)}
	m.Ty = r.typeImage(ot)
	for i, a := range args {
		m.An = append(m.An, attrs[i].Name())
		m.E = append(m.E, r.toModel(a))
		m.Def = append(m.Def, attrs[i].Default(a))
		if attrs[i].HasValue() {
			m.Dv = append(m.Dv, r.toModel(attrs[i].Value()))
		} else {
			m.Dv = append(m.Dv, nil)
		}
	}
	return m
}

// firstInstance finds the first object instance (VObjS) of m in pre-order and the node at the same place of r
// (nil when r has another shape there)
func firstInstance(m, r *MV) (*MV, *MV) {
	if m == nil {
		return nil, nil
	}
	if m.C == "VObjS" {
		return m, r
	}
	for i, e := range m.E {
		var re *MV
		if r != nil && r.C == m.C && i < len(r.E) {
			re = r.E[i]
		}
		if a, b := firstInstance(e, re); a != nil {
			return a, b
		}
	}
	return nil, nil
}

// inModel tells whether the whole term is expressible in the model
func (m *MV) inModel() (bool, string) {
	if m.C == "" {
		return false, m.Why
	}
	if m.Ty != nil {
		if ok, why := m.Ty.inModel(); !ok {
			return false, why
		}
	}
	for _, e := range m.E {
		if ok, why := e.inModel(); !ok {
			return false, why
		}
	}
	for _, e := range m.Dv {
		if e != nil {
			if ok, why := e.inModel(); !ok {
				return false, why
			}
		}
	}
	return true, ""
}

// gallina prints the term of type `rvalue str`
func (m *MV) gallina() string {
	var b strings.Builder
	m.g(&b)
	return b.String()
}

func (m *MV) g(b *strings.Builder) {
	switch m.C {
	case "VUndef", "VDefault":
		b.WriteString(m.C)
	case "VBool":
		b.WriteString("(VBool " + lib.GBool(m.B) + ")")
	case "VInt":
		b.WriteString("(VInt " + lib.GZ(m.I) + ")")
	case "VFloat":
		b.WriteString("(VFloat " + lib.GZ(m.I) + ")")
	case "VStr":
		b.WriteString("(VStr " + gStr(m.S) + ")")
	case "VArr":
		fmt.Fprintf(b, "(VArr %d%%N ", m.Id)
		gList(b, len(m.E), "@rvalue str", func(i int) { m.E[i].g(b) })
		b.WriteString(")")
	case "VHash":
		fmt.Fprintf(b, "(VHash %d%%N ", m.Id)
		gList(b, len(m.E)/2, "@rvalue str * str * @rvalue str", func(i int) {
			b.WriteString("(")
			m.E[2*i].g(b)
			b.WriteString(", " + gStr(m.Ks[i]) + ", ")
			m.E[2*i+1].g(b)
			b.WriteString(")")
		})
		b.WriteString(")")
	case "VSens":
		fmt.Fprintf(b, "(VSens %d%%N ", m.Id)
		m.E[0].g(b)
		b.WriteString(")")
	case "VBin":
		fmt.Fprintf(b, "(VBin %d%%N %s %s)", m.Id, gStr(m.P), gStr(m.Disp))
	case "VRich":
		fmt.Fprintf(b, "(VRich %d%%N %s %s %s %s)", m.Id, gStr(m.S), lib.GBool(m.Lvl2), gStr(m.P), gStr(m.Disp))
	case "VObj":
		fmt.Fprintf(b, "(VObj %d%%N ", m.Id)
		m.Ty.g(b)
		fmt.Fprintf(b, " %d%%nat ", m.Hint)
		gList(b, len(m.E), "str * @rvalue str", func(i int) {
			b.WriteString("(" + gStr(m.An[i]) + ", ")
			m.E[i].g(b)
			b.WriteString(")")
		})
		b.WriteString(" " + gStr(m.Disp) + ")")
	case "VObjT":
		fmt.Fprintf(b, "(VObjT %d%%N ", m.Id)
		m.Ty.g(b)
		fmt.Fprintf(b, " %d%%nat ", m.Req)
		m.attrList(b)
		b.WriteString(" " + gStr(m.Disp) + ")")
	case "VObjS":
		fmt.Fprintf(b, "(VObjS %d%%N ", m.Id)
		m.Ty.g(b)
		b.WriteString(" ")
		m.attrList(b)
		b.WriteString(" " + gStr(m.Disp) + ")")
	default:
		panic("gallina: value outside the model: " + m.Why)
	}
}

// attrList prints the `list (@attr str)` of a VObjT
func (m *MV) attrList(b *strings.Builder) {
	gList(b, len(m.E), "@attr str", func(i int) {
		b.WriteString("(mkattr " + gStr(m.An[i]) + " ")
		m.E[i].g(b)
		b.WriteString(" " + lib.GBool(m.Def[i]) + ")")
	})
}

// declList prints the `list (@decl str)` of a VObjT: name and declared default of every attribute
func (m *MV) declList(b *strings.Builder) {
	gList(b, len(m.E), "@decl str", func(i int) {
		b.WriteString("(mkdecl " + gStr(m.An[i]) + " ")
		if m.Dv[i] == nil {
			b.WriteString("None")
		} else {
			b.WriteString("(Some ")
			m.Dv[i].pe(b)
			b.WriteString(")")
		}
		b.WriteString(")")
	})
}

func gList(b *strings.Builder, n int, typ string, elem func(i int)) {
	if n == 0 {
		b.WriteString("(@nil (" + typ + "))")
		return
	}
	b.WriteString("[")
	for i := 0; i < n; i++ {
		if i > 0 {
			b.WriteString("; ")
		}
		elem(i)
	}
	b.WriteString("]")
}

// erased prints `erase m : pvalue str` — what a deserialized value is compared as: no identities, no
// display strings, Binary as PRich "Binary".
func (m *MV) erased() string {
	var b strings.Builder
	m.pe(&b)
	return b.String()
}

func (m *MV) pe(b *strings.Builder) {
	switch m.C {
	case "VUndef":
		b.WriteString("PUndef")
	case "VDefault":
		b.WriteString("PDefault")
	case "VBool":
		b.WriteString("(PBool " + lib.GBool(m.B) + ")")
	case "VInt":
		b.WriteString("(PInt " + lib.GZ(m.I) + ")")
	case "VFloat":
		b.WriteString("(PFloat " + lib.GZ(m.I) + ")")
	case "VStr":
		b.WriteString("(PStr " + gStr(m.S) + ")")
	case "VArr":
		b.WriteString("(PArr ")
		gList(b, len(m.E), "@pvalue str", func(i int) { m.E[i].pe(b) })
		b.WriteString(")")
	case "VHash":
		b.WriteString("(PHash ")
		gList(b, len(m.E)/2, "@pvalue str * @pvalue str", func(i int) {
			b.WriteString("(")
			m.E[2*i].pe(b)
			b.WriteString(", ")
			m.E[2*i+1].pe(b)
			b.WriteString(")")
		})
		b.WriteString(")")
	case "VSens":
		b.WriteString("(PSens ")
		m.E[0].pe(b)
		b.WriteString(")")
	case "VBin":
		fmt.Fprintf(b, "(PRich %s %s)", gStr("Binary"), gStr(m.P))
	case "VRich":
		fmt.Fprintf(b, "(PRich %s %s)", gStr(m.S), gStr(m.P))
	case "VObj":
		b.WriteString("(PObj ")
		m.Ty.pe(b)
		b.WriteString(" ")
		gList(b, len(m.E), "@pvalue str * @pvalue str", func(i int) {
			b.WriteString("(PStr " + gStr(m.An[i]) + ", ")
			m.E[i].pe(b)
			b.WriteString(")")
		})
		b.WriteString(")")
	case "VObjT", "VObjS":
		// what the attribute list is trimmed to is the model's business
		b.WriteString("(@erase str ")
		m.g(b)
		b.WriteString(")")
	default:
		panic("erased: value outside the model: " + m.Why)
	}
}

// gStr prints a byte string as a term of type str. Printable ASCII goes as a Coq string literal under
// Corr.CorrC10.b (= Model.Ser.bytes_of; one token for the elaborator instead of one number per byte,
// which is what the time of a cases file goes into); anything else as the list of bytes.
func gStr(s string) string {
	if len(s) == 0 {
		return "(@nil N)"
	}
	for i := 0; i < len(s); i++ {
		if s[i] < 32 || s[i] > 126 || s[i] == '"' {
			return lib.GStr(s)
		}
	}
	return `(b "` + s + `")`
}
