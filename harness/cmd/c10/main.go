// c10: rich-data serialization round-trips under every option and consumer capability.
//
// For every generated value (corpus, bounded-exhaustive sharing families, seeded random) and every
// point of the matrix {rich_data} x {local_reference} x {dedup 0,1,2} x {binary} x {complex keys} x
// {string threshold 0,3,20,10^6} the real serializer streams into a recording px.ValueConsumer that
// feeds the real deserializer.  D: the stream clauses and the round trip are evaluated directly on what
// the implementation did.  M: value, options, observed events and observed result are written as
// Gallina terms; coq/Corr/CorrC10.v recomputes events and result with the model.  Values that travel as an
// instance of their meta type (parameterized types over user types, spec kind ptype) are written with ALL
// their attributes: the trailing-default trimming and the way back are the model's (Model/SerAttrs.v).  Object
// instances (built by the constructor of an Object type, or px.Wrap of a Go struct registered through the Reflector,
// gostruct.go) are written with ALL their attributes as well: which of them the init hash holds and what InitFromHash
// of the consumer rebuilds (fill, trim again, set every field) are the model's (Model/SerStruct.v).
package main

import (
	"encoding/json"
	"fmt"
	"os"
	"path/filepath"
	"runtime/pprof"
	"strings"

	"github.com/lyraproj/issue/issue"
	"github.com/lyraproj/pcore/pcore"
	"github.com/lyraproj/pcore/px"
	"verifharness/lib"
)

type nullLogger struct{}

func (nullLogger) Log(level px.LogLevel, args ...px.Value)                     {}
func (nullLogger) Logf(level px.LogLevel, format string, args ...interface{}) {}
func (nullLogger) LogIssue(i issue.Reported)                                   {}

// Input is what a replay file holds: the value, the scenario of the user types, and the configuration.
type Input struct {
	Kind       string `json:"kind"` // "c10"
	Spec       *Spec  `json:"spec"`
	Registered bool   `json:"user_types_registered"`
	Cfg        Config `json:"config"`
	// several conversions on ONE Serializer (reent.go): Spec is then the array of the values converted
	Reent *Reent `json:"reentrant,omitempty"`
}

type checker struct {
	cfg     *lib.Config
	res     *lib.Result
	files   map[string]*lib.CasesFile
	forced  int // failing cases forced into the Coq files
	samples int
	coqCfgs map[Config]bool    // configurations met by the cases evaluated in Coq
	classes map[string]*vclass // every violation, grouped by clause and the kinds of value involved (triage aid)
}

type vclass struct {
	Count   int    `json:"count"`
	Example string `json:"example"`
}

func (ck *checker) classify(clause, what string, spec *Spec, cfg Config) {
	kinds := map[string]bool{}
	spec.kinds(kinds)
	ks := []string{}
	for _, k := range []string{"sens", "bin", "regexp", "semver", "semverrange", "timespan", "timestamp", "uri", "type", "ptype", "obj", "objtype", "alias", "default", "hash"} {
		if kinds[k] {
			ks = append(ks, k)
		}
	}
	key := fmt.Sprintf("%s rich=%v kinds=%v", clause, cfg.Rich, ks)
	c := ck.classes[key]
	if c == nil {
		c = &vclass{}
		ck.classes[key] = c
		c.Example = fmt.Sprintf("%s [%s] %s", spec, cfg, what)
	}
	c.Count++
}

func newCasesFile() *lib.CasesFile {
	// a case = the run (value, options, observed events and result) and, for a value of the attribute route,
	// all its attributes with those of the deserialized value (Corr.CorrC10 xcase)
	return &lib.CasesFile{Imports: []string{"Model.Base", "Model.Ser", "Model.SerAttrs", "Model.SerStruct", "Corr.CorrC10"}, Typ: "xcase",
		Obligations: map[string]string{"ser_model": "ser_mismatches cases", "attrs_model": "attrs_mismatches cases",
			"struct_model": "struct_mismatches cases"}}
}

// acaseGallina: (required count, all attributes of the value with their default flags, the declared
// defaults, what the attributes of the deserialized value are)
func acaseGallina(mv *MV, obs string) string { return xcaseGallina("mkacase", mv, obs) }

func xcaseGallina(ctor string, mv *MV, obs string) string {
	var b strings.Builder
	fmt.Fprintf(&b, "(%s %d%%nat ", ctor, mv.Req)
	mv.attrList(&b)
	b.WriteString(" ")
	mv.declList(&b)
	b.WriteString(" " + obs + ")")
	return b.String()
}

func (ck *checker) file(family string) *lib.CasesFile {
	if f, ok := ck.files[family]; ok {
		return f
	}
	f := newCasesFile()
	ck.files[family] = f
	return f
}

func caseGallina(mv *MV, cfg Config, out outcome, resM *MV) string {
	return "(" + cfg.gallina() + ", " + mv.gallina() + ", " + obsGallina(out, resM) + ")"
}

// obsGallina: what one consumer observed (Corr.CorrC10 obs)
func obsGallina(out outcome, resM *MV) string {
	obs := ""
	if out.serFault != "" {
		obs = "(ObsSerFault " + eventsGallina(out.events) + ")"
	} else {
		r := "RFault"
		switch {
		case out.resFault == "":
			r = "(ROk " + resM.erased() + ")"
		case out.resFault[:5] == "error":
			r = "RErr"
		}
		obs = "(ObsOk " + eventsGallina(out.events) + " " + r + ")"
	}
	return obs
}

// checkValue runs one value (in one scenario) through the given configurations. emit(i) tells whether
// configuration i goes to the Coq file of `family`.
func (ck *checker) checkValue(root px.Context, spec *Spec, registered bool, cfgs []Config, emit func(i int) bool, family string, verbose bool) {
	res := ck.res
	pcore.DoWithParent(root, func(ctxS px.Context) {
		// a panic of the library outside Convert/Value (while the value is built or reflected) must not
		// end the run without a replayable input
		defer func() {
			if e := recover(); e != nil && len(cfgs) > 0 {
				res.Violate(lib.Violation{Clause: "roundtrip-no-fault",
					What:  fmt.Sprintf("%s: the library panicked while the value was prepared or reflected: %s", spec, panicClass(e)),
					Input: Input{Kind: "c10", Spec: spec, Registered: registered, Cfg: cfgs[0]}})
			}
		}()
		var env *typeEnv
		if spec.hasUserTypes() {
			env = newTypeEnv(ctxS, registered)
			judgeCtx = ctxS
			if registered && spec.hasGoStruct() {
				addGoStructs(ctxS)
			}
		}
		var v px.Value
		func() {
			defer func() {
				if e := recover(); e != nil {
					fmt.Fprintf(os.Stderr, "c10: cannot build %s: %v\n", spec, e)
				}
			}()
			v = newBuilder(ctxS, env).build(spec)
		}()
		if v == nil {
			res.Count("generator.unbuildable")
			return
		}
		refl := newReflector(ctxS)
		mv := refl.toModel(v)
		inModel, why := mv.inModel()
		if !inModel {
			res.Count("value.outside-model: " + why)
		}
		kinds := map[string]bool{}
		spec.kinds(kinds)
		for k := range kinds {
			res.Count("value.has." + k)
		}
		res.Count("family." + family)
		if spec.hasUserTypes() {
			res.Count(fmt.Sprintf("scenario.user-types-registered=%v", registered))
		}
		if mv.C == "VObjT" {
			res.Count("value.root-travels-by-attributes")
		}
		baseline := map[Config]px.Value{} // Data tree of the reference-free run per (rich,bin,ck,thr)
		for i, cfg := range cfgs {
			in := Input{Kind: "c10", Spec: spec, Registered: registered, Cfg: cfg}
			out := runOne(ctxS, v, cfg)
			res.Evaluations++
			if out.refs > 0 {
				res.Nontrivial(spec.String() + "|" + cfg.String() + fmt.Sprint(registered))
				res.Count("stream.with-references")
			}
			res.Count(fmt.Sprintf("config.eff-dedup=%d", cfg.effDedup()))
			failed := false
			violate := func(clause, what string, tags []string) {
				failed = true
				ck.classify(clause, what, spec, cfg)
				res.Violate(lib.Violation{Clause: clause, What: fmt.Sprintf("%s [%s] %s", spec, cfg, what), Input: in, Tags: tags})
				if verbose {
					fmt.Printf("FAILS %s: %s\n", clause, what)
				}
			}
			ck.judge(ctxS, v, spec, cfg, out, baseline, violate)
			if verbose {
				fmt.Printf("value   %s\nconfig  %s\nevents  %v\n", spec, cfg, eventsText(out.events))
				if out.serFault != "" {
					fmt.Printf("serializer/consumer panicked: %s\n", out.serFault)
				} else if out.resFault != "" {
					fmt.Printf("deserializer: %s\n", out.resFault)
				} else {
					fmt.Printf("result  %s\n", short(out.result))
				}
				if !failed {
					fmt.Println("the implementation satisfies every clause on this input")
				}
			}
			toCoq := emit(i)
			if failed && ck.forced < 20 {
				ck.forced++
				toCoq = true
			}
			if toCoq && inModel {
				var resM *MV
				ok := true
				if out.serFault == "" && out.resFault == "" {
					resM = newReflector(ctxS).toModel(out.result)
					if okm, _ := resM.inModel(); !okm {
						ok = false
						res.Count("result.outside-model")
					}
				}
				if ok {
					// the attribute route: all attributes of the original and of the deserialized value go to the
					// model (trim / fill of Model/SerAttrs.v)
					ac := "None"
					if mv.C == "VObjT" && cfg.Rich && resM != nil {
						obs := "AOther"
						if resM.C == "VObjT" {
							var b strings.Builder
							gList(&b, len(resM.E), "@pvalue str", func(i int) { resM.E[i].pe(&b) })
							obs = "(AObs " + b.String() + ")"
						}
						ac = "(Some " + acaseGallina(mv, obs) + ")"
						res.Count("attribute-route.cases-in-coq")
					}
					line := "X " + caseGallina(mv, cfg, out, resM) + " " + ac
					// object instances: all attributes of the first instance and of what stands at its place in the
					// deserialized value go to the model (init hash / InitFromHash of Model/SerStruct.v)
					if inst, back := firstInstance(mv, resM); ac == "None" && inst != nil && cfg.Rich && resM != nil {
						obs := "SOther"
						if back != nil && back.C == "VObjS" {
							var b strings.Builder
							gList(&b, len(back.E), "@pvalue str", func(i int) { back.E[i].pe(&b) })
							obs = "(SObs " + b.String() + ")"
						}
						line = "XS " + caseGallina(mv, cfg, out, resM) + " " + xcaseGallina("mkscase", inst, obs)
						res.Count("object-instance.cases-in-coq")
					}
					ck.file(family).Add(line, in)
					ck.coqCfgs[cfg] = true
				}
			}
			if res.Evaluations%4099 == 1 && ck.samples < 6 {
				ck.samples++
				s := map[string]interface{}{"value": spec.String(), "config": cfg.String(), "events": eventsText(out.events)}
				if out.result != nil {
					s["result"] = short(out.result)
				}
				res.Sample(s)
			}
		}
	})
}

// judge evaluates every clause of the property on one observed conversion of v under cfg (out): the stream
// clauses noted by the recorder, no fault, the references resolve to the values of the reference-free stream,
// and the deserialized value equals the original (its documented lossy image without rich_data).
// baseline caches the Data tree of the reference-free run of v per (rich, bin, ck, thr).
func (ck *checker) judge(ctxS px.Context, v px.Value, spec *Spec, cfg Config, out outcome, baseline map[Config]px.Value,
	violate func(clause, what string, tags []string)) {
	res := ck.res
	for _, w := range out.wf {
		for j := 0; j < len(w); j++ {
			if w[j] == '|' {
				violate(w[:j], w[j+1:], nil)
				break
			}
		}
	}
	var tags, faultTags []string
	if cfg.Rich && spec.structOverUserType() {
		faultTags = []string{"struct-type-attribute-route"}
		res.Count("value.struct-type-over-user-type")
	}
	expected := v
	if !cfg.Rich {
		expected = degradeRef(v, cfg.Bin, cfg.CK)
	}
	if ptypeKeyHash(expected) {
		tags = []string{"user-hash-ptype-key"}
		res.Count("value.user-hash-with-__ptype-key")
	}
	if cfg.Rich && spec.coarseDefault() {
		tags = append(tags, "object-default-coarse-equals")
		res.Count("value.object-default-with-coarse-equals")
	}
	switch {
	case out.serFault != "":
		violate("roundtrip-no-fault", "serializer/consumer panicked: "+out.serFault, faultTags)
	case out.resFault != "":
		violate("roundtrip-no-fault", "deserializer panicked: "+out.resFault, append(tags, faultTags...))
	default:
		bk := cfg
		bk.LocalRef, bk.Dedup = false, 0
		base, ok := baseline[bk]
		if !ok {
			if cfg == bk && !out.overlapped {
				base = out.data
			} else if bo := runOne(ctxS, v, bk); bo.serFault == "" && bo.resFault == "" {
				base = bo.data
			}
			baseline[bk] = base
		}
		if base != nil {
			if d := dataEq(base, out.data, ""); d != "" {
				violate("stream-ref-equal-value", "with the references resolved the stream differs from the reference-free stream at "+d, nil)
			}
		}
		if d := deepEq(expected, out.result, ""); d != "" {
			violate("roundtrip-equal", "deserialized value differs from the "+map[bool]string{true: "original", false: "documented lossy image"}[cfg.Rich]+" at "+d, tags)
		}
	}
}

func main() {
	cfg := lib.ParseFlags()
	res := lib.NewResult("C10")
	res.Rule = "one evaluation = one (value, user-type scenario, configuration) run of serializer -> recording consumer -> " +
		"deserializer with all clauses checked; non-trivial = the emitted stream contains at least one back-reference; " +
		"distinct = distinct (value, scenario, configuration)"
	pcore.SetLogger(nullLogger{})
	if pf := os.Getenv("C10_CPUPROFILE"); pf != "" {
		f, _ := os.Create(pf)
		_ = pprof.StartCPUProfile(f)
		defer pprof.StopCPUProfile()
	}
	ck := &checker{cfg: cfg, res: res, files: map[string]*lib.CasesFile{}, classes: map[string]*vclass{}, coqCfgs: map[Config]bool{}}
	pcore.Do(func(root px.Context) {
		if cfg.Replay != "" {
			ck.replay(root)
		} else {
			ck.run(root, lib.NewRng(cfg.Seed))
		}
	})
	names := []string{"corpus", "exhaustive", "structs", "random_a", "random_b", "random_c", "random_d", "reentrant", "replay"}
	for _, n := range names {
		if f, ok := ck.files[n]; ok {
			res.CorrFiles = append(res.CorrFiles, f.WriteTo(cfg.Out, "cases_"+n))
		}
	}
	res.Write(cfg)
	if b, err := json.MarshalIndent(ck.classes, "", " "); err == nil {
		_ = os.WriteFile(filepath.Join(cfg.Out, "violation_classes.json"), b, 0o644)
	}
}

func (ck *checker) replay(root px.Context) {
	for _, raw := range lib.ReplayInputs(ck.cfg.Replay) {
		var in Input
		lib.Remarshal(raw, &in)
		if in.Kind != "c10" || in.Spec == nil {
			continue
		}
		if in.Reent != nil && len(in.Reent.Cfgs) > 0 && in.Spec.K == "arr" && len(in.Spec.E) > 0 {
			ck.checkScenario(root, in.Spec, in.Registered, in.Reent, true, "replay", true)
			continue
		}
		ck.checkValue(root, in.Spec, in.Registered, []Config{in.Cfg}, func(int) bool { return true }, "replay", true)
	}
	ck.file("replay")
}

func (ck *checker) run(root px.Context, rng *lib.Rng) {
	cfgs := allConfigs()
	thorough := ck.cfg.Thorough()
	scenarios := func(s *Spec) []bool {
		if s.needsLoader() {
			return []bool{true}
		}
		if s.hasUserTypes() {
			return []bool{true, false}
		}
		return []bool{false}
	}
	pick := func(r *lib.Rng, k, n int) func(int) bool {
		chosen := map[int]bool{}
		for len(chosen) < k && len(chosen) < n {
			chosen[r.Intn(n)] = true
		}
		return func(i int) bool { return chosen[i] }
	}
	// one configuration with rich_data (only those reach the attribute route)
	pickRich := func(r *lib.Rng, sel []Config) func(int) bool {
		var rich []int
		for i, c := range sel {
			if c.Rich {
				rich = append(rich, i)
			}
		}
		if len(rich) == 0 {
			return func(int) bool { return false }
		}
		k := rich[r.Intn(len(rich))]
		return func(i int) bool { return i == k }
	}
	// 1. corpus
	for _, s := range corpus() {
		for _, reg := range scenarios(s) {
			ck.checkValue(root, s, reg, cfgs, pick(rng.Fork(), 5, len(cfgs)), "corpus", false)
		}
	}
	// 1b. matrix sweep: two values that exercise every option and capability (two Sensitive and two Binary
	// with repeats and strings equal to their degraded forms, a rich scalar, Default, strings around the
	// thresholds as values and as keys, a hash with non-string keys) go through the MODEL under all 192
	// configurations, so that the model tie itself covers the whole matrix on every run.
	for _, s := range matrixValues() {
		ck.checkValue(root, s, false, cfgs, func(int) bool { return true }, "exhaustive", false)
	}
	// 1c. bounded-exhaustive family of the attribute route: parameterized types over user types, every
	// placement of default-valued attributes; the options do not reach into the trimming, so a spread of
	// 12 configurations (all of them for every eighth value) is run; one rich-data run per value goes to the
	// model (in the quick tier: of every second value in the scenario with inline type definitions)
	na := 0
	for _, s := range attributeFamily() {
		na++
		sel := cfgs
		if !thorough && na%8 != 0 {
			sel = nil
			for i, c := range cfgs {
				if (i+na)%16 == 0 {
					sel = append(sel, c)
				}
			}
		}
		for _, reg := range scenarios(s) {
			emit := pickRich(rng.Fork(), sel)
			if !thorough && !reg && na%2 == 0 {
				emit = func(int) bool { return false }
			}
			ck.checkValue(root, s, reg, sel, emit, "exhaustive", false)
		}
	}
	ck.res.Extra["attribute_family_values"] = na
	// 1d. bounded-exhaustive family of object instances backed by Go structs (gostruct.go): every placement of
	// default-valued attributes, alone and nested/shared; 12 configurations each (all of them for every sixteenth
	// value); one rich-data run per value goes to the model
	ns := 0
	for _, s := range structFamily() {
		ns++
		sel := cfgs
		if !thorough && ns%16 != 0 {
			sel = nil
			for i, c := range cfgs {
				if (i+ns)%16 == 0 {
					sel = append(sel, c)
				}
			}
		}
		for _, reg := range scenarios(s) {
			ck.checkValue(root, s, reg, sel, pickRich(rng.Fork(), sel), "structs", false)
		}
	}
	ck.res.Extra["struct_family_values"] = ns
	// 2. bounded-exhaustive sharing families; in the quick tier the longer arrays run a rotating quarter
	// of the matrix each (every configuration is met by a quarter of the values)
	maxLen := 3
	coqEvery := 3
	if thorough {
		maxLen = 4
		coqEvery = 8
	}
	n := 0
	for _, s := range exhaustiveFamily(maxLen) {
		n++
		k := 0
		if n%coqEvery == 0 {
			k = 1
		}
		sel := cfgs
		if !thorough && len(s.E) > 2 {
			sel = nil
			for i, c := range cfgs {
				if (i+n)%4 == 0 {
					sel = append(sel, c)
				}
			}
		}
		ck.checkValue(root, s, false, sel, pick(rng.Fork(), k, len(sel)), "exhaustive", false)
	}
	ck.res.Extra["exhaustive_values"] = n
	ck.res.Extra["exhaustive_max_len"] = maxLen
	ck.res.Extra["configurations"] = len(cfgs)
	defer func() { ck.res.Extra["configurations_in_coq_cases"] = len(ck.coqCfgs) }()
	// 3. seeded random; quick tier: a random third of the matrix per value
	// the Coq cases of the random family go to 2 (quick) or 4 (thorough) files evaluated in parallel by the
	// driver (at most ~1 500 cases per file)
	nRandom, perValue := 260, 2
	randomFiles := []string{"random_a", "random_b"}
	if thorough {
		nRandom, perValue = 4000, 1
		randomFiles = []string{"random_a", "random_b", "random_c", "random_d"}
	}
	for i := 0; i < nRandom; i++ {
		r := rng.Fork()
		g := newGen(r)
		s := g.top()
		sel := cfgs
		if !thorough {
			sel = nil
			off := r.Intn(3)
			for i, c := range cfgs {
				if (i+off)%3 == 0 {
					sel = append(sel, c)
				}
			}
		}
		for _, reg := range scenarios(s) {
			ck.checkValue(root, s, reg, sel, pick(r, perValue, len(sel)), randomFiles[i%len(randomFiles)], false)
		}
	}
	// 4. several conversions on one Serializer object (reent.go)
	ck.runReentrant(root, rng.Fork(), scenarios)
}
