package main

import (
	"encoding/hex"
	"fmt"
	"math"
	"strings"
	"time"

	"github.com/lyraproj/pcore/px"
	"github.com/lyraproj/pcore/types"
	"github.com/lyraproj/semver/semver"
)

// Spec is the replayable description of one input value. Specs with the same non-zero Id are built
// once and the SAME Go pointer is placed at every occurrence (deliberate sharing). The identity tags
// of the model term are NOT taken from here but from the actual Go identities of the built value
// (see model.go), so singletons and value-typed scalars are reflected faithfully.
type Spec struct {
	K  string  `json:"k"`
	Id int     `json:"id,omitempty"`
	B  bool    `json:"b,omitempty"`
	I  int64   `json:"i,omitempty"`
	J  int64   `json:"j,omitempty"`
	S  string  `json:"s,omitempty"`
	E  []*Spec `json:"e,omitempty"`
}

func (s *Spec) String() string {
	switch s.K {
	case "undef", "default":
		return s.K
	case "bool":
		return fmt.Sprint(s.B)
	case "int":
		return fmt.Sprint(s.I)
	case "float":
		return fmt.Sprintf("%v", math.Float64frombits(uint64(s.I)))
	case "str":
		return fmt.Sprintf("%q", s.S)
	case "timespan":
		return fmt.Sprintf("timespan(%dns)", s.I)
	case "timestamp":
		return fmt.Sprintf("timestamp(%d,%d)", s.I, s.J)
	}
	r := s.K
	if s.Id != 0 {
		r += fmt.Sprintf("#%d", s.Id)
	}
	if s.S != "" {
		r += fmt.Sprintf("(%q)", s.S)
	}
	if s.K == "ptype" && s.B {
		r += fmt.Sprintf("{%d..%d}", s.I, s.J)
	}
	if len(s.E) > 0 {
		r += "["
		for i, e := range s.E {
			if i > 0 {
				r += ","
			}
			r += e.String()
		}
		r += "]"
	}
	return r
}

// ---- the fixed catalogue of user types (object types and aliases) ----

var objTypeSrc = map[string]string{
	// two required-less attributes with defaults; positional args may be trimmed
	"My::Pt":   `Object[name => 'My::Pt', attributes => {x => Integer, y => {type => Integer, value => 0}, tag => {type => Any, value => undef}}]`,
	"My::Wrap": `Object[name => 'My::Wrap', attributes => {v => Any, w => {type => Any, value => undef}}]`,
	// an Object type with a type parameter: My::Par[3] is a type value of its own kind (an extension of My::Par)
	"My::Par": `Object[name => 'My::Par', type_parameters => {n => Integer}, attributes => {x => Integer}]`,
	// an attribute whose declared default is a value with a COARSE Equals (Timespan.Equals compares whole seconds,
	// types/timespantype.go:424): open finding object-default-coarse-equals
	"My::Dur": `Object[name => 'My::Dur', attributes => {n => Integer, span => {type => Timespan, value => Timespan('0-00:00:01')}}]`,
}

// the object types that random instances and parameters are drawn from (My::Par is met through the type
// expressions My::Par[n] only)
var objTypeOrder = []string{"My::Pt", "My::Wrap"}
var objTypeAll = []string{"My::Pt", "My::Wrap", "My::Par", "My::Dur"}
var aliasSrc = map[string]string{
	"My::Ints": `type My::Ints = Array[Integer]`,
	"My::Tree": `type My::Tree = Variant[Integer,Array[My::Tree]]`,
}
var aliasOrder = []string{"My::Ints", "My::Tree"}

// typeEnv holds the user types of one scenario. registered: the types are known to the loader of the
// serializing context (and, through the fork, of the deserializing one) and travel by name;
// otherwise they are only resolved and travel as inline definitions which the deserializer registers.
type typeEnv struct {
	registered bool
	objTypes   map[string]px.Type
	aliases    map[string]px.Type
}

func newTypeEnv(ctx px.Context, registered bool) *typeEnv {
	env := &typeEnv{registered: registered, objTypes: map[string]px.Type{}, aliases: map[string]px.Type{}}
	all := []px.Type{}
	for _, n := range objTypeAll {
		t := ctx.ParseType(objTypeSrc[n])
		env.objTypes[n] = t
		all = append(all, t)
	}
	for _, n := range aliasOrder {
		t := ctx.ParseType(aliasSrc[n])
		env.aliases[n] = t
		all = append(all, t)
	}
	if registered {
		px.AddTypes(ctx, all...)
	} else {
		for n, t := range env.objTypes {
			env.objTypes[n] = t.(px.ResolvableType).Resolve(ctx)
		}
		for n, t := range env.aliases {
			env.aliases[n] = t.(px.ResolvableType).Resolve(ctx)
		}
	}
	return env
}

type builder struct {
	ctx    px.Context
	env    *typeEnv
	shared map[string]px.Value
}

func newBuilder(ctx px.Context, env *typeEnv) *builder {
	return &builder{ctx: ctx, env: env, shared: map[string]px.Value{}}
}

func (b *builder) build(s *Spec) px.Value {
	key := ""
	if s.Id != 0 {
		key = fmt.Sprintf("%s#%d", s.K, s.Id)
		if v, ok := b.shared[key]; ok {
			return v
		}
	}
	v := b.build1(s)
	if key != "" {
		b.shared[key] = v
	}
	return v
}

func (b *builder) build1(s *Spec) px.Value {
	switch s.K {
	case "undef":
		return px.Undef
	case "default":
		return types.WrapDefault()
	case "bool":
		return types.WrapBoolean(s.B)
	case "int":
		return types.WrapInteger(s.I)
	case "float":
		return types.WrapFloat(math.Float64frombits(uint64(s.I)))
	case "str":
		return types.WrapString(s.S)
	case "arr":
		es := make([]px.Value, len(s.E))
		for i, e := range s.E {
			es[i] = b.build(e)
		}
		return types.WrapValues(es)
	case "hash":
		es := make([]*types.HashEntry, 0, len(s.E)/2)
		seen := map[string]bool{}
		for i := 0; i+1 < len(s.E); i += 2 {
			k := b.build(s.E[i])
			hk := string(px.ToKey(k))
			if seen[hk] {
				continue // a literal hash cannot hold the same key twice
			}
			seen[hk] = true
			es = append(es, types.WrapHashEntry(k, b.build(s.E[i+1])))
		}
		return types.WrapHash(es)
	case "sens":
		return types.WrapSensitive(b.build(s.E[0]))
	case "bin":
		bs, err := hex.DecodeString(s.S)
		if err != nil {
			panic(err)
		}
		return types.WrapBinary(bs)
	case "regexp":
		return types.WrapRegexp(s.S)
	case "semver":
		return types.WrapSemVer(semver.MustParseVersion(s.S))
	case "semverrange":
		return types.WrapSemVerRange(semver.MustParseVersionRange(s.S))
	case "timespan":
		return types.WrapTimespan(time.Duration(s.I))
	case "timestamp":
		return types.WrapTimestamp(time.Unix(s.I, s.J).UTC())
	case "uri":
		return types.WrapURI2(s.S)
	case "type":
		return b.ctx.ParseType(s.S)
	case "objtype":
		return b.env.objTypes[s.S]
	case "alias":
		return b.env.aliases[s.S]
	case "obj":
		args := make([]px.Value, len(s.E))
		for i, e := range s.E {
			args[i] = b.build(e)
		}
		return px.New(b.ctx, b.env.objTypes[s.S], args...)
	case "ptype":
		return b.buildPType(s)
	case "gs":
		return b.buildGoStruct(s)
	}
	panic("bad spec kind " + s.K)
}

// typeAt builds child i of a ptype spec as a type; {k: none} (or a missing child) is the nil type
func (b *builder) typeAt(s *Spec, i int) px.Type {
	if i >= len(s.E) || s.E[i].K == "none" {
		return nil
	}
	return b.build(s.E[i]).(px.Type)
}

// buildPType builds a parameterized type with the Go constructors of package types (not by parsing a
// type expression), so that its parameters can be the user types of either scenario: a type with an
// object or alias type among its parameters has no serialization string and travels as an instance
// of its meta type, attribute by attribute (serializer.go:327-353).
// S = constructor; E = the parameter types ({k: none} = nil); B: a size range [I, J] is given.
func (b *builder) buildPType(s *Spec) px.Value {
	var size *types.IntegerType
	if s.B {
		size = types.NewIntegerType(s.I, s.J)
	}
	all := func(from int) []px.Type {
		ts := []px.Type{}
		for i := from; i < len(s.E); i++ {
			ts = append(ts, b.typeAt(s, i))
		}
		return ts
	}
	switch s.S {
	case "Array":
		return types.NewArrayType(b.typeAt(s, 0), size)
	case "Hash":
		return types.NewHashType(b.typeAt(s, 0), b.typeAt(s, 1), size)
	case "Tuple":
		return types.NewTupleType(all(0), size)
	case "Callable": // E = [parameter tuple, return type, block type]
		return types.NewCallableType(b.typeAt(s, 0), b.typeAt(s, 1), b.typeAt(s, 2))
	case "Variant":
		return types.NewVariantType(all(0)...)
	case "Optional":
		return types.NewOptionalType(b.typeAt(s, 0))
	case "NotUndef":
		return types.NewNotUndefType(b.typeAt(s, 0))
	case "Type":
		return types.NewTypeType(b.typeAt(s, 0))
	case "Iterable":
		return types.NewIterableType(b.typeAt(s, 0))
	case "Iterator":
		return types.NewIteratorType(b.typeAt(s, 0))
	case "Sensitive":
		return types.NewSensitiveType(b.typeAt(s, 0))
	case "Like":
		return types.NewLikeType(b.typeAt(s, 0), "x")
	case "Init": // E = [type, init argument...]
		args := make([]px.Value, 0, len(s.E))
		for i := 1; i < len(s.E); i++ {
			args = append(args, b.build(s.E[i]))
		}
		return types.NewInitType(b.typeAt(s, 0), types.WrapValues(args))
	case "Struct": // E = member types; member i is named a, b, ...; bit i of I: the key is optional
		es := make([]*types.StructElement, len(s.E))
		for i := range s.E {
			var key px.Value = types.WrapString(string(rune('a' + i)))
			if s.I&(1<<uint(i)) != 0 {
				key = types.NewOptionalType(key.PType())
			}
			es[i] = types.NewStructElement(key, b.typeAt(s, i))
		}
		return types.NewStructType(es)
	}
	panic("bad ptype constructor " + s.S)
}

// needsLoader: an Init type asks the loader for the constructor of its type as soon as it is used
// (types/inittype.go:210-219), so it exists over registered types only
func (s *Spec) needsLoader() bool {
	if s.K == "ptype" && s.S == "Init" || s.mentionsUserType() || s.K == "gs" {
		return true
	}
	for _, e := range s.E {
		if e.needsLoader() {
			return true
		}
	}
	return false
}

// structOverUserType: does the spec hold a Struct type with a user type among its members (at any
// depth)?  Input class of the open finding struct-type-attribute-route.
func (s *Spec) structOverUserType() bool {
	if s.K == "ptype" && s.S == "Struct" && s.hasUserTypes() {
		return true
	}
	for _, e := range s.E {
		if e.structOverUserType() {
			return true
		}
	}
	return false
}

// coarseDefault: does the spec hold an instance of My::Dur whose span is not the declared default (1 s) but has
// the same whole seconds?  attribute.Default(span) = default.Equals(span) is then true although the values differ.
// Input class of the open finding object-default-coarse-equals.
func (s *Spec) coarseDefault() bool {
	if s.K == "obj" && s.S == "My::Dur" && len(s.E) >= 2 && s.E[1].K == "timespan" && s.E[1].I > 1000000000 && s.E[1].I < 2000000000 {
		return true
	}
	for _, e := range s.E {
		if e.coarseDefault() {
			return true
		}
	}
	return false
}

// mentionsUserType: a type expression that names a type of the catalogue (My::Par[3]); it is parsed in the
// context of the scenario, so the loader must know the name
func (s *Spec) mentionsUserType() bool {
	return s.K == "type" && strings.Contains(s.S, "My::")
}

// hasUserTypes tells whether the spec needs the type catalogue (then both scenarios are run)
func (s *Spec) hasUserTypes() bool {
	switch s.K {
	case "objtype", "alias", "obj", "gs":
		return true
	}
	if s.mentionsUserType() {
		return true
	}
	for _, e := range s.E {
		if e.hasUserTypes() {
			return true
		}
	}
	return false
}

func (s *Spec) size() int {
	n := 1
	for _, e := range s.E {
		n += e.size()
	}
	return n
}

func (s *Spec) kinds(into map[string]bool) {
	into[s.K] = true
	for _, e := range s.E {
		e.kinds(into)
	}
}
