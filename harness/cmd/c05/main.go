// c05: printing and parsing are inverse for types and literal values.
//
// G  generators (gen.go): all short strings over the nasty alphabet + random longer ones (bytes, not characters),
//
//	regexp sources, extreme integers and floats, literal values and types built through the Go constructors.
//
// D  direct check on the implementation (this file): print, parse the text back, compare with Equals, print again.
//
//	Every implementation call runs in a child process under a deadline (worker.go).
//
// M  model tie (emit.go): the printed text and the lexed payload against puppet_quote / regexp_quote / format_int /
//
//	lex_string / lex_regexp / lex_number / parse_int0 of coq/Model/QuoteLex.v, printed types against coq/Model/TypePrint.v.
package main

import (
	"encoding/hex"
	"encoding/json"
	"flag"
	"fmt"
	"math"
	"os"
	"strconv"
	"strings"
	"unicode/utf8"

	"verifharness/lat"
	"verifharness/lib"
)

var workerFlag = flag.Bool("worker", false, "serve implementation calls on stdin/stdout (internal)")

// input: what a replay file holds
type input struct {
	Kind   string  `json:"kind"` // string | regexp | int | float | value | type | lex
	Hex    string  `json:"hex,omitempty"`
	Text   string  `json:"text,omitempty"` // for the reader only
	Int    string  `json:"int,omitempty"`
	Bits   string  `json:"bits,omitempty"`
	Value  *VR     `json:"value,omitempty"`
	Recipe *Recipe `json:"recipe,omitempty"`
	Ext    *XR     `json:"ext,omitempty"`
	Family string  `json:"family,omitempty"`
}

func (in input) bytes() string {
	b, _ := hex.DecodeString(in.Hex)
	return string(b)
}

func (in input) req() Req {
	switch in.Kind {
	case "string":
		return Req{"S", in.bytes()}
	case "regexp":
		return Req{"R", in.bytes()}
	case "int":
		return Req{"I", in.Int}
	case "float":
		return Req{"F", in.Bits}
	case "value":
		b, _ := json.Marshal(in.Value)
		return Req{"V", string(b)}
	case "type":
		return Req{"T", in.Recipe.json()}
	case "lex":
		return Req{"L", in.bytes()}
	case "ptype":
		return Req{"P", in.bytes()}
	case "pvalue":
		return Req{"Q", in.bytes()}
	case "xtype":
		return Req{"X", in.Ext.json()}
	}
	panic("unknown input kind " + in.Kind)
}

func strInput(kind, s, family string) input {
	return input{Kind: kind, Hex: hex.EncodeToString([]byte(s)), Text: fmt.Sprintf("%q", s), Family: family}
}

func unhex(s string) string {
	b, _ := hex.DecodeString(s)
	return string(b)
}

func main() {
	cfg := lib.ParseFlags()
	if *workerFlag {
		serve()
		return
	}
	res := lib.NewResult("C05")
	res.Rule = "every generated input is printed by the implementation, the text parsed back and compared (Equals both ways, same text again); " +
		"an input is non-trivial when it is a string or regexp whose printed form contains an escape sequence or a non-ASCII character, " +
		"an integer of more than one digit, a float, a container value, or a type with parameters; distinct = distinct inputs"
	rng := lib.NewRng(cfg.Seed)
	pool := NewPool()
	var ins []input
	if cfg.Replay != "" {
		for _, x := range lib.ReplayInputs(cfg.Replay) {
			var in input
			lib.Remarshal(x, &in)
			ins = append(ins, in)
		}
	} else {
		ins = generate(cfg, rng)
	}
	reqs := make([]Req, len(ins))
	for i, in := range ins {
		reqs[i] = in.req()
	}
	obs := pool.Run(reqs)
	em := newEmitter(cfg)
	for i, in := range ins {
		evaluate(cfg, res, in, obs[i], em, i)
	}
	em.flush(cfg, res)
	res.Extra["timeouts"] = pool.Timeouts
	res.Extra["worker_crashes"] = pool.Crashes
	res.Extra["skipped_after_hangs"] = pool.Skipped
	res.Write(cfg)
}

func generate(cfg *lib.Config, rng *lib.Rng) []input {
	var ins []input
	maxLen, nRandStr, nRandRx, nRandInt, nRandFloat, nRandType, nRandVal, nRandLex := 2, 3000, 1500, 2000, 4000, 1500, 1500, 2000
	nRandObj, nRandExt := 1500, 1500
	if cfg.Thorough() {
		maxLen, nRandStr, nRandRx, nRandInt, nRandFloat, nRandType, nRandVal, nRandLex = 3, 60000, 20000, 20000, 60000, 20000, 20000, 20000
		nRandObj, nRandExt = 20000, 20000
	}
	// strings
	allWords(stringAlphabet, maxLen, func(s string) { ins = append(ins, strInput("string", s, "exhaustive")) })
	for _, p := range nastyPayloads {
		ins = append(ins, strInput("string", p, "corpus"))
	}
	for i := 0; i < nRandStr; i++ {
		r := rng.Fork()
		ins = append(ins, strInput("string", randomWord(r, stringAlphabet, 3+r.Intn(30)), "random"))
	}
	// regexps
	allWords(regexpAlphabet, 2, func(s string) { ins = append(ins, strInput("regexp", s, "exhaustive")) })
	for i := 0; i < nRandRx; i++ {
		r := rng.Fork()
		ins = append(ins, strInput("regexp", randomWord(r, regexpAlphabet, 3+r.Intn(8)), "random"))
	}
	// integers
	for _, i := range interestingInts() {
		ins = append(ins, input{Kind: "int", Int: strconv.FormatInt(i, 10), Family: "extreme"})
	}
	for i := 0; i < nRandInt; i++ {
		r := rng.Fork()
		v := int64(r.Next()) >> uint(r.Intn(64))
		ins = append(ins, input{Kind: "int", Int: strconv.FormatInt(v, 10), Family: "random"})
	}
	// floats
	for _, f := range interestingFloats() {
		ins = append(ins, input{Kind: "float", Bits: strconv.FormatUint(math.Float64bits(f), 10), Text: strconv.FormatFloat(f, 'g', -1, 64), Family: "extreme"})
	}
	for i := 0; i < nRandFloat; i++ {
		f := randomFiniteFloat(rng.Fork())
		ins = append(ins, input{Kind: "float", Bits: strconv.FormatUint(math.Float64bits(f), 10), Text: strconv.FormatFloat(f, 'g', -1, 64), Family: "random"})
	}
	// literal values
	for _, v := range cornerValues() {
		ins = append(ins, input{Kind: "value", Value: fromVSpec(v), Family: "corner"})
	}
	// the same instance at several positions (aliasing), the library's shared empties, every construction route
	for _, v := range sharedCorners() {
		ins = append(ins, input{Kind: "value", Value: v, Family: "shared"})
	}
	for _, v := range routeCorners() {
		ins = append(ins, input{Kind: "value", Value: v, Family: "route"})
	}
	for i := 0; i < nRandVal; i++ {
		r := rng.Fork()
		v := fromVSpec(randomValue(r, 1+r.Intn(3)))
		if i%4 == 1 {
			ins = append(ins, input{Kind: "value", Value: withRoutes(r, v), Family: "random-shared"})
		} else if i%4 == 3 {
			ins = append(ins, input{Kind: "value", Value: randomSharedValue(r), Family: "random-shared"})
		} else {
			ins = append(ins, input{Kind: "value", Value: v, Family: "random"})
		}
	}
	// literal values given by their text (built by the parser)
	for _, t := range pvalueCorpus() {
		ins = append(ins, strInput("pvalue", t, "corpus"))
	}
	// types
	for _, t := range cornerTypes() {
		ins = append(ins, input{Kind: "type", Recipe: t, Family: "corner"})
	}
	for _, s := range lat.Atoms() {
		ins = append(ins, input{Kind: "type", Recipe: fromSpec(s), Family: "pool"})
	}
	elems := []*lat.Spec{lat.A("Any"), lat.A("Undef"), lat.Int(lat.Min, lat.Max), lat.Int(0, 5), lat.A("String"), lat.StrSz(1, 2),
		lat.Enum(false, "a", "b"), lat.A("Numeric"), lat.A("Scalar"), lat.Bln(-1), lat.A("FloatDefault"), lat.Pat("^a+$")}
	for _, s := range lat.Depth1(elems) {
		ins = append(ins, input{Kind: "type", Recipe: fromSpec(s), Family: "pool"})
	}
	for i := 0; i < nRandType; i++ {
		r := rng.Fork()
		t := randomRecipe(r, 1+r.Intn(3))
		fam := "random"
		// other construction routes: one instance for equal sub-types; the type the parser builds from the text
		switch i % 4 {
		case 1:
			t.Via, fam = "shared", "random-shared"
		case 3:
			t.Via, fam = "parsed", "random-parsed"
		}
		ins = append(ins, input{Kind: "type", Recipe: t, Family: fam})
	}
	for _, t := range cornerTypes() {
		c := *t
		c.Via = "parsed"
		ins = append(ins, input{Kind: "type", Recipe: &c, Family: "corner-parsed"})
	}
	for _, t := range cornerTypes() {
		if len(t.Sub) > 1 || t.Ret != nil || t.Block != nil {
			c := *t
			c.Via = "shared"
			ins = append(ins, input{Kind: "type", Recipe: &c, Family: "corner-shared"})
		}
	}
	// Object types printed in full: every attribute kind x declared type x value, every part of the init hash,
	// nested in other types, second generation, as values
	for i, t := range cornerObjectRecipes() {
		ins = append(ins, input{Kind: "type", Recipe: t, Family: "object-corner"})
		if i%5 == 2 || t.Obj == nil || len(t.Obj.Attrs) != 1 {
			c := *t
			c.Via = "parsed"
			ins = append(ins, input{Kind: "type", Recipe: &c, Family: "object-parsed"})
		}
		if i%11 == 3 || t.Obj != nil && len(t.Obj.Attrs) == 1 && t.Obj.Attrs[0].Kind == "constant" && t.Obj.Attrs[0].V != nil && t.Obj.Attrs[0].V.K == "Int" {
			ins = append(ins, input{Kind: "value", Value: vArr("", vTypeR(t)), Family: "object-type-as-value"},
				input{Kind: "value", Value: vHash("", vS("k"), vTypeR(t)), Family: "object-type-as-value"})
		}
	}
	for i := 0; i < nRandObj; i++ {
		r := rng.Fork()
		t := rObj(randomObject(r, 2))
		switch i % 8 {
		case 1:
			t = rArr(t, 0, lat.Max)
		case 3:
			t = rOpt(t)
		case 5:
			t.Via = "parsed"
		}
		if i%8 == 7 {
			ins = append(ins, input{Kind: "value", Value: vArr("", vI(1), vTypeR(t)), Family: "object-type-as-value"})
		} else {
			ins = append(ins, input{Kind: "type", Recipe: t, Family: "object-random"})
		}
	}
	for _, t := range objectTypeTexts() {
		ins = append(ins, strInput("ptype", t, "object-corpus"))
	}
	// extensions of parameterized Object types: every subset of the declared parameters given x every route
	for _, x := range extCorner() {
		ins = append(ins, input{Kind: "xtype", Ext: x, Family: "ext-corner"})
	}
	for i := 0; i < nRandExt; i++ {
		ins = append(ins, input{Kind: "xtype", Ext: randomExt(rng.Fork()), Family: "ext-random"})
	}
	// types given by their text: every argument form the creators accept
	for _, t := range ptypeCorpus() {
		ins = append(ins, strInput("ptype", t, "corpus"))
	}
	// the lexer alone: literal texts, well-formed and not
	for _, t := range lexCorpus() {
		ins = append(ins, strInput("lex", t, "corpus"))
	}
	for i := 0; i < nRandLex; i++ {
		ins = append(ins, strInput("lex", randomLiteralText(rng.Fork()), "random"))
	}
	return ins
}

// texts for the lexer functions the model covers: string, regexp and number literals (first token only)
func lexCorpus() []string {
	c := []string{"0", "00", "007", "08", "0x1F", "0X1f", "0x", "0xg", "00x1", "1x", "10x1", "1e5", "1E5", "1e", "1e+", "1e+5", "1e-5", "1e5.",
		"1e5a", "1e5é", "1e5€", "1e5 ", "1.5", "1.", "1.e5", "1.5e3", "1.5.2", "1.5e", "1.5x", "-0", "-5", "+5", "-", "+", "-a", "--5", "-0x10", "-1.5e-3",
		"9223372036854775807", "9223372036854775808", "-9223372036854775808", "-9223372036854775809", "99999999999999999999", "5a", "5é", "5€", "5,", "5]",
		"5 6", "5\x00", "5\xff", "1e5\xff", "0.5", "00.5", "0e0", "0x0", "5e05", "5e+05", "1.000000e+05", "1e+21", "12345678901234567890", "1.0x1", "0.0x1F", "1.0X1", "1.00x1", "0.0e1", "1.0e0x1",
		"''", "'a'", "'a", "'a\\'", "'a\\'b'", "'a\\\\'", "'\\n'", "\"\\n\"", "\"\\u{41}\"", "\"\\u{0}\"", "\"\\u{10FFFF}\"", "\"\\u{110000}\"", "\"\\u{D800}\"",
		"\"\\u{}\"", "\"\\u{1234567}\"", "\"\\u{12g}\"", "\"\\u41\"", "\"\\u{41\"", "\"\\u{41", "\"\\u", "\"\\", "\"a\\qb\"", "'a\\\"b'", "\"a\\'b\"", "\"a\\\"b\"",
		"'a\nb'", "\"a\nb\"", "'a\x00b'", "'a\xffb'", "'é€'", "'�'", "\"\\$x\"", "'$x'", "'\\$'", "\"\\t\\r\"", "'\\t'", "'a' 'b'", "'a'b",
		"//", "/a/", "/a", "/a\\/b/", "/a\\\\/", "/a\\", "/a\\\n/", "/a\nb/", "/\\d+/", "/a\x00/", "/a\xff/", "/é/", "/�/", "/a/b/", "/\\n/", "/\\\x00/", "/[/]/"}
	return c
}

func randomLiteralText(r *lib.Rng) string {
	switch r.Intn(4) {
	case 0: // number-like
		al := []string{"0", "1", "5", "9", "e", "E", "x", "X", ".", "+", "-", "a", "f", "g", " ", ",", "é", "_"}
		s := []string{"", "-", "+", "0", "0x"}[r.Intn(5)]
		if s == "" || r.Bool() {
			s += string(rune('0' + r.Intn(10)))
		}
		return s + randomWord(r, al, r.Intn(8))
	case 1: // string-like
		q := []string{"'", "\""}[r.Intn(2)]
		al := []string{"'", "\"", "\\", "\\\\", "\\n", "\\t", "\\r", "\\u{", "}", "1F", "0", "$", "\\$", "a", "é", "\n", "\x00", "\\'", "\\\"", "\\x", "{"}
		s := q + randomWord(r, al, r.Intn(8))
		if r.Chance(5, 6) {
			s += q
		}
		return s
	case 2: // regexp-like
		al := []string{"/", "\\/", "\\", "\\\\", "a", ".", "\n", "\\n", "\x00", "é", "[", "]", "\\d"}
		s := "/" + randomWord(r, al, r.Intn(8))
		if r.Chance(5, 6) {
			s += "/"
		}
		return s
	default: // a printed literal with one byte changed
		var s string
		switch r.Intn(3) {
		case 0:
			s = "'" + strings.Replace(randomWord(r, validOnly(stringAlphabet), 1+r.Intn(5)), "'", "\\'", -1) + "'"
		case 1:
			s = strconv.FormatInt(int64(r.Next())>>uint(r.Intn(64)), 10)
		default:
			s = strconv.FormatFloat(randomFiniteFloat(r), 'g', -1, 64)
		}
		b := []byte(s)
		if len(b) > 0 {
			b[r.Intn(len(b))] = byte(r.Intn(256))
		}
		return string(b)
	}
}

// ---------------------------------------------------------------------------------------------
// D: the direct check

func hasRune(s string, c rune) bool {
	for _, r := range s {
		if r == c {
			return true
		}
	}
	return false
}

// regexpNotRepresentable: the open finding C05-regexp-source-not-representable — a line feed, a NUL, or a
// backslash followed by a slash
func regexpNotRepresentable(src string) bool {
	esc := false
	for _, c := range src {
		if c == '\n' || c == 0 {
			return true
		}
		if esc {
			if c == '/' {
				return true
			}
			esc = false
		} else if c == '\\' {
			esc = true
		}
	}
	return false
}

// stringTags: the open-finding classes a string payload falls into
func stringTags(s string) []string {
	if utf8.ValidString(s) && hasRune(s, utf8.RuneError) {
		return []string{"payload-with-U+FFFD"}
	}
	return nil
}

// typeTags: open-finding classes of a type recipe (by the strings it carries)
func typeTags(t *Recipe) []string {
	tags := map[string]bool{}
	t.walk(func(r *Recipe) {
		ss := append([]string{r.S, r.S2}, r.Strs...)
		ss = append(ss, r.Names...)
		for _, s := range ss {
			if hasRune(s, utf8.RuneError) {
				tags["payload-with-U+FFFD"] = true
			}
		}
		if r.K == "Callable" && len(r.Sub) > 0 {
			// open finding C05-callable-parameters-ambiguous: the printed parameter list is read differently when
			// the first parameter type is a Tuple (taken for the whole parameter tuple) or, without a block type,
			// the last one is a Callable or Optional[Callable] (taken for the block type)
			last := r.Sub[len(r.Sub)-1]
			if r.Sub[0].K == "Tuple" || r.Block == nil && (last.K == "Callable" || last.K == "Optional" && last.Sub[0].K == "Callable") {
				tags["callable-parameters-ambiguous"] = true
			}
		}
		if r.K == "TimespanR" {
			tags["timespan-with-bounds"] = true
		}
		if r.Obj != nil {
			for _, as := range [][]*OAttr{r.Obj.Attrs, r.Obj.Consts} {
				for _, a := range as {
					for _, t := range valueTags(a.V) {
						tags[t] = true
					}
				}
			}
		}
		if r.K == "Pattern" || r.K == "Regexp" {
			for _, s := range append([]string{r.S}, r.Strs...) {
				if regexpNotRepresentable(s) {
					tags["regexp-source-not-representable"] = true
				}
			}
		}
	})
	var out []string
	for k := range tags {
		out = append(out, k)
	}
	return out
}

func valueTags(v *VR) []string {
	tags := map[string]bool{}
	var rec func(v *VR)
	rec = func(v *VR) {
		if v == nil {
			return
		}
		for _, e := range v.Let {
			rec(e)
		}
		if (v.K == "Str" || v.K == "Regexp") && hasRune(v.S, utf8.RuneError) {
			tags["payload-with-U+FFFD"] = true
		}
		if v.K == "Regexp" && regexpNotRepresentable(v.S) {
			tags["regexp-source-not-representable"] = true
		}
		if v.T != nil {
			for _, t := range typeTags(fromSpec(v.T)) {
				tags[t] = true
			}
		}
		if v.R != nil {
			for _, t := range typeTags(v.R) {
				tags[t] = true
			}
		}
		for _, e := range v.Sub {
			rec(e)
		}
	}
	rec(v)
	var out []string
	for k := range tags {
		out = append(out, k)
	}
	return out
}

// exactStringPrintsAsString: the by-specification exception — the recipe has an exact-value String type at a place
// where it prints as plain `String` (everywhere except directly under Optional / NotUndef with a non-empty value)
func exactStringPrintsAsString(t *Recipe, parent string) bool {
	if t == nil {
		return false
	}
	if t.K == "StringVal" && !((parent == "Optional" || parent == "NotUndef") && t.S != "") {
		return true
	}
	for _, e := range t.Sub {
		if exactStringPrintsAsString(e, t.K) {
			return true
		}
	}
	if t.Obj != nil {
		found := false
		for _, as := range [][]*OAttr{t.Obj.Attrs, t.Obj.Funcs, t.Obj.TParams} {
			for _, a := range as {
				found = found || exactStringPrintsAsString(a.T, "")
			}
		}
		for _, as := range [][]*OAttr{t.Obj.Attrs, t.Obj.Consts} {
			for _, a := range as {
				found = found || a.V != nil && (valueHasExactString(a.V) || a.V.has("Sensitive"))
			}
		}
		if found || exactStringPrintsAsString(t.Obj.Parent, "") {
			return true
		}
	}
	return exactStringPrintsAsString(t.Ret, t.K) || exactStringPrintsAsString(t.Block, t.K)
}

func valueHasExactString(v *VR) bool {
	found := false
	v.walk(func(x *VR) {
		if x.T != nil && exactStringPrintsAsString(fromSpec(x.T), "") {
			found = true
		}
		if x.R != nil && exactStringPrintsAsString(x.R, "") {
			found = true
		}
	})
	return found
}

func valueHas(v *VR, kind string) bool { return v.has(kind) }

func evaluate(cfg *lib.Config, res *lib.Result, in input, o Obs, em *emitter, idx int) {
	res.Evaluations++
	res.Count(in.Kind + "." + in.Family)
	em.failed = false
	replaying := cfg.Replay != ""
	say := func(format string, a ...interface{}) {
		if replaying {
			fmt.Printf(format+"\n", a...)
		}
	}
	violate := func(clause, what string, tags []string) {
		say("FAILS (%s): %s", clause, what)
		if dbg := os.Getenv("C05_DEBUG"); dbg != "" {
			if f, err := os.OpenFile(dbg, os.O_APPEND|os.O_CREATE|os.O_WRONLY, 0o644); err == nil {
				fmt.Fprintf(f, "%s %v %s\n", clause, tags, what)
				f.Close()
			}
		}
		res.Violate(lib.Violation{Clause: clause, What: what, Input: in, Tags: tags})
	}
	if o.Class == "timeout" || o.Class == "crash" || strings.HasPrefix(o.Class, "harness:") {
		violate("terminates", fmt.Sprintf("printing/parsing %s: %s %s", describe(in), o.Class, o.Msg), []string{"class:" + o.Class})
		return
	}
	if o.Class == "skipped" {
		res.Count("skipped")
		return
	}
	text := unhex(o.Out)
	say("input: %s", describe(in))
	say("printed: %q", text)
	parsed := o.Aux["parsed"]
	if k := o.Aux["parsedkind"]; k == "Str" || k == "Regexp" {
		parsed = fmt.Sprintf("%q", unhex(parsed))
	}
	if in.Kind == "lex" {
		say("first token: kind=%s text=%q lexer=%s tokens=%s intval=%s", o.Aux["tokkind"], unhex(o.Aux["toktext"]), o.Aux["lexclass"], o.Aux["ntok"], o.Aux["intval"])
	} else {
		say("print=%s lex=%s parse=%s equal=%s printed-again=%q parsed(%s)=%s %s", o.Aux["printclass"], o.Aux["lexclass"], o.Aux["parseclass"], o.Aux["equal"],
			unhex(o.Aux["text2"]), o.Aux["parsedkind"], parsed, o.Msg)
	}
	// the round trip itself
	roundTrip := func(tags []string, what string) bool {
		switch {
		case o.Aux["printclass"] != "ok":
			violate("prints", fmt.Sprintf("%s cannot be printed: %s %s", what, o.Aux["printclass"], o.Msg), tags)
		case o.Aux["parseclass"] != "ok":
			violate("parses", fmt.Sprintf("%s prints as %q, which does not parse: %s %s", what, text, o.Aux["parseclass"], o.Msg), tags)
		case o.Aux["eqclass"] != "ok":
			violate("equal", fmt.Sprintf("%s prints as %q; comparing the parsed result fails: %s", what, text, o.Aux["eqclass"]), tags)
		case o.Aux["equal"] != "true":
			violate("equal", fmt.Sprintf("%s prints as %q, which parses to something not equal to it (that prints as %q)", what, text, unhex(o.Aux["text2"])), tags)
		case (in.Kind == "type" || in.Kind == "ptype") && unhex(o.Aux["text2"]) != text:
			violate("prints-same", fmt.Sprintf("%s prints as %q, the parsed type prints as %q", what, text, unhex(o.Aux["text2"])), tags)
		default:
			return true
		}
		return false
	}
	switch in.Kind {
	case "string":
		s := in.bytes()
		if !utf8.ValidString(s) {
			// not text: the property is about characters. Printing must still come back (the model is tied below).
			res.Count("string.invalid-utf8")
			if o.Aux["printclass"] != "ok" {
				violate("prints", fmt.Sprintf("string %q cannot be printed: %s %s", s, o.Aux["printclass"], o.Msg), nil)
			}
		} else if roundTrip(stringTags(s), fmt.Sprintf("the string %q", s)) {
			if text != "'"+s+"'" {
				res.Nontrivial("s:" + s)
			}
		} else {
			em.failed = true
		}
		em.addString(in, s, o)
	case "regexp":
		if o.Class == "notaregexp" {
			res.Count("regexp.not-a-regexp")
			return
		}
		src := unhex(o.Aux["source"])
		var tags []string
		if regexpNotRepresentable(src) {
			tags = append(tags, "regexp-source-not-representable")
		}
		tags = append(tags, stringTags(src)...)
		if roundTrip(tags, fmt.Sprintf("the regexp with source %q", src)) {
			if text != "/"+src+"/" {
				res.Nontrivial("r:" + src)
			}
		} else {
			em.failed = true
		}
		em.addRegexp(in, src, o)
	case "int":
		if !roundTrip(nil, "the integer "+in.Int) {
			em.failed = true
		} else if len(in.Int) > 1 {
			res.Nontrivial("i:" + in.Int)
		}
		em.addInt(in, o)
	case "float":
		if roundTrip(nil, "the float "+in.Text) {
			res.Nontrivial("f:" + in.Bits)
		} else {
			em.failed = true
		}
		em.addFloat(in, o)
	case "value":
		if o.Class == "nobuild" {
			res.Count("value.nobuild." + in.Family)
			return
		}
		b, _ := json.Marshal(in.Value)
		switch {
		case valueHasExactString(in.Value):
			res.Count("value.excluded.exact-string-type")
		case valueHas(in.Value, "Sensitive"):
			res.Count("value.excluded.sensitive")
		default:
			if !roundTrip(valueTags(in.Value), "the value "+string(b)) {
				em.failed = true
			} else if len(in.Value.Sub) > 0 || len(in.Value.Let) > 0 {
				res.Nontrivial("v:" + string(b))
			}
		}
	case "type":
		em.addObject(in, o)
		if o.Class == "nobuild" {
			res.Count("type.nobuild")
			return
		}
		if exactStringPrintsAsString(in.Recipe, "") {
			res.Count("type.excluded.exact-string-type")
		} else if recipeNamedObject(in.Recipe) {
			// a named Object type prints as its name, which stands for the type only where a loader knows it: the
			// full text (types.Expanded) is what reads back
			res.Count("type.named-object.expanded-only")
			if in.Recipe.Obj != nil && !expandedRoundTrip(in, o, violate, typeTags(in.Recipe)) {
				em.failed = true
			}
		} else if in.Recipe.Obj != nil && !expandedRoundTrip(in, o, violate, typeTags(in.Recipe)) {
			em.failed = true
		} else if roundTrip(typeTags(in.Recipe), "the type "+in.Recipe.json()) {
			if strings.ContainsAny(text, "[{") {
				res.Nontrivial("t:" + in.Recipe.json())
			}
		} else {
			em.failed = true
		}
		em.addType(in, o)
	case "pvalue":
		if o.Class == "nobuild" {
			res.Count("pvalue.not-a-value")
			if !strings.HasPrefix(o.Aux["buildclass"], "reported:") {
				violate("parses", fmt.Sprintf("the value text %q: the parser/resolver escapes with %s %s", in.bytes(), o.Aux["buildclass"], o.Msg), nil)
			}
			return
		}
		if roundTrip(nil, fmt.Sprintf("the value that %q parses to", in.bytes())) {
			res.Nontrivial("q:" + in.bytes())
		} else {
			em.failed = true
		}
		em.addValue(in, o)
	case "ptype":
		em.addCreate(in, o)
		if o.Class == "nobuild" {
			res.Count("ptype.not-a-type")
			if !strings.HasPrefix(o.Aux["buildclass"], "reported:") {
				// the creators answer with a reported issue; anything else is a fault on the way to the type
				violate("parses", fmt.Sprintf("the type text %q: the parser/creator escapes with %s %s", in.bytes(), o.Aux["buildclass"], o.Msg), nil)
			}
			return
		}
		if roundTrip(ptypeTags(in.bytes()), fmt.Sprintf("the type that %q parses to", in.bytes())) {
			res.Nontrivial("p:" + in.bytes())
		} else {
			em.failed = true
		}
		em.addType(in, o)
	case "lex":
		em.addLex(in, in.bytes(), o)
	case "xtype":
		if !extEvaluate(in, o, res, violate) {
			em.failed = true
		} else if o.Class == "ok" {
			res.Nontrivial("x:" + in.Ext.json())
		}
		em.addExt(in, o)
	}
	if in.Kind == "value" {
		em.addValue(in, o)
		if o.Aux["hshared"] != "" && o.Aux["hshared"] != "0" {
			res.Count("value.with-aliased-container." + in.Family)
		}
	}
	if in.Kind == "value" || in.Kind == "type" || in.Kind == "lex" || in.Kind == "ptype" || in.Kind == "pvalue" {
		em.addParse(in, o)
	}
	if idx%997 == 3 {
		res.Sample(map[string]interface{}{"input": in, "printed": text, "equal": o.Aux["equal"]})
	}
}

// expandedRoundTrip: an Object type printed in full (types.Expanded) parses back to an equal type that prints the same
func expandedRoundTrip(in input, o Obs, violate func(clause, what string, tags []string), tags []string) bool {
	what, text := "the Object type "+in.Recipe.json(), unhex(o.Aux["extext"])
	switch {
	case o.Aux["exprint"] == "":
		return true
	case o.Aux["exprint"] != "ok":
		violate("prints", fmt.Sprintf("%s cannot be printed in full: %s %s", what, o.Aux["exprint"], o.Aux["exmsg"]), tags)
	case o.Aux["exparse"] != "ok":
		violate("parses", fmt.Sprintf("%s prints in full as %q, which does not parse: %s %s", what, text, o.Aux["exparse"], o.Aux["exmsg"]), tags)
	case o.Aux["exeqclass"] != "ok" || o.Aux["exequal"] != "true":
		violate("equal", fmt.Sprintf("%s prints in full as %q, which parses to a type not equal to it (that prints as %q)", what, text, unhex(o.Aux["extext2"])), tags)
	case unhex(o.Aux["extext2"]) != text:
		violate("prints-same", fmt.Sprintf("%s prints in full as %q, the parsed type as %q", what, text, unhex(o.Aux["extext2"])), tags)
	default:
		return true
	}
	return false
}

func describe(in input) string {
	switch in.Kind {
	case "string", "regexp", "lex", "ptype", "pvalue":
		return fmt.Sprintf("%s %q", in.Kind, in.bytes())
	case "int":
		return "integer " + in.Int
	case "float":
		return "float " + in.Text + " (bits " + in.Bits + ")"
	case "value":
		b, _ := json.Marshal(in.Value)
		return "value " + string(b)
	case "type":
		return "type " + in.Recipe.json()
	case "xtype":
		return "extension " + in.Ext.json()
	}
	return in.Kind
}
