// Recipes of literal values WITH their construction route. A px.Value is a graph of Go objects: the same
// *Array / *Hash instance may occur at several positions of one value (aliasing: a plain finite literal, not a
// cycle), it may be one of the library's shared singletons (px.EmptyArray, px.EmptyMap, which HashEntry.Select /
// Reject / Slice and many defaults hand out), and it may have been made by the parser, by Slice / Add / AddAll /
// Select / Map / Merge ..., or by px.Wrap from Go data rather than by WrapValues / WrapHash. The property speaks
// of every literal value, so every route is an input class of its own: printing walks the object graph with a
// recursion detector keyed by instance, the type caches live in the instance, slices share backing arrays.
//
// The JSON shape is a superset of lat.VSpec (old replay files still load).
package main

import (
	"encoding/json"
	"fmt"

	"github.com/lyraproj/pcore/pcore"
	"github.com/lyraproj/pcore/px"
	"github.com/lyraproj/pcore/types"

	"verifharness/lat"
	"verifharness/lib"
)

type VR struct {
	K   string    `json:"k"`           // Undef Default Bool Int Float Str Regexp Arr Hash Type Sensitive | Ref EmptyArray EmptyMap
	I   int64     `json:"i,omitempty"` // Int: the value; Ref: index into Let of the root
	F   string    `json:"f,omitempty"`
	B   bool      `json:"b,omitempty"`
	S   string    `json:"s,omitempty"`
	Sub []*VR     `json:"sub,omitempty"`
	T   *lat.Spec `json:"t,omitempty"`
	R   *Recipe   `json:"r,omitempty"` // TypeR: a type of this property's recipes (Object types) as a value
	// Via: construction route of an Arr / Hash ("" = WrapValues / WrapHash), see buildArr / buildHash
	Via string `json:"via,omitempty"`
	// Let (root only): nodes built once, in order (Let[i] may refer to Let[j], j < i); {k:Ref, i:n} anywhere in
	// the value is that one instance
	Let []*VR `json:"let,omitempty"`
}

func fromVSpec(v *lat.VSpec) *VR {
	b, err := json.Marshal(v)
	if err != nil {
		panic(err)
	}
	r := &VR{}
	if err := json.Unmarshal(b, r); err != nil {
		panic(err)
	}
	return r
}

func vRef(i int) *VR                   { return &VR{K: "Ref", I: int64(i)} }
func vArr(via string, es ...*VR) *VR   { return &VR{K: "Arr", Via: via, Sub: es} }
func vHash(via string, kvs ...*VR) *VR { return &VR{K: "Hash", Via: via, Sub: kvs} }
func vI(i int64) *VR                   { return &VR{K: "Int", I: i} }
func vS(s string) *VR                  { return &VR{K: "Str", S: s} }
func vLet(root *VR, let ...*VR) *VR {
	c := *root
	c.Let = let
	return &c
}

// the routes
var arrVias = []string{"", "parse", "slice", "add", "addall", "reject", "map", "values", "wrapgo", "flatten1"}
var hashVias = []string{"", "parse", "merge", "reject", "mapvalues", "fromarray", "hslice", "wrapgo"}

func (v *VR) walk(f func(*VR)) {
	if v == nil {
		return
	}
	f(v)
	for _, e := range v.Let {
		e.walk(f)
	}
	for _, e := range v.Sub {
		e.walk(f)
	}
}

func (v *VR) has(kind string) bool {
	found := false
	v.walk(func(x *VR) {
		if x.K == kind {
			found = true
		}
	})
	return found
}

// Build constructs the value. Every call builds fresh objects except the library's singletons.
func (v *VR) Build() px.Value {
	env := make([]px.Value, 0, len(v.Let))
	for _, l := range v.Let {
		env = append(env, l.build(&env))
	}
	return v.build(&env)
}

func parseBack(v px.Value) px.Value {
	var pv px.Value
	pcore.Do(func(ctx px.Context) {
		pv = types.ResolveDeferred(ctx, types.Parse(px.ToString2(v, types.Program)), px.EmptyMap)
	})
	return pv
}

func (v *VR) build(env *[]px.Value) px.Value {
	switch v.K {
	case "Ref":
		if int(v.I) >= len(*env) {
			panic(fmt.Sprintf("VR.Build: reference %d to a node that is not built yet", v.I))
		}
		return (*env)[v.I]
	case "EmptyArray":
		return px.EmptyArray
	case "EmptyMap":
		return px.EmptyMap
	case "Arr":
		es := make([]px.Value, len(v.Sub))
		for i, e := range v.Sub {
			es[i] = e.build(env)
		}
		return buildArr(v.Via, es)
	case "Hash":
		n := len(v.Sub) / 2
		ks, vs := make([]px.Value, n), make([]px.Value, n)
		for i := 0; i < n; i++ {
			ks[i], vs[i] = v.Sub[2*i].build(env), v.Sub[2*i+1].build(env)
		}
		return buildHash(v.Via, ks, vs)
	case "Sensitive":
		return types.WrapSensitive(v.Sub[0].build(env))
	case "TypeR":
		return v.R.Build()
	}
	// the kinds without children: as harness/lat builds them
	return (&lat.VSpec{K: v.K, I: v.I, F: v.F, B: v.B, S: v.S, T: v.T}).Build()
}

func buildArr(via string, es []px.Value) px.Value {
	n := len(es)
	pad := types.WrapString("pad")
	sentinel := types.WrapBinary([]byte("sentinel"))
	isSentinel := func(e px.Value) bool { return e == px.Value(sentinel) }
	switch via {
	case "", "wrap":
		return types.WrapValues(es)
	case "parse": // made by the parser (collector)
		return parseBack(types.WrapValues(es))
	case "slice": // a window of a longer array: the backing slice is shared and has spare capacity
		long := append(append([]px.Value{pad}, es...), pad, pad)
		return types.WrapValues(long).Slice(1, 1+n)
	case "add":
		if n == 0 {
			return px.EmptyArray.AddAll(px.EmptyArray)
		}
		var a px.List = px.EmptyArray
		for _, e := range es {
			a = a.Add(e)
		}
		return a
	case "addall":
		return types.WrapValues(es[:n/2]).AddAll(types.WrapValues(es[n/2:]))
	case "reject":
		mixed := []px.Value{sentinel}
		for _, e := range es {
			mixed = append(mixed, e, sentinel)
		}
		return types.WrapValues(mixed).Reject(isSentinel)
	case "map":
		return types.WrapValues(es).Map(func(e px.Value) px.Value { return e })
	case "values": // the values of a hash
		ents := make([]*types.HashEntry, n)
		for i, e := range es {
			ents[i] = types.WrapHashEntry(types.WrapInteger(int64(i)), e)
		}
		return types.WrapHash(ents).Values()
	case "wrapgo": // px.Wrap of a Go slice (reflection route); elements that are values stay as they are
		gs := make([]interface{}, n)
		for i, e := range es {
			gs[i] = toGo(e)
		}
		var r px.Value
		pcore.Do(func(ctx px.Context) { r = px.Wrap(ctx, gs) })
		return r
	case "flatten1": // every element wrapped in an entry-free singleton and flattened again (only when no element is a list)
		for _, e := range es {
			if _, ok := e.(px.List); ok {
				return types.WrapValues(es)
			}
		}
		ws := make([]px.Value, n)
		for i, e := range es {
			ws[i] = types.SingletonArray(e)
		}
		return types.WrapValues(ws).Flatten()
	}
	panic("VR.Build: unknown array route " + via)
}

// toGo: the Go native form of a scalar (what callers hand to px.Wrap); containers and the rest stay values
func toGo(v px.Value) interface{} {
	switch x := v.(type) {
	case px.Integer:
		return x.Int()
	case px.Float:
		return x.Float()
	case px.Boolean:
		return x.Bool()
	case px.StringValue:
		return x.String()
	}
	return v
}

func buildHash(via string, ks, vs []px.Value) px.Value {
	n := len(ks)
	ents := func(lo, hi int) []*types.HashEntry {
		es := make([]*types.HashEntry, 0, hi-lo)
		for i := lo; i < hi; i++ {
			es = append(es, types.WrapHashEntry(ks[i], vs[i]))
		}
		return es
	}
	sentinel := types.WrapBinary([]byte("sentinel"))
	switch via {
	case "", "wrap":
		return types.WrapHash(ents(0, n))
	case "parse":
		return parseBack(types.WrapHash(ents(0, n)))
	case "merge":
		return types.WrapHash(ents(0, n/2)).Merge(types.WrapHash(ents(n/2, n)))
	case "reject":
		all := append(ents(0, n), types.WrapHashEntry(sentinel, sentinel))
		return types.WrapHash(all).RejectPairs(func(k, _ px.Value) bool { return k == px.Value(sentinel) })
	case "mapvalues":
		return types.WrapHash(ents(0, n)).MapValues(func(e px.Value) px.Value { return e })
	case "fromarray": // [k, v, k, v ...] (a flat list: the element type of the array must not be an Array type)
		flat := make([]px.Value, 0, 2*n)
		for i := 0; i < n; i++ {
			flat = append(flat, ks[i], vs[i])
		}
		a := types.WrapValues(flat)
		if _, ok := a.ElementType().(*types.ArrayType); ok || n == 0 {
			return types.WrapHash(ents(0, n))
		}
		return types.WrapHashFromArray(a)
	case "hslice":
		pad := types.WrapHashEntry(sentinel, sentinel)
		all := append(append([]*types.HashEntry{pad}, ents(0, n)...), pad, pad)
		return types.WrapHash(all).Slice(1, 1+n)
	case "wrapgo": // px.Wrap of a Go map with string keys (sorted by key); other keys: WrapHash
		m := make(map[string]interface{}, n)
		for i := 0; i < n; i++ {
			s, ok := ks[i].(px.StringValue)
			if !ok {
				return types.WrapHash(ents(0, n))
			}
			m[s.String()] = toGo(vs[i])
		}
		var r px.Value
		pcore.Do(func(ctx px.Context) { r = px.Wrap(ctx, m) })
		return r
	}
	panic("VR.Build: unknown hash route " + via)
}

// ---------------------------------------------------------------------------------------------
// generators

// shareables: the nodes worth aliasing. Empty containers first: they are where a printer / a cache takes a
// short cut.
func shareables() []*VR {
	return []*VR{
		{K: "EmptyArray"}, {K: "EmptyMap"}, vArr(""), vHash(""), vArr("parse"), vHash("parse"), vArr("slice"), vArr("reject"), vArr("add"),
		vHash("reject"), vHash("merge"),
		vArr("", vI(1)), vArr("", vI(1), vS("x")), vHash("", vS("k"), vI(1)), vArr("", vArr("")), vArr("", &VR{K: "EmptyArray"}),
		vHash("", vS("k"), &VR{K: "EmptyMap"}), vArr("slice", vI(1), vI(2)), vHash("parse", vS("k"), vArr("")),
		vS("shared"), {K: "Regexp", S: "a+"}, {K: "Type", T: lat.Arr(lat.Int(0, 5), 0, lat.Max)},
	}
}

// sharedCorners: every shareable node at two or more positions of one value, in every kind of position
// (element, hash value, hash key, different depths, next to an unshared equal), each through Let/Ref
func sharedCorners() []*VR {
	var out []*VR
	r0 := vRef(0)
	for _, e := range shareables() {
		ctxs := []*VR{
			vArr("", r0, r0),
			vArr("", r0, r0, r0),
			vArr("", r0, vI(1), r0),
			vArr("", r0, vArr("", r0)),
			vArr("", vArr("", r0), r0),
			vArr("", vArr("", r0), vArr("", r0)),
			vArr("", vArr("", vArr("", r0)), r0),
			vHash("", vS("a"), r0, vS("b"), r0),
			vHash("", vS("a"), r0, vS("b"), vI(2), vS("c"), r0),
			vHash("", r0, vI(1), vS("x"), r0),
			vArr("", vI(1), vArr("", r0), vHash("", vS("k"), r0)),
			vHash("", vS("a"), vArr("", r0), vS("b"), vHash("", vS("c"), r0)),
			vArr("", r0, e, r0), // next to an equal unshared one
			vArr("", e, r0),
			vArr("parse", r0, r0),
			vArr("slice", r0, r0),
			vArr("add", r0, r0),
			vHash("merge", vS("a"), r0, vS("b"), r0),
			r0, // alone
			vArr("", r0),
			vHash("", vS("a"), r0),
		}
		for _, c := range ctxs {
			out = append(out, vLet(c, e))
		}
	}
	// two shared nodes, one inside the other, and the library's two empties together
	ea, em := &VR{K: "EmptyArray"}, &VR{K: "EmptyMap"}
	out = append(out,
		vLet(vArr("", vRef(1), vRef(0), vRef(1)), vArr(""), vArr("", vRef(0), vRef(0))),
		vLet(vArr("", vRef(1), vRef(1)), ea, vHash("", vS("k"), vRef(0), vS("l"), vRef(0))),
		vLet(vHash("", vS("a"), vRef(0), vS("b"), vRef(1), vS("c"), vRef(0), vS("d"), vRef(1)), ea, em),
		vLet(vArr("", vRef(2), vRef(2)), vHash(""), vArr("", vRef(0), vRef(0)), vHash("", vS("x"), vRef(1), vS("y"), vRef(1))),
		vArr("", ea, ea), vArr("", em, em), vHash("", vS("a"), ea, vS("b"), ea), vHash("", vS("a"), em, vS("b"), em),
		vArr("", ea, vArr("", ea), vHash("", vS("k"), ea)), vArr("", vArr("", ea, em), vArr("", em, ea)),
	)
	return out
}

// routeCorners: every route at every small size, plain and nested
func routeCorners() []*VR {
	var out []*VR
	elems := []*VR{vI(1), vS("x"), vArr(""), vHash(""), {K: "Undef"}, vArr("", vI(2))}
	for _, via := range arrVias {
		for n := 0; n <= 4; n++ {
			es := make([]*VR, n)
			for i := range es {
				es[i] = elems[(i+n)%len(elems)]
			}
			a := vArr(via, es...)
			out = append(out, a, vArr("", a, a), vHash("", vS("k"), a), vArr(via, a))
		}
	}
	for _, via := range hashVias {
		for n := 0; n <= 3; n++ {
			var kvs []*VR
			for i := 0; i < n; i++ {
				kvs = append(kvs, vS(string(rune('a'+i))), elems[(i+n)%len(elems)])
			}
			h := vHash(via, kvs...)
			out = append(out, h, vArr("", h, h), vHash("", vS("k"), h), vHash(via, vS("z"), h))
		}
	}
	return out
}

// withRoutes: a copy of the recipe in which containers get random routes and some subtrees become shared nodes
func withRoutes(r *lib.Rng, v *VR) *VR {
	var let []*VR
	// some nodes to share exist from the start (the library's empties first)
	sh := shareables()
	for n := r.Intn(3); n > 0; n-- {
		let = append(let, sh[r.Intn(19)])
	}
	if v.K != "Arr" && v.K != "Hash" {
		v = vArr("", v, vI(0))
	}
	var used []int
	var rec func(v *VR, depth int) *VR
	rec = func(v *VR, depth int) *VR {
		if v == nil {
			return nil
		}
		// reuse a node that exists already, in the place of a container or (less often) of a leaf
		if len(let) > 0 && depth > 0 && r.Chance(1, map[bool]int{true: 3, false: 8}[v.K == "Arr" || v.K == "Hash"]) {
			// an instance that is referenced already makes an alias; prefer those
			if len(used) > 0 && r.Chance(2, 3) {
				return vRef(used[r.Intn(len(used))])
			}
			i := r.Intn(len(let))
			used = append(used, i)
			return vRef(i)
		}
		c := *v
		c.Sub = make([]*VR, len(v.Sub))
		for i, e := range v.Sub {
			if v.K == "Hash" && i%2 == 0 {
				c.Sub[i] = e // keys are kept as they are (the keys of a hash stay distinct)
			} else {
				c.Sub[i] = rec(e, depth+1)
			}
		}
		switch c.K {
		case "Arr":
			if len(c.Sub) == 0 && r.Chance(1, 3) {
				return &VR{K: "EmptyArray"}
			}
			if r.Chance(1, 2) {
				c.Via = arrVias[r.Intn(len(arrVias))]
			}
		case "Hash":
			if len(c.Sub) == 0 && r.Chance(1, 3) {
				return &VR{K: "EmptyMap"}
			}
			if r.Chance(1, 2) {
				c.Via = hashVias[r.Intn(len(hashVias))]
			}
		}
		// make it a shared node
		if depth > 0 && (c.K == "Arr" || c.K == "Hash" || c.K == "Str") && r.Chance(1, 3) && len(let) < 5 {
			let = append(let, &c)
			used = append(used, len(let)-1)
			return vRef(len(let) - 1)
		}
		return &c
	}
	return vLet(rec(v, 0), let...)
}

// randomSharedValue: a few shared nodes (library empties, empty and small containers of every route, which may
// hold earlier shared nodes) and a random tree whose slots refer to them often: most values of this family have
// one instance at several positions and at several depths
func randomSharedValue(r *lib.Rng) *VR {
	sh := shareables()
	var let []*VR
	leaf := func() *VR {
		switch r.Intn(5) {
		case 0:
			return vI(int64(r.Intn(7)) - 3)
		case 1:
			return vS(randomWord(r, validOnly(stringAlphabet), r.Intn(3)))
		case 2:
			return &VR{K: "Undef"}
		case 3:
			return &VR{K: "Bool", B: r.Bool()}
		default:
			return fromVSpec(lat.VF(randomFiniteFloat(r)))
		}
	}
	var tree func(depth int) *VR
	slot := func(depth int) *VR {
		switch {
		case len(let) > 0 && r.Chance(2, 5):
			if r.Bool() {
				return vRef(0)
			}
			return vRef(r.Intn(len(let)))
		case depth > 0 && r.Chance(1, 2):
			return tree(depth - 1)
		case r.Chance(1, 6):
			return []*VR{{K: "EmptyArray"}, {K: "EmptyMap"}, vArr(""), vHash("")}[r.Intn(4)]
		}
		return leaf()
	}
	tree = func(depth int) *VR {
		n := r.Intn(4)
		if r.Bool() {
			es := make([]*VR, n)
			for i := range es {
				es[i] = slot(depth)
			}
			return vArr(arrVias[r.Intn(len(arrVias))], es...)
		}
		var kvs []*VR
		for i := 0; i < n; i++ {
			kvs = append(kvs, vS(string(rune('a'+i))), slot(depth))
		}
		via := hashVias[r.Intn(len(hashVias))]
		return vHash(via, kvs...)
	}
	for n := 1 + r.Intn(3); n > 0; n-- {
		if r.Chance(2, 3) {
			let = append(let, sh[r.Intn(19)])
		} else {
			let = append(let, tree(0))
		}
	}
	root := tree(1 + r.Intn(2))
	for len(root.Sub) < 2 {
		root = tree(1 + r.Intn(2))
	}
	return vLet(root, let...)
}
