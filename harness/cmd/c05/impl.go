// Worker side of C05: the implementation calls (print, lex, parse, compare) and the projection of their results.
package main

import (
	"encoding/hex"
	"encoding/json"
	"fmt"
	"math"
	"runtime"
	"strconv"

	"github.com/lyraproj/issue/issue"
	"github.com/lyraproj/pcore/pcore"
	"github.com/lyraproj/pcore/px"
	"github.com/lyraproj/pcore/types"
)

// classOf maps a recovered panic value to a small class.
func classOf(r interface{}) (class, msg string) {
	switch e := r.(type) {
	case nil:
		return "ok", ""
	case issue.Reported:
		return "reported:" + string(e.Code()), clip(e.Error())
	case runtime.Error:
		return "runtime", clip(e.Error())
	case error:
		return "error", clip(e.Error())
	default:
		return "panic", clip(fmt.Sprint(r))
	}
}

func clip(s string) string {
	if len(s) > 300 {
		return s[:300] + "..."
	}
	return s
}

func guard(f func()) (class, msg string) {
	defer func() { class, msg = classOf(recover()) }()
	f()
	return
}

func hx(s string) string { return hex.EncodeToString([]byte(s)) }

// firstToken: kind and text of the first token of text, how the lexer ended, and the number of tokens
func firstToken(text string, aux map[string]string) {
	toks, failure, _, _ := types.VerifTokens(text)
	c, _ := classOf(failure)
	aux["lexclass"] = c
	aux["ntok"] = strconv.Itoa(len(toks))
	if len(toks) > 0 {
		aux["tokkind"] = strconv.Itoa(toks[0].Kind)
		aux["toktext"] = hx(toks[0].Text)
	}
}

// roundTripValue prints v in program format, parses the text back (resolving deferred types), and compares.
func roundTripValue(v px.Value, o *Obs) {
	var text string
	c, m := guard(func() { text = px.ToString2(v, types.Program) })
	o.Aux["printclass"] = c
	if c != "ok" {
		o.Msg = m
		return
	}
	o.Out = hx(text)
	firstToken(text, o.Aux)
	parseObs(text, o.Aux)
	o.Aux["pprinted"] = "1" // the text is what the value printer wrote (tie of print_lit, Model/LiteralText.v)
	var pv px.Value
	c, m = guard(func() {
		pcore.Do(func(ctx px.Context) {
			pv = types.ResolveDeferred(ctx, types.Parse(text), px.EmptyMap)
		})
	})
	o.Aux["parseclass"] = c
	if c != "ok" {
		o.Msg = m
		return
	}
	eq := false
	c, m = guard(func() { eq = v.Equals(pv, nil) && pv.Equals(v, nil) })
	o.Aux["eqclass"] = c
	o.Aux["equal"] = strconv.FormatBool(eq)
	var text2 string
	c, _ = guard(func() { text2 = px.ToString2(pv, types.Program) })
	if c == "ok" {
		o.Aux["text2"] = hx(text2)
	}
	if dv := types.VerifDecodeValue(pv); dv != nil {
		o.Aux["parsedkind"] = dv.K
		switch dv.K {
		case "Str", "Regexp":
			o.Aux["parsed"] = hx(dv.S)
		case "Int":
			o.Aux["parsed"] = strconv.FormatInt(dv.I, 10)
		}
	}
}

// roundTripType prints t, parses the text back with Context.ParseType, and compares.
func roundTripType(t px.Type, o *Obs) {
	var text string
	if _, isObj := t.(px.ObjectType); isObj {
		expandedObs(t, o.Aux)
	}
	c, m := guard(func() { text = t.String() })
	o.Aux["printclass"] = c
	if c != "ok" {
		o.Msg = m
		return
	}
	o.Out = hx(text)
	parseObs(text, o.Aux)
	var t2 px.Type
	c, m = guard(func() {
		pcore.Do(func(ctx px.Context) { t2 = ctx.ParseType(text) })
	})
	o.Aux["parseclass"] = c
	if c != "ok" {
		o.Msg = m
		return
	}
	eq := false
	c, m = guard(func() { eq = t.Equals(t2, nil) && t2.Equals(t, nil) })
	o.Aux["eqclass"] = c
	o.Aux["equal"] = strconv.FormatBool(eq)
	var text2 string
	c, _ = guard(func() { text2 = t2.String() })
	o.Aux["print2class"] = c
	o.Aux["text2"] = hx(text2)
	if b, err := json.Marshal(types.VerifDecodeType(t)); err == nil {
		o.Aux["dec"] = string(b)
	}
	// oracles of the model: which nested types accept undef (the Struct key convention asks the lattice),
	// and how the float bounds are rendered
	var au []*types.VerifTy
	floats := map[string]string{}
	guard(func() {
		t.Accept(func(x px.Type) {
			if px.IsAssignable(x, types.DefaultUndefType()) {
				au = append(au, types.VerifDecodeType(x))
			}
			if ft, ok := x.(*types.FloatType); ok {
				for _, f := range []float64{ft.Min(), ft.Max()} {
					txt := types.WrapValues([]px.Value{types.WrapFloat(f)}).String()
					floats[strconv.FormatInt(types.VerifFloatKey(f), 10)] = hx(txt[1 : len(txt)-1])
				}
			}
		}, nil)
	})
	if b, err := json.Marshal(au); err == nil {
		o.Aux["au"] = string(b)
	}
	if b, err := json.Marshal(floats); err == nil {
		o.Aux["floats"] = string(b)
	}
	if b, err := json.Marshal(types.VerifDecodeType(t2)); err == nil {
		o.Aux["dec2"] = string(b)
	}
}

// expandedObs: an Object type printed in full (types.Expanded: also a named one), parsed back, compared
func expandedObs(t px.Type, aux map[string]string) {
	var text string
	c, m := guard(func() { text = px.ToString2(t, types.Expanded) })
	aux["exprint"] = c
	if c != "ok" {
		aux["exmsg"] = m
		return
	}
	aux["extext"] = hx(text)
	var t2 px.Type
	c, m = guard(func() { pcore.Do(func(ctx px.Context) { t2 = ctx.ParseType(text) }) })
	aux["exparse"] = c
	if c != "ok" {
		aux["exmsg"] = m
		return
	}
	eq := false
	c, _ = guard(func() { eq = t.Equals(t2, nil) && t2.Equals(t, nil) })
	aux["exeqclass"] = c
	aux["exequal"] = strconv.FormatBool(eq)
	var text2 string
	c, _ = guard(func() { text2 = px.ToString2(t2, types.Expanded) })
	if c == "ok" {
		aux["extext2"] = hx(text2)
	}
}

func handle(r Req) (o Obs) {
	o.Class = "ok"
	o.Aux = map[string]string{}
	defer func() {
		if x := recover(); x != nil {
			o.Class, o.Msg = classOf(x)
			o.Class = "harness:" + o.Class
		}
	}()
	switch r.Op {
	case "S": // a string value
		roundTripValue(types.WrapString(r.In), &o)
	case "R": // a regexp value from its source
		var v px.Value
		c, _ := guard(func() { v = types.WrapRegexp(r.In) })
		if c != "ok" {
			o.Class = "notaregexp"
			return
		}
		// Go's regexp keeps the source text as given
		o.Aux["source"] = hx(v.(*types.Regexp).PatternString())
		roundTripValue(v, &o)
	case "I": // an integer
		i, err := strconv.ParseInt(r.In, 10, 64)
		if err != nil {
			panic(err)
		}
		roundTripValue(types.WrapInteger(i), &o)
	case "F": // a float, given by its bits
		b, err := strconv.ParseUint(r.In, 10, 64)
		if err != nil {
			panic(err)
		}
		roundTripValue(types.WrapFloat(math.Float64frombits(b)), &o)
	case "V": // a literal value from a recipe
		var vs VR
		if err := json.Unmarshal([]byte(r.In), &vs); err != nil {
			panic(err)
		}
		var v px.Value
		c, m := guard(func() { v = vs.Build() })
		if c != "ok" {
			o.Class = "nobuild"
			o.Msg = m
			return
		}
		heapObs(v, o.Aux)
		roundTripValue(v, &o)
	case "T": // a type from a recipe
		var ts Recipe
		if err := json.Unmarshal([]byte(r.In), &ts); err != nil {
			panic(err)
		}
		var t px.Type
		if ts.K == "Object" && ts.Obj != nil {
			guard(func() { objectCase(ts.Obj, o.Aux) })
		}
		c, m := guard(func() { t = ts.BuildVia() })
		if c != "ok" {
			// the constructor rejects the recipe (e.g. min > max): not a type
			o.Class = "nobuild"
			o.Msg = m
			return
		}
		switch ts.Via {
		case "parsed": // the type the parser makes of the text of the constructed one (second generation)
			var t2 px.Type
			c, m = guard(func() { pcore.Do(func(ctx px.Context) { t2 = ctx.ParseType(t.String()) }) })
			if c != "ok" {
				o.Class = "nobuild"
				o.Msg = m
				return
			}
			t = t2
		}
		roundTripType(t, &o)
	case "P": // a type given by its text: what the parser and the creators make of it
		createObs(r.In, o.Aux)
		t, c, m := parseTypeText(r.In)
		if c != "ok" {
			o.Class = "nobuild"
			o.Aux["buildclass"] = c
			o.Msg = m
			return
		}
		roundTripType(t, &o)
	case "Q": // a literal value given by its text: what the parser and the resolver make of it
		var v px.Value
		c, m := guard(func() {
			pcore.Do(func(ctx px.Context) { v = types.ResolveDeferred(ctx, types.Parse(r.In), px.EmptyMap) })
		})
		if c != "ok" {
			o.Class = "nobuild"
			o.Aux["buildclass"] = c
			o.Msg = m
			return
		}
		heapObs(v, o.Aux)
		roundTripValue(v, &o)
	case "X": // an extension of a parameterized Object type, declared and round-tripped in one context
		var x XR
		if err := json.Unmarshal([]byte(r.In), &x); err != nil {
			panic(err)
		}
		extCase(&x, &o)
	case "L": // the lexer alone on a text: first token; and the parser on its tokens
		firstToken(r.In, o.Aux)
		parseObs(r.In, o.Aux)
		// value of an integer token as the parser computes it
		if o.Aux["tokkind"] == "3" {
			b, _ := hex.DecodeString(o.Aux["toktext"])
			if i, err := strconv.ParseInt(string(b), 0, 64); err == nil {
				o.Aux["intval"] = strconv.FormatInt(i, 10)
			} else {
				o.Aux["intval"] = "error"
			}
		}
	default:
		o.Class = "harness:unknown-op"
	}
	return
}

func serve() { workerMain(handle) }
